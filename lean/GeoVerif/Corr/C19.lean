import GeoVerif.Corr.Proto
import GeoVerif.Model.Harmonic
import GeoVerif.Model.HarmonicGlue
/-!
Correspondence for C19.

* `coeff`: the `Int` model of the packed storage (`index`, `Csize`, `Ssize`, constructor checks, unchecked and
  range-checked accessors) against the real `SphericalEngine::coeff` object — exact.
* `shm`: the `RealLike` models of `SphericalEngine::Value<false, norm, L>`, `Value<true, norm, L>` (value and Cartesian
  gradient), `SphericalEngine::Circle<gradp, norm, L>` + `CircularEngine::Value` (L = 1, 2, 3, both normalisations,
  truncated secondary sets) executed in binary64 against `SphericalHarmonic`, `SphericalHarmonic1`,
  `SphericalHarmonic2` and their `Circle(…)(lon)` — tolerance relative to `Σ|terms|` (of the value, resp. of the
  gradient components).
* `mag`: epoch selection and time interpolation of `MagneticModel::FieldGeocentric` from the implementation's own
  per-epoch harmonic gradients.
* `ngu`: closed forms of the normal potential (oblate, prolate, sphere) and of `FlatteningToJ2` (oblate) — condition-aware tolerance.
* `ngj`: the flattening returned by `J2ToFlattening` is a zero of the model's Newton residual `j2Residual` (oblate branch).
-/
namespace GeoVerif.Corr.C19
open GeoVerif GeoVerif.Proto GeoVerif.Harmonic

def pfl (s : String) : Option Float := (hexToNat s).bind fun n => if s.length == 16 then some (Float.ofBits n.toUInt64) else none
def shw (x : Float) : String := toString x ++ "[" ++ natToHex x.toBits.toNat 16 ++ "]"
def fabs (x : Float) : Float := Float.abs x
def eps53 : Float := 1.1102230246251565e-16

/-- `scale()` = 2^(−3·1024/5) = 2^−614 and `eps()` = 2^−52·√(2^−52) = 2^−78 -/
def scaleF : Float := Float.scaleB 1.0 (-614)
def epsF : Float := Float.scaleB 1.0 (-78)

/-! ### coeff -/

def intList (n : Int) (sign : Int) : List Int := (List.range n.toNat).map fun (k : Nat) => sign * ((k : Int) + 1)

def coeffExpected (N nmx mmx Ms : Int) : Option (List Int) :=
  let cs := if N ≥ -1 ∧ Ms ≥ -1 then csize N Ms else 0
  let ss := if N ≥ -1 ∧ Ms ≥ -1 then ssize N Ms else 0
  let cs := max cs 0
  let ss := max ss 0
  if !(validDims N nmx mmx && arraysOk N nmx mmx cs ss) then none else
  let c : Coeff Int := ⟨N, nmx, mmx, intList cs 1, intList ss (-1)⟩
  let body := (List.range (N + 2).toNat).flatMap fun (nn : Nat) =>
    (List.range ((min (nn : Int) Ms) + 1).toNat).flatMap fun (mm : Nat) =>
      let n : Int := nn
      let m : Int := mm
      let k := index N n m
      let stored : Bool := decide (n ≤ N)
      let cu := if stored then c.cv0 0 k else 0
      let su := if stored && m != 0 then c.sv0 0 k else 0
      let cc := c.cv 0 k n m 2
      let sc := if m != 0 then c.sv 0 k n m 2 else 0
      [n, m, k, cu, su, cc, sc]
  some (csize N Ms :: ssize N Ms :: body)

/-! ### shm -/

structure SetArgs where
  N : Int
  nmx : Int
  mmx : Int
  tau : Float

/-- parse `L` dimension groups: `N nmx mmx Ms [tau]` -/
def parseDims : Nat → Bool → List String → Option (List SetArgs × List String)
  | 0, _, rest => some ([], rest)
  | l + 1, first, sN :: snmx :: smmx :: _sMs :: rest => do
    let N ← sN.toInt?; let nmx ← snmx.toInt?; let mmx ← smmx.toInt?
    if first then
      let (more, rest') ← parseDims l false rest
      pure (⟨N, nmx, mmx, 1.0⟩ :: more, rest')
    else
      match rest with
      | st :: rest2 => do
        let tau ← pfl st
        let (more, rest') ← parseDims l false rest2
        pure (⟨N, nmx, mmx, tau⟩ :: more, rest')
      | [] => none
  | _, _, _ => none

/-- parse `clen slen C… S…` for each set; returns the sets and what follows them -/
def parseArrays : List SetArgs → List String → Option (List (Coeff Float × Float) × List String)
  | [], rest => some ([], rest)
  | s :: more, scl :: ssl :: rest => do
    let cl ← scl.toNat?; let sl ← ssl.toNat?
    let C ← (rest.take cl).mapM pfl
    let S ← ((rest.drop cl).take sl).mapM pfl
    if C.length != cl || S.length != sl then none else
    let (tail, rest') ← parseArrays more ((rest.drop cl).drop sl)
    pure ((⟨s.N, s.nmx, s.mmx, C, S⟩, s.tau) :: tail, rest')
  | _, _ => none

def handleShm (args res : List String) : Verdict :=
  match args with
  | snorm :: sL :: _cmode :: _seed :: sa :: sx :: sy :: sz :: rest =>
    match snorm.toNat?, sL.toNat?, pfl sa, pfl sx, pfl sy, pfl sz, res.mapM pfl with
    | some norm, some L, some a, some x, some y, some z, some [v, gx, gy, gz, vc, mag, gmag, bound, vcg, cgx, cgy, cgz] =>
      match parseDims L true rest with
      | some (dims, rest') =>
        match parseArrays dims rest' with
        | some (sets, tail) =>
          match tail.mapM pfl with
          | some [p, slon, clon] =>
            let full := norm == 0
            let (mv, mgx, mgy, mgz) := valueGrad full sets x y z a scaleF epsF
            let mv0 := value full sets x y z a scaleF epsF
            let N := match dims with | d :: _ => d.nmx | [] => 0
            let n2 : Float := Float.ofInt (N + 2)
            let rel : Float := 1e-12 * (if N + 1 > 32 then Float.ofInt (N + 1) / 32 else 1)
            -- r, cos θ, sin θ are rounded (and the model's hypot differs from libm's in the last bits): |∇V|·r·ε is a legitimate difference
            let rr := Float.sqrt (x * x + y * y + z * z)
            let uf := Float.scaleB 1.0 (-450) * (if a > 0 then 1 + a / rr else 1)
            let tol := rel * mag + 16 * eps53 * rr * gmag + uf
            -- the same for the gradient: its own derivative scale is (N + 2)/r times larger; pole offset eps() and underflow floor as documented
            let tolg := rel * gmag + 16 * eps53 * n2 * gmag + uf * n2 / rr + 1e-22 * n2 * n2 * bound / rr
            let close (t a b : Float) : Bool := (a.isNaN && b.isNaN) || fabs (a - b) ≤ t
            if !(mag < 1e290 && gmag < 1e290) then .skip "overflow"
            else if !(close tol v mv0) then
              .bad s!"SphericalEngine::Value: impl={shw v} formula model={shw mv0} tolerance {tol} (sum|terms| {mag})"
            else if !(close tol v mv && close tolg gx mgx && close tolg gy mgy && close tolg gz mgz) then
              .bad s!"SphericalEngine::Value<gradp=true>: impl=({shw v}; {shw gx}, {shw gy}, {shw gz}) formula model=({shw mv}; {shw mgx}, {shw mgy}, {shw mgz}) tolerances {tol}, {tolg} (sum|terms| {mag}, {gmag})"
            else
              match circle full false sets p z a scaleF epsF, circle full true sets p z a scaleF epsF with
              | some c0, some c1 =>
                let (cv0, _, _, _) := circValue full c0 clon slon scaleF
                let (cv1, c1x, c1y, c1z) := circValue full c1 clon slon scaleF
                if !(close tol vc cv0) then
                  .bad s!"SphericalEngine::Circle<gradp=false> + CircularEngine::Value: impl={shw vc} formula model={shw cv0} tolerance {tol} (sum|terms| {mag})"
                else if !(close tol vcg cv1 && close tolg cgx c1x && close tolg cgy c1y && close tolg cgz c1z) then
                  .bad s!"SphericalEngine::Circle<gradp=true> + CircularEngine::Value: impl=({shw vcg}; {shw cgx}, {shw cgy}, {shw cgz}) formula model=({shw cv1}; {shw c1x}, {shw c1y}, {shw c1z}) tolerances {tol}, {tolg} (sum|terms| {mag}, {gmag})"
                else .ok
              | _, _ =>
                -- order −1: the circle object is empty and evaluates to 0
                if close tol vc 0 && close tol vcg 0 then .ok
                else .bad s!"CircularEngine of an empty sum: impl={shw vc}, {shw vcg} expected 0"
          | _ => .bad "parse circle arguments"
        | none => .bad "parse arrays"
      | none => .bad "parse dims"
    | _, _, _, _, _, _, _ => if res == ["!E"] then .skip "rejected" else .bad "parse"
  | _ => .bad "parse"

/-! ### mag -/

def sameF (a b : Float) : Bool := a == b || (a.isNaN && b.isNaN)

/-- both copies of the epoch logic against the one definition `epochSplit` / `fieldCombine`:
    (1) `MagneticModel::FieldGeocentric` = `fieldOfTime` on the implementation's own per-epoch gradients;
    (2) what `MagneticModel::Circle` stored in the circle (`_t1`, `_interpolate`, `_dt0`) = `epochSplit`, and
        `MagneticCircle::FieldGeocentric` = `circleField` on the circle's own per-epoch sums -/
def handleMag (args res : List String) : Verdict :=
  -- seed norm nmod ncon N M dt0 t lat lon h Nmax Mmax | t0 dt0 rad k nb g… [t1c interpc constc dt0c k0×3 k1×3 k2×3 cG×6]
  match args with
  | _seed :: _norm :: snmod :: sncon :: _N :: _M :: _dt :: st :: _lat :: _lon :: _h :: _Nmax :: _Mmax :: st0 :: sdt0 :: srad :: _sk :: snb :: gs =>
    match snmod.toNat?, sncon.toNat?, pfl st, pfl st0, pfl sdt0, pfl srad, snb.toNat?, res.mapM pfl with
    | some nmod, some ncon, some t, some t0, some dt0, some rad, some nb, some [BX, BY, BZ, BXt, BYt, BZt] =>
      match (gs.take (3 * nb)).mapM pfl with
      | none => .bad "parse (kernel values)"
      | some g =>
      if g.length != 3 * nb || nb != nmod + 1 + ncon then .bad "parse (kernel values)" else
      let E := epochSplit t t0 dt0 nmod
      let comp (j : Nat) : Float × Float × Float :=
        let B (i : Nat) : Float := g.getD (3 * i + j) 0
        let Bc : Float := if ncon > 0 then B (nmod + 1) else 0
        let (fld, rate) := fieldOfTime B Bc t t0 dt0 nmod
        let n := E.n
        let sc := fabs (B n) + fabs (B (n + 1)) * (1 + fabs ((t - t0) / dt0)) + fabs Bc + fabs (fld)
        (fld * (-rad), rate * (-rad), sc * rad)
      let chk (j : Nat) (b bt : Float) : Bool :=
        let (mf, mr, sc) := comp j
        fabs (mf - b) ≤ 1e-14 * sc && fabs (mr - bt) ≤ 1e-14 * sc * (1 + 1 / dt0)
      if !(chk 0 BX BXt && chk 1 BY BYt && chk 2 BZ BZt) then
        let (m0, r0, _) := comp 0; let (m1, r1, _) := comp 1; let (m2, r2, _) := comp 2
        .bad s!"MagneticModel::FieldGeocentric: impl=({shw BX},{shw BY},{shw BZ}; {shw BXt},{shw BYt},{shw BZt}) time-interpolation model=({shw m0},{shw m1},{shw m2}; {shw r0},{shw r1},{shw r2}) epoch index {E.n}"
      else
      -- the circle's copy
      match gs.drop (3 * nb) with
      | [] => .ok
      | st1 :: sip :: sct :: sdtc :: ks =>
        match pfl st1, sip.toNat?, sct.toNat?, pfl sdtc, ks.mapM pfl with
        | some t1c, some ipc, some ctc, some dtc, some [a0, a1, a2, b0, b1, b2, c0, c1, c2, GX, GY, GZ, GXt, GYt, GZt] =>
          let tolT := 4 * eps53 * (fabs (t - t0) + Float.ofNat E.n * fabs dt0)
          if !((t1c.isNaN && E.t1.isNaN) || fabs (t1c - E.t1) ≤ tolT) || (ipc != 0) != E.interp || (ctc != 0) != (ncon > 0) || !(sameF dtc dt0) then
            .bad s!"MagneticModel::Circle: stored t1={shw t1c} interpolate={ipc} constterm={ctc} dt0={shw dtc}; epoch-selection model: n={E.n} t1={shw E.t1} interpolate={E.interp} (t={shw t} t0={shw t0} dt0={shw dt0} models={nmod})"
          else
            let Ec : Epoch Float := ⟨E.n, t1c, ipc != 0⟩
            let one (K0 K1 Kc G Gt : Float) : Bool :=
              let (fld, rate) := circleField Ec K0 K1 (if ctc != 0 then Kc else 0) dtc
              let sc := (fabs K0 + fabs K1 * (1 + fabs (t1c / dtc)) + fabs Kc + fabs fld) * rad
              fabs (fld * (-rad) - G) ≤ 1e-14 * sc && fabs (rate * (-rad) - Gt) ≤ 1e-14 * sc * (1 + 1 / dtc)
            if one a0 b0 c0 GX GXt && one a1 b1 c1 GY GYt && one a2 b2 c2 GZ GZt then .ok
            else .bad s!"MagneticCircle::FieldGeocentric: impl=({shw GX},{shw GY},{shw GZ}; {shw GXt},{shw GYt},{shw GZt}) differs from the combination model on the circle's own sums (t1={shw t1c}, interpolate={ipc})"
        | _, _, _, _, _ => .bad "parse (circle kernel values)"
      | _ => .bad "parse (circle kernel values)"
    | _, _, _, _, _, _, _, _ => if res.head?.map (·.startsWith "!") == some true then .skip "rejected" else .bad "parse"
  | _ => if res.head?.map (·.startsWith "!") == some true then .skip "rejected" else .bad "parse"

/-! ### fcomp -/

def handleFcomp (args res : List String) : Verdict :=
  match args.mapM pfl, res.mapM pfl with
  | some [bx, by_, bz, bxt, byt, bzt], some [H, F, D, I, Ht, Ft, Dt, It] =>
    let m : Comps Float := fieldComponents bx by_ bz bxt byt bzt
    let e8 := 8 * eps53
    let degF : Float := degree
    let sH := fabs m.F + 1e-300
    let angOk (a b : Float) : Bool := fabs (a - b) ≤ 1e-13 * 180 || fabs (fabs (a - b) - 360) ≤ 1e-13 * 360
    let cH := if m.H == 0 then fabs bxt + fabs byt else (fabs (bx * bxt) + fabs (by_ * byt)) / m.H
    let cD := if m.H == 0 then 0 else (fabs (by_ * bxt) + fabs (bx * byt)) / (m.H * m.H) / degF
    let cF := if m.F == 0 then fabs m.Ht + fabs bzt + cH else (m.H * (fabs m.Ht + cH) + fabs (bz * bzt)) / m.F
    let cI := if m.F == 0 then 0 else (fabs bz * (fabs m.Ht + cH) + fabs (m.H * bzt)) / (m.F * m.F) / degF
    if !(fabs (H - m.H) ≤ e8 * sH && fabs (F - m.F) ≤ e8 * sH) then .bad s!"FieldComponents: H, F impl={shw H}, {shw F} model={shw m.H}, {shw m.F}"
    else if !(angOk D m.D && angOk I m.I) then .bad s!"FieldComponents: D, I impl={shw D}, {shw I} model={shw m.D}, {shw m.I}"
    else if !(fabs (Ht - m.Ht) ≤ e8 * cH + 1e-300 && fabs (Ft - m.Ft) ≤ 2 * e8 * cF + 1e-300 && fabs (Dt - m.Dt) ≤ e8 * cD + 1e-300 && fabs (It - m.It) ≤ 2 * e8 * cI + 1e-300) then
      .bad s!"FieldComponents: rates impl=({shw Ht}, {shw Ft}, {shw Dt}, {shw It}) model=({shw m.Ht}, {shw m.Ft}, {shw m.Dt}, {shw m.It})"
    else .ok
  | _, _ => .bad "parse"

/-! ### gzon -/

def handleGzon (args res : List String) : Verdict :=
  -- seed norm N M dgm fl Nmax | nmx mult amult GMref GMmodel (cC_n Jn_n)… ; res: dzonal0 len zonal…
  match args with
  | _seed :: snorm :: _N :: _M :: _dgm :: _fl :: _Nmax :: snmx :: smult :: samult :: sgr :: sgm :: rest =>
    match snorm.toNat?, snmx.toInt?, pfl smult, pfl samult, pfl sgr, pfl sgm, rest.mapM pfl, res with
    | some norm, some nmxI, some mult, some amult, some GMref, some GMmodel, some kv, sdz :: slen :: sz =>
      match pfl sdz, slen.toNat?, sz.mapM pfl with
      | some dz, some len, some z =>
        if z.length != len then .bad "parse (zonal length)" else
        if nmxI < 0 then (if len == 1 then .ok else .bad "zonal table of an empty model") else
        let nmx := nmxI.toNat
        let cC (n : Nat) : Float := kv.getD (2 * n) 0
        let Jn (n : Nat) : Float := kv.getD (2 * n + 1) 0
        let full := norm == 0
        let mz := zonalTable full mult amult Jn cC nmx
        let mdz := (GMref - GMmodel) / GMmodel
        let k := min mz.length z.length
        let pre := (List.range k).all fun i => fabs (mz.getD i 0 - z.getD i 0) ≤ 8 * eps53 * fabs (mz.getD i 0)
        -- a different exit point is acceptable only where the decision `t == r` is within round-off
        let borderline : Bool :=
          if mz.length == z.length then true else
          let n := k + 1       -- the degree at which the shorter table stopped
          let j := n / 2
          let s := mult * Float.pow amult (Float.ofNat j) * fabs (Jn n) / (if full then Float.sqrt (Float.ofNat (2 * n + 1)) else 1)
          s ≤ 4 * eps53 * fabs (cC n) && fabs s ≥ 0.25 * eps53 * fabs (cC n)
        if !(fabs (dz - mdz) ≤ 4 * eps53 * fabs mdz) then .bad s!"GravityModel: _dzonal0 impl={shw dz} model (GMref - GMmodel)/GMmodel={shw mdz}"
        else if !pre then .bad s!"GravityModel: normal zonal terms impl={z.map shw} model of the constructor loop={mz.map shw}"
        else if !borderline then .bad s!"GravityModel: the loop over the normal zonal terms stopped at a different degree: impl holds {z.length} entries, the model {mz.length} (nmx={nmx})"
        else .ok
      | _, _, _ => .bad "parse"
    | _, _, _, _, _, _, _, _ => if res.head?.map (·.startsWith "!") == some true then .skip "rejected" else .bad "parse"
  | _ => if res.head?.map (·.startsWith "!") == some true then .skip "rejected" else .bad "parse"

/-! ### paths, rdco, gcaps, ngv -/

def pstr (s : String) : Option String := (parseS s).map bytesToString

/-- compile-time defaults (`GEOGRAPHICLIB_DATA` of the Config.h generated by `check`, `GEOGRAPHICLIB_*_DEFAULT_NAME`) -/
def builtinData : String := "/usr/local/share/GeographicLib"

def handlePaths (args res : List String) : Verdict :=
  match args.mapM (·.toNat?), res.mapM pstr with
  | some [kind, spec, data, nm], some [gotPath, gotName, vspec, vdata, vname] =>
    let env (st : Nat) (v : String) : Option String := if st == 0 then none else if st == 1 then some "" else some v
    let sub := if kind == 0 then "gravity" else "magnetic"
    let wantPath := defaultPath (env spec vspec) (env data vdata) builtinData sub
    let wantName := defaultName (env nm vname) (if kind == 0 then "egm96" else "wmm2025")
    if gotPath != wantPath then .bad s!"default path: impl='{gotPath}' lookup model='{wantPath}'"
    else if gotName != wantName then .bad s!"default name: impl='{gotName}' lookup model='{wantName}'"
    else .ok
  | _, _ => .bad "parse"

def handleRdco (args res : List String) : Verdict :=
  match args.mapM (·.toInt?) with
  | some [N0, M0, Nreq, Mreq, tr] =>
    let trunc := tr != 0
    match readDims trunc Nreq Mreq N0 M0, res with
    | none, ["!E"] => .ok
    | none, _ => .bad s!"readcoeffs accepted a header / request the model rejects (N0={N0} M0={M0} request {Nreq} {Mreq} truncate={trunc})"
    | some (N, M), ["!E"] => .bad s!"readcoeffs rejected a block the model reads as degree {N}, order {M}"
    | some (N, M), r =>
      match r.mapM (·.toInt?) with
      | some got =>
        let C := (readSelC N0 N M).map (· + 1)
        let S := (readSelS N0 N M).map fun k => -(k + 1)
        let exp : List Int := [N, M, C.length, S.length] ++ C ++ S ++ [blockBytes N0 M0, 1, 1, 4]
        if got == exp then .ok
        else .bad s!"readcoeffs: impl (N M |C| |S| C… S… position next-block) = {got} model = {exp}"
      | none => .bad "parse"
  | _ => .bad "parse"

def handleGcaps (args res : List String) : Verdict :=
  match args.mapM (·.toNat?), res.mapM (·.toNat?) with
  | some [caps, hz], some (got :: flags) =>
    let T := capTableDoc
    let eff := gcEffCaps T caps (hz != 0)
    let members : List GcMember := [.gravity, .w, .v, .disturbance, .tGrad, .t, .sphericalAnomaly, .geoidHeight]
    let exp := members.map fun m => if gcEnabled T eff m then 1 else 0
    if got != eff then .bad s!"GravityCircle::Capabilities() = {got}, capability model = {eff} (caps={caps}, h = 0: {hz != 0})"
    else if flags != exp then .bad s!"GravityCircle members returning a number (Gravity W V Disturbance T(lon,delta) T(lon) SphericalAnomaly GeoidHeight) = {flags}, capability model = {exp} (caps={caps}, h = 0: {hz != 0})"
    else .ok
  | _, _ => if res.head?.map (·.startsWith "!") == some true then .skip "rejected" else .bad "parse"

def handleNgv (args res : List String) : Verdict :=
  match args.mapM pfl, res.mapM pfl with
  | some [_a, _GM, om, _f, X, Y, _Z], some [V0, phi, U, fX, fY, G0, G1, G2, g0, g1, g2] =>
    let mphi := phiRot om X Y
    let e4 := 4 * eps53
    if !(fabs (phi - mphi) ≤ e4 * fabs mphi && fabs (fX - om * om * X) ≤ e4 * fabs (om * om * X) && fabs (fY - om * om * Y) ≤ e4 * fabs (om * om * Y)) then
      .bad s!"NormalGravity::Phi: impl={shw phi} grad ({shw fX}, {shw fY}) model={shw mphi}"
    else if !(fabs (U - (V0 + phi)) ≤ e4 * (fabs V0 + fabs phi) && fabs (g0 - (G0 + fX)) ≤ e4 * (fabs G0 + fabs fX) && fabs (g1 - (G1 + fY)) ≤ e4 * (fabs G1 + fabs fY) && sameF g2 G2) then
      .bad s!"NormalGravity::U = V0 + Phi: U={shw U} V0={shw V0} Phi={shw phi}; gradients ({shw g0}, {shw g1}, {shw g2}) vs ({shw G0}, {shw G1}, {shw G2}) + ({shw fX}, {shw fY}, 0)"
    else .ok
  | _, _ => if res == ["!E"] then .skip "rejected" else .bad "parse"

/-! ### ngu -/

def handleNgu (args res : List String) : Verdict :=
  match args.mapM pfl, res.mapM pfl with
  | some [GM, om, a, f, u, _beta, b, E, sb, cb], some [U, j2] =>
    if f > 0 then
      let mU := normalU GM om a b E u sb cb
      -- conditioning of q(u) = ½[(1 + 3u²/E²)·atan(E/u) − 3u/E]: the two terms are ≈ 3u/E each
      let relq (w : Float) : Float := 16 * eps53 * (3 * w / E) / fabs (qfun E w)
      let rot := om * om * a * a / 2 * fabs (qfun E u / qfun E b) * fabs (sb * sb - 1 / 3)
      let tolU := 16 * eps53 * (fabs GM / u + om * om * (u * u + E * E)) + rot * (relq u + relq b)
      let mJ := flatteningToJ2 a GM om f
      let z := Float.sqrt (f * (2 - f)) / (1 - f)
      let K := 2 * (a * om) * (a * om) * a / (15 * GM)
      let corrJ := fabs (K * (1 - f) * (1 - f) * (1 - f) / Qz z)
      let tolJ := 16 * eps53 * (f * (2 - f)) + corrJ * (16 * eps53 * (3 / z) / fabs (Qz z * z * z * z))
      if fabs (mU - U) ≤ tolU && fabs (mJ - j2) ≤ tolJ then .ok
      else .bad s!"NormalGravity: U impl={shw U} closed-form model={shw mU} (tolerance {tolU}); FlatteningToJ2 impl={shw j2} model={shw mJ} (tolerance {tolJ})"
    else if f < 0 then
      let mU := normalUProlate GM om a b E u sb cb
      -- conditioning of q(w) = Q(−w²)·w³ = −½[(1 − 3/w²)·atanh w + 3/w], w = E/u: the two terms are ≈ 3/w each
      let relq (w : Float) : Float := 16 * eps53 * (3 / w) / fabs (QzAlt w * w * w * w)
      let bu := b / u
      let rot := om * om * a * a / 2 * fabs (QzAlt (E / u) / QzAlt (E / b) * bu * bu * bu) * fabs (sb * sb - 1 / 3)
      let tolU := 16 * eps53 * (fabs GM / u * (1 + E / (u - E)) + om * om * (u * u + E * E)) + rot * (relq (E / u) + relq (E / b))
      let mJ := flatteningToJ2Prolate a GM om f
      let w0 := E / b
      let K := 2 * (a * om) * (a * om) * a / (15 * GM)
      let corrJ := fabs (K * (1 - f) * (1 - f) * (1 - f) / QzAlt w0)
      let tolJ := 16 * eps53 * fabs (f * (2 - f)) + corrJ * relq w0
      if !(fabs (mU - U) ≤ tolU) then .bad s!"NormalGravity (prolate): U impl={shw U} closed-form model={shw mU} (tolerance {tolU})"
      else if !(fabs (mJ - j2) ≤ tolJ) then .bad s!"NormalGravity (prolate): FlatteningToJ2 impl={shw j2} model={shw mJ} (tolerance {tolJ})"
      else .ok
    else
      let mU := normalUSphere GM om a u sb cb
      let tolU := 16 * eps53 * (fabs GM / u + om * om * (u * u + a * a * (a / u) * (a / u) * (a / u)))
      if fabs (mU - U) ≤ tolU then .ok
      else .bad s!"NormalGravity (sphere): U impl={shw U} closed-form model={shw mU} (tolerance {tolU})"
  | _, _ => if res == ["!E"] then .skip "rejected" else .bad "parse"

/-! ### ngj: the value returned by `J2ToFlattening` is a zero of the residual of its Newton iteration (oblate branch) -/

def handleNgj (args res : List String) : Verdict :=
  match args.mapM pfl, res.mapM pfl with
  | some [a, GM, om, J2], some [f, _j2] =>
    if f.isNaN then .skip "no solution (NaN)"
    else if f < -1e-5 then
      -- prolate branch: Q0 = Qf(-e2, true) = QzAlt(sqrt(-e2/(1 - e2)))
      let e2 := f * (2 - f)
      let h := j2ResidualProlate a GM om J2 e2
      let w := Float.sqrt (-e2 / (1 - e2))
      let K := 2 * (a * om) * (a * om) * a / (15 * GM)
      let corr := fabs (K * (1 - f) * (1 - f) * (1 - f) / QzAlt w)
      let tol := 64 * eps53 * (fabs e2 + 3 * fabs J2) + corr * (64 * eps53 * (1 + (3 / w) / fabs (QzAlt w * w * w * w)))
      let fb := j2Flattening e2
      if fabs h ≤ tol && fabs (fb - f) ≤ 8 * eps53 * fabs f then .ok
      else .bad s!"NormalGravity::J2ToFlattening (prolate branch): returned f={shw f} (e2={shw e2}) has residual h(e2)={shw h} in the model of the Newton iteration (tolerance {tol}); e2/(1+sqrt(1-e2))={shw fb}"
    else if !(f > 1e-5 && f < 1) then .skip "not on the oblate / prolate branches of the model"
    else
      let e2 := f * (2 - f)
      let h := j2Residual a GM om J2 e2
      -- the closed form of Q(e′) cancels for small e′ (the implementation uses a series there): condition-aware tolerance as for FlatteningToJ2
      let z := Float.sqrt (e2 / (1 - e2))
      let K := 2 * (a * om) * (a * om) * a / (15 * GM)
      let corr := fabs (K * (1 - f) * (1 - f) * (1 - f) / Qz z)
      let tol := 64 * eps53 * (e2 + 3 * fabs J2) + corr * (64 * eps53 * (1 + (3 / z) / fabs (Qz z * z * z * z)))
      -- |f − j2Flattening(e²)|: the returned flattening is the one of e²
      let fb := j2Flattening e2
      if fabs h ≤ tol && fabs (fb - f) ≤ 8 * eps53 * f then .ok
      else .bad s!"NormalGravity::J2ToFlattening: returned f={shw f} (e2={shw e2}) has residual h(e2)={shw h} in the model of the Newton iteration (tolerance {tol}); e2/(1+sqrt(1-e2))={shw fb}"
  | _, _ => if res == ["!E"] then .skip "rejected" else .bad "parse"

def handle (op : String) (args res : List String) : Option Verdict :=
  match op with
  | "coeff" => some <|
    match args.mapM (·.toInt?) with
    | some [N, nmx, mmx, Ms] =>
      match coeffExpected N nmx mmx Ms, res with
      | none, ["!E"] => .ok
      | none, _ => .bad s!"coeff constructor accepted dimensions the model rejects (N={N} nmx={nmx} mmx={mmx})"
      | some _, ["!E"] => .bad s!"coeff constructor rejected dimensions the model accepts (N={N} nmx={nmx} mmx={mmx})"
      | some exp, r =>
        match r.mapM (·.toInt?) with
        | some got =>
          if got == exp then .ok
          else
            let bads := (List.range (min got.length exp.length)).filter fun i => got.getD i 0 != exp.getD i 0
            let i := bads.headD 0
            let j := if i < 2 then 0 else 2 + (i - 2) / 7 * 7
            .bad s!"coeff storage/accessors differ from the model at field {i}: impl={got.getD i 0} model={exp.getD i 0}; record (n m k Cv Sv Cv(k,n,m,2) Sv(k,n,m,2)) impl={(got.drop j).take 7} model={(exp.drop j).take 7} lengths {got.length}/{exp.length}"
        | none => .bad "parse"
    | _ => .bad "parse"
  | "shm" => some (handleShm args res)
  | "mag" => some (handleMag args res)
  | "ngu" => some (handleNgu args res)
  | "ngj" => some (handleNgj args res)
  | "fcomp" => some (handleFcomp args res)
  | "gzon" => some (handleGzon args res)
  | "paths" => some (handlePaths args res)
  | "rdco" => some (handleRdco args res)
  | "gcaps" => some (handleGcaps args res)
  | "ngv" => some (handleNgv args res)
  | "sh" | "grav" | "ng" | "cofbad" | "magx" | "gvacc" | "mgacc" | "modelerr" | "shctor" | "roots" | "gravtool" | "magtool" =>
    some (.skip "judged by the harness oracles on the implementation")
  | _ => none

end GeoVerif.Corr.C19
