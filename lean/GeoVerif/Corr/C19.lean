import GeoVerif.Corr.Proto
import GeoVerif.Model.Harmonic
namespace GeoVerif.Corr.C19
open GeoVerif GeoVerif.Proto GeoVerif.Harmonic

def handle (op : String) (_args _res : List String) : Option Verdict :=
  match op with
  | "coeff" | "sh" | "shm" | "mag" | "grav" | "ng" | "ngj" | "ngu" | "cofbad" => some (.skip "draft")
  | _ => none

end GeoVerif.Corr.C19
