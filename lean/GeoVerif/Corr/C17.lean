import GeoVerif.Corr.Proto
import GeoVerif.Model.VPTree
import GeoVerif.Model.GeodProj
import GeoVerif.Model.IntersectFix
import GeoVerif.Model.IntersectSearch
/-!
Correspondence for C17.

* `nn_search`, `nn_load`: the real tree (text tokens of `Save`) is parsed by the model of `Load`; the model of `Search` must
  return the same distance list as the implementation (and the same index list; if only the indices differ the
  implementation's indices must be distinct points at exactly those distances — ties may legitimately be broken
  differently); the distance list must equal the brute-force specification (`exhaustive`, `tol = 0`); for coordinate
  metrics the tree must satisfy the executable `TreeInv` (`checkInv`).
* `azeq_*`, `gnom_fwd`, `cass_fwd`: the wrapper models of `Model/GeodProj.lean` evaluated in binary64 on the kernel values
  (`Geodesic::Inverse/Direct` outputs obtained by the harness) against the projection classes.
* `ixs_*`: the kernel-parametric model of the Intersect search bookkeeping (`Model/IntersectSearch.lean`) run on the tables of
  `Basic` / `Spherical` / `ConjugateDist` values the harness obtained from the private members of the real object: result,
  coincidence indicator, segmode, the whole list of `All` and the five diagnostic counters must be reproduced; the comparators
  `SetComp` / `RankPoint` / `Dist` and the constructor's constants are compared directly.
* `ix_*`, `tl_*`, `gnom_rev`, `cass_rev`, `nn_bulk`, `nn_geo`, `nn_stats`, `nn_loadraw`: judged by the harness oracles on the implementation.
-/
namespace GeoVerif.Corr.C17
open GeoVerif GeoVerif.Proto GeoVerif.VPTree

def realspec : Int := -63      -- numeric_limits<long long>::digits, integer type
def maxbucket : Int := 10      -- 2 + 4*sizeof(long long)/sizeof(int)

def showInts (l : List Int) : String := "[" ++ ",".intercalate (l.map toString) ++ "]"

/-- split `xs` at the first occurrence of the marker token -/
def splitAt (m : String) (xs : List String) : List String × List String :=
  (xs.takeWhile (· ≠ m), (xs.dropWhile (· ≠ m)).drop 1)

def absI (x : Int) : Int := if x < 0 then -x else x

/-- distance function of the coordinate metrics: kinds 0–2 L1, kind 3 Chebyshev -/
def coordDist (kind : Int) (a b : Int × Int) : Int :=
  let dx := absI (a.1 - b.1); let dy := absI (a.2 - b.2)
  if kind == 3 then (if dx < dy then dy else dx) else dx + dy

def pairs : List Int → List (Int × Int)
  | x :: y :: r => (x, y) :: pairs r
  | _ => []

structure Dump where
  toks : List Int
  /-- distances from the query -/
  dq : Array Int
  /-- coordinates (query first), if dumped -/
  coords : Option (Array (Int × Int))

/-- parse `T toks… (P n+1 coords… | D n dq…)` -/
def parseDump (kind : Int) (xs : List String) : Option Dump := do
  let (t, rest) := if xs.contains "P" then splitAt "P" xs else splitAt "D" xs
  let toks ← t.mapM parseI
  if xs.contains "P" then
    let c ← rest.mapM parseI
    match c with
    | _ :: cs =>
      match pairs cs with
      | q :: ps =>
        let arr := (q :: ps).toArray
        some { toks := toks, dq := (ps.map (coordDist kind q)).toArray, coords := some arr }
      | [] => none
    | [] => none
  else if xs.contains "D" then
    let c ← rest.mapM parseI
    some { toks := toks, dq := (c.drop 1).toArray, coords := none }
  else some { toks := toks, dq := #[], coords := none }

def compareSearch (name : String) (model : List Item) (ret : Int) (ind : List Int) (dq : Nat → Int) : Verdict :=
  let idists := ind.map fun i => dq i.toNat
  let mdists := model.map (·.1)
  if idists != mdists then .bad s!"{name}: implementation distances {showInts idists} (indices {showInts ind}), model of Search {showInts mdists} (indices {showInts (model.map (·.2))})"
  else if ret != retDist model then .bad s!"{name}: function value {ret}, model {retDist model}"
  else if ind != model.map (·.2) then
    -- same distances, other representatives of ties: accepted if they are distinct points
    if ind.eraseDups.length == ind.length then .ok
    else .bad s!"{name}: an index is returned twice: {showInts ind}"
  else .ok

def handleSearch (args res : List String) : Verdict :=
  if res == ["!L"] then .bad "Load threw on the image written by Save" else
  match args.mapM parseI with
  | some [kind, _seed, n, bucket, _via, k, maxdist, mindist, exh, tol, _qseed] =>
    let (r0, rest) := splitAt "T" res
    match r0.mapM parseI, parseDump kind rest with
    | some (ret :: m :: ind), some d =>
      if m.toNat != ind.length then .bad "parse" else
      match load realspec maxbucket d.toks with
      | .error e => .bad s!"Load model rejects the tree written by Save: {e}"
      | .ok t =>
        if t.numpoints != n || t.bucket != bucket then .bad s!"saved header: numpoints {t.numpoints} bucket {t.bucket}, expected {n} {bucket}" else
        let Q : Query := { k := k, maxdist := maxdist, mindist := mindist, exhaustive := exh != 0, tol := tol }
        let dq : Nat → Int := fun i => d.dq.getD i 0
        let tree := t.nodes.toArray
        let vInv : Verdict :=
          match d.coords with
          | some c =>
            if checkInv tree n.toNat bucket.toNat (fun i j => coordDist kind (c.getD (i + 1) (0, 0)) (c.getD (j + 1) (0, 0))) then .ok
            else .bad "TreeInv: the tree built by Initialize (or reloaded) violates the invariant (each index once, bounds enclose the children's distances, children before parents)"
          | none => .ok
        let vSearch : Verdict :=
          match search tree n.toNat bucket.toNat dq Q with
          | none => .bad "model of Search ran out of fuel on a tree written by Save"
          | some model =>
            let idists := ind.map fun i => dq i.toNat
            if Q.exhaustive && Q.tol == 0 then
              let v1 := compareSearch "Search" model ret ind dq
              let bf := bruteforce n.toNat dq Q
              let v2 : Verdict :=
                if idists == bf then .ok
                else .bad s!"Search distances {showInts idists} differ from the brute-force specification {showInts bf}"
              both v1 v2
            else
              -- non-exhaustive / approximate queries: *which* points are returned depends on the traversal order, which the
              -- property does not fix; a result that differs from the model's is accepted if it satisfies the documented
              -- relation (distinct points of the window, ascending, and min(k, #window) of them when tol = 0)
              match compareSearch "Search" model ret ind dq with
              | .ok => .ok
              | v =>
                let window := ((List.range n.toNat).map dq).filter (inWindow Q)
                let valid := ind.eraseDups.length == ind.length && ind.all (fun i => 0 ≤ i && i < n) &&
                  idists.all (inWindow Q) && sortAsc idists == idists && ret == (idists.headD (-1)) &&
                  (Q.tol != 0 || idists.length == min Q.k.toNat window.length)
                if valid then .skip "valid non-exhaustive result, other traversal order than the model" else v
        both vInv vSearch
    | _, _ => .bad "parse"
  | _ => .bad "parse"

def handleLoad (args res : List String) : Verdict :=
  match args.mapM parseI with
  | some [_kind, _seed, n, _bucket, _mseed, nmut, _qseed, k] =>
    let (r0, rest) := splitAt "T" res
    match parseDump 0 rest with
    | none => .bad "parse"
    | some d =>
      let m := load realspec maxbucket d.toks
      match r0, m with
      | ["E"], .error _ => .ok
      | ["E"], .ok _ =>
        -- a stricter validation of corrupted files is harmless; an image written by `Save` must load
        if nmut == 0 then .bad "Load threw on the unmodified image written by Save (the model of Load/Node::Check accepts it)"
        else .skip "Load rejects a corrupted image the model of Node::Check accepts"
      | "X" :: _, _ => .bad "unexpected exception kind"
      | "K" :: _, .error e => .bad s!"Load accepted a token sequence the model rejects ({e})"
      | "K" :: r1, .ok t =>
        if t.numpoints != n then (if r1 == ["S"] then .ok else .bad "Search did not throw although the loaded tree has another number of points")
        else if r1 == ["S"] then .bad "Search threw on a loaded tree with the right number of points"
        else match r1.mapM parseI with
          | some (ret :: cnt :: ind) =>
            if cnt.toNat != ind.length then .bad "parse" else
            let dq : Nat → Int := fun i => d.dq.getD i 0
            let Q : Query := { k := k, maxdist := 9223372036854775807, mindist := -1, exhaustive := true, tol := 0 }
            match search t.nodes.toArray n.toNat t.bucket.toNat dq Q with
            | none => .skip "loaded tree is not a tree (shared or missing nodes): model fuel exhausted"
            | some model => compareSearch "Search(loaded)" model ret ind dq
          | _ => .bad "parse"
      | _, _ => .bad "parse"
  | _ => .bad "parse"


/-- `nn_init`: the tree built by `Initialize` against the model `init` (with `nth_element` = full sort).  Equal ⇒ ok.  A tree
    that differs (another admissible partition of ties, another vantage point) is accepted when it satisfies `TreeInv`
    (`checkInv`) — the property does not fix the construction — and counted as skipped; otherwise it is a failing input. -/
def handleInit (args res : List String) : Verdict :=
  match args.mapM parseI with
  | some [kind, _seed, n, bucket] =>
    let (_, rest) := splitAt "T" res
    let isM := rest.contains "M"
    let (t, c) := if isM then splitAt "M" rest else splitAt "P" rest
    match t.mapM parseI, c.mapM parseI with
    | some toks, some (_ :: cs) =>
      let nn := n.toNat
      let d : Nat → Nat → Int :=
        if isM then
          let m := cs.toArray
          fun i j => m.getD (i * nn + j) 0
        else
          let pc := (pairs cs).toArray      -- entry 0 is the dummy query
          fun i j => coordDist kind (pc.getD (i + 1) (0, 0)) (pc.getD (j + 1) (0, 0))
      match load realspec maxbucket toks with
      | .error e => .bad s!"Load model rejects the tree written by Save: {e}"
      | .ok tr =>
        if tr.numpoints != n || tr.bucket != bucket then .bad s!"saved header: numpoints {tr.numpoints} bucket {tr.bucket}, expected {n} {bucket}" else
        let m := init nthSort d bucket.toNat nn
        if tr.nodes == m.nodes && tr.cost == m.cost then .ok
        else if checkInv tr.nodes.toArray nn bucket.toNat d then
          .skip "Initialize built another tree than the model of init (tie order / vantage choice); it satisfies TreeInv"
        else .bad "TreeInv: the tree built by Initialize differs from the model of init and violates the invariant (each index once, bounds enclose the children's distances, children before parents)"
    | _, _ => .bad "parse"
  | _ => .bad "parse"

/-- `nn_bin`: the binary image (hex) and the text tokens of the same tree: the byte-level model of `Load` must read the same
    tree from the bytes as the token-level model from the text, and the model of `Save` must reproduce the bytes -/
def hexBytes (h : String) : Option (List Nat) :=
  let rec go : List Char → Option (List Nat)
    | [] => some []
    | [_] => none
    | a :: b :: rest => do
      let x ← hexDigit a; let y ← hexDigit b
      let r ← go rest
      pure ((x * 16 + y) :: r)
  go h.toList

def handleBin (res : List String) : Verdict :=
  match res with
  | "B" :: hex :: "T" :: toks =>
    match hexBytes hex, toks.mapM parseI with
    | some bytes, some ts =>
      match loadBin realspec maxbucket bytes, load realspec maxbucket ts with
      | .ok tb, .ok tt =>
        if tb != tt then .bad "the binary image and the text image of the same object decode to different trees (model of the two layouts)"
        else if saveBin realspec tb != bytes then .bad "model of Save(bin) does not reproduce the bytes written by the implementation"
        else .ok
      | .error e, _ => .bad s!"byte-level model of Load rejects the binary image written by Save: {e}"
      | _, .error e => .bad s!"token-level model of Load rejects the text image written by Save: {e}"
    | _, _ => .bad "parse"
  | _ => .bad "parse"

/-! ## projections -/
open GeoVerif.GeodProj

def pfl (s : String) : Option Float := (hexToNat s).bind fun n => if s.length == 16 then some (Float.ofBits n.toUInt64) else none
def shw (x : Float) : String := toString x

/-- equal, both NaN, or within `rel·scale` -/
def closeF (a b scale rel : Float) : Bool :=
  (a.isNaN && b.isNaN) || a == b || Float.abs (a - b) ≤ rel * scale

/-- `numeric_limits<double>::min()` and `epsilon()` -/
def dblMin : Float := Float.ofBits 0x0010000000000000
def dblEps : Float := Float.ofBits 0x3CB0000000000000

def handleProj (op : String) (args res : List String) : Option Verdict :=
  match op with
  | "azeq_fwd" => some <|
    match (args.drop 3).mapM pfl, res.mapM pfl with
    | some [_lat0, _lon0, _lat, _lon], some [sig, s, _azi0, azi2, m, sx, cx, x, y, azi, rk] =>
      let eps := 0.01 * Float.sqrt dblMin
      let o := azeqForward { sig := sig, s12 := s, salp1 := sx, calp1 := cx, azi2 := azi2, m12 := m, M12 := 1 } eps
      let sc := Float.abs s
      if closeF o.x x sc 4e-16 && closeF o.y y sc 4e-16 && closeF o.azi azi 1 0 && closeF o.rk rk (Float.abs o.rk) 4e-16 then .ok
      else .bad s!"AzimuthalEquidistant::Forward: impl=({shw x},{shw y},{shw azi},{shw rk}) wrapper model on the Inverse kernel values=({shw o.x},{shw o.y},{shw o.azi},{shw o.rk})"
    | _, _ => .bad "parse"
  | "azeq_rev" => some <|
    match (args.drop 3).mapM pfl, res.mapM pfl with
    | some [_lat0, _lon0, x, y], some [_azi0, s, sig, lat1, lon1, azi1, m, lat, lon, azi, rk] =>
      let eps := 0.01 * Float.sqrt dblMin
      let rkm := azeqRk sig s m eps
      let hyp := RealLike.hypot x y
      if !(closeF hyp s (Float.abs s) 4e-16) then .bad s!"harness hypot {shw s} vs model {shw hyp}"
      else if closeF lat1 lat 1 0 && closeF lon1 lon 1 0 && closeF azi1 azi 1 0 && closeF rkm rk (Float.abs rkm) 4e-16 then .ok
      else .bad s!"AzimuthalEquidistant::Reverse: impl=({shw lat},{shw lon},{shw azi},{shw rk}) Direct kernel at (atan2d(x,y), hypot(x,y))=({shw lat1},{shw lon1},{shw azi1}), rk model {shw rkm}"
    | _, _ => .bad "parse"
  | "gnom_fwd" => some <|
    match (args.drop 3).mapM pfl, res.mapM pfl with
    | some [_lat0, _lon0, _lat, _lon], some [_azi0, azi2, m, M, sx, cx, x, y, azi, rk] =>
      let o := gnomForward { sig := 0, s12 := 0, salp1 := sx, calp1 := cx, azi2 := azi2, m12 := m, M12 := M }
      let sc := Float.abs o.x + Float.abs o.y
      if closeF o.x x sc 4e-16 && closeF o.y y sc 4e-16 && closeF o.azi azi 1 0 && closeF o.rk rk 1 0 then .ok
      else .bad s!"Gnomonic::Forward: impl=({shw x},{shw y},{shw azi},{shw rk}) wrapper model on the GenInverse kernel values=({shw o.x},{shw o.y},{shw o.azi},{shw o.rk})"
    | _, _ => .bad "parse"
  | "cass_fwd" => some <|
    match (args.drop 3).mapM pfl, res.mapM pfl with
    | some [_lat0, _lon0, _lat, _lon], some [dlon, sig12, s12, azi1, azi2, da, x, _y, azi, _rk] =>
      let neg := dlon.toBits >>> 63 == 1      -- signbit
      let o := cassForwardXA dlon neg sig12 s12 azi1 azi2 da
      -- azi is AngNormalize(azi2'): compare modulo 360
      let dazi := Float.abs (o.2.1 - azi)
      let aziOk := (o.2.1.isNaN && azi.isNaN) || dazi ≤ 1e-13 || Float.abs (dazi - 360) ≤ 1e-13
      if closeF o.1 x (Float.abs o.1) 4e-16 && aziOk then .ok
      else .bad s!"CassiniSoldner::Forward: impl x={shw x} azi={shw azi}; wrapper model on the Inverse kernel values x={shw o.1} azi={shw o.2.1}"
    | _, _ => .bad "parse"
  | "gnom_rev" | "cass_rev" => some (.skip "defining geometry and closure are judged by the harness on the implementation")
  | _ => none

/-! ## Intersect helpers -/
open GeoVerif.IntersectFix in
def handleIxm (op : String) (args res : List String) : Option Verdict :=
  let cl (a b sc : Float) : Bool := closeF a b sc 1e-15
  match op with
  | "ixm_fixc" => some <|
    match args, res with
    | [a0, a1, a2, a3, a4, a5], [r0, r1, r2] =>
      match [a0, a1, a2, a3].mapM pfl, parseI a4, parseI a5, pfl r0, pfl r1, parseI r2 with
      | some [p0x, p0y, px, py], some pc, some c, some rx, some ry, some rc =>
        let m := fixcoincident (α := Float) ⟨p0x, p0y, 0⟩ ⟨px, py, pc⟩ c
        let sc := Float.abs p0x + Float.abs p0y + Float.abs px + Float.abs py
        if cl m.x rx sc && cl m.y ry sc && m.c == rc then .ok
        else .bad s!"Intersect::fixcoincident: impl=({shw rx},{shw ry},{rc}) model=({shw m.x},{shw m.y},{m.c})"
      | _, _, _, _, _, _ => .bad "parse"
    | _, _ => .bad "parse"
  | "ixm_segmode" => some <|
    match args.mapM pfl, res with
    | some [sx, sy, px, py], [r] =>
      let m := segmentmode (α := Float) sx sy ⟨px, py, 0⟩
      if parseI r == some m then .ok else .bad s!"Intersect::segmentmode: impl={r} model={m}"
    | _, _ => .bad "parse"
  | "ixm_fixseg" => some <|
    match args, res with
    | [a0, a1, a2, a3, a4], [r0, r1, r2] =>
      match [a0, a1, a2, a3].mapM pfl, parseI a4, pfl r0, pfl r1, parseI r2 with
      | some [sx, sy, px, py], some pc, some rx, some ry, some rc =>
        let m := fixsegment (α := Float) sx sy ⟨px, py, pc⟩
        let sc := Float.abs sx + Float.abs sy + Float.abs px + Float.abs py
        if cl m.x rx sc && cl m.y ry sc && m.c == rc then .ok
        else .bad s!"Intersect::fixsegment: impl=({shw rx},{shw ry},{rc}) model=({shw m.x},{shw m.y},{m.c})"
      | _, _, _, _, _ => .bad "parse"
    | _, _ => .bad "parse"
  | _ => none


/-! ## Intersect: the search bookkeeping (`Model/IntersectSearch.lean`) on the kernel values of the real object -/
section Ixs
open GeoVerif.IntersectFix GeoVerif.IntersectSearch

/-- a tiny token parser -/
abbrev P := StateT (List String) Option
def tok : P String := fun s => match s with | [] => none | t :: r => some (t, r)
def pF : P Float := do let t ← tok; match pfl t with | some x => pure x | none => failure
def pI : P Int := do let t ← tok; match parseI t with | some x => pure x | none => failure
def pN : P Nat := do let i ← pI; if i < 0 then failure else pure i.toNat
def pLit (l : String) : P Unit := do let t ← tok; if t == l then pure () else failure
def pRep {β : Type} (p : P β) : Nat → P (List β)
  | 0 => pure []
  | n + 1 => do let x ← p; let r ← pRep p n; pure (x :: r)
def pXP : P (XP Float) := do let x ← pF; let y ← pF; let c ← pI; pure ⟨x, y, c⟩
def pEnd : P Unit := fun s => match s with | [] => some ((), []) | _ => none

/-- table entry: start, `Basic(start)`, iterations -/
structure BE where
  s : XP Float
  b : XP Float
  its : Nat
def pBE : P BE := do let sx ← pF; let sy ← pF; let b ← pXP; let n ← pN; pure ⟨⟨sx, sy, 0⟩, b, n⟩
def pTable (tag : String) : P (List BE) := do pLit tag; let n ← pN; pRep pBE n
def pConsts : P (Consts Float) := do
  pLit "C"; let d ← pF; let t1 ← pF; let delta ← pF; let d1 ← pF; let d2 ← pF; let d3 ← pF; let tol ← pF
  pure { d := d, t1 := t1, delta := delta, d1 := d1, d2 := d2, d3 := d3, tol := tol }

def nearXY (a b : XP Float) : Bool :=
  let sc := 1 + Float.abs a.x + Float.abs a.y
  (a.x == b.x || Float.abs (a.x - b.x) ≤ 1e-15 * sc) && (a.y == b.y || Float.abs (a.y - b.y) ≤ 1e-15 * sc)
/-- a start the table does not contain gives the sentinel `c = 99` (and the comparison with the implementation fails) -/
def nanXP : XP Float := ⟨0.0 / 0.0, 0.0 / 0.0, 99⟩
def findBE (t : List BE) (s : XP Float) : Option BE :=
  match t.find? (fun e => e.s.x == s.x && e.s.y == s.y) with
  | some e => some e
  | none => t.find? (fun e => nearXY e.s s)
def lookupB (t : List BE) (s : XP Float) : XP Float := match findBE t s with | some e => e.b | none => nanXP
def lookupIts (t : List BE) (s : XP Float) : Nat := match findBE t s with | some e => e.its | none => 0
def sumIts (t : List BE) (vis : List (XP Float)) : Nat := (vis.map (lookupIts t)).foldl (· + ·) 0

def sameF (a b : Float) : Bool := a == b || (a.isNaN && b.isNaN) || Float.abs (a - b) ≤ 4e-16 * (Float.abs a + Float.abs b)
def sameXP (a b : XP Float) : Bool := sameF a.x b.x && sameF a.y b.y && a.c == b.c
def shXP (p : XP Float) : String := s!"({shw p.x},{shw p.y};c={p.c})"
def shO : Option (XP Float) → String | none => "unset" | some p => shXP p

def run {β : Type} (p : P β) (toks : List String) : Option β := (p toks).map (·.1)

def hConsts (args res : List String) : Verdict :=
  match (args.take 2).mapM pfl, run (do let v ← pRep pF 13; let n ← pN; pEnd; pure (v, n)) res with
  | some [a, f], some ([d, t1, t2, t3, t4, t5, d1, d2, d3, delta, tol, eps, rR], numit) =>
    let (m1, m2, m3) := derived (α := Float) t2 t3 t4 delta
    let piF : Float := RealLike.pi
    let tb := a * (1 - f) * piF
    let rel (x y : Float) : Bool := Float.abs (x - y) ≤ 1e-13 * Float.abs y
    let probs : List String :=
      (if m1 == d1 && m2 == d2 && m3 == d3 then [] else [s!"_d1,_d2,_d3 = {shw d1},{shw d2},{shw d3}, defining expressions give {shw m1},{shw m2},{shw m3}"]) ++
      (if ctorOk t1 d1 d2 d3 then [] else ["the constructor's sanity check fails on the constants of a constructed object"]) ++
      (if numit == Gen.IntersectC.numit then [] else [s!"numit_ = {numit}, translator extracted {Gen.IntersectC.numit}"]) ++
      (if d == rR * piF then [] else ["_d is not pi _rR"]) ++
      (if eps == 3 * dblEps then [] else ["_eps is not 3 epsilon"]) ++
      (if rel (tol * tol * tol * tol) (d * d * d * d * dblEps * dblEps * dblEps) then [] else ["_tol is not _d epsilon^(3/4)"]) ++
      (if rel (delta * delta * delta * delta * delta) (d * d * d * d * d * dblEps) then [] else ["_delta is not _d epsilon^(1/5)"]) ++
      (if f > 0 then (if t1 == tb && t4 == tb then [] else ["oblate: _t1 = _t4 = pi b expected"])
       else (if t2 == tb && t3 == t5 then [] else ["prolate/sphere: _t2 = pi b and _t3 = _t5 expected"])) ++
      (if 0 < t1 && 0 < delta && delta < d1 && delta < d2 then [] else ["ordering 0 < _delta < _d1, _d2 violated"])
    if probs.isEmpty then .ok else .bad ("Intersect constants: " ++ "; ".intercalate probs)
  | _, _ => .bad "parse"

def b2i (b : Bool) : Int := if b then 1 else 0

def hComp (args res : List String) : Verdict :=
  match args.mapM pfl, res with
  | some [delta, px, py, qx, qy, p0x, p0y], [e1, e2, l1, l2, r1, r2, dh, d0h] =>
    let p : XP Float := ⟨px, py, 0⟩; let q : XP Float := ⟨qx, qy, 0⟩; let p0 : XP Float := ⟨p0x, p0y, 0⟩
    let m := [b2i (ceq delta p q), b2i (ceq delta q p), b2i (clt delta p q), b2i (clt delta q p), b2i (rlt p0 p q), b2i (rlt p0 q p)]
    match [e1, e2, l1, l2, r1, r2].mapM parseI, pfl dh, pfl d0h with
    | some im, some d, some d0 =>
      if im != m then .bad s!"SetComp::eq / SetComp::operator() / RankPoint: impl {showInts im} model {showInts m}"
      else if !(d == dist p p0 || (d.isNaN && (dist p p0).isNaN)) || !(d0 == dist0 p || (d0.isNaN && (dist0 p).isNaN)) then .bad s!"Intersect::Dist: impl {shw d} {shw d0} model {shw (dist p p0)} {shw (dist0 p)}"
      else .ok
    | _, _, _ => .bad "parse"
  | _, _ => .bad "parse"

def hBasic (args res : List String) : Verdict :=
  match (args.drop 9).mapM pfl, run (do
      let tol ← pF; let n ← pN
      let tr ← pRep (do let q ← pXP; let dq ← pXP; pure (q, dq)) n
      pLit "R"; let r ← pXP; let its ← pN; pEnd; pure (tol, tr, r, its)) res with
  | some [sx, sy], some (tol, tr, r, its) =>
    -- exact keys: the model forms the trial points with the same additions as the code
    let sph : XP Float → XP Float := fun q => match tr.find? (fun e => e.1.x == q.x && e.1.y == q.y && e.1.c == q.c) with | some e => e.2 | none => nanXP
    let (m, n) := basic sph tol ⟨sx, sy, 0⟩
    if sameXP m r && n == its then .ok
    else .bad s!"Intersect::Basic: impl {shXP r} after {its} iterations, model of the iteration skeleton on the Spherical values {shXP m} after {n}"
  | _, _ => .bad "parse"

def hClosest (args res : List String) : Verdict :=
  match (args.drop 9).mapM pfl, run (do
      let C ← pConsts; let t ← pTable "T"; pLit "R"; let r ← pXP; let c1 ← pN; let c2 ← pN; let c0 ← pN; pEnd; pure (C, t, r, c1, c2, c0)) res with
  | some [p0x, p0y], some (C, t, r, c1, c2, c0) =>
    let o := closestInt C (lookupB t) ⟨p0x, p0y, 0⟩
    match o.q with
    | none => .bad "model of ClosestInt returns the unset point"
    | some m =>
      if sameXP m r && o.visited.length == c1 && o.nchange == c2 && sumIts t o.visited == c0 then .ok
      else .bad s!"Intersect::Closest: impl {shXP r} NumBasic+{c1} NumChange+{c2} NumInverse+{c0}; model of ClosestInt on the Basic values: {shXP m} {o.visited.length} {o.nchange} {sumIts t o.visited}"
  | _, _ => .bad "parse"

def fInf : Float := 1.0 / 0.0

def hNext (res : List String) : Verdict :=
  match run (do
      let C ← pConsts; let t ← pTable "T"; pLit "J"; let cm ← pF; let cp ← pF
      pLit "R"; let r ← pXP; let c1 ← pN; let c2 ← pN; let c0 ← pN; pEnd; pure (C, t, cm, cp, r, c1, c2, c0)) res with
  | some (C, t, cm, cp, r, c1, c2, c0) =>
    let o := nextInt C (lookupB t) (fun s3 => if s3 < 0 then cm else cp) fInf
    if sameXP o.q r && o.visited.length == c1 && o.nchange == c2 && sumIts t o.visited == c0 then .ok
    else .bad s!"Intersect::Next: impl {shXP r} NumBasic+{c1} NumChange+{c2} NumInverse+{c0}; model of NextInt on the Basic / ConjugateDist values: {shXP o.q} {o.visited.length} {o.nchange} {sumIts t o.visited}"
  | none => .bad "parse"

def hSegment (res : List String) : Verdict :=
  match run (do
      let C ← pConsts; pLit "S"; let sx ← pF; let sy ← pF; let t ← pTable "T"; let k ← pTable "K"
      pLit "R"; let r ← pXP; let sm ← pI; let c1 ← pN; let c2 ← pN; let c3 ← pN; let c4 ← pN; let c0 ← pN; pEnd
      pure (C, sx, sy, t, k, r, sm, c1, c2, c3, c4, c0)) res with
  | some (C, sx, sy, t, k, r, sm, c1, c2, c3, c4, c0) =>
    let tk := t ++ k
    match segmentInt C (lookupB tk) sx sy with
    | none => .bad "model of SegmentInt: ClosestInt returns the unset point"
    | some o =>
      let n1 := o.closest.visited.length + o.corners.length
      let n0 := sumIts tk o.closest.visited + sumIts tk o.corners
      if sameXP o.q r && o.segmode == sm && n1 == c1 && o.closest.nchange == c2 && o.corners.length == c3 && (if o.override then 1 else 0) == c4 && n0 == c0 then .ok
      else .bad s!"Intersect::Segment: impl {shXP r} segmode {sm} NumBasic+{c1} NumChange+{c2} NumCorner+{c3} NumOverride+{c4} NumInverse+{c0}; model of SegmentInt: {shXP o.q} segmode {o.segmode} {n1} {o.closest.nchange} {o.corners.length} {if o.override then 1 else 0} {n0}"
  | none => .bad "parse"

/-- is the comparator a strict weak order on these points (transitive, with transitive incomparability)? -/
def swoOn (delta : Float) (pts : List (XP Float)) : Bool :=
  pts.all fun p => pts.all fun q => pts.all fun r =>
    (!(clt delta p q && clt delta q r) || clt delta p r) &&
    (!(ceq delta p q && ceq delta q r) || ceq delta p r)

def hAll (args res : List String) : Verdict :=
  if res == ["skip"] then .skip "radius beyond the modelled range" else
  match (args.drop 9).mapM pfl, run (do
      let C ← pConsts; pLit "M"; let m ← pN; let t ← pTable "T"; pLit "J"; let nj ← pN
      let js ← pRep (do let s0 ← pF; let s3 ← pF; let v ← pF; pure (s0, s3, v)) nj
      pLit "R"; let n ← pN; let v ← pRep pXP n; let c1 ← pN; let c0 ← pN; pEnd; pure (C, m, t, js, v, c1, c0)) res with
  | some [maxdist, p0x, p0y], some (C, m, t, js, v, c1, c0) =>
    let md : Float := if maxdist > 0 then maxdist else 0
    let mm := Float.ceil ((md + C.delta) / C.d3)
    if mm != Float.ofNat m then .bad s!"AllInt0: harness used m = {m}, ceil(maxdistx / _d3) = {shw mm}" else
    let conj2 : Float → Float → Float := fun s0 s3 =>
      -- exact keys first (the model forms s0 and s3 with the same additions as the code)
      match js.find? (fun e => e.1 == s0 && e.2.1 == s3) with
      | some e => e.2.2
      | none =>
        match js.find? (fun e => Float.abs (e.1 - s0) ≤ 1e-9 * (1 + Float.abs s0) && Float.abs (e.2.1 - s3) ≤ 1e-9 * (1 + Float.abs s3)) with
        | some e => e.2.2 | none => 0.0 / 0.0
    let o := allInt0 C (lookupB t) conj2 md ⟨p0x, p0y, 0⟩ m 1000
    let okList := o.res.length == v.length && (o.res.zip v).all (fun e => sameXP e.1 e.2)
    if okList && o.visited.length == c1 && sumIts t o.visited == c0 && !o.exhausted then .ok
    else
      -- every point that can enter the set: kernel answers, their centred images
      let cand := (t.map (·.b)) ++ (t.map fun e => fixc (α := Float) ⟨p0x, p0y, 0⟩ e.b) ++ o.res ++ v
      if !swoOn C.delta cand then .skip "SetComp is not a strict weak order on the points of this query: the behaviour of std::set is unspecified (the result is judged by the oracles all-duplicate / all-complete)"
      else .bad s!"Intersect::All: impl {v.length} points {" ".intercalate (v.map shXP)} NumBasic+{c1} NumInverse+{c0}; model of AllInt0 on the Basic / ConjugateDist values: {o.res.length} points {" ".intercalate (o.res.map shXP)} {o.visited.length} {sumIts t o.visited}{if o.exhausted then " (conjugate-point loop ran out of fuel)" else ""}"
  | _, _ => .bad "parse"

def handleIxs (op : String) (args res : List String) : Option Verdict :=
  match op with
  | "ixs_consts" => some (hConsts args res)
  | "ixs_ctor" => some (match res with
      | "ok" :: rest => hConsts args rest
      | ["E"] => .skip "constructor threw (outside the documented range: judged by the harness)"
      | _ => .bad "parse")
  | "ixs_comp" => some (hComp args res)
  | "ixs_basic" => some (hBasic args res)
  | "ixs_closest" => some (hClosest args res)
  | "ixs_next" => some (hNext res)
  | "ixs_segment" => some (hSegment res)
  | "ixs_all" => some (hAll args res)
  | _ => none
end Ixs

def handle (op : String) (args res : List String) : Option Verdict :=
  match op with
  | "nn_search" => some (handleSearch args res)
  | "nn_load" => some (handleLoad args res)
  | "nn_bin" => some (handleBin res)
  | "nn_init" => some (handleInit args res)
  | "nn_bulk" | "nn_geo" | "nn_loadraw" | "nn_loaddag" | "nn_loadtrunc" | "nn_stats" => some (.skip "brute-force / robustness oracle in the harness")
  | _ =>
    if op.startsWith "ixm_" then handleIxm op args res
    else if op.startsWith "ixs_" then handleIxs op args res
    else if op.startsWith "tl_" then some (.skip "command-line front end: compared character for character with the library by the harness")
    else if op.startsWith "ix_" then some (.skip "Intersect: oracles in the harness (no model of the tiling search)")
    else handleProj op args res

end GeoVerif.Corr.C17
