import GeoVerif.Corr.Proto
import GeoVerif.Model.MathF
import GeoVerif.Model.Accum
/-! Correspondence relations for C16 (angle arithmetic, error-free sum) -/
namespace GeoVerif.Corr.C16
open GeoVerif GeoVerif.Proto GeoVerif.MathF

/-- is the exact dyadic `d` an integer multiple of 360? -/
def isMult360 (d : Dy) : Bool :=
  if d.m = 0 then true else
  let n := Dy.norm d
  n.e ≥ 0 && (Dy.shl n.m n.e) % 360 = 0

def handle (op : String) (args res : List String) : Option Verdict :=
  match op with
  | "angnorm" => some <|
    match parseFs args, parseFs res with
    | some [x], some [r] =>
      -- property level: finite x ⇒ r ≡ x (mod 360) exactly, |r| ≤ 180, sign of x kept at 0, ±180
      let m := angNormalize x
      if !x.isFinite then (if r.isNaN then .ok else .bad "non-finite input must give NaN")
      else if !r.isFinite then .bad s!"finite input gave {showF r}"
      else
        let c1 := isMult360 (Dy.sub r.toDy x.toDy)
        let c2 := Dy.le (Dy.abs r.toDy) ⟨180, 0⟩
        let c3 := !(r.isZero || Dy.eq (Dy.abs r.toDy) ⟨180, 0⟩) || (r.signbit == x.signbit)
        if c1 && c2 && c3 then expectF "angnorm(model bits)" m r
        else .bad s!"angnorm x={showF x} r={showF r} congruent={c1} inrange={c2} sign={c3}"
    | _, _ => .bad "parse"
  | "sum" => some <|
    match parseFs args, parseFs res with
    | some [u, v], some [s, t] =>
      let (ms, mt) := MathF.sum u v
      if !(u.isFinite && v.isFinite) then .skip "nonfinite"
      else if !ms.isFinite then .skip "overflow"
      else
        -- TwoSum contract, evaluated exactly: s = round53(u+v) and s + t = u + v
        let exact := Dy.add u.toDy v.toDy
        let c1 := F64.same s (F64.rnd exact (u.signbit && v.signbit))
        let c2 := s.isFinite && t.isFinite && Dy.eq (Dy.add s.toDy t.toDy) exact
        if c1 && c2 then both (expectF "sum.s" ms s) (expectF "sum.t" mt t)
        else .bad s!"sum u={showF u} v={showF v} s={showF s} t={showF t} rounded={c1} exact={c2}"
    | _, _ => .bad "parse"
  | "angdiff" => some <|
    match parseFs args, parseFs res with
    | some [x, y], some [d, e] =>
      if !(x.isFinite && y.isFinite) then
        (if d.isNaN then .ok else .bad "non-finite input must give NaN")
      else if !(d.isFinite && e.isFinite) then .bad s!"finite input gave d={showF d} e={showF e}"
      else
        let tot := Dy.add d.toDy e.toDy
        let c1 := isMult360 (Dy.sub tot (Dy.sub y.toDy x.toDy))
        let c2 := Dy.le (Dy.abs d.toDy) ⟨180, 0⟩
        -- d is the rounded value of d + e
        let c3 := F64.same (F64.rnd tot d.signbit) d
        let (md, me) := angDiff x y
        if c1 && c2 && c3 then both (expectF "angdiff.d" md d) (expectF "angdiff.e" me e)
        else .bad s!"angdiff x={showF x} y={showF y} d={showF d} e={showF e} congruent={c1} inrange={c2} rounded={c3}"
    | _, _ => .bad "parse"
  | "anground" => some <|
    match parseFs args, parseFs res with
    | some [x], some [r] => expectF "anground" (angRound x) r
    | _, _ => .bad "parse"
  | "latfix" => some <|
    match parseFs args, parseFs res with
    | some [x], some [r] => expectF "latfix" (latFix x) r
    | _, _ => .bad "parse"
  | "sincosd" => some <|
    -- args: x, then kernel values sincosd(d) for the reduced d; res: sincosd(x)
    match parseFs args, parseFs res with
    | some [x, d, s, c], some [sx, cx] =>
      if !x.isFinite then (if sx.isNaN && cx.isNaN then .ok else .bad "non-finite input must give NaN")
      else
        let (md, _) := reduce90 x
        let (ms, mc) := sincosdWrap x s c
        all [expectF "sincosd.reduced" md d, expectF "sincosd.sin" ms sx, expectF "sincosd.cos" mc cx]
    | _, _ => .bad "parse"
  | "atan2d" => some <|
    -- args: y x, canonical (y', x') as the harness obtained them from the model, kernel ang = atan2d(y', x'); res: atan2d(y, x)
    match parseFs args, parseFs res with
    | some [y, x, ang], some [r] =>
      if y.isNaN || x.isNaN then (if r.isNaN then .ok else .bad "NaN input must give NaN")
      else expectF "atan2d" (atan2dWrap y x ang) r
    | _, _ => .bad "parse"
  | "taupf" => some (.skip "closed form and tauf∘taupf are judged by the harness-side oracle (libm kernels)")
  | "accum" => some <|
    -- exact dyadic value of the operation sequence vs the accumulator's (_s, _t)
    match parseFs res with
    | some [s, t] =>
      let step (st : Option (Dy × Dy)) (tok : String) : Option (Dy × Dy) :=
        st.bind fun (v, m) =>
          if tok.startsWith "a:" then (parseF (String.ofList (tok.toList.drop 2))).map fun y => (Dy.add v y.toDy, Dy.add m (Dy.abs y.toDy))
          else if tok.startsWith "s:" then (parseF (String.ofList (tok.toList.drop 2))).map fun y => (y.toDy, Dy.abs y.toDy)
          else if tok.startsWith "d:" then (parseF (String.ofList (tok.toList.drop 2))).map fun y => (Dy.sub v y.toDy, Dy.add m (Dy.abs y.toDy))
          else if tok == "c" || tok.startsWith "q:" || tok.startsWith "r:" then some (v, m)   -- copy / const queries: state unchanged
          else if tok == "n" then some (Dy.neg v, m)
          else if tok.startsWith "i:" then ((String.ofList (tok.toList.drop 2)).toInt?).map fun n => (Dy.mul v (Dy.ofInt n), Dy.mul m (Dy.ofInt n.natAbs))
          else if tok.startsWith "m:" then (parseF (String.ofList (tok.toList.drop 2))).map fun y => (Dy.mul v y.toDy, Dy.mul m (Dy.abs y.toDy))
          else none
      match args.foldl step (some (Dy.zero, Dy.zero)) with
      | none => .bad "parse"
      | some (v, m) =>
        -- bit-exact model of (_s, _t) for histories without `*=` by a number (those use fma, which is not modelled)
        let mstep (st : Option Accum.Acc) (tok : String) : Option Accum.Acc :=
          st.bind fun a =>
            if tok.startsWith "a:" then (parseF (String.ofList (tok.toList.drop 2))).map fun y => Accum.add a y
            else if tok.startsWith "s:" then (parseF (String.ofList (tok.toList.drop 2))).map fun y => Accum.set y
            else if tok.startsWith "d:" then (parseF (String.ofList (tok.toList.drop 2))).map fun y => Accum.sub a y
            else if tok == "c" || tok.startsWith "q:" || tok.startsWith "r:" then some a
            else if tok == "n" then some (Accum.negate a)
            else none
        let modelBad : Option String :=
          match args.foldl mstep (some (Accum.set 0)) with
          | some a => if F64.same a.s s && F64.same a.t t then none
                      else some s!"accumulator model (_s,_t)=({showF a.s},{showF a.t}) impl=({showF s},{showF t})"
          | none => none
        if let some msg := modelBad then .bad msg else
        if !(s.isFinite && t.isFinite) then .skip "overflow" else
        let err := Dy.abs (Dy.sub (Dy.add s.toDy t.toDy) v)
        -- "roughly twice working precision": 2^-98 relative to the accumulated magnitude
        let bound : Dy := ⟨m.m, m.e - 98⟩
        if Dy.le err bound then .ok
        else .bad s!"accumulator error {err.toFloat} exceeds 2^-98·{m.toFloat} (exact {v.toFloat})"
    | _ => .bad "parse"
  | _ => none

end GeoVerif.Corr.C16
