import GeoVerif.Corr.Proto
import GeoVerif.Model.MathF
import GeoVerif.Model.MathG
import GeoVerif.Model.Accum
/-! Correspondence relations for C16 (angle arithmetic, error-free sum, accumulator) -/
namespace GeoVerif.Corr.C16
open GeoVerif GeoVerif.Proto GeoVerif.MathF

/-- is the exact dyadic `d` an integer multiple of 360? -/
def isMult360 (d : Dy) : Bool :=
  if d.m = 0 then true else
  let n := Dy.norm d
  n.e ≥ 0 && (Dy.shl n.m n.e) % 360 = 0

/-- is `x` an integer multiple of `y` (`y ≠ 0`)?  Returns the multiple. -/
def multipleOf (x y : Dy) : Option Int :=
  if y.m = 0 then none else
  let r := F64.ratioInts x y
  if r.1 % r.2 = 0 then some (r.1 / r.2) else none

/-- a number of any of the three precisions: 16 hex digits = a binary64 pattern (floats are sent exactly converted),
`L<sign><hex significand>p<exponent>` / `L±inf` / `Lnan` = a long double -/
def parseG (s : String) : Option F64 :=
  if s.startsWith "L" then
    if s == "Lnan" then some .nan else
    let neg := (s.toList.getD 1 '+') == '-'
    let body := String.ofList (s.toList.drop 2)
    if body == "inf" then some (.inf neg) else
    match body.splitOn "p" with
    | [h, e] => do
      let m ← hexToNat h
      let ex ← e.toInt?
      pure (.fin neg m ex)
    | _ => none
  else parseF s

def parseGs (l : List String) : Option (List F64) := l.mapM parseG

def showG (x : F64) : String :=
  match x with
  | .nan => "nan"
  | .inf s => if s then "-inf" else "+inf"
  | .fin s m e => (if s then "-" else "+") ++ toString m ++ "·2^" ++ toString e ++ "(" ++ toString x.toDy.toFloat ++ ")"

def expectG (name : String) (model impl : F64) : Verdict :=
  if sameVal model impl then .ok else .bad s!"{name}: model={showG model} impl={showG impl}"

def dyAbs (d : Dy) : Dy := Dy.abs d
def two (k : Int) : Dy := ⟨1, k⟩
def scale (d : Dy) (k : Int) : Dy := ⟨d.m, d.e + k⟩

/-- `|impl − pred| ≤ ulps·ulp(pred) + floor`, and equal signs where the predicted value is well away from zero -/
def closeTo (name : String) (ulps : Nat) (floor : Dy) (pred impl : F64) : Verdict :=
  if pred.isNaN then (if impl.isNaN then .ok else .bad s!"{name}: expected NaN, impl={showF impl}")
  else if !pred.isFinite then expectF name pred impl
  else if !impl.isFinite then .bad s!"{name}: model={showF pred} impl={showF impl}"
  else
    let tol := Dy.add (Dy.mul (Dy.ofInt ulps) (ulpDy pred)) floor
    let err := Dy.abs (Dy.sub impl.toDy pred.toDy)
    if Dy.le err tol then .ok
    else .bad s!"{name}: model={showF pred} impl={showF impl} differ by more than {ulps} ulp"

/-- kernels that return fixed values (the harness's independent wide-precision evaluation for *this* argument) -/
def constKern (s c a : F64) : Kern := { sin := fun _ => s, cos := fun _ => c, atan2 := fun _ _ => a }

/-- comparison of a value predicted by the model around oracle kernels: exact where the model takes no kernel value
(special branches, zeros, clamps), within `ulps` otherwise -/
def cmpTrig (name : String) (exact : Bool) (ulps : Nat) (floor : Dy) (pred impl : F64) : Verdict :=
  if exact || pred.isZero then expectF name pred impl else closeTo name ulps floor pred impl

/-! ### accumulator histories -/

structure AccSt where
  s : F64
  t : F64
  v : Dy          -- exact value of the history
  m : Dy          -- magnitude scale of the history (Σ|terms|, scaled by the multiplications)
  bad : Option String := none
  skip : Bool := false

def tokVal (tok : String) : Option F64 := parseG (String.ofList (tok.toList.drop 2))

/-- one step of a history: `op` token, state after it (and the extra returned value, if any) -/
def accStep (f : Fmt) (isD : Bool) (st : AccSt) (tok : String) (s' t' : F64) (extra : Option F64) : AccSt :=
  if st.bad.isSome || st.skip then st else
  let fail (msg : String) : AccSt := { st with bad := some s!"{tok}: {msg} before=({showG st.s},{showG st.t}) after=({showG s'},{showG t'})" }
  let fin4 := st.s.isFinite && st.t.isFinite && s'.isFinite && t'.isFinite
  let hb := Dy.add st.s.toDy st.t.toDy       -- held before
  let ha := Dy.add s'.toDy t'.toDy           -- held after
  let p : Int := f.p
  -- absolute rounding floor of one operation in the subnormal range (2^(emin+2)), expressed in units of the final bound 2^(8−2p)·m
  let fl : Dy := two (f.emin + 2 * p - 6)
  -- the bit-exact model of the code (double only), from the implementation's previous state
  let modelCheck (a : Accum.Acc) : Option String :=
    if isD && !(sameVal a.s s' && sameVal a.t t') then some s!"model (_s,_t)=({showG a.s},{showG a.t})" else none
  let prev : Accum.Acc := ⟨st.s, st.t⟩
  let next (v m : Dy) : AccSt := { st with s := s', t := t', v := v, m := m }
  let c := tok.toList.getD 0 ' '
  if c == 's' || c == 'S' then
    match tokVal tok with
    | none => fail "parse"
    | some y =>
      let a := Accum.step prev (.set y)
      if !(sameVal s' a.s && sameVal t' a.t) then fail "after assignment the accumulator must hold exactly (y, +0)"
      else next y.toDy (Dy.abs y.toDy)
  else if c == 'a' || c == 'd' then
    match tokVal tok with
    | none => fail "parse"
    | some y0 =>
      let y := if c == 'd' then F64.neg y0 else y0
      if !(fin4 && y.isFinite) then { st with skip := true } else
      -- documented: one rounding of the low word per addition
      let err := Dy.abs (Dy.sub ha (Dy.add hb y.toDy))
      let bound := Dy.add (scale (Dy.add (Dy.add (Dy.abs s'.toDy) (Dy.abs y.toDy)) (Dy.abs st.t.toDy)) (1 - 2 * p)) (two (f.emin - 1))
      if !Dy.le err bound then fail s!"Add lost more than the rounding of the low word: error {err.toFloat}" else
      match modelCheck (Accum.step prev (if c == 'd' then .sub y0 else .add y0)) with
      | some e => fail e
      | none => next (Dy.add st.v y.toDy) (Dy.add (Dy.add st.m (Dy.abs y.toDy)) fl)
  else if c == 'n' then
    let a := Accum.step prev .neg
    if !(sameVal s' a.s && sameVal t' a.t) then fail "negation must flip both words exactly"
    else next (Dy.neg st.v) st.m
  else if c == 'i' then
    match (String.ofList (tok.toList.drop 2)).toInt? with
    | none => fail "parse"
    | some n =>
      if !fin4 then { st with skip := true } else
      let sub := Dy.lt (Dy.abs s'.toDy) (two (f.emin + p)) || Dy.lt (Dy.abs t'.toDy) (two (f.emin + p))
      if !sub && !Dy.eq ha (Dy.mul hb (Dy.ofInt n)) then fail "multiplication by ± a power of two must be exact" else
      match modelCheck (Accum.step prev (.mulInt n)) with
      | some e => fail e
      | none => next (Dy.mul st.v (Dy.ofInt n)) (Dy.mul st.m (Dy.ofInt n.natAbs))
  else if c == 'm' then
    match tokVal tok with
    | none => fail "parse"
    | some y =>
      if !(fin4 && y.isFinite) then { st with skip := true } else
      let err := Dy.abs (Dy.sub ha (Dy.mul hb y.toDy))
      let ay := Dy.abs y.toDy
      let bound := Dy.add (Dy.add (scale (Dy.mul ay (Dy.abs st.t.toDy)) (1 - p)) (scale (Dy.mul ay (Dy.abs st.s.toDy)) (1 - 2 * p))) (two (f.emin + 1))
      if !Dy.le err bound then fail s!"*= lost more than the rounding of the low word: error {err.toFloat}" else
      match modelCheck (Accum.step prev (.mulF y)) with
      | some e => fail e
      | none => next (Dy.mul st.v y.toDy) (Dy.add (Dy.mul st.m ay) fl)
  else if c == 'c' || c == 'k' then
    if !(sameVal s' st.s && sameVal t' st.t) then fail "copy / const member changed the state" else st
  else if c == 'q' then
    match tokVal tok, extra with
    | some y, some r =>
      if !(sameVal s' st.s && sameVal t' st.t) then fail "operator()(y) changed the state"
      else if isD && st.s.isFinite && st.t.isFinite && y.isFinite && !sameVal r (Accum.sumQuery prev y) then fail s!"operator()(y) returned {showG r}, model {showG (Accum.sumQuery prev y)}"
      else st
    | _, _ => fail "parse"
  else if c == 'R' then
    match tokVal tok, extra with
    | some y, some r =>
      if !sameVal r s' then fail "operator()() after remainder is not the high word" else
      if !(st.s.isFinite && st.t.isFinite) then { st with skip := true } else
      if y.isNaN || y.isZero then (if s'.isNaN then { st with skip := true } else fail "remainder by 0 / NaN must give NaN") else
      if !fin4 then { st with skip := true } else
      -- (i) straight after remainder(y) the reported value is the held sum rounded to working precision
      let rn := rndG f ha s'.signbit
      if !Dy.eq rn.toDy s'.toDy then fail s!"after remainder the reported value {showG s'} is not the held sum _s+_t = {ha.toFloat} rounded to working precision ({showG rn})" else
      let mc := modelCheck (Accum.step prev (.rem y))
      if y.isInf then
        (if !Dy.eq ha hb then fail "remainder by ±inf must not change the held sum" else
         match mc with | some e => fail e | none => next st.v st.m)
      else
      -- (ii) the held sum changed by an exact multiple of y, (iii) into [-|y|/2, |y|/2] up to the low word
      match multipleOf (Dy.sub hb ha) y.toDy with
      | none => fail "held sum after remainder is not congruent to the held sum before, modulo y"
      | some k =>
        let lim := Dy.add (scale (Dy.abs y.toDy) (-1)) (Dy.abs st.t.toDy)
        if !Dy.le (Dy.abs ha) lim then fail "held sum after remainder exceeds |y|/2 + |low word|" else
        match mc with
        | some e => fail e
        | none => next (Dy.sub st.v (Dy.mul (Dy.ofInt k) y.toDy)) (Dy.add st.m (Dy.abs y.toDy))
    | _, _ => fail "parse"
  else fail "unknown token"

partial def accWalk (f : Fmt) (isD : Bool) (st : AccSt) : List String → List F64 → AccSt
  | [], _ => st
  | tok :: toks, res =>
    let c := tok.toList.getD 0 ' '
    let nExtra := if c == 'R' || c == 'q' then 1 else 0
    match res with
    | s' :: t' :: rest =>
      let extra := if nExtra == 1 then rest.head? else none
      if nExtra == 1 && extra.isNone then { st with bad := some "result list too short" } else
      accWalk f isD (accStep f isD st tok s' t' extra) toks (rest.drop nExtra)
    | _ => { st with bad := some "result list too short" }

def handle (op : String) (args res : List String) : Option Verdict :=
  match op with
  | "angnorm" => some <|
    match parseFs args, parseFs res with
    | some [x], some [r] =>
      -- property level: finite x ⇒ r ≡ x (mod 360) exactly, |r| ≤ 180, sign of x kept at 0, ±180
      let m := angNormalize x
      if !x.isFinite then (if r.isNaN then .ok else .bad "non-finite input must give NaN")
      else if !r.isFinite then .bad s!"finite input gave {showF r}"
      else
        let c1 := isMult360 (Dy.sub r.toDy x.toDy)
        let c2 := Dy.le (Dy.abs r.toDy) ⟨180, 0⟩
        let c3 := !(r.isZero || Dy.eq (Dy.abs r.toDy) ⟨180, 0⟩) || (r.signbit == x.signbit)
        if c1 && c2 && c3 then expectF "angnorm(model bits)" m r
        else .bad s!"angnorm x={showF x} r={showF r} congruent={c1} inrange={c2} sign={c3}"
    | _, _ => .bad "parse"
  | "sum" => some <|
    match parseFs args, parseFs res with
    | some [u, v], some [s, t] =>
      let (ms, mt) := MathF.sum u v
      if !(u.isFinite && v.isFinite) then .skip "nonfinite"
      else if !ms.isFinite then .skip "overflow"
      else
        -- TwoSum contract, evaluated exactly: s = round53(u+v) and s + t = u + v
        let exact := Dy.add u.toDy v.toDy
        let c1 := F64.same s (F64.rnd exact (u.signbit && v.signbit))
        let c2 := s.isFinite && t.isFinite && Dy.eq (Dy.add s.toDy t.toDy) exact
        if c1 && c2 then both (expectF "sum.s" ms s) (expectF "sum.t" mt t)
        else .bad s!"sum u={showF u} v={showF v} s={showF s} t={showF t} rounded={c1} exact={c2}"
    | _, _ => .bad "parse"
  | "angdiff" => some <|
    match parseFs args, parseFs res with
    | some [x, y], some [d, e] =>
      if !(x.isFinite && y.isFinite) then
        (if d.isNaN then .ok else .bad "non-finite input must give NaN")
      else if !(d.isFinite && e.isFinite) then .bad s!"finite input gave d={showF d} e={showF e}"
      else
        let tot := Dy.add d.toDy e.toDy
        let c1 := isMult360 (Dy.sub tot (Dy.sub y.toDy x.toDy))
        let c2 := Dy.le (Dy.abs d.toDy) ⟨180, 0⟩
        -- d is the rounded value of d + e
        let c3 := F64.same (F64.rnd tot d.signbit) d
        let (md, me) := angDiff x y
        if c1 && c2 && c3 then both (expectF "angdiff.d" md d) (expectF "angdiff.e" me e)
        else .bad s!"angdiff x={showF x} y={showF y} d={showF d} e={showF e} congruent={c1} inrange={c2} rounded={c3}"
    | _, _ => .bad "parse"
  | "anground" => some <|
    match parseFs args, parseFs res with
    | some [x], some [r] => expectF "anground" (angRound x) r
    | _, _ => .bad "parse"
  | "latfix" => some <|
    match parseFs args, parseFs res with
    | some [x], some [r] => expectF "latfix" (latFix x) r
    | _, _ => .bad "parse"
  | "sincosd" => some <|
    -- args: x, then kernel values sincosd(d) for the reduced d; res: sincosd(x)
    match parseFs args, parseFs res with
    | some [x, d, s, c], some [sx, cx] =>
      if !x.isFinite then (if sx.isNaN && cx.isNaN then .ok else .bad "non-finite input must give NaN")
      else
        let (md, _) := reduce90 x
        let (ms, mc) := sincosdWrap x s c
        all [expectF "sincosd.reduced" md d, expectF "sincosd.sin" ms sx, expectF "sincosd.cos" mc cx]
    | _, _ => .bad "parse"
  | "sincosde" => some <|
    -- args: x t, then an independent wide-precision evaluation (rounded to double) of sin / cos of the exactly reduced angle
    -- d0 + t; res: sincosde(x, t).  The model does the reduction, AngRound, the special-value branches, the quadrant switch and
    -- the signed zeros; only in the generic branch do the oracle values enter, and only there is a tolerance used:
    -- 3 ulp (sincosd's 2 + the rounding of d0 + t) + ½ ulp for the oracle's own rounding + the documented AngRound gap
    match parseFs args, parseFs res with
    | some [x, t, os, oc], some [sx, cx] =>
      if !(x.isFinite && t.isFinite) then (if sx.isNaN && cx.isNaN then .ok else .bad "non-finite input must give NaN")
      else
        let d := sincosdeArg x t
        let br := sincosBranch d
        -- the model's own reduced angle decides whether the sine kernel is an exact zero (AngRound flushes |d0 + t| < 2^-58)
        let ks := if d.isZero then d * degreeD else os
        let kc := if d.isZero then (1 : F64) else oc
        let (ms, mc) := sincosdeM (constKern ks kc 0) x t
        let exact := d.isZero || br != Branch.generic
        let floor : Dy := ⟨1, -63⟩          -- 2^-58 degrees in radians, rounded up
        all [cmpTrig s!"sincosde.sin[{repr br}]" exact 4 floor ms sx, cmpTrig s!"sincosde.cos[{repr br}]" exact 4 floor mc cx]
    | _, _ => .bad "parse"
  | "trig1" => some <|
    -- args: x, oracle sin / cos of the reduced angle, oracle atan2 (radians) of atand's canonical octant problem;
    -- res: sincosd(x) (2), sind, cosd, tand, atand — all predicted by the full models around the oracle kernels
    match parseFs args, parseFs res with
    | some [x, os, oc, oa], some [sx, cx, sd, cd, td, ad] =>
      if x.isNaN then (if sx.isNaN && cx.isNaN && sd.isNaN && cd.isNaN && td.isNaN && ad.isNaN then .ok else .bad "NaN input must give NaN")
      else
        let k := constKern os oc oa
        let trig : Verdict :=
          if !x.isFinite then (if sx.isNaN && cx.isNaN && sd.isNaN && cd.isNaN && td.isNaN then .ok else .bad "non-finite input must give NaN")
          else
            let d := F64.remainder x qd
            let exact := sincosBranch d != Branch.generic
            let (ms, mc) := sincosdM k x
            let mt := tandM k x
            -- tand: exact at the clamp and where numerator and denominator are both special; 6 ulp elsewhere
            let texact := F64.same mt tandOverflow || F64.same mt (F64.neg tandOverflow) || sincosBranch d == Branch.s45
            all [cmpTrig "sincosd.sin" exact 3 ⟨0, 0⟩ ms sx, cmpTrig "sincosd.cos" exact 3 ⟨0, 0⟩ mc cx,
                 cmpTrig "sind" exact 3 ⟨0, 0⟩ (sindM k x) sd, cmpTrig "cosd" exact 3 ⟨0, 0⟩ (cosdM k x) cd,
                 cmpTrig "tand" texact 7 ⟨0, 0⟩ mt td]
        -- atand: exact on the axes (kernel value ±0 / x = ±1 / ±inf), 4 ulp (+ ½ for the oracle) elsewhere
        let ma := atandM k x
        let aexact := x.isZero || x.isInf || Dy.eq (Dy.abs x.toDy) ⟨1, 0⟩
        both trig (if aexact then expectF "atand" (if x.isZero then x else if x.isInf then F64.copysign qd x else F64.copysign (F64.ofInt 45) x) ad
                   else cmpTrig "atand" false 5 ⟨0, 0⟩ ma ad)
    | _, _ => .bad "parse"
  | "atan2d" => some <|
    -- args: y x, canonical (y', x') as the harness obtained them from the model, kernel ang = atan2d(y', x'); res: atan2d(y, x)
    match parseFs args, parseFs res with
    | some [y, x, ang], some [r] =>
      if y.isNaN || x.isNaN then (if r.isNaN then .ok else .bad "NaN input must give NaN")
      else expectF "atan2d" (atan2dWrap y x ang) r
    | _, _ => .bad "parse"
  | "one" => some <|
    -- args: precision tag, x; res: AngNormalize(x), AngRound(x), LatFix(x) at that precision, decided exactly
    match args, parseGs res with
    | [tag, xs], some [an, ar, lf] =>
      match Fmt.ofTag tag, parseG xs with
      | some f, some x =>
        let vNorm : Verdict :=
          if !x.isFinite then (if an.isNaN then .ok else .bad "AngNormalize: non-finite input must give NaN")
          else if !an.isFinite then .bad s!"AngNormalize: finite input gave {showG an}"
          else
            let c1 := isMult360 (Dy.sub an.toDy x.toDy)
            let c2 := Dy.le (Dy.abs an.toDy) ⟨180, 0⟩
            let c3 := !(an.isZero || Dy.eq (Dy.abs an.toDy) ⟨180, 0⟩) || (an.signbit == x.signbit)
            if c1 && c2 && c3 then expectG "AngNormalize(model)" (angNormalize x) an
            else .bad s!"AngNormalize x={showG x} r={showG an} congruent={c1} inrange={c2} sign={c3}"
        all [vNorm, expectG "AngRound" (angRoundG f x) ar, expectG "LatFix" (latFix x) lf]
      | _, _ => .bad "parse"
    | _, _ => .bad "parse"
  | "gsum" => some <|
    match args, parseGs res with
    | [tag, us, vs], some [s, t, fs, ft] =>
      match Fmt.ofTag tag, parseG us, parseG vs with
      | some f, some u, some v =>
        if !(u.isFinite && v.isFinite) then .skip "nonfinite"
        else
          let exact := Dy.add u.toDy v.toDy
          let r := rndG f exact (u.signbit && v.signbit)
          if !r.isFinite then (if sameVal r s then .skip "overflow" else .bad s!"sum: overflow expected, s={showG s}")
          else
            -- TwoSum contract at the precision of the instantiation: s = RN(u+v) and s + t = u + v exactly
            let c1 := sameVal r s
            let c2 := s.isFinite && t.isFinite && Dy.eq (Dy.add s.toDy t.toDy) exact
                        && sameVal fs s && ft.isFinite && Dy.eq (Dy.add fs.toDy ft.toDy) exact     -- fastsum (|u| ≥ |v|): same contract
            -- near overflow of the intermediate differences the contract is not promised
            let big := Dy.le (two (f.emax - 2)) (Dy.abs exact) || Dy.le (two (f.emax - 2)) (Dy.abs u.toDy) || Dy.le (two (f.emax - 2)) (Dy.abs v.toDy)
            -- double: fastsum bit for bit against the model
            let c3 := tag != "d" || !(Dy.le (Dy.abs v.toDy) (Dy.abs u.toDy)) ||
              (sameVal (Accum.fastsum u v).1 fs && sameVal (Accum.fastsum u v).2 ft)
            if c1 && (c2 || big) && c3 then .ok
            else .bad s!"sum[{tag}] u={showG u} v={showG v} s={showG s} t={showG t} rounded={c1} exact={c2} fastsum-model={c3}"
      | _, _, _ => .bad "parse"
    | _, _ => .bad "parse"
  | "gangdiff" => some <|
    match args, parseGs res with
    | [tag, xs, ys], some [d, e] =>
      match Fmt.ofTag tag, parseG xs, parseG ys with
      | some f, some x, some y =>
        if !(x.isFinite && y.isFinite) then (if d.isNaN then .ok else .bad "AngDiff: non-finite input must give NaN")
        else if !(d.isFinite && e.isFinite) then .bad s!"AngDiff: finite input gave d={showG d} e={showG e}"
        else
          let tot := Dy.add d.toDy e.toDy
          let diff := Dy.sub y.toDy x.toDy
          let c1 := isMult360 (Dy.sub tot diff)
          let c2 := Dy.le (Dy.abs tot) ⟨180, 0⟩
          let c3 := Dy.eq (Dy.roundTo f.p f.emin tot) d.toDy
          -- at 0 and ±180 the sign of d is the sign of y − x
          let edge := tot.m = 0 || Dy.eq (Dy.abs tot) ⟨180, 0⟩
          let sgn := if diff.m = 0 then (y.signbit && !x.signbit) else decide (diff.m < 0)
          let c4 := !edge || d.signbit == sgn
          if c1 && c2 && c3 && c4 then .ok
          else .bad s!"AngDiff[{tag}] x={showG x} y={showG y} d={showG d} e={showG e} congruent={c1} inrange={c2} rounded={c3} sign={c4}"
      | _, _, _ => .bad "parse"
    | _, _ => .bad "parse"
  | "gacc" => some <|
    match args with
    | tag :: toks =>
      match Fmt.ofTag tag, parseGs res with
      | some f, some (s0 :: t0 :: rest) =>
        if !(sameVal s0 (0 : F64) && sameVal t0 (0 : F64)) then .bad "Accumulator() must hold (+0, +0)" else
        let st := accWalk f (tag == "d") { s := s0, t := t0, v := Dy.zero, m := Dy.zero } toks rest
        match st.bad with
        | some msg => .bad s!"accumulator[{tag}] {msg}"
        | none =>
          if st.skip then .skip "non-finite state" else
          if !(st.s.isFinite && st.t.isFinite) then .skip "overflow" else
          let err := Dy.abs (Dy.sub (Dy.add st.s.toDy st.t.toDy) st.v)
          -- "roughly twice working precision": 2^(8−2p) relative to the accumulated magnitude (+ the subnormal floor)
          let bound : Dy := Dy.add (scale st.m (8 - 2 * (f.p : Int))) (two (f.emin + 6))
          if Dy.le err bound then .ok
          else .bad s!"accumulator[{tag}] error {err.toFloat} exceeds 2^(8-2p)·{st.m.toFloat} (exact {st.v.toFloat})"
      | _, _ => .bad "parse"
    | _ => .bad "parse"
  | "gatan2d" | "gsincosde" | "gtaupf" | "gpoly" | "gnorm" | "gconst" | "swab" | "f32scan" =>
    some (.skip "judged by the harness-side oracle against the wider type (libm kernels)")
  | _ => none

end GeoVerif.Corr.C16
