import GeoVerif.Corr.Proto
import GeoVerif.Model.Rhumb
import GeoVerif.Corr.C09Full
/-!
Correspondence for C09.
* `dd`, `dde`: the polymorphic divided-difference formula models run in native binary64 against the private
  `DAuxLatitude` functions (tolerance: a few ulp; in the branches that subtract, the conditioning of that subtraction).
* `rinv`: `lon12 = AngDiff(lon1, lon2)` from the exact `F64` model (`|lon12| ≤ 180` decided exactly), then the
  polymorphic `inverseCore` on the implementation's kernel values.
* `rdir`: `positionMu`, `positionBranch` (pole test and the two-step beyond-the-pole reduction) and `lon2Of`
  executed exactly over `F64`; the μ→φ kernel value is supplied by the implementation at the *independently* reflected
  rectifying latitude, so a wrong reduction shows both as model ≠ reflection and as lat2 ≠ kernel(reflection).
-/
namespace GeoVerif.Corr.C09
open GeoVerif GeoVerif.Proto GeoVerif.Rhumb

def pfl (s : String) : Option Float := (hexToNat s).bind fun n => if s.length == 16 then some (Float.ofBits n.toUInt64) else none
def shw (x : Float) : String := toString x ++ "[" ++ natToHex x.toBits.toNat 16 ++ "]"
def eps : Float := 2.220446049250313e-16

/-- both NaN, equal, or `|a − b| ≤ tol` -/
def closeF (a b tol : Float) : Bool := (a.isNaN && b.isNaN) || a == b || Float.abs (a - b) ≤ tol

def fin (x : Float) : Bool := !x.isNaN && !x.isInf

def ulp (x : Float) : Float :=
  let a := Float.abs x
  if a < 1e-300 then 5e-324 else a * eps

def handle (op : String) (args res : List String) : Option Verdict :=
  match C09Full.handle op args res with
  | some v => some v
  | none =>
  match op with
  | "dd" => some <|
    match args, res.mapM pfl with
    | [fn, xs, ys], some [v] =>
      match pfl xs, pfl ys with
      | some x, some y =>
        if !(fin x && fin y) then .skip "non-finite argument: shelter branches are judged by the harness" else
        if (x != 0 && Float.abs x < 1e-150) || (y != 0 && Float.abs y < 1e-150) then .skip "underflow regime" else
        let (m, g) : Float × (Float → Float) :=
          if fn == "0" then (Dsn x y, sn) else if fn == "1" then (Datan x y, Float.atan) else if fn == "2" then (Dasinh x y, Float.asinh)
          else if fn == "3" then (Dh x y, hfun) else if fn == "4" then (Dlam x y, Float.asinh) else if fn == "5" then (Dp0Dpsi x y, fun t => Float.asinh (hfun t))
          else if fn == "6" then (Dsin x y, Float.sin) else (hfun x, hfun)
        -- branches that subtract g(y) − g(x): one rounding of either value is amplified by (|g x| + |g y|)/|y − x|
        let sub := x * y ≤ 0 && x != y
        let tol := 1e-13 * Float.abs v + (if sub || fn == "6" then 64 * eps * (Float.abs (g x) + Float.abs (g y) + (if fn == "6" then 1 else 0)) / Float.abs (y - x) + 1e-9 * Float.abs v else 0)
        let tol := if fn == "6" && x == y then 1e-13 else tol
        if closeF m v tol then .ok
        else .bad s!"divided-difference helper {fn}({shw x}, {shw y}): impl={shw v} formula model={shw m} (tolerance {tol})"
      | _, _ => .bad "parse"
    | _, _ => .bad "parse"
  | "dcl" => some <|
    match args with
    | sp :: _pl :: rest =>
      match rest.mapM pfl, res.mapM pfl with
      | some (D :: s1 :: c1 :: s2 :: c2 :: cs), some [v] =>
        let m := DClenshaw (sp == "1") D s1 c1 s2 c2 cs
        let mag := cs.foldl (fun acc c => acc + Float.abs c) 0 * (2 * cs.length.toFloat + 2)
        if closeF m v (64 * eps * mag + 1e-300) then .ok
        else .bad s!"DClenshaw: impl={shw v} formula model={shw m}"
      | _, _ => .bad "parse"
    | _ => .bad "parse"
  | "dde" => some <|
    match args, res.mapM pfl with
    | [_a, fs, fn, _l1, _l2, txs, tys], some [v] =>
      match pfl fs, pfl txs, pfl tys with
      | some f, some tx, some ty =>
        if fn == "2" then .skip "DRectifying (elliptic integrals) is judged by the quadrature oracle of the harness" else
        if !(fin tx && fin ty) then .skip "pole: shelter branches are judged by the harness" else
        if (tx != 0 && Float.abs tx < 1e-150) || (ty != 0 && Float.abs ty < 1e-150) then .skip "underflow regime" else
        let fm1 := 1 - f; let e2 := f * (2 - f); let e2m1 := fm1 * fm1
        let e := Float.sqrt (Float.abs e2); let e1 := Float.sqrt (Float.abs (e2 / (1 - e2)))
        let m := if fn == "0" then DParametric fm1 e2m1 tx ty else DIsometric f e2 e e1 fm1 tx ty
        let tol := 1e-12 * Float.abs v + (if tx * ty < 0 then 64 * eps * (Float.abs (Float.atan tx) + Float.abs (Float.atan ty)) / Float.abs (Float.atan ty - Float.atan tx) * Float.abs v else 0)
        if closeF m v tol then .ok
        else .bad s!"{if fn == "0" then "DParametric" else "DIsometric"}(tan {shw tx}, tan {shw ty}), f={f}: impl={shw v} formula model={shw m}"
      | _, _, _ => .bad "parse"
    | _, _ => .bad "parse"
  | "rinv" => some <|
    match args with
    | _a :: _f :: _ex :: _lat1 :: lon1s :: _lat2 :: lon2s :: ks =>
      match parseF lon1s, parseF lon2s, ks.mapM pfl, res.mapM pfl with
      | some lon1, some lon2, some [psi1, psi2, dmudpsi, mudiff, rm, c2, msx], some [s12, azi12, S12] =>
        if !(lon1.isFinite && lon2.isFinite) then .skip "non-finite longitude" else
        let d := (MathF.angDiff lon1 lon2).1
        -- the shortest-course contract, decided exactly
        if !(F64.le (F64.abs d) MathF.hd) then .bad s!"AngDiff contract: |lon12| > 180: {showF d}" else
        let lon12 := d.toFloat
        let deg : Float := 3.14159265358979323846 / 180
        let K : InvKernels Float := ⟨psi1, psi2, dmudpsi, mudiff, rm, c2, msx⟩
        let (ms12, mazi, mS12) := inverseCore deg lon12 K (psi1.isInf || psi2.isInf)
        let mazid := mazi / deg
        let dazi := Float.abs (azi12 - mazid)
        let dazi := if dazi > 180 then Float.abs (dazi - 360) else dazi
        if !(closeF ms12 s12 (16 * eps * Float.abs s12 + 1e-300)) then .bad s!"GenInverse s12: impl={shw s12} model={shw ms12}"
        else if !((azi12.isNaN && mazid.isNaN) || dazi ≤ 2e-13) then .bad s!"GenInverse azi12: impl={shw azi12} model={shw mazid} (lon12={shw lon12})"
        else if !(closeF mS12 S12 (8 * eps * Float.abs S12 + 1e-300)) then .bad s!"GenInverse S12: impl={shw S12} model c2*lon12*MeanSinXi={shw mS12} (lon12={shw lon12})"
        else .ok
      | _, _, _, _ => .bad "parse"
    | _ => .bad "parse"
  | "rdir" => some <|
    match args with
    | _a :: _f :: _ex :: _lat1 :: lon1s :: _azi :: s12s :: unr :: ks =>
      match parseF lon1s, parseF s12s, ks.mapM parseF, res.mapM parseF with
      | some lon1, some s12, some [mu1, rm, salp, calp, mfold, latk, dmudpsi, c2, msx], some [lat2, lon2, S12] =>
        if !(lon1.isFinite && s12.isFinite && mu1.isFinite) then .skip "non-finite input" else
        let (r12, mu2) := positionMu rm mu1 calp s12
        let (pole, m) := positionBranch mu2
        let l2 := lat2.toFloat; let lk := latk.toFloat
        if !(closeF l2 lk (8 * ulp 90)) then
          .bad s!"GenPosition lat2: impl={showF lat2} but the mu->phi kernel at the {if pole then "reflected " else ""}rectifying latitude {showF mfold} gives {showF latk} (model: pole branch={pole}, mu2={showF mu2}, reduced={showF m})"
        else if pole then
          -- `180 − mu2` is rounded once at magnitude < 512 (ulp 2^-44) before the exact second normalisation
          if !(F64.le (F64.abs (m - mfold)) (.fin false 1 (-43))) then .bad s!"pole wrap: the two-step reduction of mu2={showF mu2} gives {showF m}, the reflected rectifying latitude is {showF mfold}"
          else if !(F64.le (F64.abs m) MathF.qd) then .bad s!"pole wrap: reduced rectifying latitude {showF m} outside [-90, 90]"
          else if !(lon2.isNaN && S12.isNaN) then .bad s!"GenPosition beyond the pole: lon2={showF lon2} S12={showF S12} (NaN expected)"
          else .ok
        else
          let lon2x := r12 * salp / dmudpsi
          let ml := (lon2Of (unr == "1") lon1 lon2x).toFloat
          let mS := (c2 * lon2x * msx).toFloat
          let il := lon2.toFloat
          let dl := Float.abs (il - ml)
          let dl := if unr != "1" && dl > 180 then Float.abs (dl - 360) else dl
          let tl := 4 * ulp (Float.abs lon1.toFloat + Float.abs lon2x.toFloat + 180)
          if !((il.isNaN && ml.isNaN) || il == ml || dl ≤ tl) then .bad s!"GenPosition lon2: impl={showF lon2} model={shw ml} (lon2x={showF lon2x})"
          else if !(closeF mS S12.toFloat (8 * eps * Float.abs mS + 1e-300)) then .bad s!"GenPosition S12: impl={showF S12} model={shw mS}"
          else .ok
      | _, _, _, _ => .bad "parse"
    | _ => .bad "parse"
  | _ => none

end GeoVerif.Corr.C09
