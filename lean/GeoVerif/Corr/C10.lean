import GeoVerif.Corr.Proto
import GeoVerif.Model.DMS
import GeoVerif.Model.UTMUPS
import GeoVerif.Model.Calendar
import GeoVerif.Model.ParseLine
/-!
Correspondence relations for C10 (DMS / Utility / GeoCoords text layer).

Discrete outputs (strings, flag, accept / reject) are compared **exactly** with the model.  A floating value that
differs from the model's bits is then judged by the *property* evaluated exactly (rational arithmetic): the decoded
value must be within 2⁻⁵⁰·Σ|pieces| of the exact `±(d + m/60 + s/3600)`; an encoder string that differs from the
model's must still be normalised and within half a unit of the last digit (+ 2⁻⁵⁰|x|) of the exact binary value.
Those cases are counted as `skip` (drift), everything else is `bad`.
-/
namespace GeoVerif.Corr.C10
open GeoVerif GeoVerif.Proto GeoVerif.DMS GeoVerif.Decimal

def natsOf (b : List UInt8) : Bytes := b.map UInt8.toNat
def showB (b : Bytes) : String := "s:" ++ String.join (b.map fun x => natToHex x 2)
def textB (b : Bytes) : String := String.ofList (b.map fun x => if 32 ≤ x ∧ x < 127 then Char.ofNat x else '?')

def parseN (s : String) : Option Nat := s.toNat?
def parseStr (s : String) : Option Bytes := (parseS s).map natsOf

/-! ### tiny exact rationals `(num, den)`, `den > 0` -/
abbrev Q := Int × Nat
def qadd (a b : Q) : Q := (a.1 * b.2 + b.1 * a.2, a.2 * b.2)
def qneg (a : Q) : Q := (-a.1, a.2)
def qsub (a b : Q) : Q := qadd a (qneg b)
def qabs (a : Q) : Q := (a.1.natAbs, a.2)
def qle (a b : Q) : Bool := a.1 * b.2 ≤ b.1 * a.2
def qmulI (a : Q) (k : Int) : Q := (a.1 * k, a.2)
def qdivN (a : Q) (k : Nat) : Q := (a.1, a.2 * k)
def qofF (x : F64) : Q :=
  match x with
  | .fin s m e =>
    let v : Int := if s then -(m : Int) else m
    if e ≥ 0 then (v * 2 ^ e.toNat, 1) else (v, 2 ^ (-e).toNat)
  | _ => (0, 1)
/-- nearest integer to a/b -/
def qround (a : Q) : Int := (2 * a.1 + a.2) / (2 * (a.2 : Int))

def numQ (n : Num) : Q := ((n.int * 10 ^ n.nfrac + n.frac : Nat), 10 ^ n.nfrac)

/-- exact value of the parsed fields: `±(d + m/60 + s/3600)` -/
def parsedQ (p : Parsed) : Q :=
  let v := qadd (numQ p.slots.d) (qadd (qdivN (numQ p.slots.m) 60) (qdivN (numQ p.slots.s) 3600))
  if p.neg then qneg v else v

/-- exact sum of the pieces and Σ|piece| for an accepted, finite string -/
def exactDecode (dms : Bytes) : Option (Q × Q) :=
  let t := trim (replaceAll dms)
  let ps := pieces (t.length + 1) true t
  ps.foldl (fun acc p => match acc, parseFields p with
    | some (s, a), .ok f => some (qadd s (parsedQ f), qadd a (qabs (parsedQ f)))
    | _, _ => Option.none) (some ((0, 1), (0, 1)))

/-- `|impl − exact| ≤ 2⁻⁵⁰·scale + 2⁻¹⁰⁷⁰` -/
def closeQ (impl : F64) (exact scale : Q) : Bool :=
  impl.isFinite &&
  qle (qabs (qsub (qofF impl) exact)) (qadd (qdivN (qabs scale) (2 ^ 50)) (1, 2 ^ 1070))

def flagOfStr (s : String) : Option Flag := (parseN s).bind Flag.ofCode

/-- verdict for an op returning `value flag` or `!E` -/
def decVerdict (name : String) (input : Bytes) (model : Except Err (F64 × Flag)) (res : List String) : Verdict :=
  match res, model with
  | ["!E"], .error _ => .ok
  | ["!E"], .ok (v, f) => .bad s!"{name}: implementation rejects '{textB input}', model accepts with value {showF v} flag {f.code}"
  | [v, f], .error e =>
    .bad s!"{name}: implementation accepts '{textB input}' (value {v} flag {f}) but the model rejects it ({e})"
  | [v, f], .ok (mv, mf) =>
    (match parseF v, flagOfStr f with
     | some iv, some ifl =>
       if ifl ≠ mf then .bad s!"{name}: hemisphere flag impl={ifl.code} model={mf.code} for '{textB input}'"
       else if F64.same iv mv then .ok
       else match exactDecode input with
         | some (ex, sc) =>
           if closeQ iv ex sc then .skip "value differs from the model's bits but is within 2^-50 of the exact sum"
           else .bad s!"{name}: value impl={showF iv} model={showF mv} exact={ex.1}/{ex.2} for '{textB input}'"
         | Option.none => .bad s!"{name}: value impl={showF iv} model={showF mv} for '{textB input}'"
     | _, _ => .bad s!"{name}: parse result")
  | r, _ => .bad s!"{name}: unexpected result {r}"

/-- verdict for an op returning a single value or `!E` -/
def valVerdict (name : String) (input : Bytes) (model : Except Err F64) (res : List String)
    (fallback : F64 → Bool := fun _ => false) : Verdict :=
  match res, model with
  | ["!E"], .error _ => .ok
  | ["!E"], .ok v => .bad s!"{name}: implementation rejects '{textB input}', model gives {showF v}"
  | [v], .error e => .bad s!"{name}: implementation accepts '{textB input}' (value {v}) but the model rejects it ({e})"
  | [v], .ok mv =>
    (match parseF v with
     | some iv =>
       if F64.same iv mv then .ok
       else if fallback iv then .skip "value differs from the model's bits but satisfies the exact relation"
       else .bad s!"{name}: value impl={showF iv} model={showF mv} for '{textB input}'"
     | Option.none => .bad s!"{name}: parse result")
  | r, _ => .bad s!"{name}: unexpected result {r}"

/-- property-level judgement of an encoder output that differs from the model's string -/
def encProp (angle : F64) (trailing prec : Nat) (ind : Flag) (out : Bytes) : Bool :=
  match parseFields out with
  | .error _ => false
  | .ok p =>
    -- decimals actually printed in the trailing field (the clamp of the requested precision is not part of the property,
    -- but at least the clamped and at most the requested number of decimals must be there)
    let last := if trailing = 0 then p.slots.d else if trailing = 1 then p.slots.m else p.slots.s
    let precOK := clampPrec trailing prec ≤ last.nfrac && last.nfrac ≤ prec
    let prec := last.nfrac
    let scale : Nat := if trailing = 1 then 60 else if trailing = 2 then 3600 else 1
    let wantFlag := if ind = Flag.lat then Flag.lat else if ind = Flag.lon ∨ ind = Flag.num then Flag.lon else Flag.none
    let norm := p.slots.m.int < 60 && p.slots.s.int < 60 && (trailing ≥ 1 || (p.slots.m == {} && p.slots.s == {}))
    let v := parsedQ p
    let a := qofF angle
    let tol := qadd (1, 2 * scale * 10 ^ prec) (qdivN (qadd (qabs a) (qabs v)) (2 ^ 50))
    let diff := qsub v a
    let diff := if ind = Flag.azi then qsub diff (qmulI (1, 1) (360 * qround (qdivN diff 360))) else diff
    let rangeOK := ind ≠ Flag.azi || (qle (0, 1) v && qle v (360, 1))
    decide (p.flag = wantFlag) && precOK && norm && qle (qabs diff) tol && rangeOK

def strVerdict (name : String) (model : Bytes) (res : List String) (prop : Bytes → Bool) : Verdict :=
  match res with
  | [r] =>
    (match parseStr r with
     | some b =>
       if b == model then .ok
       else if prop b then .skip "string differs from the model's but satisfies the property exactly"
       else .bad s!"{name}: impl='{textB b}' model='{textB model}'"
     | Option.none => .bad s!"{name}: parse result")
  | r => .bad s!"{name}: unexpected result {r}"

/-- `Utility::fract` -/
def utilFract (s : Bytes) : Except Err F64 :=
  match s.findIdx? (· == 47) with
  | some d =>
    if d ≥ 1 ∧ d + 2 ≤ s.length then
      match utilVal (s.take d), utilVal (s.drop (d + 1)) with
      | .ok a, .ok b => .ok (a / b)
      | .error e, _ => .error e
      | _, .error e => .error e
    else utilVal s
  | Option.none => utilVal s

/-- `GeoCoords::UTMUPSString` -/
def utmupsString (zone : Int) (northp : Bool) (e n : F64) (prec : Int) (abbr : Bool) : Except String Bytes :=
  let prec := max (-5) (min 9 prec)
  let scale : F64 := if prec < 0 then F64.ofInt ((10 : Int) ^ (-prec).toNat) else F64.ofInt 1
  match UTMUPS.encodeZone zone northp abbr with
  | .error e => .error e
  | .ok z =>
    let one (x : F64) : Bytes :=
      if x.isFinite then
        let q := x / scale
        [32] ++ utilStr q (max 0 prec).toNat ++
          (if prec < 0 ∧ F64.gt (F64.abs q) (.fin false 1 (-1)) then zfill (-prec).toNat [48] else [])
      else strBytes " nan"
    .ok (z ++ one e ++ one n)

def handleBase (op : String) (args res : List String) : Option Verdict :=
  match op with
  | "enc" => some <|
    match args with
    | [a, t, p, i, s] =>
      (match parseF a, parseN t, parseN p, flagOfStr i, parseN s with
       | some x, some tr, some pr, some ind, some sep =>
         -- property-level fallback: any separator character is read as ':' (a leading minus sign is kept)
         let normSep (b : Bytes) : Bytes :=
           if sep = 0 ∨ sep = 58 then b else
           match b with
           | 45 :: t => 45 :: t.map (fun c => if c = sep then 58 else c)
           | _ => b.map (fun c => if c = sep then 58 else c)
         strVerdict "DMS::Encode" (encode x tr pr ind sep) res (fun b => x.isFinite && encProp x tr pr ind (normSep b))
       | _, _, _, _, _ => .bad "enc: parse")
    | _ => .bad "enc: parse"
  | "encp" => some <|
    match args with
    | [a, p, i, s] =>
      (match parseF a, parseN p, flagOfStr i, parseN s with
       | some x, some pr, some ind, some sep => strVerdict "DMS::Encode(prec)" (encodeP x pr ind sep) res (fun _ => false)
       | _, _, _, _ => .bad "encp: parse")
    | _ => .bad "encp: parse"
  | "dec" | "decform" => some <|
    match args with
    | s :: _ =>
      (match parseStr s with
       | some b => decVerdict "DMS::Decode" b (decode b) res
       | Option.none => .bad "dec: parse")
    | _ => .bad "dec: parse"
  | "decang" => some <|
    match args with
    | [s] => (match parseStr s with
       | some b => valVerdict "DMS::DecodeAngle" b (decodeAngle b) res
           (fun iv => match exactDecode b with | some (ex, sc) => closeQ iv ex sc | Option.none => false)
       | Option.none => .bad "decang: parse")
    | _ => .bad "decang: parse"
  | "decazi" => some <|
    match args with
    | [s] => (match parseStr s with
       | some b => valVerdict "DMS::DecodeAzimuth" b (decodeAzimuth b) res
           -- beyond 2^53 degrees the reduction to [-180, 180] is ill-conditioned: any in-range value is consistent
           -- with a decoded angle within 2^-50 of the exact sum
           (fun iv => match exactDecode b with
             | some (ex, _) => qle ((2 : Int) ^ 53, 1) (qabs ex) && iv.isFinite && F64.le (F64.abs iv) MathF.hd
             | Option.none => false)
       | Option.none => .bad "decazi: parse")
    | _ => .bad "decazi: parse"
  | "declatlon" => some <|
    match args with
    | [sa, sb, lf] =>
      (match parseStr sa, parseStr sb, parseN lf with
       | some a, some b, some l =>
         (match res, decodeLatLon a b (l != 0) with
          | ["!E"], .error _ => .ok
          | ["!E"], .ok (la, lo) => .bad s!"DecodeLatLon: implementation rejects ('{textB a}', '{textB b}'), model gives {showF la} {showF lo}"
          | [_, _], .error e => .bad s!"DecodeLatLon: implementation accepts ('{textB a}', '{textB b}') but the model rejects it ({e})"
          | [x, y], .ok (la, lo) =>
            (match parseF x, parseF y with
             | some ix, some iy =>
               if F64.same ix la && F64.same iy lo then .ok
               else
                 -- property-level: same assignment (compare with the exact values)
                 match exactDecode a, exactDecode b, decode a, decode b with
                 | some (ea, sa'), some (eb, sb'), .ok (_, fa), .ok (_, fb) =>
                   (match assignLatLon fa fb (l != 0) with
                    | .ok first =>
                      let (elat, slat, elon, slon) := if first then (ea, sa', eb, sb') else (eb, sb', ea, sa')
                      if closeQ ix elat slat && closeQ iy elon slon then .skip "values within 2^-50 of the exact sums"
                      else .bad s!"DecodeLatLon: impl=({showF ix},{showF iy}) model=({showF la},{showF lo})"
                    | .error _ => .bad "DecodeLatLon: model inconsistent")
                 | _, _, _, _ => .bad s!"DecodeLatLon: impl=({showF ix},{showF iy}) model=({showF la},{showF lo})"
             | _, _ => .bad "declatlon: parse result")
          | r, _ => .bad s!"DecodeLatLon: unexpected result {r}")
       | _, _, _ => .bad "declatlon: parse")
    | _ => .bad "declatlon: parse"
  | "str" => some <|
    match args with
    | [a, p] =>
      (match parseF a, parseN p with
       | some x, some pr => strVerdict "Utility::str" (utilStr x pr) res (fun _ => false)
       | _, _ => .bad "str: parse")
    | _ => .bad "str: parse"
  | "val" => some <|
    match args with
    | s :: _ => (match parseStr s with
       | some b => valVerdict "Utility::val" b (utilVal b) res
       | Option.none => .bad "val: parse")
    | _ => .bad "val: parse"
  | "fract" => some <|
    match args with
    | [s] => (match parseStr s with
       | some b => valVerdict "Utility::fract" b (utilFract b) res
       | Option.none => .bad "fract: parse")
    | _ => .bad "fract: parse"
  | "nummatch" => some <|
    match args with
    | [s] => (match parseStr s with
       | some b => valVerdict "Utility::nummatch" b (.ok ((nummatch b).getD F64.pzero)) res
       | Option.none => .bad "nummatch: parse")
    | _ => .bad "nummatch: parse"
  | "lookup" => some <|
    match args, res with
    | [t, c], [r] =>
      (match parseStr t, parseN c, parseI r with
       | some tb, some ch, some k =>
         let m := lookup tb ch
         if m = k then .ok else .bad s!"Utility::lookup(\"{textB tb}\", byte {ch}): impl={k} model={m}"
       | _, _, _ => .bad "lookup: parse")
    | _, _ => .bad "lookup: parse"
  | "georep" => some <|
    match args with
    | [a, b, p, lf] =>
      (match parseF a, parseF b, parseI p, parseN lf with
       | some lat, some lon, some pr, some l =>
         let prec := (max 0 (min 9 pr + 5)).toNat
         let (x, y) := if l != 0 then (lon, lat) else (lat, lon)
         strVerdict "GeoCoords::GeoRepresentation" (utilStr x prec ++ [32] ++ utilStr y prec) res (fun _ => false)
       | _, _, _, _ => .bad "georep: parse")
    | _ => .bad "georep: parse"
  | "dmsrep" => some <|
    match args with
    | [a, b, p, lf, s] =>
      (match parseF a, parseF b, parseI p, parseN lf, parseN s with
       | some lat, some lon, some pr, some l, some sep =>
         let prec := (max 0 (min 10 pr + 5)).toNat
         let m := if l != 0 then encodeP lon prec Flag.lon sep ++ [32] ++ encodeP lat prec Flag.lat sep
                  else encodeP lat prec Flag.lat sep ++ [32] ++ encodeP lon prec Flag.lon sep
         strVerdict "GeoCoords::DMSRepresentation" m res (fun _ => false)
       | _, _, _, _, _ => .bad "dmsrep: parse")
    | _ => .bad "dmsrep: parse"
  | "utmstr" => some <|
    match args with
    | [z, np, e, n, p, ab] =>
      (match parseI z, parseN np, parseF e, parseF n, parseI p, parseN ab with
       | some zone, some northp, some ea, some no, some pr, some abbr =>
         (match utmupsString zone (northp != 0) ea no pr (abbr != 0), res with
          | .error _, ["!E"] => .ok
          | .ok m, [_] => strVerdict "GeoCoords::UTMUPSString" m res (fun _ => false)
          | .error e, r => .bad s!"UTMUPSString: model rejects ({e}), impl {r}"
          | .ok m, r => .bad s!"UTMUPSString: model '{textB m}', impl {r}")
       | _, _, _, _, _, _ => .bad "utmstr: parse")
    | _ => .bad "utmstr: parse"
  | "tool" => some <|
    -- tool <name> <variant> s:<input> | nin nout nerr exit : the line contract, decided here as well
    match res with
    | [a, b, c, d] =>
      (match parseN a, parseN b, parseN c, parseI d with
       | some nin, some nout, some nerr, some ex =>
         if nin ≠ nout then .bad s!"tool: {nin} input lines but {nout} output lines"
         else if (nerr > 0) ≠ (ex ≠ 0) then .bad s!"tool: {nerr} ERROR lines but exit status {ex}"
         else .ok
       | _, _, _, _ => .bad "tool: parse")
    | r => .bad s!"tool: unexpected result {r}"
  | "enc_rt" | "strval" | "geocoords" | "latlon_rt" | "decdoc" => some .ok     -- oracle-only ops (judged in the harness)
  | _ => Option.none

/-! ### glue: calendar, date strings, `ParseLine`, `trim`, `val<bool>`, `GeoCoords` token dispatch -/
open GeoVerif.Calendar GeoVerif.ParseLine

/-- `Utility::val<int>` on a string of decimal digits (the only strings `Utility::date` hands to it) -/
def valIntDigits (s : Bytes) : Option Int :=
  if s.isEmpty ∨ ¬ s.all (fun c => 48 ≤ c && c ≤ 57) then Option.none else
  let n : Nat := s.foldl (fun a c => a * 10 + (c - 48)) 0
  if n ≤ 2147483647 then some (Int.ofNat n) else Option.none

def isDig (c : Nat) : Bool := 48 ≤ c && c ≤ 57

/-- `Utility::date(const std::string&, …)` (without the spelling "now") -/
def dateStr (s : Bytes) : Option (Int × Int × Int) :=
  let ys := s.takeWhile isDig
  match s.dropWhile isDig with
  | [] => (valIntDigits s).map fun y => (y, 1, 1)
  | c :: r1 =>
    if c ≠ 45 then Option.none else if ys.isEmpty then Option.none else
    match valIntDigits ys with
    | Option.none => Option.none
    | some y =>
      if r1.isEmpty then Option.none else
      let ms := r1.takeWhile isDig
      match r1.dropWhile isDig with
      | [] => (valIntDigits r1).map fun m => (y, m, 1)
      | c2 :: r2 =>
        if c2 ≠ 45 then Option.none else if ms.isEmpty then Option.none else
        match valIntDigits ms with
        | Option.none => Option.none
        | some m =>
          if r2.isEmpty then Option.none else
          -- the day field goes to val<int> whole: digits only is the modelled case, anything else is judged `unknown`
          (valIntDigits r2).map fun d => (y, m, d)

/-- is the day field (if any) of a well-delimited date string all digits?  (otherwise `val<int>` sees signs / spaces) -/
def dateStrModelled (s : Bytes) : Bool :=
  match s.dropWhile isDig with
  | [] => true
  | _ :: r1 => match r1.dropWhile isDig with
    | [] => true
    | _ :: r2 => r2.all isDig

/-- `Utility::fractionalyear<double>` -/
def fracYearStr (s : Bytes) : Except Err F64 :=
  match utilVal s with
  | .ok v => .ok v
  | .error _ =>
    match dateStr s with
    | Option.none => .error "date"
    | some (y, m, d) =>
      match fracYear y m d with
      | Option.none => .error "invalid date"
      | some (y, a, b) => .ok (F64.ofInt y + F64.ofInt a / F64.ofInt b)

def optInts (l : List String) : Option (List Int) := l.mapM parseI

def handleGlue (op : String) (args res : List String) : Option Verdict :=
  match op with
  | "calday" => some <|
    match optInts args with
    | some [y, m, d] =>
      (match day y m d, res with
       | Option.none, ["!E"] => .ok
       | some s, [r] => if parseI r = some s then .ok else .bad s!"Utility::day({y},{m},{d}): impl={r} model={s}"
       | mdl, r => .bad s!"Utility::day({y},{m},{d}): impl={r} model={mdl}")
    | _ => .bad "calday: parse"
  | "caldaychk" => some <|
    match optInts args with
    | some [y, m, d] =>
      (match dayChecked y m d, res with
       | Option.none, ["!E"] => .ok
       | some s, [r] => if parseI r = some s then .ok else .bad s!"Utility::day({y},{m},{d},check): impl={r} model={s}"
       | mdl, r => .bad s!"Utility::day({y},{m},{d},check): impl={r} model={mdl}")
    | _ => .bad "caldaychk: parse"
  | "caldate" => some <|
    match optInts args with
    | some [s] =>
      (match date s, res with
       | Option.none, ["!E"] => .ok
       | some (y, m, d), [a, b, c] =>
         if parseI a = some y ∧ parseI b = some m ∧ parseI c = some d then .ok
         else .bad s!"Utility::date({s}): impl={a}-{b}-{c} model={y}-{m}-{d}"
       | mdl, r => .bad s!"Utility::date({s}): impl={r} model={mdl}")
    | _ => .bad "caldate: parse"
  | "caldow" => some <|
    match optInts args, res with
    | some [s], [r] => if parseI r = some (dow s) then .ok else .bad s!"Utility::dow({s}): impl={r} model={dow s}"
    | _, _ => .bad "caldow: parse"
  | "calscan" => some <|
    match optInts args, res with
    | some [s0, n], [r] =>
      let h := scanHash s0 n.toNat
      if r.toNat? = some h then .ok else .bad s!"calendar scan of days {s0}..+{n}: hash impl={r} model={h}"
    | _, _ => .bad "calscan: parse"
  | "datestr" => some <|
    match args with
    | [s] => (match parseStr s with
       | some b =>
         if Decimal.strBytes "now" == b then .ok
         else if !dateStrModelled b then .skip "day field is not a digit string (val<int> syntax not modelled)"
         else (match dateStr b, res with
          | Option.none, ["!E"] => .ok
          | some (y, m, d), [a, bb, c] =>
            if parseI a = some y ∧ parseI bb = some m ∧ parseI c = some d then .ok
            else .bad s!"Utility::date('{textB b}'): impl={a}-{bb}-{c} model={y}-{m}-{d}"
          | mdl, r => .bad s!"Utility::date('{textB b}'): impl={r} model={mdl}")
       | Option.none => .bad "datestr: parse")
    | _ => .bad "datestr: parse"
  | "fracyear" => some <|
    match args with
    | s :: _ => (match parseStr s with
       | some b =>
         if Decimal.strBytes "now" == b then .ok
         else if !dateStrModelled b then .skip "day field is not a digit string (val<int> syntax not modelled)"
         else valVerdict "Utility::fractionalyear" b (fracYearStr b) res
       | Option.none => .bad "fracyear: parse")
    | _ => .bad "fracyear: parse"
  | "parseline" => some <|
    match args, res with
    | l :: e :: c :: _, [f, k, v] =>
      (match parseStr l, parseN e, parseN c, parseStr k, parseStr v with
       | some line, some eq, some cm, some key, some val =>
         let (mf, mk, mv) := parseLine line eq cm
         if (f == "1") == mf && key == mk && val == mv then .ok
         else .bad s!"Utility::ParseLine('{textB line}', equals {eq}, comment {cm}): impl=({f}, '{textB key}', '{textB val}') model=({mf}, '{textB mk}', '{textB mv}')"
       | _, _, _, _, _ => .bad "parseline: parse")
    | _, r => .bad s!"parseline: unexpected result {r}"
  | "trim" => some <|
    match args, res with
    | [s], [r] =>
      (match parseStr s, parseStr r with
       | some b, some t => if trim b == t then .ok else .bad s!"Utility::trim('{textB b}'): impl='{textB t}' model='{textB (trim b)}'"
       | _, _ => .bad "trim: parse")
    | _, _ => .bad "trim: parse"
  | "valbool" => some <|
    match args with
    | s :: _ => (match parseStr s with
       | some b =>
         let t := trim b
         -- numeric spellings go through operator>> (not modelled)
         if (t.head?.map fun c => isDig c || c == 43 || c == 45).getD false then .skip "numeric spelling"
         else (match valBoolWord b, res with
           | Option.none, ["!E"] => .ok
           | some v, [r] => if (r == "1") == v ∧ (r == "1" ∨ r == "0") then .ok else .bad s!"Utility::val<bool>('{textB b}'): impl={r} model={v}"
           | mdl, r => .bad s!"Utility::val<bool>('{textB b}'): impl={r} model={mdl}")
       | Option.none => .bad "valbool: parse")
    | _ => .bad "valbool: parse"
  | "gcparse" => some <|
    -- token dispatch of GeoCoords::Reset: the reader chosen (last result field, computed independently in the harness) is the model's;
    -- no reader ⇒ GeographicErr
    match args with
    | s :: _ => (match parseStr s, res.getLast? with
       | some b, some k =>
         let d := dispatch b
         if parseN k ≠ some d then .bad s!"GeoCoords::Reset('{textB b}'): token dispatch harness={k} model={d} (tokens {(tokens b).length})"
         else if d = 0 ∧ res.head? ≠ some "!E" then .bad s!"GeoCoords::Reset('{textB b}') accepted although it has {(tokens b).length} tokens / no zone token"
         else .ok
       | _, _ => .bad "gcparse: parse")
    | _ => .bad "gcparse: parse"
  | "valint" | "rwarray" | "gcalt" | "gcnp" | "dmsnum" => some .ok     -- oracle-only ops (judged in the harness)
  | _ => Option.none

def handle (op : String) (args res : List String) : Option Verdict :=
  match handleGlue op args res with
  | some v => some v
  | Option.none => handleBase op args res

end GeoVerif.Corr.C10
