import GeoVerif.Corr.Proto
import GeoVerif.Model.ConicKernels
/-!
Correspondence for the cone kernels of C11 (`Model/ConicKernels.lean`).  The models are executed at two binary64
readings of `RealLike`: `FK 0` (hypot evaluated in double-double, i.e. correctly rounded up to rare ties, like
glibc's) and `FK 1` (the same with `hypot` and `log` off by one ulp).  The difference of the two runs measures
the conditioning of each output with respect to a last-bit change of an intermediate; the tolerance is
`32 ulp + 8 × that difference` (condition-aware, nothing fitted).
-/
namespace GeoVerif.Corr.C11K
open GeoVerif GeoVerif.Proto GeoVerif.Conic

structure FK (p : Nat) where
  v : Float

def splitF (a : Float) : Float × Float := let c := 134217729.0 * a; let hi := c - (c - a); (hi, a - hi)
def twoProd (a b : Float) : Float × Float :=
  let p := a * b
  let (ah, al) := splitF a
  let (bh, bl) := splitF b
  (p, ((ah * bh - p) + ah * bl + al * bh) + al * bl)

/-- `hypot` with a double-double sum of squares and one correction step of the square root -/
def hypotAcc (x y : Float) : Float :=
  let ax := Float.abs x; let ay := Float.abs y
  if ax.isInf || ay.isInf then ax + ay |>.abs
  else if x.isNaN || y.isNaN then x + y
  else
    let m := if ax < ay then ay else ax
    if m == 0 then 0 else
    let e := (Float.frExp m).2
    let a := Float.scaleB ax (-e); let b := Float.scaleB ay (-e)
    let (p1, e1) := twoProd a a
    let (p2, e2) := twoProd b b
    let s := p1 + p2
    let bb := s - p1
    let es := (p1 - (s - bb)) + (p2 - bb)
    let r := Float.sqrt s
    let (q, eq) := twoProd r r
    let resid := ((s - q) - eq) + (es + e1 + e2)
    Float.scaleB (r + resid / (2 * r)) e

def onePlus : Float := 1 + 2.220446049250313e-16

/-- last-bit probe: for salt `p > 0` multiply by `1 + σ·2⁻⁵²`, `σ ∈ {−1, 0, +1}` a hash of the bits of `r` and of `p`
    (a deterministic random-rounding probe: systematic perturbations would cancel in ratios) -/
def jig (p : Nat) (r : Float) : Float :=
  if p == 0 then r else
  let z : UInt64 := r.toBits + p.toUInt64 * 0x9e3779b97f4a7c15
  let z := (z ^^^ (z >>> 30)) * 0xbf58476d1ce4e5b9
  let z := (z ^^^ (z >>> 27)) * 0x94d049bb133111eb
  let z := z ^^^ (z >>> 31)
  let h := z % 3
  if h == 0 then r else if h == 1 then r * onePlus else r * (1 - 1.1102230246251565e-16)

instance (p : Nat) : RealLike (FK p) where
  add a b := ⟨a.v + b.v⟩
  sub a b := ⟨a.v - b.v⟩
  mul a b := ⟨a.v * b.v⟩
  div a b := ⟨a.v / b.v⟩
  neg a := ⟨-a.v⟩
  ofNat n := ⟨Float.ofNat n⟩
  ofDec n k := ⟨Float.ofScientific n true k⟩
  sqrt a := ⟨Float.sqrt a.v⟩
  cbrt a := ⟨Float.cbrt a.v⟩
  sin a := ⟨Float.sin a.v⟩
  cos a := ⟨Float.cos a.v⟩
  atan a := ⟨Float.atan a.v⟩
  abs a := ⟨Float.abs a.v⟩
  exp a := ⟨Float.exp a.v⟩
  log a := ⟨jig p (Float.log a.v)⟩
  sinh a := ⟨Float.sinh a.v⟩
  asinh a := ⟨Float.asinh a.v⟩
  atanh a := ⟨Float.atanh a.v⟩
  atan2 a b := ⟨Float.atan2 a.v b.v⟩
  hypot a b := ⟨jig p (hypotAcc a.v b.v)⟩
  max a b := if a.v < b.v then b else a
  min a b := if b.v < a.v then b else a
  ltb a b := a.v < b.v
  leb a b := a.v ≤ b.v
  eqb a b := a.v == b.v
  pi := ⟨3.14159265358979323846264338327950288⟩

def pfl (s : String) : Option Float := (hexToNat s).bind fun n => if s.length == 16 then some (Float.ofBits n.toUInt64) else none
def shw (x : Float) : String := toString x ++ "[" ++ natToHex x.toBits.toNat 16 ++ "]"
def epsF : Float := 2.220446049250313e-16
def degF : Float := 3.14159265358979323846 / 180     -- Math::degree()

/-- impl value `v` against the two model runs `a` (plain) and `b` (perturbed): `|v − a| ≤ n ulp + 8|a − b| + abs` -/
def near (v a b : Float) (n : Float := 32) (abs0 : Float := 0) : Bool :=
  let abs := if abs0.isNaN then 0 else abs0
  (v.isNaN && a.isNaN) || v == a ||
    Float.abs (v - a) ≤ n * epsF * (if Float.abs a < Float.abs v then Float.abs v else Float.abs a) + 8 * Float.abs (a - b) + abs

/-- of several probe runs, per output the one farthest from the plain run -/
def farL (a : List Float) (bs : List (List Float)) : List Float :=
  (List.range a.length).map fun i =>
    let ai := a.getD i 0
    bs.foldl (fun best b => let bi := b.getD i 0; if Float.abs (bi - ai) > Float.abs (best - ai) || (bi.isNaN && !ai.isNaN) then bi else best) ai

def checks (what : String) (l : List (String × Float × Float × Float × Float)) : Verdict :=
  -- (name, impl, model, perturbed model, absolute slack)
  match l.filter (fun (_, v, a, b, s) => !near v a b 32 s) with
  | [] => .ok
  | bads => .bad (what ++ ": " ++ String.intercalate "; " (bads.map fun (nm, v, a, b, _) => s!"{nm} impl={shw v} model={shw a} (perturbed run {shw b})"))

def lccOf (p : Nat) (m : List Float) : LCC (FK p) :=
  let g (i : Nat) : FK p := ⟨m.getD i 0⟩
  ⟨g 0, g 1, g 2, g 3, g 4, ⟨Float.tan (m.getD 5 0 * degF)⟩, g 6, g 7, g 8, g 9, g 10, g 11, g 12⟩
def albOf (p : Nat) (m : List Float) : ALB (FK p) :=
  let g (i : Nat) : FK p := ⟨m.getD i 0⟩
  ⟨g 0, ⟨Float.tan (m.getD 1 0 * degF)⟩, g 2, g 3, g 4, g 5, g 6, g 7, g 8, g 9⟩

def lccList {p : Nat} (L : LCC (FK p)) : List Float :=
  [L.sign.v, L.n.v, L.nc.v, L.t0nm1.v, L.scale.v, Float.atan L.tlat0.v / degF, L.k0.v, L.scbet0.v, L.tchi0.v, L.scchi0.v, L.psi0.v, L.nrho0.v, L.drhomax.v]
def albList {p : Nat} (A : ALB (FK p)) : List Float :=
  [A.sign.v, Float.atan A.tlat0.v / degF, A.k0.v, A.n0.v, A.m02.v, A.nrho0.v, A.k2.v, A.txi0.v, A.scxi0.v, A.sxi0.v]
def lccNames : List String := ["_sign", "_n", "_nc", "_t0nm1", "_scale", "_lat0", "_k0", "_scbet0", "_tchi0", "_scchi0", "_psi0", "_nrho0", "_drhomax"]
def albNames : List String := ["_sign", "_lat0", "_k0", "_n0", "_m02", "_nrho0", "_k2", "_txi0", "_scxi0", "_sxi0"]

def zip4 (names : List String) (v a b : List Float) (slack : String → Float) : List (String × Float × Float × Float × Float) :=
  (List.range names.length).map fun i => (names.getD i "?", v.getD i 0, a.getD i 0, b.getD i 0, slack (names.getD i "?"))

/-- the tail of the argument list after `k` tokens, parsed as doubles -/
def tailF (args : List String) (k : Nat) : Option (List Float) := (args.drop k).mapM pfl

def handleK (op : String) (args res : List String) : Option Verdict :=
  match op with
  | "lccinit" => some <|
    if res == ["!E"] then .skip "configuration rejected" else
    -- args: cfg(13) then a f s1 c1 s2 c2 k1; res: the 13 members
    match tailF args 13, res.mapM pfl with
    | some [a, f, s1, c1, s2, c2, k1], some m =>
      if m.length != 13 then .bad "parse" else
      let run (p : Nat) := lccList (lccInit (⟨⟨a⟩, ⟨f⟩⟩ : Ell (FK p)) ⟨s1⟩ ⟨c1⟩ ⟨s2⟩ ⟨c2⟩ ⟨k1⟩)
      let ma := run 0; let mb := farL ma [run 1, run 2, run 3, run 4, run 5]
      -- _lat0 in degrees: a few ulp of 90; _nc is exactly 0 or compared relatively; _t0nm1 ~ absolute 1 ulp of 1
      -- _drhomax ~ exp(n·74) amplifies a last-bit difference of n a hundredfold: it is compared with the model evaluated
      -- on the implementation's own members (kernel values), the members themselves against the full chain
      let dm (p : Nat) : Float :=
        let g (i : Nat) : FK p := ⟨m.getD i 0⟩
        (lccDrhomax (⟨⟨a⟩, ⟨f⟩⟩ : Ell (FK p)) (g 4) (g 1) (g 2) (g 3) (g 10) (g 8) (g 9)).v
      let ma := ma.set 12 (dm 0)
      let mb := mb.set 12 (farL [dm 0] [[dm 1], [dm 2], [dm 3]]).head!
      checks "LambertConformalConic::Init" (zip4 lccNames m ma mb fun nm => if nm == "_lat0" then 64 * epsF * 90 else if nm == "_t0nm1" || nm == "_psi0" || nm == "_tchi0" then 32 * epsF else 0)
    | _, _ => .bad "parse"
  | "albinit" => some <|
    if res == ["!E"] then .skip "configuration rejected" else
    match tailF args 13, res.mapM pfl with
    | some [a, f, s1, c1, s2, c2, k1], some m =>
      if m.length != 10 then .bad "parse" else
      let run (p : Nat) := albList (albInit (⟨⟨a⟩, ⟨f⟩⟩ : Ell (FK p)) ⟨s1⟩ ⟨c1⟩ ⟨s2⟩ ⟨c2⟩ ⟨k1⟩)
      let ma := run 0; let mb := farL ma [run 1, run 2, run 3, run 4, run 5]
      checks "AlbersEqualArea::Init" (zip4 albNames m ma mb fun nm => if nm == "_lat0" then 64 * epsF * 90 else if nm == "_txi0" || nm == "_sxi0" || nm == "_n0" then 32 * epsF else 0)   -- sines / tangents of the origin: the Newton loop stops at an absolute tolerance
    | _, _ => .bad "parse"
  | "lccfwd" => some <|
    if res == ["!E"] then .skip "configuration rejected" else
    -- args: cfg(13) lon0 lat lon, then a f, 13 members, sphi cphi lam; res: x y gamma k of the northern kernel
    match tailF args 16, res.mapM pfl with
    | some (a :: f :: rest), some [x, y, g, k] =>
      if rest.length != 16 then .bad "parse" else
      let m := rest.take 13
      let sphi := rest.getD 13 0; let cphi := rest.getD 14 0; let lam := rest.getD 15 0
      let run (p : Nat) : List Float :=
        let o := lccForward (⟨⟨a⟩, ⟨f⟩⟩ : Ell (FK p)) (lccOf p m) ⟨sphi⟩ ⟨cphi⟩ ⟨lam⟩
        [o.x.v, o.y.v, o.gamma.v / degF, o.k.v]
      let oa := run 0; let ob := farL oa [run 1, run 2, run 3, run 4, run 5]
      -- where 2 nc < 1 the code forms drho as a difference of two numbers of size rho0 = nrho0/n (one ulp of either is eps·rho0)
      let nn := m.getD 1 0; let ncc := m.getD 2 0
      let rho0 := if nn != 0 && 2 * ncc < 1 then Float.abs (m.getD 11 0 / nn) else 0
      let sc := 32 * epsF * (Float.abs (oa.getD 0 0) + Float.abs (oa.getD 1 0)) + 16 * epsF * rho0
      checks "LambertConformalConic::Forward" (zip4 ["x", "y", "gamma", "k"] [x, y, g, k] oa ob fun nm => if nm == "x" || nm == "y" then sc else 0)
    | _, _ => .bad "parse"
  | "albfwd" => some <|
    if res == ["!E"] then .skip "configuration rejected" else
    match tailF args 16, res.mapM pfl with
    | some (a :: f :: rest), some [x, y, g, k] =>
      if rest.length != 13 then .bad "parse" else
      let m := rest.take 10
      let sphi := rest.getD 10 0; let cphi := rest.getD 11 0; let lam := rest.getD 12 0
      let run (p : Nat) : List Float :=
        let o := albForward (⟨⟨a⟩, ⟨f⟩⟩ : Ell (FK p)) (albOf p m) ⟨sphi⟩ ⟨cphi⟩ ⟨lam⟩
        [o.x.v, o.y.v, o.gamma.v / degF, o.k.v]
      let oa := run 0; let ob := farL oa [run 1, run 2, run 3, run 4, run 5]
      let sc := 32 * epsF * (Float.abs (oa.getD 0 0) + Float.abs (oa.getD 1 0))
      checks "AlbersEqualArea::Forward" (zip4 ["x", "y", "gamma", "k"] [x, y, g, k] oa ob fun nm => if nm == "x" || nm == "y" then sc else 0)
    | _, _ => .bad "parse"
  | "lccrev" => some <|
    if res == ["!E"] then .skip "configuration rejected" else
    -- args: cfg(13) x y, then a f and the members; res: lat lon gamma k of the northern kernel with lon0 = 0
    match tailF args 15, getF2 args 13, getF2 args 14, res.mapM pfl with
    | some (a :: f :: m), some x, some y, some [lat, lon, g, k] =>
      if m.length != 13 then .bad "parse" else
      let run (p : Nat) (x y : Float) : List Float :=
        let r := lccReverse tauf (⟨⟨a⟩, ⟨f⟩⟩ : Ell (FK p)) (lccOf p m) ⟨x⟩ ⟨y⟩
        [Float.atan r.tphi.v / degF, r.lam.v / degF, r.gamma.v / degF, r.k.v, Float.abs r.dpsi.v + Float.asinh (Float.abs r.tchi.v)]
      let ra := run 0 x y
      let r0 := lccReverse tauf (⟨⟨a⟩, ⟨f⟩⟩ : Ell (FK 0)) (lccOf 0 m) ⟨x⟩ ⟨y⟩
      if !(taufConv r0.tchi (⟨⟨a⟩, ⟨f⟩⟩ : Ell (FK 0)).es) then .skip "the Newton loop of Math::tauf runs into its cap (50 iterations since 707b423, finding F88): nothing to compare" else
      -- probe runs, and the sensitivity to the last bit of the inputs (drho is a difference of squares)
      let rb := farL ra [run 1 x y, run 2 x y, run 3 x y, run 4 x y, run 5 x y, run 0 (x * onePlus) y, run 0 x (y * onePlus)]
      let mlon := ra.getD 1 0
      -- lon is AngNormalize'd by the implementation: compare modulo 360 (|lam| can exceed 180 for an Albers cone with k²n > 1)
      let lonN := if Float.abs (lon - mlon) > 180 then lon + 360 * Float.round ((mlon - lon) / 360) else lon
      checks "LambertConformalConic::Reverse" (zip4 ["lat", "lon", "gamma", "k"] [lat, lonN, g, k] ra rb fun nm => if nm == "lat" then 64 * epsF * 90 else if nm == "k" then 32 * epsF * ra.getD 4 0 * Float.abs (ra.getD 3 0) else   -- k = exp of the isometric latitude: |psi| ulp
           64 * epsF * 180)
    | _, _, _, _ => .bad "parse"
  | "albrev" => some <|
    if res == ["!E"] then .skip "configuration rejected" else
    -- args: cfg(13) x y, then a f and the members; res: lat lon gamma k of the northern kernel with lon0 = 0
    match tailF args 15, getF2 args 13, getF2 args 14, res.mapM pfl with
    | some (a :: f :: m), some x, some y, some [lat, lon, g, k] =>
      if m.length != 10 then .bad "parse" else
      let run (p : Nat) (x y : Float) : List Float :=
        let r := albReverse (fun t => tphif (⟨⟨a⟩, ⟨f⟩⟩ : Ell (FK p)) t) (⟨⟨a⟩, ⟨f⟩⟩ : Ell (FK p)) (albOf p m) ⟨x⟩ ⟨y⟩
        [Float.atan r.tphi.v / degF, r.lam.v / degF, r.theta.v / degF, r.k.v]
      let ra := run 0 x y
      let E0 : Ell (FK 0) := ⟨⟨a⟩, ⟨f⟩⟩
      let r0 := albReverse (fun t => tphif E0 t) E0 (albOf 0 m) ⟨x⟩ ⟨y⟩
      if !(tphifConv E0 r0.txi) then .skip "the Newton loop of AlbersEqualArea::tphif runs into its cap (50 iterations since 707b423, finding F88): nothing to compare" else
      -- probe runs, and the sensitivity to the last bit of the inputs (drho is a difference of squares)
      let rb := farL ra [run 1 x y, run 2 x y, run 3 x y, run 4 x y, run 5 x y, run 0 (x * onePlus) y, run 0 x (y * onePlus)]
      let mlon := ra.getD 1 0
      -- lon is AngNormalize'd by the implementation: compare modulo 360 (|lam| can exceed 180 for an Albers cone with k²n > 1)
      let lonN := if Float.abs (lon - mlon) > 180 then lon + 360 * Float.round ((mlon - lon) / 360) else lon
      -- beyond the image (the nearest pole is returned, tan φ ~ 1/ε²) the scale is an overflow-scale number of no meaning
      let kslack : Float := if Float.abs r0.tphi.v > 1e12 then Float.abs k + Float.abs (ra.getD 3 0) else 0
      checks "AlbersEqualArea::Reverse" (zip4 ["lat", "lon", "gamma", "k"] [lat, lonN, g, k] ra rb fun nm => if nm == "lat" then 64 * epsF * 90 else if nm == "k" then kslack else 64 * epsF * 180)
    | _, _, _, _ => .bad "parse"
  | "csetscale" => some <|
    if res == ["!E"] then .skip "SetScale rejected" else
    -- args: cfg(13), then cls kold k and the members before; res: the members after
    match args[13]?, tailF args 14, res.mapM pfl with
    | some cls, some (kold :: k :: m), some after =>
      if cls == "1" then
        let run (p : Nat) := lccList (lccSetScale (lccOf p m) ⟨kold⟩ ⟨k⟩)
        -- _lat0 goes through tan/atan in this harness encoding: not touched by SetScale, compared loosely
        checks "LambertConformalConic::SetScale" (zip4 lccNames after (run 0) (farL (run 0) [run 1, run 2, run 3, run 4, run 5]) fun nm => if nm == "_lat0" then 1e-9 else 0)
      else
        let run (p : Nat) := albList (albSetScale (albOf p m) ⟨kold⟩ ⟨k⟩)
        checks "AlbersEqualArea::SetScale" (zip4 albNames after (run 0) (farL (run 0) [run 1, run 2, run 3, run 4, run 5]) fun nm => if nm == "_lat0" then 1e-9 else 0)
    | _, _, _ => .bad "parse"
  | "ctxif" => some <|
    -- args: f tphi; res: txif(tphi) tphif(txif(tphi)) atanhxm1(tphi-as-x)
    match args.mapM pfl, res.mapM pfl with
    | some [f, tphi], some [txi, back] =>
      let E (p : Nat) : Ell (FK p) := ⟨⟨1⟩, ⟨f⟩⟩
      let ta := (txif (E 0) ⟨tphi⟩).v; let tb := (txif (E 1) ⟨tphi⟩).v
      let ba := (tphif (E 0) ⟨txi⟩).v; let bb := (tphif (E 1) ⟨txi⟩).v
      let bc := (tphif (E 0) ⟨txi * onePlus⟩).v
      -- tphif is compared only where its Newton loop stops by its tolerance (the cap, 50 iterations since 707b423 — finding F88 —, is silent)
      checks "AlbersEqualArea::txif/tphif" ([("txif", txi, ta, tb, 0)] ++ (if tphifConv (E 0) ⟨txi⟩ then [("tphif", back, ba, bb, 8 * Float.abs (bc - ba))] else []))
    | _, _ => .bad "parse"
  | "cddat" => some <|
    -- args: f x y xm; res: DDatanhee(x, y) atanhxm1(xm)
    match args.mapM pfl, res.mapM pfl with
    | some [f, x, y, xm], some [dd, am] =>
      let E (p : Nat) : Ell (FK p) := ⟨⟨1⟩, ⟨f⟩⟩
      -- the open numerical-range defect of DDatanhee2 (finding F96; the class is decided from the arguments): for 1 − e² < 1e-3 the scale
      -- factor 1/(1 − e²)^m overflows before convergence (the cancellation for e² < −3, finding F85, is repaired by e5ca000 and compared again)
      let e2 := f * (2 - f); let lo := if y < x then y else x
      let q2 := Float.abs ((if f < 0 then 1 + Float.sqrt (Float.abs e2) else 2) * Float.sqrt (Float.abs e2) / (1 - e2) * (1 - lo))
      let sel2 := lo > 0 && q2 < 0.75 && !(Float.abs e2 < q2)
      let l10 (v : Float) : Float := Float.log v / Float.log 10
      let over := sel2 && e2 > 0 && (16 / (0 - l10 q2) + 2) * (if l10 (1 - e2) < l10 (1 - lo) then 0 - l10 (1 - e2) else 0 - l10 (1 - lo)) > 250
      if over then checks "AlbersEqualArea::atanhxm1" [("atanhxm1", am, (atanhxm1 (⟨xm⟩ : FK 0)).v, (atanhxm1 (⟨xm⟩ : FK 1)).v, 0)] else
      checks "AlbersEqualArea::DDatanhee/atanhxm1" [("DDatanhee", dd, (DDatanhee (E 0) ⟨x⟩ ⟨y⟩).v, (DDatanhee (E 1) ⟨x⟩ ⟨y⟩).v, 0),
        ("atanhxm1", am, (atanhxm1 (⟨xm⟩ : FK 0)).v, (atanhxm1 (⟨xm⟩ : FK 1)).v, 0)]
    | _, _ => .bad "parse"
  | _ => none
where
  getF2 (l : List String) (i : Nat) : Option Float := (l[i]?).bind pfl

end GeoVerif.Corr.C11K
