import GeoVerif.Corr.Proto
import GeoVerif.Model.TM
import GeoVerif.Corr.C06X
/-!
Correspondence for C06.

* `tmwf` / `tmwr`: the executable wrapper model (exact binary64) predicts the implementation's answer on a general input
  from the implementation's own first-quadrant kernel values (obtained from a copy of the object with unit scale constants).
* `tmkf` / `tmkr`: the polymorphic series kernel (tables from `Gen.TMSeries`) evaluated in native binary64 against the
  implementation's kernel.
* `tmfwd` / `tmrev`: output ranges.
-/
namespace GeoVerif.Corr.C06
open GeoVerif GeoVerif.Proto GeoVerif.TM

def eps : Float := 2.220446049250313e-16

/-- within `n` ulp-sized units of the larger magnitude; NaN matches NaN, infinities must be equal -/
def closeU (a b : F64) (n : Float) (floor : Float := 0) : Bool :=
  let x := a.toFloat; let y := b.toFloat
  (x.isNaN && y.isNaN) || x == y ||
  (x.isFinite && y.isFinite && Float.abs (x - y) ≤ n * eps * (if Float.abs x < Float.abs y then Float.abs y else Float.abs x) + floor)

/-- angles in degrees, compared modulo 360 -/
def closeAng (a b : F64) (tol : Float) : Bool :=
  let x := a.toFloat; let y := b.toFloat
  (x.isNaN && y.isNaN) ||
  (let d := Float.abs (x - y); d ≤ tol || Float.abs (d - 360) ≤ tol || Float.abs (d - 720) ≤ tol)

def sameZ (a b : F64) : Bool := F64.same a b || (a.isZero && b.isZero) || (a.isNaN && b.isNaN)

def flag (s : String) : Option Bool := if s == "1" then some true else if s == "0" then some false else none

def pfl (s : String) : Option Float := (parseF s).map F64.toFloat
def shw (x : Float) : String := toString x

def mkCfg (ser ext : Bool) (top half a k0 : F64) : Cfg := ⟨ext, ser, top, half, a, k0⟩

def showOut (l : List F64) : String := toString (l.map fun x => x.toFloat)

/-- amplification of rounding errors by the Krüger sums at easting `η`: `Σ_j 2j |c_j| e^{2jη}` -/
def amp (cs : List Float) (eta : Float) : Float :=
  ((List.range cs.length).map fun i =>
    let j := (i + 1).toFloat
    2 * j * Float.abs (cs.getD i 0) * Float.exp (2 * j * Float.abs eta)).foldl (· + ·) 0

def handle (op : String) (args res : List String) : Option Verdict :=
  match op with
  | "tmwf" => some <|
    -- args: form a f k0 lon0 lat lon | series ext top half A k0 | canonical lat, lon used by the harness | kernel as returned by the unit-scale object: (x, y, γ, k) = (η, ξ, γ, k)
    match args with
    | _form :: _a :: _f :: _k0 :: slon0 :: slat :: slon :: sser :: sext :: rest =>
      match flag sser, flag sext, parseFs [slon0, slat, slon], parseFs rest, parseFs res with
      | some ser, some ext, some [lon0, lat, lon], some [top, half, A, k0, pc, qc, kq, kp, kg, kk], some [x, y, g, k] =>
        let c := mkCfg ser ext top half A k0
        let fo := fwdFoldD c.ext (MathF.latFix lat) (MathF.angDiff lon0 lon).1
        if !(sameZ fo.p pc && sameZ fo.q qc) then
          .bad s!"Forward: first-quadrant input used by the harness ({showF pc},{showF qc}) differs from the model's fold ({showF fo.p},{showF fo.q})"
        else
          let o := fwdUnfold c fo ⟨kp, kq, kg, kk⟩
          let sc := Float.abs (c.scale top).toFloat
          if closeU o.u x 4 (4 * eps * 0) && closeU o.v y 4 (if fo.back then 4 * eps * sc else 0) && closeAng o.gamma g (64 * eps * 180) && closeU o.k k 4 then .ok
          else .bad s!"Forward on a general input is not the sign / far-side image of the kernel's answer on the folded input: impl={showOut [x, y, g, k]} model={showOut [o.u, o.v, o.gamma, o.k]} flags=({fo.s1},{fo.s2},{fo.back})"
      | _, _, _, _, _ => .bad "parse"
    | _ => .bad "parse"
  | "tmwr" => some <|
    match args with
    | _form :: _a :: _f :: _k0 :: slon0 :: sx :: sy :: sser :: sext :: rest =>
      match flag sser, flag sext, parseFs [slon0, sx, sy], parseFs rest, parseFs res with
      | some ser, some ext, some [lon0, x, y], some [top, half, A, k0, pc, qc, kp, kq, kg, kk], some [lat, lon, g, k] =>
        let c := mkCfg ser ext top half A k0
        let fo := revFoldZ c (c.unscale y) (c.unscale x)
        if !(sameZ fo.p pc && sameZ fo.q qc) then
          .bad s!"Reverse: first-quadrant input used by the harness ({showF pc},{showF qc}) differs from the model's fold ({showF fo.p},{showF fo.q})"
        else if !c.ext && (fo.p.signbit || fo.q.signbit) && !fo.p.isNaN then
          .skip "|y| beyond the image of the far-side pole: the folded ξ is negative, the kernel is used outside the first quadrant (analytic continuation)"
        else
          let o := revUnfold c lon0 fo ⟨kp, kq, kg, kk⟩
          let l0 := Float.abs lon0.toFloat
          if closeU o.u lat 4 && closeAng o.v lon (16 * eps * (180 + l0)) && closeAng o.gamma g (64 * eps * 180) && closeU o.k k 4 then .ok
          else .bad s!"Reverse on a general input is not the sign / far-side image of the kernel's answer on the folded input: impl={showOut [lat, lon, g, k]} model={showOut [o.u, o.v, o.gamma, o.k]} flags=({fo.s1},{fo.s2},{fo.back})"
      | _, _, _, _, _ => .bad "parse"
    | _ => .bad "parse"
  | "tmkf" => some <|
    match args.mapM pfl, res.mapM pfl with
    | some [_a, f, lat, lon, sphi, cphi, slam, clam], some [eta, xi, g, k] =>
      if !(lat ≤ 90 && lat ≥ 0 && lon ≥ 0 && lon ≤ 90) then .skip "not a first-quadrant input" else
      let m := fwdKernel f (lat == 90) lon sphi cphi slam clam
      let am := amp (coeffs Gen.TMSeries.alpcoeff (nOf f)) m.q
      let tz := 64 * eps * (1 + Float.abs m.p + Float.abs m.q + am)
      -- conditioning of the Gauss–Schreiber step near the pole: γ = atan2(sλ·τ', cλ·√(1+τ'²)) is exact enough; no extra term
      if m.p.isNaN && xi.isNaN then .ok
      else if Float.abs (m.p - xi) ≤ tz && Float.abs (m.q - eta) ≤ tz && Float.abs (m.gamma - g) ≤ tz * 60 + 1e-13 && Float.abs (m.k / k - 1) ≤ tz then .ok
      else .bad s!"series Forward kernel differs from the formula model with the extracted tables: impl=({shw xi},{shw eta},{shw g},{shw k}) model=({shw m.p},{shw m.q},{shw m.gamma},{shw m.k}) tolerance {shw tz}"
    | _, _ => .bad "parse"
  | "tmkr" => some <|
    match args.mapM pfl, res.mapM pfl with
    | some [_a, f, xi, eta], some [lat, lon, g, k] =>
      let m := revKernel f xi eta
      let am := amp (coeffs Gen.TMSeries.betcoeff (nOf f)) eta
      let tz := 64 * eps * (1 + Float.abs xi + Float.abs eta + am)
      -- near the pole image (ξ → π/2, η → 0) longitude, convergence and the factor r of the scale are ill-conditioned
      let r := Float.sqrt (Float.cos xi * Float.cos xi + Float.sinh eta * Float.sinh eta)
      let r2 := Float.sqrt (Float.cos xi * Float.cos xi + Float.tanh eta * Float.tanh eta)
      let cnd := 1 / (if r2 < 1e-300 then 1e-300 else if r < r2 then r else r2)
      if Float.abs (m.p - lat) ≤ tz * 60 + 1e-13 && Float.abs (m.q - lon) ≤ tz * 60 * cnd + 1e-13 && Float.abs (m.gamma - g) ≤ tz * 60 * cnd + 1e-13 && Float.abs (m.k / k - 1) ≤ tz * cnd then .ok
      else .bad s!"series Reverse kernel differs from the formula model with the extracted tables: impl=({shw lat},{shw lon},{shw g},{shw k}) model=({shw m.p},{shw m.q},{shw m.gamma},{shw m.k}) tolerance {shw tz} cond {shw cnd}"
    | _, _ => .bad "parse"
  | "tmfwd" => some <|
    match parseFs res with
    | some [_sx, _sy, sg, sk, _ex, _ey, _eg, ek] =>
      let okg := sg.isNaN || (F64.ge sg (F64.ofInt (-180)) && F64.le sg (F64.ofInt 180))
      let okk (k : F64) := k.isNaN || F64.gt k 0
      if !okg then .bad s!"series convergence outside [-180, 180]: {showF sg}"
      else if !(okk sk && okk ek) then .bad s!"scale not positive: series {showF sk} exact {showF ek}"
      else .ok
    | _ => .bad "parse"
  | "tmrev" => some <|
    match parseFs res with
    | some [slat, slon, _sg, _sk, elat, elon, _eg, _ek] =>
      let rng (x : F64) (b : Int) := x.isNaN || (F64.ge x (F64.ofInt (-b)) && F64.le x (F64.ofInt b))
      if !(rng slat 90 && rng elat 90) then .bad s!"Reverse latitude outside [-90, 90]: series {showF slat} exact {showF elat}"
      else if !(rng slon 180 && rng elon 180) then .bad s!"Reverse longitude outside [-180, 180]: series {showF slon} exact {showF elon}"
      else .ok
    | _ => .bad "parse"
  | "tmapi" => some <|
    -- constructor outcomes of the series object, the exact object and the exact object with extendp ("ok" or an exception tag); the
    -- relations (overloads, inspectors, delegation, constructor domain) are evaluated on the implementation by the harness
    if res.length == 3 && res.all (fun s => s == "ok" || s.startsWith "!") then .ok else .bad "parse"
  | "tmutm" => some <|
    match parseFs res with
    | some [_, _, sg, sk, _, _, _, ek] =>
      let okk (k : F64) := k.isNaN || F64.gt k 0
      if !(sg.isNaN || (F64.ge sg (F64.ofInt (-180)) && F64.le sg (F64.ofInt 180))) then .bad s!"UTM(): series convergence outside [-180, 180]: {showF sg}"
      else if !(okk sk && okk ek) then .bad "UTM(): scale not positive" else .ok
    | _ => .bad "parse"
  | "tmtool" => some <|
    match res with
    | [rc, out] => if rc.toInt?.isSome && (parseS out).isSome then .ok else .bad "parse"
    | _ => .bad "parse"
  | _ => C06X.handle op args res

end GeoVerif.Corr.C06
