import GeoVerif.Corr.Proto
import GeoVerif.Model.Conic
import GeoVerif.Corr.C11Kernels
/-!
Correspondence for C11: the polymorphic models of `Model/Conic.lean` run in native binary64 against the implementation.
Tolerances are a few ulp of the result, widened by the model's own sensitivity to a one-ulp change of an intermediate
where an inversion is involved (condition-aware); the hemisphere wrapper and the constructor domains are exact.
-/
namespace GeoVerif.Corr.C11
open GeoVerif GeoVerif.Proto GeoVerif.Conic

def pfl (s : String) : Option Float := (hexToNat s).bind fun n => if s.length == 16 then some (Float.ofBits n.toUInt64) else none
def shw (x : Float) : String := toString x ++ "[" ++ natToHex x.toBits.toNat 16 ++ "]"
def epsF : Float := 2.220446049250313e-16

/-- equal, both NaN, or within `n` ulp-units (`n·ε·max(|a|,|b|)`) -/
def closeU (a b : Float) (n : Float) : Bool :=
  (a.isNaN && b.isNaN) || a == b || Float.abs (a - b) ≤ n * epsF * (if Float.abs a < Float.abs b then Float.abs b else Float.abs a)
/-- same value (NaN = NaN, and the sign of zero is significant only through `==`) -/
def sameF (a b : Float) : Bool := (a.isNaN && b.isNaN) || a == b
def getF (l : List String) (i : Nat) : Option Float := (l[i]?).bind pfl
def deg : Float := 180 / 3.14159265358979323846
/-- condition number of the stored eccentricity: `1/(1 − e²)` for an oblate ellipsoid (1 otherwise) -/
def kapE (e2m : Float) : Float := if e2m < 1 then 1 / e2m else 1
def e2mOfF (f : Float) : Float := 1 - f * (2 - f)

def handle (op : String) (args res : List String) : Option Verdict :=
  match op with
  | "ctaupf" => some <|
    match args.mapM pfl, res.mapM pfl with
    | some [tau, es], some [v] =>
      let m : Float := taupf tau es
      -- hyp(sig)·tau − sig·hyp(tau): no cancellation for |es| < 1 beyond a factor 1/(1 − es²)
      -- (for a prolate ellipsoid, es < 0, both products have the same sign)
      let e2m := 1 - es * Float.abs es
      if closeU m v (32 * (if e2m < 1 then 1 / e2m else 1)) then .ok else .bad s!"Math::taupf({shw tau}, {shw es}) = {shw v}, formula model {shw m}"
    | _, _ => .bad "parse"
  | "tauf" => some <|
    match args.mapM pfl, res.mapM pfl with
    | some [taup, es], some [v] =>
      let m : Float := tauf taup es
      let m2 : Float := tauf (taup * (1 + 4 * epsF)) es
      let tol := 64 * kapE (1 - es * Float.abs es) * epsF * Float.abs m + 4 * Float.abs (m2 - m)
      if !(taufConv taup es) then .skip "the Newton loop of Math::tauf runs into its cap (50 iterations since 707b423, finding F88): nothing to compare" else
      if sameF m v || Float.abs (m - v) ≤ tol then .ok else .bad s!"Math::tauf({shw taup}, {shw es}) = {shw v}, Newton model {shw m} (tolerance {tol})"
    | _, _ => .bad "parse"
  | "psfwd" => some <|
    match getF args 0, getF args 1, getF args 2, args[3]?, getF args 5, getF args 6, getF args 7, getF args 8, getF args 9, res.mapM pfl with
    | some a, some f, some k0, some np, some lon, some lf, some tau, some sl, some cl, some [x, y, g, k] =>
      let P : PS Float := ⟨a, f, k0⟩
      let northp := np != "0"
      let o := psForward P northp (lf == 90) tau sl cl
      let sc := Float.abs o.x + Float.abs o.y
      let kp := kapE (e2mOfF f)
      let okxy := (sameF o.x x || Float.abs (o.x - x) ≤ 64 * kp * epsF * sc) && (sameF o.y y || Float.abs (o.y - y) ≤ 64 * kp * epsF * sc)
      let okg := !(Float.abs lon < 180) || g == (if northp then lon else -lon)
      if !okxy then .bad s!"PolarStereographic::Forward: impl=({shw x},{shw y}) formula model=({shw o.x},{shw o.y})"
      else if !closeU o.k k (64 * kp) then .bad s!"PolarStereographic::Forward: k impl={shw k} model={shw o.k}"
      else if !okg then .bad s!"PolarStereographic::Forward: gamma={shw g} for lon={shw lon}"
      else .ok
    | _, _, _, _, _, _, _, _, _, _ => .bad "parse"
  | "psrev" => some <|
    match getF args 0, getF args 1, getF args 2, args[3]?, getF args 4, getF args 5, res.mapM pfl with
    | some a, some f, some k0, some np, some x, some y, some [lat, lon, _g, k] =>
      let P : PS Float := ⟨a, f, k0⟩
      let northp := np != "0"
      let r := psReverse tauf P northp x y
      let r2 := psReverse tauf P northp (x * (1 + 8 * epsF)) (y * (1 + 8 * epsF))   -- sensitivity to rounding of rho = hypot(x, y)
      let sg : Float := if northp then 1 else -1
      let mlat := sg * Float.atan r.tau * deg
      let mlat2 := sg * Float.atan r2.tau * deg
      let mlon := Float.atan2 r.lonx r.lony * deg
      let kp := kapE (e2mOfF f)
      let tlat := 1e-13 * kp + 4 * Float.abs (mlat2 - mlat)
      let tk := 64 * kp * epsF * Float.abs r.k + 4 * Float.abs (r2.k - r.k)
      if !(taufConv (psTaup P x y) P.es) then .skip "the Newton loop of Math::tauf runs into its cap (50 iterations since 707b423, finding F88): nothing to compare" else
      if !(sameF mlat lat || Float.abs (mlat - lat) ≤ tlat) then .bad s!"PolarStereographic::Reverse: lat impl={shw lat} model={shw mlat} (tolerance {tlat})"
      else if !(sameF mlon lon || Float.abs (mlon - lon) ≤ 1e-13 || Float.abs (Float.abs (mlon - lon) - 360) ≤ 1e-13) then .bad s!"PolarStereographic::Reverse: lon impl={shw lon} model={shw mlon}"
      else if !(sameF r.k k || Float.abs (r.k - k) ≤ tk) then .bad s!"PolarStereographic::Reverse: k impl={shw k} model={shw r.k}"
      else .ok
    | _, _, _, _, _, _, _ => .bad "parse"
  | "pssetscale" => some <|
    match args.mapM pfl, res with
    | some [a, f, k0, lat, k, tau], [r] =>
      let accept := ((k - k == 0) && 0 < k) && (-90 < lat && lat ≤ 90)
      if r == "!E" then (if accept then .bad s!"PolarStereographic::SetScale({shw lat}, {shw k}) threw; the model accepts" else .ok)
      else match pfl r with
        | some v =>
          let m := psSetScale (⟨a, f, k0⟩ : PS Float) (lat == 90) tau k
          if !accept then .bad s!"PolarStereographic::SetScale({shw lat}, {shw k}) accepted; the model rejects"
          else if closeU m v (64 * kapE (e2mOfF f)) then .ok else .bad s!"PolarStereographic::SetScale: k0 impl={shw v} model={shw m}"
        | none => .bad "parse"
    | _, _ => .bad "parse"
  | "cdd" => some <|
    match args[0]?, (args.drop 1).mapM pfl, res.mapM pfl with
    | some w, some (x :: y :: f :: ext), some [v] =>
      let e (i : Nat) : Float := ext.getD i 0
      let m : Option Float :=
        match w with
        | "0" => some (Dhyp x y (e 0) (e 1))
        | "1" => some (Dsn x y (e 0) (e 1))
        | "2" => some (Dlog1p x y)
        | "3" => some (Dexp x y)
        | "4" => some (Dsinh x y (e 0) (e 1) (e 2) (e 3))
        | "5" => some (Dasinh x y (e 0) (e 1))
        | "6" => some (Deatanhe (e 0) (e 1) x y)
        | "7" => some (Datanhee f (e 0) (e 1) x y)
        | "8" => some (Dsn x y (e 0) (e 1))
        | _ => none
      match m with
      | some m => if closeU m v 32 then .ok else .bad s!"divided difference #{w}({shw x}, {shw y}; f={f}): impl={shw v} model={shw m}"
      | none => .bad "parse"
    | _, _, _ => .bad "parse"
  | "conicfwd" => some <|
    if res == ["!E"] then .skip "configuration rejected" else
    match getF args 14, getF args 16, getF args 17, getF args 18, getF args 19, getF args 20, res.mapM pfl with
    | some lat, some sign, some cx, some cy, some cg, some ck, some [x, y, g, k] =>
      -- the kernel slot is filled by the implementation's own answer on the canonical (northern) problem
      let o := conicForward (fun _ _ => (⟨cx, cy, cg, ck⟩ : ConeOut Float)) sign lat 0
      if !(sign == 1 || sign == -1) then .bad s!"_sign = {shw sign}"
      else if sameF o.x x && sameF o.y y && sameF o.gamma g && sameF o.k k then .ok
      else .bad s!"conic Forward hemisphere wrapper: impl=({shw x},{shw y},{shw g},{shw k}) predicted from the northern kernel=({shw o.x},{shw o.y},{shw o.gamma},{shw o.k}) sign={sign}"
    | _, _, _, _, _, _, _ => .bad "parse"
  | "conicrev" => some <|
    if res == ["!E"] then .skip "configuration rejected" else
    match getF args 16, getF args 17, getF args 18, getF args 19, getF args 20, res.mapM pfl with
    | some sign, some clat, some clon, some cg, some ck, some [lat, lon, g, k] =>
      let o := conicReverse (fun _ _ => (⟨clat, clon, cg, ck⟩ : ConeRev Float)) sign 0 0
      if !(sign == 1 || sign == -1) then .bad s!"_sign = {shw sign}"
      else if sameF o.lat lat && sameF o.lon lon && sameF o.gamma g && sameF o.k k then .ok
      else .bad s!"conic Reverse hemisphere wrapper: impl=({shw lat},{shw lon},{shw g},{shw k}) predicted from the northern kernel=({shw o.lat},{shw o.lon},{shw o.gamma},{shw o.k}) sign={sign}"
    | _, _, _, _, _, _ => .bad "parse"
  | "ctor" => some <|
    match args[0]?, (args.drop 1).mapM pfl, res with
    | some cls, some [a, f, k, l1, l2, s1, c1, s2, c2], [r1, r2, r3] =>
      let cl : Nat := if cls == "1" then 1 else 2
      let sc : Float → Float × Float := fun l => if l.toBits == l1.toBits then (s1, c1) else (s2, c2)
      let b (x : Bool) : String := if x then "1" else "0"
      let m1 := b (accept1 a f l1 k)
      let m2 := b (accept2 cl sc a f l1 l2 k)
      let m3 := b (accept3 cl a f s1 c1 s2 c2 k)
      if (r1 == "-2" || r1 == m1) && r2 == m2 && r3 == m3 then .ok
      else .bad s!"constructor domain (class {cls}; a={a} f={f} k={k} parallels {l1}, {l2}): impl accepts (one-parallel, two-parallel, sin/cos) = ({r1}, {r2}, {r3}), domain predicates = ({m1}, {m2}, {m3})"
    | _, _, _ => .bad "parse"
  | "pt" => some (.skip "closed forms, closures, conformality / equal-area and wrap laws are judged by the harness on the implementation")
  | "cfgprops" => some (.skip "configuration-level oracles are judged by the harness on the implementation")
  | "statics" => some (.skip "the static instances are compared bit for bit with freshly constructed objects by the harness")
  | "sshist" => some (.skip "SetScale histories are judged by the harness on the implementation")
  | "conicproj" => some (.skip "the command-line tool is compared with direct calls of the classes by the harness")
  | _ => C11K.handleK op args res

end GeoVerif.Corr.C11
