import GeoVerif.Corr.Proto
import GeoVerif.Model.Mask
/-! Correspondence for C12: which outputs are written for each (solver, caps, outmask, arcmode) -/
namespace GeoVerif.Corr.C12
open GeoVerif GeoVerif.Proto GeoVerif.Mask

def pb (s : String) : Option Bool := if s == "1" then some true else if s == "0" then some false else none

def handle (op : String) (args res : List String) : Option Verdict :=
  match op with
  | "linemask" => some <|
    -- args: solver(G|E|X) caps outmask arcmode ; res: writtenBits returnIsNaN
    match args, res with
    | [sv, caps, om, am], [wb, rn] =>
      (match caps.toNat?, om.toNat?, pb am, wb.toNat?, pb rn with
       | some caps, some outmask, some arcmode, some wbits, some retNaN =>
         let e := if sv == "G" then geod else geodx
         let m := encode (written e caps outmask arcmode)
         let mNaN := !locatable e caps arcmode
         if m == wbits && mNaN == retNaN then .ok
         else .bad s!"GeodesicLine{if sv == "G" then "" else "Exact"}::GenPosition caps={caps} outmask={outmask} arcmode={arcmode}: written impl={wbits} model={m}; return NaN impl={retNaN} model={mNaN}"
       | _, _, _, _, _ => .bad "parse")
    | _, _ => .bad "parse"
  | "invmask" => some <|
    match args, res with
    | [sv, om], [wb] =>
      (match om.toNat?, wb.toNat? with
       | some outmask, some wbits =>
         let m := if sv == "R" then encode (writtenRhumbInverse outmask) else encode (writtenInverse (if sv == "G" then geod else geodx) outmask)
         if m == wbits then .ok else .bad s!"GenInverse({sv}) outmask={outmask}: written impl={wbits} model={m}"
       | _, _ => .bad "parse")
    | _, _ => .bad "parse"
  | "dirmask" => some <|
    match args, res with
    | [sv, om, am], [wb] =>
      (match om.toNat?, pb am, wb.toNat? with
       | some outmask, some arcmode, some wbits =>
         let m := if sv == "R" then encode (writtenRhumbDirect outmask)
           else
             let e := if sv == "G" then geod else geodx
             -- GenDirect: caps = outmask (| DISTANCE_IN unless arcmode)
             encode (written e (if arcmode then outmask else outmask ||| e.distanceIn) outmask arcmode)
         if m == wbits then .ok else .bad s!"GenDirect({sv}) outmask={outmask} arcmode={arcmode}: written impl={wbits} model={m}"
       | _, _, _ => .bad "parse")
    | _, _ => .bad "parse"
  | "maskvalues" => some (.skip "value independence of the mask and line consistency are judged by the harness on the implementation")
  | _ => none

end GeoVerif.Corr.C12
