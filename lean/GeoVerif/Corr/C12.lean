import GeoVerif.Corr.Proto
import GeoVerif.Model.Mask
import GeoVerif.Model.LineState
import GeoVerif.Model.Overloads
/-! Correspondence for C12: which outputs are written for each (solver, caps, outmask, arcmode); the third point of a line
object under arbitrary histories; `Capabilities`; the overloads exercised by the harness against the table extracted from
the headers. -/
namespace GeoVerif.Corr.C12
open GeoVerif GeoVerif.Proto GeoVerif.Mask

def pb (s : String) : Option Bool := if s == "1" then some true else if s == "0" then some false else none

/-- solver letter: `G` series, `X` = `Geodesic(a, f, true)`, `E` = `GeodesicExact`; an optional digit selects the ellipsoid -/
def solverOf (sv : String) : Char := sv.toList.headD 'G'
def isRhumb (sv : String) : Bool := solverOf sv == 'R' || solverOf sv == 'S'
/-- the enum whose constants the harness used to build `caps` / `outmask` for this solver -/
def enumOf (sv : String) : Enum := if solverOf sv == 'E' then geodx else geod

/-! ### `linehist`: the third-point machine on tokens (16 hex digits of the bit pattern, `nan`) -/

open LineState in
/-- kernels from the table the harness measured on fresh objects: `(x, arcOf x, distOf x)` -/
def kernOf (tbl : List (String × String × String)) : Kern String :=
  { nan := "nan"
    arcOf := fun x => match tbl.find? (fun t => t.1 == x) with | some t => t.2.1 | none => "?"
    distOf := fun x => match tbl.find? (fun t => t.1 == x) with | some t => t.2.2 | none => "?" }

/-- one history token of the argument list -/
def parseEv (t : String) : Option (LineState.Ev String × Option String) :=
  if t == "rD" then some (.get .distance, none)
  else if t == "rA" then some (.get .arc, none)
  else if t == "r0" then some (.get (.genDistance false), none)
  else if t == "r1" then some (.get (.genDistance true), none)
  else if t == "cp" then some (.copy, none)
  else
    let tag := (t.take 2).toString; let x := (t.drop 2).toString
    if tag == "sD" then some (.set (.setDistance x), some x)
    else if tag == "sA" then some (.set (.setArc x), some x)
    else if tag == "g0" then some (.set (.genSetDistance false x), some x)
    else if tag == "g1" then some (.set (.genSetDistance true x), some x)
    else none

def splitColon (s : String) : List String := s.splitOn ":"

open LineState in
def linehist (args res : List String) : Verdict :=
  match args with
  | sv :: _lat :: _lon :: _azi :: ctor :: capsS :: cx :: _cy :: evs =>
    (match capsS.toNat?, res with
     | some caps, capF :: ctorK :: rest =>
       let e := enumOf sv
       match evs.mapM parseEv with
       | none => .bad "parse history"
       | some pevs =>
         if rest.length != pevs.length + 1 then .bad "parse: result length" else
         let evRes := rest.take pevs.length
         let fin := splitColon (rest.getD pevs.length "")
         -- kernel table: constructor argument + every setter argument
         let ctorT : List (String × String × String) :=
           match splitColon ctorK with
           | ["c", a, d] => [(cx, a, d)]
           | ["i", a12, a, d] => [(a12, a, d)]
           | _ => []
         let a12 := match splitColon ctorK with | ["i", a12, _, _] => a12 | _ => "nan"
         let setT : List (String × String × String) := (pevs.zip evRes).filterMap fun (p, r) =>
           match p.2, splitColon r with
           | some x, ["k", a, d] => some (x, a, d)
           | _, _ => none
         let K := kernOf (ctorT ++ setT)
         let st0 : Option (St String) :=
           if ctor == "L" || ctor == "GL" then some (lineInit e K caps)
           else if ctor.startsWith "U" then some (defaultLine K)
           else if ctor == "D" then some (directLine e K caps cx)
           else if ctor == "A" then some (arcDirectLine e K caps cx)
           else if ctor == "G0" then some (genDirectLine e K caps false cx)
           else if ctor == "G1" then some (genDirectLine e K caps true cx)
           else if ctor == "I" then some (inverseLine e K caps a12)
           else none
         match st0 with
         | none => .bad "parse: constructor"
         | some st0 =>
           let (stF, obs) := run e K st0 (pevs.map (·.1))
           let implObs := (pevs.zip evRes).filterMap fun (p, r) => match p.1 with | .get _ => some r | _ => none
           let modelFin := ["f", read K stF .distance, read K stF .arc, read K stF (.genDistance false), read K stF (.genDistance true), toString stF.caps]
           if toString st0.caps != capF then .bad s!"line constructor {ctor} caps={caps}: Capabilities() impl={capF} model={st0.caps}"
           else if obs != implObs then .bad s!"third point, {ctor} caps={caps}: readers returned impl={implObs} model={obs}"
           else if modelFin != fin then .bad s!"third point, {ctor} caps={caps}: after the history impl={fin} model={modelFin}"
           else .ok
     | _, _ => .bad "parse")
  | _ => .bad "parse"

def handle (op : String) (args res : List String) : Option Verdict :=
  match op with
  | "linemask" => some <|
    -- args: solver(G|E|X) caps outmask arcmode ; res: writtenBits returnIsNaN
    match args, res with
    | [sv, caps, om, am], [wb, rn] =>
      (match caps.toNat?, om.toNat?, pb am, wb.toNat?, pb rn with
       | some caps, some outmask, some arcmode, some wbits, some retNaN =>
         let e := if solverOf sv == 'G' then geod else geodx
         let m := encode (written e caps outmask arcmode)
         let mNaN := !locatable e caps arcmode
         if m == wbits && mNaN == retNaN then .ok
         else .bad s!"GeodesicLine{if solverOf sv == 'G' then "" else "Exact"}::GenPosition caps={caps} outmask={outmask} arcmode={arcmode}: written impl={wbits} model={m}; return NaN impl={retNaN} model={mNaN}"
       | _, _, _, _, _ => .bad "parse")
    | _, _ => .bad "parse"
  | "uninitmask" => some <|
    -- a default-constructed line (`_caps = 0`): nothing can be located
    match args, res with
    | [sv, om, am, _fill], [wb, rn] =>
      (match om.toNat?, pb am, wb.toNat?, pb rn with
       | some _outmask, some arcmode, some wbits, some retNaN =>
         let e := enumOf sv
         let loc := LineState.canLocate e 0 arcmode
         if wbits == 0 && retNaN == !loc then .ok
         else .bad s!"default-constructed line ({sv}) arcmode={arcmode}: written impl={wbits} model=0; return NaN impl={retNaN} model={!loc}"
       | _, _, _, _ => .bad "parse")
    | _, _ => .bad "parse"
  | "capstest" => some <|
    match args, res with
    | [sv, caps, tc], [c, t, ini] =>
      (match caps.toNat?, tc.toNat?, c.toNat?, pb t, pb ini with
       | some caps, some tc, some c, some t, some ini =>
         let e := enumOf sv
         let st : LineState.St String := LineState.lineInit e (kernOf []) caps
         if st.caps == c && LineState.capabilitiesTest e st tc == t && st.init == ini then .ok
         else .bad s!"line ({sv}) caps={caps}: Capabilities() impl={c} model={st.caps}; Capabilities({tc}) impl={t} model={LineState.capabilitiesTest e st tc}; Init() impl={ini} model={st.init}"
       | _, _, _, _, _ => .bad "parse")
    | _, _ => .bad "parse"
  | "invmask" => some <|
    match args, res with
    | [sv, om], [wb] =>
      (match om.toNat?, wb.toNat? with
       | some outmask, some wbits =>
         let m := if isRhumb sv then encode (writtenRhumbInverse outmask) else encode (writtenInverse (if solverOf sv == 'G' then geod else geodx) outmask)
         if m == wbits then .ok else .bad s!"GenInverse({sv}) outmask={outmask}: written impl={wbits} model={m}"
       | _, _ => .bad "parse")
    | _, _ => .bad "parse"
  | "dirmask" => some <|
    match args, res with
    | [sv, om, am], [wb] =>
      (match om.toNat?, pb am, wb.toNat? with
       | some outmask, some arcmode, some wbits =>
         let m := if isRhumb sv then encode (writtenRhumbDirect outmask)
           else
             let e := if solverOf sv == 'G' then geod else geodx
             -- GenDirect: caps = outmask (| DISTANCE_IN unless arcmode)
             encode (written e (if arcmode then outmask else outmask ||| e.distanceIn) outmask arcmode)
         if m == wbits then .ok else .bad s!"GenDirect({sv}) outmask={outmask} arcmode={arcmode}: written impl={wbits} model={m}"
       | _, _, _ => .bad "parse")
    | _, _ => .bad "parse"
  | "rlinemask" => some <|
    match args, res with
    | [sv, om, _s12], [wb] =>
      (match om.toNat?, wb.toNat? with
       | some outmask, some wbits =>
         let m := encode (writtenRhumbDirect outmask)
         if m == wbits then .ok else .bad s!"RhumbLine::GenPosition({sv}) outmask={outmask}: written impl={wbits} model={m}"
       | _, _ => .bad "parse")
    | _, _ => .bad "parse"
  | "ovl" => some <|
    -- the overloads the harness compared with the general function must be exactly those of the headers
    match args with
    | sv :: _ =>
      let classes := if isRhumb sv then ["Rhumb", "RhumbLine"] else if solverOf sv == 'E' then ["GeodesicExact", "GeodesicLineExact"] else ["Geodesic", "GeodesicLine"]
      let want := (Gen.Overloads.table.filter fun r => classes.contains r.cls).map Overloads.ovlId
      let missing := want.filter fun i => !res.contains i
      let extra := res.filter fun i => !want.contains i
      if missing.isEmpty && extra.isEmpty then .ok
      else .bad s!"overloads of {classes}: in the header but not exercised by the harness: {missing}; exercised but not in the header: {extra}"
    | _ => .bad "parse"
  | "linehist" => some (linehist args res)
  | "maskvalues" => some (.skip "value independence of the mask and line consistency are judged by the harness on the implementation")
  | _ => none

end GeoVerif.Corr.C12
