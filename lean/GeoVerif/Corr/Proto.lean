import GeoVerif.FP.F64
/-!
# Line protocol shared by the C++ harnesses and the Lean driver

`op arg … | res …` — doubles are 16 hex digits of the bit pattern, integers
are decimal, strings are `s:` followed by hex bytes, an exception is `!E`
(GeographicErr) / `!O` (any other).  The verdict is computed here, in Lean.
-/
namespace GeoVerif.Proto
open GeoVerif

inductive Verdict where
  | ok
  | bad (msg : String)
  | skip (why : String)
deriving Repr

def hexDigit (c : Char) : Option Nat :=
  if '0' ≤ c ∧ c ≤ '9' then some (c.toNat - '0'.toNat)
  else if 'a' ≤ c ∧ c ≤ 'f' then some (c.toNat - 'a'.toNat + 10)
  else if 'A' ≤ c ∧ c ≤ 'F' then some (c.toNat - 'A'.toNat + 10)
  else none

def hexToNat (s : String) : Option Nat :=
  if s.isEmpty then none else
  s.foldl (fun acc c => match acc, hexDigit c with
    | some a, some d => some (a * 16 + d)
    | _, _ => none) (some 0)

def parseF (s : String) : Option F64 :=
  if s.length != 16 then none else
  (hexToNat s).map fun n => F64.ofBits n.toUInt64

def natToHex (n : Nat) (width : Nat) : String :=
  let ds := (Nat.toDigits 16 n)
  String.ofList (List.replicate (width - ds.length) '0' ++ ds)

def showF (x : F64) : String := natToHex x.toBits.toNat 16 ++ "(" ++ toString x.toFloat ++ ")"

def parseI (s : String) : Option Int := s.toInt?

/-- `s:<hex bytes>` ↦ list of bytes -/
def parseS (s : String) : Option (List UInt8) :=
  if !s.startsWith "s:" then none else
  let h := s.toList.drop 2
  let rec go : List Char → Option (List UInt8)
    | [] => some []
    | [_] => none
    | a :: b :: rest => do
      let x ← hexDigit a; let y ← hexDigit b
      let r ← go rest
      pure ((x * 16 + y).toUInt8 :: r)
  go h

def bytesToString (b : List UInt8) : String := String.ofList (b.map fun x => Char.ofNat x.toNat)

def showS (b : List UInt8) : String :=
  "s:" ++ String.join (b.map fun x => natToHex x.toNat 2)

def strBytes (s : String) : List UInt8 := s.toList.map fun c => c.toNat.toUInt8

/-- all parse or none -/
def parseFs (l : List String) : Option (List F64) := l.mapM parseF

def expectF (name : String) (model impl : F64) : Verdict :=
  if F64.same model impl then .ok
  else .bad s!"{name}: model={showF model} impl={showF impl}"

def both : Verdict → Verdict → Verdict
  | .ok, v => v
  | .bad m, .bad n => .bad (m ++ "; " ++ n)
  | .bad m, _ => .bad m
  | .skip _, .bad n => .bad n
  | .skip w, _ => .skip w

def all (l : List Verdict) : Verdict := l.foldl both .ok

end GeoVerif.Proto
