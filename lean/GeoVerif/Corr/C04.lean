import GeoVerif.Corr.Proto
import GeoVerif.Model.UTMUPS
/-! Correspondence relations for C04 (UTM/UPS) -/
namespace GeoVerif.Corr.C04
open GeoVerif GeoVerif.Proto GeoVerif.UTMUPS

def pb (s : String) : Option Bool := if s == "1" then some true else if s == "0" then some false else none

/-- equal bits, or within one ulp-ish (2^-51 relative): the false-origin addition may legitimately be fused/reordered -/
def nearF (a b : F64) : Bool :=
  F64.same a b || (a.isFinite && b.isFinite &&
    Dy.le (Dy.abs (Dy.sub a.toDy b.toDy)) (let m := Dy.abs a.toDy; ⟨m.m, m.e - 51⟩))

def handle (op : String) (args res : List String) : Option Verdict :=
  match op with
  | "stdzone" => some <|
    match args with
    | [a, b, c] =>
      match parseF a, parseF b, parseI c with
      | some lat, some lon, some sz =>
        (match standardZone lat lon sz, res with
         | .error _, ["!E"] => .ok
         | .ok z, [r] => if parseI r == some z then .ok else .bad s!"StandardZone: impl={r} model={z}"
         | .error e, _ => .bad s!"StandardZone: model rejects ({e}) impl={res}"
         | .ok z, _ => .bad s!"StandardZone: model={z} impl={res}")
      | _, _, _ => .bad "parse"
    | _ => .bad "parse"
  | "utmfwd" => some <|
    match args with
    | [a, b, c, d, k1, k2, k3, k4] =>
      match parseF a, parseF b, parseI c, pb d, parseFs [k1, k2, k3, k4] with
      | some lat, some lon, some sz, some mg, some [kx, ky, kg, kk] =>
        (match forward lat lon sz mg (kx, ky, kg, kk), res with
         | .error _, ["!E"] => .ok
         | .error e, _ => .bad s!"UTMUPS::Forward: model rejects ({e}) impl={res}"
         | .ok _, ["!E"] => .bad "UTMUPS::Forward: impl threw, model accepts"
         | .ok o, [z, n, x, y, g, k] =>
           (match parseI z, pb n, parseFs [x, y, g, k] with
            | some iz, some inp, some [ix, iy, ig, ik] =>
              if iz != o.zone then .bad s!"UTMUPS::Forward zone impl={iz} model={o.zone}"
              else if inp != o.northp then .bad s!"UTMUPS::Forward northp impl={inp} model={o.northp}"
              else if !(nearF o.x ix && nearF o.y iy) then .bad s!"UTMUPS::Forward x/y impl=({showF ix},{showF iy}) model=({showF o.x},{showF o.y})"
              else if !(F64.same o.gamma ig && F64.same o.k ik) then .bad "UTMUPS::Forward gamma/k are not those of the underlying projection"
              else .ok
            | _, _, _ => .bad "parse")
         | _, _ => .bad "shape")
      | _, _, _, _, _ => .bad "parse"
    | _ => .bad "parse"
  | "utmrev" => some <|
    match args with
    | [z, n, x, y, m] =>
      match parseI z, pb n, parseF x, parseF y, pb m with
      | some zone, some northp, some xx, some yy, some mg =>
        (match reverseAccepts zone northp xx yy mg, res with
         | .error _, ["!E"] => .ok
         | .error e, _ => .bad s!"UTMUPS::Reverse: model rejects ({e}), impl={res}"
         | .ok _, ["!E"] => .bad "UTMUPS::Reverse: impl threw, model accepts"
         | .ok none, r =>
           (match parseFs r with
            | some l => if l.all F64.isNaN then .ok else .bad "UTMUPS::Reverse: INVALID/NaN input must give NaN outputs"
            | none => .bad "parse")
         | .ok (some _), r =>
           (match parseFs r with
            | some [lat, _, _, _] => if lat.isNaN then .bad "UTMUPS::Reverse returned NaN for accepted finite input" else .ok
            | _ => .bad "parse"))
      | _, _, _, _, _ => .bad "parse"
    | _ => .bad "parse"
  | "decodezone" => some <|
    match args with
    | [s] =>
      match parseS s with
      | some b =>
        (match decodeZone (b.map UInt8.toNat), res with
         | .error _, ["!E"] => .ok
         | .error e, _ => .bad s!"DecodeZone: model rejects ({e}), impl={res}"
         | .ok _, ["!E"] => .bad "DecodeZone: impl threw, model accepts"
         | .ok (z, n), [rz, rn] => if parseI rz == some z && pb rn == some n then .ok else .bad s!"DecodeZone: impl={res} model=({z},{n})"
         | _, _ => .bad "shape")
      | none => .bad "parse"
    | _ => .bad "parse"
  | "encodezone" => some <|
    match args with
    | [z, n, a] =>
      match parseI z, pb n, pb a with
      | some zone, some northp, some ab =>
        (match encodeZone zone northp ab, res with
         | .error _, ["!E"] => .ok
         | .ok m, [r] => if (parseS r).map (·.map UInt8.toNat) == some m then .ok else .bad s!"EncodeZone: impl={r} model={m}"
         | _, _ => .bad s!"EncodeZone: impl={res}")
      | _, _, _ => .bad "parse"
    | _ => .bad "parse"
  | "epsgdec" => some <|
    match args, res with
    | [e], [z, n] =>
      (match parseI e, parseI z, pb n with
       | some ee, some zz, some nn => if decodeEPSG ee == (zz, nn) then .ok else .bad s!"DecodeEPSG: impl=({zz},{nn}) model={decodeEPSG ee}"
       | _, _, _ => .bad "parse")
    | _, _ => .bad "parse"
  | "epsgenc" => some <|
    match args, res with
    | [z, n], [e] =>
      (match parseI z, pb n, parseI e with
       | some zz, some nn, some ee => if encodeEPSG zz nn == ee then .ok else .bad s!"EncodeEPSG: impl={ee} model={encodeEPSG zz nn}"
       | _, _, _ => .bad "parse")
    | _, _ => .bad "parse"
  | "transfer_same" => some <|
    match args with
    | [z, n1, x, y, n2] =>
      match parseI z, pb n1, parseF x, parseF y, pb n2 with
      | some zone, some np1, some xx, some yy, some np2 =>
        (match transferSameZone zone np1 xx yy np2, res with
         | .error _, ["!E"] => .ok
         | .ok (mx, my, mz), [rx, ry, rz] =>
           (match parseF rx, parseF ry, parseI rz with
            | some ix, some iy, some iz => if F64.same mx ix && F64.same my iy && iz == mz then .ok else .bad s!"Transfer(same zone): impl=({showF ix},{showF iy},{iz}) model=({showF mx},{showF my},{mz})"
            | _, _, _ => .bad "parse")
         | _, _ => .bad s!"Transfer(same zone): impl={res}")
      | _, _, _, _, _ => .bad "parse"
    | _ => .bad "parse"
  | "transfer_via" => some <|
    -- Transfer between different zones; the kernels are the results of the implementation's own Reverse / Forward
    match args with
    | [z, n1, x, y, zo, n2, re, rlat, rlon, fe, fz, fn, fx, fy] =>
      match parseI z, pb n1, parseF x, parseF y, parseI zo, pb n2, pb re, parseFs [rlat, rlon], pb fe, parseI fz, pb fn, parseFs [fx, fy] with
      | some zone, some np1, some xx, some yy, some zout, some np2, some revOk, some [lat, lon], some fwdOk, some z2, some nn2, some [x2, y2] =>
        let rev : Int → Bool → F64 → F64 → Except Err (F64 × F64) := fun _ _ _ _ => if revOk then .ok (lat, lon) else .error "Reverse"
        let fwd : F64 → F64 → Int → Except Err FwdOut := fun _ _ _ => if fwdOk then .ok ⟨z2, nn2, x2, y2, .nan, .nan⟩ else .error "Forward"
        (match transfer zone np1 xx yy zout np2 rev fwd, res with
         | .error _, ["!E"] => .ok
         | .ok (mx, my, mz), [rx, ry, rz] =>
           (match parseF rx, parseF ry, parseI rz with
            | some ix, some iy, some iz => if F64.same mx ix && F64.same my iy && iz == mz then .ok else .bad s!"Transfer(different zones): impl=({showF ix},{showF iy},{iz}) model=({showF mx},{showF my},{mz})"
            | _, _, _ => .bad "parse")
         | .error e, _ => .bad s!"Transfer(different zones): model rejects ({e}), impl={res}"
         | .ok _, _ => .bad s!"Transfer(different zones): model accepts, impl={res}")
      | _, _, _, _, _, _, _, _, _, _, _, _ => .bad "parse"
    | _ => .bad "parse"
  | "utm_consts" => some <|
    match parseFs res with
    | some [sh, ua, uf, ma, mf, _, _] =>
      if !(F64.same sh utmShift) then .bad s!"UTMShift: impl={showF sh} model={showF utmShift}"
      else if !(F64.same ua wgs84a && F64.same ma wgs84a) then .bad s!"EquatorialRadius: impl={showF ua}/{showF ma} model={showF wgs84a}"
      else if !(F64.same uf wgs84f && F64.same mf wgs84f) then .bad s!"Flattening: impl={showF uf}/{showF mf} model={showF wgs84f}"
      else .ok
    | _ => .bad "parse"
  | "gconv" => some (.skip "the values GeoConvert prints are judged by the harness against the conversion classes")
  | "gc_alt" => some <|
    -- GeoCoords: the bookkeeping of the (zone, northp, x, y) constructor and of SetAltZone around the implementation's own Reverse / Forward
    match args with
    | [_, _, _, _, _, _, _, _, _, "E"] => .skip "the constructor throws: judged by the harness against UTMUPS::Forward / Reverse"
    | [kind, a1, a2, a3, a4, altz, _, _, altz2, mz, mn, mE, mN, mg, mk, mlat, mlon, kok, kz, kn, kx, ky, kg, kk, kok2, kz2, kn2, kx2, ky2, kg2, kk2] =>
      match parseI mz, pb mn, parseFs [mE, mN, mg, mk, mlat, mlon], parseI altz, pb kok, parseI kz, pb kn, parseFs [kx, ky, kg, kk],
            parseI altz2, pb kok2, parseI kz2, pb kn2, parseFs [kx2, ky2, kg2, kk2] with
      | some zone, some northp, some [e, n, g, k, lat, lon], some az, some fok, some fz, some fnp, some [fx, fy, fg, fk],
        some az2, some fok2, some fz2, some fnp2, some [fx2, fy2, fg2, fk2] =>
        let st : GeoState := ⟨zone, northp, e, n, g, k, lat, lon⟩
        -- (a) constructor bookkeeping
        let ctor : Verdict :=
          if kind == "1" then
            match parseI a1, pb a2, parseF a3, parseF a4 with
            | some zin, some npin, some xin, some yin =>
              (match resetUTM zin npin xin yin (.ok (lat, lon, g, k)) with
               | .ok m => if m.zone == zone && m.northp == northp && F64.same m.easting e && F64.same m.northing n then .ok
                          else .bad s!"GeoCoords(zone, northp, x, y): impl=({zone},{northp},{showF e},{showF n}) model=({m.zone},{m.northp},{showF m.easting},{showF m.northing})"
               | .error er => .bad s!"GeoCoords(zone, northp, x, y): model rejects ({er}), impl accepts")
            | _, _, _, _ => .bad "parse"
          else
            match parseF a1, parseF a2 with
            | some lat0, some lon0 => if F64.same lat lat0 && F64.same lon (MathF.angNormalize lon0) then .ok else .bad "GeoCoords(lat, lon): Latitude()/Longitude() are not the arguments (longitude normalised)"
            | _, _ => .bad "parse"
        -- (b) SetAltZone
        let fwd : F64 → F64 → Int → Except Err FwdOut := fun _ _ _ => if fok then .ok ⟨fz, fnp, fx, fy, fg, fk⟩ else .error "Forward"
        let fwd2 : F64 → F64 → Int → Except Err FwdOut := fun _ _ _ => if fok2 then .ok ⟨fz2, fnp2, fx2, fy2, fg2, fk2⟩ else .error "Forward"
        let cmp (name : String) (m : Except Err AltState) (r : List String) : Verdict :=
          match m, r with
          | .error _, ["!E"] => .ok
          | .error er, _ => .bad s!"{name}: model rejects ({er}), impl={r}"
          | .ok _, ["!E"] => .bad s!"{name}: impl threw, model accepts"
          | .ok m, [rz, rE, rN, rg, rk] =>
            (match parseI rz, parseFs [rE, rN, rg, rk] with
             | some iz, some [iE, iN, ig, ik] =>
               if iz == m.zone && F64.same iE m.easting && F64.same iN m.northing && F64.same ig m.gamma && F64.same ik m.k then .ok
               else .bad s!"{name}: impl=({iz},{showF iE},{showF iN}) model=({m.zone},{showF m.easting},{showF m.northing})"
             | _, _ => .bad "parse")
          | _, _ => .bad "shape"
        let alt : Verdict :=
          match setAltZone st (copyToAlt st) az fwd with
          | .error er => cmp "SetAltZone" (.error er) res
          | .ok a1 =>
            -- the result line is "<first alternate state> ; <second alternate state or !E>"
            let r1 := res.takeWhile (· != ";")
            let r2 := (res.dropWhile (· != ";")).drop 1
            both (cmp "SetAltZone" (.ok a1) r1) (cmp "SetAltZone (second request)" (setAltZone st a1 az2 fwd2) r2)
        both ctor alt
      | _, _, _, _, _, _, _, _, _, _, _, _, _ => .bad "parse"
    | _ => .bad "parse"
  | _ => none

end GeoVerif.Corr.C04
