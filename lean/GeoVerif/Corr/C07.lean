import GeoVerif.Corr.Proto
import GeoVerif.Model.Geocentric
import GeoVerif.Model.MathF
/-! Correspondence for C07: the polymorphic formula models run in native binary64 against the implementation;
    `LatFix`/`AngNormalize` of the accessors in the exact binary64 model -/
namespace GeoVerif.Corr.C07
open GeoVerif GeoVerif.Proto GeoVerif.Geocentric

def pfl (s : String) : Option Float := (hexToNat s).bind fun n => if s.length == 16 then some (Float.ofBits n.toUInt64) else none
def shw (x : Float) : String := toString x ++ "[" ++ natToHex x.toBits.toNat 16 ++ "]"

/-- `|a − b| ≤ rel·scale` or both NaN -/
def closeF (a b scale rel : Float) : Bool :=
  (a.isNaN && b.isNaN) || (a == b) || (Float.abs (a - b) ≤ rel * scale)

def eps : Float := 2.220446049250313e-16

/-- all nine entries within `tol` -/
def closeM (m impl : List Float) (tol : Float) : Bool :=
  impl.length == 9 && (List.range 9).all fun i => closeF (el m i) (impl.getD i 0) 1 tol

def absSum (l : List Float) : Float := l.foldl (fun s x => s + Float.abs x) 0

/-- Cartesian distance between two triples -/
def dist3 (p q : Float × Float × Float) : Float :=
  let dx := p.1 - q.1; let dy := p.2.1 - q.2.1; let dz := p.2.2 - q.2.2
  Float.sqrt (dx * dx + dy * dy + dz * dz)

/-- larger semi-axis -/
def semimax (a f : Float) : Float := a * (if 1 - f > 1 then 1 - f else 1)

/-- the judgement shared by `georev` and `locrevm`: the implementation's `(lat, lon, h, M)` for the geocentric point `P`.
Positions are compared in Cartesian space (lat is Hölder-1/2 at the rim of the singular disc, lon is arbitrary on the axis):
the forward images (formula model `forward`, binary64) of the implementation's answer and of the model's answer must both
reproduce `P`; ranges are decided here; `M` must be `frame` applied to `Rotation` at the implementation's own `(lat, lon)`
(theorem `reverseM_frame_is_enu`) -/
def judgeReverse (what : String) (E : Ell Float) (P : Float × Float × Float) (lat lon h : Float) (M : List Float)
    (frame : List Float → List Float) (frameTol : Float) (frameOk : Bool) : Verdict :=
  let (X, Y, Z) := P
  let r := reverse E (2 * E.a / eps) X Y Z
  let o := reverseM E (2 * E.a / eps) X Y Z
  let sc := Float.abs X + Float.abs Y + Float.abs Z + semimax E.a E.f
  let imgI := forward E (sind lat) (cosd lat) (sind lon) (cosd lon) h
  let imgM := forward E r.sphi r.cphi r.slam r.clam r.h
  let huge := sc > 1e150
  let tol := 1e-12 * sc / (1 - (if E.f > 0 then E.f else 0))
  let unitM := Float.abs (r.sphi * r.sphi + r.cphi * r.cphi - 1) ≤ 1e-14 && Float.abs (r.slam * r.slam + r.clam * r.clam - 1) ≤ 1e-14
  let Rxy := RealLike.hypot X Y
  if lat.isNaN || lon.isNaN || h.isNaN then .bad s!"{what} returned NaN: ({shw lat},{shw lon},{shw h}); model ({shw o.lat},{shw o.lon},{shw o.h})"
  else if !(Float.abs lat ≤ 90 && Float.abs lon ≤ 180) then .bad s!"{what}: lat/lon outside [-90,90] x [-180,180]: ({shw lat},{shw lon})"
  else if !(Float.abs o.lat ≤ 90 && Float.abs o.lon ≤ 180) then .bad s!"{what}: the model's lat/lon leave their ranges: ({shw o.lat},{shw o.lon})"
  else if frameOk && (Rxy == 0 || Rxy > 1e-290) && !unitM then
    .bad s!"{what}: the pair handed to Rotation by the model is not a unit vector: ({shw r.sphi},{shw r.cphi}) ({shw r.slam},{shw r.clam})"
  else if frameOk && (Rxy == 0 || Rxy > 1e-290) && M.length == 9 &&
      !closeM (frame (rotation (sind lat) (cosd lat) (sind lon) (cosd lon))) M frameTol then
    .bad s!"{what}: the matrix is not the east/north/up frame at the returned (lat, lon): impl={M} expected={frame (rotation (sind lat) (cosd lat) (sind lon) (cosd lon))}"
  else if huge then .ok
  else if dist3 imgI P ≤ tol && dist3 imgM P ≤ tol then .ok
  else .bad s!"{what}: impl=({shw lat},{shw lon},{shw h}) closes to {dist3 imgI P} m; formula model=({shw o.lat},{shw o.lon},{shw o.h}) closes to {dist3 imgM P} m (tolerance {tol})"

def handle (op : String) (args res : List String) : Option Verdict :=
  match op with
  | "geofwd" => some <|
    match args.mapM pfl, res.mapM pfl with
    | some [a, f, _lat, _lon, h, sphi, cphi, slam, clam], some (X :: Y :: Z :: M) =>
      let E : Ell Float := ⟨a, f⟩
      let ((mx, my, mz), mM) := forwardM E sphi cphi slam clam h
      let sc := Float.abs mx + Float.abs my + Float.abs mz + a
      if !(closeF mx X sc 1e-15 && closeF my Y sc 1e-15 && closeF mz Z sc 1e-15) then
        .bad s!"Geocentric::Forward: impl=({shw X},{shw Y},{shw Z}) formula model=({shw mx},{shw my},{shw mz})"
      else if M.length == 9 && !closeM mM M 4e-16 then
        .bad s!"Geocentric::Forward rotation matrix differs from the model: impl={M} model={mM}"
      else .ok
    | _, _ => .bad "parse"
  | "georev" => some <|
    match args.mapM pfl, res.mapM pfl with
    | some [a, f, X, Y, Z], some (lat :: lon :: h :: M) =>
      judgeReverse "Geocentric::Reverse" ⟨a, f⟩ (X, Y, Z) lat lon h M id 1.5e-15 true
    | _, _ => .bad "parse"
  | "georot" => some <|
    match args.mapM pfl, res.mapM pfl with
    | some (m0 :: m1 :: m2 :: m3 :: m4 :: m5 :: m6 :: m7 :: m8 :: [x, y, z]), some [X, Y, Z, u, v, w] =>
      let M := [m0, m1, m2, m3, m4, m5, m6, m7, m8]
      let (rx, ry, rz) := rotate M x y z
      let (ux, uy, uz) := unrotate M x y z
      let sc := absSum M * (Float.abs x + Float.abs y + Float.abs z)
      if closeF rx X sc 4e-16 && closeF ry Y sc 4e-16 && closeF rz Z sc 4e-16 && closeF ux u sc 4e-16 && closeF uy v sc 4e-16 && closeF uz w sc 4e-16 then .ok
      else .bad s!"Geocentric::Rotate/Unrotate: impl=({shw X},{shw Y},{shw Z}) ({shw u},{shw v},{shw w}) model=({shw rx},{shw ry},{shw rz}) ({shw ux},{shw uy},{shw uz})"
    | _, _ => .bad "parse"
  | "locfwd" => some <|
    -- args: lat0 lon0 h0 lat lon h, then the object's state x0 y0 z0, the nine r entries, and the point's geocentric image; res: x y z
    match args.mapM pfl, res.mapM pfl with
    | some (_ :: _ :: _ :: _ :: _ :: _ :: x0 :: y0 :: z0 :: rest), some [x, y, z] =>
      if rest.length != 12 then .bad "parse" else
      let O : Origin Float := ⟨x0, y0, z0, rest.take 9⟩
      let (mx, my, mz) := localForward O (rest.getD 9 0) (rest.getD 10 0) (rest.getD 11 0)
      let sc := Float.abs mx + Float.abs my + Float.abs mz + Float.abs x0 + Float.abs y0 + Float.abs z0
      if closeF mx x sc 4e-16 && closeF my y sc 4e-16 && closeF mz z sc 4e-16 then .ok
      else .bad s!"LocalCartesian::Forward: impl=({shw x},{shw y},{shw z}) model=({shw mx},{shw my},{shw mz})"
    | _, _ => .bad "parse"
  | "locorigin" => some <|
    -- the local frame: origin = forward image of (lat0, lon0, h0), r = the rotation matrix AT (lat0, lon0) (theorems `local_origin`,
    -- `local_isometry`, `reset_frame` are about exactly this pair)
    match args.mapM pfl, res.mapM pfl with
    | some [a, f, _lat0, _lon0, h0, sphi, cphi, slam, clam], some (x0 :: y0 :: z0 :: r) =>
      let E : Ell Float := ⟨a, f⟩
      let O := reset E sphi cphi slam clam h0
      let sc := Float.abs O.x0 + Float.abs O.y0 + Float.abs O.z0 + a
      if !(closeF O.x0 x0 sc 1e-15 && closeF O.y0 y0 sc 1e-15 && closeF O.z0 z0 sc 1e-15) then
        .bad s!"LocalCartesian origin: impl=({shw x0},{shw y0},{shw z0}) model=({shw O.x0},{shw O.y0},{shw O.z0})"
      else if r.length != 9 then .bad "parse"
      else if !closeM O.r r 4e-16 then
        .bad s!"LocalCartesian frame is not the east/north/up frame at (lat0, lon0): impl={r} model={O.r}"
      else .ok
    | _, _ => .bad "parse"
  | "locfwdm" => some <|
    -- args: a f lat0 lon0 h0 lat lon h, sincosd kernels of the origin (4) and of the point (4); res: x y z M
    match args.mapM pfl, res.mapM pfl with
    | some [a, f, lat0, lon0, h0, lat, lon, h, s0, c0, sl0, cl0, s, c, sl, cl], some (x :: y :: z :: M) =>
      if lat0.isNaN || lon0.isNaN || lat.isNaN || lon.isNaN || Float.abs lat0 > 90 || Float.abs lat > 90 then .skip "outside the documented domain" else
      let E : Ell Float := ⟨a, f⟩
      let O := reset E s0 c0 sl0 cl0 h0
      let ((mx, my, mz), mM) := localForwardM E O s c sl cl h
      let sc := Float.abs O.x0 + Float.abs O.y0 + Float.abs O.z0 + Float.abs h + Float.abs h0 + semimax a f
      if !(closeF mx x sc 4e-15 && closeF my y sc 4e-15 && closeF mz z sc 4e-15) then
        .bad s!"LocalCartesian::Forward: impl=({shw x},{shw y},{shw z}) model (Reset + IntForward)=({shw mx},{shw my},{shw mz})"
      else if M.length == 9 && !closeM mM M 1e-15 then
        .bad s!"LocalCartesian::Forward matrix differs from MatrixMultiply(r0, Rotation): impl={M} model={mM}"
      else .ok
    | _, _ => .bad "parse"
  | "locrevm" => some <|
    -- args: a f lat0 lon0 h0 x y z, sincosd kernels of the origin; res: lat lon h M
    match args.mapM pfl, res.mapM pfl with
    | some [a, f, lat0, lon0, h0, x, y, z, s0, c0, sl0, cl0], some (lat :: lon :: h :: M) =>
      if lat0.isNaN || lon0.isNaN || Float.abs lat0 > 90 || h0.isNaN || x.isNaN || y.isNaN || z.isNaN then .skip "outside the documented domain" else
      let E : Ell Float := ⟨a, f⟩
      let O := reset E s0 c0 sl0 cl0 h0
      let P := localReverse O x y z
      let sc := Float.abs x + Float.abs y + Float.abs z + Float.abs h0 + semimax a f
      -- the geocentric image is a rounded sum: its meridian is defined to round-off only away from the axis
      judgeReverse "LocalCartesian::Reverse" E P lat lon h M (fun R => matrixMultiply O.r R) 2e-15 (RealLike.hypot P.1 P.2.1 > 1e-6 * sc)
    | _, _ => .bad "parse"
  | "locacc" => some <|
    -- accessors: LatitudeOrigin = LatFix(lat0), LongitudeOrigin = AngNormalize(lon0), HeightOrigin = h0, a, f — exact
    match args.mapM parseF, res.mapM parseF with
    | some [a, f, lat0, lon0, h0], some [rlat, rlon, rh, ra, rf, ga, gf] =>
      all [expectF "LatitudeOrigin" (MathF.latFix lat0) rlat, expectF "LongitudeOrigin" (MathF.angNormalize lon0) rlon,
           expectF "HeightOrigin" h0 rh, expectF "LocalCartesian::EquatorialRadius" a ra, expectF "LocalCartesian::Flattening" f rf,
           expectF "Geocentric::EquatorialRadius" a ga, expectF "Geocentric::Flattening" f gf]
    | _, _ => .bad "parse"
  | "cartconvert" => some (.skip "the tool's output is compared with Utility::str of the API results by the harness")
  | "geoprops" => some (.skip "closure, least-|h|, orthonormality and isometry are judged by the harness on the implementation")
  | _ => none

end GeoVerif.Corr.C07
