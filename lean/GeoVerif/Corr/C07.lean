import GeoVerif.Corr.Proto
import GeoVerif.Model.Geocentric
/-! Correspondence for C07: the polymorphic formula models run in native binary64 against the implementation -/
namespace GeoVerif.Corr.C07
open GeoVerif GeoVerif.Proto GeoVerif.Geocentric

def pfl (s : String) : Option Float := (hexToNat s).bind fun n => if s.length == 16 then some (Float.ofBits n.toUInt64) else none
def shw (x : Float) : String := toString x ++ "[" ++ natToHex x.toBits.toNat 16 ++ "]"

/-- `|a − b| ≤ rel·scale` or both NaN -/
def closeF (a b scale rel : Float) : Bool :=
  (a.isNaN && b.isNaN) || (a == b) || (Float.abs (a - b) ≤ rel * scale)

def handle (op : String) (args res : List String) : Option Verdict :=
  match op with
  | "geofwd" => some <|
    match args.mapM pfl, res.mapM pfl with
    | some [a, f, _lat, _lon, h, sphi, cphi, slam, clam], some (X :: Y :: Z :: M) =>
      let E : Ell Float := ⟨a, f⟩
      let (mx, my, mz) := forward E sphi cphi slam clam h
      let sc := Float.abs mx + Float.abs my + Float.abs mz + a
      let mM := rotation sphi cphi slam clam
      if !(closeF mx X sc 1e-15 && closeF my Y sc 1e-15 && closeF mz Z sc 1e-15) then
        .bad s!"Geocentric::Forward: impl=({shw X},{shw Y},{shw Z}) formula model=({shw mx},{shw my},{shw mz})"
      else if M.length == 9 && !((List.range 9).all fun i => closeF (el mM i) (M.getD i 0) 1 4e-16) then
        .bad s!"Geocentric::Forward rotation matrix differs from the model: impl={M} model={mM}"
      else .ok
    | _, _ => .bad "parse"
  | "georev" => some <|
    match args.mapM pfl, res.mapM pfl with
    | some [a, f, X, Y, Z], some [lat, lon, h] =>
      let E : Ell Float := ⟨a, f⟩
      let eps : Float := 2.220446049250313e-16
      let r := reverse E (2 * a / eps) X Y Z
      let deg : Float := 180 / 3.14159265358979323846
      let mlat := Float.atan2 r.sphi r.cphi * deg
      let mlon := Float.atan2 r.slam r.clam * deg
      let sc := Float.abs X + Float.abs Y + Float.abs Z + a
      -- compare in Cartesian space (lat is Hölder-1/2 at the rim of the singular disc, lon is arbitrary on the axis):
      -- the forward images (formula model `forward`, binary64) of the implementation's answer and of the model's
      -- answer must both reproduce (X, Y, Z)
      let rad : Float := 3.14159265358979323846 / 180
      let img (la lo hh : Float) : Float × Float × Float := forward E (Float.sin (la * rad)) (Float.cos (la * rad)) (Float.sin (lo * rad)) (Float.cos (lo * rad)) hh
      let (ix, iy, iz) := img lat lon h
      let (mx, my, mz) := forward E r.sphi r.cphi r.slam r.clam r.h
      let dist (x y z : Float) : Float := Float.sqrt ((x - X) * (x - X) + (y - Y) * (y - Y) + (z - Z) * (z - Z))
      let huge := sc > 1e150
      let tol := 1e-12 * sc / (1 - (if f > 0 then f else 0))
      if lat.isNaN || lon.isNaN || h.isNaN then .bad s!"Geocentric::Reverse returned NaN: ({shw lat},{shw lon},{shw h}); model ({shw mlat},{shw mlon},{shw r.h})"
      else if huge then .ok
      else if dist ix iy iz ≤ tol && dist mx my mz ≤ tol then .ok
      else .bad s!"Geocentric::Reverse: impl=({shw lat},{shw lon},{shw h}) closes to {dist ix iy iz} m; formula model=({shw mlat},{shw mlon},{shw r.h}) closes to {dist mx my mz} m (tolerance {tol})"
    | _, _ => .bad "parse"
  | "locfwd" => some <|
    -- args: origin geocentric image x0 y0 z0, the nine r entries, the point's geocentric image; res: x y z
    match args.mapM pfl, res.mapM pfl with
    | some (x0 :: y0 :: z0 :: rest), some [x, y, z] =>
      if rest.length != 12 then .bad "parse" else
      let O : Origin Float := ⟨x0, y0, z0, rest.take 9⟩
      let (mx, my, mz) := localForward O (rest.getD 9 0) (rest.getD 10 0) (rest.getD 11 0)
      let sc := Float.abs mx + Float.abs my + Float.abs mz + Float.abs x0 + Float.abs y0 + Float.abs z0
      if closeF mx x sc 4e-16 && closeF my y sc 4e-16 && closeF mz z sc 4e-16 then .ok
      else .bad s!"LocalCartesian::Forward: impl=({shw x},{shw y},{shw z}) model=({shw mx},{shw my},{shw mz})"
    | _, _ => .bad "parse"
  | "locorigin" => some <|
    -- the local frame: origin = forward image of (lat0, lon0, h0), r = the rotation matrix AT (lat0, lon0) (theorems `local_origin`,
    -- `local_isometry` are about exactly this pair)
    match args.mapM pfl, res.mapM pfl with
    | some [a, f, _lat0, _lon0, h0, sphi, cphi, slam, clam], some (x0 :: y0 :: z0 :: r) =>
      let E : Ell Float := ⟨a, f⟩
      let (mx, my, mz) := forward E sphi cphi slam clam h0
      let sc := Float.abs mx + Float.abs my + Float.abs mz + a
      let mM := rotation sphi cphi slam clam
      if !(closeF mx x0 sc 1e-15 && closeF my y0 sc 1e-15 && closeF mz z0 sc 1e-15) then
        .bad s!"LocalCartesian origin: impl=({shw x0},{shw y0},{shw z0}) model=({shw mx},{shw my},{shw mz})"
      else if r.length != 9 then .bad "parse"
      else if !((List.range 9).all fun i => closeF (el mM i) (r.getD i 0) 1 4e-16) then
        .bad s!"LocalCartesian frame is not the east/north/up frame at (lat0, lon0): impl={r} model={mM}"
      else .ok
    | _, _ => .bad "parse"
  | "geoprops" => some (.skip "closure, least-|h|, orthonormality and isometry are judged by the harness on the implementation")
  | _ => none

end GeoVerif.Corr.C07
