import GeoVerif.Corr.Proto
import GeoVerif.Model.GeodInverse
import GeoVerif.Model.GeodInvFull
import GeoVerif.FP.RunErr
/-!
# Correspondence of the whole `GenInverse` with `Model/GeodInvFull.lean` (ops `geninv_series`, `geninv_kern`)

Relations (see `tools/props.d/C02.py`):

* the head of `GenInverse` as the harness replicated it (canonical latitudes, `lon12`, its error term, the three flags) must
  be what the exact binary64 model `GeodInverse.canon` gives — **exact** up to the sign of a zero;
* reduced latitudes, and all outputs on the branches without iteration (meridional, equatorial, short line): the model is
  executed in the running-error arithmetic `RE`; the implementation must be within `4 ×` the first-order bound of the
  rounding error of the model's own evaluation (as ops `lambda12`, `invstart`; no identical-bits demand);
* Newton branch, full model (`geninv_series`): same comparison when the model took the same number of iterations;
  branch, iteration count and bisection count are **drift indicators** (`skip`), unless the property-level result (distance,
  arc length, azimuths conditioned by `m12`) differs by more than the documented accuracy of the series solver × 4 × 2 —
  only then it is an alarm;
* `geninv_kern`: the bookkeeping model is run with the implementation's own kernel values; its iterates must be the
  implementation's iterates and all outputs agree in the running-error sense; a different trajectory is drift unless the
  result differs beyond the tolerance above.
-/
namespace GeoVerif.Corr.C02Full
open GeoVerif GeoVerif.Proto GeoVerif.GeodInvFull

def pfl (s : String) : Option Float := if s.length != 16 then none else (hexToNat s).map fun n => Float.ofBits n.toUInt64

def sameZ (a b : F64) : Bool := F64.same a b || (a.isZero && b.isZero)

/-- a float with enough digits to be read back -/
def sci (x : Float) : String :=
  if x.isNaN then "NaN" else if x.isInf then (if x < 0 then "-inf" else "inf") else if x == 0 then "0" else
  let e := (Float.log10 x.abs).floor
  let m := x / Float.pow 10 e
  s!"{m}e{e.toInt64}"

def cmpRE (name : String) (impl : Float) (m : RE) : Option String :=
  let d := Float.abs (impl - m.v)
  if (impl.isNaN && m.v.isNaN) || impl == m.v || d ≤ 4 * m.e || (m.e.isNaN && !m.v.isNaN && !impl.isNaN) then none
  else some s!"{name}: impl={sci impl} model={sci m.v} diff={sci d} bound={sci m.e}"

/-- documented accuracy of the series solver (metres), as `harness/geodcommon.hpp` -/
def accSeries (f : Float) : Option Float :=
  let x := f.abs
  if x ≤ 1 / 250 then some 15e-9 else if x ≤ 1 / 100 + 1e-12 then some 26e-9 else if x ≤ 1 / 50 + 1e-12 then some 31e-9 else none
/-- … of the exact solver -/
def accExact (f : Float) : Option Float :=
  let q := if 1 - f ≥ 1 then 1 - f else 1 / (1 - f)
  if q ≤ 2.001 then some 40e-9 else if q ≤ 4.001 then some (2 * 96e-9) else if q ≤ 8.001 then some (2 * 318e-9) else none
def tolPos (acc a a12 : Float) : Float := 4 * acc * (a / 6378137) * (if a12.abs / 180 > 1 then a12.abs / 180 else 1)

structure Head where
  la1 : Float
  la2 : Float
  lon12 : Float
  lon12e : Float
  lonsign : Int
  swapp : Int
  latsign : Int
  slam12 : Float
  clam12 : Float
  s1 : Float
  c1 : Float
  s2 : Float
  c2 : Float

/-- the harness' replica of the head of `GenInverse` against the exact binary64 model -/
def checkHead (lat1 lon1 lat2 lon2 : Float) (h : Head) : Option String :=
  let k := GeodInverse.canon (F64.ofFloat lat1) (F64.ofFloat lon1) (F64.ofFloat lat2) (F64.ofFloat lon2)
  let f := F64.ofFloat
  if sameZ k.lat1 (f h.la1) && sameZ k.lat2 (f h.la2) && sameZ k.lon12 (f h.lon12) && sameZ k.lon12s (f h.lon12e) &&
     k.lonsign == h.lonsign && k.swapp == h.swapp && k.latsign == h.latsign then none
  else some s!"canonical form: the library's AngDiff/AngRound/LatFix and the flag logic give ({h.la1},{h.la2},{h.lon12},{h.lon12e};{h.lonsign},{h.swapp},{h.latsign}), the model says ({showF k.lat1},{showF k.lat2},{showF k.lon12},{showF k.lon12s};{k.lonsign},{k.swapp},{k.latsign})"

def branchNo : Branch → Nat
  | .meridional => 0 | .equatorial => 1 | .short => 2 | .newton => 3

def canonOf (h : Head) : Canon RE :=
  ⟨RE.exact h.la1, RE.exact h.lon12, RE.exact h.lon12e, RE.exact h.slam12, RE.exact h.clam12⟩

/-- the ten outputs, in the order of the protocol -/
def outList (o : Out RE) : List (String × RE) :=
  [("s12", o.s12), ("salp1", o.salp1), ("calp1", o.calp1), ("salp2", o.salp2), ("calp2", o.calp2), ("m12", o.m12),
   ("M12", o.M12), ("M21", o.M21), ("S12", o.S12), ("a12", o.a12)]

def cmpList (m : List (String × RE)) (impl : List Float) : List String :=
  (m.zip impl).filterMap fun ((n, r), i) => cmpRE n i r

/-- property-level comparison of two answers to the same inverse problem, both claimed to be within the documented
    accuracy: `none` = compatible.  `impl` in protocol order. -/
def propLevel (acc : Option Float) (a b : Float) (h : Head) (impl : List Float) (m : Out RE) : Option String :=
  match acc with
  | none => none
  | some acc =>
    let g (i : Nat) := impl.getD i 0
    let a12 := g 9
    let tol := 2 * tolPos acc a a12
    let deg : Float := 3.14159265358979323846 / 180
    let fin (x : Float) := !x.isNaN && !x.isInf
    if !(fin (g 0) && fin a12 && fin m.s12.v && fin m.a12.v) then
      (if (g 0).isNaN == m.s12.v.isNaN && a12.isNaN == m.a12.v.isNaN then none else some "one of implementation / model returns NaN")
    else if (g 0 - m.s12.v).abs > tol then some s!"s12: impl={g 0} model={m.s12.v} differ by {(g 0 - m.s12.v).abs} m > {tol}"
    else if (a12 - m.a12.v).abs * deg * b > tol + 1e-9 * 0 then some s!"a12: impl={a12} model={m.a12.v}"
    else
      -- azimuths: only where they are determined (not antipodal / coincident), conditioned by the reduced length
      let unique := !((h.la1 + h.la2).abs < 1e-9 && a12 > 170) && a12 < 179.9 && (h.lon12 - 180).abs > 1e-9 && g 0 > 1e-3
      let atol := 3 * tol / (if (g 5).abs > 1e-3 then (g 5).abs else 1e-3) + 1e-13
      let ang (s1 c1 s2 c2 : Float) := Float.atan2 (s1 * c2 - c1 * s2).abs (c1 * c2 + s1 * s2)
      if unique && (ang (g 1) (g 2) m.salp1.v m.calp1.v > atol || ang (g 3) (g 4) m.salp2.v m.calp2.v > atol) then
        some s!"azimuths: impl=({g 1},{g 2};{g 3},{g 4}) model=({m.salp1.v},{m.calp1.v};{m.salp2.v},{m.calp2.v}) tol={atol} rad"
      else none

def mkGeod (a f tiny eps0 : Float) : GeodLine.Geod RE :=
  GeodLine.geodesic (RE.exact a) (RE.exact f) (RE.exact tiny) (RE.exact eps0)

def headOf (l : List Float) (i1 i2 i3 : Int) : Head :=
  let g (i : Nat) := l.getD i 0
  ⟨g 0, g 1, g 2, g 3, i1, i2, i3, g 4, g 5, g 6, g 7, g 8, g 9⟩

def betaList (β : Beta RE) : List (String × RE) :=
  [("sbet1", β.sbet1), ("cbet1", β.cbet1), ("sbet2", β.sbet2), ("cbet2", β.cbet2), ("dn1", β.dn1), ("dn2", β.dn2)]

/-! ### `geninv_series` -/

def handleSeries (args res : List String) : Verdict :=
  match args.mapM pfl with
  | some [a, f, lat1, lon1, lat2, lon2] =>
    if !([lat1, lon1, lat2, lon2].all fun x => !x.isNaN && !x.isInf) || lat1.abs > 90 || lat2.abs > 90 then .skip "non-finite input" else
    -- res: tiny eps0 | maxit2 | la1 la2 lon12 lon12e | lonsign swapp latsign | 12 + 6 + 10 + 2 doubles | branch numit
    match (res.take 2).mapM pfl, (res.drop 2).head?.bind String.toNat?, ((res.drop 3).take 4).mapM pfl, ((res.drop 7).take 3).mapM String.toInt?,
          ((res.drop 10).take 24).mapM pfl, ((res.drop 34).take 2).mapM String.toInt? with
    | some [tiny, eps0], some maxit2, some hd4, some [lonsign, swapp, latsign], some body, some [ibr, inumit] =>
      if body.length != 24 then .bad "parse" else
      let h := headOf (hd4 ++ body.take 6) lonsign swapp latsign
      match checkHead lat1 lon1 lat2 lon2 h with
      | some msg => .bad msg
      | none =>
        let g := mkGeod a f tiny eps0
        let e := RE.exact
        let p := paramsSeries g (e eps0) maxit2
        let β := reduceLat p (e h.s1) (e h.c1) (e h.s2) (e h.c2)
        let implβ := (body.drop 6).take 6
        let implO := (body.drop 12).take 10
        let azi := (body.drop 22).take 2
        let badβ := cmpList (betaList β) implβ
        if !badβ.isEmpty then .bad s!"reduced latitudes (Geodesic.cpp 221-256) differ from Model/GeodInvFull.reduceLat: {badβ}" else
        -- the rest of the model continues from the reduced latitudes in binary64 as the harness' replica of lines 221-256
        -- rounded them (just compared with `reduceLat`): for points a few ulp apart the branch taken depends on their last bit
        let gi (i : Nat) := e (implβ.getD i 0)
        let β : Beta RE := ⟨gi 0, gi 1, gi 2, gi 3, gi 4, gi 5⟩
        let r := genInverse p (seriesKernels g (e eps0) β (canonOf h)) β (canonOf h) lonsign swapp latsign
        let bads := cmpList (outList r.out) implO ++ cmpList [("azi1", r.azi1), ("azi2", r.azi2)] azi
        let mbr := branchNo r.sol.branch
        let sameTrace := mbr == ibr.toNat && (mbr != 3 || inumit < 0 || r.sol.numit == inumit.toNat)
        if bads.isEmpty && sameTrace then .ok
        else
          match propLevel (accSeries f) a g.b.v h implO r.out with
          | some msg => .bad s!"Geodesic::GenInverse and the full model of Model/GeodInvFull disagree beyond the documented accuracy: {msg}; branch impl={ibr} model={mbr}, numit impl={inumit} model={r.sol.numit} (bisections {r.sol.nbisect})"
          | none =>
            if mbr == ibr.toNat && mbr != 3 && !bads.isEmpty then
              .bad s!"Geodesic::GenInverse differs from Model/GeodInvFull on a branch without iteration ({mbr}): {bads}"
            else if sameTrace && !bads.isEmpty && r.sol.nbisect == 0 && r.sol.numit ≤ 6 then
              .bad s!"Geodesic::GenInverse differs from Model/GeodInvFull after the same {r.sol.numit} Newton steps: {bads}"
            else .skip s!"drift: branch impl={ibr} model={mbr}, numit impl={inumit} model={r.sol.numit}"
    | _, _, _, _, _, _ => .bad "parse"
  | _ => .bad "parse"

/-! ### `geninv_kern`: kernel values from the implementation -/

structure Row where
  salp1 : Float
  calp1 : Float
  lo : GeodInvSeries.LamOut RE
  len : LenOut RE

def rowOf (l : List Float) : Row :=
  let g (i : Nat) := RE.exact (l.getD i 0)
  ⟨l.getD 0 0, l.getD 1 0, ⟨g 2, g 3, g 4, g 5, g 6, g 7, g 8, g 9, g 10, g 11, g 12⟩, ⟨g 13, g 14, g 15, g 16⟩⟩

def chunks (n : Nat) (l : List Float) : List (List Float) :=
  if h : n = 0 ∨ l.length < n then [] else
    have : (l.drop n).length < l.length := by simp [List.length_drop]; omega
    l.take n :: chunks n (l.drop n)
termination_by l.length

def nanRow : Row :=
  let x := RE.exact (0.0 / 0.0)
  ⟨0.0 / 0.0, 0.0 / 0.0, ⟨x, x, x, x, x, x, x, x, x, x, x⟩, ⟨x, x, x, x⟩⟩

def handleKern (args res : List String) : Verdict :=
  match args with
  | which :: rest =>
    match rest.mapM pfl with
    | some [a, f, lat1, lon1, lat2, lon2] =>
      if !([lat1, lon1, lat2, lon2].all fun x => !x.isNaN && !x.isInf) || lat1.abs > 90 || lat2.abs > 90 then .skip "non-finite input" else
      -- res: tiny eps0 tolb c2 | maxit2 | guard | la1 la2 lon12 lon12e | flags | 12 + 6 + 10 | merid 5 | start 6 | n | rows 17 each | area
      match (res.take 4).mapM pfl, (res.drop 4).head?.bind String.toNat?, ((res.drop 5).take 5).mapM pfl, ((res.drop 10).take 3).mapM String.toInt?,
            ((res.drop 13).take 33).mapM pfl, (res.drop 46).head?.bind String.toNat?, (res.drop 47).mapM pfl with
      | some [tiny, eps0, tolb, c2], some maxit2, some (guard :: hd4), some [lonsign, swapp, latsign], some body, some n, some tail =>
        if body.length != 33 || tail.length != 17 * n + 1 then .bad "parse" else
        let h := headOf (hd4 ++ body.take 6) lonsign swapp latsign
        match checkHead lat1 lon1 lat2 lon2 h with
        | some msg => .bad msg
        | none =>
          let exact := which == "E"
          let e := RE.exact
          -- the ellipsoid constants through the same member initialisers (identical in both classes)
          let g := mkGeod a f tiny eps0
          let p : Params RE := ⟨g.a, g.f, g.f1, g.e2, g.ep2, g.n, g.b, e c2, g.tiny, e eps0, e tolb, 20, maxit2, e guard, exact⟩
          let β := reduceLat p (e h.s1) (e h.c1) (e h.s2) (e h.c2)
          let implβ := (body.drop 6).take 6
          let implO := (body.drop 12).take 10
          let mer := (body.drop 22).take 5
          let st := (body.drop 27).take 6
          let badβ := cmpList (betaList β) implβ
          if !badβ.isEmpty then .bad s!"reduced latitudes differ from Model/GeodInvFull.reduceLat: {badβ}" else
          -- from here on the model works with the implementation's reduced latitudes (the kernels were evaluated there)
          let gi (l : List Float) (i : Nat) := e (l.getD i 0)
          let βi : Beta RE := ⟨gi implβ 0, gi implβ 1, gi implβ 2, gi implβ 3, gi implβ 4, gi implβ 5⟩
          let rows := (chunks 17 (tail.take (17 * n))).map rowOf
          let area := tail.getD (17 * n) 0
          let k : Kernels RE :=
            { lenMerid := fun _ _ _ _ _ => ⟨gi mer 1, gi mer 2, gi mer 3, gi mer 4⟩
              start := ⟨gi st 0, gi st 1, gi st 2, gi st 3, gi st 4, gi st 5⟩
              -- the `numit`-th evaluation; when the implementation's answer stopped changing before its loop ended (a Newton
              -- step that does not move the point) the remaining evaluations are at the last listed point
              lam := fun s c numit =>
                match rows[numit]? with
                | some r => r.lo
                | none =>
                  match rows.getLast? with
                  | some r => if (s.v - r.salp1).abs ≤ 4 * s.e + 1e-15 && (c.v - r.calp1).abs ≤ 4 * c.e + 1e-15 then r.lo else nanRow.lo
                  | none => nanRow.lo
              lenFinal := fun o =>
                -- the row whose `Lambda12` output this is
                match rows.reverse.find? (fun r => r.lo.lam12.v == o.lam12.v && r.lo.sig12.v == o.sig12.v && r.lo.salp2.v == o.salp2.v
                    && r.lo.calp2.v == o.calp2.v && r.lo.ssig1.v == o.ssig1.v && r.lo.csig1.v == o.csig1.v && r.lo.ssig2.v == o.ssig2.v
                    && r.lo.csig2.v == o.csig2.v && r.lo.domg12.v == o.domg12.v) with
                | some r => r.len
                | none => nanRow.len
              area := fun _ _ _ _ => e area }
          let r := genInverse p k βi (canonOf h) lonsign swapp latsign
          -- the meridional candidate's sig12 (argument of the Lengths kernel) as the model computes it
          let badm : List String :=
            if isMeridian (canonOf h) then
              (cmpRE "meridional sig12" (mer.getD 0 0) (meridional p k βi (e h.slam12) (e h.clam12)).sig12c).toList
            else []
          if !badm.isEmpty then .bad s!"meridional candidate: {badm}" else
          let bads := cmpList (outList r.out) implO
          -- trajectory: the model's iterates against the rows (first evaluated point first)
          let its := r.sol.iterates.reverse
          let trajBad : List String :=
            if r.sol.branch != .newton then (if n == 0 then [] else ["the implementation iterated, the model did not"])
            else if its.length < n then [s!"the implementation evaluated Lambda12 at {n} points, the model at {its.length}"]
            else (((its.zip (rows ++ List.replicate (its.length - n) (rows.getLastD nanRow))).zipIdx).filterMap fun ((pt, row), i) =>
                   match cmpRE s!"salp1[{i}]" row.salp1 pt.1, cmpRE s!"calp1[{i}]" row.calp1 pt.2 with
                   | none, none => none
                   | some m, _ => some m
                   | _, some m => some m)
          if bads.isEmpty && trajBad.isEmpty then .ok
          else
            match propLevel (if exact then accExact f else accSeries f) a g.b.v h implO r.out with
            | some msg => .bad s!"GenInverse ({which}) and the bookkeeping model run on the implementation's own kernel values disagree beyond the documented accuracy: {msg}; trajectory: {trajBad}"
            | none =>
              if trajBad.isEmpty then .bad s!"GenInverse ({which}) differs from the bookkeeping model on the same trajectory: {bads}"
              else .skip s!"drift: {trajBad.take 2}"
      | _, _, _, _, _, _, _ => .bad "parse"
    | _ => .bad "parse"
  | [] => .bad "parse"

def handle (op : String) (args res : List String) : Option Verdict :=
  match op with
  | "geninv_series" => some (handleSeries args res)
  | "geninv_kern" => some (handleKern args res)
  | "ginv_entry" => some (.skip "agreement of the entry points is judged by the harness")
  | "geodsolve_inv" => some (if res == ["0"] then .skip "the front end's output is judged by the harness" else .bad s!"GeodSolve -i returned {res}")
  | _ => none

end GeoVerif.Corr.C02Full
