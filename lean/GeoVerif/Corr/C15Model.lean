import GeoVerif.Corr.Proto
import GeoVerif.Model.Elliptic
import GeoVerif.Model.AuxExact
import GeoVerif.Model.MathF
import GeoVerif.FP.RunErr
/-!
Correspondence for C15, second part: `EllipticFunction`, `AuxAngle`, the exact methods of `AuxLatitude` and the measures
of `Ellipsoid` against `Model/Elliptic.lean` and `Model/AuxExact.lean`.

The models are evaluated once, in the running-error arithmetic `RE` (`FP/RunErr.lean`): the value component is the
binary64 evaluation of the model (same operations, same order, same libm as the implementation), the error component the
first-order bound of the rounding error of that evaluation on these inputs.  The implementation agrees with the model when it
differs by at most `K·e`, `K = 4` (two evaluations of one real expression, and a factor 2 for an equivalent re-association, a
differently rounded `hypot`/`pow`, or one more/fewer trip of a converged loop).  Discrete outputs (iteration count within
±2, exception or not) are compared as such.
-/
namespace GeoVerif.Corr.C15M
open GeoVerif GeoVerif.Proto GeoVerif.Elliptic GeoVerif.AuxExact

def pfl (s : String) : Option Float := if s.length != 16 then none else (hexToNat s).map fun n => Float.ofBits n.toUInt64
def safety : Float := 4

/-- `none` = agrees; `some msg` = differs by more than `K·e` (an absolute floor of a few denormal quanta) -/
def cmp (name : String) (impl : Float) (m : RE) : Option String :=
  let d := Float.abs (impl - m.v)
  if (impl.isNaN && m.v.isNaN) || impl == m.v || d ≤ safety * m.e + 2e-323 || (m.e.isNaN && !m.v.isNaN && !impl.isNaN) || (m.e.isInf && !impl.isNaN && !m.v.isNaN)
  then none
  else some s!"{name}: impl={impl} model={m.v} diff={d} bound={m.e}"

def verdictOf (what : String) (bads : List (Option String)) : Verdict :=
  let b := bads.filterMap id
  if b.isEmpty then .ok else .bad s!"{what} differs from the Lean model: {b}"

def ex (x : Float) : RE := RE.exact x

def names6 : List String := ["F", "E", "D", "Pi", "G", "H"]

def parMembers (e : Par RE) : List (String × RE) :=
  [("_eps", e.eps), ("K()", e.kKc), ("E()", e.eEc), ("D()", e.dDc), ("Pi()", e.pPic), ("G()", e.gGc), ("H()", e.hHc), ("KE()", kE e),
   ("k2()", e.k2), ("kp2()", e.kp2), ("alpha2()", e.alpha2), ("alphap2()", e.alphap2)]

def cmpList (ms : List (String × RE)) (impl : List Float) : List (Option String) :=
  (ms.zip impl).map fun ((n, m), i) => cmp n i m

def alMembers (P : AL RE) : List (String × RE) :=
  [("_a", P.a), ("_b", P.b), ("_f", P.f), ("_fm1", P.fm1), ("_e2", P.e2), ("_e2m1", P.e2m1), ("_e12", P.e12), ("_e12p1", P.e12p1), ("_n", P.n),
   ("_e", P.e), ("_e1", P.e1), ("_n2", P.n2), ("_q", P.q), ("tol_", tolNewton), ("bmin_", bminC), ("bmax_", bmaxC)]

def anyNaN (l : List Float) : Bool := l.any Float.isNaN

/-- the cosine form of `AuxLatitude::Clenshaw` (the sine form is `AuxLat.clenshawSin`) -/
def clenshawCos (sz cz : RE) (c : List RE) : RE :=
  let x : RE := (RE.exact 2) * (cz - sz) * (cz + sz)
  let u := c.foldr (fun ck (u : RE × RE) => (x * u.1 - u.2 + ck, u.1)) (RE.exact 0, RE.exact 0)
  (x / RE.exact 2) * u.1 - (RE.exact 1) * u.2

def handle (op : String) (args res : List String) : Option Verdict :=
  match op with
  | "m15_carl" => some <|
    match args.mapM pfl with
    | some [x, y, z, p] =>
      if anyNaN [x, y, z, p] then .skip "NaN argument" else
      if res.length != 7 then .bad "parse" else
      let X := ex x; let Y := ex y; let Z := ex z; let P := ex p
      let ms : List (String × RE) := [("RF(x,y,z)", rf3 X Y Z), ("RF(x,y)", rf2 X Y), ("RC(x,y)", rc X Y), ("RD(x,y,z)", rd X Y Z),
        ("RJ(x,y,z,p)", rj X Y Z P), ("RG(x,y,z)", rg3 X Y Z), ("RG(x,y)", rg2 X Y)]
      verdictOf "Carlson" ((ms.zip res).map fun ((n, m), r) => if r == "-" then none else match pfl r with | some i => cmp n i m | none => some "parse")
    | _ => .bad "parse"
  | "m15_reset" | "m15_reset2" | "m15_reset0" => some <|
    match args.mapM pfl with
    | some as =>
      if anyNaN as then .skip "NaN parameter" else
      let e? : Option (Par RE) := match as with
        | [k2, a2, kp2, ap2] => reset (ex k2) (ex a2) (ex kp2) (ex ap2)
        | [k2, a2] => reset2 (ex k2) (ex a2)
        | _ => reset2 (ex 0) (ex 0)
      match e?, res with
      | none, ["!E"] => .ok
      | none, _ => .bad "Reset: the model rejects the parameters, the implementation accepts them"
      | some _, ["!E"] => .bad "Reset: the implementation throws, the model accepts the parameters"
      | some e, _ =>
        match res.mapM pfl with
        | some impl => if impl.length != 12 then .bad "parse" else verdictOf "EllipticFunction::Reset" (cmpList (parMembers e) impl)
        | none => .bad "parse"
    | none => .bad "parse"
  | "m15_inc" => some <|
    match args.mapM pfl, res.mapM pfl with
    | some [k2, a2, kp2, ap2, sn, cn, dn], some impl =>
      if anyNaN [k2, a2, kp2, ap2, sn, cn, dn] then .skip "NaN argument" else
      if impl.length != 13 then .bad "parse" else
      match reset (ex k2) (ex a2) (ex kp2) (ex ap2) with
      | none => .bad "Reset rejected"
      | some e =>
        let ms := (Kind.all.zip names6).map (fun (k, n) => (s!"{n}(sn,cn,dn)", inc e k (ex sn) (ex cn) (ex dn))) ++
                  (Kind.all.zip names6).map (fun (k, n) => (s!"delta{n}(sn,cn,dn)", deltaInc e k (ex sn) (ex cn) (ex dn))) ++
                  [("Delta(sn,cn)", delta e (ex sn) (ex cn))]
        verdictOf "EllipticFunction (sn, cn, dn) interfaces" (cmpList ms impl)
    | _, _ => .bad "parse"
  | "m15_phi" => some <|
    match args.mapM pfl, res.mapM pfl with
    | some [k2, a2, kp2, ap2, phi], some impl =>
      if anyNaN [k2, a2, kp2, ap2, phi] || phi.isInf then .skip "NaN argument" else
      if impl.length != 6 then .bad "parse" else
      match reset (ex k2) (ex a2) (ex kp2) (ex ap2) with
      | none => .bad "Reset rejected"
      | some e => verdictOf "EllipticFunction angle interfaces" (cmpList ((Kind.all.zip names6).map fun (k, n) => (s!"{n}(phi)", incPhi e k (ex phi))) impl)
    | _, _ => .bad "parse"
  | "m15_ed" => some <|
    match args.mapM pfl, res.mapM pfl with
    | some [k2, kp2, ang], some [sn, cn, ed] =>
      if anyNaN [k2, kp2, ang] || ang.isInf then .skip "NaN argument" else
      match reset (ex k2) (ex 0) (ex kp2) (ex 1) with
      | none => .bad "Reset rejected"
      | some e =>
        -- the turn count: `round((ang − AngNormalize(ang))/360)` with the exact reduction of C16
        let an := F64.toFloat (MathF.angNormalize (F64.ofFloat ang))
        let n := Float.round ((ang - an) / 360)
        verdictOf "EllipticFunction::Ed" [cmp "Ed(ang)" ed (edWith e (ex n) (ex sn) (ex cn))]
    | _, _ => .bad "parse"
  | "m15_jac" => some <|
    match args.mapM pfl, res.mapM pfl with
    | some [k2, kp2, x], some [sn, cn, dn, am1, am2, s2, c2, d2] =>
      if anyNaN [k2, kp2, x] then .skip "NaN argument" else
      match reset (ex k2) (ex 0) (ex kp2) (ex 1) with
      | none => .bad "Reset rejected"
      | some e =>
        match sncndn e (ex x), amFull e (ex x) with
        | some (msn, mcn, mdn), some (mphi, ms2, mc2, md2) =>
          verdictOf "sncndn / am" [cmp "sn" sn msn, cmp "cn" cn mcn, cmp "dn" dn mdn, cmp "am(x)" am1 mphi, cmp "am(x,...)" am2 mphi,
            cmp "am: sn" s2 ms2, cmp "am: cn" c2 mc2, cmp "am: dn" d2 md2]
        | _, _ => .bad "the model of sncndn/am does not converge within num_ stages"
    | _, _ => .bad "parse"
  | "m15_einv" => some <|
    match args.mapM pfl, res.mapM pfl with
    | some [k2, kp2, x, st, ct], some [ei, de] =>
      if anyNaN [k2, kp2, x, st, ct] then .skip "NaN argument" else
      match reset (ex k2) (ex 0) (ex kp2) (ex 1) with
      | none => .bad "Reset rejected"
      | some e =>
        match einv e (ex x), deltaEinv e (ex st) (ex ct) with
        | some m1, some m2 => verdictOf "Einv / deltaEinv" [cmp "Einv(x)" ei m1, cmp "deltaEinv" de m2]
        | _, _ => .bad "the model of Einv does not converge within num_ iterations"
    | _, _ => .bad "parse"
  | "m15_ang" => some <|
    match args.mapM pfl, res.mapM pfl with
    | some [y, x, qy, qx, d], some impl =>
      if impl.length != 17 then .bad "parse" else
      if anyNaN [y, x, qy, qx, d] then .skip "NaN argument" else
      let p : Ang RE := ⟨ex y, ex x⟩; let q : Ang RE := ⟨ex qy, ex qx⟩
      let n := p.normalized; let cq := p.copyquadrant q; let s := p.add q
      let r : Ang RE := Ang.ofRadians (ex d); let l : Ang RE := Ang.ofLam (ex d); let ld : Ang RE := Ang.ofLamd (ex d)
      let ms : List (String × RE) := [("normalized.y", n.y), ("normalized.x", n.x), ("copyquadrant.y", cq.y), ("copyquadrant.x", cq.x), ("+=.y", s.y), ("+=.x", s.x),
        ("degrees()", p.degrees), ("radians()", p.radians), ("lam()", p.lam), ("lamd()", p.lamd), ("tan()", p.tan), ("radians(d).y", r.y), ("radians(d).x", r.x),
        ("lam(d).y", l.y), ("lam(d).x", l.x), ("lamd(d).y", ld.y), ("lamd(d).x", ld.x)]
      -- signs of zero of the quadrant operations are part of the contract
      let sg (a b : Float) : Bool := a.isNaN || b.isNaN || (a.toBits >>> 63) == (b.toBits >>> 63)
      let sb := if sg (impl.getD 2 0) cq.y.v && sg (impl.getD 3 0) cq.x.v then none else some "copyquadrant: sign bits differ from the model"
      verdictOf "AuxAngle" (sb :: cmpList ms impl)
    | _, _ => .bad "parse"
  | "m15_ctor" | "m15_axes" => some <|
    match (args.take 2).mapM pfl with
    | some [a, b] =>
      if anyNaN [a, b] then (if res == ["!E"] then .ok else .bad "NaN axes accepted") else
      let P : AL RE := if op == "m15_ctor" then AL.mk2 (ex a) (ex b) else AL.axes (ex a) (ex b)
      match P.ctorOK, res with
      | false, ["!E"] => .ok
      | false, _ => .bad "constructor: the model rejects the ellipsoid, the implementation accepts it"
      | true, ["!E"] => .bad "constructor: the implementation throws, the model accepts the ellipsoid"
      | true, _ =>
        match res.mapM pfl with
        | some impl => if impl.length != 16 then .bad "parse" else verdictOf "AuxLatitude constructor" (cmpList (alMembers P) impl)
        | none => .bad "parse"
    | _ => .bad "parse"
  | "m15_toaux" => some <|
    match args with
    | [fs, tos, ys, xs] =>
      match pfl fs, tos.toInt?, pfl ys, pfl xs, res.mapM pfl with
      | some f, some to_, some y, some x, some [ry, rx, diff] =>
        if anyNaN [f, y, x] then .skip "NaN argument" else
        let P : AL RE := AL.mk2 (ex 1) (ex f)
        let r := toAux P to_ ⟨ex y, ex x⟩
        verdictOf s!"ToAuxiliary({to_})" [cmp "y" ry r.1.y, cmp "x" rx r.1.x, cmp "diff" diff r.2]
      | _, _, _, _, _ => .bad "parse"
    | _ => .bad "parse"
  | "m15_fromaux" => some <|
    match args with
    | [fs, froms, ys, xs] =>
      match pfl fs, froms.toInt?, pfl ys, pfl xs, res with
      | some f, some from_, some y, some x, [rys, rxs, nits] =>
        match pfl rys, pfl rxs, nits.toInt? with
        | some ry, some rx, some nit =>
          if anyNaN [f, y, x] then .skip "NaN argument" else
          let P : AL RE := AL.mk2 (ex 1) (ex f)
          let r := fromAux P from_ ⟨ex y, ex x⟩
          let dn := (nit - (r.2 : Int)).natAbs
          -- the iteration count may differ by a step when a comparison is decided by the last bit
          let cn := if dn ≤ 2 || ry.isNaN then none else some s!"niter: impl={nit} model={r.2}"
          verdictOf s!"FromAuxiliary({from_})" [cmp "y" ry r.1.y, cmp "x" rx r.1.x, cn]
        | _, _, _ => .bad "parse"
      | _, _, _, _, _ => .bad "parse"
    | _ => .bad "parse"
  | "m15_conv" => some <|
    match args with
    | [fs, froms, tos, ys, xs] =>
      match pfl fs, froms.toInt?, tos.toInt?, pfl ys, pfl xs, res.mapM pfl with
      | some f, some from_, some to_, some y, some x, some [ry, rx] =>
        if anyNaN [f, y, x] then .skip "NaN argument" else
        let P : AL RE := AL.mk2 (ex 1) (ex f)
        let r := convertExact P from_ to_ ⟨ex y, ex x⟩
        verdictOf s!"Convert({from_} -> {to_}, exact)" [cmp "y" ry r.y, cmp "x" rx r.x]
      | _, _, _, _, _, _ => .bad "parse"
    | _ => .bad "parse"
  | "m15_convdeg" => some <|
    match args with
    | [_fs, _froms, _tos, _exs, zs] =>
      match pfl zs, res.mapM pfl with
      | some z, some [sy, sx, ry, rx, out] =>
        if anyNaN [z, sy, sx, ry, rx] || z.isInf then .skip "NaN argument" else
        -- the bookkeeping of the degree overload: `td·round((ζ − degrees(sincosd ζ))/td) + degrees(Convert(sincosd ζ))`
        let za : Ang RE := ⟨ex sy, ex sx⟩
        let m := RealX.round ((ex z - za.degrees) / (RE.exact 360))
        let r : Ang RE := ⟨ex ry, ex rx⟩
        verdictOf "Convert(degrees)" [cmp "result" out ((RE.exact 360) * m + r.degrees)]
      | _, _ => .bad "parse"
    | _ => .bad "parse"
  | "m15_clen" => some <|
    match args with
    | sinp :: rest =>
      match rest.mapM pfl, res.mapM pfl with
      | some (sz :: cz :: cs), some [v] =>
        let m : RE := if sinp == "1" then AuxLat.clenshawSin (ex sz) (ex cz) (cs.map ex) else clenshawCos (ex sz) (ex cz) (cs.map ex)
        verdictOf "AuxLatitude::Clenshaw" [cmp "value" v m]
      | _, _ => .bad "parse"
    | _ => .bad "parse"
  | "m15_ell" => some <|
    match args.mapM pfl, res.mapM pfl with
    | some [a, f, phi, _azi, psi], some [s, c, sdv, sal, cal, qm, ar, rr, ar2, mcr, tcr, ncr, cr, ch, md, iso, iiso, vol] =>
      if anyNaN [a, f, psi, sal, cal] then .skip "NaN argument" else
      let P : AL RE := AL.mk2 (ex a) (ex f)
      let base := [cmp "QuarterMeridian" qm (quarterMeridian P), cmp "Area" ar (area P), cmp "RectifyingRadius(true)" rr (rectifyingRadiusExact P),
                   cmp "AuthalicRadiusSquared(true)" ar2 (authalicRadiusSqExact P), cmp "Volume" vol (AuxLat.volume (ex a) (ex f)),
                   cmp "InverseIsometricLatitude" iiso (inverseIsometricLatitude P (ex psi))]
      let lat := if anyNaN [phi, s, c, sdv] then [] else
        [cmp "MeridionalCurvatureRadius" mcr (meridionalCurvatureRadius (ex a) P.e2 (ex sdv)),
         cmp "TransverseCurvatureRadius" tcr (transverseCurvatureRadius (ex a) P.e2 (ex sdv)),
         cmp "NormalCurvatureRadius" ncr (normalCurvatureRadius (ex a) P.e2 (ex sdv) (ex sal) (ex cal)),
         cmp "CircleRadius" cr (circleRadius P (ex s) (ex c)), cmp "CircleHeight" ch (circleHeight P (ex s) (ex c)),
         cmp "MeridianDistance" md (meridianDistance P (ex s) (ex c)), cmp "IsometricLatitude" iso (isometricLatitude P (ex s) (ex c))]
      verdictOf "Ellipsoid" (base ++ lat)
    | _, _ => .bad "parse"
  | "m15_wgs84" => some (.skip "judged by the harness")
  | _ => none

end GeoVerif.Corr.C15M
