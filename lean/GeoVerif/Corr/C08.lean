import GeoVerif.Corr.Proto
import GeoVerif.Model.Polygon
import GeoVerif.Model.PolygonF
import GeoVerif.Model.Planimeter
/-! Correspondence relation for C08: a whole edit history per line.

The solver's answers reported on the line are turned into a `Backend` (a finite table, keyed by the bit patterns of
the arguments); `Polygon.trace` (exact sums: the property-level comparison, with a round-off tolerance) and
`PolygonF.trace` (bit level: a difference is drift, reported as a skipped line) are then *executed* on the operation
list — the same definitions the theorems of `Props/C08.lean` are about. -/
namespace GeoVerif.Corr.C08
open GeoVerif GeoVerif.Proto GeoVerif.Polygon

/-- a bit-level difference with no property-level difference is drift (skipped line), not a failing input -/
def driftIsBad : Bool := false

def pb (s : String) : Option Bool := if s == "1" then some true else if s == "0" then some false else none

def absR (x : Rat) : Rat := if x < 0 then -x else x

/-- approximate value for messages -/
def ratF (x : Rat) : Float := Float.ofInt x.num / Float.ofNat x.den

/-- compare a reported double (or `-` = untouched / NaN token `nan`) with the model's rational -/
def cmpVal (what : String) (tok : String) (model : Option Rat) (tol : Rat) (wrap : Rat := 0) : Option String :=
  match model, parseF tok with
  | none, some v => if v.isNaN then none else some s!"{what}: expected NaN, impl={showF v}"
  | some m, some v =>
    if !v.isFinite then some s!"{what}: impl={showF v} (not finite)"
    else if absR (toRat v - m) ≤ tol then none
    else if wrap > 0 && absR (remainderQ (toRat v - m) wrap) ≤ tol then none   -- equal modulo the ellipsoid area (at the ends of the documented range)
    else some s!"{what}: impl={showF v} differs from the exact bookkeeping by {ratF (toRat v - m)} (tolerance {ratF tol})"
  | _, none => some s!"{what}: parse {tok}"

/-- the documented range: within [-A/2, A] (the flag-specific range is part of `areaReduce`, compared above) -/
def rangeCheck (what tok : String) (A tol : Rat) : Option String :=
  match parseF tok with
  | some v => if v.isFinite && (toRat v < -(A / 2) - tol || toRat v > A + tol) then some s!"{what}: area {showF v} outside the documented range" else none
  | none => none

def two53 : Rat := Rat.divInt 1 (2 ^ 50)   -- 8 · 2^-53

def checkResult (sumS sumP A : Rat) (r : Result) (tok : String) (what : String) : Option String :=
  match (tok.splitOn ":") with
  | ["r", n, p, a] =>
    let e1 := if n.toNat? == some r.num then none else some s!"{what}: num impl={n} model={r.num}"
    let tolP := two53 * (sumP + absR (r.perimeter.getD 0) + 1)
    let e2 := cmpVal (what ++ ".perimeter") p r.perimeter tolP
    let tolA := two53 * (sumS + A)
    let e3 := match r.area with
      | none => if a == "-" then none else some s!"{what}: area written for a polyline"
      | some ma => if a == "-" then some s!"{what}: area not written" else (cmpVal (what ++ ".area") a ma tolA A <|> rangeCheck what a A tolA)
    e1 <|> e2 <|> e3
  | _ => some s!"{what}: malformed result token {tok}"

/-! ### the operation list and the solver table -/

def parseOp (tok : String) : Option Op :=
  match tok.splitOn ":" with
  | ["X"] => some .clear
  | ["P", lat, lon] => do some (.addPoint (← parseF lat) (← parseF lon))
  | ["E", azi, s] => do some (.addEdge (← parseF azi) (← parseF s))
  | ["C", rv, sg] => do some (.compute (← pb rv) (← pb sg))
  | ["TP", lat, lon, rv, sg] => do some (.testPoint (← parseF lat) (← parseF lon) (← pb rv) (← pb sg))
  | ["TE", azi, s, rv, sg] => do some (.testEdge (← parseF azi) (← parseF s) (← pb rv) (← pb sg))
  | _ => none

abbrev Key := UInt64 × UInt64 × UInt64 × UInt64

structure Tbl where
  inv : List (Key × (F64 × F64)) := []
  dir : List (Key × (F64 × F64 × F64)) := []
  sumS : Rat := 0
  sumP : Rat := 0
  finite : Bool := true
  malformed : Bool := false

def key (a b c d : F64) : Key := (a.toBits, b.toBits, c.toBits, d.toBits)

def mag (x : F64) : Rat := if x.isFinite then absR (toRat x) else 0

def addTok (t : Tbl) (tok : String) : Tbl :=
  match tok.splitOn ":" with
  | ["k", a, b, c, d, s12, S12] =>
    (match parseFs [a, b, c, d, s12, S12] with
     | some [a, b, c, d, s, S] =>
       { t with inv := (key a b c d, (s, S)) :: t.inv, sumS := t.sumS + mag S, sumP := t.sumP + mag s, finite := t.finite && s.isFinite && S.isFinite }
     | _ => { t with malformed := true })
  | ["d", a, b, c, d, lat2, lon2, S12] =>
    (match parseFs [a, b, c, d, lat2, lon2, S12] with
     | some [a, b, c, d, la, lo, S] =>
       { t with dir := (key a b c d, (la, lo, S)) :: t.dir, sumS := t.sumS + mag S, sumP := t.sumP + mag d,
                finite := t.finite && d.isFinite && la.isFinite && lo.isFinite && S.isFinite }
     | _ => { t with malformed := true })
  | _ => t

/-- the solver as the implementation answered on this line (anything it was not asked: zeros) -/
def tableBackend (t : Tbl) : Backend where
  inverse a b c d := ((t.inv.find? fun e => e.1 == key a b c d).map (·.2)).getD (0, 0)
  direct a b c d := ((t.dir.find? fun e => e.1 == key a b c d).map (·.2)).getD (0, 0, 0)

/-! ### comparison of the two traces with what was reported -/

def sameTok (tok : String) (x : F64) : Bool :=
  match parseF tok with
  | some v => F64.same v x
  | none => false

/-- the state token `s:num:lat1:lon1:lat0:lon0:crossings:as:at:ps:pt` against the exact-sum model (property level) -/
def checkState (t : Tbl) (st : State) (tok : String) : Option String :=
  match tok.splitOn ":" with
  | ["s", n, la1, lo1, la0, lo0, cr, as, at', ps, pt] =>
    if n.toNat? != some st.num then some s!"NumberPoints impl={n} model={st.num}"
    else if !(sameTok la1 st.lat1 && sameTok lo1 st.lon1) then some s!"CurrentPoint impl=({la1},{lo1}) model=({showF st.lat1},{showF st.lon1})"
    else if !(sameTok la0 st.lat0 && sameTok lo0 st.lon0) then some s!"first vertex impl=({la0},{lo0}) model=({showF st.lat0},{showF st.lon0})"
    else match parseI cr, parseFs [as, at', ps, pt] with
      | some c, some [a1, a2, p1, p2] =>
        if (c - st.crossings) % 2 != 0 then some s!"crossing parity impl={c} model={st.crossings}"
        else if !(a1.isFinite && a2.isFinite && p1.isFinite && p2.isFinite) then some "accumulators not finite"
        else if absR (toRat a1 + toRat a2 - st.areasum) > two53 * t.sumS then
          some s!"area accumulator holds {ratF (toRat a1 + toRat a2)}, the exact sum is {ratF st.areasum}"
        else if absR (toRat p1 + toRat p2 - st.perimsum) > two53 * t.sumP then
          some s!"perimeter accumulator holds {ratF (toRat p1 + toRat p2)}, the exact sum is {ratF st.perimsum}"
        else none
      | _, _ => some "parse state token"
  | _ => some s!"malformed state token {tok}"

/-- bit level: the state record -/
def driftState (st : PolygonF.StateF) (tok : String) : Option String :=
  match tok.splitOn ":" with
  | ["s", _, _, _, _, _, cr, as, at', ps, pt] =>
    if parseI cr != some st.crossings then some s!"_crossings impl={cr} model={st.crossings}"
    else if !(sameTok as st.areasum.s && sameTok at' st.areasum.t) then some s!"_areasum impl=({as},{at'}) model=({showF st.areasum.s},{showF st.areasum.t})"
    else if !(sameTok ps st.perimsum.s && sameTok pt st.perimsum.t) then some s!"_perimetersum impl=({ps},{pt}) model=({showF st.perimsum.s},{showF st.perimsum.t})"
    else none
  | _ => none

def driftResult (r : PolygonF.ResultF) (tok : String) : Option String :=
  match tok.splitOn ":" with
  | ["r", _, p, a] =>
    if !sameTok p r.perimeter then some s!"perimeter impl={p} model={showF r.perimeter}"
    else match r.area with
      | none => none
      | some x => if a == "-" || sameTok a x then none else some s!"area impl={a} model={showF x}"
  | _ => none

def opName : Op → String
  | .clear => "Clear" | .addPoint .. => "AddPoint" | .addEdge .. => "AddEdge"
  | .compute .. => "Compute" | .testPoint .. => "TestPoint" | .testEdge .. => "TestEdge"

/-- walk the two traces against the reported state / result tokens; returns (failing relation, drift) -/
def compare (t : Tbl) (A : Rat) : Nat → List Op → List (State × Option Result) → List (PolygonF.StateF × Option PolygonF.ResultF) →
    List String → List String → Option String × Option String
  | _, [], _, _, _, _ => (none, none)
  | i, op :: ops, (st, r) :: tr, (sf, rf) :: trF, stoks, rtoks =>
    let what := s!"op {i} {opName op}"
    -- the result of a query
    let (e1, d1, rtoks') : Option String × Option String × List String :=
      match r, rf, rtoks with
      | some res, some resF, tok :: rest => (checkResult t.sumS t.sumP A res tok what, (driftResult resF tok).map (s!"{what}: " ++ ·), rest)
      | some _, _, [] => (some s!"{what}: no result reported", none, [])
      | _, _, rest => (none, none, rest)
    match stoks with
    | [] => (some s!"{what}: no state reported", none)
    | stok :: stoks' =>
      let e2 := (checkState t st stok).map (s!"after {what}: " ++ ·)
      let d2 := (driftState sf stok).map (s!"after {what}: " ++ ·)
      match e1 <|> e2 with
      | some e => (some e, none)
      | none =>
        let (e, d) := compare t A (i + 1) ops tr trF stoks' rtoks'
        (e, d1 <|> d2 <|> d)
  | _, _, _, _, _, _ => (some "trace length", none)

def finish (v : Option String × Option String) (pre : String) : Verdict :=
  match v with
  | (some e, _) => .bad s!"{pre}: {e}"
  | (none, some d) => if driftIsBad then .bad s!"{pre} (bit level): {d}" else .skip s!"drift: {d}"
  | (none, none) => .ok

def handlePoly (args res : List String) : Verdict :=
  match args, res with
  | _backend :: _a :: _f :: pl :: optoks, a0 :: rs =>
    (match pb pl, (a0.splitOn ":") with
     | some polyline, ["A0", ah] =>
       (match parseF ah, optoks.mapM parseOp with
        | some AF, some ops =>
          if !AF.isFinite then .bad "A0 not finite" else
          let t := rs.foldl addTok {}
          if t.malformed then .bad "malformed solver token" else
          if !t.finite then .skip "skip:nonfinite kernel" else
          let A := toRat AF
          let B := tableBackend t
          let stoks := rs.filter (·.startsWith "s:")
          let rtoks := rs.filter (·.startsWith "r:")
          (match stoks with
           | s0 :: stoks' =>
             let e0 := (checkState t (init polyline) s0).map ("after construction: " ++ ·)
             (match e0 with
              | some e => .bad s!"PolygonArea bookkeeping: {e}"
              | none =>
                finish (compare t A 1 ops (Polygon.trace B A (init polyline) ops) (PolygonF.trace B AF (PolygonF.init polyline) ops) stoks' rtoks)
                  "PolygonArea bookkeeping")
           | [] => .bad "no state token")
        | _, _ => .bad "parse A0 / operations")
     | _, _ => .bad "parse")
  | _, _ => .bad "parse"

/-- `areduce a f s t crossings | A0:… S12 (computeArea:testPointArea)×4`: the planted object of the harness -/
def handleAreduce (args res : List String) : Verdict :=
  match args, res with
  | [_, _, s, t, cr], a0 :: s12 :: outs =>
    (match parseFs [s, t, s12], parseI cr, a0.splitOn ":" with
     | some [s, t, S12], some c, ["A0", ah] =>
       (match parseF ah with
        | some AF =>
          if !(s.isFinite && t.isFinite && AF.isFinite) then .skip "skip:nonfinite" else
          let A := toRat AF
          let z : F64 := F64.ofInt 0
          let stF : PolygonF.StateF := { num := 2, crossings := c, areasum := ⟨s, t⟩, lat0 := z, lon0 := z, lat1 := z, lon1 := z }
          let st : State := { num := 2, crossings := c, areasum := toRat s + toRat t, lat0 := z, lon0 := z, lat1 := z, lon1 := z }
          let flags := [(false, false), (false, true), (true, false), (true, true)]
          let tol := two53 * (absR (toRat s) + A)
          let go := (flags.zip outs).foldl (fun (acc : Option String × Option String) (fo : (Bool × Bool) × String) =>
            let ((rv, sg), o) := fo
            match o.splitOn ":" with
            | [ca, ta] =>
              let rc := compute st A rv sg 0 (toRat S12)
              let rt := testPoint st A z rv sg (0, toRat S12) (0, toRat S12)
              let what := s!"reverse={rv} sign={sg}"
              let e := (match rc.area with
                        | some m => cmpVal s!"AreaReduce(Accumulator) {what}" ca m tol A <|> rangeCheck what ca A tol
                        | none => some "model") <|>
                       (match rt.area with
                        | some m => cmpVal s!"AreaReduce(real) {what}" ta m tol A <|> rangeCheck what ta A tol
                        | none => some "model")
              let rcF := PolygonF.compute stF AF rv sg z S12
              let rtF := PolygonF.testPoint stF AF z rv sg (z, S12) (z, S12)
              let d := (match rcF.area with
                        | some x => if sameTok ca x then none else some s!"AreaReduce(Accumulator) {what}: impl={ca} model={showF x}"
                        | none => none) <|>
                       (match rtF.area with
                        | some x => if sameTok ta x then none else some s!"AreaReduce(real) {what}: impl={ta} model={showF x}"
                        | none => none)
              (acc.1 <|> e, acc.2 <|> d)
            | _ => (acc.1 <|> some "parse", acc.2)) (none, none)
          if outs.length != 4 then .bad "parse" else finish go "AreaReduce"
        | none => .bad "parse A0")
     | _, _, _ => .bad "parse")
  | _, _ => .bad "parse"

/-- `planim variant s:input | polyline s:tags rc nlines n₁ n₂ …`: one result line per polygon with at least one vertex -/
def handlePlanim (res : List String) : Verdict :=
  match res with
  | ["crash"] => .skip "tool crashed (reported by the harness)"
  | "usage" :: _ => .ok
  | _pl :: tags :: _rc :: nl :: nums =>
    (match parseS tags, nl.toNat?, nums.mapM (·.toNat?) with
     | some tg, some n, some ns =>
       let expected := Planimeter.segments (tg.map fun b => b == 118) 0     -- 'v'
       if n != ns.length then .bad s!"Planimeter: {n} lines, {ns.length} counts"
       else if ns != expected then .bad s!"Planimeter: vertex counts printed {ns}, the input has polygons of {expected} vertices"
       else .ok
     | _, _, _ => .bad "parse")
  | _ => .bad "parse"

def handle (op : String) (args res : List String) : Option Verdict :=
  match op with
  | "poly" => some (handlePoly args res)
  | "areduce" => some (handleAreduce args res)
  | "planim" => some (handlePlanim res)
  | "transit" => some <|
    match parseFs args, res with
    | some [l1, l2], [t, td] =>
      if parseI t == some (transit l1 l2) && parseI td == some (transitdirect l1 l2) then .ok
      else .bad s!"transit/transitdirect: impl=({t},{td}) model=({transit l1 l2},{transitdirect l1 l2})"
    | _, _ => .bad "parse"
  | "polymeta" => some (.skip "metamorphic laws are judged by the harness on the implementation")
  | "edgepoly" => some (.skip "AddEdge-built vs AddPoint-built polygons are judged by the harness on the implementation")
  | _ => none

end GeoVerif.Corr.C08
