import GeoVerif.Corr.Proto
import GeoVerif.Model.Polygon
/-! Correspondence relation for C08: a whole edit history per line -/
namespace GeoVerif.Corr.C08
open GeoVerif GeoVerif.Proto GeoVerif.Polygon

def pb (s : String) : Option Bool := if s == "1" then some true else if s == "0" then some false else none

def absR (x : Rat) : Rat := if x < 0 then -x else x

/-- approximate value for messages -/
def ratF (x : Rat) : Float := Float.ofInt x.num / Float.ofNat x.den

structure Acc where
  st : State
  sumS : Rat := 0      -- Σ|S12| seen so far (scale for the area tolerance)
  sumP : Rat := 0      -- Σ|s12|
  bad : Option String := none

/-- compare a reported double (or `-` = untouched / NaN token `nan`) with the model's rational -/
def cmpVal (what : String) (tok : String) (model : Option Rat) (tol : Rat) (wrap : Rat := 0) : Option String :=
  match model, parseF tok with
  | none, some v => if v.isNaN then none else some s!"{what}: expected NaN, impl={showF v}"
  | some m, some v =>
    if !v.isFinite then some s!"{what}: impl={showF v} (not finite)"
    else if absR (toRat v - m) ≤ tol then none
    else if wrap > 0 && absR (remainderQ (toRat v - m) wrap) ≤ tol then none   -- equal modulo the ellipsoid area (at the ends of the documented range)
    else some s!"{what}: impl={showF v} differs from the exact bookkeeping by {ratF (toRat v - m)} (tolerance {ratF tol})"
  | _, none => some s!"{what}: parse {tok}"

/-- the documented range: within [-A/2, A] (the flag-specific range is part of `areaReduce`, compared above) -/
def rangeCheck (what tok : String) (A tol : Rat) : Option String :=
  match parseF tok with
  | some v => if v.isFinite && (toRat v < -(A / 2) - tol || toRat v > A + tol) then some s!"{what}: area {showF v} outside the documented range" else none
  | none => none

def two53 : Rat := Rat.divInt 1 (2 ^ 50)   -- 8 · 2^-53

def checkResult (acc : Acc) (A : Rat) (r : Result) (tok : String) (what : String) : Acc :=
  match (tok.splitOn ":") with
  | ["r", n, p, a] =>
    let e1 := if n.toNat? == some r.num then none else some s!"{what}: num impl={n} model={r.num}"
    let tolP := two53 * (acc.sumP + absR (r.perimeter.getD 0) + 1)
    let e2 := cmpVal (what ++ ".perimeter") p r.perimeter tolP
    let tolA := two53 * (acc.sumS + A)
    let e3 := match r.area with
      | none => if a == "-" then none else some s!"{what}: area written for a polyline"
      | some ma => if a == "-" then some s!"{what}: area not written" else (cmpVal (what ++ ".area") a ma tolA A <|> rangeCheck what a A tolA)
    match acc.bad, e1 <|> e2 <|> e3 with
    | none, some e => { acc with bad := some e }
    | _, _ => acc
  | _ => { acc with bad := acc.bad <|> some s!"{what}: malformed result token {tok}" }

def ratOf (tok : String) : Option Rat := (parseF tok).bind fun v => if v.isFinite then some (toRat v) else none

/-- walk the op tokens and the result tokens in parallel -/
partial def walk (acc : Acc) (A : Rat) : List String → List String → Acc
  | [], _ => acc
  | op :: ops, res =>
    if acc.bad.isSome then acc else
    match op.splitOn ":", res with
    | ["X"], "x" :: rs => walk { acc with st := clear acc.st, sumS := 0, sumP := 0 } A ops rs
    | ["P", _, lon], k :: rs =>
      (match parseF lon, k.splitOn ":" with
       | some l, ["k", s12, S12] =>
         (match ratOf s12, ratOf S12 with
          | some s, some S => walk { acc with st := addPoint acc.st l s S, sumS := acc.sumS + absR S, sumP := acc.sumP + absR s } A ops rs
          | _, _ => { acc with bad := some "skip:nonfinite kernel" })
       | _, _ => { acc with bad := some "parse P" })
    | ["E", _, s], k :: rs =>
      (match ratOf s, k.splitOn ":" with
       | some sv, ["k", _, lon2, S12] =>
         (match parseF lon2, ratOf S12 with
          | some l2, some S => walk { acc with st := addEdge acc.st sv l2 S, sumS := acc.sumS + absR S, sumP := acc.sumP + absR sv } A ops rs
          | _, _ => { acc with bad := some "skip:nonfinite kernel" })
       | _, _ => { acc with bad := some "parse E" })
    | ["C", rv, sg], k :: r :: rs =>
      (match pb rv, pb sg, k.splitOn ":" with
       | some reverse, some sign, ["k", s12, S12] =>
         (match ratOf s12, ratOf S12 with
          | some s, some S =>
            let acc' := { acc with sumS := acc.sumS + absR S, sumP := acc.sumP + absR s }
            let acc'' := checkResult acc' A (compute acc.st A reverse sign s S) r "Compute"
            walk { acc'' with sumS := acc.sumS, sumP := acc.sumP } A ops rs
          | _, _ => { acc with bad := some "skip:nonfinite kernel" })
       | _, _, _ => { acc with bad := some "parse C" })
    | ["TP", _, lon, rv, sg], k :: r :: rs =>
      (match parseF lon, pb rv, pb sg, k.splitOn ":" with
       | some l, some reverse, some sign, ["k", s1, S1, s2, S2] =>
         (match ratOf s1, ratOf S1, ratOf s2, ratOf S2 with
          | some a, some b, some c, some d =>
            let acc' := { acc with sumS := acc.sumS + absR b + absR d, sumP := acc.sumP + absR a + absR c }
            let acc'' := checkResult acc' A (testPoint acc.st A l reverse sign (a, b) (c, d)) r "TestPoint"
            walk { acc'' with sumS := acc.sumS, sumP := acc.sumP } A ops rs
          | _, _, _, _ => { acc with bad := some "skip:nonfinite kernel" })
       | _, _, _, _ => { acc with bad := some "parse TP" })
    | ["TE", _, s, rv, sg], k :: r :: rs =>
      (match ratOf s, pb rv, pb sg, k.splitOn ":" with
       | some sv, some reverse, some sign, ["k", _, lon2, S12, s2, S2] =>
         (match parseF lon2, ratOf S12, ratOf s2, ratOf S2 with
          | some l2, some S, some c, some d =>
            let acc' := { acc with sumS := acc.sumS + absR S + absR d, sumP := acc.sumP + absR sv + absR c }
            let acc'' := checkResult acc' A (testEdge acc.st A sv l2 S reverse sign (c, d)) r "TestEdge"
            walk { acc'' with sumS := acc.sumS, sumP := acc.sumP } A ops rs
          | _, _, _, _ => { acc with bad := some "skip:nonfinite kernel" })
       | _, _, _, _ => { acc with bad := some "parse TE" })
    | _, _ => { acc with bad := some s!"malformed history at {op}" }

def handle (op : String) (args res : List String) : Option Verdict :=
  match op with
  | "poly" => some <|
    match args, res with
    | _backend :: _a :: _f :: pl :: ops, a0 :: rs =>
      (match pb pl, (a0.splitOn ":") with
       | some polyline, ["A0", ah] =>
         (match ratOf ah with
          | some A =>
            let acc := walk { st := init polyline } A ops rs
            (match acc.bad with
             | none => .ok
             | some e => if e.startsWith "skip:" then .skip e else .bad s!"PolygonArea bookkeeping: {e}")
          | none => .bad "parse A0")
       | _, _ => .bad "parse")
    | _, _ => .bad "parse"
  | "transit" => some <|
    match parseFs args, res with
    | some [l1, l2], [t, td] =>
      if parseI t == some (transit l1 l2) && parseI td == some (transitdirect l1 l2) then .ok
      else .bad s!"transit/transitdirect: impl=({t},{td}) model=({transit l1 l2},{transitdirect l1 l2})"
    | _, _ => .bad "parse"
  | "polymeta" => some (.skip "metamorphic laws are judged by the harness on the implementation")
  | _ => none

end GeoVerif.Corr.C08
