import GeoVerif.Corr.Proto
import GeoVerif.Model.Clenshaw
import GeoVerif.Model.GeodLengths
import GeoVerif.Model.GeodLine
import GeoVerif.Model.GeodLineExact
import GeoVerif.Model.MathF
import GeoVerif.FP.RunErr
/-! Correspondence for C01: documented output ranges, decided on every sampled result; the series solver itself
(`Geodesic` constants, `GeodesicLine::LineInit`, `GeodesicLine::GenPosition`) against `Model/GeodLine.lean` -/
namespace GeoVerif.Corr.C01
open GeoVerif GeoVerif.Proto

/-! ### the series solver against its model

The model is evaluated once, in the running-error arithmetic `RE` (`FP/RunErr.lean`): the value component is the
binary64 evaluation of the model (same operations, same order, same libm as the implementation), the error component
is the first-order bound of the rounding error of *that evaluation* on *these inputs*.  A member / output of the
implementation agrees with the model when it differs by at most `K·e`, `K = 4`: both are evaluations of the same real
expression (factor 2), and an equivalent re-association or a differently rounded `hypot` changes the bound by a modest
factor (factor 2).  Pass-through values have `e = 0` and must be equal.  Angles that are directions (`azi2`, the
normalised `lon2`) are compared modulo 360°. -/

def pfl (s : String) : Option Float := if s.length != 16 then none else (hexToNat s).map fun n => Float.ofBits n.toUInt64

def safety : Float := 4

/-- `none` = agrees; `some msg` = differs by more than `K·e` -/
def cmp (name : String) (ang : Bool) (impl : Float) (m : RE) : Option String :=
  let d := Float.abs (impl - m.v)
  let d := if ang && d > 180 then Float.abs (360 - d) else d
  if (impl.isNaN && m.v.isNaN) || impl == m.v || d ≤ safety * m.e || (m.e.isNaN && !m.v.isNaN && !impl.isNaN) then none
  else some s!"{name}: impl={impl} model={m.v} diff={d} bound={m.e}"

def cmpAll (xs : List (String × Float × RE)) : List String := xs.filterMap fun (n, i, m) => cmp n false i m

def takeN (n : Nat) (l : List Float) : Option (List Float × List Float) := if l.length < n then none else some (l.take n, l.drop n)

open GeodLine GeodLengths in
/-- the members of a `GeodesicLine` as emitted by `gline::members` -/
def lineOf (l : List Float) : Option (Line RE × List Float) := do
  let (h, r) ← takeN 26 l
  let (c1, r) ← takeN nN r
  let (c1p, r) ← takeN nN r
  let (c2, r) ← takeN nN r
  let (c3, r) ← takeN (nN - 1) r
  let (c4, r) ← takeN nN r
  let g (i : Nat) := RE.exact (h.getD i 0)
  let ex (l : List Float) := l.map RE.exact
  some (⟨g 0, g 1, g 2, g 3, g 4, g 5, g 6, g 7, g 8, g 9, g 10, g 11, g 12, g 13, g 14, g 15, g 16, g 17, g 18, g 19, g 20, g 21, g 22,
         g 23, g 24, g 25, ex c1, ex c1p, ex c2, ex c3, ex c4⟩, r)

open GeodLine in
def lineFields (L : Line RE) : List (String × RE) :=
  let arr (n : String) (l : List RE) := (List.range l.length).map fun i => (s!"{n}[{i}]", l.getD i (RE.exact 0))
  [("_f", L.f), ("_f1", L.f1), ("_b", L.b), ("_c2", L.c2), ("tiny_", L.tiny), ("_lon1", L.lon1), ("_salp1", L.salp1), ("_calp1", L.calp1),
   ("_dn1", L.dn1), ("_salp0", L.salp0), ("_calp0", L.calp0), ("_ssig1", L.ssig1), ("_csig1", L.csig1), ("_somg1", L.somg1),
   ("_comg1", L.comg1), ("_k2", L.k2), ("_A1m1", L.A1m1), ("_B11", L.B11), ("_stau1", L.stau1), ("_ctau1", L.ctau1),
   ("_A2m1", L.A2m1), ("_B21", L.B21), ("_A3c", L.A3c), ("_B31", L.B31), ("_A4", L.A4), ("_B41", L.B41)]
  ++ arr "_C1a" L.C1a ++ arr "_C1pa" L.C1pa ++ arr "_C2a" L.C2a ++ arr "_C3a" L.C3a ++ arr "_C4a" L.C4a

def verdictOf (what : String) (bads : List String) : Verdict :=
  if bads.isEmpty then .ok else .bad s!"{what} differs from Model/GeodLine: {bads}"

open GeodLine in
def handleLine (op : String) (args res : List String) : Option Verdict :=
  match op with
  | "geodconst" => some <|
    if res == ["!E"] then .skip "constructor rejects the ellipsoid" else
    match args.mapM pfl, res.mapM pfl with
    | some [a, f], some (tiny :: eps0 :: impl) =>
      let g := geodesic (RE.exact a) (RE.exact f) (RE.exact tiny) (RE.exact eps0)
      let m := [("_f1", g.f1), ("_e2", g.e2), ("_ep2", g.ep2), ("_n", g.n), ("_b", g.b), ("_c2", g.c2), ("_etol2", g.etol2)]
        ++ (g.A3x.map fun x => ("_aA3x", x)) ++ (g.C3x.map fun x => ("_cC3x", x)) ++ (g.C4x.map fun x => ("_cC4x", x))
      if m.length != impl.length then .bad s!"Geodesic constants: {impl.length} values emitted, the model has {m.length}"
      else verdictOf "Geodesic::Geodesic" (cmpAll ((m.zip impl).map fun ((n, r), i) => (n, i, r)))
    | _, _ => .bad "parse"
  | "lineinit" => some <|
    match args.mapM pfl, res.mapM pfl with
    | some [a, f, _lat1, lon1, _azi1], some (tiny :: eps0 :: sb :: cb :: sa :: ca :: impl) =>
      let g := geodesic (RE.exact a) (RE.exact f) (RE.exact tiny) (RE.exact eps0)
      let (L, _) := lineInit g (RE.exact lon1) (RE.exact sb) (RE.exact cb) (RE.exact sa) (RE.exact ca)
      let m := lineFields L
      if m.length != impl.length then .bad s!"LineInit: {impl.length} members emitted, the model has {m.length}"
      else verdictOf "GeodesicLine::LineInit" (cmpAll ((m.zip impl).map fun ((n, r), i) => (n, i, r)))
    | _, _ => .bad "parse"
  | "genpos" => some <|
    match args.take 5 |>.mapM pfl, args.drop 5, res.mapM pfl with
    | some [_a, _f, _lat1, lon1, _azi1], [arc, lenS, un], some impl =>
      match lineOf impl, pfl lenS with
      | some (L, [sk, ck, a12, lat2, lon2, azi2, s12, m12, M12, M21, S12]), some len =>
        let arcmode := arc == "1"
        let unroll := un == "1"
        let p := genPosition L arcmode (RE.exact len) (RE.exact sk) (RE.exact ck) unroll
        -- without LONG_UNROLL: AngNormalize(AngNormalize(lon1) + AngNormalize(lon12)), exact reductions (model of C16) and one rounding
        let lonM : RE :=
          if unroll then p.lon2u else
            let x := F64.toFloat (MathF.angNormalize (MathF.angNormalize (F64.ofFloat lon1) + MathF.angNormalize (F64.ofFloat p.lon12.v)))
            ⟨x, p.lon12.e + RE.u * x.abs⟩
        let bads := [cmp "a12" false a12 p.a12, cmp "lat2" false lat2 p.lat2, cmp "lon2" (!unroll) lon2 lonM, cmp "azi2" true azi2 p.azi2,
                     cmp "s12" false s12 p.s12, cmp "m12" false m12 p.m12, cmp "M12" false M12 p.M12, cmp "M21" false M21 p.M21,
                     cmp "S12" false S12 p.S12].filterMap id
        verdictOf "GeodesicLine::GenPosition" bads
      | _, _ => .bad "parse"
    | _, _, _ => .bad "parse"
  | _ => none


/-! ### the elliptic-integral line against its kernel-parametric model (`Model/GeodLineExact.lean`)

Same reading as above.  The kernels (`EllipticFunction` members, the DST coefficients) are filled with the values the
harness obtained from an `EllipticFunction` object it constructed itself with the documented parameters, at the documented
arguments.  As a function of running-error numbers a kernel returns that value with the error bound
`2·Lip·(e_sn + e_cn + e_dn) + u·|v|`, `Lip` a bound of the derivative of the kernel along the auxiliary sphere
(`deltaE`: `1 + dn/E0`; `deltaD`: `1 + 1/(dn D0)`; `deltaH`: `1 + max(1, f1²)/(dn H0)`; `deltaEinv`: `1 + E0/min(1, √kp2)`): the
model's arguments and the implementation's arguments are both within their running-error bound of the exact ones.
The model's own arguments are compared with the arguments the harness used. -/

open GeodLineX in
def lineXOf (l : List Float) : Option (LineX RE × List Float) := do
  let (h, r) ← takeN 28 l
  let g (i : Nat) := RE.exact (h.getD i 0)
  some (⟨g 0, g 1, g 2, g 3, g 4, g 5, g 6, g 7, g 8, g 9, g 10, g 11, g 12, g 13, g 14, g 15, g 16, g 17, g 18, g 19, g 20, g 21, g 22,
         g 23, g 24, g 25, g 26, g 27⟩, r)

open GeodLineX in
def lineXFields (L : LineX RE) : List (String × RE) :=
  [("_f", L.f), ("_f1", L.f1), ("_e2", L.e2), ("_b", L.b), ("_c2", L.c2), ("tiny_", L.tiny), ("_lon1", L.lon1), ("_salp1", L.salp1), ("_calp1", L.calp1),
   ("_dn1", L.dn1), ("_salp0", L.salp0), ("_calp0", L.calp0), ("_ssig1", L.ssig1), ("_csig1", L.csig1), ("_somg1", L.somg1),
   ("_cchi1", L.cchi1), ("_k2", L.k2), ("_eE.kp2", L.kp2), ("_eE0", L.E0), ("_eE1", L.E1), ("_stau1", L.stau1), ("_ctau1", L.ctau1),
   ("_dD0", L.D0), ("_dD1", L.D1), ("_hH0", L.H0), ("_hH1", L.H1), ("_aA4", L.A4), ("_bB41", L.B41)]

/-- a kernel value obtained from the implementation, as a function of running-error arguments -/
def kval (v lip : Float) (args : List RE) : RE := ⟨v, 2 * lip * (args.foldl (fun s a => s + a.e) 0) + RE.u * v.abs⟩

/-- the coefficient list written by `xline::c4list`: `n c[0] … c[n-1]`, or `-1` when it is too long to be written -/
def takeC4 (l : List String) : Option (Option (List Float) × List String) :=
  match l with
  | "-1" :: r => some (none, r)
  | n :: r => do
    let k ← n.toNat?
    if r.length < k then none else
    let c ← (r.take k).mapM pfl
    some (some c, r.drop k)
  | [] => none

open GeodLineX in
def handleLineX (op : String) (args res : List String) : Option Verdict :=
  match op with
  | "xgeodconst" => some <|
    if res == ["!E"] then .skip "constructor rejects the ellipsoid" else
    match args.mapM pfl, res.mapM pfl with
    | some [a, f], some (tiny :: eps0 :: impl) =>
      let g := geodesicX (RE.exact a) (RE.exact f) (RE.exact tiny) (RE.exact eps0)
      let m := [("_f1", g.f1), ("_e2", g.e2), ("_ep2", g.ep2), ("_n", g.n), ("_b", g.b), ("_c2", g.c2), ("_etol2", g.etol2)]
      if m.length != impl.length then .bad s!"GeodesicExact constants: {impl.length} values emitted, the model has {m.length}"
      else verdictOf "GeodesicExact::GeodesicExact" (cmpAll ((m.zip impl).map fun ((n, r), i) => (n, i, r)))
    | _, _ => .bad "parse"
  | "xlineinit" => some <|
    match args.mapM pfl, (res.take 18).mapM pfl, takeC4 (res.drop 18) with
    | some [_a, _f, _lat1, lon1, _azi1], some [ga, gf, gf1, ge2, gep2, gb, gc2, tiny, sb, cb, sa, ca, ec, dc, hc, dE1, dD1, dH1], some (c4, rest) =>
      match rest.mapM pfl with
      | some impl =>
        let x := RE.exact
        let g : GeodX RE := ⟨x ga, x gf, x gf1, x ge2, x gep2, x 0, x gb, x gc2, x 0, x tiny⟩
        let e0 := ec / 1.5707963267948966
        let d0 := dc / 1.5707963267948966
        let h0 := hc / 1.5707963267948966
        let K : Ell RE :=
          { Ec := x ec, Dc := x dc, Hc := x hc,
            deltaE := fun sn cn dn => kval dE1 (1 + dn.v.abs / e0) [sn, cn, dn],
            deltaD := fun sn cn dn => kval dD1 (1 + 1 / (dn.v.abs * d0)) [sn, cn, dn],
            deltaH := fun sn cn dn => kval dH1 (1 + (if gf1 * gf1 > 1 then gf1 * gf1 else 1) / (dn.v.abs * h0)) [sn, cn, dn],
            deltaEinv := fun _ _ => x 0,
            C4a := (c4.getD []).map x }
        let (L, _) := lineInitX g K (x lon1) (x sb) (x cb) (x sa) (x ca)
        let m := lineXFields L
        let m := if c4.isNone then m.filter (fun p => p.1 != "_bB41") else m
        let impl' := if c4.isNone then (impl.take 27) else impl
        if m.length != impl'.length then .bad s!"LineInit (exact): {impl'.length} members emitted, the model has {m.length}"
        else verdictOf "GeodesicLineExact::LineInit" (cmpAll ((m.zip impl').map fun ((n, r), i) => (n, i, r)))
      | none => .bad "parse"
    | _, _, _ => .bad "parse"
  | "xgenpos" => some <|
    match args.take 5 |>.mapM pfl, args.drop 5, (res.take 40).mapM pfl, takeC4 (res.drop 40) with
    | some [_a, _f, _lat1, lon1, _azi1], [arc, lenS, un], some hd, some (c4, rest) =>
      match lineXOf hd, rest.mapM pfl, pfl lenS with
      | some (L, [sk, ck, stau2, ctau2, dEinv, ssig2, csig2a, csig2b, dn2, dE2, dD2, dH2]), some [a12, lat2, lon2, azi2, s12, m12, M12, M21, S12], some len =>
        let x := RE.exact
        let arcmode := arc == "1"
        let unroll := un == "1"
        let f1 := L.f1.v
        let dnmin := let k := Float.sqrt L.kp2.v; if k < 1 then k else 1
        let K : Ell RE :=
          { Ec := x 0, Dc := x 0, Hc := x 0,
            deltaE := fun sn cn dn => kval dE2 (1 + dn.v.abs / L.E0.v) [sn, cn, dn],
            deltaD := fun sn cn dn => kval dD2 (1 + 1 / (dn.v.abs * L.D0.v)) [sn, cn, dn],
            deltaH := fun sn cn dn => kval dH2 (1 + (if f1 * f1 > 1 then f1 * f1 else 1) / (dn.v.abs * L.H0.v)) [sn, cn, dn],
            deltaEinv := fun st ct => kval dEinv (1 + L.E0.v / dnmin) [st, ct],
            C4a := (c4.getD []).map x }
        let p := genPositionX L K arcmode (x len) (x sk) (x ck) unroll
        -- the arguments at which the kernels were evaluated
        let tau12 : RE := x len / (L.b * L.E0)
        let c := RealLike.cos tau12
        let s := RealLike.sin tau12
        let argsB := if arcmode then [] else [cmp "stau2 (kernel argument)" false stau2 (L.stau1 * c + L.ctau1 * s), cmp "ctau2 (kernel argument)" false ctau2 (L.ctau1 * c - L.stau1 * s)]
        let csig2pre : RE := L.csig1 * p.csig12 - L.ssig1 * p.ssig12
        let argsB := argsB ++ [cmp "ssig2 (kernel argument)" false ssig2 p.ssig2, cmp "csig2 (kernel argument)" false csig2a csig2pre,
                               cmp "csig2 (kernel argument, after the degenerate case)" false csig2b p.csig2, cmp "dn2 (kernel argument)" false dn2 p.dn2]
        let lonM : RE :=
          if unroll then p.lon2u else
            let y := F64.toFloat (MathF.angNormalize (MathF.angNormalize (F64.ofFloat lon1) + MathF.angNormalize (F64.ofFloat p.lon12.v)))
            ⟨y, p.lon12.e + RE.u * y.abs⟩
        let outs := [cmp "a12" false a12 p.a12, cmp "lat2" false lat2 p.lat2, cmp "lon2" (!unroll) lon2 lonM, cmp "azi2" true azi2 p.azi2,
                     cmp "s12" false s12 p.s12, cmp "m12" false m12 p.m12, cmp "M12" false M12 p.M12, cmp "M21" false M21 p.M21]
        let outs := if c4.isSome then outs ++ [cmp "S12" false S12 p.S12] else outs
        verdictOf "GeodesicLineExact::GenPosition" ((argsB ++ outs).filterMap id)
      | _, _, _ => .bad "parse"
    | _, _, _, _ => .bad "parse"
  | "einv" => some <|
    if res == ["!E"] then .skip "constructor rejects k2" else
    match args.mapM pfl, res.mapM pfl with
    | some [_k2, xx], some [ec, phi, back] =>
      if !(xx.abs < 1e300) then .skip "non-finite argument" else
      let tol := 64 * 2.220446049250313e-16 * (xx.abs + ec)
      let lin := 3.14159265358979323846 * xx / (2 * ec)
      if !((back - xx).abs ≤ tol) then .bad s!"E(Einv(x)) = {back} but x = {xx} (tolerance {tol})"
      else if !((phi - lin).abs ≤ 1.5707963267948966 * (1 + 1e-15) + 4e-16 * lin.abs) then .bad s!"Einv({xx}) = {phi} is not in the period of pi x/(2E) = {lin}"
      else .ok
    | _, _ => .bad "parse"
  | "deltaeinv" => some <|
    if res == ["!E"] then .skip "constructor rejects k2" else
    match args.mapM pfl, res.mapM pfl with
    | some [_k2, sig], some [dn, dE, r, e0] =>
      -- tau = sig + dE carries (|sig| + |dE|) u; sigma(tau) has slope E0/dn
      let slope := if e0 / dn > 1 then e0 / dn else 1
      let tol := 64 * 2.220446049250313e-16 * (1 + sig.abs + dE.abs) * slope
      if (r + dE).abs ≤ tol then .ok else .bad s!"deltaEinv(sin tau, cos tau) = {r} but sigma - tau = {-dE} (tolerance {tol})"
    | _, _ => .bad "parse"
  | _ => none

def inRange (x : F64) (lo hi : Int) : Bool := x.isNaN || (F64.ge x (F64.ofInt lo) && F64.le x (F64.ofInt hi))

def handle (op : String) (args res : List String) : Option Verdict :=
  match handleLine op args res with
  | some v => some v
  | none =>
  match handleLineX op args res with
  | some v => some v
  | none =>
  match op with
  | "gdirect" => some <|
    match parseFs res with
    | some [glat, glon, gazi, elat, elon, eazi, _ugl, _uel, _ga12, _ea12] =>
      let inputsFinite := match parseFs (args.take 5 ++ (args.drop 6).take 1) with | some l => l.all F64.isFinite | none => false
      if !inputsFinite then .skip "non-finite input" else
      if !(inRange glat (-90) 90 && inRange elat (-90) 90) then .bad s!"lat2 outside [-90,90]: series {showF glat} exact {showF elat}"
      else if !(inRange gazi (-180) 180 && inRange eazi (-180) 180) then .bad s!"azi2 outside [-180,180]: series {showF gazi} exact {showF eazi}"
      else if !(inRange glon (-180) 180 && inRange elon (-180) 180) then .bad s!"lon2 outside [-180,180]: series {showF glon} exact {showF elon}"
      else .ok
    | _ => .bad "parse"
  | "sincosseries" => some <|
    -- the polymorphic Clenshaw model evaluated in native binary64 against `Geodesic::SinCosSeries`
    match args, res with
    | sp :: sx :: cx :: cs, [r] =>
      let pf (s : String) : Option Float := (hexToNat s).map fun n => Float.ofBits n.toUInt64
      (match pf sx, pf cx, cs.mapM pf, pf r with
       | some sinx, some cosx, some c, some impl =>
         let m := Clenshaw.sinCosSeries (sp == "1") sinx cosx c
         let scale := (c.map Float.abs).foldl (· + ·) 0
         if (m.isNaN && impl.isNaN) || Float.abs (m - impl) ≤ 8e-16 * scale then .ok
         else .bad s!"SinCosSeries: impl={impl} model={m}"
       | _, _, _, _ => .bad "parse")
    | _, _ => .bad "parse"
  | "lengths" => some <|
    -- `Geodesic::Lengths` (private) against the polymorphic model in binary64, coefficient tables from Gen
    let pf (s : String) : Option Float := (hexToNat s).map fun n => Float.ofBits n.toUInt64
    match args.dropLast.mapM pf, args.getLast?, res.mapM pf with
    | some [ep2, eps, sig12, ssig1, csig1, dn1, ssig2, csig2, dn2, cbet1, cbet2], some dist, some [s12b, m12b, m0, M12, M21] =>
      let o := GeodLengths.lengths ep2 eps sig12 ssig1 csig1 dn1 ssig2 csig2 dn2 cbet1 cbet2 (dist == "1")
      let cl (a b : Float) (sc : Float) : Bool := (a.isNaN && b.isNaN) || Float.abs (a - b) ≤ 1e-14 * sc
      let okS := dist != "1" || cl o.s12b s12b (1 + Float.abs sig12)
      if okS && cl o.m12b m12b (1 + Float.abs sig12) && cl o.m0 m0 1 && cl o.M12 M12 (1 + Float.abs sig12) && cl o.M21 M21 (1 + Float.abs sig12) then .ok
      else .bad s!"Geodesic::Lengths: impl=({s12b},{m12b},{m0},{M12},{M21}) model=({o.s12b},{o.m12b},{o.m0},{o.M12},{o.M21})"
    | _, _, _ => .bad "parse"
  | "gsolvei" => some <|
    match res with
    | ["0", "12"] => .ok
    | _ => .bad s!"GeodSolve -i: exit status / number of output fields = {res} (expected 0 and 12)"
  | "gsolve" => some <|
    -- tools/GeodSolve run in-process by the harness: one output line with the twelve fields of `-f`; the values are compared with the library call by the harness
    match res with
    | ["0", "12"] => .ok
    | _ => .bad s!"GeodSolve: exit status / number of output fields = {res} (expected 0 and 12)"
  | "glengths" => some (.skip "m12/M12/M21/S12 are judged against the quadrature oracle by the harness")
  | "ginvlengths" => some (.skip "reversal, addition rules and interface agreement are judged by the harness")
  | _ => none

end GeoVerif.Corr.C01
