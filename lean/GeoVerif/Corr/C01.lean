import GeoVerif.Corr.Proto
import GeoVerif.Model.Clenshaw
import GeoVerif.Model.GeodLengths
/-! Correspondence for C01: documented output ranges, decided on every sampled result -/
namespace GeoVerif.Corr.C01
open GeoVerif GeoVerif.Proto

def inRange (x : F64) (lo hi : Int) : Bool := x.isNaN || (F64.ge x (F64.ofInt lo) && F64.le x (F64.ofInt hi))

def handle (op : String) (args res : List String) : Option Verdict :=
  match op with
  | "gdirect" => some <|
    match parseFs res with
    | some [glat, glon, gazi, elat, elon, eazi, _ugl, _uel, _ga12, _ea12] =>
      let inputsFinite := match parseFs (args.take 5 ++ args.drop 6) with | some l => l.all F64.isFinite | none => false
      if !inputsFinite then .skip "non-finite input" else
      if !(inRange glat (-90) 90 && inRange elat (-90) 90) then .bad s!"lat2 outside [-90,90]: series {showF glat} exact {showF elat}"
      else if !(inRange gazi (-180) 180 && inRange eazi (-180) 180) then .bad s!"azi2 outside [-180,180]: series {showF gazi} exact {showF eazi}"
      else if !(inRange glon (-180) 180 && inRange elon (-180) 180) then .bad s!"lon2 outside [-180,180]: series {showF glon} exact {showF elon}"
      else .ok
    | _ => .bad "parse"
  | "sincosseries" => some <|
    -- the polymorphic Clenshaw model evaluated in native binary64 against `Geodesic::SinCosSeries`
    match args, res with
    | sp :: sx :: cx :: cs, [r] =>
      let pf (s : String) : Option Float := (hexToNat s).map fun n => Float.ofBits n.toUInt64
      (match pf sx, pf cx, cs.mapM pf, pf r with
       | some sinx, some cosx, some c, some impl =>
         let m := Clenshaw.sinCosSeries (sp == "1") sinx cosx c
         let scale := (c.map Float.abs).foldl (· + ·) 0
         if (m.isNaN && impl.isNaN) || Float.abs (m - impl) ≤ 8e-16 * scale then .ok
         else .bad s!"SinCosSeries: impl={impl} model={m}"
       | _, _, _, _ => .bad "parse")
    | _, _ => .bad "parse"
  | "lengths" => some <|
    -- `Geodesic::Lengths` (private) against the polymorphic model in binary64, coefficient tables from Gen
    let pf (s : String) : Option Float := (hexToNat s).map fun n => Float.ofBits n.toUInt64
    match args.dropLast.mapM pf, args.getLast?, res.mapM pf with
    | some [ep2, eps, sig12, ssig1, csig1, dn1, ssig2, csig2, dn2, cbet1, cbet2], some dist, some [s12b, m12b, m0, M12, M21] =>
      let o := GeodLengths.lengths ep2 eps sig12 ssig1 csig1 dn1 ssig2 csig2 dn2 cbet1 cbet2 (dist == "1")
      let cl (a b : Float) (sc : Float) : Bool := (a.isNaN && b.isNaN) || Float.abs (a - b) ≤ 1e-14 * sc
      let okS := dist != "1" || cl o.s12b s12b (1 + Float.abs sig12)
      if okS && cl o.m12b m12b (1 + Float.abs sig12) && cl o.m0 m0 1 && cl o.M12 M12 (1 + Float.abs sig12) && cl o.M21 M21 (1 + Float.abs sig12) then .ok
      else .bad s!"Geodesic::Lengths: impl=({s12b},{m12b},{m0},{M12},{M21}) model=({o.s12b},{o.m12b},{o.m0},{o.M12},{o.M21})"
    | _, _, _ => .bad "parse"
  | "glengths" => some (.skip "m12/M12/M21/S12 are judged against the quadrature oracle by the harness")
  | "ginvlengths" => some (.skip "reversal, addition rules and interface agreement are judged by the harness")
  | _ => none

end GeoVerif.Corr.C01
