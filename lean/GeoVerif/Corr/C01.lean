import GeoVerif.Corr.Proto
import GeoVerif.Model.Clenshaw
import GeoVerif.Model.GeodLengths
import GeoVerif.Model.GeodLine
import GeoVerif.Model.MathF
import GeoVerif.FP.RunErr
/-! Correspondence for C01: documented output ranges, decided on every sampled result; the series solver itself
(`Geodesic` constants, `GeodesicLine::LineInit`, `GeodesicLine::GenPosition`) against `Model/GeodLine.lean` -/
namespace GeoVerif.Corr.C01
open GeoVerif GeoVerif.Proto

/-! ### the series solver against its model

The model is evaluated once, in the running-error arithmetic `RE` (`FP/RunErr.lean`): the value component is the
binary64 evaluation of the model (same operations, same order, same libm as the implementation), the error component
is the first-order bound of the rounding error of *that evaluation* on *these inputs*.  A member / output of the
implementation agrees with the model when it differs by at most `K·e`, `K = 4`: both are evaluations of the same real
expression (factor 2), and an equivalent re-association or a differently rounded `hypot` changes the bound by a modest
factor (factor 2).  Pass-through values have `e = 0` and must be equal.  Angles that are directions (`azi2`, the
normalised `lon2`) are compared modulo 360°. -/

def pfl (s : String) : Option Float := if s.length != 16 then none else (hexToNat s).map fun n => Float.ofBits n.toUInt64

def safety : Float := 4

/-- `none` = agrees; `some msg` = differs by more than `K·e` -/
def cmp (name : String) (ang : Bool) (impl : Float) (m : RE) : Option String :=
  let d := Float.abs (impl - m.v)
  let d := if ang && d > 180 then Float.abs (360 - d) else d
  if (impl.isNaN && m.v.isNaN) || impl == m.v || d ≤ safety * m.e || (m.e.isNaN && !m.v.isNaN && !impl.isNaN) then none
  else some s!"{name}: impl={impl} model={m.v} diff={d} bound={m.e}"

def cmpAll (xs : List (String × Float × RE)) : List String := xs.filterMap fun (n, i, m) => cmp n false i m

def takeN (n : Nat) (l : List Float) : Option (List Float × List Float) := if l.length < n then none else some (l.take n, l.drop n)

open GeodLine GeodLengths in
/-- the members of a `GeodesicLine` as emitted by `gline::members` -/
def lineOf (l : List Float) : Option (Line RE × List Float) := do
  let (h, r) ← takeN 26 l
  let (c1, r) ← takeN nN r
  let (c1p, r) ← takeN nN r
  let (c2, r) ← takeN nN r
  let (c3, r) ← takeN (nN - 1) r
  let (c4, r) ← takeN nN r
  let g (i : Nat) := RE.exact (h.getD i 0)
  let ex (l : List Float) := l.map RE.exact
  some (⟨g 0, g 1, g 2, g 3, g 4, g 5, g 6, g 7, g 8, g 9, g 10, g 11, g 12, g 13, g 14, g 15, g 16, g 17, g 18, g 19, g 20, g 21, g 22,
         g 23, g 24, g 25, ex c1, ex c1p, ex c2, ex c3, ex c4⟩, r)

open GeodLine in
def lineFields (L : Line RE) : List (String × RE) :=
  let arr (n : String) (l : List RE) := (List.range l.length).map fun i => (s!"{n}[{i}]", l.getD i (RE.exact 0))
  [("_f", L.f), ("_f1", L.f1), ("_b", L.b), ("_c2", L.c2), ("tiny_", L.tiny), ("_lon1", L.lon1), ("_salp1", L.salp1), ("_calp1", L.calp1),
   ("_dn1", L.dn1), ("_salp0", L.salp0), ("_calp0", L.calp0), ("_ssig1", L.ssig1), ("_csig1", L.csig1), ("_somg1", L.somg1),
   ("_comg1", L.comg1), ("_k2", L.k2), ("_A1m1", L.A1m1), ("_B11", L.B11), ("_stau1", L.stau1), ("_ctau1", L.ctau1),
   ("_A2m1", L.A2m1), ("_B21", L.B21), ("_A3c", L.A3c), ("_B31", L.B31), ("_A4", L.A4), ("_B41", L.B41)]
  ++ arr "_C1a" L.C1a ++ arr "_C1pa" L.C1pa ++ arr "_C2a" L.C2a ++ arr "_C3a" L.C3a ++ arr "_C4a" L.C4a

def verdictOf (what : String) (bads : List String) : Verdict :=
  if bads.isEmpty then .ok else .bad s!"{what} differs from Model/GeodLine: {bads}"

open GeodLine in
def handleLine (op : String) (args res : List String) : Option Verdict :=
  match op with
  | "geodconst" => some <|
    if res == ["!E"] then .skip "constructor rejects the ellipsoid" else
    match args.mapM pfl, res.mapM pfl with
    | some [a, f], some (tiny :: eps0 :: impl) =>
      let g := geodesic (RE.exact a) (RE.exact f) (RE.exact tiny) (RE.exact eps0)
      let m := [("_f1", g.f1), ("_e2", g.e2), ("_ep2", g.ep2), ("_n", g.n), ("_b", g.b), ("_c2", g.c2), ("_etol2", g.etol2)]
        ++ (g.A3x.map fun x => ("_aA3x", x)) ++ (g.C3x.map fun x => ("_cC3x", x)) ++ (g.C4x.map fun x => ("_cC4x", x))
      if m.length != impl.length then .bad s!"Geodesic constants: {impl.length} values emitted, the model has {m.length}"
      else verdictOf "Geodesic::Geodesic" (cmpAll ((m.zip impl).map fun ((n, r), i) => (n, i, r)))
    | _, _ => .bad "parse"
  | "lineinit" => some <|
    match args.mapM pfl, res.mapM pfl with
    | some [a, f, _lat1, lon1, _azi1], some (tiny :: eps0 :: sb :: cb :: sa :: ca :: impl) =>
      let g := geodesic (RE.exact a) (RE.exact f) (RE.exact tiny) (RE.exact eps0)
      let (L, _) := lineInit g (RE.exact lon1) (RE.exact sb) (RE.exact cb) (RE.exact sa) (RE.exact ca)
      let m := lineFields L
      if m.length != impl.length then .bad s!"LineInit: {impl.length} members emitted, the model has {m.length}"
      else verdictOf "GeodesicLine::LineInit" (cmpAll ((m.zip impl).map fun ((n, r), i) => (n, i, r)))
    | _, _ => .bad "parse"
  | "genpos" => some <|
    match args.take 5 |>.mapM pfl, args.drop 5, res.mapM pfl with
    | some [_a, _f, _lat1, lon1, _azi1], [arc, lenS, un], some impl =>
      match lineOf impl, pfl lenS with
      | some (L, [sk, ck, a12, lat2, lon2, azi2, s12, m12, M12, M21, S12]), some len =>
        let arcmode := arc == "1"
        let unroll := un == "1"
        let p := genPosition L arcmode (RE.exact len) (RE.exact sk) (RE.exact ck) unroll
        -- without LONG_UNROLL: AngNormalize(AngNormalize(lon1) + AngNormalize(lon12)), exact reductions (model of C16) and one rounding
        let lonM : RE :=
          if unroll then p.lon2u else
            let x := F64.toFloat (MathF.angNormalize (MathF.angNormalize (F64.ofFloat lon1) + MathF.angNormalize (F64.ofFloat p.lon12.v)))
            ⟨x, p.lon12.e + RE.u * x.abs⟩
        let bads := [cmp "a12" false a12 p.a12, cmp "lat2" false lat2 p.lat2, cmp "lon2" (!unroll) lon2 lonM, cmp "azi2" true azi2 p.azi2,
                     cmp "s12" false s12 p.s12, cmp "m12" false m12 p.m12, cmp "M12" false M12 p.M12, cmp "M21" false M21 p.M21,
                     cmp "S12" false S12 p.S12].filterMap id
        verdictOf "GeodesicLine::GenPosition" bads
      | _, _ => .bad "parse"
    | _, _, _ => .bad "parse"
  | _ => none

def inRange (x : F64) (lo hi : Int) : Bool := x.isNaN || (F64.ge x (F64.ofInt lo) && F64.le x (F64.ofInt hi))

def handle (op : String) (args res : List String) : Option Verdict :=
  match handleLine op args res with
  | some v => some v
  | none =>
  match op with
  | "gdirect" => some <|
    match parseFs res with
    | some [glat, glon, gazi, elat, elon, eazi, _ugl, _uel, _ga12, _ea12] =>
      let inputsFinite := match parseFs (args.take 5 ++ args.drop 6) with | some l => l.all F64.isFinite | none => false
      if !inputsFinite then .skip "non-finite input" else
      if !(inRange glat (-90) 90 && inRange elat (-90) 90) then .bad s!"lat2 outside [-90,90]: series {showF glat} exact {showF elat}"
      else if !(inRange gazi (-180) 180 && inRange eazi (-180) 180) then .bad s!"azi2 outside [-180,180]: series {showF gazi} exact {showF eazi}"
      else if !(inRange glon (-180) 180 && inRange elon (-180) 180) then .bad s!"lon2 outside [-180,180]: series {showF glon} exact {showF elon}"
      else .ok
    | _ => .bad "parse"
  | "sincosseries" => some <|
    -- the polymorphic Clenshaw model evaluated in native binary64 against `Geodesic::SinCosSeries`
    match args, res with
    | sp :: sx :: cx :: cs, [r] =>
      let pf (s : String) : Option Float := (hexToNat s).map fun n => Float.ofBits n.toUInt64
      (match pf sx, pf cx, cs.mapM pf, pf r with
       | some sinx, some cosx, some c, some impl =>
         let m := Clenshaw.sinCosSeries (sp == "1") sinx cosx c
         let scale := (c.map Float.abs).foldl (· + ·) 0
         if (m.isNaN && impl.isNaN) || Float.abs (m - impl) ≤ 8e-16 * scale then .ok
         else .bad s!"SinCosSeries: impl={impl} model={m}"
       | _, _, _, _ => .bad "parse")
    | _, _ => .bad "parse"
  | "lengths" => some <|
    -- `Geodesic::Lengths` (private) against the polymorphic model in binary64, coefficient tables from Gen
    let pf (s : String) : Option Float := (hexToNat s).map fun n => Float.ofBits n.toUInt64
    match args.dropLast.mapM pf, args.getLast?, res.mapM pf with
    | some [ep2, eps, sig12, ssig1, csig1, dn1, ssig2, csig2, dn2, cbet1, cbet2], some dist, some [s12b, m12b, m0, M12, M21] =>
      let o := GeodLengths.lengths ep2 eps sig12 ssig1 csig1 dn1 ssig2 csig2 dn2 cbet1 cbet2 (dist == "1")
      let cl (a b : Float) (sc : Float) : Bool := (a.isNaN && b.isNaN) || Float.abs (a - b) ≤ 1e-14 * sc
      let okS := dist != "1" || cl o.s12b s12b (1 + Float.abs sig12)
      if okS && cl o.m12b m12b (1 + Float.abs sig12) && cl o.m0 m0 1 && cl o.M12 M12 (1 + Float.abs sig12) && cl o.M21 M21 (1 + Float.abs sig12) then .ok
      else .bad s!"Geodesic::Lengths: impl=({s12b},{m12b},{m0},{M12},{M21}) model=({o.s12b},{o.m12b},{o.m0},{o.M12},{o.M21})"
    | _, _, _ => .bad "parse"
  | "glengths" => some (.skip "m12/M12/M21/S12 are judged against the quadrature oracle by the harness")
  | "ginvlengths" => some (.skip "reversal, addition rules and interface agreement are judged by the harness")
  | _ => none

end GeoVerif.Corr.C01
