import GeoVerif.Series.Poly
/-!
# Truncated bivariate power series and trigonometric polynomials over them (core Lean only, kernel-evaluable)

* `Ops C` — the ring operations of a coefficient ring, passed explicitly (no type classes, so that the kernel
  only ever unfolds plain definitions).  Two instances: `Ops.poly M` (ℚ[x]/x^M on `Poly`) and `Ops.poly2 M`
  (ℚ[n, ε] modulo total degree ≥ M on `Poly2`).  Zero is represented canonically by `[]`, and every product
  with a zero factor is skipped, so sparse data cost nothing.
* `Trig C` — a trigonometric polynomial `Σ_m c[m] cos mφ + Σ_m s[m] sin mφ` in an unspecified angle `φ`
  with coefficients in `C`.  Sum, product (product-to-sum formulas, **no truncation of harmonics**: the
  arithmetic is exact in `C[cos φ, sin φ]`), derivative `d/dφ`, and the Taylor shift
  `f(φ + δ) = Σ_k δ^k/k! · f^{(k)}(φ)`.
-/
namespace GeoVerif.Series

namespace Poly

def isZero (p : Poly) : Bool := p.all (· == 0)

/-- canonical form: the zero polynomial is `[]` -/
def norm (p : Poly) : Poly := if isZero p then [] else p

/-- sum, no truncation -/
def addZ : Poly → Poly → Poly
  | [], q => q
  | p, [] => p
  | a :: p, b :: q => (a + b) :: addZ p q

/-- number of leading zero coefficients (the `x`-adic valuation, or the length for the zero polynomial) -/
def lead (p : Poly) : Nat := (p.takeWhile (· == 0)).length

def padTo (M : Nat) (p : Poly) : Poly := p ++ List.replicate (M - p.length) 0

/-- product modulo `x^N`; the powers of `x` dividing the factors are split off first, so that only
    coefficients that can be non-zero are computed; `[]` when the product vanishes modulo `x^N` -/
def mulZ (N : Nat) (p q : Poly) : Poly :=
  let vp := lead p
  let vq := lead q
  if vp ≥ p.length || vq ≥ q.length || vp + vq ≥ N then [] else
  let M := min (N - (vp + vq)) ((p.length - vp) + (q.length - vq) - 1)
  let p' := padTo M (p.drop vp)
  let q' := padTo M (q.drop vq)
  List.replicate (vp + vq) 0 ++
    (List.range M).map fun k => (List.zipWith (· * ·) (p'.take (k + 1)) (q'.take (k + 1)).reverse).sum

def smulZ (c : Rat) (p : Poly) : Poly := if c == 0 then [] else p.map (c * ·)

/-- derivative -/
def deriv (p : Poly) : Poly := (List.range (p.length - 1)).map fun (i : Nat) => ((i : Rat) + 1) * p.coeff (i + 1)

end Poly

/-- ring operations on a coefficient type -/
structure Ops (C : Type) where
  zero : C
  one : C
  add : C → C → C
  mul : C → C → C
  smul : Rat → C → C
  isZero : C → Bool

/-- `ℚ[x]/x^M` -/
def Ops.poly (M : Nat) : Ops Poly where
  zero := []
  one := [1]
  add := Poly.addZ
  mul := Poly.mulZ M
  smul := Poly.smulZ
  isZero := Poly.isZero

/-- bivariate series: index `j` holds the coefficient of `ε^j`, a polynomial in `n` -/
abbrev Poly2 := List Poly

namespace Poly2

def coeff (p : Poly2) (j : Nat) : Poly := p.getD j []

def isZero (p : Poly2) : Bool := p.all Poly.isZero

def norm (p : Poly2) : Poly2 := if isZero p then [] else p

def addZ : Poly2 → Poly2 → Poly2
  | [], q => q
  | p, [] => p
  | a :: p, b :: q => Poly.addZ a b :: addZ p q

/-- number of leading zero coefficients (the `ε`-adic valuation) -/
def lead (p : Poly2) : Nat := (p.takeWhile Poly.isZero).length

def padTo (L : Nat) (p : Poly2) : Poly2 := p ++ List.replicate (L - p.length) []

/-- product modulo total degree `M` (monomials `n^i ε^j` with `i + j < M` are kept); the powers of `ε` dividing
    the factors are split off first -/
def mulZ (M : Nat) (p q : Poly2) : Poly2 :=
  let vp := lead p
  let vq := lead q
  if vp ≥ p.length || vq ≥ q.length || vp + vq ≥ M then [] else
  let v := vp + vq
  let L := min (M - v) ((p.length - vp) + (q.length - vq) - 1)
  let p' := padTo L (p.drop vp)
  let q' := padTo L (q.drop vq)
  norm (List.replicate v [] ++
    (List.range L).map fun k =>
      (List.zipWith (Poly.mulZ (M - v - k)) (p'.take (k + 1)) (q'.take (k + 1)).reverse).foldl Poly.addZ [])

def smulZ (c : Rat) (p : Poly2) : Poly2 := if c == 0 then [] else p.map (Poly.smulZ c)

/-- a series in `ε` alone -/
def ofEps (p : Poly) : Poly2 := p.map fun c => if c == 0 then [] else [c]

/-- a series in `n` alone -/
def ofN (p : Poly) : Poly2 := [p]

/-- cut to total degree `< M` -/
def trunc (M : Nat) (p : Poly2) : Poly2 := (List.range M).map fun j => (p.coeff j).take (M - j)

/-- `Σ_m t[m] · p^m` modulo total degree `M` (for `p` without constant term only the first `M` terms matter) -/
def compose (M : Nat) (t : Poly) (p : Poly2) : Poly2 :=
  ((List.range t.length).foldl (fun (acc : Poly2 × Poly2) m =>
    (addZ acc.1 (smulZ (t.coeff m) acc.2), mulZ M acc.2 p)) ([], [[1]])).1

end Poly2

/-- `ℚ[n, ε]` modulo total degree `≥ M` -/
def Ops.poly2 (M : Nat) : Ops Poly2 where
  zero := []
  one := [[1]]
  add := Poly2.addZ
  mul := Poly2.mulZ M
  smul := Poly2.smulZ
  isZero := Poly2.isZero

/-- `Σ_m c[m] cos mφ + Σ_m s[m] sin mφ` (`s[0]` is meaningless and kept zero) -/
structure Trig (C : Type) where
  c : List C
  s : List C

namespace Trig
variable {C : Type} (R : Ops C)

def sum (xs : List C) : C := xs.foldl R.add R.zero

def get (xs : List C) (m : Nat) : C := xs.getD m R.zero

/-- drop trailing zero coefficients -/
def strip (xs : List C) : List C := (xs.reverse.dropWhile R.isZero).reverse

def zipAdd : List C → List C → List C
  | [], q => q
  | p, [] => p
  | a :: p, b :: q => R.add a b :: zipAdd p q

/-- `Σ_{a+b=m} x_a y_b` -/
def conv (x y : List C) : List C :=
  if x.isEmpty || y.isEmpty then [] else
  (List.range (x.length + y.length - 1)).map fun m =>
    sum R ((List.range (m + 1)).map fun a => R.mul (get R x a) (get R y (m - a)))

/-- `Σ_{a−b=m} x_a y_b` for `m ≥ 0` -/
def corr (x y : List C) : List C :=
  if y.isEmpty then [] else
  (List.range x.length).map fun m =>
    sum R ((List.range y.length).map fun b => R.mul (get R x (b + m)) (get R y b))

/-- `Σ_{|a−b|=m} x_a y_b` -/
def corrSym (x y : List C) : List C :=
  zipAdd R (corr R x y) (match corr R y x with | [] => [] | _ :: t => R.zero :: t)

def negL (x : List C) : List C := x.map (R.smul (-1))

def const (a : C) : Trig C := ⟨[a], []⟩

def add (p q : Trig C) : Trig C := ⟨zipAdd R p.c q.c, zipAdd R p.s q.s⟩

def smul (r : Rat) (p : Trig C) : Trig C := ⟨p.c.map (R.smul r), p.s.map (R.smul r)⟩

def neg (p : Trig C) : Trig C := smul R (-1) p

def sub (p q : Trig C) : Trig C := add R p (neg R q)

/-- multiply every coefficient by the scalar `a : C` -/
def scale (a : C) (p : Trig C) : Trig C := ⟨p.c.map (R.mul a), p.s.map (R.mul a)⟩

/-- product, by
    `cos a cos b = ½[cos(a+b) + cos(a−b)]`, `sin a sin b = ½[cos(a−b) − cos(a+b)]`,
    `sin a cos b = ½[sin(a+b) + sin(a−b)]`, `cos a sin b = ½[sin(a+b) − sin(a−b)]` -/
def mul (p q : Trig C) : Trig C :=
  let half := fun (x : List C) => strip R (x.map (R.smul (1 / 2)))
  let cc := zipAdd R (zipAdd R (conv R p.c q.c) (negL R (conv R p.s q.s)))
                     (zipAdd R (corrSym R p.c q.c) (corrSym R p.s q.s))
  -- sin-part: s_a c'_b → conv + corr(s, c') − corr(c', s);  c_a s'_b → conv − corr(c, s') + corr(s', c)
  let ss := zipAdd R (zipAdd R (conv R p.s q.c) (conv R p.c q.s))
              (zipAdd R (zipAdd R (corr R p.s q.c) (negL R (corr R q.c p.s)))
                        (zipAdd R (negL R (corr R p.c q.s)) (corr R q.s p.c)))
  -- the coefficient of sin 0φ is meaningless: clear it
  let ss0 := match ss with | [] => [] | _ :: t => R.zero :: t
  ⟨half cc, half ss0⟩

/-- `d/dφ`: `cos mφ ↦ −m sin mφ`, `sin mφ ↦ m cos mφ` -/
def deriv (p : Trig C) : Trig C :=
  ⟨(List.range p.s.length).map fun (m : Nat) => R.smul (m : Rat) (get R p.s m),
   (List.range p.c.length).map fun (m : Nat) => R.smul (-(m : Rat)) (get R p.c m)⟩

def isZero (p : Trig C) : Bool := p.c.all R.isZero && (p.s.drop 1).all R.isZero

/-- equality of trigonometric polynomials (coefficientwise) -/
def eq (p q : Trig C) : Bool := isZero R (sub R p q)

/-- `[f, f′, …, f^{(K)}]` -/
def derivs (f : Trig C) : Nat → List (Trig C)
  | 0 => [f]
  | K + 1 => f :: derivs (deriv R f) K

/-- Horner form of `Σ_k δ^k/k! · f_k` for `fs = [f_k, f_{k+1}, …]`:  `f_k + δ/(k+1) · (f_{k+1} + δ/(k+2) · (…))` -/
def horner (δ : Trig C) : Nat → List (Trig C) → Trig C
  | _, [] => ⟨[], []⟩
  | _, [f] => f
  | k, f :: fs => add R f (smul R (1 / ((k : Rat) + 1)) (mul R δ (horner δ (k + 1) fs)))

/-- Taylor shift `f(φ + δ) = Σ_{k ≤ K} δ^k/k! · f^{(k)}(φ)`, evaluated in Horner form -/
def shift (K : Nat) (f δ : Trig C) : Trig C := horner R δ 0 (derivs R f K)

/-- `1/(1 + u) = Σ_{k ≤ K} (−u)^k` for `u` without constant term (`u^{K+1} = 0` in the truncated ring), Horner form -/
def invOnePlus (u : Trig C) : Nat → Trig C
  | 0 => const R.one
  | K + 1 => sub R (const R.one) (mul R u (invOnePlus u K))

/-- coefficient of `cos mφ` / `sin mφ` -/
def cosCoef (p : Trig C) (m : Nat) : C := get R p.c m
def sinCoef (p : Trig C) (m : Nat) : C := get R p.s m

/-- the sine series `Σ_{l ≥ 1} a_l sin lφ` -/
def sinSeries (a : List C) : Trig C := ⟨[], R.zero :: a⟩

/-- the cosine series `a_0 + Σ_{l ≥ 1} a_l cos lφ` -/
def cosSeries (a : List C) : Trig C := ⟨a, []⟩

end Trig

/-- self-test of the trigonometric CAS over `ℚ[ε]/ε^5`: textbook identities the product, derivative and Taylor shift must reproduce -/
def trigSelfTest : Bool :=
  let R := Ops.poly 5
  let one : Trig Poly := Trig.const [1]
  let cosφ : Trig Poly := ⟨[[], [1]], []⟩
  let sinφ : Trig Poly := ⟨[], [[], [1]]⟩
  let cos3 : Trig Poly := ⟨[[], [], [], [1]], []⟩
  let sin2 : Trig Poly := ⟨[], [[], [], [1]]⟩
  let eps : Trig Poly := Trig.const [0, 1]
  -- sin² + cos² = 1
  Trig.eq R (Trig.add R (Trig.mul R sinφ sinφ) (Trig.mul R cosφ cosφ)) one
  -- (cos φ + sin φ)² = 1 + sin 2φ
  && Trig.eq R (Trig.mul R (Trig.add R cosφ sinφ) (Trig.add R cosφ sinφ)) (Trig.add R one sin2)
  -- cos 3φ = 4 cos³φ − 3 cos φ
  && Trig.eq R cos3 (Trig.sub R (Trig.smul R 4 (Trig.mul R cosφ (Trig.mul R cosφ cosφ))) (Trig.smul R 3 cosφ))
  -- sin 2φ · cos 3φ = ½(sin 5φ − sin φ)
  && Trig.eq R (Trig.mul R sin2 cos3) ⟨[], [[], [-1/2], [], [], [], [1/2]]⟩
  -- d/dφ (sin 2φ · cos 3φ) = 2 cos 2φ cos 3φ − 3 sin 2φ sin 3φ
  && Trig.eq R (Trig.deriv R (Trig.mul R sin2 cos3))
       (Trig.sub R (Trig.smul R 2 (Trig.mul R ⟨[[], [], [1]], []⟩ cos3)) (Trig.smul R 3 (Trig.mul R sin2 ⟨[], [[], [], [], [1]]⟩)))
  -- sin(φ + ε) = sin φ · cos ε + cos φ · sin ε  (mod ε^5)
  && Trig.eq R (Trig.shift R 4 sinφ eps) ⟨[[], [0, 1, 0, -1/6]], [[], [1, 0, -1/2, 0, 1/24]]⟩
  -- sin(2(φ + ε sin φ)) to first order: sin 2φ + 2ε sin φ cos 2φ = sin 2φ + ε (sin 3φ − sin φ)   (mod ε²)
  && Trig.eq (Ops.poly 2) (Trig.shift (Ops.poly 2) 1 sin2 (Trig.mul (Ops.poly 2) eps sinφ)) ⟨[], [[], [0, -1], [1], [0, 1]]⟩

end GeoVerif.Series
