/-!
# Truncated power series with rational coefficients (core Lean only, kernel-evaluable)

`Poly = List Rat`, coefficient of `x^i` at index `i`.  All operations truncate
at a given length `N` (i.e. work modulo `x^N`).
-/
namespace GeoVerif.Series

abbrev Poly := List Rat

namespace Poly

def coeff (p : Poly) (i : Nat) : Rat := p.getD i 0

/-- pad / cut to exactly `N` coefficients -/
def trunc (N : Nat) (p : Poly) : Poly := (List.range N).map p.coeff

def add (N : Nat) (p q : Poly) : Poly := (List.range N).map fun i => p.coeff i + q.coeff i
def sub (N : Nat) (p q : Poly) : Poly := (List.range N).map fun i => p.coeff i - q.coeff i
def smul (c : Rat) (p : Poly) : Poly := p.map (c * ·)
def neg (p : Poly) : Poly := p.map (- ·)

/-- product modulo `x^N` -/
def mul (N : Nat) (p q : Poly) : Poly :=
  (List.range N).map fun k => ((List.range (k + 1)).map fun i => p.coeff i * q.coeff (k - i)).sum

/-- `x^k · p` -/
def shift (k : Nat) (p : Poly) : Poly := List.replicate k 0 ++ p

/-- `p(x^2)` -/
def subSq (p : Poly) : Poly := p.flatMap fun c => [c, 0]

def const (c : Rat) : Poly := [c]
def X : Poly := [0, 1]

/-- equality modulo `x^N` -/
def eqN (N : Nat) (p q : Poly) : Bool := (List.range N).all fun i => p.coeff i == q.coeff i

/-- `Math::polyval(m, p, x)`: `p[0] x^m + … + p[m]` as a polynomial in `x` (low order first) -/
def ofHighFirst (p : List Rat) : Poly := p.reverse

/-- power `p^k` modulo `x^N` -/
def pow (N : Nat) (p : Poly) : Nat → Poly
  | 0 => [1]
  | k + 1 => mul N (pow N p k) p

/-- inverse of a series with non-zero constant term, modulo `x^N` (Newton-free: coefficient recursion) -/
def inv (N : Nat) (p : Poly) : Poly :=
  let a0 := p.coeff 0
  (List.range N).foldl (fun (q : Poly) k =>
    if k = 0 then [1 / a0] else
    q ++ [ -(((List.range k).map fun i => q.coeff i * p.coeff (k - i)).sum) / a0 ]) []

/-- composition `p(q(x))` modulo `x^N`, for `q` with zero constant term -/
def comp (N : Nat) (p q : Poly) : Poly :=
  (List.range p.length).foldl (fun acc i => add N acc (smul (p.coeff i) (pow N q i))) []

end Poly

/-- binomial series coefficients: `(1 − x)^a = Σ bin a j · x^j`, i.e. `bin a j = (−1)^j C(a, j)` -/
def bin (a : Rat) : Nat → Rat
  | 0 => 1
  | j + 1 => bin a j * ((j : Rat) - a) / ((j : Rat) + 1)

end GeoVerif.Series
