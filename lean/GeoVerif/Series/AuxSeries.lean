import GeoVerif.Series.TrigN
import GeoVerif.Gen.AuxSeries
/-!
# The 30 series of `AuxLatitude::fillcoeff` as Fourier polynomials, and what they are checked against

`block out in` decodes `coeffs[] / ptrs[]` exactly as the loops of `fillcoeff` do: for the harmonic
`sin(2 (l+1) ζ)`, `l = 0 … L−1`, the coefficient is `n^(l+1) · polyval(m, coeffs + o, n²)` with
`m = (L−l−1)/2` when both latitudes are among φ, β, θ, μ ("even coeffs only"), and
`n^(l+1) · polyval(m, coeffs + o, n)` with `m = L−l−1` otherwise.
-/
namespace GeoVerif.Series.Aux
open GeoVerif.Series Gen.AuxSeries

def L : Nat := order
/-- series are kept modulo `n^(L+1)` -/
def N : Nat := L + 1

def evenOnly (auxout auxin : Nat) : Bool := auxin ≤ RECTIFYING && auxout ≤ RECTIFYING

/-- the decoded harmonics (index `l` ↦ coefficient of `sin(2(l+1)ζ)` as a polynomial in `n`) and the final offset -/
def decode (auxout auxin : Nat) : List Poly × Nat :=
  let k := AUXNUMBER * auxout + auxin
  let ev := evenOnly auxout auxin
  (List.range L).foldl (fun (acc : List Poly × Nat) l =>
     let m := if ev then (L - l - 1) / 2 else (L - l - 1)
     let p := Poly.ofHighFirst ((coeffs.drop acc.2).take (m + 1))
     let p := if ev then Poly.subSq p else p
     (acc.1 ++ [Poly.trunc N (Poly.shift (l + 1) p)], acc.2 + m + 1)) ([], ptrs.getD k 0)

def block (auxout auxin : Nat) : List Poly := (decode auxout auxin).1

/-- `ζ_out − ζ_in` as a function of `ζ_in` -/
def ser (auxout auxin : Nat) : Trig := Trig.ofSin (block auxout auxin)

/-- layout: every off-diagonal block ends where the next begins, diagonal blocks are empty, the table is consumed exactly -/
def layoutOK : Bool :=
  ptrs.length == AUXNUMBER * AUXNUMBER + 1 && ptrs.getD (AUXNUMBER * AUXNUMBER) 0 == coeffs.length &&
  (List.range AUXNUMBER).all fun o => (List.range AUXNUMBER).all fun i =>
    let k := AUXNUMBER * o + i
    if o == i then ptrs.getD (k + 1) 0 == ptrs.getD k 0 else (decode o i).2 == ptrs.getD (k + 1) 0

def enumOK : Bool :=
  GEOGRAPHIC == 0 && PARAMETRIC == 1 && GEOCENTRIC == 2 && RECTIFYING == 3 && CONFORMAL == 4 && AUTHALIC == 5 && AUXNUMBER == 6

/-! ### closed forms -/

/-- the series `Σ_l (r^l / l) sin 2lx` for `r` a power series in `n` without constant term: this is `y − x` when
    `tan y = ((1 + r)/(1 − r)) tan x` -/
def logSer (r : Poly) : List Poly := (List.range L).map fun (l : Nat) => Poly.smul (1 / ((l : Rat) + 1)) (Poly.pow N r (l + 1))

/-- `2n/(1+n²)`: `(1 − m)/(1 + m) = ((1 − n)/(1 + n))²` -/
def mTwo : Poly := Poly.mul N [0, 2] (Poly.inv N [1, 0, 1])

def blockEq (a b : List Poly) : Bool := a.length == b.length && (List.range a.length).all fun i => Poly.eqN N (a.getD i []) (b.getD i [])

/-- β←φ and θ←β: `tan β = (1−f) tan φ`, `1 − f = (1−n)/(1+n)`:  coefficients `(−n)^l / l` -/
def checkBetaPhi : Bool := blockEq (block PARAMETRIC GEOGRAPHIC) (logSer [0, -1])
def checkThetaBeta : Bool := blockEq (block GEOCENTRIC PARAMETRIC) (logSer [0, -1])
def checkPhiBeta : Bool := blockEq (block GEOGRAPHIC PARAMETRIC) (logSer [0, 1])
def checkBetaTheta : Bool := blockEq (block PARAMETRIC GEOCENTRIC) (logSer [0, 1])
/-- θ←φ: `tan θ = (1−f)² tan φ`: coefficients `(−m)^l / l`, `m = 2n/(1+n²)` -/
def checkThetaPhi : Bool := blockEq (block GEOCENTRIC GEOGRAPHIC) (logSer (Poly.neg mTwo))
def checkPhiTheta : Bool := blockEq (block GEOGRAPHIC GEOCENTRIC) (logSer mTwo)

/-- `Σ_j (bin a j)² n^{2j}` -/
def meanSer (a : Rat) : Poly := (List.range N).map fun k => if k % 2 == 0 then bin a (k / 2) * bin a (k / 2) else 0
/-- `(1/l) Σ_j bin a j · bin a (j+l) · n^{2j+l}` -/
def harmSer (a : Rat) (l : Nat) : Poly := (List.range N).map fun k =>
  if k ≥ l ∧ (k - l) % 2 == 0 then bin a ((k - l) / 2) * bin a ((k - l) / 2 + l) / l else 0

/-- μ←β: the meridian arc element is `a √(1 − e² cos²β) dβ ∝ |1 − n e^{2iβ}| = Σ_{j,k} b_j b_k n^{j+k} e^{2i(j−k)β}`, `b = bin ½`
    (the integrand of the geodesic distance integral with ε = n); integrating and dividing by the mean value:
    `C[μ←β]_l · Σ_j b_j² n^{2j} = (1/l) Σ_j b_j b_{j+l} n^{2j+l}` -/
def checkMuBeta (l : Nat) : Bool :=
  Poly.eqN N (Poly.mul N ((block RECTIFYING PARAMETRIC).getD (l - 1) []) (meanSer (1 / 2))) (harmSer (1 / 2) l)

/-- `RectifyingRadius(false)`: `(a+b)/2 · polyval(L/2, coeff, n²)` with `polyval = Σ_j b_j² n^{2j}` (mean value of the arc element) -/
def checkRectRadius : Bool :=
  rectRadius.length == L / 2 + 1 && Poly.eqN N (Poly.subSq (Poly.ofHighFirst rectRadius)) (meanSer (1 / 2))

/-- `AuthalicRadiusSquared(false)`: coefficients `1, −1/3, 4(2j−5)!!/(2j+1)!!` -/
def dfac : Nat → Nat
  | 0 => 1
  | 1 => 1
  | k + 2 => (k + 2) * dfac k
def authCoeff (j : Nat) : Rat := if j == 0 then 1 else if j == 1 then -1 / 3 else 4 * (dfac (2 * j - 5) : Rat) / (dfac (2 * j + 1) : Rat)
def checkAuthRadius : Bool :=
  authRadius.length == L + 1 && Poly.eqN N (Poly.ofHighFirst authRadius) ((List.range N).map authCoeff)

/-! ### reversion and composition -/

/-- `C[a←b]` after `C[b←a]` is the identity modulo `n^(L+1)` -/
def checkRevert (a b : Nat) : Bool :=
  let A := ser b a      -- ζ_b as a function of ζ_a
  let B := ser a b
  A.smallO && B.smallO && Trig.isZero N (Trig.compose N B A)

/-- `C[c←a] = C[c←b] ∘ C[b←a]` modulo `n^(L+1)` -/
def checkCompose (c b a : Nat) : Bool :=
  let A := ser b a
  let B := ser c b
  A.smallO && B.smallO && Trig.eqN N (ser c a) (Trig.compose N B A)

/-! ### differential equations that pin χ(φ) and ξ(φ) -/

def cos2 : Trig := Trig.ofCos [[1/2], [1/2]]          -- cos²φ
def sincos : Trig := Trig.ofSin [[1/2]]               -- sin φ cos φ
/-- `(1+n)²(1 − e² sin²φ) = 1 + n² + 2n cos 2φ` -/
def vden : Trig := Trig.ofCos [[1, 0, 1], [0, 2]]

/-- `cos φ · cos(φ + A)` -/
def cosShift (A : Trig) : Trig := Trig.sub N (Trig.mul N cos2 (Trig.cosOf N A)) (Trig.mul N sincos (Trig.sinOf N A))

/-- χ = φ + A(φ) satisfies `cos φ (1 − e² sin²φ) χ′ = (1 − e²) cos χ`; multiplied by `(1+n)² cos φ`:
    `cos²φ (1 + n² + 2n cos 2φ)(1 + A′) = (1 − n)² cos φ cos(φ + A)`.  With `A(0) = 0` (sine series) this determines `A`. -/
def checkChiODE : Bool :=
  let A := ser CONFORMAL GEOGRAPHIC
  A.smallO &&
  Trig.eqN N (Trig.mul N (Trig.mul N cos2 vden) (Trig.add N (Trig.const [1]) A.deriv))
             (Trig.pmul N [1, -2, 1] (cosShift A))

/-- ξ = φ + A(φ): `sin ξ = q(φ)/q(π/2)`, `q′ = 2(1−e²) cos φ/(1−e² sin²φ)²`, `q(π/2) = 2c²/a²`, `c² = a²·P(n)/(1+n)` with `P` the
    `AuthalicRadiusSquared` polynomial.  Multiplied by `(1+n)⁴ P cos φ`:
    `cos φ cos(φ + A) (1 + A′)(1 + n² + 2n cos 2φ)² · P = (1 − n)²(1 + n)³ cos²φ`. -/
def checkXiODE : Bool :=
  let A := ser AUTHALIC GEOGRAPHIC
  let P := Poly.ofHighFirst authRadius
  A.smallO &&
  Trig.eqN N (Trig.pmul N P (Trig.mul N (Trig.mul N (cosShift A) (Trig.add N (Trig.const [1]) A.deriv)) (Trig.mul N vden vden)))
             (Trig.pmul N (Poly.mul N [1, -2, 1] [1, 3, 3, 1]) cos2)

end GeoVerif.Series.Aux
