import GeoVerif.Series.Poly
import GeoVerif.Gen.AuxSeries
/-!
# Decoding the `AuxLatitude` coefficient table without any trig-series CAS

A copy of `Series.Aux.decode` (`Series/AuxSeries.lean`) that depends only on `Series/Poly.lean`, so that the
transverse-Mercator certificates (which use the CAS module `TrigTM`) can talk about the auxiliary-latitude tables (whose
certificates use the CAS module `TrigN`) without importing two modules that declare the same names.
`Proofs/AuxDecodeEq.lean` proves that the two decoders are the same function.
-/
namespace GeoVerif.Series.AuxDecode
open GeoVerif.Series Gen.AuxSeries

def L : Nat := order
def N : Nat := L + 1
def evenOnly (auxout auxin : Nat) : Bool := auxin ≤ RECTIFYING && auxout ≤ RECTIFYING

/-- the decoded harmonics (index `l` ↦ coefficient of `sin(2(l+1)ζ)` as a polynomial in `n`) and the final offset -/
def decode (auxout auxin : Nat) : List Poly × Nat :=
  let k := AUXNUMBER * auxout + auxin
  let ev := evenOnly auxout auxin
  (List.range L).foldl (fun (acc : List Poly × Nat) l =>
     let m := if ev then (L - l - 1) / 2 else (L - l - 1)
     let p := Poly.ofHighFirst ((coeffs.drop acc.2).take (m + 1))
     let p := if ev then Poly.subSq p else p
     (acc.1 ++ [Poly.trunc N (Poly.shift (l + 1) p)], acc.2 + m + 1)) ([], ptrs.getD k 0)

def block (auxout auxin : Nat) : List Poly := (decode auxout auxin).1

end GeoVerif.Series.AuxDecode
