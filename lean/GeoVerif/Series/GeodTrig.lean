import GeoVerif.Series.Trig
import GeoVerif.Series.GeodSeries
/-!
# The remaining Maxima tables of `Geodesic.cpp` (C1′, A3, C3, C4) against their defining relations

Everything is a finite computation with rational trigonometric polynomials whose coefficients are truncated
power series in `ε` (C1′) or in `n, ε` jointly, truncated by total degree exactly as `jtaylor(…, n, eps, N−1)`
of `maxima/geod.mac` does (A3, C3, C4).
-/
namespace GeoVerif.Series.Geod
open GeoVerif.Series Gen.GeodSeries

/-! ### C1′ reverts C1 -/

/-- coefficients mod `ε^{N+1}` -/
def R1 : Ops Poly := Ops.poly (N + 1)

/-- `B1(φ) = Σ_{l=1}^{N} C1_l sin lφ`, `φ = 2σ` -/
def sinTable (tbl : List Rat) : Trig Poly := Trig.sinSeries R1 ((List.range N).map fun i => Poly.norm (cBlock tbl (i + 1)))

def b1 : Trig Poly := sinTable C1f

/-- `B1′(φ) = Σ_{l=1}^{N} C1′_l sin lφ`, `φ = 2τ` -/
def b1p : Trig Poly := sinTable C1pf

/-- with `τ = σ + B1(2σ)`: `σ − τ + … = B1(2σ) + B1′(2σ + 2·B1(2σ))`, the Taylor shift taken to order `N`
    (all further terms are `O(ε^{N+1})` because `B1 = O(ε)`) -/
def revertResidual (b1 b1p : Trig Poly) : Trig Poly :=
  Trig.add R1 b1 (Trig.shift R1 N b1p (Trig.smul R1 2 b1))

def checkC1pOf (c1 c1p : List Rat) : Bool := Trig.isZero R1 (revertResidual (sinTable c1) (sinTable c1p))

def checkC1p : Bool := checkC1pOf C1f C1pf

/-! ### bivariate tables: layout -/

/-- consecutive blocks "`m+1` numerators of a polynomial in `n` (highest power first), divisor" -/
def readBlocks : List Rat → List Nat → List Poly
  | _, [] => []
  | tbl, m :: ms =>
    Poly.smul (1 / tbl.getD (m + 1) 0) (Poly.ofHighFirst (tbl.take (m + 1))) :: readBlocks (tbl.drop (m + 2)) ms

/-- orders in `n` of the coefficients of `ε^{N−1}, …, ε^{lo}` -/
def ordersMin (lo : Nat) : List Nat := ((List.range (N - lo)).map fun i => let j := N - 1 - i; min (N - j - 1) j)
def ordersC4 (lo : Nat) : List Nat := ((List.range (N - lo)).map fun i => let j := N - 1 - i; N - j - 1)

def blockLen (os : List Nat) : Nat := (os.map (· + 2)).sum

/-- `A3(n, ε)` as in `A3coeff` + `A3f` -/
def a3Of (tbl : List Rat) : Poly2 := (readBlocks tbl (ordersMin 0)).reverse

def a3 : Poly2 := a3Of A3coeff

def a3Size : Nat := blockLen (ordersMin 0)

/-- `C3_l(n, ε)`, `1 ≤ l < N`, as in `C3coeff` + `C3f`:  `ε^l · polyval(N−l−1, …, ε)` -/
def c3Of (tbl : List Rat) (l : Nat) : Poly2 :=
  let o := ((List.range (l - 1)).map fun i => blockLen (ordersMin (i + 1))).sum
  List.replicate l [] ++ (readBlocks (tbl.drop o) (ordersMin l)).reverse

def c3 (l : Nat) : Poly2 := c3Of C3coeff l

def c3Size : Nat := ((List.range (N - 1)).map fun i => blockLen (ordersMin (i + 1))).sum

/-- `C4_l(n, ε)`, `0 ≤ l < N`, as in `C4coeff` + `C4f` -/
def c4Of (tbl : List Rat) (l : Nat) : Poly2 :=
  let o := ((List.range l).map fun i => blockLen (ordersC4 i)).sum
  List.replicate l [] ++ (readBlocks (tbl.drop o) (ordersC4 l)).reverse

def c4 (l : Nat) : Poly2 := c4Of C4coeff l

def c4Size : Nat := ((List.range N).map fun i => blockLen (ordersC4 i)).sum

/-! ### I3:  A3 and C3 -/

/-- coefficients mod total degree `N` in `(n, ε)` (what `jtaylor(·, n, eps, N−1)` keeps) -/
def R3 : Ops Poly2 := Ops.poly2 N

/-- `W(φ) = √(1 − 2ε cos φ + ε²) = |1 − ε e^{iφ}|`, i.e. `(1 − ε)·√(1 + k² sin²σ)` with `k² = 4ε/(1 − ε)²`, `φ = 2σ`:
    mean `Σ_j b_j² ε^{2j}`, coefficient of `cos lφ` `2 Σ_j b_j b_{j+l} ε^{2j+l}`, `b = bin ½` -/
def wSer (M : Nat) : Trig Poly2 :=
  Trig.cosSeries ((List.range M).map fun l =>
    Poly2.ofEps ((List.range M).map fun k =>
      if k ≥ l ∧ (k - l) % 2 == 0 then
        (if l == 0 then 1 else 2) * bin (1 / 2) ((k - l) / 2) * bin (1 / 2) ((k - l) / 2 + l) else 0))

/-- `W² = 1 − 2ε cos φ + ε²` (mod `ε^M`) — pins `wSer` together with `W = 1 + O(ε)` -/
def checkW (M : Nat) : Bool :=
  let R := Ops.poly2 M
  Trig.eq R (Trig.mul R (wSer M) (wSer M))
    (Trig.cosSeries [Poly2.trunc M (Poly2.ofEps [1, 0, 1]), Poly2.trunc M (Poly2.ofEps [0, -2])] )

/-- the integrand of I3 as the table has it: `A3·(1 + Σ_l 2l·C3_l cos 2lσ)` (= d/dσ of `A3 (σ + Σ C3_l sin 2lσ)`) -/
def i3Integrand (a3 : Poly2) (c3 : Nat → Poly2) : Trig Poly2 :=
  Trig.cosSeries (a3 :: (List.range (N - 1)).map fun (i : Nat) =>
    R3.smul (2 * ((i : Rat) + 1)) (R3.mul a3 (c3 (i + 1))))

/-- `(1 + n)(1 − ε) + (1 − n) W`: the denominator of `(2 − f)/(1 + (1 − f)√(1 + k² sin²σ))` with `f = 2n/(1 + n)`,
    multiplied by `(1 + n)(1 − ε)` -/
def i3Denominator : Trig Poly2 :=
  Trig.add R3 (Trig.const (R3.mul (Poly2.ofN [1, 1]) (Poly2.ofEps [1, -1])))
    (Trig.scale R3 (Poly2.ofN [1, -1]) (wSer N))

/-- `integrand · ((1 + n)(1 − ε) + (1 − n) W) = 2(1 − ε)` modulo total degree `N` -/
def checkA3C3Of (a3t c3t : List Rat) : Bool :=
  Trig.eq R3 (Trig.mul R3 (i3Integrand (a3Of a3t) (c3Of c3t)) i3Denominator) (Trig.const (Poly2.ofEps [2, -2]))

def checkA3C3 : Bool := checkA3C3Of A3coeff C3coeff

/-- the I3 integrand expanded directly: `2(1 − ε)/D = (1 − ε)·1/(1 + u)` with `D = 2(1 + u)`, `u = D/2 − 1 = O(n, ε)` -/
def i3Expansion : Trig Poly2 :=
  let u := Trig.sub R3 (Trig.smul R3 (1 / 2) i3Denominator) (Trig.const R3.one)
  Trig.scale R3 (Poly2.ofEps [1, -1]) (Trig.invOnePlus R3 u (N - 1))

def eq2 (M : Nat) (p q : Poly2) : Bool := Poly2.isZero (Poly2.addZ (Poly2.trunc M p) (Poly2.smulZ (-1) (Poly2.trunc M q)))

/-- `A3` = mean value of the expanded integrand (mod total degree `N`) -/
def checkA3Of (a3t : List Rat) : Bool := eq2 N (a3Of a3t) (Trig.cosCoef R3 i3Expansion 0)

/-- `2l·A3·C3_l` = coefficient of `cos 2lσ` of the expanded integrand, `1 ≤ l < N`, and the expansion has no other terms -/
def checkC3Of (a3t c3t : List Rat) : Bool :=
  ((List.range (N - 1)).all fun (i : Nat) =>
    eq2 N (R3.smul (2 * ((i : Rat) + 1)) (R3.mul (a3Of a3t) (c3Of c3t (i + 1)))) (Trig.cosCoef R3 i3Expansion (i + 1)))
  && (i3Expansion.c.drop N).all Poly2.isZero && i3Expansion.s.all Poly2.isZero

def checkA3 : Bool := checkA3Of A3coeff
def checkC3 : Bool := checkC3Of A3coeff C3coeff

/-! ### I4:  C4 -/

/-- one order more than the table: the relation below is divided by `e′² − k² sin²σ = O(n, ε)` -/
def R4 : Ops Poly2 := Ops.poly2 (N + 1)

/-- `h(x) = asinh(√x)/√(x(1 + x)) = Σ_m h_m x^m`, `h_0 = 1`, `(2m + 1) h_m = −2m h_{m−1}` -/
def hCoef : Nat → Rat
  | 0 => 1
  | m + 1 => -(2 * ((m : Rat) + 1)) / (2 * ((m : Rat) + 1) + 1) * hCoef m

def hSer (M : Nat) : Poly := (List.range M).map hCoef

/-- `h` solves `2x(1 + x) h′ + (1 + 2x) h = 1`, `h(0) = 1` (which `asinh(√x)/√(x(1+x))` does) -/
def checkH (M : Nat) : Bool :=
  let h := hSer M
  Poly.eqN M (Poly.add M (Poly.mul M [0, 2, 2] (Poly.deriv h)) (Poly.mul M [1, 2] h)) [1]

/-- `t(x) = x + √(1 + 1/x)·asinh √x = x + (1 + x) h(x)` -/
def tSer (M : Nat) : Poly := Poly.add M [0, 1] (Poly.mul M [1, 1] (hSer M))

/-- `1/(1 − x)² = Σ (j + 1) x^j` -/
def invSq (M : Nat) : Poly := (List.range M).map fun (j : Nat) => (j : Rat) + 1

/-- `e′² = 4n/(1 − n)²` -/
def ep2Ser : Poly2 := Poly2.ofN (Poly.mul (N + 1) [0, 4] (invSq (N + 1)))

/-- `k² = 4ε/(1 − ε)²` -/
def k2Ser : Poly2 := Poly2.ofEps (Poly.mul (N + 1) [0, 4] (invSq (N + 1)))

/-- `y = k² sin²σ = k² (1 − cos 2σ)/2` as a trigonometric polynomial in `φ = σ` -/
def ySer : Trig Poly2 := Trig.cosSeries [R4.smul (1 / 2) k2Ser, [], R4.smul (-1 / 2) k2Ser]

/-- `t(y)` for a trigonometric polynomial `y = O(ε)` -/
def tOfTrig (y : Trig Poly2) : Trig Poly2 :=
  ((List.range (N + 1)).foldl (fun (acc : Trig Poly2 × Trig Poly2) m =>
    (Trig.add R4 acc.1 (Trig.smul R4 ((tSer (N + 1)).coeff m) acc.2), Trig.mul R4 acc.2 y))
    (⟨[], []⟩, Trig.const R4.one)).1

/-- `−dI4/dσ = Σ_l (2l + 1) C4_l sin((2l + 1)σ)` as the table has it -/
def i4Integrand (c4 : Nat → Poly2) : Trig Poly2 :=
  ⟨[], (List.range (2 * N)).map fun (m : Nat) => if m % 2 == 1 then R4.smul (m : Rat) (c4 (m / 2)) else []⟩

/-- `[Σ_l (2l+1) C4_l sin((2l+1)σ)] · (e′² − k² sin²σ) = [t(e′²) − t(k² sin²σ)] · sin σ / 2`  modulo total degree `N + 1` -/
def checkC4Of (c4t : List Rat) : Bool :=
  Trig.eq R4
    (Trig.mul R4 (i4Integrand (c4Of c4t)) (Trig.sub R4 (Trig.const ep2Ser) ySer))
    (Trig.mul R4 (Trig.sub R4 (Trig.const (Poly2.compose (N + 1) (tSer (N + 1)) ep2Ser)) (tOfTrig ySer))
      (Trig.sinSeries R4 [R4.smul (1 / 2) R4.one]))

/-- the divided difference `[t(x) − t(y)]/(x − y) = Σ_{m ≥ 1} t_m h_{m−1}(x, y)`, `h_k = Σ_{i+j=k} x^i y^j = x·h_{k−1} + y^k`,
    for `x = e′²`, `y = k² sin²σ`, modulo total degree `N` -/
def i4DividedDifference : Trig Poly2 :=
  let x := ep2Ser
  ((List.range (N + 1)).foldl (fun (acc : Trig Poly2 × Trig Poly2 × Trig Poly2) (k : Nat) =>
    -- acc = (Σ_{m ≤ k} t_m h_{m−1}, h_k, y^k)
    let yk1 := Trig.mul R3 acc.2.2 (Trig.cosSeries [R3.smul (1 / 2) k2Ser, [], R3.smul (-1 / 2) k2Ser])
    (Trig.add R3 acc.1 (Trig.smul R3 ((tSer (N + 1)).coeff (k + 1)) acc.2.1),
     Trig.add R3 (Trig.scale R3 x acc.2.1) yk1,
     yk1)) (⟨[], []⟩, Trig.const R3.one, Trig.const R3.one)).1

/-- `Σ_l (2l + 1) C4_l sin((2l + 1)σ) = [t(e′²) − t(k² sin²σ)]/(e′² − k² sin²σ) · sin σ/2`, the right side expanded directly, modulo total degree `N` -/
def checkC4ExpansionOf (c4t : List Rat) : Bool :=
  Trig.eq R3 (i4Integrand (c4Of c4t))
    (Trig.mul R3 i4DividedDifference (Trig.sinSeries R3 [R3.smul (1 / 2) R3.one]))

def checkC4Expansion : Bool := checkC4ExpansionOf C4coeff

def checkC4 : Bool := checkC4Of C4coeff

end GeoVerif.Series.Geod
