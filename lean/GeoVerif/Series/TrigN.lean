import GeoVerif.Series.Poly
/-!
(Module `TrigN`: the trig-series CAS used by the auxiliary-latitude certificates of C15.  It declares the same names as
`Series/Trig.lean` (used by the geodesic certificates of C01/C03), so the two modules must never be imported together.)

# Finite Fourier polynomials in `2x` whose coefficients are truncated power series in `n`

`Trig` represents `Σ_l c[l]·cos(2 l x) + Σ_l s[l]·sin(2 l x)` with `c[l], s[l] : Poly` (power series in `n`
modulo `n^N`; `s[0]` is ignored).  Harmonics are **never** truncated (a trailing harmonic is only dropped when
its coefficient is identically zero modulo `n^N`), so the operations are the exact ring operations of
`(ℚ[n]/n^N)[cos 2x, sin 2x]`.  Core Lean only, structural recursion, evaluable by `decide +kernel`.
-/
namespace GeoVerif.Series

namespace Poly

/-- number of leading zero coefficients (at most the length) -/
def lz : Poly → Nat
  | [] => 0
  | c :: cs => if c == 0 then lz cs + 1 else 0

def isZero (p : Poly) : Bool := p.all (· == 0)

/-- product modulo `x^N`; same value as `Poly.mul N p q` (leading zeros are factored out first so that products of
    high-order terms cost nothing) -/
def mulv (N : Nat) (p q : Poly) : Poly :=
  let a := lz p; let b := lz q
  if a ≥ p.length || b ≥ q.length || a + b ≥ N then [] else
  shift (a + b) (mul (N - (a + b)) (p.drop a) (q.drop b))

/-- sum of two series, length = the longer one, cut at `N` -/
def addv (N : Nat) (p q : Poly) : Poly :=
  if p.isEmpty then q.take N else if q.isEmpty then p.take N else
  (List.range (min N (max p.length q.length))).map fun i => p.coeff i + q.coeff i

def sum (N : Nat) (l : List Poly) : Poly := l.foldl (addv N) []

end Poly

structure Trig where
  c : List Poly
  s : List Poly
deriving Repr

namespace Trig

def cc (t : Trig) (l : Nat) : Poly := t.c.getD l []
def ss (t : Trig) (l : Nat) : Poly := if l == 0 then [] else t.s.getD l []

def zero : Trig := ⟨[], []⟩
/-- the constant `p` -/
def const (p : Poly) : Trig := ⟨[p], []⟩
/-- `Σ_{l ≥ 1} a[l-1] sin(2 l x)` -/
def ofSin (a : List Poly) : Trig := ⟨[], [] :: a⟩
/-- `Σ_{l ≥ 0} a[l] cos(2 l x)` -/
def ofCos (a : List Poly) : Trig := ⟨a, []⟩

def dropTrailingZero (l : List Poly) : List Poly :=
  (l.reverse.dropWhile Poly.isZero).reverse

def trim (t : Trig) : Trig := ⟨dropTrailingZero t.c, dropTrailingZero t.s⟩

def nh (t : Trig) : Nat := max t.c.length t.s.length

def add (N : Nat) (a b : Trig) : Trig :=
  let H := max a.nh b.nh
  ⟨(List.range H).map fun l => Poly.addv N (a.cc l) (b.cc l), (List.range H).map fun l => Poly.addv N (a.ss l) (b.ss l)⟩

def smul (r : Rat) (a : Trig) : Trig := ⟨a.c.map (Poly.smul r), a.s.map (Poly.smul r)⟩
def neg (a : Trig) : Trig := smul (-1) a
def sub (N : Nat) (a b : Trig) : Trig := add N a (neg b)

/-- multiply every coefficient by the series `p` -/
def pmul (N : Nat) (p : Poly) (a : Trig) : Trig := ⟨a.c.map (Poly.mulv N p), a.s.map (Poly.mulv N p)⟩

/-- product, by the product-to-sum formulas; coefficients modulo `n^N` -/
def mul (N : Nat) (a b : Trig) : Trig :=
  let ha := a.nh; let hb := b.nh
  let H := ha + hb
  let M := max ha hb
  let half : Rat := 1 / 2
  let m := Poly.mulv N
  let ck (k : Nat) : Poly :=
    -- i + j = k
    let s1 := (List.range (k + 1)).map fun i => Poly.addv N (m (a.cc i) (b.cc (k - i))) (Poly.neg (m (a.ss i) (b.ss (k - i))))
    -- |i − j| = k
    let s2 := (List.range M).map fun i => Poly.addv N (m (a.cc (i + k)) (b.cc i)) (m (a.ss (i + k)) (b.ss i))
    let s3 := if k == 0 then [] else (List.range M).map fun j => Poly.addv N (m (a.cc j) (b.cc (j + k))) (m (a.ss j) (b.ss (j + k)))
    let s2' := if k == 0 then (List.range M).map fun i => Poly.addv N (m (a.cc i) (b.cc i)) (m (a.ss i) (b.ss i)) else s2
    Poly.smul half (Poly.sum N (s1 ++ s2' ++ s3))
  let sk (k : Nat) : Poly :=
    if k == 0 then [] else
    let s1 := (List.range (k + 1)).map fun i => Poly.addv N (m (a.ss i) (b.cc (k - i))) (m (a.cc i) (b.ss (k - i)))
    -- i − j = k  (i = j + k):  + as_i bc_j − ac_i bs_j
    let s2 := (List.range M).map fun j => Poly.addv N (m (a.ss (j + k)) (b.cc j)) (Poly.neg (m (a.cc (j + k)) (b.ss j)))
    -- j − i = k  (j = i + k):  − as_i bc_j + ac_i bs_j
    let s3 := (List.range M).map fun i => Poly.addv N (Poly.neg (m (a.ss i) (b.cc (i + k)))) (m (a.cc i) (b.ss (i + k)))
    Poly.smul half (Poly.sum N (s1 ++ s2 ++ s3))
  trim ⟨(List.range H).map ck, (List.range H).map sk⟩

/-- `d/dx` -/
def deriv (a : Trig) : Trig :=
  let H := a.nh
  ⟨(List.range H).map fun (l : Nat) => Poly.smul (2 * (l : Rat)) (a.ss l), (List.range H).map fun (l : Nat) => Poly.smul (-(2 * (l : Rat))) (a.cc l)⟩

/-- all coefficients vanish modulo `n^N` -/
def isZero (N : Nat) (a : Trig) : Bool :=
  (a.c.all fun p => Poly.eqN N p []) && ((List.range a.s.length).all fun l => Poly.eqN N (a.ss l) [])

def eqN (N : Nat) (a b : Trig) : Bool := isZero N (sub N a b)

/-- every coefficient is `O(n)` (no `n^0` term) -/
def smallO (a : Trig) : Bool := (a.c.all fun p => p.coeff 0 == 0) && ((List.range a.s.length).all fun l => (a.ss l).coeff 0 == 0)

/-- `Σ_{k<N} w k · a^k` modulo `n^N` — exact for an entire series with Taylor coefficients `w` when `a = O(n)` -/
def powSeries (N : Nat) (w : Nat → Rat) (a : Trig) : Trig :=
  ((List.range N).foldl (fun (acc : Trig × Trig) k =>
      (add N acc.1 (smul (w k) acc.2), mul N acc.2 a)) (zero, const [1])).1

def fact : Nat → Nat
  | 0 => 1
  | k + 1 => (k + 1) * fact k

/-- `cos(a(x))` and `sin(a(x))` for `a = O(n)` -/
def cosOf (N : Nat) (a : Trig) : Trig := powSeries N (fun k => if k % 2 == 0 then (if (k / 2) % 2 == 0 then 1 else -1) / (fact k : Rat) else 0) a
def sinOf (N : Nat) (a : Trig) : Trig := powSeries N (fun k => if k % 2 == 1 then (if (k / 2) % 2 == 0 then 1 else -1) / (fact k : Rat) else 0) a

/-- `b(x + a(x))` modulo `n^N` by Taylor expansion `Σ_{k<N} b^{(k)}(x) a(x)^k / k!` — exact when `a = O(n)` -/
def shiftBy (N : Nat) (b a : Trig) : Trig :=
  ((List.range N).foldl (fun (acc : Trig × Trig × Trig) k =>
      let (sum, bk, ak) := acc
      (add N sum (smul (1 / (fact k : Rat)) (mul N bk ak)), deriv bk, mul N ak a)) (zero, b, const [1])).1

/-- the map `x ↦ x + b(x)` after `x ↦ x + a(x)`, minus `x`:  `a(x) + b(x + a(x))` -/
def compose (N : Nat) (b a : Trig) : Trig := add N a (shiftBy N b a)

end Trig
end GeoVerif.Series
