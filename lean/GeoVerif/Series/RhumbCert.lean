import GeoVerif.Series.AuxSeries
import GeoVerif.Gen.RhumbArea
/-!
# The rhumb-area series table of `Rhumb::AreaCoeffs` against its defining relation
(core-only; uses the trig-series CAS `TrigN` and the auxiliary-latitude tables certified by C15)
-/
namespace GeoVerif.Series.RhumbCert
open GeoVerif.Series GeoVerif.Series.Aux Gen.AuxSeries

/-- `P_l(n)`, `l = 0 … Lmax−1`, as `Rhumb::AreaCoeffs` evaluates it: `n^(l+1) · polyval(Lmax−l−1, coeffs + o, n)` -/
def pCoeff : List Poly :=
  ((List.range Gen.RhumbArea.Lmax).foldl (fun (acc : List Poly × Nat) l =>
     let m := Gen.RhumbArea.Lmax - l - 1
     let p := Poly.ofHighFirst ((Gen.RhumbArea.coeffs.drop acc.2).take (m + 1))
     (acc.1 ++ [Poly.trunc N (Poly.shift (l + 1) p)], acc.2 + m + 1)) ([], 0)).1

/-- `p′(β) = −Σ 2(l+1) P_l sin(2(l+1)β)` -/
def dP : Trig := Trig.ofSin ((List.range pCoeff.length).map fun (l : Nat) => Poly.smul (-(2 * ((l : Rat) + 1))) (pCoeff.getD l []))

/-- `cos β · sin(β + A)` -/
def sinShift (A : Trig) : Trig := Trig.add N (Trig.mul N sincos (Trig.cosOf N A)) (Trig.mul N cos2 (Trig.sinOf N A))

/-- the defining relation of the rhumb area series (`Rhumb::qIntegrand`): `p′(β) = (1−f)(sin ξ − sin χ)/cos φ`, multiplied by
`(1+n) cos β cos φ`:  `(1+n)·cos β cos φ·p′ = (1−n)(cos β sin ξ − cos β sin χ)` modulo `n^(L+1)`, with φ, χ, ξ the (certified)
auxiliary-latitude series in β -/
def checkRhumbArea : Bool :=
  Gen.RhumbArea.Lmax == L &&
  let Aphi := ser GEOGRAPHIC PARAMETRIC
  let Achi := ser CONFORMAL PARAMETRIC
  let Axi := ser AUTHALIC PARAMETRIC
  Trig.eqN N (Trig.pmul N [1, 1] (Trig.mul N (cosShift Aphi) dP))
             (Trig.pmul N [1, -1] (Trig.sub N (sinShift Axi) (sinShift Achi)))

end GeoVerif.Series.RhumbCert
