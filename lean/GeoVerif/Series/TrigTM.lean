import GeoVerif.Series.Poly
/-!
(Module `TrigTM`: the trig-series CAS of the transverse-Mercator certificates (C06); declares the same names as
`Series/Trig.lean` and `Series/TrigN.lean`, so these modules must never be imported together.)

# Truncated trigonometric series whose coefficients are truncated power series (core Lean only, kernel-evaluable)

`Trig` represents `Σ_j c_j(n) cos 2jζ + Σ_j s_j(n) sin 2jζ` with `c_j, s_j : Poly` (polynomials in `n`, `N` coefficients kept,
i.e. modulo `n^N`) and harmonics `j ≤ H`.  Operations: sum, product (product-to-sum formulas), derivative in `ζ`, powers, and
the Taylor substitution `ζ ↦ ζ + δ(ζ)`.

Harmonics above `H` are dropped.  This is exact modulo `n^N` for series in which the coefficient of harmonic `j` is `O(n^j)`
and `H ≥ N − 1`: that shape is preserved by sums, derivatives and products (harmonic `j ± k` arises from `n^j · n^k`).
-/
namespace GeoVerif.Series

structure Trig where
  c : List Poly
  s : List Poly

namespace Trig

def gc (t : Trig) (j : Nat) : Poly := t.c.getD j []
def gs (t : Trig) (j : Nat) : Poly := t.s.getD j []

/-- sparse-aware operations: the zero polynomial is `[]` -/
def pmul (N : Nat) (p q : Poly) : Poly := if p.isEmpty || q.isEmpty then [] else Poly.mul N p q
def padd (N : Nat) (p q : Poly) : Poly := if p.isEmpty then q else if q.isEmpty then p else Poly.add N p q
def psub (N : Nat) (p q : Poly) : Poly := if q.isEmpty then p else Poly.sub N p q
def psum (N : Nat) (l : List Poly) : Poly := l.foldl (padd N) []

def one : Trig := ⟨[[1]], []⟩

def add (N H : Nat) (x y : Trig) : Trig :=
  ⟨(List.range (H + 1)).map fun j => padd N (x.gc j) (y.gc j), (List.range (H + 1)).map fun j => padd N (x.gs j) (y.gs j)⟩
def sub (N H : Nat) (x y : Trig) : Trig :=
  ⟨(List.range (H + 1)).map fun j => psub N (x.gc j) (y.gc j), (List.range (H + 1)).map fun j => psub N (x.gs j) (y.gs j)⟩
def smul (q : Rat) (x : Trig) : Trig := ⟨x.c.map (Poly.smul q), x.s.map (Poly.smul q)⟩
def neg (x : Trig) : Trig := smul (-1) x

/-- product, by `cos a cos b = ½[cos(a−b) + cos(a+b)]`, `sin a sin b = ½[cos(a−b) − cos(a+b)]`, `sin a cos b = ½[sin(a+b) + sin(a−b)]` -/
def mul (N H : Nat) (x y : Trig) : Trig :=
  let pm := pmul N
  let pa := padd N
  let ps := psub N
  { c := (List.range (H + 1)).map fun m =>
      -- j + k = m
      let t1 := psum N ((List.range (m + 1)).map fun j => ps (pm (x.gc j) (y.gc (m - j))) (pm (x.gs j) (y.gs (m - j))))
      -- |j − k| = m
      let t2 :=
        if m = 0 then psum N ((List.range (H + 1)).map fun j => pa (pm (x.gc j) (y.gc j)) (pm (x.gs j) (y.gs j)))
        else psum N ((List.range (H + 1 - m)).map fun j =>
          pa (pa (pm (x.gc j) (y.gc (j + m))) (pm (x.gs j) (y.gs (j + m)))) (pa (pm (x.gc (j + m)) (y.gc j)) (pm (x.gs (j + m)) (y.gs j))))
      Poly.smul (1 / 2) (pa t1 t2),
    s := (List.range (H + 1)).map fun m =>
      if m = 0 then [] else
      let t1 := psum N ((List.range (m + 1)).map fun j => pa (pm (x.gs j) (y.gc (m - j))) (pm (x.gc j) (y.gs (m - j))))
      -- (j, k) = (k + m, k): + s_j c_k − c_j s_k;  (j, k) = (j, j + m): − s_j c_k + c_j s_k
      let t2 := psum N ((List.range (H + 1 - m)).map fun k =>
          pa (ps (pm (x.gs (k + m)) (y.gc k)) (pm (x.gc (k + m)) (y.gs k))) (ps (pm (x.gc k) (y.gs (k + m))) (pm (x.gs k) (y.gc (k + m)))))
      Poly.smul (1 / 2) (pa t1 t2) }

/-- `d/dζ`: `cos 2jζ ↦ −2j sin 2jζ`, `sin 2jζ ↦ 2j cos 2jζ` -/
def deriv (H : Nat) (x : Trig) : Trig :=
  ⟨(List.range (H + 1)).map fun (j : Nat) => Poly.smul (2 * ((j : Nat) : Rat)) (x.gs j), (List.range (H + 1)).map fun (j : Nat) => Poly.smul (-(2 * ((j : Nat) : Rat))) (x.gc j)⟩

def pow (N H : Nat) (x : Trig) : Nat → Trig
  | 0 => one
  | k + 1 => mul N H (pow N H x k) x

def derivK (H : Nat) (x : Trig) : Nat → Trig
  | 0 => x
  | k + 1 => deriv H (derivK H x k)

def fact : Nat → Nat
  | 0 => 1
  | k + 1 => (k + 1) * fact k

/-- `B(ζ + δ(ζ)) = Σ_{k ≤ K} B^{(k)}(ζ) δ(ζ)^k / k!` (for `δ = O(n)` and `B = O(n)` exact modulo `n^N` when `K ≥ N − 2`);
    the loop carries `(sum, B^{(k)}, δ^k, k!)` -/
def shift (N H K : Nat) (B δ : Trig) : Trig :=
  ((List.range (K + 1)).foldl (fun (st : Trig × Trig × Trig × Nat) k =>
      let (acc, Bk, dk, fk) := st
      (add N H acc (smul (1 / (fk : Rat)) (mul N H Bk dk)), deriv H Bk, mul N H dk δ, fk * (k + 1)))
    (⟨[], []⟩, B, one, 1)).1

def isZero (N H : Nat) (x : Trig) : Bool :=
  (List.range (H + 1)).all fun j => Poly.eqN N (x.gc j) [] && Poly.eqN N (x.gs j) []

/-- a pure sine series from its coefficients `s_1, s_2, …` -/
def ofSin (l : List Poly) : Trig := ⟨[], [] :: l⟩

end Trig
end GeoVerif.Series
