import GeoVerif.Series.Poly
import GeoVerif.Gen.GeodSeries
/-!
# The series tables of `Geodesic.cpp` as truncated power series, and their generating functions

Layout functions mirror the loops of `A1m1f`, `C1f`, `C1pf`, `A2m1f`, `C2f`
(block `l` has `m = (N − l)/2` + 1 numerator coefficients in ε², highest
first, followed by the common denominator).
-/
namespace GeoVerif.Series.Geod
open GeoVerif.Series Gen.GeodSeries

def N : Nat := order

/-- `1 + t` for the `A1m1f` / `A2m1f` layout: `t = polyval(m, coeff, ε²)/coeff[m+1]`, `m = N/2` -/
def onePlusT (tbl : List Rat) : Poly :=
  let m := N / 2
  let num := Poly.ofHighFirst (tbl.take (m + 1))
  Poly.add (N + 1) [1] (Poly.smul (1 / tbl.getD (m + 1) 1) (Poly.subSq num))

/-- block `l` (1-based) of the `C1f` / `C1pf` / `C2f` layout as a series in ε: `ε^l · polyval(m, …, ε²)/d` -/
def cBlock (tbl : List Rat) (l : Nat) : Poly :=
  -- offset of block l: Σ_{l' < l} ((N − l')/2 + 2)
  let o := ((List.range (l - 1)).map fun i => (N - (i + 1)) / 2 + 2).sum
  let m := (N - l) / 2
  let num := Poly.ofHighFirst ((tbl.drop o).take (m + 1))
  Poly.trunc (N + 1) (Poly.shift l (Poly.smul (1 / tbl.getD (o + m + 1) 1) (Poly.subSq num)))

/-- total number of table entries the layout consumes (must equal the table length) -/
def cSize : Nat := ((List.range N).map fun i => (N - (i + 1)) / 2 + 2).sum

/-- `Σ_j (bin a j)² ε^{2j}` -/
def meanSer (a : Rat) : Poly := (List.range (N + 1)).map fun k => if k % 2 == 0 then bin a (k / 2) * bin a (k / 2) else 0

/-- `(1/l) Σ_j bin a j · bin a (j+l) · ε^{2j+l}` -/
def harmSer (a : Rat) (l : Nat) : Poly := (List.range (N + 1)).map fun k =>
  if k ≥ l ∧ (k - l) % 2 == 0 then bin a ((k - l) / 2) * bin a ((k - l) / 2 + l) / l else 0

/-- A1: `(1 − ε)(1 + A1m1) = 1 + t = Σ b_j² ε^{2j}` with `b = bin ½` — the mean of `√(1 + k² sin²σ)·(1 − ε)` -/
def checkA1 : Bool := Poly.eqN (N + 1) (onePlusT A1m1f) (meanSer (1 / 2))

/-- C1_l · Σ b_j² ε^{2j} = (1/l) Σ b_j b_{j+l} ε^{2j+l}   (Fourier coefficient of the same integrand, integrated) -/
def checkC1 (l : Nat) : Bool :=
  Poly.eqN (N + 1) (Poly.mul (N + 1) (cBlock C1f l) (meanSer (1 / 2))) (harmSer (1 / 2) l)

/-- A2: `(1 + ε)(1 + A2m1) = 1 + t = (1 − ε²) Σ c_j² ε^{2j}` with `c = bin (−½)` — the mean of `(1 + ε)/√(1 + k² sin²σ)` -/
def checkA2 : Bool :=
  Poly.eqN (N + 1) (onePlusT A2m1f) (Poly.mul (N + 1) [1, 0, -1] (meanSer (-1 / 2)))

def checkC2 (l : Nat) : Bool :=
  Poly.eqN (N + 1) (Poly.mul (N + 1) (cBlock C2f l) (meanSer (-1 / 2))) (harmSer (-1 / 2) l)

end GeoVerif.Series.Geod
