import GeoVerif.Series.TrigTM
import GeoVerif.Model.TM
/-!
# The Krüger tables of `TransverseMercator.cpp` as truncated series in `n`, and their certificates

`alpS`, `betS` are built with the same layout function (`TM.block`) the executable series kernel uses:
coefficient `l` is `n^l · polyval(N − l, block, n) / denominator`.
-/
namespace GeoVerif.Series.TMS
open GeoVerif.Series GeoVerif.TM

/-- number of polynomial coefficients kept: everything is modulo `n^{N+1}` -/
def NP : Nat := TM.N + 1
/-- highest harmonic kept -/
def H : Nat := TM.N

/-- `_alp[l]` / `_bet[l]` as a polynomial in `n` -/
def coeffPoly (tbl : List Rat) (l : Nat) : Poly :=
  let b := TM.block tbl l
  Poly.trunc NP (Poly.shift l (Poly.smul (1 / b.2) (Poly.ofHighFirst b.1)))

def alpS : Trig := Trig.ofSin ((List.range TM.N).map fun i => coeffPoly Gen.TMSeries.alpcoeff (i + 1))
def betS : Trig := Trig.ofSin ((List.range TM.N).map fun i => coeffPoly Gen.TMSeries.betcoeff (i + 1))

/-- total number of entries the layout consumes -/
def tableSize : Nat := TM.blockOff (TM.N + 1)

/-- `G(F(ζ)) − ζ` for `F(ζ) = ζ + Σ α_j sin 2jζ`, `G(ζ) = ζ − Σ β_j sin 2jζ`:  `A(ζ) − B(ζ + A(ζ))` -/
def revertGF : Trig := Trig.sub NP H alpS (Trig.shift NP H (TM.N - 1) betS alpS)
/-- `F(G(ζ)) − ζ = −B(ζ) + A(ζ − B(ζ))` -/
def revertFG : Trig := Trig.sub NP H (Trig.shift NP H (TM.N - 1) alpS (Trig.neg betS)) betS

def checkRevertGF : Bool := Trig.isZero NP H revertGF
def checkRevertFG : Bool := Trig.isZero NP H revertFG

/-- `b1·(1 + n)` as a polynomial in `n` -/
def b1Poly : Poly :=
  let m := TM.N / 2
  Poly.trunc NP (Poly.smul (1 / Gen.TMSeries.b1coeff.getD (m + 1) 1) (Poly.subSq (Poly.ofHighFirst (Gen.TMSeries.b1coeff.take (m + 1)))))

/-- mean of `|1 − n e^{2iβ}| = √(1 + n² − 2n cos 2β)` over a period: `Σ_j C(½, j)² n^{2j}` (the meridian quadrant is `π a/(2(1+n))` times this) -/
def meanMeridian : Poly := (List.range NP).map fun k => if k % 2 == 0 then bin (1 / 2) (k / 2) * bin (1 / 2) (k / 2) else 0

def checkB1 : Bool := Poly.eqN NP b1Poly meanMeridian

/-- the structure the harmonic truncation relies on: coefficient `l` is `O(n^l)` and the leading terms are `α_1 = n/2 + …`, `β_1 = n/2 + …` -/
def checkShape : Bool :=
  (List.range TM.N).all (fun i => (List.range (i + 1)).all fun k => (alpS.gs (i + 1)).coeff k == 0 && (betS.gs (i + 1)).coeff k == 0) &&
  (alpS.gs 1).coeff 1 == 1 / 2 && (betS.gs 1).coeff 1 == 1 / 2

end GeoVerif.Series.TMS
