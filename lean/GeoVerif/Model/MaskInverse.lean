import GeoVerif.Model.Mask
import GeoVerif.Gen.LengthMask
/-!
# Dataflow model of `GenInverse` (series and exact) and of the rhumb solvers: which outputs are assigned under which
tests of the mask, and from which intermediate quantities (C12)

As in `Model/Mask.lean` the values are expression trees over uninterpreted symbols.  What is modelled:

* `Geodesic::Lengths` / `GeodesicExact::Lengths`: the tests `outmask & DISTANCE`, `outmask & (REDUCEDLENGTH | GEODESICSCALE)`, …
  on the mask it is *called with* (reduced by `OUT_MASK` resp. `OUT_ALL`), and the two ways the series version forms `J12`;
* the four ways `GenInverse` obtains `s12x`, `m12x`, `M12`, `M21`, `a12` (meridional, equatorial, short, Newton); the mask
  expressions it passes to `Lengths` are **not** written here: they are the functions `Gen.LengthMask.geod_meridian`,
  `geod_newton`, `geodx_meridian`, `geodx_newton` that the translator extracts from `Geodesic.cpp` / `GeodesicExact.cpp` on
  every run (the "canonical `lengthmask`");
* the final, mask-guarded assignments of `s12`, `m12`, `M12`/`M21` (with the swap), `S12`, and of `azi1`/`azi2` in the wrapper;
* `RhumbLine::GenPosition` and `Rhumb::GenInverse`.

The branch taken does not depend on the mask (`Lambda12`, `InverseStart` do not see it), so it is a parameter.
Not executed by the driver; validated by the harness's mask-independence oracle on the implementation.
-/
namespace GeoVerif.Mask
open GeoVerif.Gen

/-- the union of the documented flag constants selected by the 9 bits of `sel`
    (LATITUDE, LONGITUDE, AZIMUTH, DISTANCE, DISTANCE_IN, REDUCEDLENGTH, GEODESICSCALE, AREA, LONG_UNROLL) -/
def buildMask (e : Enum) (sel : Nat) : Nat :=
  ([e.latitude, e.longitude, e.azimuth, e.distance, e.distanceIn, e.reducedlength, e.geodesicscale, e.area, e.longUnroll].zipIdx.foldl
    (fun acc p => if sel.testBit p.2 then acc ||| p.1 else acc) 0)

mutual
/-- does the term read a local / field that was never assigned? -/
def T.hasUninit : T → Bool
  | .uninit _ => true
  | .ap _ args => T.anyUninit args
  | .sym _ => false
  | .zero => false
def T.anyUninit : List T → Bool
  | [] => false
  | a :: t => a.hasUninit || T.anyUninit t
end

structure LenOut where
  s12b : Option T
  m12b : Option T
  M12 : Option T
  M21 : Option T

def lenArgs : List T := [.sym "sig12", .sym "ssig1", .sym "csig1", .sym "dn1", .sym "ssig2", .sym "csig2", .sym "dn2"]

/-- `Geodesic::Lengths` (series); `lm` = the mask it is called with, already reduced by `outmask &= OUT_MASK` -/
def lengthsG (e : Enum) (lm : Nat) (eps : T) : LenOut :=
  let A1 : T := if wantLen e lm then .ap "1+A1m1f" [eps] else .zero
  let Ca : T := if wantLen e lm then .ap "C1f" [eps] else .uninit "Ca"
  let A2 : T := if wantLen e lm && wantRG e lm then .ap "1+A2m1f" [eps] else .zero
  let Cb : T := if wantLen e lm && wantRG e lm then .ap "C2f" [eps] else .uninit "Cb"
  let m0x : T := if wantLen e lm && wantRG e lm then .ap "A1m1f-A2m1f" [eps] else .zero
  let B1 : T := .ap "SinCosSeries(sig2)-SinCosSeries(sig1)" (Ca :: lenArgs)
  let J12 : T :=
    if want e lm .s12 then
      (if wantRG e lm then .ap "m0x*sig12+(A1*B1-A2*B2)" [m0x, .sym "sig12", A1, B1, A2, .ap "SinCosSeries(sig2)-SinCosSeries(sig1)" (Cb :: lenArgs)] else .zero)
    else if wantRG e lm then .ap "m0x*sig12+(SinCosSeries(A1*C1-A2*C2)(sig2)-SinCosSeries(A1*C1-A2*C2)(sig1))" ([m0x, A1, Ca, A2, Cb] ++ lenArgs)
    else .zero
  { s12b := if want e lm .s12 then some (.ap "A1*(sig12+B1)" [A1, .sym "sig12", B1]) else none
    m12b := if want e lm .m12 then some (.ap "dn2*(csig1*ssig2)-dn1*(ssig1*csig2)-csig1*csig2*J12" (J12 :: lenArgs)) else none
    M12 := if want e lm .M12 then some (.ap "csig12+(t*ssig2-csig2*J12)*ssig1/dn1" (J12 :: .sym "cbet1" :: .sym "cbet2" :: lenArgs)) else none
    M21 := if want e lm .M21 then some (.ap "csig12-(t*ssig1-csig1*J12)*ssig2/dn2" (J12 :: .sym "cbet1" :: .sym "cbet2" :: lenArgs)) else none }

/-- `GeodesicExact::Lengths`; `lm` already reduced by `outmask &= OUT_ALL` -/
def lengthsX (e : Enum) (lm : Nat) (E : T) : LenOut :=
  let J12 : T := if wantRG e lm then .ap "m0x*(sig12+(deltaD(sig2)-deltaD(sig1)))" (E :: lenArgs) else .uninit "J12"
  { s12b := if want e lm .s12 then some (.ap "E/(pi/2)*(sig12+(deltaE(sig2)-deltaE(sig1)))" (E :: lenArgs)) else none
    m12b := if wantRG e lm && want e lm .m12 then some (.ap "dn2*(csig1*ssig2)-dn1*(ssig1*csig2)-csig1*csig2*J12" (J12 :: lenArgs)) else none
    M12 := if wantRG e lm && want e lm .M12 then some (.ap "csig12+(t*ssig2-csig2*J12)*ssig1/dn1" (J12 :: .sym "cbet1" :: .sym "cbet2" :: lenArgs)) else none
    M21 := if wantRG e lm && want e lm .M21 then some (.ap "csig12-(t*ssig1-csig1*J12)*ssig2/dn2" (J12 :: .sym "cbet1" :: .sym "cbet2" :: lenArgs)) else none }

inductive InvBranch where
  | meridian | equatorial | short | newton
deriving Repr, DecidableEq

/-- how one solver calls `Lengths`: the mask on the meridional branch, the mask after Newton's method, the reduction
    `Lengths` applies, and `Lengths` itself -/
structure InvCfg where
  e : Enum
  mer : Nat → Nat
  newt : Nat → Nat
  red : Nat
  lengths : Enum → Nat → T → LenOut

def cfgG : InvCfg := ⟨geod, LengthMask.geod_meridian, LengthMask.geod_newton, LengthMask.geod_lengthsReduce, lengthsG⟩
def cfgX : InvCfg := ⟨geodx, LengthMask.geodx_meridian, LengthMask.geodx_newton, LengthMask.geodx_lengthsReduce, lengthsX⟩

/-- a local that was declared without initialiser and not assigned -/
def orUninit (name : String) : Option T → T
  | some t => t
  | none => .uninit name

structure InvCore where
  s12x : T
  m12x : T
  M12 : Option T
  M21 : Option T
  a12 : T

/-- the part of `GenInverse` (sin/cos form) up to `if (outmask & DISTANCE) s12 = …`; `m` = `outmask` as received -/
def invCore (c : InvCfg) (br : InvBranch) (m : Nat) : InvCore :=
  match br with
  | .meridian =>
    let L := c.lengths c.e (c.mer m &&& c.red) (.sym "_n|E")
    let s0 := orUninit "s12x" L.s12b
    let m0 := orUninit "m12x" L.m12b       -- `m12x = NaN` initially; `Lengths` is asked for it
    -- `if (sig12 < 3 * tiny_ || (sig12 < tol0_ && (s12x < 0 || m12x < 0))) sig12 = m12x = s12x = 0;`
    let fix : T := .ap "sig12<3*tiny||(sig12<tol0&&(s12x<0||m12x<0))" [.sym "sig12", s0, m0]
    { s12x := .ap "b*(fix?0:s12x)" [fix, s0], m12x := .ap "b*(fix?0:m12x)" [fix, m0], M12 := L.M12, M21 := L.M21,
      a12 := .ap "(fix?0:sig12)/degree" [fix, .sym "sig12"] }
  | .equatorial =>
    let cs : Option T := if want c.e m .M12 then some (.ap "cos(sig12)" [.sym "lam12", .sym "_f1"]) else none
    { s12x := .ap "a*lam12" [.sym "lam12"], m12x := .ap "b*sin(sig12)" [.sym "lam12", .sym "_f1"], M12 := cs, M21 := cs,
      a12 := .ap "lon12/f1" [.sym "lon12", .sym "_f1"] }
  | .short =>
    let cs : Option T := if want c.e m .M12 then some (.ap "cos(sig12/dnm)" [.sym "sig12", .sym "dnm"]) else none
    { s12x := .ap "sig12*b*dnm" [.sym "sig12", .sym "dnm"], m12x := .ap "dnm^2*b*sin(sig12/dnm)" [.sym "sig12", .sym "dnm"], M12 := cs, M21 := cs,
      a12 := .ap "sig12/degree" [.sym "sig12"] }
  | .newton =>
    let L := c.lengths c.e (c.newt m &&& c.red) (.sym "eps|E")
    { s12x := .ap "b*s12x" [orUninit "s12x" L.s12b], m12x := .ap "b*m12x" [orUninit "m12x" L.m12b], M12 := L.M12, M21 := L.M21,
      a12 := .ap "sig12/degree" [.sym "sig12"] }

/-- `GenInverse` (azimuth form): `outmask &= OUT_MASK`, the sin/cos form, then `azi1`, `azi2` under `AZIMUTH`.
    The term assigned to output `o` (`azi2` stands for the pair `azi1`, `azi2`); `none` = not assigned. -/
def genInverse (c : InvCfg) (wred : Nat) (br : InvBranch) (outmask : Nat) (o : Out) : Option T :=
  let m := outmask &&& wred
  let K := invCore c br m
  match o with
  | .s12 => if want c.e m .s12 then some (.ap "0+" [K.s12x]) else none
  | .m12 => if want c.e m .m12 then some (.ap "0+" [K.m12x]) else none
  -- `if (swapp < 0) { … if (outmask & GEODESICSCALE) swap(M12, M21); }`
  | .M12 => if want c.e m .M12 then (match K.M12, K.M21 with | some a, some b => some (.ap "swapp<0?M21:M12" [a, b]) | _, _ => none) else K.M12
  | .M21 => if want c.e m .M21 then (match K.M12, K.M21 with | some a, some b => some (.ap "swapp<0?M12:M21" [a, b]) | _, _ => none) else K.M21
  | .S12 => if want c.e m .S12 then some (.ap "S12(salp1,calp1,salp2,calp2,sbet1,cbet1,sbet2,cbet2,omg12|domg12)" [.sym "br"]) else none
  | .azi2 => if want c.e m .azi2 then some (.ap "atan2d" [.sym "salp2", .sym "calp2"]) else none
  | .lat2 => none
  | .lon2 => none

/-- the value `GenInverse` returns -/
def genInverseRet (c : InvCfg) (wred : Nat) (br : InvBranch) (outmask : Nat) : T := (invCore c br (outmask &&& wred)).a12

/-! ### rhumb -/

/-- `RhumbLine::GenPosition`: the term assigned to `lat2`, `lon2`, `S12` (`pole` = the branch `|mu2| > 90°`).
    `S12` is computed from the longitude difference *before* it is reduced or added to `lon1`. -/
def rhumbPosition (outmask : Nat) (pole : Bool) (o : Out) : Option T :=
  let lon12 : T := .ap "r12*salp/dmudpsi" [.sym "r12", .sym "_salp", .sym "dmudpsi"]
  match o with
  | .lat2 => if (outmask &&& Mask.rhumb_LATITUDE) != 0 then some (if pole then .ap "lat2(pole)" [.sym "mu2"] else .ap "phi2.degrees" [.sym "mu2"]) else none
  | .lon2 => if (outmask &&& Mask.rhumb_LONGITUDE) != 0 then
      some (if pole then .sym "NaN" else if (outmask &&& Mask.rhumb_LONG_UNROLL) != 0 then .ap "add" [.sym "_lon1", lon12]
            else .ap "AngNormalize(AngNormalize(lon1)+lon12)" [.sym "_lon1", lon12]) else none
  | .S12 => if (outmask &&& Mask.rhumb_AREA) != 0 then some (if pole then .sym "NaN" else .ap "c2*lon12*MeanSinXi" [lon12, .sym "_chi1", .sym "chi2"]) else none
  | _ => none

/-- `Rhumb::GenInverse`: `s12`, `azi12` (slot `azi2`), `S12` -/
def rhumbInverse (outmask : Nat) (o : Out) : Option T :=
  match o with
  | .azi2 => if (outmask &&& Mask.rhumb_AZIMUTH) != 0 then some (.ap "atan2d" [.sym "lam12", .sym "psi12"]) else none
  | .s12 => if (outmask &&& Mask.rhumb_DISTANCE) != 0 then some (.ap "s12" [.sym "lam12", .sym "psi12", .sym "phi1", .sym "phi2"]) else none
  | .S12 => if (outmask &&& Mask.rhumb_AREA) != 0 then some (.ap "c2*lon12*MeanSinXi" [.sym "lon12", .sym "chi1", .sym "chi2"]) else none
  | _ => none

end GeoVerif.Mask
