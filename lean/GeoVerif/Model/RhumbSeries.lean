import GeoVerif.Basic.RealLike
import GeoVerif.Model.MathF
import GeoVerif.Model.AuxLat
import GeoVerif.Model.Rhumb
import GeoVerif.Gen.RhumbArea
/-!
# The series path of `Rhumb`, end to end (`exact = false`)

`Rhumb::Rhumb` (constants, `AreaCoeffs` on the extracted table), `AuxAngle` (`normalized`, `radians`, `tan`, `lam`, `degrees`),
`AuxLatitude::Convert` (series branch), `DAuxLatitude::DConvert`, `Rhumb::MeanSinXi`, `Rhumb::GenInverse`,
`RhumbLine::RhumbLine` and `RhumbLine::GenPosition` — the same operations in the same order, written once over `RealLike`:

* executed in the running-error arithmetic `RE` (`FP/RunErr.lean`) against the implementation (`Corr/C09.lean`, ops `rsconst`,
  `rsinv`, `rsline`, `rspos`, `dconv`, `msxs`);
* read at `ℝ` in `Props/C09.lean`, for **every** coefficient list (`Params` is a record of lists; the instance executed by the
  driver fills it from `Gen/AuxSeries.lean` and `Gen/RhumbArea.lean`, re-extracted from the sources on every run).

What is *not* part of the formula model: the `isnan`/`isinf` shelters (`AuxAngle::normalized` on (0,0)/(inf,inf), `Dlam`/`Dp0Dpsi`
with infinite arguments).  A pole is recognised here by `cos = 0` of the angle handed over, which is what makes the tangent infinite.
Core Lean only.
-/
namespace GeoVerif.RhumbS
open GeoVerif GeoVerif.RealLike GeoVerif.Rhumb
open GeoVerif.RealLike.Lits

variable {α : Type} [RealLike α]

/-- an `AuxAngle`: `(y, x)` -/
abbrev Ang (α : Type) := α × α

/-- `Math::degree()` = `pi()/hd` -/
def degree : α := RealLike.pi / 180

/-! ### `AuxAngle` -/

/-- `AuxAngle::normalized()` (finite, non-zero point) -/
def normalized (p : Ang α) : Ang α := let r := RealLike.hypot p.1 p.2; (p.1 / r, p.2 / r)
/-- `AuxAngle::radians()` -/
def radians (p : Ang α) : α := RealLike.atan2 p.1 p.2
/-- `AuxAngle::tan()` -/
def tanA (p : Ang α) : α := p.1 / p.2
/-- `AuxAngle::lam()` -/
def lam (p : Ang α) : α := RealLike.asinh (tanA p)

/-- the octant logic of `Math::atan2d` is the generic one of `Model/MathF.lean` (proved correct over ℝ in `Props/C16.lean`),
    read with the operations of `RealLike` -/
def angOps : MathF.AngOps α :=
  { abs := RealLike.abs, gt := fun a b => RealLike.ltb b a, signbit := fun x => RealLike.ltb x 0, neg := fun x => -x,
    add := fun a b => a + b, sub := fun a b => a - b,
    copysign := fun a b => if RealLike.ltb b 0 then -(RealLike.abs a) else RealLike.abs a, hd := 180, qd := 90 }

/-- `Math::atan2d(y, x)` -/
def atan2d (y x : α) : α :=
  let c := MathF.atan2dCanonG angOps y x
  MathF.atan2dWrapG angOps y x (RealLike.atan2 c.1 c.2.1 / degree)

/-- `AuxAngle::degrees()` -/
def degreesA (p : Ang α) : α := atan2d p.1 p.2

/-- `Math::sincosd(x)` for `|x| ≤ 90` (what `AuxAngle::degrees(mu2)` needs in `GenPosition`): `remquo(x, 90)` is `0` for `|x| ≤ 45`
    (ties to even) and `±1` beyond, the reduced angle is formed exactly; special values at 45° and 30° as in the code -/
def sincosd90 (x : α) : Ang α :=
  let q : Int := if RealLike.leb (RealLike.abs x) 45 then 0 else if RealLike.ltb 0 x then 1 else -1
  let d := if q == 0 then x else if q == 1 then x - 90 else x + 90
  let r := d * degree
  let s0 := RealLike.sin r; let c0 := RealLike.cos r
  let ad := RealLike.abs d
  let sgn (m : α) : α := if RealLike.ltb r 0 then -m else m
  let (s, c) : α × α :=
    if RealLike.eqb (2 * ad) 90 then (sgn (RealLike.sqrt (1 / 2)), RealLike.sqrt (1 / 2))
    else if RealLike.eqb (3 * ad) 90 then (sgn (1 / 2), RealLike.sqrt 3 / 2)
    else (s0, c0)
  if q == 0 then (s, c) else if q == 1 then (c, -s) else (-c, s)

/-! ### `AuxLatitude::Convert` (series) and `DAuxLatitude::DConvert` on a coefficient list -/

/-- `Convert(auxin, auxout, zeta, exact = false)`: normalise, Clenshaw sum `d = Σ c_k sin((2k+2)ζ)`, rotate by `d` -/
def convertS (c : List α) (z : Ang α) : Ang α :=
  let zn := normalized z
  AuxLat.rotate zn.1 zn.2 (clenshaw true zn.1 zn.2 c)

/-- `DConvert(auxin, auxout, zeta1, zeta2)` -/
def dconvert (c : List α) (z1 z2 : Ang α) : α :=
  let z1n := normalized z1; let z2n := normalized z2
  1 + DClenshaw true (radians z2n - radians z1n) z1n.1 z1n.2 z2n.1 z2n.2 c

/-! ### the `Rhumb` object -/

/-- the coefficient lists `Rhumb` uses (names: `c<out><in>`) and its constants -/
structure Params (α : Type) where
  cChiPhi : List α
  cMuPhi : List α
  cPhiMu : List α
  cMuChi : List α
  cPhiChi : List α
  cBetaPhi : List α
  cBetaChi : List α
  pP : List α
  rm : α
  c2 : α

/-- `Rhumb::AreaCoeffs()` (series branch) on the table re-extracted into `Gen/RhumbArea.lean`:
    `d *= n; _pP[l] = d * polyval(Lmax − l − 1, coeffs + o, n); o += Lmax − l` -/
def areaCoeffs (n : α) : List α :=
  open Gen.RhumbArea in
  ((List.range Lmax).foldl (fun (acc : List α × Nat × α) l =>
      let (cs, o, d) := acc
      let m := Lmax - l - 1
      let d := d * n
      let p : List α := ((coeffs.drop o).take (m + 1)).map AuxLat.ofRat
      (cs ++ [d * AuxLat.polyval p n], o + m + 1, d)) ([], 0, 1)).1

/-- `Rhumb::Rhumb(a, f, exact = false)`: `_rm`, `_c2`, `_pP` and the `AuxLatitude` series coefficients
    (enum `GEOGRAPHIC = 0, PARAMETRIC = 1, GEOCENTRIC = 2, RECTIFYING = 3, CONFORMAL = 4, AUTHALIC = 5`) -/
def params (a f : α) : Params α :=
  let n := AuxLat.ctorN f
  let C (out inn : Nat) := AuxLat.fillcoeff n out inn
  { cChiPhi := C 4 0, cMuPhi := C 3 0, cPhiMu := C 0 3, cMuChi := C 3 4, cPhiChi := C 0 4, cBetaPhi := C 1 0, cBetaChi := C 1 4,
    pP := areaCoeffs n,
    rm := AuxLat.rectifyingRadiusSeries a f,
    c2 := AuxLat.authalicRadiusSqSeries a f * degree }

/-- `Rhumb::EllipsoidArea()` -/
def ellipsoidArea (c2 : α) : α := 2 * 360 * c2

/-! ### `Rhumb::MeanSinXi` -/

/-- the regular case (both tangents finite) -/
def meanSinXiReg (P : Params α) (chix chiy : Ang α) : α :=
  let phix := convertS P.cPhiChi chix; let phiy := convertS P.cPhiChi chiy
  let betax := normalized (convertS P.cBetaPhi phix); let betay := normalized (convertS P.cBetaPhi phiy)
  let DpbetaDbeta := DClenshaw false (radians betay - radians betax) betax.1 betax.2 betay.1 betay.2 P.pP
  let tx := tanA chix; let ty := tanA chiy
  let DbetaDpsi := dconvert P.cBetaChi chix chiy / Dlam tx ty
  Dp0Dpsi tx ty + DpbetaDbeta * DbetaDpsi

/-- with the pole shelters of `Dlam` (∞, so that `DbetaDpsi = 0`) and `Dp0Dpsi` (`copysign(1, tan)`) -/
def meanSinXi (P : Params α) (chix chiy : Ang α) : α :=
  let sg (p : Ang α) : α := if RealLike.ltb p.1 0 then -1 else 1
  if RealLike.eqb chix.2 0 then sg chix else if RealLike.eqb chiy.2 0 then sg chiy else meanSinXiReg P chix chiy

/-! ### `Rhumb::GenInverse` -/

/-- `dmu/dpsi` as both solvers form it in series mode -/
def dmudpsiS (P : Params α) (chi1 chi2 : Ang α) : α :=
  dconvert P.cMuChi chi1 chi2 / Dlam (tanA chi1) (tanA chi2)

/-- `(s12, azi12 in degrees, S12)` from `phi_i = AuxAngle::degrees(lat_i)` and `lon12 = AngDiff(lon1, lon2)` -/
def genInverseS (P : Params α) (phi1 phi2 : Ang α) (lon12 : α) : α × α × α :=
  let chi1 := convertS P.cChiPhi phi1; let chi2 := convertS P.cChiPhi phi2
  let lam12 := lon12 * degree
  let psi1 := lam chi1; let psi2 := lam chi2
  let psi12 := psi2 - psi1
  let azi12 := atan2d lam12 psi12
  let polar := RealLike.eqb chi1.2 0 || RealLike.eqb chi2.2 0
  let s12 :=
    if polar then RealLike.abs (radians (convertS P.cMuPhi phi2) - radians (convertS P.cMuPhi phi1)) * P.rm
    else RealLike.hypot lam12 psi12 * dmudpsiS P chi1 chi2 * P.rm
  (s12, azi12, P.c2 * lon12 * meanSinXi P chi1 chi2)

/-! ### `RhumbLine` -/

structure Line (α : Type) where
  salp : α
  calp : α
  phi1 : Ang α
  mu1 : α
  chi1 : Ang α
  psi1 : α

/-- `RhumbLine::RhumbLine` from `(salp, calp) = sincosd(AngNormalize(azi12))`, `phi = AuxAngle::degrees(lat1)` and `eps2 = ε²` -/
def lineInit (P : Params α) (phi : Ang α) (salp calp eps2 : α) : Line α :=
  let phi1 : Ang α := (phi.1, if RealLike.eqb phi.2 0 then eps2 else phi.2)
  let chi1 := convertS P.cChiPhi phi1
  { salp := salp, calp := calp, phi1 := phi1, mu1 := degreesA (convertS P.cMuPhi phi1), chi1 := chi1, psi1 := lam chi1 }

/-- `r12`, `mu2` of `GenPosition` -/
def positionMuS (P : Params α) (L : Line α) (s12 : α) : α × α :=
  let r12 := s12 / (P.rm * degree)
  (r12, L.mu1 + r12 * L.calp)

structure PosOut (α : Type) where
  phi2 : Ang α
  chi2 : Ang α
  lat2 : α
  lon2x : α
  S12 : α

/-- the regular branch `|mu2| ≤ 90` of `GenPosition` (before the longitude is normalised) -/
def genPositionReg (P : Params α) (L : Line α) (r12 mu2 : α) : PosOut α :=
  let phi2 := convertS P.cPhiMu (sincosd90 mu2)
  let chi2 := convertS P.cChiPhi phi2
  let dmudpsi := dmudpsiS P L.chi1 chi2
  let lon2x := r12 * L.salp / dmudpsi
  { phi2 := phi2, chi2 := chi2, lat2 := degreesA phi2, lon2x := lon2x, S12 := P.c2 * lon2x * meanSinXi P L.chi1 chi2 }

/-- the branch beyond a pole, from the reduced rectifying latitude (`poleFold`, exact): the latitude only -/
def genPositionPole (P : Params α) (mu2folded : α) : α := degreesA (convertS P.cPhiMu (sincosd90 mu2folded))

end GeoVerif.RhumbS
