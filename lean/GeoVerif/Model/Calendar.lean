/-!
# `Utility::day / date / dow` (src/Utility.cpp, Utility.hpp): executable integer model (core Lean only)

The C++ code computes in `int` with truncating `/` and `%`; the model uses `Int.tdiv` / `Int.tmod` on unbounded
integers (the library guards its arguments so that nothing overflows: |y| ≤ 200000, |m| ≤ 100000, |d| ≤ 10⁷ for
`day`, |s| ≤ 5·10⁸ for `date`; the guards are part of the model, `none` = `GeographicErr`).

The calendar is the one documented in `Utility.hpp`: proleptic Julian up to 1752-09-02, Gregorian from 1752-09-14
(the switch of the English-speaking world), the year always beginning on January 1, day 1 = 0001-01-01 (a Saturday).
`Valid` / `monthLength` / `leap` below are the *independent* statement of those rules (no day numbers involved);
the theorems of `Props/C10.lean` tie the two together.
-/
namespace GeoVerif.Calendar

/-- `gregorian(int y, int m, int d)` -/
def gregYMD (y m d : Int) : Bool := decide (100 * (100 * y + m) + d ≥ 17520914)
/-- `gregorian(int s)` : 639799 = 1752-09-14 -/
def gregS (s : Int) : Bool := decide (s ≥ 639799)

/-- the arithmetic of `Utility::day(int y, int m, int d)` (behind the range guard) -/
def dayRaw (y m d : Int) : Int :=
  let greg := gregYMD y m d
  let y1 := y + (m + 9).tdiv 12 - 1
  let m1 := (m + 9).tmod 12
  (1461 * y1).tdiv 4
    + (if greg then (y1.tdiv 100).tdiv 4 - y1.tdiv 100 + 2 else 0)
    + (153 * m1 + 2).tdiv 5 + d - 1 - 305

def dayGuard (y m d : Int) : Bool :=
  decide (-200000 ≤ y ∧ y ≤ 200000 ∧ -100000 ≤ m ∧ m ≤ 100000 ∧ -10000000 ≤ d ∧ d ≤ 10000000)

/-- `Utility::day(int y, int m, int d)`; `none` = the range guard throws -/
def day (y m d : Int) : Option Int := if dayGuard y m d then some (dayRaw y m d) else none

/-- the arithmetic of `Utility::date(int s, int& y, int& m, int& d)` (behind the range guard) -/
def dateRaw (s : Int) : Int × Int × Int :=
  let greg := gregS s
  let s := s + 305
  let s := if greg then s - 2 else s
  let c := if greg then (4 * s + 3).tdiv 146097 else 0
  let s := if greg then s - (c * 146097).tdiv 4 else s
  let y := (4 * s + 3).tdiv 1461
  let s := s - (1461 * y).tdiv 4
  let y := y + c * 100
  let m := (5 * s + 2).tdiv 153
  let s := s - (153 * m + 2).tdiv 5
  let d := s + 1
  (y + (m + 2).tdiv 12, (m + 2).tmod 12 + 1, d)

def dateGuard (s : Int) : Bool := decide (-500000000 ≤ s ∧ s ≤ 500000000)

/-- `Utility::date(int s, …)` -/
def date (s : Int) : Option (Int × Int × Int) := if dateGuard s then some (dateRaw s) else none

/-- `Utility::day(int y, int m, int d, bool check)` with `check = true`: the day number if the date survives the round
trip and is not before 0001-01-01, else `none` (= `GeographicErr`) -/
def dayChecked (y m d : Int) : Option Int :=
  match day y m d with
  | none => none
  | some s =>
    match date s with
    | none => none
    | some (y1, m1, d1) => if s > 0 ∧ y = y1 ∧ m = m1 ∧ d = d1 then some s else none

/-- `Utility::dow(int s)` : `int((s + 5LL) % 7)` -/
def dow (s : Int) : Int := (s + 5).tmod 7

/-- `Utility::dow(int y, int m, int d)` -/
def dowYMD (y m d : Int) : Option Int := (day y m d).map dow

/-! ## the documented calendar, stated without day numbers -/

/-- leap years: every fourth year up to 1752 (Julian), the Gregorian rule afterwards -/
def leap (y : Int) : Bool :=
  if y ≤ 1752 then y % 4 == 0 else (y % 4 == 0 && (y % 100 != 0 || y % 400 == 0))

def monthLength (y m : Int) : Int :=
  if m = 2 then (if leap y then 29 else 28)
  else if m = 4 ∨ m = 6 ∨ m = 9 ∨ m = 11 then 30 else 31

/-- a date of the documented calendar: 1752-09-03 … 1752-09-13 do not exist -/
def Valid (y m d : Int) : Prop :=
  1 ≤ y ∧ 1 ≤ m ∧ m ≤ 12 ∧ 1 ≤ d ∧ d ≤ monthLength y m ∧ ¬ (y = 1752 ∧ m = 9 ∧ 3 ≤ d ∧ d ≤ 13)

instance (y m d : Int) : Decidable (Valid y m d) := by unfold Valid; infer_instance

/-- the date following `(y, m, d)` in the documented calendar -/
def nextDate (y m d : Int) : Int × Int × Int :=
  if y = 1752 ∧ m = 9 ∧ d = 2 then (1752, 9, 14)
  else if d < monthLength y m then (y, m, d + 1)
  else if m < 12 then (y, m + 1, 1) else (y + 1, 1, 1)

/-- `T(y) + T(t - day(y)) / T(day(y + 1) - day(y))` of `Utility::fractionalyear` as an exact rational `(num, den)`:
`y + num/den`; `none` when the date is rejected -/
def fracYear (y m d : Int) : Option (Int × Int × Int) :=
  match dayChecked y m d, day y 1 1, day (y + 1) 1 1 with
  | some t, some a, some b => some (y, t - a, b - a)
  | _, _, _ => none

/-- rolling hash of `(date s, dow s)` over `s0 ≤ s < s0 + n` (exhaustive comparison with the implementation on one line) -/
def scanHash (s0 : Int) (n : Nat) : Nat := Id.run do
  let mut h : Nat := 0
  for i in [0:n] do
    let s := s0 + i
    let (y, m, d) := dateRaw s
    let back := dayRaw y m d
    let v : Int := ((y * 16 + m) * 32 + d) * 8 + dow s
    h := (h * 1000003 + v.toNat + (if back = s then 0 else 1)) % 2305843009213693951
  return h

end GeoVerif.Calendar
