import GeoVerif.Model.IntersectFix
import GeoVerif.Gen.IntersectC
/-!
# `Intersect.cpp`: the search bookkeeping around the numeric kernels

Kernel-parametric model of `Intersect::Basic` (iteration skeleton around `Spherical`), `ClosestInt`, `NextInt`,
`SegmentInt`, `AllInt0` around abstract kernels

* `sph   : XP α → XP α`       — `Spherical(lineX, lineY, ·)` (for `basic`),
* `basic : XP α → XP α`       — `Basic(lineX, lineY, ·)` (for the four searches),
* `conj  : α → α`             — `ConjugateDist(lineX, ·, false)` (`NextInt`),
* `conj2 : α → α → α`         — `ConjugateDist(lineX, ·, false, m12(s0), M12(s0), M21(s0))` as a function of `(s0, s3)` (`AllInt0`),

polymorphic over `RealLike` (executed at `Float` by the driver on the kernel values of the real object, read at `ℝ` by the
theorems of `Props/C17.lean`).  Same control flow as the code: the start points with their offsets (`ix`, `iy` tables and the
iteration cap `numit_` come from `Gen/IntersectC.lean`, i.e. from the current source), the pruning tests, the `XPoint`
equality / ordering classes (`SetComp::eq`, `SetComp::operator()`, `RankPoint`), the de-duplication set and the final sort.

Two representation choices (both behaviour-preserving):
* the `skip[]` flags are kept as the list `pr` of the points that pruned so far: `skip[m]` is set in the code when some
  earlier accepted point `qy` has `qy.Dist(start m) < thr`, which is exactly `skipped pr thr (start m)`;
* `std::set<XPoint, SetComp>` is a list kept sorted by the comparator (`setFind` = `lower_bound` + equivalence test,
  `setInsert` = unique insertion at the lower bound).  For a comparator that is a strict weak order on the points involved
  this *is* the behaviour of `std::set`; where it is not, `std::set` has no specified behaviour at all.
Core Lean only.
-/
namespace GeoVerif.IntersectSearch
open GeoVerif GeoVerif.IntersectFix

variable {α : Type} [RealLike α]

/-- the bookkeeping constants of an `Intersect` object (`_d`, `_t1`, `_delta`, `_d1`, `_d2`, `_d3`, `_tol`) -/
structure Consts (α : Type) where
  d : α
  t1 : α
  delta : α
  d1 : α
  d2 : α
  d3 : α
  tol : α

@[inline] def zero : α := RealLike.ofNat 0
@[inline] def two : α := RealLike.ofNat 2
/-- `isnan` -/
def isNaN (v : α) : Bool := !RealLike.eqb v v

/-- `XPoint(x, y)` (c = 0) -/
def mk0 (x y : α) : XP α := ⟨x, y, 0⟩
/-- `XPoint::operator+` : a non-zero `c` of the right operand wins -/
def XP.add (p q : XP α) : XP α := { x := p.x + q.x, y := p.y + q.y, c := if q.c ≠ 0 then q.c else p.c }
/-- the L1 norm `d1(x, y)` -/
def l1 (x y : α) : α := RealLike.abs x + RealLike.abs y
/-- `XPoint::Dist()` -/
def dist0 (p : XP α) : α := l1 p.x p.y
/-- `XPoint::Dist(q)`, `Intersect::Dist(p, q)` -/
def dist (p q : XP α) : α := l1 (p.x - q.x) (p.y - q.y)
/-- `SetComp::eq` -/
def ceq (delta : α) (p q : XP α) : Bool := RealLike.leb (dist p q) delta
/-- `SetComp::operator()` as repaired by d3a4710 -/
def clt (delta : α) (p q : XP α) : Bool :=
  !ceq delta p q && (if RealLike.ltb delta (RealLike.abs (p.x - q.x)) then RealLike.ltb p.x q.x else RealLike.ltb p.y q.y)
/-- `SetComp::operator()` before d3a4710 (finding F58) -/
def cltOld (delta : α) (p q : XP α) : Bool :=
  !ceq delta p q && (if !RealLike.eqb p.x q.x then RealLike.ltb p.x q.x else RealLike.ltb p.y q.y)
/-- `RankPoint(p0)::operator()` -/
def rlt (p0 p q : XP α) : Bool :=
  let dp := dist p p0; let dq := dist q p0
  if !RealLike.eqb dp dq then RealLike.ltb dp dq
  else if !RealLike.eqb p.x q.x then RealLike.ltb p.x q.x else RealLike.ltb p.y q.y

/-- two-argument `fixcoincident(p0, p)` -/
def fixc (p0 p : XP α) : XP α := fixcoincident p0 p p.c

/-- `skip[m]` at the time start `s = start m` is reached: some earlier pruning point lies within `thr` of it -/
def skipped (pr : List (XP α)) (thr : α) (s : XP α) : Bool := pr.any fun qy => RealLike.ltb (dist qy s) thr

/-! ## `Basic` : the iteration skeleton -/

/-- the loop of `Basic`: returns the point and the number of kernel calls (`_cnt0` increment) -/
def basicLoop (sph : XP α → XP α) (tol : α) : Nat → XP α → Nat → XP α × Nat
  | 0, q, n => (q, n)
  | fuel + 1, q, n =>
    let dq := sph q
    let q' := XP.add q dq
    if q'.c != 0 || !RealLike.ltb tol (dist0 dq) then (q', n + 1) else basicLoop sph tol fuel q' (n + 1)

def basic (sph : XP α → XP α) (tol : α) (p0 : XP α) : XP α × Nat :=
  basicLoop sph tol Gen.IntersectC.numit p0 0

/-! ## `ClosestInt` -/

def offsets (ix iy : List Int) : List (Int × Int) := ix.zip iy

/-- `p0 + XPoint(ix * d, iy * d)` -/
def startAt (p0 : XP α) (d : α) (o : Int × Int) : XP α := XP.add p0 (mk0 (ofC o.1 * d) (ofC o.2 * d))

def closestStarts (C : Consts α) (p0 : XP α) : List (XP α) :=
  (offsets Gen.IntersectC.closestIx Gen.IntersectC.closestIy).map (startAt p0 C.d1)

/-- result of a search: best point so far (`none` = the default-constructed NaN `XPoint`), the starts at which `Basic` was
    called (`_cnt1`), the number of changes of the best point (`_cnt2`) -/
structure Out (α : Type) where
  q : Option (XP α)
  visited : List (XP α)
  nchange : Nat

/-- `_comp.eq(q, qx)` with `q` possibly the NaN point -/
def eqO (delta : α) : Option (XP α) → XP α → Bool
  | none, _ => false
  | some q, qx => ceq delta q qx

/-- `qx.Dist(p0) < q.Dist(p0)` with `q` possibly the NaN point -/
def ltO (p0 qx : XP α) : Option (XP α) → Bool
  | none => false
  | some q => RealLike.ltb (dist qx p0) (dist q p0)

def closestThr (C : Consts α) : α := two * C.t1 - C.d1 - C.delta

def closestLoop (C : Consts α) (basic : XP α → XP α) (p0 : XP α) :
    Bool → List (XP α) → List (XP α) → Out α → Out α
  | _, [], _, o => o
  | first, s :: rest, pr, o =>
    if skipped pr (closestThr C) s then closestLoop C basic p0 false rest pr o else
    let qx := fixc p0 (basic s)
    let o1 : Out α := { o with visited := o.visited ++ [s] }
    if eqO C.delta o.q qx then closestLoop C basic p0 false rest pr o1
    else if RealLike.ltb (dist qx p0) C.t1 then { o1 with q := some qx, nchange := o.nchange + 1 }
    else
      let o2 : Out α := if first || ltO p0 qx o.q then { o1 with q := some qx, nchange := o.nchange + 1 } else o1
      closestLoop C basic p0 false rest (qx :: pr) o2

def closestInt (C : Consts α) (basic : XP α → XP α) (p0 : XP α) : Out α :=
  closestLoop C basic p0 true (closestStarts C p0) [] { q := none, visited := [], nchange := 0 }

/-! ## `NextInt` -/

def nextStarts (C : Consts α) : List (XP α) :=
  (offsets Gen.IntersectC.nextIx Gen.IntersectC.nextIy).map fun o => mk0 (ofC o.1 * C.d2) (ofC o.2 * C.d2)

structure NOut (α : Type) where
  q : XP α
  visited : List (XP α)
  nchange : Nat
  /-- returned early because `Basic` produced NaN -/
  nan : Bool

def nextThr (C : Consts α) : α := two * C.t1 - C.d2 - C.delta

/-- `if (qa.Dist() < q.Dist()) { q = qa; ++_cnt2; }` -/
def better (o : NOut α) (qa : XP α) : NOut α :=
  if RealLike.ltb (dist0 qa) (dist0 o.q) then { o with q := qa, nchange := o.nchange + 1 } else o

/-- the candidate `(s, c s, c)` at the conjugate point in direction `sgn` -/
def conjCand (C : Consts α) (conj : α → α) (c : Int) (sgn : Int) : XP α :=
  let s := conj (ofC sgn * C.d)
  ⟨s, ofC c * s, c⟩

/-- the points `qy` that update the skip flags after `qx` was processed -/
def nextPruners (C : Consts α) (qx : XP α) (zerop : Bool) : List (XP α) :=
  let sh (sgn : Int) : XP α := XP.add qx (mk0 (ofC sgn * C.d2) (ofC (qx.c * sgn) * C.d2))
  if qx.c == 0 then (if zerop then [] else [qx])
  else if zerop then [sh (-1), sh 1] else [sh (-1), sh 0, sh 1]

def nextLoop (C : Consts α) (basic : XP α → XP α) (conj : α → α) :
    List (XP α) → List (XP α) → NOut α → NOut α
  | [], _, o => o
  | s :: rest, pr, o =>
    if skipped pr (nextThr C) s then nextLoop C basic conj rest pr o else
    let qx0 := basic s
    let o1 : NOut α := { o with visited := o.visited ++ [s] }
    if isNaN (qx0.x + qx0.y) then { o1 with q := qx0, nan := true } else
    let z : XP α := mk0 zero zero
    let qx := fixc z qx0
    let zerop := ceq C.delta z qx
    if qx.c == 0 && zerop then nextLoop C basic conj rest pr o1 else
    let o2 : NOut α :=
      if qx.c != 0 && zerop then better (better o1 (conjCand C conj qx.c (-1))) (conjCand C conj qx.c 1)
      else better o1 qx
    nextLoop C basic conj rest (nextPruners C qx zerop ++ pr) o2

/-- the candidates a start contributes to `NextInt` (specification of one pass through the loop body, NaN aside): nothing if
    `Basic` lands in the origin class with `c = 0`; the two conjugate points if it reports coincident lines at the origin;
    otherwise the (centred) point itself -/
def candsOf (C : Consts α) (basic : XP α → XP α) (conj : α → α) (s : XP α) : List (XP α) :=
  let qx := fixc (mk0 zero zero) (basic s)
  let zerop := ceq C.delta (mk0 zero zero) qx
  if qx.c == 0 && zerop then []
  else if qx.c != 0 && zerop then [conjCand C conj qx.c (-1), conjCand C conj qx.c 1]
  else [qx]

/-- `big` stands for `Math::infinity()` in the initial best point `(inf, 0)` -/
def nextInt (C : Consts α) (basic : XP α → XP α) (conj : α → α) (big : α) : NOut α :=
  nextLoop C basic conj (nextStarts C) [] { q := mk0 big zero, visited := [], nchange := 0, nan := false }

/-! ## `SegmentInt` -/

structure SOut (α : Type) where
  q : XP α
  segmode : Int
  /-- the search of `ClosestInt` about the mid points -/
  closest : Out α
  /-- corners at which `Basic` was called (`_cnt3`) -/
  corners : List (XP α)
  /-- a corner result replaced the closest intersection (`_cnt4`) -/
  override : Bool

/-- the loop over the four corners: state = (`segmodex`, `qx`, corners visited) -/
def cornerLoop (C : Consts α) (basic : XP α → XP α) (sx sy : α) (q : XP α) :
    List (XP α) → Int × Option (XP α) × List (XP α) → Int × Option (XP α) × List (XP α)
  | [], st => st
  | t :: rest, (segmodex, qx, vis) =>
    if segmodex == 0 then (segmodex, qx, vis)
    else if RealLike.leb (two * C.t1) (dist q t) then
      let qx' := fixc t (basic t)
      cornerLoop C basic sx sy q rest (segmentmode sx sy qx', some qx', vis ++ [t])
    else cornerLoop C basic sx sy q rest (segmodex, qx, vis)

def corners (sx sy : α) : List (XP α) :=
  [mk0 (ofC 0 * sx) (ofC 0 * sy), mk0 (ofC 0 * sx) (ofC 1 * sy), mk0 (ofC 1 * sx) (ofC 0 * sy), mk0 (ofC 1 * sx) (ofC 1 * sy)]

def segmentInt (C : Consts α) (basic : XP α → XP α) (sx sy : α) : Option (SOut α) :=
  let p0 : XP α := mk0 (sx / two) (sy / two)
  let cl := closestInt C basic p0
  match cl.q with
  | none => none
  | some q0 =>
    let q := fixsegment sx sy q0
    let segmode := segmentmode sx sy q
    if segmode != 0 && RealLike.leb (dist p0 q) (dist0 p0) then
      match cornerLoop C basic sx sy q (corners sx sy) (1, none, []) with
      | (0, some qx, vis) => some { q := qx, segmode := 0, closest := cl, corners := vis, override := true }
      | (_, _, vis) => some { q := q, segmode := segmode, closest := cl, corners := vis, override := false }
    else some { q := q, segmode := segmode, closest := cl, corners := [], override := false }

/-! ## `AllInt0` -/

/-- `set::find`: lower bound, then equivalence -/
def setFind (lt : XP α → XP α → Bool) : List (XP α) → XP α → Bool
  | [], _ => false
  | e :: r, q => if lt e q then setFind lt r q else !lt q e

/-- `set::insert`: unique insertion at the lower bound -/
def setInsert (lt : XP α → XP α → Bool) : List (XP α) → XP α → List (XP α)
  | [], q => [q]
  | e :: r, q => if lt e q then e :: setInsert lt r q else if lt q e then q :: e :: r else e :: r

/-- the index range `[-n : 2 : n]`, `n = m - 1` -/
def grid (m : Nat) : List Int := (List.range m).map fun (a : Nat) => 2 * (a : Int) - ((m : Int) - 1)

/-- the `m2` start points: `p0` first, then the tiles -/
def allStarts (p0 : XP α) (d3 : α) (m : Nat) : List (XP α) :=
  p0 :: ((grid m).flatMap fun i => (grid m).filterMap fun j =>
    if i == 0 && j == 0 then none
    else some (XP.add p0 (mk0 (d3 * ofC (i + j) / two) (d3 * ofC (i - j) / two))))

/-- the `do … while (qc.Dist(p0) <= maxdistx)` loop along the line of coincident intersections in direction `sgn`;
    `true` in the second component = the fuel ran out (the C++ loop would not have terminated yet) -/
def conjLoop (C : Consts α) (conj2 : α → α → α) (p0 q : XP α) (c0 : Int) (s0 maxdistx : α) (sgn : Int) :
    Nat → α → List (XP α) → List (XP α) × Bool
  | 0, _, acc => (acc, true)
  | fuel + 1, sa, acc =>
    let sa' := conj2 s0 (s0 + sa + ofC sgn * C.d) - s0
    let qc := XP.add q (mk0 sa' (ofC c0 * sa'))
    let acc' := acc ++ [qc]
    if RealLike.leb (dist qc p0) maxdistx then conjLoop C conj2 p0 q c0 s0 maxdistx sgn fuel sa' acc' else (acc', false)

structure AState (α : Type) where
  /-- intersections found (`r`) -/
  r : List (XP α)
  /-- closest coincident intersections (`c`) -/
  cs : List (XP α)
  c0 : Int
  /-- points that prune later starts (`added`, accumulated) -/
  pr : List (XP α)
  visited : List (XP α)
  exhausted : Bool

def allLoop (C : Consts α) (basic : XP α → XP α) (conj2 : α → α → α) (p0 : XP α) (maxdistx d3 : α) (fuel : Nat) :
    List (XP α) → AState α → AState α
  | [], st => st
  | s :: rest, st =>
    if skipped st.pr (two * C.t1 - d3 - C.delta) s then allLoop C basic conj2 p0 maxdistx d3 fuel rest st else
    let q := basic s
    let st1 : AState α := { st with visited := st.visited ++ [s] }
    if setFind (clt C.delta) st.r q || (st.c0 != 0 && setFind (clt C.delta) st.cs (fixc p0 q)) then
      allLoop C basic conj2 p0 maxdistx d3 fuel rest st1
    else if q.c != 0 then
      let c0 := q.c
      let qf := fixc p0 q
      let cs := setInsert (clt C.delta) st.cs qf
      let r1 := st.r.filter fun qp => !ceq C.delta (fixcoincident p0 qp c0) qf
      let a1 := conjLoop C conj2 p0 qf c0 qf.x maxdistx (-1) fuel zero []
      let a2 := conjLoop C conj2 p0 qf c0 qf.x maxdistx 1 fuel zero []
      let added := a1.1 ++ a2.1 ++ [qf]
      let r2 := added.foldl (setInsert (clt C.delta)) r1
      allLoop C basic conj2 p0 maxdistx d3 fuel rest
        { st1 with r := r2, cs := cs, c0 := c0, pr := added ++ st.pr, exhausted := st.exhausted || a1.2 || a2.2 }
    else
      allLoop C basic conj2 p0 maxdistx d3 fuel rest { st1 with r := setInsert (clt C.delta) st.r q, pr := q :: st.pr }

/-- insertion sort (the order produced by `std::sort` with a strict total order is unique) -/
def insertBy (lt : XP α → XP α → Bool) (x : XP α) : List (XP α) → List (XP α)
  | [] => [x]
  | y :: r => if lt x y then x :: y :: r else y :: insertBy lt x r
def sortBy (lt : XP α → XP α → Bool) (l : List (XP α)) : List (XP α) := l.foldr (insertBy lt) []

structure AOut (α : Type) where
  res : List (XP α)
  visited : List (XP α)
  exhausted : Bool

/-- `AllInt0(lineX, lineY, maxdist, p0)`; `m = int(ceil(maxdistx / _d3))` is passed in (the correspondence recomputes it),
    `fuel` bounds the conjugate-point loops -/
def allInt0 (C : Consts α) (basic : XP α → XP α) (conj2 : α → α → α) (maxdist : α) (p0 : XP α) (m fuel : Nat) : AOut α :=
  let maxdistx := maxdist + C.delta
  let d3 := maxdistx / RealLike.ofNat m
  let st := allLoop C basic conj2 p0 maxdistx d3 fuel (allStarts p0 d3 m)
    { r := [], cs := [], c0 := 0, pr := [], visited := [], exhausted := false }
  let trimmed := st.r.filter fun qp => RealLike.leb (dist qp p0) maxdist
  { res := sortBy (rlt p0) trimmed, visited := st.visited, exhausted := st.exhausted }

/-! ## the constructor's derived constants -/

/-- `_d1 = _t2 / 2`, `_d2 = 2 * _t3 / 3`, `_d3 = _t4 - _delta` -/
def derived (t2 t3 t4 delta : α) : α × α × α := (t2 / two, two * t3 / RealLike.ofNat 3, t4 - delta)

/-- the constructor's sanity check (`false` = "Ellipsoid too eccentric for Closest") -/
def ctorOk (t1 d1 d2 d3 : α) : Bool := RealLike.ltb d1 d3 && RealLike.ltb d2 d3 && RealLike.ltb d2 (two * t1)

end GeoVerif.IntersectSearch
