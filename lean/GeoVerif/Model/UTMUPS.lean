import GeoVerif.FP.F64
import GeoVerif.Model.MathF
import GeoVerif.Gen.UTM
/-!
# UTMUPS: zone rule, coordinate ranges, zone strings, EPSG codes, wrapper bookkeeping

The two projections (`TransverseMercator::UTM()`, `PolarStereographic::UPS()`)
are kernels: `forward` takes their output as a parameter.
-/
namespace GeoVerif.UTMUPS
open GeoVerif Gen.UTM

abbrev Err := String

/-! ## integer level -/

/-- `MGRS::LatitudeBand` on `ilat = ⌊lat⌋` (C++ `/` truncates) -/
def latitudeBandI (ilat : Int) : Int := max (-10) (min 9 (Int.tdiv (ilat + 80) 8 - 10))

/-- the UTM branch of `StandardZone` on `ilon = ⌊AngNormalize lon⌋ ∈ [-180, 180]` and the latitude band -/
def utmZoneI (band ilon : Int) : Int :=
  let ilon := if ilon = Gen.MathC.hd then -Gen.MathC.hd else ilon
  let zone := Int.tdiv (ilon + 186) 6
  if band = 7 ∧ zone = 31 ∧ ilon ≥ 3 then 32
  else if band = 9 ∧ ilon ≥ 0 ∧ ilon < 42 then 2 * (Int.tdiv (ilon + 183) 12) + 1
  else zone

/-! ## `StandardZone` -/

def fl (x : F64) : Int := Dy.floor (F64.floor x).toDy

/-- `MGRS::LatitudeBand(lat)`: the latitude is clamped to [-90, 90] (NaN ↦ 90) before the conversion to `int` -/
def latitudeBand (lat : F64) : Int :=
  latitudeBandI (fl (F64.fmax (F64.ofInt (-Gen.MathC.qd)) (F64.fmin (F64.ofInt Gen.MathC.qd) lat)))

def standardZone (lat lon : F64) (setzone : Int) : Except Err Int :=
  if !(setzone ≥ zMINPSEUDOZONE ∧ setzone ≤ zMAXZONE) then .error "illegal zone requested"
  else if setzone ≥ zMINZONE ∨ setzone = zINVALID then .ok setzone
  else if !(lat.isFinite && lon.isFinite) then .ok zINVALID
  else if setzone = zUTM ∨ (F64.ge lat (F64.ofInt (-80)) && F64.lt lat (F64.ofInt 84)) then
    -- int(floor(±inf)) is undefined in C++; the public entry points reject |lat| > 90 first, lon = ±inf gives NaN
    .ok (utmZoneI (latitudeBand lat) (fl (MathF.angNormalize lon)))
  else .ok zUPS

/-! ## ranges -/

def ind (utmp northp : Bool) : Nat := (if utmp then 2 else 0) + (if northp then 1 else 0)

/-- `UTMUPS::CheckCoords` (returns `true` when accepted; NaNs are accepted) -/
def checkCoords (utmp northp : Bool) (x y : F64) (mgrslimits : Bool) : Bool :=
  let slop : Int := if mgrslimits then 0 else mgrs_tile
  let i := ind utmp northp
  let lo (t : List Int) : F64 := F64.ofInt (t.getD i 0 - slop)
  let hi (t : List Int) : F64 := F64.ofInt (t.getD i 0 + slop)
  !(F64.lt x (lo utm_mineasting) || F64.gt x (hi utm_maxeasting)) &&
  !(F64.lt y (lo utm_minnorthing) || F64.gt y (hi utm_maxnorthing))

def centralMeridian (zone : Int) : F64 := F64.ofInt (6 * zone - 183)

structure FwdOut where
  zone : Int
  northp : Bool
  x : F64
  y : F64
  gamma : F64
  k : F64

/--
`UTMUPS::Forward` around its projection kernel.  `kern` = `(x1, y1, γ, k)` as
returned by `TransverseMercator::UTM().Forward(lon0, lat, lon)` resp.
`PolarStereographic::UPS().Forward(northp, lat, lon)` for the zone that
`standardZone` selects.
-/
def forward (lat lon : F64) (setzone : Int) (mgrslimits : Bool) (kern : F64 × F64 × F64 × F64) : Except Err FwdOut := do
  if F64.gt (F64.abs lat) MathF.qd then throw "latitude out of range"
  let northp1 := !lat.signbit
  let zone1 ← standardZone lat lon setzone
  if zone1 = zINVALID then return ⟨zone1, northp1, .nan, .nan, .nan, .nan⟩
  let utmp := zone1 ≠ zUPS
  if utmp then
    let lon0 := centralMeridian zone1
    let dlon := (MathF.angDiff lon0 lon).1
    -- two-sided since fix f1d86bf (the western side used to be left to CheckCoords, which lets the NaN of the singular point through)
    if !(F64.le (F64.abs dlon) (F64.ofInt 60)) then throw "more than 60d from centre of zone"
  else
    if F64.lt (F64.abs lat) (F64.ofInt 70) then throw "more than 20d from pole"
  let (x1, y1, g1, k1) := kern
  let i := ind utmp northp1
  let x1 := x1 + F64.ofInt (utm_falseeasting.getD i 0)
  let y1 := y1 + F64.ofInt (utm_falsenorthing.getD i 0)
  if !checkCoords utmp northp1 x1 y1 mgrslimits then throw "out of legal range"
  pure ⟨zone1, northp1, x1, y1, g1, k1⟩

/-- does `UTMUPS::Reverse` accept `(zone, northp, x, y)`? `none` = returns NaNs without looking further -/
def reverseAccepts (zone : Int) (northp : Bool) (x y : F64) (mgrslimits : Bool) : Except Err (Option Unit) :=
  if zone = zINVALID || x.isNaN || y.isNaN then .ok none
  else if !(zone ≥ zMINZONE ∧ zone ≤ zMAXZONE) then .error "zone not in [0,60]"
  else if !checkCoords (zone ≠ zUPS) northp x y mgrslimits then .error "coords"
  else .ok (some ())

/-! ## zone strings (bytes) -/

def isDigit (c : Nat) : Bool := 48 ≤ c && c ≤ 57
def isSpaceC (c : Nat) : Bool := c = 32 || (9 ≤ c && c ≤ 13)
def lower (c : Nat) : Nat := if 65 ≤ c ∧ c ≤ 90 then c + 32 else c

/-- `strtol(c, &q, 10)`: returns (value, number of bytes consumed); no digits ⇒ (0, 0) -/
def strtol (s : List Nat) : Int × Nat :=
  let ws := s.takeWhile isSpaceC
  let r := s.drop ws.length
  let (sgn, r1, nsign) : Int × List Nat × Nat :=
    match r with
    | 43 :: t => (1, t, 1)
    | 45 :: t => (-1, t, 1)
    | _ => (1, r, 0)
  let ds := r1.takeWhile isDigit
  if ds.isEmpty then (0, 0)
  else (sgn * ds.foldl (fun (a : Int) (d : Nat) => 10 * a + ((d : Int) - 48)) 0, ws.length + nsign + ds.length)

def bytesOf (s : String) : List Nat := s.toList.map Char.toNat

def decodeZone (s : List Nat) : Except Err (Int × Bool) := do
  -- `zonestr.c_str()` stops at an embedded NUL for strtol, but `string hemi(zonestr, q - c)` takes the rest of the std::string
  if s.length = 0 then throw "empty"
  if s.length > 7 then throw "more than 7 characters"
  let cstr := s.takeWhile (· ≠ 0)
  let (zone1, used) := strtol cstr
  if zone1 = zUPS then
    if used ≠ 0 then throw "illegal zone 0"
  else if !(zone1 ≥ zMINUTMZONE ∧ zone1 ≤ zMAXUTMZONE) then throw "zone not in [1,60]"
  else if !isDigit (s.getD 0 0) then throw "must use unsigned number"
  else if used > 2 then throw "more than 2 digits"
  let hemi := (s.drop used).map lower
  if used = 0 ∧ (hemi = bytesOf "inv" ∨ hemi = bytesOf "invalid") then return (zINVALID, false)
  let northp1 := hemi = bytesOf "north" ∨ hemi = bytesOf "n"
  if !(northp1 ∨ hemi = bytesOf "south" ∨ hemi = bytesOf "s") then throw "illegal hemisphere"
  pure (zone1, northp1)

def twoDigits (z : Int) : List Nat := [48 + (z.toNat / 10), 48 + (z.toNat % 10)]

def encodeZone (zone : Int) (northp abbr : Bool) : Except Err (List Nat) :=
  if zone = zINVALID then .ok (bytesOf (if abbr then "inv" else "invalid"))
  else if !(zone ≥ zMINZONE ∧ zone ≤ zMAXZONE) then .error "zone not in [0,60]"
  else
    let num := if zone ≠ zUPS then twoDigits zone else []
    .ok (num ++ bytesOf (if abbr then (if northp then "n" else "s") else (if northp then "north" else "south")))

/-! ## EPSG -/

def decodeEPSG (epsg : Int) : Int × Bool :=
  if epsg ≥ epsg01N ∧ epsg ≤ epsg60N then ((epsg - epsg01N) + zMINUTMZONE, true)
  else if epsg = epsgN then (zUPS, true)
  else if epsg ≥ epsg01S ∧ epsg ≤ epsg60S then ((epsg - epsg01S) + zMINUTMZONE, false)
  else if epsg = epsgS then (zUPS, false)
  else (zINVALID, false)

def encodeEPSG (zone : Int) (northp : Bool) : Int :=
  let epsg := if zone = zUPS then epsgS
    else if zone ≥ zMINUTMZONE ∧ zone ≤ zMAXUTMZONE then (zone - zMINUTMZONE) + epsg01S else -1
  if epsg ≥ 0 ∧ northp then epsg + (epsgN - epsgS) else epsg

/-! ## `Transfer` when no re-projection is needed (same zone) -/

def transferSameZone (zone : Int) (northpin : Bool) (xin yin : F64) (northpout : Bool) : Except Err (F64 × F64 × Int) :=
  if zone = 0 ∧ northpin ≠ northpout then .error "UPS between hemispheres"
  else
    let yout := if northpin ≠ northpout then yin + F64.ofInt ((if northpout then -1 else 1) * mgrs_utmNshift) else yin
    .ok (xin, yout, zone)

/-! ## `Transfer` in full, around its two kernels

`rev` = what `UTMUPS::Reverse(zonein, northpin, xin, yin, lat, lon)` does (error, or `(lat, lon)`), `fwd` = what
`UTMUPS::Forward(lat, lon, zone, northp, x, y, setzone)` does.  Only the bookkeeping is modelled here. -/

def transfer (zonein : Int) (northpin : Bool) (xin yin : F64) (zoneout : Int) (northpout : Bool)
    (rev : Int → Bool → F64 → F64 → Except Err (F64 × F64))
    (fwd : F64 → F64 → Int → Except Err FwdOut) : Except Err (F64 × F64 × Int) :=
  if zonein ≠ zoneout then do
    let (lat, lon) ← rev zonein northpin xin yin
    let o ← fwd lat lon (if zoneout = zMATCH then zonein else zoneout)
    if o.zone = 0 ∧ o.northp ≠ northpout then throw "UPS between hemispheres"
    let yout := if o.northp ≠ northpout then o.y + F64.ofInt ((if northpout then -1 else 1) * mgrs_utmNshift) else o.y
    pure (o.x, yout, o.zone)
  else transferSameZone zonein northpin xin yin northpout


/-! ## `UTMShift`, the WGS84 constants -/

/-- `UTMUPS::UTMShift()` = `real(MGRS::utmNshift_)` -/
def utmShift : F64 := F64.ofInt mgrs_utmNshift

/-- `Constants::WGS84_a()`, `Constants::WGS84_f()` as written in Constants.hpp: `6378137`, `1 / (298257223563 / 1000000000)` -/
def wgs84a : F64 := F64.ofInt 6378137
def wgs84f : F64 := (1 : F64) / (F64.ofInt 298257223563 / F64.ofInt 1000000000)

/-! ## GeoCoords: the UTM/UPS part of its state, `FixHemisphere`, `SetAltZone`

The conversions themselves (`UTMUPS::Forward`, `UTMUPS::Reverse`) are kernels. -/

structure GeoState where
  zone : Int
  northp : Bool
  easting : F64
  northing : F64
  gamma : F64
  k : F64
  lat : F64
  lon : F64

structure AltState where
  zone : Int
  easting : F64
  northing : F64
  gamma : F64
  k : F64

/-- `GeoCoords::CopyToAlt` -/
def copyToAlt (s : GeoState) : AltState := ⟨s.zone, s.easting, s.northing, s.gamma, s.k⟩

/-- `GeoCoords::FixHemisphere`: a hemisphere label that contradicts the latitude is corrected by the northing shift (UTM) or refused (UPS) -/
def fixHemisphere (s : GeoState) : Except Err GeoState :=
  if F64.eq s.lat 0 || (s.northp && F64.ge s.lat 0) || (!s.northp && F64.lt s.lat 0) || s.lat.isNaN then .ok s
  else if s.zone ≠ zUPS then
    .ok { s with northing := s.northing + (if s.northp then utmShift else -utmShift), northp := !s.northp }
  else .error "Hemisphere mixup"

/-- `GeoCoords::Reset(zone, northp, easting, northing)`; `rev` = `(lat, lon, γ, k)` returned by `UTMUPS::Reverse` (or its exception) -/
def resetUTM (zone : Int) (northp : Bool) (x y : F64) (rev : Except Err (F64 × F64 × F64 × F64)) : Except Err GeoState := do
  let (lat, lon, g, k) ← rev
  fixHemisphere ⟨zone, northp, x, y, g, k, lat, lon⟩

/-- `GeoCoords::Reset(latitude, longitude, zone)`; `fwd` = `UTMUPS::Forward(lat, lon, …, zone)` -/
def resetLatLon (lat lon : F64) (zone : Int) (fwd : F64 → F64 → Int → Except Err FwdOut) : Except Err GeoState := do
  let o ← fwd lat lon zone
  pure ⟨o.zone, o.northp, o.x, o.y, o.gamma, o.k, lat, MathF.angNormalize lon⟩

/-- the northing `y` that `Forward` reports under the label `fnorthp`, re-expressed under the label `northp` of the object (fix 46b5aee):
    the labels can differ only on the equator; UPS (zone 0) is never relabelled -/
def altNorthing (zone : Int) (northp fnorthp : Bool) (y : F64) : F64 :=
  if fnorthp ≠ northp ∧ zone > 0 then y + (if northp then -utmShift else utmShift) else y

/-- `GeoCoords::SetAltZone(zone)`: `alt` is the alternate state before the call, `fwd` = `UTMUPS::Forward(lat, lon, …, setzone)`.
    The alternate coordinates are reported with the hemisphere of the object. -/
def setAltZone (s : GeoState) (alt : AltState) (zone : Int) (fwd : F64 → F64 → Int → Except Err FwdOut) : Except Err AltState :=
  if zone = zMATCH then .ok alt
  else do
    let z ← standardZone s.lat s.lon zone
    if z = s.zone then pure (copyToAlt s)
    else
      let o ← fwd s.lat s.lon z
      pure ⟨o.zone, o.x, altNorthing o.zone s.northp o.northp o.y, o.gamma, o.k⟩

/-- `GeoCoords::UTMUPSRepresentation(northp, …)` / `AltUTMUPSRepresentation(northp, …)`: the coordinates printed under the requested label
    (`Transfer` within the zone) -/
def relabel (zone : Int) (northp : Bool) (x y : F64) (label : Bool) : Except Err (F64 × F64) :=
  (transferSameZone zone northp x y label).map fun (a, b, _) => (a, b)

end GeoVerif.UTMUPS
