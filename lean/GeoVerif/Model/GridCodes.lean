import GeoVerif.FP.F64
import GeoVerif.Model.MathF
import GeoVerif.Gen.Grid
/-!
# Geohash, GARS, Georef, OSGB — integer-level codecs and the one rounding in front of them

Each encoder is `encodeInt ∘ scale`, where `scale` is the single floating
multiplication/division + `floor` of the implementation (modelled in `F64`) and
`encodeInt` is pure integer/letter logic.  Tables and constants come from
`Gen.Grid` (re-extracted from the sources on every run).
-/
namespace GeoVerif.Grid
open GeoVerif Gen.Grid

abbrev Err := String

/-- `toupper` on a byte -/
def upper (c : Nat) : Nat := if 97 ≤ c ∧ c ≤ 122 then c - 32 else c

/-- `Utility::lookup(const char* s, char c)`: index of `toupper(c)` in `s`, `none` when absent.
    (A NUL byte is *not* found: this is the repaired behaviour, finding F6.) -/
def lookup (tbl : List Char) (c : Nat) : Option Nat :=
  if c = 0 then none else
  let u := upper c
  let rec go : List Char → Nat → Option Nat
    | [], _ => none
    | d :: ds, i => if d.toNat = u then some i else go ds (i + 1)
  go tbl 0

def chr (tbl : List Char) (i : Nat) : Char := tbl.getD i '\x00'

def toBytes (s : List Char) : List Nat := s.map Char.toNat

/-- fixed-width big-endian digits of `n` in base `b` through table `tbl` -/
def digitsW (tbl : List Char) (b : Nat) : Nat → Nat → List Char
  | 0, _ => []
  | w + 1, n => digitsW tbl b w (n / b) ++ [chr tbl (n % b)]

/-- the decoder loop over a digit string: `acc ← b·acc + lookup c`, failing on a non-digit -/
def readNumFrom (tbl : List Char) (b : Nat) : Nat → List Nat → Option Nat
  | acc, [] => some acc
  | acc, c :: cs =>
    match lookup tbl c with
    | none => none
    | some d => readNumFrom tbl b (b * acc + d) cs

def readNum (tbl : List Char) (b : Nat) (s : List Nat) : Option Nat := readNumFrom tbl b 0 s

def startsInv (s : List Nat) (pat : List Nat) : Bool :=
  s.length ≥ pat.length && (s.take pat.length).map upper == pat

/-! ## Geohash -/
namespace Geohash

def lc : List Char := geohashLc.toList
def uc : List Char := geohashUc.toList
def maxlen : Nat := geohashMaxlen

/-- big-endian bits `hi … lo+1`: `n` bits of `u` starting at bit `top` going down -/
def bitsFrom (u : Nat) (top : Nat) : Nat → List Bool
  | 0 => []
  | n + 1 => u.testBit top :: bitsFrom u (top - 1) n

def interleave : List Bool → List Bool → List Bool
  | a :: as, b :: bs => a :: b :: interleave as bs
  | as, [] => as
  | [], bs => bs

def bitsToNat (l : List Bool) : Nat := l.foldl (fun acc b => 2 * acc + (if b then 1 else 0)) 0

def chunks5 : List Bool → List (List Bool)
  | a :: b :: c :: d :: e :: rest => [a, b, c, d, e] :: chunks5 rest
  | _ => []

/-- integer-level encoder: `ulon`, `ulat` are the 46-bit cell coordinates -/
def encodeInt (ulon ulat : Nat) (len : Nat) : List Char :=
  let stream := interleave (bitsFrom ulon 45 45) (bitsFrom ulat 45 45)
  (chunks5 (stream.take (5 * len))).map fun ch => chr lc (bitsToNat ch)

def clampLen (len : Int) : Nat := (max 0 (min (maxlen : Int) len)).toNat

/-- the floating part of `Geohash::Forward` : returns `(ulon, ulat)` -/
def scale (lat lon : F64) : Except Err (Option (Nat × Nat)) :=
  let shift : F64 := .fin false 1 45
  let loneps := MathF.hd / shift
  let lateps := MathF.qd / shift
  if F64.gt (F64.abs lat) MathF.qd then .error "lat" else
  if lat.isNaN || !lon.isFinite then .ok none else   -- the code normalises lon first: an infinite longitude becomes NaN (fix d0a70a5)
  let lat := if F64.eq lat MathF.qd then lat - lateps / 2 else lat
  let lon := MathF.angNormalize lon
  let lon := if F64.eq lon MathF.hd then F64.neg MathF.hd else lon
  let ulon := (F64.floor (lon / loneps) + shift).toDy
  let ulat := (F64.floor (lat / lateps) + shift).toDy
  .ok (some ((Dy.floor ulon).toNat, (Dy.floor ulat).toNat))

/-- the exact cell (no rounding in the scaling): `⌊lon·2^45/180⌋ + 2^45` -/
def scaleExact (lat lon : F64) : Option (Nat × Nat) :=
  if !(lat.isFinite && lon.isFinite) then none else
  let lon := MathF.angNormalize lon
  let lon := if F64.eq lon MathF.hd then F64.neg MathF.hd else lon
  -- ⌊x · 2^45 / d⌋ for a dyadic x = m·2^e
  let fl (x : Dy) (d : Int) : Int :=
    let y : Dy := ⟨x.m, x.e + 45⟩
    if y.e ≥ 0 then (Dy.shl y.m y.e) / d else y.m / (d * (2 : Int) ^ (-y.e).toNat)
  let ulon := fl lon.toDy 180 + 2 ^ 45
  let ulat := if F64.eq lat MathF.qd then 2 ^ 46 - 1 else fl lat.toDy 90 + 2 ^ 45
  some (ulon.toNat, ulat.toNat)

def forward (lat lon : F64) (len : Int) : Except Err (List Char) := do
  match ← scale lat lon with
  | none => pure "invalid".toList
  | some (ulon, ulat) => pure (encodeInt ulon ulat (clampLen len))

structure Dec where
  ulon : Nat
  ulat : Nat
  len : Nat
deriving Repr, DecidableEq

/-- integer-level decoder: accumulated `ulon`, `ulat` (before the final alignment shifts) -/
def decodeInt (s : List Nat) : Except Err Dec := do
  let len1 := min maxlen s.length
  let rec go : List Nat → Nat → Nat → Nat → Except Err (Nat × Nat × Nat)
    | [], ulon, ulat, j => .ok (ulon, ulat, j)
    | c :: cs, ulon, ulat, j =>
      match lookup uc c with
      | none => .error "illegal character"
      | some byte =>
        let bits := bitsFrom byte 4 5
        let (ulon, ulat, j) := bits.foldl (fun (acc : Nat × Nat × Nat) b =>
          let (ulon, ulat, j) := acc
          if j = 0 then (2 * ulon + (if b then 1 else 0), ulat, 1) else (ulon, 2 * ulat + (if b then 1 else 0), 0)) (ulon, ulat, j)
        go cs ulon ulat j
  let (ulon, ulat, _) ← go (s.take len1) 0 0 0
  pure ⟨ulon, ulat, len1⟩

inductive Rev where
  | nan
  | val (lat lon : F64) (len : Nat)

def isInvalid (s : List Nat) : Bool :=
  let len1 := min maxlen s.length
  len1 ≥ 3 &&
    (((s.take 3).map upper == [73, 78, 86]) ||   -- INV
     ((s.take 3).map upper == [78, 65, 78]))     -- NAN

def reverse (s : List Nat) (centerp : Bool) : Except Err Rev := do
  if isInvalid s then return .nan
  let d ← decodeInt s
  let shift : F64 := .fin false 1 45
  let loneps := MathF.hd / shift
  let lateps := MathF.qd / shift
  let ulon := 2 * d.ulon + (if centerp then 1 else 0)
  let ulat := 2 * d.ulat + (if centerp then 1 else 0)
  let sft := 5 * (maxlen - d.len)
  let ulon := ulon <<< (sft / 2)
  let ulat := ulat <<< (sft - sft / 2)
  -- conversion unsigned long long → double rounds when above 2^53 (never here: < 2^47)
  let lon := F64.ofInt ulon * loneps - MathF.hd
  let lat := F64.ofInt ulat * lateps - MathF.qd
  pure (.val lat lon d.len)

end Geohash

/-! ## GARS -/
namespace GARS

def digits : List Char := garsDigits.toList
def letters : List Char := garsLetters.toList
def m : Int := gars_m

def clampPrec (p : Int) : Nat := (max 0 (min gars_maxprec p)).toNat

/-- `X ∈ [0, 360·m)`, `Y ∈ [0, 180·m)` are the cell coordinates at the finest level (1/m degree) -/
def encodeInt (X Y : Int) (prec : Nat) : List Char :=
  let ilon := X * gars_mult1 / m
  let ilat := Y * gars_mult1 / m
  let x := X - ilon * m / gars_mult1
  let y := Y - ilat * m / gars_mult1
  let base := digitsW digits gars_baselon.toNat gars_lonlen.toNat (ilon + 1).toNat ++
              digitsW letters gars_baselat.toNat gars_latlen.toNat ilat.toNat
  let c6 := chr digits (gars_mult2 * (gars_mult2 - 1 - y / gars_mult3) + x / gars_mult3 + 1).toNat
  let c7 := chr digits (gars_mult3 * (gars_mult3 - 1 - y % gars_mult3) + x % gars_mult3 + 1).toNat
  base ++ (if prec > 0 then [c6] else []) ++ (if prec > 1 then [c7] else [])

def scaleWith (mulf : F64 → F64 → Int) (lat lon : F64) : Except Err (Option (Int × Int)) :=
  if F64.gt (F64.abs lat) MathF.qd then .error "lat" else
  if lat.isNaN || !lon.isFinite then .ok none else   -- the code normalises lon first: an infinite longitude becomes NaN (fix d0a70a5)
  let lon := MathF.angNormalize lon
  let lon := if F64.eq lon MathF.hd then F64.neg MathF.hd else lon
  -- lat *= (1 - eps/2)
  let lat := if F64.eq lat MathF.qd then lat * (.fin false (2 ^ 53 - 1) (-53)) else lat
  let X := mulf lon (F64.ofInt m) - gars_lonorig * m
  let Y := mulf lat (F64.ofInt m) - gars_latorig * m
  .ok (some (X, Y))

/-- as coded: one rounded multiplication then floor -/
def scale := scaleWith fun a b => Dy.floor (F64.floor (a * b)).toDy
/-- exact: floor of the exact product -/
def scaleExact := scaleWith fun a b => Dy.floor (Dy.mul a.toDy b.toDy)

def forwardWith (sc : F64 → F64 → Except Err (Option (Int × Int))) (lat lon : F64) (prec : Int) : Except Err (List Char) := do
  match ← sc lat lon with
  | none => pure "INVALID".toList
  | some (X, Y) => pure (encodeInt X Y (clampPrec prec))

def forward := forwardWith scale
def forwardExact := forwardWith scaleExact

structure Dec where
  lat1 : Int
  lon1 : Int
  unit : Int
  prec : Nat
deriving Repr, DecidableEq

def decodeInt (s : List Nat) (centerp : Bool) : Except Err Dec := do
  let len := s.length
  if len < gars_baselen.toNat then throw "too short"
  if len > gars_maxlen.toNat then throw "too long"
  let prec1 := len - gars_baselen.toNat
  let mut ilon : Int := 0
  for c in s.take gars_lonlen.toNat do
    match lookup digits c with
    | none => throw "GARS must start with 3 digits"
    | some k => ilon := ilon * gars_baselon + k
  if !(ilon ≥ 1 ∧ ilon ≤ 2 * Gen.MathC.td) then throw "initial digits not in [1,720]"
  ilon := ilon - 1
  let mut ilat : Int := 0
  for c in (s.drop gars_lonlen.toNat).take gars_latlen.toNat do
    match lookup letters c with
    | none => throw "illegal letters"
    | some k => ilat := ilat * gars_baselat + k
  if !(ilat < Gen.MathC.td) then throw "letters not in [AA,QZ]"
  let mut unit : Int := gars_mult1
  let mut lat1 : Int := ilat + gars_latorig * unit
  let mut lon1 : Int := ilon + gars_lonorig * unit
  if prec1 > 0 then
    match lookup digits (s.getD gars_baselen.toNat 0) with
    | none => throw "6th char"
    | some k =>
      if !(k ≥ 1 ∧ (k : Int) ≤ gars_mult2 * gars_mult2) then throw "6th char not in [1,4]"
      let k : Int := k - 1
      unit := unit * gars_mult2
      lat1 := gars_mult2 * lat1 + (gars_mult2 - 1 - k / gars_mult2)
      lon1 := gars_mult2 * lon1 + (k % gars_mult2)
      if prec1 > 1 then
        match lookup digits (s.getD (gars_baselen.toNat + 1) 0) with
        | none => throw "7th char"
        | some k =>
          if !(k ≥ 1) then throw "7th char not in [1,9]"
          let k : Int := k - 1
          unit := unit * gars_mult3
          lat1 := gars_mult3 * lat1 + (gars_mult3 - 1 - k / gars_mult3)
          lon1 := gars_mult3 * lon1 + (k % gars_mult3)
  if centerp then
    unit := unit * 2; lat1 := 2 * lat1 + 1; lon1 := 2 * lon1 + 1
  pure ⟨lat1, lon1, unit, prec1⟩

inductive Rev where
  | nan
  | val (lat lon : F64) (prec : Int)

def reverse (s : List Nat) (centerp : Bool) : Except Err Rev := do
  if startsInv s [73, 78, 86] then return .nan
  let d ← decodeInt s centerp
  pure (.val (F64.ofInt d.lat1 / F64.ofInt d.unit) (F64.ofInt d.lon1 / F64.ofInt d.unit) d.prec)

end GARS

/-! ## Georef -/
namespace Georef

def digits : List Char := georef_digitsS.toList
def lontile : List Char := georef_lontileS.toList
def lattile : List Char := georef_lattileS.toList
def degrees : List Char := georef_degreesS.toList
def m : Int := georef_m

def clampPrec (p : Int) : Int :=
  let p := max (-1) (min georef_maxprec p)
  if p = 1 then 2 else p

/-- `X ∈ [0, 360·m)`, `Y ∈ [0, 180·m)` in units of `1/m` degree (m = 6·10¹⁰) -/
def encodeInt (X Y : Int) (prec : Int) : List Char :=
  let ilon := X / m
  let ilat := Y / m
  let c01 := [chr lontile (ilon / georef_tile).toNat, chr lattile (ilat / georef_tile).toNat]
  if prec < 0 then c01 else
  let c23 := [chr degrees (ilon % georef_tile).toNat, chr degrees (ilat % georef_tile).toNat]
  if prec = 0 then c01 ++ c23 else
  let d : Int := georef_base ^ (georef_maxprec - prec).toNat
  let x := (X - m * ilon) / d
  let y := (Y - m * ilat) / d
  c01 ++ c23 ++ digitsW digits georef_base.toNat prec.toNat x.toNat ++ digitsW digits georef_base.toNat prec.toNat y.toNat

def scaleWith (mulf : F64 → F64 → Int) (lat lon : F64) : Except Err (Option (Int × Int)) :=
  if F64.gt (F64.abs lat) MathF.qd then .error "lat" else
  if lat.isNaN || !lon.isFinite then .ok none else   -- the code normalises lon first: an infinite longitude becomes NaN (fix d0a70a5)
  let lon := MathF.angNormalize lon
  let lon := if F64.eq lon MathF.hd then F64.neg MathF.hd else lon
  let lat := if F64.eq lat MathF.qd then lat * (.fin false (2 ^ 53 - 1) (-53)) else lat
  let X := mulf lon (F64.ofInt m) - georef_lonorig * m
  let Y := mulf lat (F64.ofInt m) - georef_latorig * m
  .ok (some (X, Y))

def scale := scaleWith fun a b => Dy.floor (F64.floor (a * b)).toDy
def scaleExact := scaleWith fun a b => Dy.floor (Dy.mul a.toDy b.toDy)

def forwardWith (sc : F64 → F64 → Except Err (Option (Int × Int))) (lat lon : F64) (prec : Int) : Except Err (List Char) := do
  match ← sc lat lon with
  | none => pure "INVALID".toList
  | some (X, Y) => pure (encodeInt X Y (clampPrec prec))

def forward := forwardWith scale
def forwardExact := forwardWith scaleExact

structure Dec where
  lat1 : Int
  lon1 : Int
  unit : Int
  prec : Int
deriving Repr, DecidableEq

def decodeInt (s : List Nat) (centerp : Bool) : Except Err Dec := do
  let len : Int := s.length
  if len < georef_baselen - 2 then throw "too short"
  let prec1 : Int := (2 + len - georef_baselen) / 2 - 1
  let k ← match lookup lontile (s.getD 0 0) with | none => throw "bad lon tile" | some k => pure (k : Int)
  let mut lon1 : Int := k + georef_lonorig / georef_tile
  let k ← match lookup lattile (s.getD 1 0) with | none => throw "bad lat tile" | some k => pure (k : Int)
  let mut lat1 : Int := k + georef_latorig / georef_tile
  let mut unit : Int := 1
  if len > 2 then
    unit := unit * georef_tile
    let k ← match lookup degrees (s.getD 2 0) with | none => throw "bad lon degree" | some k => pure (k : Int)
    lon1 := lon1 * georef_tile + k
    if len < 4 then throw "missing lat degree"
    let k ← match lookup degrees (s.getD 3 0) with | none => throw "bad lat degree" | some k => pure (k : Int)
    lat1 := lat1 * georef_tile + k
    if len > georef_baselen then
      -- find_first_not_of(digits_, baselen_): exact (case-sensitive) digits only
      if (s.drop georef_baselen.toNat).any (fun c => !(48 ≤ c ∧ c ≤ 57)) then throw "non digits"
      if len % 2 ≠ 0 then throw "odd"
      if prec1 = 1 then throw "needs 4 digits"
      if prec1 > georef_maxprec then throw "too many digits"
      for i in List.range prec1.toNat do
        let mm : Int := if i ≠ 0 then georef_base else 6
        unit := unit * mm
        let x : Int := ((lookup digits (s.getD (georef_baselen.toNat + i) 0)).map Int.ofNat).getD (-1)
        let y : Int := ((lookup digits (s.getD (georef_baselen.toNat + i + prec1.toNat) 0)).map Int.ofNat).getD (-1)
        if !(i ≠ 0 ∨ (x < mm ∧ y < mm)) then throw "minutes ≥ 60"
        lon1 := mm * lon1 + x
        lat1 := mm * lat1 + y
  if centerp then
    unit := unit * 2; lat1 := 2 * lat1 + 1; lon1 := 2 * lon1 + 1
  pure ⟨lat1, lon1, unit, prec1⟩

inductive Rev where
  | nan
  | val (lat lon : F64) (prec : Int)

def reverse (s : List Nat) (centerp : Bool) : Except Err Rev := do
  if startsInv s [73, 78, 86] then return .nan
  let d ← decodeInt s centerp
  -- all intermediate values are integers < 2^53: `real` arithmetic is exact up to the final division
  pure (.val (F64.ofInt (georef_tile * d.lat1) / F64.ofInt d.unit) (F64.ofInt (georef_tile * d.lon1) / F64.ofInt d.unit) d.prec)

end Georef

/-! ## OSGB grid references -/
namespace OSGB

def letters : List Char := osgbLetters.toList
def digits : List Char := osgbDigits.toList

/-- `pow(real(base_), k)` for small non-negative integer `k` (exact) -/
def pow10 (k : Nat) : F64 := F64.ofInt ((osgb_base : Int) ^ k)

def checkCoords (x y : F64) : Except Err Unit := do
  if F64.lt x (F64.ofInt osgb_minx) || F64.ge x (F64.ofInt osgb_maxx) then throw "easting"
  if F64.lt y (F64.ofInt osgb_miny) || F64.ge y (F64.ofInt osgb_maxy) then throw "northing"

def fl (x : F64) : Int := Dy.floor (F64.floor x).toDy

/-- the in-tile offset `xf = x − tile_·xh`, clamped at 0 (`if (xf < 0) xf = 0;`) -/
def offset (x : F64) (xh : Int) : F64 :=
  let xf := x - F64.ofInt osgb_tile * F64.ofInt xh
  if F64.lt xf 0 then 0 else xf

/-- the carry added by the repair of finding F74: `if (xf >= tile_) { xf = 0; ++xh; }` — for `−2^−37 ≤ x < 0` the sum
`x + tile_` rounds to `tile_`; the point is moved to the start of the next tile -/
def carry (xf : F64) (xh : Int) : F64 × Int :=
  if F64.ge xf (F64.ofInt osgb_tile) then (0, xh + 1) else (xf, xh)

/-- what the floating part of `GridReference` computes for one coordinate at precision `p`:
`h = ⌊x / tile⌋` (plus the carry), `i1 = ⌊xf / 10^max(5−p,0)⌋`, and for `p > 5` `i2 = ⌊(xf − ⌊xf⌋)·10^(p−5)⌋` -/
structure Sc where
  h : Int
  i1 : Int
  i2 : Int
deriving Repr, DecidableEq

def scaleCoord (x : F64) (p : Nat) : Sc :=
  let xh0 := fl (x / F64.ofInt osgb_tile)
  let c := carry (offset x xh0) xh0
  let xf := c.1
  let tl := osgb_tilelevel.toNat
  let mult := pow10 (tl - p)
  let i1 := fl (xf / mult)
  let i2 := if p > tl then fl ((xf - F64.floor (xf / mult)) * pow10 (p - tl)) else 0
  ⟨c.2, i1, i2⟩

/-- the two tile letters of the 100 km square `(xh, yh)` (indices *before* the false-origin shift `tileoff·`):
first letter = 500 km square, second = 100 km square inside it, rows counted from the north -/
def tileLetters (xh yh : Int) : List Char :=
  let xh := xh + osgb_tileoffx
  let yh := yh + osgb_tileoffy
  let g := osgb_tilegrid
  [chr letters ((g - (yh / g) - 1) * g + (xh / g)).toNat, chr letters ((g - (yh % g) - 1) * g + (xh % g)).toNat]

/-- integer-level encoder: letters, then `min p 5` digits of `i1` followed by `p − 5` digits of `i2`, for x then y
(the two digit loops of the code write the low `min(p,5)` digits of `ix` and the low `p − 5` digits of the second `ix`) -/
def encodeInt (sx sy : Sc) (p : Nat) : List Char :=
  let tl := osgb_tilelevel.toNat
  let n1 := min p tl
  let b := osgb_base.toNat
  tileLetters sx.h sy.h ++
    digitsW digits b n1 sx.i1.toNat ++ digitsW digits b (p - tl) sx.i2.toNat ++
    digitsW digits b n1 sy.i1.toNat ++ digitsW digits b (p - tl) sy.i2.toNat

def gridReference (x y : F64) (prec : Int) : Except Err (List Char) := do
  checkCoords x y
  if !(prec ≥ 0 ∧ prec ≤ osgb_maxprec) then throw "prec"
  if x.isNaN || y.isNaN then return "INVALID".toList
  let p := prec.toNat
  pure (encodeInt (scaleCoord x p) (scaleCoord y p) p)

def isSpace (c : Nat) : Bool := c = 32 || (9 ≤ c && c ≤ 13)

/-- result of the integer part of `GridReference(string)`: tile indices (false origin removed), digit values, precision -/
structure Dec where
  xh : Int
  yh : Int
  xd : List Nat
  yd : List Nat
  prec : Nat
deriving Repr, DecidableEq

def readDigits (tbl : List Char) : List Nat → Option (List Nat)
  | [] => some []
  | c :: cs => match lookup tbl c, readDigits tbl cs with
    | some d, some ds => some (d :: ds)
    | _, _ => none

/-- one iteration of the letter loop: `yh = yh·g + g − i/g − 1; xh = xh·g + i%g` on the state `(xh, yh)` -/
def letterStep (st : Int × Int) (i : Nat) : Int × Int :=
  let g := osgb_tilegrid
  (st.1 * g + ((i : Int) % g), st.2 * g + g - ((i : Int) / g) - 1)

/-- integer-level decoder (everything of `GridReference(string)` except the floating accumulation);
the two iterations of `while (p < 2)` are written out -/
def decodeInt (s : List Nat) : Except Err Dec :=
  let grid := s.filter (fun c => !isSpace c)
  if grid.length > 2 + 2 * osgb_maxprec.toNat then .error "too long" else
  if grid.length < 2 then .error "too short" else
  if grid.length % 2 ≠ 0 then .error "odd" else
  match lookup letters (grid.getD 0 0), lookup letters (grid.getD 1 0) with
  | some i, some j =>
    let st := letterStep (letterStep (0, 0) i) j
    let prec1 := (grid.length - 2) / 2
    match readDigits digits ((grid.drop 2).take prec1), readDigits digits (grid.drop (2 + prec1)) with
    | some xd, some yd => .ok ⟨st.1 - osgb_tileoffx, st.2 - osgb_tileoffy, xd, yd, prec1⟩
    | _, _ => .error "non-digit"
  | _, _ => .error "illegal prefix"

inductive Rev where
  | nan
  | val (x y : F64) (prec : Int)

/-- one step of the floating accumulation: `unit /= base_; x1 += unit * ix; y1 += unit * iy` -/
def revStep (st : F64 × F64 × F64) (d : Nat × Nat) : F64 × F64 × F64 :=
  let unit := st.2.2 / F64.ofInt osgb_base
  (st.1 + unit * F64.ofInt d.1, st.2.1 + unit * F64.ofInt d.2, unit)

def reverseVal (d : Dec) (centerp : Bool) : F64 × F64 :=
  let unit : F64 := F64.ofInt osgb_tile
  let st := (d.xd.zip d.yd).foldl revStep (unit * F64.ofInt d.xh, unit * F64.ofInt d.yh, unit)
  if centerp then (st.1 + st.2.2 / 2, st.2.1 + st.2.2 / 2) else (st.1, st.2.1)

def reverse (s : List Nat) (centerp : Bool) : Except Err Rev := do
  if s.length ≥ 2 && upper (s.getD 0 0) = 73 && upper (s.getD 1 0) = 78 then return .nan
  let d ← decodeInt s
  let v := reverseVal d centerp
  pure (.val v.1 v.2 d.prec)

/-! ### the transverse Mercator wrapper `OSGB::Forward/Reverse` (the projection itself is property C06) -/

/-- `computenorthoffset()`: `FalseNorthing() − y₀`, `y₀` the northing of the true origin under `OSGBTM()` -/
def northOffset (falseNorthing y0 : F64) : F64 := falseNorthing - y0
/-- `Forward`: `x += FalseEasting(); y += computenorthoffset()` on the projection's output -/
def forwardWrap (falseEasting northoff tx ty : F64) : F64 × F64 := (tx + falseEasting, ty + northoff)
/-- `Reverse`: `x −= FalseEasting(); y −= computenorthoffset()` before the inverse projection -/
def reverseWrap (falseEasting northoff x y : F64) : F64 × F64 := (x - falseEasting, y - northoff)

end OSGB

/-! ## resolution / precision helper functions of the headers -/

/-- `for (p = lo; p < hi; ++p) if (ok p) return p; return hi;` over a list of candidates -/
def firstOr {α : Type} (ok : α → Bool) : List α → α → α
  | [], d => d
  | a :: as, d => if ok a then a else firstOr ok as d

namespace Geohash

/-- `Geohash::LatitudeResolution(len) = ldexp(180, −⌊5·len/2⌋)`, `len` clamped to `[0, 18]` (exact) -/
def latRes (len : Int) : F64 := .fin false MathF.hd.toDy.m.toNat (-((5 * clampLen len / 2 : Nat) : Int))
/-- `Geohash::LongitudeResolution(len) = ldexp(360, −(5·len − ⌊5·len/2⌋))` (exact) -/
def lonRes (len : Int) : F64 := .fin false MathF.td.toDy.m.toNat (-((5 * clampLen len - 5 * clampLen len / 2 : Nat) : Int))

def lens : List Int := (List.range maxlen).map Int.ofNat

/-- `Geohash::GeohashLength(res)`: least `len < 18` with `LongitudeResolution(len) ≤ |res|`, else 18 -/
def lengthFor (res : F64) : Int :=
  firstOr (fun len => F64.le (lonRes len) (F64.abs res)) lens maxlen
/-- `Geohash::GeohashLength(latres, lonres)` -/
def lengthFor2 (latres lonres : F64) : Int :=
  firstOr (fun len => F64.le (latRes len) (F64.abs latres) && F64.le (lonRes len) (F64.abs lonres)) lens maxlen

/-- greatest `j ≥ j₀` (within `fuel` steps) with `den·10^j ≤ num`, given it holds at `j₀` -/
def log10Up (num den : Nat) : Nat → Nat → Nat
  | 0, j => j
  | f + 1, j => if den * 10 ^ (j + 1) ≤ num then log10Up num den f (j + 1) else j
/-- least `j ≥ j₀` (within `fuel` steps) with `den ≤ num·10^j` -/
def log10Dn (num den : Nat) : Nat → Nat → Nat
  | 0, j => j
  | f + 1, j => if den ≤ num * 10 ^ j then j else log10Dn num den f (j + 1)
/-- `⌊log₁₀(num/den)⌋` for positive integers, by search -/
def floorLog10 (num den : Nat) : Int :=
  if num ≥ den then (log10Up num den 400 0 : Nat) else -((log10Dn num den 400 1 : Nat) : Int)

/-- `Geohash::DecimalPrecision(len) = −⌊log₁₀ LatitudeResolution(len)⌋` (exact integer arithmetic here; the code goes
through `log`, which is harmless because no resolution is near a power of ten: theorem `geohash_decimal_precision_spec`) -/
def decimalPrecision (len : Int) : Int := -(floorLog10 MathF.hd.toDy.m.toNat (2 ^ (5 * clampLen len / 2)))

end Geohash

namespace GARS
/-- `GARS::Resolution(prec) = 1/real(2 | 4 | 12)` -/
def resolution (prec : Int) : F64 :=
  (1 : F64) / F64.ofInt (if prec ≤ 0 then gars_mult1 else if prec = 1 then gars_mult1 * gars_mult2 else gars_mult1 * gars_mult2 * gars_mult3)
/-- `GARS::Precision(res)` -/
def precision (res : F64) : Int :=
  firstOr (fun p => F64.le (resolution p) (F64.abs res)) ((List.range gars_maxprec.toNat).map Int.ofNat) gars_maxprec
end GARS

namespace Georef
/-- `Georef::Resolution(prec)`: 15, 1, or `1/(60·10^(prec−2))` with `prec` clamped to `[2, 11]` -/
def resolution (prec : Int) : F64 :=
  if prec < 1 then (if prec < 0 then F64.ofInt georef_tile else 1)
  else
    let p := max 2 (min georef_maxprec prec)
    (1 : F64) / (F64.ofInt 60 * F64.ofInt (georef_base ^ (p - 2).toNat))
/-- `Georef::Precision(res)`: the loop skips `prec = 1` and starts at 0 (never returns −1) -/
def precision (res : F64) : Int :=
  firstOr (fun p => F64.le (resolution p) (F64.abs res))
    (((List.range georef_maxprec.toNat).map Int.ofNat).filter (· ≠ 1)) georef_maxprec
end Georef

end GeoVerif.Grid
