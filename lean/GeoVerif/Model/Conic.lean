import GeoVerif.Basic.RealLike
/-!
# Polar stereographic, and the closed-form skeleton of the conic projections (polymorphic in the number type)

* `eatanhe`, `taupf` (closed form) and `tauf` (the five-step Newton inversion) of `Math.cpp`;
* `PolarStereographic::Forward / Reverse / SetScale` after the angle kernels (`LatFix`, `tand`, `sincosd`,
  `atand`, `atan2d` are kernels: the forward model takes `tau = tand(±lat)` and `(sin lon, cos lon)`, the reverse
  model returns `tau` and the two arguments of `atan2d`); `Reverse` is parametric in the inversion `tauf`;
* the divided-difference helpers of `LambertConformalConic.hpp` and `AlbersEqualArea.hpp`;
* the hemisphere bookkeeping (`_sign`) of `LambertConformalConic` / `AlbersEqualArea` `Init`, `Forward`, `Reverse`
  around an abstract cone kernel;
* the parameter-domain predicates of the three constructor forms of both conic classes.

Core Lean only.  Read at `Float` by the driver (against the implementation) and at `ℝ` by `Props/C11.lean`.
-/
namespace GeoVerif.Conic
open GeoVerif GeoVerif.RealLike
open GeoVerif.RealLike.Lits

variable {α : Type} [RealLike α]

/-- `hypot(1, x)` -/
def hyp (x : α) : α := RealLike.hypot (1 : α) x

/-- finite (not NaN, not ±∞); always true over the reals -/
def isfin (x : α) : Bool := RealLike.eqb (x - x) (0 : α)

/-- `log1p`, written so that it is accurate in floating point and equal to `log (1 + x)` over the reals -/
def log1p (x : α) : α :=
  let u := (1 : α) + x
  if RealLike.eqb u (1 : α) then x else RealLike.log u * x / (u - 1)

/-- `Math::eatanhe(x, es)`: `es·atanh(es·x)` for `es > 0`, `−es·atan(es·x)` otherwise (prolate: `es = −√(−e²)`) -/
def eatanhe (x es : α) : α :=
  if RealLike.ltb (0 : α) es then es * RealLike.atanh (es * x) else -es * RealLike.atan (es * x)

/-- `Math::taupf` -/
def taupf (tau es : α) : α :=
  if isfin tau then
    let tau1 := hyp tau
    let sig := RealLike.sinh (eatanhe (tau / tau1) es)
    hyp sig * tau - sig * tau1
  else tau

/-- one Newton step of `Math::tauf`: the correction `dtau` -/
def taufDelta (taup es e2m tau : α) : α :=
  let taupa := taupf tau es
  (taup - taupa) * ((1 : α) + e2m * sq tau) / (e2m * hyp tau * hyp taupa)

def taufLoop (taup es e2m stol : α) : Nat → α → α
  | 0, tau => tau
  | n + 1, tau =>
    let dtau := taufDelta taup es e2m tau
    let tau' := tau + dtau
    if !(RealLike.leb stol (RealLike.abs dtau)) then tau' else taufLoop taup es e2m stol n tau'

/-- `√ε = 2⁻²⁶` for binary64 -/
def sqrtEps : α := (1 : α) / RealLike.ofNat 67108864
/-- `ε = 2⁻⁵²` -/
def eps : α := (1 : α) / RealLike.ofNat 4503599627370496

/-- `Math::tauf` (`numit = 50` since 707b423) -/
def tauf (taup es : α) : α :=
  let tol : α := sqrtEps / 10
  let taumax : α := (2 : α) / sqrtEps
  let e2m := (1 : α) - es * RealLike.abs es
  let tau := if RealLike.ltb (70 : α) (RealLike.abs taup) then taup * RealLike.exp (eatanhe (1 : α) es) else taup / e2m
  let stol := tol * RealLike.max (1 : α) (RealLike.abs taup)
  -- (the early exit is taken only with the asymptotic guess, |taup| > 70: b3c5a1d)
  if !(RealLike.ltb (RealLike.abs tau) taumax) && !(RealLike.leb (RealLike.abs taup) (70 : α)) then tau else taufLoop taup es e2m stol 50 tau

/-- did the Newton loop of `Math::tauf` stop by its tolerance (and not by the iteration cap)?  The cap is silent in the
    code (`GEOGRAPHICLIB_PANIC` is `false` for binary64): the correspondence compares values only where the coded loop
    terminated by its own criterion -/
def taufLoopConv (taup es e2m stol : α) : Nat → α → Bool
  | 0, _ => false
  | n + 1, tau =>
    let dtau := taufDelta taup es e2m tau
    if !(RealLike.leb stol (RealLike.abs dtau)) then true else taufLoopConv taup es e2m stol n (tau + dtau)

def taufConv (taup es : α) : Bool :=
  let tol : α := sqrtEps / 10
  let taumax : α := (2 : α) / sqrtEps
  let e2m := (1 : α) - es * RealLike.abs es
  let tau := if RealLike.ltb (70 : α) (RealLike.abs taup) then taup * RealLike.exp (eatanhe (1 : α) es) else taup / e2m
  let stol := tol * RealLike.max (1 : α) (RealLike.abs taup)
  if !(RealLike.ltb (RealLike.abs tau) taumax) && !(RealLike.leb (RealLike.abs taup) (70 : α)) then true else taufLoopConv taup es e2m stol 50 tau

/-! ## PolarStereographic -/

structure PS (α : Type) where
  a : α
  f : α
  k0 : α

namespace PS
def e2 (P : PS α) : α := P.f * ((2 : α) - P.f)
def es (P : PS α) : α := (if RealLike.ltb P.f (0 : α) then -(1 : α) else (1 : α)) * RealLike.sqrt (RealLike.abs P.e2)
def e2m (P : PS α) : α := (1 : α) - P.e2
def c (P : PS α) : α := ((1 : α) - P.f) * RealLike.exp (eatanhe (1 : α) P.es)
/-- the radius factor `2 k0 a / c` -/
def r (P : PS α) : α := (2 : α) * P.k0 * P.a / P.c
end PS

structure PSOut (α : Type) where
  x : α
  y : α
  k : α

/-- the `k` formula shared by `Forward` and `Reverse` -/
def psScale (P : PS α) (rho tau : α) : α :=
  let secphi := hyp tau
  (rho / P.a) * secphi * RealLike.sqrt (P.e2m + P.e2 / sq secphi)

/-- the radius before the factor `2 k0 a / c` -/
def psRho1 (pole : Bool) (taup : α) : α :=
  let rho := hyp taup + RealLike.abs taup
  if RealLike.leb (0 : α) taup then (if pole then (0 : α) else (1 : α) / rho) else rho

/-- `PolarStereographic::Forward` after `LatFix`, the hemisphere flip, `tand` and `sincosd`:
    `tau = tand(±lat)`, `pole ⇔ ±lat = 90`, `(slon, clon) = sincosd(lon)` -/
def psForward (P : PS α) (northp pole : Bool) (tau slon clon : α) : PSOut α :=
  let taup := taupf tau P.es
  let rho := psRho1 pole taup * P.r
  let k := if pole then P.k0 else psScale P rho tau
  ⟨slon * rho, clon * (if northp then -rho else rho), k⟩

structure PSRev (α : Type) where
  tau : α      -- lat = ±atand(tau)
  lonx : α     -- lon = atan2d(lonx, lony)
  lony : α
  k : α

/-- `PolarStereographic::Reverse` up to `atand` / `atan2d`, for an inversion `tauf` of `taupf` -/
def psReverse (tauf : α → α → α) (P : PS α) (northp : Bool) (x y : α) : PSRev α :=
  let rho := RealLike.hypot x y
  let t := if !(RealLike.eqb rho (0 : α)) then rho / P.r else sq (eps : α)
  let taup := ((1 : α) / t - t) / 2
  let tau := tauf taup P.es
  let k := if !(RealLike.eqb rho (0 : α)) then psScale P rho tau else P.k0
  ⟨tau, x, if northp then -y else y, k⟩

/-- the conformal tangent `Reverse` hands to `tauf` -/
def psTaup (P : PS α) (x y : α) : α :=
  let rho := RealLike.hypot x y
  let t := if !(RealLike.eqb rho (0 : α)) then rho / P.r else sq (eps : α)
  ((1 : α) / t - t) / 2

/-- `PolarStereographic::SetScale`: the new `_k0` (after the range checks) -/
def psSetScale (P : PS α) (pole : Bool) (tau k : α) : α :=
  let kold := (psForward { P with k0 := (1 : α) } true pole tau (0 : α) (1 : α)).k
  (1 : α) * (k / kold)

/-! ## Divided differences (`LambertConformalConic.hpp`, `AlbersEqualArea.hpp`) -/

/-- `Dhyp(x, y, hx, hy)`, `hx = hyp x` -/
def Dhyp (x y hx hy : α) : α := (x + y) / (hx + hy)

/-- `Dsn(x, y, sx, sy)`, `sx = x / hyp x` (both headers) -/
def Dsn (x y sx sy : α) : α :=
  let t := x * y
  if RealLike.ltb (0 : α) t then (x + y) * sq ((sx * sy) / t) / (sx + sy)
  else if !(RealLike.eqb (x - y) (0 : α)) then (sx - sy) / (x - y) else (1 : α)

/-- `Dlog1p(x, y)` -/
def Dlog1p (x y : α) : α :=
  let t0 := x - y
  let neg := RealLike.ltb t0 (0 : α)
  let t := if neg then -t0 else t0
  let y' := if neg then x else y
  if !(RealLike.eqb t (0 : α)) then log1p (t / ((1 : α) + y')) / t else (1 : α) / ((1 : α) + x)

/-- `Dexp(x, y)` -/
def Dexp (x y : α) : α :=
  let t := (x - y) / 2
  (if !(RealLike.eqb t (0 : α)) then RealLike.sinh t / t else (1 : α)) * RealLike.exp ((x + y) / 2)

/-- `Dsinh(x, y, sx, sy, cx, cy)`, `sx = sinh x`, `cx = cosh x` -/
def Dsinh (x y sx sy cx cy : α) : α :=
  let t := (x - y) / 2
  (if !(RealLike.eqb t (0 : α)) then RealLike.sinh t / t else (1 : α)) * RealLike.sqrt ((sx * sy + cx * cy + 1) / 2)

/-- `Dasinh(x, y, hx, hy)`, `hx = hyp x` -/
def Dasinh (x y hx hy : α) : α :=
  let t := x - y
  if !(RealLike.eqb t (0 : α)) then
    RealLike.asinh (if RealLike.ltb (0 : α) (x * y) then t * (x + y) / (x * hy + y * hx) else x * hy - y * hx) / t
  else (1 : α) / hx

/-- `LambertConformalConic::Deatanhe(x, y)` with the members `_e2`, `_es` -/
def Deatanhe (e2 es x y : α) : α :=
  let t := x - y
  let d := (1 : α) - e2 * x * y
  -- (for `x·y < 0` the straight difference, as `AlbersEqualArea::Datanhee`: 36a144d)
  if !(RealLike.eqb t (0 : α)) then
    (if RealLike.ltb (x * y) (0 : α) then eatanhe x es - eatanhe y es else eatanhe (t / d) es) / t
  else e2 / d

/-- `AlbersEqualArea::atanhee(x)` (`e = √|e²|`) -/
def atanhee (f e x : α) : α :=
  if RealLike.ltb (0 : α) f then RealLike.atanh (e * x) / e else if RealLike.ltb f (0 : α) then RealLike.atan (e * x) / e else x

/-- `AlbersEqualArea::Datanhee(x, y)` -/
def Datanhee (f e2 e x y : α) : α :=
  let t := x - y
  let d := (1 : α) - e2 * x * y
  if RealLike.eqb t (0 : α) then (1 : α) / d
  else (if RealLike.ltb (x * y) (0 : α) then atanhee f e x - atanhee f e y else atanhee f e (t / d)) / t

/-! ## Hemisphere bookkeeping of the conic classes -/

/-- `_sign = sphi1 + sphi2 >= 0 ? 1 : -1` -/
def coneSign (s1 s2 : α) : α := if RealLike.leb (0 : α) (s1 + s2) then (1 : α) else -(1 : α)

/-- the parallels `Init` works with: multiplied by `_sign`, ordered (`phi1 ≤ phi2`); pairs are `(sin, cos)` -/
def coneCanon (s1 c1 s2 c2 : α) : (α × α) × (α × α) :=
  let sg := coneSign s1 s2
  let a := s1 * sg
  let b := s2 * sg
  if RealLike.ltb b a then ((b, c2), (a, c1)) else ((a, c1), (b, c2))

structure ConeOut (α : Type) where
  x : α
  y : α
  gamma : α
  k : α

structure ConeRev (α : Type) where
  lat : α
  lon : α
  gamma : α
  k : α

/-- `Forward` of both conic classes around the northern-cone kernel `core (lat, lam)`: the hemisphere sign
    multiplies the latitude once on the way in and `y`, `gamma` once on the way out -/
def conicForward (core : α → α → ConeOut α) (sign lat lam : α) : ConeOut α :=
  let o := core (lat * sign) lam
  ⟨o.x, o.y * sign, sign * o.gamma, o.k⟩

/-- `Reverse` of both conic classes around the northern-cone kernel `core (x, y)` -/
def conicReverse (core : α → α → ConeRev α) (sign x y : α) : ConeRev α :=
  let o := core x (y * sign)
  ⟨sign * o.lat, o.lon, sign * o.gamma, o.k⟩

/-- the defect repaired by cf4303d, kept as a counter-model: the sign applied twice on the way in -/
def conicForwardTwice (core : α → α → ConeOut α) (sign lat lam : α) : ConeOut α :=
  let o := core ((lat * sign) * sign) lam
  ⟨o.x, o.y * sign, sign * o.gamma, o.k⟩

def mirror (o : ConeOut α) : ConeOut α := ⟨o.x, -o.y, -o.gamma, o.k⟩

/-! ## Constructor domains -/

/-- `isfinite(x) && x > 0` -/
def finPos (x : α) : Bool := isfin x && RealLike.ltb (0 : α) x
/-- the checks on `a`, `f`, `k` common to every constructor -/
def baseOk (a f k : α) : Bool := finPos a && (isfin f && RealLike.ltb f (1 : α)) && finPos k
/-- `fabs(lat) <= 90` -/
def latOk (lat : α) : Bool := RealLike.leb (RealLike.abs lat) (90 : α)
/-- `signbit` -/
def signbit (c : α) : Bool := RealLike.ltb c (0 : α) || (RealLike.eqb c (0 : α) && RealLike.ltb ((1 : α) / c) (0 : α))
/-- the checks of the sin/cos constructors on one pair -/
def sincosOk (s c : α) : Bool :=
  !signbit c && (RealLike.leb (RealLike.abs s) (1 : α) && RealLike.leb c (1 : α)) && !(RealLike.eqb c (0 : α) && RealLike.eqb s (0 : α))
/-- LCC: a pole is allowed only if both parallels are that pole -/
def lccPolesOk (s1 c1 s2 c2 : α) : Bool :=
  !(RealLike.eqb c1 (0 : α) || RealLike.eqb c2 (0 : α)) || (RealLike.eqb c1 c2 && RealLike.eqb s1 s2)
/-- Albers: not opposite poles -/
def albPolesOk (s1 c1 s2 c2 : α) : Bool :=
  !(RealLike.eqb c1 (0 : α) && RealLike.eqb c2 (0 : α) && RealLike.leb (s1 * s2) (0 : α))

/-- `polesOk` of class `cls` (1 = LCC, 2 = Albers) -/
def polesOk (cls : Nat) (s1 c1 s2 c2 : α) : Bool := if cls == 1 then lccPolesOk s1 c1 s2 c2 else albPolesOk s1 c1 s2 c2

/-- one-parallel constructor `(a, f, stdlat, k0)` -/
def accept1 (a f lat k : α) : Bool := baseOk a f k && latOk lat
/-- two-parallel constructor in degrees, `sc = sincosd` -/
def accept2 (cls : Nat) (sc : α → α × α) (a f lat1 lat2 k : α) : Bool :=
  baseOk a f k && latOk lat1 && latOk lat2 && polesOk cls (sc lat1).1 (sc lat1).2 (sc lat2).1 (sc lat2).2
/-- sin/cos constructor -/
def accept3 (cls : Nat) (a f s1 c1 s2 c2 k : α) : Bool :=
  baseOk a f k && sincosOk s1 c1 && sincosOk s2 c2 && polesOk cls s1 c1 s2 c2

end GeoVerif.Conic
