import GeoVerif.FP.F64
import GeoVerif.Model.MathF
import GeoVerif.Gen.NNC
import GeoVerif.Model.UTMUPS
import GeoVerif.Model.StrKey
/-!
# C13 — the error contract as tables and decidable predicates

* `Entry` / `table`: for every public numeric entry point driven by `harness/C13.cpp`, the **dependence table**
  (one row per input argument, one character per output: `1` = the output depends on that input, so a NaN there must
  give NaN here; `0` = it must stay a valid number; `=` = it does not depend on that input at all, so it must come back
  *bit-identical* to the value of the NaN-free baseline call (echoed arguments, components computed separately);
  `x` = nothing required: degenerate special cases such as Mercator, free-text outputs), whether the function is documented to validate its arguments, and the inputs
  whose NaN is rejected with the library's exception.  Hand-written from the headers' documentation and the formulas;
  the driver decides from it, exactly, what a call with a NaN argument must return.
* constructor validation predicates over the exact binary64 model, as coded / documented.
* `NearestNeighbor::Node::Check` and the acceptance test of `NearestNeighbor::Load`.
Core Lean only (executed by `gvdriver`).
-/
namespace GeoVerif.ErrContract
open GeoVerif

/-! ## what the harness reports about one call -/

inductive Exc where
  | none          -- returned normally
  | lib           -- GeographicLib::GeographicErr
  | alloc         -- std::bad_alloc
  | foreign       -- any other exception type
  | hang          -- did not return (watchdog)
deriving DecidableEq, Repr

structure Report where
  exc : Exc
  written : List Bool     -- per output: differs from its sentinel after the call
  isnan : List Bool       -- per output: is NaN (or the documented INVALID marker) after the call
  same : List Bool := []  -- per output: bit-identical to the output of the baseline call (every argument valid)
deriving Repr

/-- "when a function throws, the arguments it uses for return values are left exactly as they were", and only the
library's exception type (or an allocation failure) may come out -/
def throwClean (r : Report) : Bool :=
  match r.exc with
  | .none => true
  | .lib | .alloc => r.written.all (· == false)
  | .foreign | .hang => false

/-! ## dependence table -/

structure Entry where
  key : Key               -- the name used in the protocol, with its numeric code (`k% "…"`, see Model/StrKey.lean)
  nout : Nat
  rows : List String      -- one per input
  validates : Bool
  nanErr : List Nat
deriving Repr

inductive Req where
  | nan | valid | same | free
deriving DecidableEq, Repr

def reqOfChar (c : Char) : Req := if c = '1' then .nan else if c = '0' then .valid else if c = '=' then .same else .free

/-- requirement on output `o` when input `i` is NaN -/
def Entry.req (e : Entry) (i o : Nat) : Req :=
  match e.rows[i]? with
  | some row => reqOfChar (row.toList.getD o 'x')
  | none => .free

def Entry.nin (e : Entry) : Nat := e.rows.length

def okOut (q : Req) (isnan : Bool) (same : Bool := true) : Bool :=
  match q with
  | .nan => isnan
  | .valid => !isnan
  | .same => !isnan && same
  | .free => true

/-- verdict for a call whose argument `i` is NaN (all others at the valid baseline) -/
def Entry.checkNaN (e : Entry) (i : Nat) (r : Report) : Bool :=
  if e.nanErr.contains i then
    -- documented rejection of a NaN: the library's exception and nothing written, or NaN results
    (r.exc == .lib && r.written.all (· == false)) ||
      (r.exc == .none && (List.range e.nout).all fun o => okOut (e.req i o) (r.isnan.getD o false) (r.same.getD o false))
  else
    r.exc == .none && r.isnan.length == e.nout &&
      (List.range e.nout).all fun o => okOut (e.req i o) (r.isnan.getD o false) (r.same.getD o false)

/-- verdict for the baseline call: no exception, every output written and valid -/
def Entry.checkBase (e : Entry) (r : Report) : Bool :=
  r.exc == .none && r.written.length == e.nout && r.written.all (· == true) && r.isnan.all (· == false)

/-- verdict for any other special value (±inf, ±0, denormal, huge, ±90, …): an exception only from functions that
validate, only the library's, and nothing written when it throws -/
def Entry.checkOther (e : Entry) (r : Report) : Bool :=
  throwClean r && (r.exc == .none || e.validates)

def Entry.name (e : Entry) : String := e.key.s

def wellFormed (e : Entry) : Bool :=
  e.rows.all (fun row => row.length == e.nout && row.toList.all (fun c => c = '0' || c = '1' || c = '=' || c = 'x')) &&
    e.nanErr.all (· < e.rows.length)

def table : List Entry := [
  ⟨k% "Accumulator", 1, ["1", "1"], false, []⟩,
  ⟨k% "Accumulator.assign", 2, ["11"], false, []⟩,
  ⟨k% "Accumulator.compare", 6, ["000000", "000000"], false, []⟩,
  ⟨k% "Accumulator.mul", 1, ["1", "1"], false, []⟩,
  ⟨k% "Accumulator.peek", 1, ["1", "1"], false, []⟩,
  ⟨k% "Accumulator.remainder", 1, ["1", "1"], false, []⟩,
  ⟨k% "Albers.Forward", 4, ["111=", "11=1", "111="], false, []⟩,
  ⟨k% "Albers.Reverse", 4, ["=1==", "1111", "1111"], false, []⟩,
  ⟨k% "Albers.SetScale", 1, ["0", "0"], true, [0, 1]⟩,
  ⟨k% "AlbersS.Forward", 4, ["111=", "11=1", "111="], false, []⟩,
  ⟨k% "AlbersS.Reverse", 4, ["=1==", "1111", "1111"], false, []⟩,
  ⟨k% "AuxAngle.accessors", 4, ["1111", "1111"], false, []⟩,
  ⟨k% "AuxAngle.add", 2, ["11", "11", "11", "11"], false, []⟩,
  ⟨k% "AuxAngle.copyquadrant", 2, ["1=", "=1", "0=", "=0"], false, []⟩,
  ⟨k% "AuxAngle.degrees", 3, ["111", "111"], false, []⟩,
  ⟨k% "AuxAngle.fromDegrees", 2, ["11"], false, []⟩,
  ⟨k% "AuxAngle.fromLam", 2, ["1="], false, []⟩,
  ⟨k% "AuxAngle.fromLamd", 2, ["1="], false, []⟩,
  ⟨k% "AuxAngle.fromRadians", 2, ["11"], false, []⟩,
  ⟨k% "AuxLatitude.Clenshaw", 2, ["11", "11", "11", "11"], false, []⟩,
  ⟨k% "AuxLatitude.ConvertAngleExact", 36, ["111111111111111111111111111111111111", "111111111111111111111111111111111111"], false, []⟩,
  ⟨k% "AuxLatitude.ConvertAngleSeries", 36, ["111111111111111111111111111111111111", "111111111111111111111111111111111111"], false, []⟩,
  ⟨k% "AuxLatitude.ConvertExact", 36, ["111111111111111111111111111111111111"], false, []⟩,
  ⟨k% "AuxLatitude.ConvertSeries", 36, ["111111111111111111111111111111111111"], false, []⟩,
  ⟨k% "AuxLatitude.FromAuxiliary", 12, ["111111===000", "111111===000"], false, []⟩,
  ⟨k% "AuxLatitude.ToAuxiliary", 12, ["111111===111", "111111===111"], false, []⟩,
  ⟨k% "AuxLatitude.ToAuxiliaryPole", 12, ["111111===111", "111111===111"], false, []⟩,
  ⟨k% "AzimuthalEquidistant.Forward", 4, ["1111", "1111", "1111", "1111"], false, []⟩,
  ⟨k% "AzimuthalEquidistant.Reverse", 4, ["1111", "=1==", "1111", "1111"], false, []⟩,
  ⟨k% "CassiniSoldner.Forward", 4, ["=1==", "1111", "1111", "1111"], false, []⟩,
  ⟨k% "CassiniSoldner.Reset", 4, ["1==1", "=111"], false, []⟩,
  ⟨k% "CassiniSoldner.Reverse", 4, ["1111", "=1==", "1111", "1111"], false, []⟩,
  ⟨k% "CircularEngine.Grad", 4, ["1111"], false, []⟩,
  ⟨k% "CircularEngine.GradSC", 4, ["1111", "1111"], false, []⟩,
  ⟨k% "CircularEngine.Value", 1, ["1"], false, []⟩,
  ⟨k% "CircularEngine.ValueSC", 1, ["1", "1"], false, []⟩,
  ⟨k% "CylEA.Forward", 4, ["1xx=", "x1x1", "1xx="], false, []⟩,
  ⟨k% "CylEA.Reverse", 4, ["=1==", "x1xx", "1xx1"], false, []⟩,
  ⟨k% "DAuxLatitude.D3", 3, ["111", "111"], false, []⟩,
  ⟨k% "DAuxLatitude.DClenshaw", 2, ["11", "11", "11", "11", "11", "11", "11"], false, []⟩,
  ⟨k% "DAuxLatitude.DConvert", 36, ["=111111=111111=111111=111111=111111=", "=111111=111111=111111=111111=111111="], false, []⟩,
  ⟨k% "DAuxLatitude.Dlam", 1, ["1", "1"], false, []⟩,
  ⟨k% "DAuxLatitude.Dp0Dpsi", 1, ["1", "1"], false, []⟩,
  ⟨k% "DMS.DecodeDMS", 1, ["1", "1", "1"], false, []⟩,
  ⟨k% "DMS.Encode", 3, ["111"], false, []⟩,
  ⟨k% "DMS.EncodeDM", 2, ["11"], false, []⟩,
  ⟨k% "DMS.EncodeDMS", 3, ["111"], false, []⟩,
  ⟨k% "DST.eval", 1, ["1", "1", "1", "1"], false, []⟩,
  ⟨k% "DST.integral", 1, ["1", "1", "1", "1"], false, []⟩,
  ⟨k% "DST.integral2", 1, ["1", "1", "1", "1", "1", "1"], false, []⟩,
  ⟨k% "DST.refine", 8, ["11111111", "11111111"], false, []⟩,
  ⟨k% "DST.transform", 4, ["1111", "1111"], false, []⟩,
  ⟨k% "Ellipsoid.AuthalicLatitude", 1, ["1"], false, []⟩,
  ⟨k% "Ellipsoid.CircleHeight", 1, ["1"], false, []⟩,
  ⟨k% "Ellipsoid.CircleRadius", 1, ["1"], false, []⟩,
  ⟨k% "Ellipsoid.ConformalLatitude", 1, ["1"], false, []⟩,
  ⟨k% "Ellipsoid.EccentricitySqToFlattening", 1, ["1"], false, []⟩,
  ⟨k% "Ellipsoid.FlatteningToEccentricitySq", 1, ["1"], false, []⟩,
  ⟨k% "Ellipsoid.FlatteningToSecondEccentricitySq", 1, ["1"], false, []⟩,
  ⟨k% "Ellipsoid.FlatteningToSecondFlattening", 1, ["1"], false, []⟩,
  ⟨k% "Ellipsoid.FlatteningToThirdEccentricitySq", 1, ["1"], false, []⟩,
  ⟨k% "Ellipsoid.FlatteningToThirdFlattening", 1, ["1"], false, []⟩,
  ⟨k% "Ellipsoid.GeocentricLatitude", 1, ["1"], false, []⟩,
  ⟨k% "Ellipsoid.InverseAuthalicLatitude", 1, ["1"], false, []⟩,
  ⟨k% "Ellipsoid.InverseConformalLatitude", 1, ["1"], false, []⟩,
  ⟨k% "Ellipsoid.InverseGeocentricLatitude", 1, ["1"], false, []⟩,
  ⟨k% "Ellipsoid.InverseIsometricLatitude", 1, ["1"], false, []⟩,
  ⟨k% "Ellipsoid.InverseParametricLatitude", 1, ["1"], false, []⟩,
  ⟨k% "Ellipsoid.InverseRectifyingLatitude", 1, ["1"], false, []⟩,
  ⟨k% "Ellipsoid.IsometricLatitude", 1, ["1"], false, []⟩,
  ⟨k% "Ellipsoid.MeridianDistance", 1, ["1"], false, []⟩,
  ⟨k% "Ellipsoid.MeridionalCurvatureRadius", 1, ["1"], false, []⟩,
  ⟨k% "Ellipsoid.NormalCurvatureRadius", 1, ["1", "1"], false, []⟩,
  ⟨k% "Ellipsoid.ParametricLatitude", 1, ["1"], false, []⟩,
  ⟨k% "Ellipsoid.RectifyingLatitude", 1, ["1"], false, []⟩,
  ⟨k% "Ellipsoid.SecondEccentricitySqToFlattening", 1, ["1"], false, []⟩,
  ⟨k% "Ellipsoid.SecondFlatteningToFlattening", 1, ["1"], false, []⟩,
  ⟨k% "Ellipsoid.ThirdEccentricitySqToFlattening", 1, ["1"], false, []⟩,
  ⟨k% "Ellipsoid.ThirdFlatteningToFlattening", 1, ["1"], false, []⟩,
  ⟨k% "Ellipsoid.TransverseCurvatureRadius", 1, ["1"], false, []⟩,
  ⟨k% "EllipticFunction.D", 1, ["1"], false, []⟩,
  ⟨k% "EllipticFunction.D3", 1, ["1", "1", "1"], false, []⟩,
  ⟨k% "EllipticFunction.Delta", 1, ["x", "1"], false, []⟩,
  ⟨k% "EllipticFunction.E", 1, ["1"], false, []⟩,
  ⟨k% "EllipticFunction.E3", 1, ["1", "1", "1"], false, []⟩,
  ⟨k% "EllipticFunction.Ed", 1, ["1"], false, []⟩,
  ⟨k% "EllipticFunction.Einv", 1, ["1"], false, []⟩,
  ⟨k% "EllipticFunction.F", 1, ["1"], false, []⟩,
  ⟨k% "EllipticFunction.F3", 1, ["1", "1", "1"], false, []⟩,
  ⟨k% "EllipticFunction.G", 1, ["1"], false, []⟩,
  ⟨k% "EllipticFunction.G3", 1, ["1", "1", "1"], false, []⟩,
  ⟨k% "EllipticFunction.H", 1, ["1"], false, []⟩,
  ⟨k% "EllipticFunction.H3", 1, ["1", "1", "1"], false, []⟩,
  ⟨k% "EllipticFunction.Pi", 1, ["1"], false, []⟩,
  ⟨k% "EllipticFunction.Pi3", 1, ["1", "1", "1"], false, []⟩,
  ⟨k% "EllipticFunction.RC", 1, ["1", "1"], false, []⟩,
  ⟨k% "EllipticFunction.RD", 1, ["1", "1", "1"], false, []⟩,
  ⟨k% "EllipticFunction.RF2", 1, ["1", "1"], false, []⟩,
  ⟨k% "EllipticFunction.RF3", 1, ["1", "1", "1"], false, []⟩,
  ⟨k% "EllipticFunction.RG2", 1, ["1", "1"], false, []⟩,
  ⟨k% "EllipticFunction.RG3", 1, ["1", "1", "1"], false, []⟩,
  ⟨k% "EllipticFunction.RJ", 1, ["1", "1", "1", "1"], false, []⟩,
  ⟨k% "EllipticFunction.Reset", 3, ["111", "==1"], true, []⟩,
  ⟨k% "EllipticFunction.Reset4", 3, ["xxx", "xx1", "111", "xx1"], true, []⟩,
  ⟨k% "EllipticFunction.am", 1, ["1"], false, []⟩,
  ⟨k% "EllipticFunction.am4", 4, ["1111"], false, []⟩,
  ⟨k% "EllipticFunction.deltaD3", 1, ["1", "1", "1"], false, []⟩,
  ⟨k% "EllipticFunction.deltaE3", 1, ["1", "1", "1"], false, []⟩,
  ⟨k% "EllipticFunction.deltaEinv", 1, ["1", "1"], false, []⟩,
  ⟨k% "EllipticFunction.deltaF3", 1, ["1", "1", "1"], false, []⟩,
  ⟨k% "EllipticFunction.deltaG3", 1, ["1", "1", "1"], false, []⟩,
  ⟨k% "EllipticFunction.deltaH3", 1, ["1", "1", "1"], false, []⟩,
  ⟨k% "EllipticFunction.deltaPi3", 1, ["1", "1", "1"], false, []⟩,
  ⟨k% "EllipticFunction.sncndn", 3, ["111"], false, []⟩,
  ⟨k% "GARS.Forward", 1, ["1", "1"], true, []⟩,
  ⟨k% "GARS.Precision", 1, ["0"], false, []⟩,
  ⟨k% "GeoCoords.CtorLatLon", 17, ["1=111101111111110", "=11111=11111111x="], true, []⟩,
  ⟨k% "GeoCoords.CtorUPSN", 17, ["111=11==1==11011=", "11=111===1=11011="], true, []⟩,
  ⟨k% "GeoCoords.CtorUPSS", 17, ["111=11==1==11011=", "11=111===1=11011="], true, []⟩,
  ⟨k% "GeoCoords.CtorUTMN", 17, ["111=11==1==11011=", "11=111===1=11011="], true, []⟩,
  ⟨k% "GeoCoords.CtorUTMS", 17, ["111=11==1==11011=", "11=111===1=11011="], true, []⟩,
  ⟨k% "GeoCoords.LatLon", 9, ["1=11111x1", "=111111x1"], true, []⟩,
  ⟨k% "GeoCoords.ResetLatLon", 17, ["1=111101111111110", "=11111=11111111x="], true, []⟩,
  ⟨k% "GeoCoords.ResetStrLatLon", 17, ["1=111101111111110", "=11111=11111111x="], true, []⟩,
  ⟨k% "GeoCoords.ResetUPSN", 17, ["111=11==1==11011=", "11=111===1=11011="], true, []⟩,
  ⟨k% "GeoCoords.ResetUPSS", 17, ["111=11==1==11011=", "11=111===1=11011="], true, []⟩,
  ⟨k% "GeoCoords.ResetUTMN", 17, ["111=11==1==11011=", "11=111===1=11011="], true, []⟩,
  ⟨k% "GeoCoords.ResetUTMS", 17, ["111=11==1==11011=", "11=111===1=11011="], true, []⟩,
  ⟨k% "GeoCoords.StrLatLon", 17, ["1=111101111111110", "=11111=11111111x="], true, []⟩,
  ⟨k% "GeoCoords.StrUPSN", 17, ["111=11==1==11011=", "11=111===1=11011="], true, []⟩,
  ⟨k% "GeoCoords.StrUPSS", 17, ["111=11==1==11011=", "11=111===1=11011="], true, []⟩,
  ⟨k% "GeoCoords.StrUTMN", 17, ["111=11==1==11011=", "11=111===1=11011="], true, []⟩,
  ⟨k% "GeoCoords.StrUTMS", 17, ["111=11==1==11011=", "11=111===1=11011="], true, []⟩,
  ⟨k% "GeoCoords.UTM", 7, ["111=11x", "11=111x"], true, []⟩,
  ⟨k% "Geocentric.Forward", 3, ["111", "11=", "111"], false, []⟩,
  ⟨k% "Geocentric.ForwardM", 12, ["111=11=11=11", "11=111111===", "111========="], false, []⟩,
  ⟨k% "Geocentric.Reverse", 3, ["111", "111", "1=1"], false, []⟩,
  ⟨k% "Geocentric.ReverseM", 12, ["111111111=11", "111111111=11", "1=1=11=11=11"], false, []⟩,
  ⟨k% "GeodE.ArcDirect", 8, ["11111111", "=1======", "11111111", "11111111"], false, []⟩,
  ⟨k% "GeodE.ArcDirectLine.Position", 3, ["111", "=1=", "111", "===", "111"], false, []⟩,
  ⟨k% "GeodE.Direct", 8, ["11111111", "=1======", "11111111", "11111111"], false, []⟩,
  ⟨k% "GeodE.DirectLine.Position", 3, ["111", "=1=", "111", "===", "111"], false, []⟩,
  ⟨k% "GeodE.GenDirect", 9, ["111=11111", "=1=======", "111=11111", "111111111"], false, []⟩,
  ⟨k% "GeodE.GenDirectArc", 9, ["11111111=", "=1=======", "11111111=", "111111111"], false, []⟩,
  ⟨k% "GeodE.GenDirectLine.Position", 3, ["111", "=1=", "111", "===", "111"], false, []⟩,
  ⟨k% "GeodE.GenDirectUnroll", 3, ["111", "=1=", "111", "111"], false, []⟩,
  ⟨k% "GeodE.GenInverse", 8, ["11111111", "11111111", "11111111", "11111111"], false, []⟩,
  ⟨k% "GeodE.Inverse", 8, ["11111111", "11111111", "11111111", "11111111"], false, []⟩,
  ⟨k% "GeodE.InverseLine.Position", 5, ["11111", "11111", "11111", "11111", "111=="], false, []⟩,
  ⟨k% "GeodE.Line.Accessors", 5, ["1===1", "=1===", "==111"], false, []⟩,
  ⟨k% "GeodE.Line.ArcPosition", 8, ["11111111", "=1======", "11111111", "11111111"], false, []⟩,
  ⟨k% "GeodE.Line.GenSetArc", 2, ["1=", "==", "1=", "11"], false, []⟩,
  ⟨k% "GeodE.Line.GenSetDistance", 2, ["=1", "==", "=1", "11"], false, []⟩,
  ⟨k% "GeodE.Line.Position", 8, ["11111111", "=1======", "11111111", "11111111"], false, []⟩,
  ⟨k% "GeodE.Line.SetArc", 2, ["1=", "==", "1=", "11"], false, []⟩,
  ⟨k% "GeodE.Line.SetDistance", 2, ["=1", "==", "=1", "11"], false, []⟩,
  ⟨k% "GeodE.LineCtor.GenPosition", 9, ["111=11111", "=1=======", "111=11111", "111111111"], false, []⟩,
  ⟨k% "GeodE.LineCtor.GenPositionArc", 9, ["11111111=", "=1=======", "11111111=", "111111111"], false, []⟩,
  ⟨k% "GeodS.ArcDirect", 8, ["11111111", "=1======", "11111111", "11111111"], false, []⟩,
  ⟨k% "GeodS.ArcDirectLine.Position", 3, ["111", "=1=", "111", "===", "111"], false, []⟩,
  ⟨k% "GeodS.Direct", 8, ["11111111", "=1======", "11111111", "11111111"], false, []⟩,
  ⟨k% "GeodS.DirectLine.Position", 3, ["111", "=1=", "111", "===", "111"], false, []⟩,
  ⟨k% "GeodS.GenDirect", 9, ["111=11111", "=1=======", "111=11111", "111111111"], false, []⟩,
  ⟨k% "GeodS.GenDirectArc", 9, ["11111111=", "=1=======", "11111111=", "111111111"], false, []⟩,
  ⟨k% "GeodS.GenDirectLine.Position", 3, ["111", "=1=", "111", "===", "111"], false, []⟩,
  ⟨k% "GeodS.GenDirectUnroll", 3, ["111", "=1=", "111", "111"], false, []⟩,
  ⟨k% "GeodS.GenInverse", 8, ["11111111", "11111111", "11111111", "11111111"], false, []⟩,
  ⟨k% "GeodS.Inverse", 8, ["11111111", "11111111", "11111111", "11111111"], false, []⟩,
  ⟨k% "GeodS.InverseLine.Position", 5, ["11111", "11111", "11111", "11111", "111=="], false, []⟩,
  ⟨k% "GeodS.Line.Accessors", 5, ["1===1", "=1===", "==111"], false, []⟩,
  ⟨k% "GeodS.Line.ArcPosition", 8, ["11111111", "=1======", "11111111", "11111111"], false, []⟩,
  ⟨k% "GeodS.Line.GenSetArc", 2, ["1=", "==", "1=", "11"], false, []⟩,
  ⟨k% "GeodS.Line.GenSetDistance", 2, ["=1", "==", "=1", "11"], false, []⟩,
  ⟨k% "GeodS.Line.Position", 8, ["11111111", "=1======", "11111111", "11111111"], false, []⟩,
  ⟨k% "GeodS.Line.SetArc", 2, ["1=", "==", "1=", "11"], false, []⟩,
  ⟨k% "GeodS.Line.SetDistance", 2, ["=1", "==", "=1", "11"], false, []⟩,
  ⟨k% "GeodS.LineCtor.GenPosition", 9, ["111=11111", "=1=======", "111=11111", "111111111"], false, []⟩,
  ⟨k% "GeodS.LineCtor.GenPositionArc", 9, ["11111111=", "=1=======", "11111111=", "111111111"], false, []⟩,
  ⟨k% "GeodX.ArcDirect", 8, ["11111111", "=1======", "11111111", "11111111"], false, []⟩,
  ⟨k% "GeodX.ArcDirectLine.Position", 3, ["111", "=1=", "111", "===", "111"], false, []⟩,
  ⟨k% "GeodX.Direct", 8, ["11111111", "=1======", "11111111", "11111111"], false, []⟩,
  ⟨k% "GeodX.DirectLine.Position", 3, ["111", "=1=", "111", "===", "111"], false, []⟩,
  ⟨k% "GeodX.GenDirect", 9, ["111=11111", "=1=======", "111=11111", "111111111"], false, []⟩,
  ⟨k% "GeodX.GenDirectArc", 9, ["11111111=", "=1=======", "11111111=", "111111111"], false, []⟩,
  ⟨k% "GeodX.GenDirectLine.Position", 3, ["111", "=1=", "111", "===", "111"], false, []⟩,
  ⟨k% "GeodX.GenDirectUnroll", 3, ["111", "=1=", "111", "111"], false, []⟩,
  ⟨k% "GeodX.GenInverse", 8, ["11111111", "11111111", "11111111", "11111111"], false, []⟩,
  ⟨k% "GeodX.Inverse", 8, ["11111111", "11111111", "11111111", "11111111"], false, []⟩,
  ⟨k% "GeodX.InverseLine.Position", 5, ["11111", "11111", "11111", "11111", "111=="], false, []⟩,
  ⟨k% "GeodX.Line.Accessors", 5, ["1===1", "=1===", "==111"], false, []⟩,
  ⟨k% "GeodX.Line.ArcPosition", 8, ["11111111", "=1======", "11111111", "11111111"], false, []⟩,
  ⟨k% "GeodX.Line.GenSetArc", 2, ["1=", "==", "1=", "11"], false, []⟩,
  ⟨k% "GeodX.Line.GenSetDistance", 2, ["=1", "==", "=1", "11"], false, []⟩,
  ⟨k% "GeodX.Line.Position", 8, ["11111111", "=1======", "11111111", "11111111"], false, []⟩,
  ⟨k% "GeodX.Line.SetArc", 2, ["1=", "==", "1=", "11"], false, []⟩,
  ⟨k% "GeodX.Line.SetDistance", 2, ["=1", "==", "=1", "11"], false, []⟩,
  ⟨k% "GeodX.LineCtor.GenPosition", 9, ["111=11111", "=1=======", "111=11111", "111111111"], false, []⟩,
  ⟨k% "GeodX.LineCtor.GenPositionArc", 9, ["11111111=", "=1=======", "11111111=", "111111111"], false, []⟩,
  ⟨k% "Geohash.Forward", 1, ["1", "1"], true, []⟩,
  ⟨k% "Geohash.GeohashLength", 1, ["0"], false, []⟩,
  ⟨k% "Geohash.GeohashLength2", 1, ["0", "0"], false, []⟩,
  ⟨k% "Geoid.CacheArea", 1, ["0", "0", "0", "0"], true, [0, 1, 2, 3]⟩,
  ⟨k% "Geoid.ConvertHeight", 1, ["1", "1", "1"], false, []⟩,
  ⟨k% "Geoid.height", 1, ["1", "1"], false, []⟩,
  ⟨k% "Geoid.heightCubic", 1, ["1", "1"], false, []⟩,
  ⟨k% "Georef.Forward", 1, ["1", "1"], true, []⟩,
  ⟨k% "Georef.Precision", 1, ["0"], false, []⟩,
  ⟨k% "Gnomonic.Forward", 4, ["1111", "1111", "1111", "1111"], false, []⟩,
  ⟨k% "Gnomonic.Reverse", 4, ["1111", "=1==", "1111", "1111"], false, []⟩,
  ⟨k% "GravityCircle.Disturbance", 4, ["1111", "1111", "1111"], false, []⟩,
  ⟨k% "GravityCircle.SphericalAnomaly", 3, ["111", "111", "111"], false, []⟩,
  ⟨k% "GravityCircle.T", 4, ["1111", "1111", "1111"], false, []⟩,
  ⟨k% "GravityCircle.T1", 1, ["1", "1", "1"], false, []⟩,
  ⟨k% "GravityCircle.V", 4, ["1111", "1111", "1111"], false, []⟩,
  ⟨k% "GravityCircle.W", 4, ["1111", "1111", "1111"], false, []⟩,
  ⟨k% "GravityModel.Circle", 4, ["1111", "1111", "1111"], false, []⟩,
  ⟨k% "GravityModel.CircleGeoid", 1, ["1", "1"], false, []⟩,
  ⟨k% "GravityModel.Disturbance", 4, ["1111", "1111", "1111"], false, []⟩,
  ⟨k% "GravityModel.GeoidHeight", 1, ["1", "1"], false, []⟩,
  ⟨k% "GravityModel.Gravity", 4, ["1111", "1111", "1111"], false, []⟩,
  ⟨k% "GravityModel.Phi", 3, ["1=1", "=11"], false, []⟩,
  ⟨k% "GravityModel.SphericalAnomaly", 3, ["111", "111", "111"], false, []⟩,
  ⟨k% "GravityModel.T", 4, ["1111", "1111", "1111"], false, []⟩,
  ⟨k% "GravityModel.T1", 1, ["1", "1", "1"], false, []⟩,
  ⟨k% "GravityModel.U", 4, ["1111", "1111", "1111"], false, []⟩,
  ⟨k% "GravityModel.V", 4, ["1111", "1111", "1111"], false, []⟩,
  ⟨k% "GravityModel.W", 4, ["1111", "1111", "1111"], false, []⟩,
  ⟨k% "Intersect.All", 3, ["011", "011", "011", "011", "011", "011", "011", "011", "011"], true, []⟩,
  ⟨k% "Intersect.AllC", 3, ["011", "011", "011", "011", "011", "011", "011", "011", "011"], true, []⟩,
  ⟨k% "Intersect.AllLines", 3, ["011", "011", "011", "011", "011", "011", "011", "011", "011"], true, []⟩,
  ⟨k% "Intersect.AllLinesC", 3, ["011", "011", "011", "011", "011", "011", "011", "011", "011"], true, []⟩,
  ⟨k% "Intersect.Closest", 2, ["11", "11", "11", "11", "11", "11"], false, []⟩,
  ⟨k% "Intersect.ClosestLines", 2, ["11", "11", "11", "11", "11", "11"], false, []⟩,
  ⟨k% "Intersect.ClosestP0", 3, ["110", "110", "110", "110", "110", "110", "110", "110"], false, []⟩,
  ⟨k% "Intersect.Dist", 1, ["1", "1", "1", "1"], false, []⟩,
  ⟨k% "Intersect.Next", 2, ["11", "11", "11", "11"], false, []⟩,
  ⟨k% "Intersect.NextLines", 2, ["11", "11", "11", "11"], false, []⟩,
  ⟨k% "Intersect.Segment", 3, ["110", "110", "110", "110", "110", "110", "110", "110"], false, []⟩,
  ⟨k% "Intersect.SegmentLines", 3, ["110", "110", "110", "110", "110", "110", "110", "110"], false, []⟩,
  ⟨k% "IntersectExact.Closest", 2, ["11", "11", "11", "11", "11", "11"], false, []⟩,
  ⟨k% "LCC.Forward", 4, ["111=", "11=1", "111="], false, []⟩,
  ⟨k% "LCC.Reverse", 4, ["=1==", "1111", "1111"], false, []⟩,
  ⟨k% "LCC.SetScale", 1, ["0", "0"], true, [0, 1]⟩,
  ⟨k% "LCCS.Forward", 4, ["111=", "11=1", "111="], false, []⟩,
  ⟨k% "LCCS.Reverse", 4, ["=1==", "1111", "1111"], false, []⟩,
  ⟨k% "LocalCartesian.Forward", 3, ["111", "111", "111", "111", "111", "111"], false, []⟩,
  ⟨k% "LocalCartesian.ForwardM", 12, ["111===111111", "111111111111", "111=========", "111=11=11=11", "111111111111", "111========="], false, []⟩,
  ⟨k% "LocalCartesian.Reset", 3, ["1==", "=1=", "==1"], false, []⟩,
  ⟨k% "LocalCartesian.Reverse", 3, ["111", "111", "111", "111", "111", "111"], false, []⟩,
  ⟨k% "LocalCartesian.ReverseM", 12, ["111111111111", "111111111111", "111111111111", "111111111111", "111111111111", "111111111111"], false, []⟩,
  ⟨k% "MGRS.Forward", 1, ["1", "1"], true, []⟩,
  ⟨k% "MGRS.ForwardLat", 1, ["1", "1", "1"], true, []⟩,
  ⟨k% "MGRS.ForwardUPS", 1, ["1", "1"], true, []⟩,
  ⟨k% "MagneticCircle.Field3", 3, ["111", "111", "111", "111"], false, []⟩,
  ⟨k% "MagneticCircle.FieldGeocentric", 6, ["111xxx", "111111", "111111", "111111"], false, []⟩,
  ⟨k% "MagneticModel.Circle", 6, ["111xxx", "111111", "111111", "111111"], false, []⟩,
  ⟨k% "MagneticModel.Field", 6, ["111xxx", "111111", "111111", "111111"], false, []⟩,
  ⟨k% "MagneticModel.Field3", 3, ["111", "111", "111", "111"], false, []⟩,
  ⟨k% "MagneticModel.FieldComponents", 8, ["11111111", "11111111", "=1=1=1=1", "====1111", "====1111", "=====1=1"], false, []⟩,
  ⟨k% "MagneticModel.FieldComponents4", 4, ["1111", "1111", "=1=1"], false, []⟩,
  ⟨k% "MagneticModel.FieldGeocentric", 6, ["111xxx", "111111", "111111", "111111"], false, []⟩,
  ⟨k% "Math.AngDiff", 2, ["11", "11"], false, []⟩,
  ⟨k% "Math.AngDiff2", 1, ["1", "1"], false, []⟩,
  ⟨k% "Math.AngNormalize", 1, ["1"], false, []⟩,
  ⟨k% "Math.AngRound", 1, ["1"], false, []⟩,
  ⟨k% "Math.LatFix", 1, ["1"], false, []⟩,
  ⟨k% "Math.atan2d", 1, ["1", "1"], false, []⟩,
  ⟨k% "Math.atand", 1, ["1"], false, []⟩,
  ⟨k% "Math.cosd", 1, ["1"], false, []⟩,
  ⟨k% "Math.eatanhe", 1, ["1", "1"], false, []⟩,
  ⟨k% "Math.hypot3", 1, ["1", "1", "1"], false, []⟩,
  ⟨k% "Math.norm", 2, ["11", "11"], false, []⟩,
  ⟨k% "Math.polyval", 1, ["1", "1", "1", "1"], false, []⟩,
  ⟨k% "Math.sincosd", 2, ["11"], false, []⟩,
  ⟨k% "Math.sincosde", 2, ["11", "11"], false, []⟩,
  ⟨k% "Math.sind", 1, ["1"], false, []⟩,
  ⟨k% "Math.sq", 1, ["1"], false, []⟩,
  ⟨k% "Math.sum", 2, ["11", "11"], false, []⟩,
  ⟨k% "Math.tand", 1, ["1"], false, []⟩,
  ⟨k% "Math.tauf", 1, ["1", "1"], false, []⟩,
  ⟨k% "Math.taupf", 1, ["1", "1"], false, []⟩,
  ⟨k% "MathF.AngDiff", 2, ["11", "11"], false, []⟩,
  ⟨k% "MathF.AngDiff2", 1, ["1", "1"], false, []⟩,
  ⟨k% "MathF.AngNormalize", 1, ["1"], false, []⟩,
  ⟨k% "MathF.AngRound", 1, ["1"], false, []⟩,
  ⟨k% "MathF.LatFix", 1, ["1"], false, []⟩,
  ⟨k% "MathF.atan2d", 1, ["1", "1"], false, []⟩,
  ⟨k% "MathF.atand", 1, ["1"], false, []⟩,
  ⟨k% "MathF.cosd", 1, ["1"], false, []⟩,
  ⟨k% "MathF.eatanhe", 1, ["1", "1"], false, []⟩,
  ⟨k% "MathF.hypot3", 1, ["1", "1", "1"], false, []⟩,
  ⟨k% "MathF.polyval", 1, ["1", "1", "1", "1"], false, []⟩,
  ⟨k% "MathF.sincosd", 2, ["11"], false, []⟩,
  ⟨k% "MathF.sincosde", 2, ["11", "11"], false, []⟩,
  ⟨k% "MathF.sind", 1, ["1"], false, []⟩,
  ⟨k% "MathF.sq", 1, ["1"], false, []⟩,
  ⟨k% "MathF.sum", 2, ["11", "11"], false, []⟩,
  ⟨k% "MathF.tand", 1, ["1"], false, []⟩,
  ⟨k% "MathF.tauf", 1, ["1", "1"], false, []⟩,
  ⟨k% "MathF.taupf", 1, ["1", "1"], false, []⟩,
  ⟨k% "MathL.AngDiff", 2, ["11", "11"], false, []⟩,
  ⟨k% "MathL.AngDiff2", 1, ["1", "1"], false, []⟩,
  ⟨k% "MathL.AngNormalize", 1, ["1"], false, []⟩,
  ⟨k% "MathL.AngRound", 1, ["1"], false, []⟩,
  ⟨k% "MathL.LatFix", 1, ["1"], false, []⟩,
  ⟨k% "MathL.atan2d", 1, ["1", "1"], false, []⟩,
  ⟨k% "MathL.atand", 1, ["1"], false, []⟩,
  ⟨k% "MathL.cosd", 1, ["1"], false, []⟩,
  ⟨k% "MathL.eatanhe", 1, ["1", "1"], false, []⟩,
  ⟨k% "MathL.hypot3", 1, ["1", "1", "1"], false, []⟩,
  ⟨k% "MathL.polyval", 1, ["1", "1", "1", "1"], false, []⟩,
  ⟨k% "MathL.sincosd", 2, ["11"], false, []⟩,
  ⟨k% "MathL.sincosde", 2, ["11", "11"], false, []⟩,
  ⟨k% "MathL.sind", 1, ["1"], false, []⟩,
  ⟨k% "MathL.sq", 1, ["1"], false, []⟩,
  ⟨k% "MathL.sum", 2, ["11", "11"], false, []⟩,
  ⟨k% "MathL.tand", 1, ["1"], false, []⟩,
  ⟨k% "MathL.tauf", 1, ["1", "1"], false, []⟩,
  ⟨k% "MathL.taupf", 1, ["1", "1"], false, []⟩,
  ⟨k% "Mercator.Forward", 4, ["1xx=", "x1x1", "1xx="], false, []⟩,
  ⟨k% "Mercator.Reverse", 4, ["=1==", "x1xx", "1xx1"], false, []⟩,
  ⟨k% "NormalGravity.FlatteningToJ2", 1, ["1", "1", "1", "1"], false, []⟩,
  ⟨k% "NormalGravity.Gravity", 3, ["111", "111"], false, []⟩,
  ⟨k% "NormalGravity.J2ToFlattening", 1, ["1", "1", "1", "1"], false, []⟩,
  ⟨k% "NormalGravity.Phi", 3, ["1=1", "=11"], false, []⟩,
  ⟨k% "NormalGravity.SurfaceGravity", 1, ["1"], false, []⟩,
  ⟨k% "NormalGravity.U", 4, ["1111", "1111", "1111"], false, []⟩,
  ⟨k% "NormalGravity.V0", 4, ["1111", "1111", "1111"], false, []⟩,
  ⟨k% "OSGB.Forward", 4, ["1111", "1111"], false, []⟩,
  ⟨k% "OSGB.GridReference", 1, ["1", "1"], true, []⟩,
  ⟨k% "OSGB.GridReference11", 1, ["1", "1"], true, []⟩,
  ⟨k% "OSGB.Reverse", 4, ["1111", "1111"], false, []⟩,
  ⟨k% "PS.ForwardN", 4, ["11=1", "111="], false, []⟩,
  ⟨k% "PS.ForwardS", 4, ["11=1", "111="], false, []⟩,
  ⟨k% "PS.ReverseN", 4, ["1111", "1111"], false, []⟩,
  ⟨k% "PS.ReverseS", 4, ["1111", "1111"], false, []⟩,
  ⟨k% "PS.SetScale", 1, ["0", "0"], true, [0, 1]⟩,
  ⟨k% "PolygonArea.AddEdge", 2, ["11", "11"], false, []⟩,
  ⟨k% "PolygonArea.AddPoint", 2, ["11", "11"], false, []⟩,
  ⟨k% "PolygonArea.Polyline", 1, ["1", "1"], false, []⟩,
  ⟨k% "PolygonArea.TestEdge", 3, ["11=", "11="], false, []⟩,
  ⟨k% "PolygonArea.TestPoint", 3, ["11=", "11="], false, []⟩,
  ⟨k% "PolygonAreaExact.AddEdge", 2, ["11", "11"], false, []⟩,
  ⟨k% "PolygonAreaExact.AddPoint", 2, ["11", "11"], false, []⟩,
  ⟨k% "PolygonAreaExact.TestEdge", 3, ["11=", "11="], false, []⟩,
  ⟨k% "PolygonAreaExact.TestPoint", 3, ["11=", "11="], false, []⟩,
  ⟨k% "PolygonAreaRhumb.AddEdge", 2, ["11", "11"], false, []⟩,
  ⟨k% "PolygonAreaRhumb.AddPoint", 2, ["11", "11"], false, []⟩,
  ⟨k% "PolygonAreaRhumb.TestEdge", 3, ["11=", "11="], false, []⟩,
  ⟨k% "PolygonAreaRhumb.TestPoint", 3, ["11=", "11="], false, []⟩,
  ⟨k% "RhumbS.Direct", 3, ["111", "=1=", "111", "111"], false, []⟩,
  ⟨k% "RhumbS.GenDirect", 3, ["111", "=1=", "111", "111"], false, []⟩,
  ⟨k% "RhumbS.GenDirectUnroll", 2, ["11", "=1", "11", "11"], false, []⟩,
  ⟨k% "RhumbS.GenInverse", 3, ["111", "111", "111", "111"], false, []⟩,
  ⟨k% "RhumbS.Inverse", 3, ["111", "111", "111", "111"], false, []⟩,
  ⟨k% "RhumbS.Line.GenPosition", 3, ["111", "=1=", "111", "111"], false, []⟩,
  ⟨k% "RhumbS.Line.Position", 3, ["111", "=1=", "111", "111"], false, []⟩,
  ⟨k% "RhumbX.Direct", 3, ["111", "=1=", "111", "111"], false, []⟩,
  ⟨k% "RhumbX.GenDirect", 3, ["111", "=1=", "111", "111"], false, []⟩,
  ⟨k% "RhumbX.GenDirectUnroll", 2, ["11", "=1", "11", "11"], false, []⟩,
  ⟨k% "RhumbX.GenInverse", 3, ["111", "111", "111", "111"], false, []⟩,
  ⟨k% "RhumbX.Inverse", 3, ["111", "111", "111", "111"], false, []⟩,
  ⟨k% "RhumbX.Line.GenPosition", 3, ["111", "=1=", "111", "111"], false, []⟩,
  ⟨k% "RhumbX.Line.Position", 3, ["111", "=1=", "111", "111"], false, []⟩,
  ⟨k% "SphericalEngine.coeff.CvSv", 4, ["11=="], false, []⟩,
  ⟨k% "SphericalHarmonic.Circle", 4, ["1111", "1111", "1111"], false, []⟩,
  ⟨k% "SphericalHarmonic.CircleValue", 1, ["1", "1", "1"], false, []⟩,
  ⟨k% "SphericalHarmonic.Gradient", 4, ["1111", "1111", "1111"], false, []⟩,
  ⟨k% "SphericalHarmonic.Value", 1, ["1", "1", "1"], false, []⟩,
  ⟨k% "SphericalHarmonic1.Circle", 4, ["1111", "1111", "1111", "1111"], false, []⟩,
  ⟨k% "SphericalHarmonic1.Gradient", 4, ["1111", "1111", "1111", "1111"], false, []⟩,
  ⟨k% "SphericalHarmonic1.Value", 1, ["1", "1", "1", "1"], false, []⟩,
  ⟨k% "SphericalHarmonic2.Circle", 4, ["1111", "1111", "1111", "1111", "1111"], false, []⟩,
  ⟨k% "SphericalHarmonic2.Gradient", 4, ["1111", "1111", "1111", "1111", "1111"], false, []⟩,
  ⟨k% "SphericalHarmonic2.Value", 1, ["1", "1", "1", "1", "1"], false, []⟩,
  ⟨k% "TME.Forward", 4, ["1111", "1111", "1111"], false, []⟩,
  ⟨k% "TME.Reverse", 4, ["=1==", "1111", "1111"], false, []⟩,
  ⟨k% "TMEX.Forward", 4, ["1111", "1111", "1111"], false, []⟩,
  ⟨k% "TMEX.Reverse", 4, ["=1==", "1111", "1111"], false, []⟩,
  ⟨k% "TMS.Forward", 4, ["1111", "1111", "1111"], false, []⟩,
  ⟨k% "TMS.Reverse", 4, ["=1==", "1111", "1111"], false, []⟩,
  ⟨k% "TMX.Forward", 4, ["1111", "1111", "1111"], false, []⟩,
  ⟨k% "TMX.Reverse", 4, ["=1==", "1111", "1111"], false, []⟩,
  ⟨k% "UTMUPS.Forward", 6, ["101111", "1=1111"], true, []⟩,
  ⟨k% "UTMUPS.ForwardSetUPS", 6, ["=011=1", "==111="], true, []⟩,
  ⟨k% "UTMUPS.ForwardSetUTM", 6, ["101111", "1=1111"], true, []⟩,
  ⟨k% "UTMUPS.ForwardUPS", 6, ["101111", "1=1111"], true, []⟩,
  ⟨k% "UTMUPS.ForwardZ31", 6, ["=01111", "000000"], true, [1]⟩,
  ⟨k% "UTMUPS.Reverse", 4, ["1111", "1111"], true, []⟩,
  ⟨k% "UTMUPS.ReverseUPS", 4, ["1111", "1111"], true, []⟩,
  ⟨k% "UTMUPS.StandardZone", 1, ["1", "1"], true, []⟩,
  ⟨k% "UTMUPS.Transfer", 3, ["000", "000"], true, [0, 1]⟩,
  ⟨k% "UTMUPS.TransferSame", 3, ["1==", "=1="], true, []⟩,
  ⟨k% "Utility.str", 1, ["1"], false, []⟩
]

def find (name : String) : Option Entry := table.find? (·.name == name)
/-- look-up by numeric code (what the kernel-checked obligations use) -/
def findKey (k : Key) : Option Entry := table.find? (·.key == k)

/-! ## constructor validation predicates (binary64, as coded) -/

def pos (x : F64) : Bool := x.isFinite && F64.gt x 0
def one : F64 := 1
def two : F64 := 2

/-- `isfinite(a) && a > 0`, `b = a * (1 - f)`, `isfinite(b) && b > 0` (Geodesic, GeodesicExact, AuxLatitude, hence Rhumb, Ellipsoid) -/
def abOK (a f : F64) : Bool := pos a && pos (a * (one - f))
/-- `AuxLatitude(pair(a, b))` -/
def axesOK (a b : F64) : Bool := pos a && pos b
/-- `isfinite(a) && a > 0`, `isfinite(f) && f < 1` (Geocentric, and the first two tests of the projections) -/
def afOK (a f : F64) : Bool := pos a && (f.isFinite && F64.lt f one)
/-- TransverseMercator (series), PolarStereographic -/
def afkOK (a f k0 : F64) : Bool := afOK a f && pos k0
/-- TransverseMercatorExact (and TransverseMercator with exact = true): `f > 0` is required -/
def tmExactOK (a f k0 : F64) : Bool := pos a && F64.gt f 0 && F64.lt f one && pos k0
def latOK (lat : F64) : Bool := F64.le (F64.abs lat) MathF.qd
def isPole (lat : F64) : Bool := F64.eq (F64.abs lat) MathF.qd
/-- `PolarStereographic::SetScale(lat, k)`: `k` finite positive, `-90 < lat <= 90` -/
def psSetScaleOK (lat k : F64) : Bool := pos k && F64.lt (F64.neg MathF.qd) lat && F64.le lat MathF.qd
/-- `LambertConformalConic::SetScale`, `AlbersEqualArea::SetScale`: `k` finite positive, `|lat| < 90` -/
def conicSetScaleOK (lat k : F64) : Bool := pos k && F64.lt (F64.abs lat) MathF.qd

def lcc1OK (a f stdlat k0 : F64) : Bool := afkOK a f k0 && latOK stdlat
/-- two standard parallels in degrees: a pole is allowed only if both parallels are that same pole
(`sincosd` is exact at ±90°, and `cos φ = 0` only there) -/
def lcc2OK (a f l1 l2 k1 : F64) : Bool :=
  afkOK a f k1 && latOK l1 && latOK l2 && (if isPole l1 || isPole l2 then F64.eq l1 l2 else true)
/-- the sine/cosine form, exactly as coded -/
def sincosOK (s c : F64) : Bool :=
  !c.signbit && (F64.le (F64.abs s) one && F64.le c one) && !(F64.eq c 0 && F64.eq s 0)
def lcc4OK (a f s1 c1 s2 c2 k1 : F64) : Bool :=
  afkOK a f k1 && !c1.signbit && !c2.signbit && sincosOK s1 c1 && sincosOK s2 c2 &&
    (if F64.eq c1 0 || F64.eq c2 0 then F64.eq c1 c2 && F64.eq s1 s2 else true)
def albers1OK (a f stdlat k0 : F64) : Bool := afkOK a f k0 && latOK stdlat
/-- opposite poles are rejected -/
def albers2OK (a f l1 l2 k1 : F64) : Bool :=
  afkOK a f k1 && latOK l1 && latOK l2 && !(isPole l1 && isPole l2 && !F64.eq l1 l2)
def albers4OK (a f s1 c1 s2 c2 k1 : F64) : Bool :=
  afkOK a f k1 && !c1.signbit && !c2.signbit && sincosOK s1 c1 && sincosOK s2 c2 &&
    !(F64.eq c1 0 && F64.eq c2 0 && F64.le (s1 * s2) 0)
/-- `NormalGravity(a, GM, omega, f, geometricp = true)` -/
def normalGravityOK (a gm omega f : F64) : Bool :=
  pos a && gm.isFinite && (omega * omega).isFinite && ((omega * a) * (omega * a)).isFinite && pos (a * (one - f))
/-- `EllipticFunction::Reset(k2, alpha2, kp2, alphap2)` (NaNs are accepted on purpose) -/
def elliptic4OK (k2 alpha2 kp2 alphap2 : F64) : Bool :=
  !(F64.gt k2 one) && !(F64.gt alpha2 one) && !(F64.lt kp2 0) && !(F64.lt alphap2 0)
def elliptic2OK (k2 alpha2 : F64) : Bool := elliptic4OK k2 alpha2 (one - k2) (one - alpha2)

/-- `GeoCoords(lat, lon)` (= `UTMUPS::Forward` with the standard zone): only a latitude beyond ±90° is rejected; a NaN is not -/
def geoCoordsLatLonOK (lat _lon : F64) : Bool := !F64.gt (F64.abs lat) MathF.qd
/-- `GeoCoords(zone, northp, x, y)` (= `UTMUPS::Reverse`, then the hemisphere fix-up, which cannot fail inside the UTM / UPS
coordinate ranges) -/
def geoCoordsUTMOK (zone : Int) (northp : Bool) (x y : F64) : Bool :=
  match UTMUPS.reverseAccepts zone northp x y false with
  | .ok _ => true
  | .error _ => false

/-- constructors that accept every argument: the geodesic line (the documented exception to "constructors reject"), the origins of
the local systems, angles, accumulators, the reference radius of a harmonic sum -/
def totalCtors : List (Key × Nat) :=
  [(k% "GeodesicLine", 3), (k% "GeodesicLineExact", 3), (k% "LocalCartesian", 3), (k% "CassiniSoldner", 2), (k% "AuxAngle", 2), (k% "Accumulator", 1),
   (k% "SphericalHarmonicRadius", 1)]

/-- dispatch by the class name used in the protocol; `none` = unknown class / wrong arity -/
def ctorOK (cls : String) (p : List F64) : Option Bool :=
  if totalCtors.any (fun c => c.1.s == cls && c.2 == p.length) then some true else
  match cls, p with
  | "Geodesic", [a, f] | "GeodesicX", [a, f] | "GeodesicExact", [a, f] | "Rhumb", [a, f] | "RhumbX", [a, f] | "Ellipsoid", [a, f]
  | "AuxLatitude", [a, f] | "DAuxLatitude", [a, f] => some (abOK a f)
  | "GeoCoordsLatLon", [lat, lon] => some (geoCoordsLatLonOK lat lon)
  | "GeoCoordsUTM32N", [x, y] => some (geoCoordsUTMOK 32 true x y)
  | "GeoCoordsUTM32S", [x, y] => some (geoCoordsUTMOK 32 false x y)
  | "GeoCoordsUPSN", [x, y] => some (geoCoordsUTMOK 0 true x y)
  | "GeoCoordsUPSS", [x, y] => some (geoCoordsUTMOK 0 false x y)
  | "AuxLatitudeAxes", [a, b] => some (axesOK a b)
  | "Geocentric", [a, f] => some (afOK a f)
  | "TransverseMercator", [a, f, k] | "PolarStereographic", [a, f, k] => some (afkOK a f k)
  | "TransverseMercatorX", [a, f, k] | "TransverseMercatorExact", [a, f, k] => some (tmExactOK a f k)
  | "PolarStereographic.SetScale", [lat, k] => some (psSetScaleOK lat k)
  | "LambertConformalConic.SetScale", [lat, k] | "AlbersEqualArea.SetScale", [lat, k] => some (conicSetScaleOK lat k)
  | "LambertConformalConic1", [a, f, l, k] => some (lcc1OK a f l k)
  | "LambertConformalConic2", [a, f, l1, l2, k] => some (lcc2OK a f l1 l2 k)
  | "LambertConformalConic4", [a, f, s1, c1, s2, c2, k] => some (lcc4OK a f s1 c1 s2 c2 k)
  | "AlbersEqualArea1", [a, f, l, k] => some (albers1OK a f l k)
  | "AlbersEqualArea2", [a, f, l1, l2, k] => some (albers2OK a f l1 l2 k)
  | "AlbersEqualArea4", [a, f, s1, c1, s2, c2, k] => some (albers4OK a f s1 c1 s2 c2 k)
  | "NormalGravity", [a, gm, om, f] => some (normalGravityOK a gm om f)
  | "EllipticFunction2", [k2, al2] => some (elliptic2OK k2 al2)
  | "EllipticFunction4", [k2, al2, kp2, alp2] => some (elliptic4OK k2 al2 kp2 alp2)
  | _, _ => none

/-! ### constructors whose domain is the solvability of an equation: what must be rejected, what must be accepted

`NormalGravity(a, GM, omega, J2, geometricp = false)` accepts iff `J2ToFlattening` finds a flattening with a positive finite polar
semi-axis; `Intersect(geod)` accepts iff internal distance checks hold ("validated for -1/4 ≤ f ≤ 1/5 … sufficiently far outside the
range … an exception [is] thrown").  The model gives a two-sided bound: `(mustReject, mustAccept)`; in between nothing is required. -/

def third : F64 := F64.div one (F64.ofInt 3)
def inRange (lo x hi : F64) : Bool := F64.le lo x && F64.le x hi

/-- rejected for certain: the tests coded before the solver (`a`, `GM`, `omega`), `GM ≤ 0`, a non-finite `J2` or `J2 > 1/3 ≥ J0`
(documented: "requires a > 0, GM > 0, J2 < 1/3 − …; a NaN is returned if these conditions do not hold") -/
def normalGravityJ2Reject (a gm omega j2 : F64) : Bool :=
  !(pos a && gm.isFinite && (omega * omega).isFinite && ((omega * a) * (omega * a)).isFinite) || !F64.gt gm 0 || !j2.isFinite ||
    F64.gt j2 third
/-- accepted for certain: earth-like `a`, `GM`, `omega` and `-10^10 ≤ J2 ≤ 0.3` -/
def normalGravityJ2Accept (a gm omega j2 : F64) : Bool :=
  inRange one a (F64.ofInt 100000000) && inRange (F64.ofInt 10000000000) gm (F64.ofInt 1000000000000000000) &&
    inRange (F64.neg (F64.ofDecimal 1 3)) omega (F64.ofDecimal 1 3) && inRange (F64.neg (F64.ofInt 10000000000)) j2 (F64.ofDecimal 3 1)
def intersectReject (a f : F64) : Bool := !abOK a f
def intersectAccept (a f : F64) : Bool :=
  abOK a f && inRange (F64.ofDecimal 1 3) a (F64.ofInt 1000000000000) && inRange (F64.neg (F64.ofDecimal 25 2)) f (F64.ofDecimal 2 1)

/-- `Intersect::All(…, maxdist, …)` validates `maxdist` since fix fb4697b (F78): the number of tiles `ceil((maxdist + δ)/d3)²` must fit into an
`int`, i.e. `maxdist + δ < 46340·d3` with `d3 ≈ π b ≈ 2·10⁷ m` on WGS84 (limit ≈ 9.27·10¹¹ m).  Certainly rejected: `+inf` and everything from
`10¹³` m on; certainly accepted: a NaN (which `fmax(0, maxdist)` turns into 0 — it lists at most the closest intersection), every negative value
(likewise 0) and everything up to `10⁸` m.  (Between `2·10⁸` and the limit the call is legal but its cost grows with `maxdist²`: not run.) -/
def intersectAllReject (maxdist : F64) : Bool := F64.ge maxdist (F64.ofInt 10000000000000)
def intersectAllAccept (maxdist : F64) : Bool := maxdist.isNaN || F64.le maxdist (F64.ofInt 100000000)

/-- `(mustReject, mustAccept)` for the constructors without an exact predicate -/
def ctorBounds (cls : String) (p : List F64) : Option (Bool × Bool) :=
  match cls, p with
  | "NormalGravityJ2", [a, gm, om, j2] => some (normalGravityJ2Reject a gm om j2, normalGravityJ2Accept a gm om j2)
  | "Intersect", [a, f] => some (intersectReject a f, intersectAccept a f)
  | "Intersect.All", [maxdist] => some (intersectAllReject maxdist, intersectAllAccept maxdist)
  | _, _ => none

/-- every class name the dispatchers know, with its number of parameters (the list the API-coverage obligation refers to; that it
agrees with the dispatchers is theorem `ctor_table_dispatches`) -/
def ctorTable : List (Key × Nat) :=
  [(k% "Geodesic", 2), (k% "GeodesicX", 2), (k% "GeodesicExact", 2), (k% "Rhumb", 2), (k% "RhumbX", 2), (k% "Ellipsoid", 2), (k% "AuxLatitude", 2), (k% "DAuxLatitude", 2),
   (k% "AuxLatitudeAxes", 2), (k% "Geocentric", 2), (k% "TransverseMercator", 3), (k% "PolarStereographic", 3), (k% "TransverseMercatorX", 3),
   (k% "TransverseMercatorExact", 3), (k% "PolarStereographic.SetScale", 2), (k% "LambertConformalConic.SetScale", 2), (k% "AlbersEqualArea.SetScale", 2),
   (k% "LambertConformalConic1", 4), (k% "LambertConformalConic2", 5), (k% "LambertConformalConic4", 7), (k% "AlbersEqualArea1", 4), (k% "AlbersEqualArea2", 5),
   (k% "AlbersEqualArea4", 7), (k% "NormalGravity", 4), (k% "NormalGravityJ2", 4), (k% "Intersect", 2), (k% "Intersect.All", 1), (k% "EllipticFunction2", 2), (k% "EllipticFunction4", 4),
   (k% "GeoCoordsLatLon", 2), (k% "GeoCoordsUTM32N", 2), (k% "GeoCoordsUTM32S", 2), (k% "GeoCoordsUPSN", 2), (k% "GeoCoordsUPSS", 2)] ++ totalCtors

/-- does some dispatcher know the class with that many parameters? -/
def ctorKnown (cls : String) (n : Nat) : Bool :=
  let p := List.replicate n (0 : F64)
  (ctorOK cls p).isSome || (ctorBounds cls p).isSome

/-! ### vector-size domain of the spherical-harmonic constructors

`SphericalEngine::coeff(C, S, N[, nmx, mmx])` and the `SphericalHarmonic`, `SphericalHarmonic1`, `SphericalHarmonic2` constructors built on
it: "GeographicErr if N, nmx, mmx do not satisfy N ≥ nmx ≥ mmx ≥ −1", "GeographicErr if C or S is not big enough to hold the
coefficients", "N ≥ N1, nmx ≥ nmx1, mmx ≥ mmx1".  Pure integer arithmetic (mathematical integers: the 32-bit evaluation of `index` in the
code must not differ — where it overflows, UBSan reports it). -/

/-- one-dimensional index of coefficient (n, m) in the column-major triangular layout of degree `N` -/
def shIndex (N n m : Int) : Int := m * N - Int.tdiv (m * (m - 1)) 2 + n

structure ShSet where
  N : Int
  nmx : Int
  mmx : Int
  csize : Int
  ssize : Int

def ShSet.sizesOK (s : ShSet) : Bool :=
  decide (shIndex s.N s.nmx s.mmx < s.csize) && decide (shIndex s.N s.nmx s.mmx < s.ssize + (s.N + 1))
/-- largest degree whose index arithmetic `m * N − m(m − 1)/2 + n` stays inside a 32-bit `int` (`46339² + 46339 < 2³¹`); larger degrees are
refused by the constructors ("Degree too large", fix 3a5948e = F79; `readcoeffs` has the same bound) -/
def shMaxDegree : Int := 46339

/-- the general constructor: `N ≥ nmx ≥ mmx ≥ −1` as documented, with the coded refinement that a sum with `mmx = −1` is empty and then
`nmx = −1` is required as well, and the degree bound -/
def ShSet.generalOK (s : ShSet) : Bool :=
  (decide (s.N ≥ s.nmx ∧ s.nmx ≥ s.mmx ∧ s.mmx ≥ 0) || decide (s.N ≥ -1 ∧ s.nmx = -1 ∧ s.mmx = -1)) && decide (s.N ≤ shMaxDegree) && s.sizesOK
/-- the "full" constructor `(C, S, N)`: `nmx = mmx = N`, `−1 ≤ N ≤ 46339` -/
def ShSet.fullOK (s : ShSet) : Bool :=
  decide (s.N ≥ -1) && decide (s.N ≤ shMaxDegree) && ({ s with nmx := s.N, mmx := s.N } : ShSet).sizesOK
def ShSet.ok (full : Bool) (s : ShSet) : Bool := if full then s.fullOK else s.generalOK

/-- the smallest vectors the documented layout needs (`Csize`, `Ssize` of the header for `nmx = N`, `mmx = M`) -/
def ShSet.needC (s : ShSet) : Int := if s.nmx < 0 then 0 else shIndex s.N s.nmx s.mmx + 1
def ShSet.needS (s : ShSet) : Int := if s.nmx < 0 then 0 else max 0 (shIndex s.N s.nmx s.mmx - s.N)

/-- the secondary sets of SphericalHarmonic1 / SphericalHarmonic2 may not exceed the primary one -/
def shSubordinate (full : Bool) (p q : ShSet) : Bool :=
  if full then decide (q.N ≤ p.N) else decide (q.nmx ≤ p.nmx) && decide (q.mmx ≤ p.mmx)

/-- accept / reject of the constructor `form` (`coeff3 coeff5 sh3 sh5 sh1_3 sh1_5 sh2_3 sh2_5`) on the given coefficient sets.
As coded: the one-set tests of every set and the cross tests; note that the "5" forms of SphericalHarmonic1/2 do *not* compare
`N1` with `N` -/
def shCtorOK (form : String) (sets : List ShSet) : Option Bool :=
  let full := form.endsWith "3"
  let n := if form.startsWith "sh2_" then 3 else if form.startsWith "sh1_" then 2 else 1
  if !(["coeff3", "coeff5", "sh3", "sh5", "sh1_3", "sh1_5", "sh2_3", "sh2_5"].contains form) || sets.length != n then none else
  match sets with
  | p :: rest => some (rest.all (shSubordinate full p) && (p :: rest).all (ShSet.ok full))
  | [] => none

/-! ### the other streams of `harness/C13.cpp` (names as used in the protocol) -/

/-- text parsers driven with seeds and mutations by `c13_parse` / `c13_rev` / `c13_fwd` -/
def parsers : List Key :=
  [k% "DMS.Decode", k% "DMS.DecodeLatLon", k% "DMS.DecodeAngle", k% "DMS.DecodeAzimuth", k% "GeoCoords", k% "GeoCoords.Reset", k% "Utility.val", k% "Utility.vali",
   k% "Utility.valf", k% "Utility.vall", k% "Utility.valb", k% "Utility.fract", k% "Utility.nummatch", k% "Utility.date", k% "Utility.fractionalyear", k% "Utility.ParseLine",
   k% "Utility.ParseLine4", k% "Utility.trim", k% "Utility.lookup", k% "Utility.lookupc", k% "Utility.readarray", k% "MGRS.Decode",
   k% "rev.geohash", k% "rev.gars", k% "rev.georef", k% "rev.osgb", k% "rev.mgrs", k% "rev.zone"]
/-- readers of data files / streams driven with truncated and corrupted images -/
def fileReaders : List Key := [k% "geoidfile", k% "magfile", k% "gravfile", k% "nnfile", k% "nnload"]
/-- vector-size domains (`c13_shctor`) -/
def sizeForms : List Key := [k% "coeff3", k% "coeff5", k% "sh3", k% "sh5", k% "sh1_3", k% "sh1_5", k% "sh2_3", k% "sh2_5"]

/-- Geoid PGM header (composed from fields): magic, offset and scale present, scale > 0, maxval 65535, even width ≥ 2,
odd height ≥ 3, and exactly `2·w·h` data bytes -/
def geoidHeaderOK (magic : String) (offsetPresent scalePresent : Bool) (scale : F64) (w h maxval lengthDelta : Int) : Bool :=
  magic == "P5" && offsetPresent && scalePresent && F64.gt scale 0 && maxval == 65535 && w ≥ 2 && h ≥ 2 && w % 2 == 0 &&
    h % 2 == 1 && lengthDelta == 0

/-! ## `NearestNeighbor::Node::Check` and `Load` -/

/-- `maxbucket` (for `dist_t = double`) and the file-format `version`, re-read from `NearestNeighbor.hpp` on every run -/
def maxbucket : Nat := Gen.NNC.maxbucket
def nnVersion : Int := Gen.NNC.version

structure Node where
  index : Int
  child0 : Int
  child1 : Int
  lower0 : F64
  upper0 : F64
  lower1 : F64
  upper1 : F64
  leaves : List Int      -- `maxbucket` entries

/-- the leaf loop of `Check`: at least one valid leaf first, then end markers (-1) only -/
def leavesOK (numpoints : Int) : Bool → Nat → List Int → Bool
  | _, _, [] => true
  | start, l, x :: rest =>
    (if start then decide ((if l = 0 then (0 : Int) else -1) ≤ x ∧ x < numpoints) else decide (x = -1)) &&
      leavesOK numpoints (decide (x ≥ 0)) (l + 1) rest

def Node.check (n : Node) (numpoints treesize : Int) (bucket : Nat) : Bool :=
  decide (-1 ≤ n.index ∧ n.index < numpoints) &&
  (if n.index ≥ 0 then
     decide (-1 ≤ n.child0 ∧ n.child0 < treesize ∧ -1 ≤ n.child1 ∧ n.child1 < treesize) &&
       (F64.le 0 n.lower0 && F64.le n.lower0 n.upper0 && F64.le n.upper0 n.lower1 && F64.le n.lower1 n.upper1)
   else
     leavesOK numpoints true 0 (n.leaves.take bucket) && (n.leaves.drop bucket).all (· == 0))

/-- header tests of `Load` -/
def headerOK (version realspec bucket numpoints treesize cost : Int) : Bool :=
  version == nnVersion && realspec == 53 && decide (0 ≤ bucket ∧ bucket ≤ maxbucket) &&
    decide (0 ≤ treesize ∧ treesize ≤ numpoints) && decide (0 ≤ cost)

/-- what `Load` makes of a stored node: only `bucket` leaf slots are stored, the others are zeroed by `Load` -/
def Node.loaded (n : Node) (bucket : Nat) : Node :=
  { n with leaves := n.leaves.take bucket ++ List.replicate (maxbucket - bucket) 0 }

/-- the text format cannot represent a non-finite bound (`operator>>` fails on "inf"/"nan": "Bad node data") -/
def Node.textReadable (n : Node) : Bool :=
  n.index < 0 || (n.lower0.isFinite && n.upper0.isFinite && n.lower1.isFinite && n.upper1.isFinite)

/-- node `i` of a file is checked with `treesize := i` (children are stored before their parent) -/
def nodesOK (bin : Bool) (numpoints : Int) (bucket : Nat) : Nat → List Node → Bool
  | _, [] => true
  | i, n :: rest => (bin || n.textReadable) && (n.loaded bucket).check numpoints i bucket && nodesOK bin numpoints bucket (i + 1) rest

/-- the children named by the internal nodes of a file, in file order -/
def childList (nodes : List Node) : List Int :=
  nodes.flatMap fun n => if n.index ≥ 0 then [n.child0, n.child1].filter (· ≥ 0) else []

/-- each node may be the child of at most one parent (fix 90dea91: a file whose nodes share a child is not a tree and makes
`Search` exponentially slow) -/
def childrenDistinct (nodes : List Node) : Bool :=
  let c := childList nodes
  c.eraseDups.length == c.length

def loadAccepts (bin : Bool) (version realspec bucket numpoints treesize cost : Int) (nodes : List Node) : Bool :=
  headerOK version realspec bucket numpoints treesize cost && nodesOK bin numpoints bucket.toNat 0 nodes &&
    childrenDistinct nodes

/-- outputs visible to a caller that pre-filled them with `sent`: an error leaves the sentinels -/
def visible {ε α : Type} (sent : α) (r : Except ε α) : α :=
  match r with
  | .ok v => v
  | .error _ => sent

/-- NaN-preserving minimum as the repaired `LambertConformalConic::Reverse` uses it (`x < y ? x : y` written so that a NaN in
either operand survives), in contrast to C `fmin` (`F64.fmin`), which discards it -/
def minNaN (x y : F64) : F64 := if x.isNaN || y.isNaN then .nan else if F64.lt y x then y else x
def maxNaN (x y : F64) : F64 := if x.isNaN || y.isNaN then .nan else if F64.lt x y then y else x

end GeoVerif.ErrContract
