import GeoVerif.FP.F64
import GeoVerif.Model.MathF
import GeoVerif.Gen.NNC
/-!
# C13 — the error contract as tables and decidable predicates

* `Entry` / `table`: for every public numeric entry point driven by `harness/C13.cpp`, the **dependence table**
  (one row per input argument, one character per output: `1` = the output depends on that input, so a NaN there must
  give NaN here; `0` = it does not, so it must stay a valid number; `x` = nothing required: degenerate special cases
  such as Mercator, free-text outputs), whether the function is documented to validate its arguments, and the inputs
  whose NaN is rejected with the library's exception.  Hand-written from the headers' documentation and the formulas;
  the driver decides from it, exactly, what a call with a NaN argument must return.
* constructor validation predicates over the exact binary64 model, as coded / documented.
* `NearestNeighbor::Node::Check` and the acceptance test of `NearestNeighbor::Load`.
Core Lean only (executed by `gvdriver`).
-/
namespace GeoVerif.ErrContract
open GeoVerif

/-! ## what the harness reports about one call -/

inductive Exc where
  | none          -- returned normally
  | lib           -- GeographicLib::GeographicErr
  | alloc         -- std::bad_alloc
  | foreign       -- any other exception type
  | hang          -- did not return (watchdog)
deriving DecidableEq, Repr

structure Report where
  exc : Exc
  written : List Bool     -- per output: differs from its sentinel after the call
  isnan : List Bool       -- per output: is NaN (or the documented INVALID marker) after the call
deriving Repr

/-- "when a function throws, the arguments it uses for return values are left exactly as they were", and only the
library's exception type (or an allocation failure) may come out -/
def throwClean (r : Report) : Bool :=
  match r.exc with
  | .none => true
  | .lib | .alloc => r.written.all (· == false)
  | .foreign | .hang => false

/-! ## dependence table -/

structure Entry where
  name : String
  nout : Nat
  rows : List String      -- one per input
  validates : Bool
  nanErr : List Nat
deriving Repr

inductive Req where
  | nan | valid | free
deriving DecidableEq, Repr

def reqOfChar (c : Char) : Req := if c = '1' then .nan else if c = '0' then .valid else .free

/-- requirement on output `o` when input `i` is NaN -/
def Entry.req (e : Entry) (i o : Nat) : Req :=
  match e.rows[i]? with
  | some row => reqOfChar (row.toList.getD o 'x')
  | none => .free

def Entry.nin (e : Entry) : Nat := e.rows.length

def okOut (q : Req) (isnan : Bool) : Bool :=
  match q with
  | .nan => isnan
  | .valid => !isnan
  | .free => true

/-- verdict for a call whose argument `i` is NaN (all others at the valid baseline) -/
def Entry.checkNaN (e : Entry) (i : Nat) (r : Report) : Bool :=
  if e.nanErr.contains i then
    -- documented rejection of a NaN: the library's exception and nothing written, or NaN results
    (r.exc == .lib && r.written.all (· == false)) ||
      (r.exc == .none && (List.range e.nout).all fun o => okOut (e.req i o) (r.isnan.getD o false))
  else
    r.exc == .none && r.isnan.length == e.nout &&
      (List.range e.nout).all fun o => okOut (e.req i o) (r.isnan.getD o false)

/-- verdict for the baseline call: no exception, every output written and valid -/
def Entry.checkBase (e : Entry) (r : Report) : Bool :=
  r.exc == .none && r.written.length == e.nout && r.written.all (· == true) && r.isnan.all (· == false)

/-- verdict for any other special value (±inf, ±0, denormal, huge, ±90, …): an exception only from functions that
validate, only the library's, and nothing written when it throws -/
def Entry.checkOther (e : Entry) (r : Report) : Bool :=
  throwClean r && (r.exc == .none || e.validates)

def wellFormed (e : Entry) : Bool :=
  e.rows.all (fun row => row.length == e.nout && row.toList.all (fun c => c = '0' || c = '1' || c = 'x')) &&
    e.nanErr.all (· < e.rows.length)

def table : List Entry := [
  ⟨"Accumulator", 1, ["1", "1"], false, []⟩,
  ⟨"Albers.Forward", 4, ["1110", "1101", "1110"], false, []⟩,
  ⟨"Albers.Reverse", 4, ["0100", "1111", "1111"], false, []⟩,
  ⟨"Albers.SetScale", 1, ["0", "0"], true, [0, 1]⟩,
  ⟨"AlbersS.Forward", 4, ["1110", "1101", "1110"], false, []⟩,
  ⟨"AlbersS.Reverse", 4, ["0100", "1111", "1111"], false, []⟩,
  ⟨"AuxAngle.degrees", 3, ["111", "111"], false, []⟩,
  ⟨"AuxLatitude.ConvertExact", 36, ["111111111111111111111111111111111111"], false, []⟩,
  ⟨"AuxLatitude.ConvertSeries", 36, ["111111111111111111111111111111111111"], false, []⟩,
  ⟨"AzimuthalEquidistant.Forward", 4, ["1111", "1111", "1111", "1111"], false, []⟩,
  ⟨"AzimuthalEquidistant.Reverse", 4, ["1111", "0100", "1111", "1111"], false, []⟩,
  ⟨"CassiniSoldner.Forward", 4, ["0100", "1111", "1111", "1111"], false, []⟩,
  ⟨"CassiniSoldner.Reverse", 4, ["1111", "0100", "1111", "1111"], false, []⟩,
  ⟨"CylEA.Forward", 4, ["1xx0", "x1x1", "1xx0"], false, []⟩,
  ⟨"CylEA.Reverse", 4, ["0100", "x1xx", "1xx1"], false, []⟩,
  ⟨"DMS.Encode", 3, ["111"], false, []⟩,
  ⟨"DMS.EncodeDMS", 3, ["111"], false, []⟩,
  ⟨"Ellipsoid.AuthalicLatitude", 1, ["1"], false, []⟩,
  ⟨"Ellipsoid.CircleHeight", 1, ["1"], false, []⟩,
  ⟨"Ellipsoid.CircleRadius", 1, ["1"], false, []⟩,
  ⟨"Ellipsoid.ConformalLatitude", 1, ["1"], false, []⟩,
  ⟨"Ellipsoid.EccentricitySqToFlattening", 1, ["1"], false, []⟩,
  ⟨"Ellipsoid.FlatteningToEccentricitySq", 1, ["1"], false, []⟩,
  ⟨"Ellipsoid.FlatteningToSecondEccentricitySq", 1, ["1"], false, []⟩,
  ⟨"Ellipsoid.FlatteningToSecondFlattening", 1, ["1"], false, []⟩,
  ⟨"Ellipsoid.FlatteningToThirdEccentricitySq", 1, ["1"], false, []⟩,
  ⟨"Ellipsoid.FlatteningToThirdFlattening", 1, ["1"], false, []⟩,
  ⟨"Ellipsoid.GeocentricLatitude", 1, ["1"], false, []⟩,
  ⟨"Ellipsoid.InverseAuthalicLatitude", 1, ["1"], false, []⟩,
  ⟨"Ellipsoid.InverseConformalLatitude", 1, ["1"], false, []⟩,
  ⟨"Ellipsoid.InverseGeocentricLatitude", 1, ["1"], false, []⟩,
  ⟨"Ellipsoid.InverseIsometricLatitude", 1, ["1"], false, []⟩,
  ⟨"Ellipsoid.InverseParametricLatitude", 1, ["1"], false, []⟩,
  ⟨"Ellipsoid.InverseRectifyingLatitude", 1, ["1"], false, []⟩,
  ⟨"Ellipsoid.IsometricLatitude", 1, ["1"], false, []⟩,
  ⟨"Ellipsoid.MeridianDistance", 1, ["1"], false, []⟩,
  ⟨"Ellipsoid.MeridionalCurvatureRadius", 1, ["1"], false, []⟩,
  ⟨"Ellipsoid.NormalCurvatureRadius", 1, ["1", "1"], false, []⟩,
  ⟨"Ellipsoid.ParametricLatitude", 1, ["1"], false, []⟩,
  ⟨"Ellipsoid.RectifyingLatitude", 1, ["1"], false, []⟩,
  ⟨"Ellipsoid.SecondEccentricitySqToFlattening", 1, ["1"], false, []⟩,
  ⟨"Ellipsoid.SecondFlatteningToFlattening", 1, ["1"], false, []⟩,
  ⟨"Ellipsoid.ThirdEccentricitySqToFlattening", 1, ["1"], false, []⟩,
  ⟨"Ellipsoid.ThirdFlatteningToFlattening", 1, ["1"], false, []⟩,
  ⟨"Ellipsoid.TransverseCurvatureRadius", 1, ["1"], false, []⟩,
  ⟨"EllipticFunction.D", 1, ["1"], false, []⟩,
  ⟨"EllipticFunction.D3", 1, ["1", "1", "1"], false, []⟩,
  ⟨"EllipticFunction.Delta", 1, ["x", "1"], false, []⟩,
  ⟨"EllipticFunction.E", 1, ["1"], false, []⟩,
  ⟨"EllipticFunction.E3", 1, ["1", "1", "1"], false, []⟩,
  ⟨"EllipticFunction.Ed", 1, ["1"], false, []⟩,
  ⟨"EllipticFunction.Einv", 1, ["1"], false, []⟩,
  ⟨"EllipticFunction.F", 1, ["1"], false, []⟩,
  ⟨"EllipticFunction.F3", 1, ["1", "1", "1"], false, []⟩,
  ⟨"EllipticFunction.G", 1, ["1"], false, []⟩,
  ⟨"EllipticFunction.G3", 1, ["1", "1", "1"], false, []⟩,
  ⟨"EllipticFunction.H", 1, ["1"], false, []⟩,
  ⟨"EllipticFunction.H3", 1, ["1", "1", "1"], false, []⟩,
  ⟨"EllipticFunction.Pi", 1, ["1"], false, []⟩,
  ⟨"EllipticFunction.Pi3", 1, ["1", "1", "1"], false, []⟩,
  ⟨"EllipticFunction.RC", 1, ["1", "1"], false, []⟩,
  ⟨"EllipticFunction.RD", 1, ["1", "1", "1"], false, []⟩,
  ⟨"EllipticFunction.RF2", 1, ["1", "1"], false, []⟩,
  ⟨"EllipticFunction.RF3", 1, ["1", "1", "1"], false, []⟩,
  ⟨"EllipticFunction.RG2", 1, ["1", "1"], false, []⟩,
  ⟨"EllipticFunction.RG3", 1, ["1", "1", "1"], false, []⟩,
  ⟨"EllipticFunction.RJ", 1, ["1", "1", "1", "1"], false, []⟩,
  ⟨"EllipticFunction.Reset", 3, ["111", "001"], true, []⟩,
  ⟨"EllipticFunction.am", 1, ["1"], false, []⟩,
  ⟨"EllipticFunction.am4", 4, ["1111"], false, []⟩,
  ⟨"EllipticFunction.deltaD3", 1, ["1", "1", "1"], false, []⟩,
  ⟨"EllipticFunction.deltaE3", 1, ["1", "1", "1"], false, []⟩,
  ⟨"EllipticFunction.deltaEinv", 1, ["1", "1"], false, []⟩,
  ⟨"EllipticFunction.deltaF3", 1, ["1", "1", "1"], false, []⟩,
  ⟨"EllipticFunction.deltaG3", 1, ["1", "1", "1"], false, []⟩,
  ⟨"EllipticFunction.deltaH3", 1, ["1", "1", "1"], false, []⟩,
  ⟨"EllipticFunction.deltaPi3", 1, ["1", "1", "1"], false, []⟩,
  ⟨"EllipticFunction.sncndn", 3, ["111"], false, []⟩,
  ⟨"GARS.Forward", 1, ["1", "1"], true, []⟩,
  ⟨"GeoCoords.LatLon", 9, ["1011111x1", "0111111x1"], true, []⟩,
  ⟨"GeoCoords.UTM", 7, ["111011x", "110111x"], true, []⟩,
  ⟨"Geocentric.Forward", 3, ["111", "110", "111"], false, []⟩,
  ⟨"Geocentric.ForwardM", 12, ["111011011011", "110111111000", "111000000000"], false, []⟩,
  ⟨"Geocentric.Reverse", 3, ["111", "111", "101"], false, []⟩,
  ⟨"Geocentric.ReverseM", 12, ["111111111011", "111111111011", "101011011011"], false, []⟩,
  ⟨"GeodE.ArcDirect", 8, ["11111111", "01000000", "11111111", "11111111"], false, []⟩,
  ⟨"GeodE.ArcDirectLine.Position", 3, ["111", "010", "111", "000", "111"], false, []⟩,
  ⟨"GeodE.Direct", 8, ["11111111", "01000000", "11111111", "11111111"], false, []⟩,
  ⟨"GeodE.DirectLine.Position", 3, ["111", "010", "111", "000", "111"], false, []⟩,
  ⟨"GeodE.GenDirectUnroll", 3, ["111", "010", "111", "111"], false, []⟩,
  ⟨"GeodE.Inverse", 8, ["11111111", "11111111", "11111111", "11111111"], false, []⟩,
  ⟨"GeodE.InverseLine.Position", 5, ["11111", "11111", "11111", "11111", "11100"], false, []⟩,
  ⟨"GeodE.Line.ArcPosition", 8, ["11111111", "01000000", "11111111", "11111111"], false, []⟩,
  ⟨"GeodE.Line.Position", 8, ["11111111", "01000000", "11111111", "11111111"], false, []⟩,
  ⟨"GeodE.Line.SetArc", 2, ["10", "00", "10", "11"], false, []⟩,
  ⟨"GeodE.Line.SetDistance", 2, ["01", "00", "01", "11"], false, []⟩,
  ⟨"GeodS.ArcDirect", 8, ["11111111", "01000000", "11111111", "11111111"], false, []⟩,
  ⟨"GeodS.ArcDirectLine.Position", 3, ["111", "010", "111", "000", "111"], false, []⟩,
  ⟨"GeodS.Direct", 8, ["11111111", "01000000", "11111111", "11111111"], false, []⟩,
  ⟨"GeodS.DirectLine.Position", 3, ["111", "010", "111", "000", "111"], false, []⟩,
  ⟨"GeodS.GenDirectUnroll", 3, ["111", "010", "111", "111"], false, []⟩,
  ⟨"GeodS.Inverse", 8, ["11111111", "11111111", "11111111", "11111111"], false, []⟩,
  ⟨"GeodS.InverseLine.Position", 5, ["11111", "11111", "11111", "11111", "11100"], false, []⟩,
  ⟨"GeodS.Line.ArcPosition", 8, ["11111111", "01000000", "11111111", "11111111"], false, []⟩,
  ⟨"GeodS.Line.Position", 8, ["11111111", "01000000", "11111111", "11111111"], false, []⟩,
  ⟨"GeodS.Line.SetArc", 2, ["10", "00", "10", "11"], false, []⟩,
  ⟨"GeodS.Line.SetDistance", 2, ["01", "00", "01", "11"], false, []⟩,
  ⟨"GeodX.ArcDirect", 8, ["11111111", "01000000", "11111111", "11111111"], false, []⟩,
  ⟨"GeodX.ArcDirectLine.Position", 3, ["111", "010", "111", "000", "111"], false, []⟩,
  ⟨"GeodX.Direct", 8, ["11111111", "01000000", "11111111", "11111111"], false, []⟩,
  ⟨"GeodX.DirectLine.Position", 3, ["111", "010", "111", "000", "111"], false, []⟩,
  ⟨"GeodX.GenDirectUnroll", 3, ["111", "010", "111", "111"], false, []⟩,
  ⟨"GeodX.Inverse", 8, ["11111111", "11111111", "11111111", "11111111"], false, []⟩,
  ⟨"GeodX.InverseLine.Position", 5, ["11111", "11111", "11111", "11111", "11100"], false, []⟩,
  ⟨"GeodX.Line.ArcPosition", 8, ["11111111", "01000000", "11111111", "11111111"], false, []⟩,
  ⟨"GeodX.Line.Position", 8, ["11111111", "01000000", "11111111", "11111111"], false, []⟩,
  ⟨"GeodX.Line.SetArc", 2, ["10", "00", "10", "11"], false, []⟩,
  ⟨"GeodX.Line.SetDistance", 2, ["01", "00", "01", "11"], false, []⟩,
  ⟨"Geohash.Forward", 1, ["1", "1"], true, []⟩,
  ⟨"Geoid.CacheArea", 1, ["0", "0", "0", "0"], true, [0, 1, 2, 3]⟩,
  ⟨"Geoid.ConvertHeight", 1, ["1", "1", "1"], false, []⟩,
  ⟨"Geoid.height", 1, ["1", "1"], false, []⟩,
  ⟨"Geoid.heightCubic", 1, ["1", "1"], false, []⟩,
  ⟨"Georef.Forward", 1, ["1", "1"], true, []⟩,
  ⟨"Gnomonic.Forward", 4, ["1111", "1111", "1111", "1111"], false, []⟩,
  ⟨"Gnomonic.Reverse", 4, ["1111", "0100", "1111", "1111"], false, []⟩,
  ⟨"GravityModel.Circle", 4, ["1111", "1111", "1111"], false, []⟩,
  ⟨"GravityModel.CircleGeoid", 1, ["1", "1"], false, []⟩,
  ⟨"GravityModel.Disturbance", 4, ["1111", "1111", "1111"], false, []⟩,
  ⟨"GravityModel.GeoidHeight", 1, ["1", "1"], false, []⟩,
  ⟨"GravityModel.Gravity", 4, ["1111", "1111", "1111"], false, []⟩,
  ⟨"GravityModel.SphericalAnomaly", 3, ["111", "111", "111"], false, []⟩,
  ⟨"GravityModel.T", 4, ["1111", "1111", "1111"], false, []⟩,
  ⟨"GravityModel.U", 4, ["1111", "1111", "1111"], false, []⟩,
  ⟨"GravityModel.V", 4, ["1111", "1111", "1111"], false, []⟩,
  ⟨"GravityModel.W", 4, ["1111", "1111", "1111"], false, []⟩,
  ⟨"Intersect.Closest", 2, ["11", "11", "11", "11", "11", "11"], false, []⟩,
  ⟨"Intersect.Next", 2, ["11", "11", "11", "11"], false, []⟩,
  ⟨"Intersect.Segment", 2, ["11", "11", "11", "11", "11", "11", "11", "11"], false, []⟩,
  ⟨"IntersectExact.Closest", 2, ["11", "11", "11", "11", "11", "11"], false, []⟩,
  ⟨"LCC.Forward", 4, ["1110", "1101", "1110"], false, []⟩,
  ⟨"LCC.Reverse", 4, ["0100", "1111", "1111"], false, []⟩,
  ⟨"LCC.SetScale", 1, ["0", "0"], true, [0, 1]⟩,
  ⟨"LCCS.Forward", 4, ["1110", "1101", "1110"], false, []⟩,
  ⟨"LCCS.Reverse", 4, ["0100", "1111", "1111"], false, []⟩,
  ⟨"LocalCartesian.Forward", 3, ["111", "111", "111", "111", "111", "111"], false, []⟩,
  ⟨"LocalCartesian.Reset", 3, ["100", "010", "001"], false, []⟩,
  ⟨"LocalCartesian.Reverse", 3, ["111", "111", "111", "111", "111", "111"], false, []⟩,
  ⟨"MGRS.Forward", 1, ["1", "1"], true, []⟩,
  ⟨"MGRS.ForwardLat", 1, ["1", "1", "1"], true, []⟩,
  ⟨"MGRS.ForwardUPS", 1, ["1", "1"], true, []⟩,
  ⟨"MagneticModel.Circle", 6, ["111xxx", "111111", "111111", "111111"], false, []⟩,
  ⟨"MagneticModel.Field", 6, ["111xxx", "111111", "111111", "111111"], false, []⟩,
  ⟨"MagneticModel.FieldComponents", 8, ["11111111", "11111111", "01010101", "00001111", "00001111", "00000101"], false, []⟩,
  ⟨"MagneticModel.FieldGeocentric", 6, ["111xxx", "111111", "111111", "111111"], false, []⟩,
  ⟨"Math.AngDiff", 2, ["11", "11"], false, []⟩,
  ⟨"Math.AngNormalize", 1, ["1"], false, []⟩,
  ⟨"Math.AngRound", 1, ["1"], false, []⟩,
  ⟨"Math.LatFix", 1, ["1"], false, []⟩,
  ⟨"Math.atan2d", 1, ["1", "1"], false, []⟩,
  ⟨"Math.atand", 1, ["1"], false, []⟩,
  ⟨"Math.cosd", 1, ["1"], false, []⟩,
  ⟨"Math.eatanhe", 1, ["1", "1"], false, []⟩,
  ⟨"Math.norm", 2, ["11", "11"], false, []⟩,
  ⟨"Math.sincosd", 2, ["11"], false, []⟩,
  ⟨"Math.sincosde", 2, ["11", "11"], false, []⟩,
  ⟨"Math.sind", 1, ["1"], false, []⟩,
  ⟨"Math.sq", 1, ["1"], false, []⟩,
  ⟨"Math.sum", 2, ["11", "11"], false, []⟩,
  ⟨"Math.tand", 1, ["1"], false, []⟩,
  ⟨"Math.tauf", 1, ["1", "1"], false, []⟩,
  ⟨"Math.taupf", 1, ["1", "1"], false, []⟩,
  ⟨"Mercator.Forward", 4, ["1xx0", "x1x1", "1xx0"], false, []⟩,
  ⟨"Mercator.Reverse", 4, ["0100", "x1xx", "1xx1"], false, []⟩,
  ⟨"NormalGravity.FlatteningToJ2", 1, ["1", "1", "1", "1"], false, []⟩,
  ⟨"NormalGravity.Gravity", 3, ["111", "111"], false, []⟩,
  ⟨"NormalGravity.J2ToFlattening", 1, ["1", "1", "1", "1"], false, []⟩,
  ⟨"NormalGravity.Phi", 3, ["101", "011"], false, []⟩,
  ⟨"NormalGravity.SurfaceGravity", 1, ["1"], false, []⟩,
  ⟨"NormalGravity.U", 4, ["1111", "1111", "1111"], false, []⟩,
  ⟨"NormalGravity.V0", 4, ["1111", "1111", "1111"], false, []⟩,
  ⟨"OSGB.Forward", 4, ["1111", "1111"], false, []⟩,
  ⟨"OSGB.GridReference", 1, ["1", "1"], true, []⟩,
  ⟨"OSGB.GridReference11", 1, ["1", "1"], true, []⟩,
  ⟨"OSGB.Reverse", 4, ["1111", "1111"], false, []⟩,
  ⟨"PS.ForwardN", 4, ["1101", "1110"], false, []⟩,
  ⟨"PS.ForwardS", 4, ["1101", "1110"], false, []⟩,
  ⟨"PS.ReverseN", 4, ["1111", "1111"], false, []⟩,
  ⟨"PS.ReverseS", 4, ["1111", "1111"], false, []⟩,
  ⟨"PS.SetScale", 1, ["0", "0"], true, [0, 1]⟩,
  ⟨"PolygonArea.AddEdge", 2, ["11", "11"], false, []⟩,
  ⟨"PolygonArea.AddPoint", 2, ["11", "11"], false, []⟩,
  ⟨"PolygonArea.Polyline", 1, ["1", "1"], false, []⟩,
  ⟨"PolygonArea.TestEdge", 2, ["11", "11"], false, []⟩,
  ⟨"PolygonArea.TestPoint", 2, ["11", "11"], false, []⟩,
  ⟨"PolygonAreaExact.AddPoint", 2, ["11", "11"], false, []⟩,
  ⟨"PolygonAreaRhumb.AddPoint", 2, ["11", "11"], false, []⟩,
  ⟨"RhumbS.Direct", 3, ["111", "010", "111", "111"], false, []⟩,
  ⟨"RhumbS.GenDirectUnroll", 2, ["11", "01", "11", "11"], false, []⟩,
  ⟨"RhumbS.Inverse", 3, ["111", "111", "111", "111"], false, []⟩,
  ⟨"RhumbS.Line.Position", 3, ["111", "010", "111", "111"], false, []⟩,
  ⟨"RhumbX.Direct", 3, ["111", "010", "111", "111"], false, []⟩,
  ⟨"RhumbX.GenDirectUnroll", 2, ["11", "01", "11", "11"], false, []⟩,
  ⟨"RhumbX.Inverse", 3, ["111", "111", "111", "111"], false, []⟩,
  ⟨"RhumbX.Line.Position", 3, ["111", "010", "111", "111"], false, []⟩,
  ⟨"SphericalHarmonic.Circle", 4, ["1111", "1111", "1111"], false, []⟩,
  ⟨"SphericalHarmonic.Gradient", 4, ["1111", "1111", "1111"], false, []⟩,
  ⟨"SphericalHarmonic.Value", 1, ["1", "1", "1"], false, []⟩,
  ⟨"SphericalHarmonic1.Gradient", 4, ["1111", "1111", "1111", "1111"], false, []⟩,
  ⟨"SphericalHarmonic2.Gradient", 4, ["1111", "1111", "1111", "1111", "1111"], false, []⟩,
  ⟨"TME.Forward", 4, ["1111", "1111", "1111"], false, []⟩,
  ⟨"TME.Reverse", 4, ["0100", "1111", "1111"], false, []⟩,
  ⟨"TMEX.Forward", 4, ["1111", "1111", "1111"], false, []⟩,
  ⟨"TMEX.Reverse", 4, ["0100", "1111", "1111"], false, []⟩,
  ⟨"TMS.Forward", 4, ["1111", "1111", "1111"], false, []⟩,
  ⟨"TMS.Reverse", 4, ["0100", "1111", "1111"], false, []⟩,
  ⟨"TMX.Forward", 4, ["1111", "1111", "1111"], false, []⟩,
  ⟨"TMX.Reverse", 4, ["0100", "1111", "1111"], false, []⟩,
  ⟨"UTMUPS.Forward", 6, ["101111", "101111"], true, []⟩,
  ⟨"UTMUPS.ForwardSetUPS", 6, ["001101", "001110"], true, []⟩,
  ⟨"UTMUPS.ForwardSetUTM", 6, ["101111", "101111"], true, []⟩,
  ⟨"UTMUPS.ForwardUPS", 6, ["101111", "101111"], true, []⟩,
  ⟨"UTMUPS.ForwardZ31", 6, ["001111", "000000"], true, [1]⟩,
  ⟨"UTMUPS.Reverse", 4, ["1111", "1111"], true, []⟩,
  ⟨"UTMUPS.ReverseUPS", 4, ["1111", "1111"], true, []⟩,
  ⟨"UTMUPS.StandardZone", 1, ["1", "1"], true, []⟩,
  ⟨"UTMUPS.Transfer", 3, ["000", "000"], true, [0, 1]⟩,
  ⟨"UTMUPS.TransferSame", 3, ["100", "010"], true, []⟩,
  ⟨"Utility.str", 1, ["1"], false, []⟩
]

def find (name : String) : Option Entry := table.find? (·.name == name)

/-! ## constructor validation predicates (binary64, as coded) -/

def pos (x : F64) : Bool := x.isFinite && F64.gt x 0
def one : F64 := 1
def two : F64 := 2

/-- `isfinite(a) && a > 0`, `b = a * (1 - f)`, `isfinite(b) && b > 0` (Geodesic, GeodesicExact, AuxLatitude, hence Rhumb, Ellipsoid) -/
def abOK (a f : F64) : Bool := pos a && pos (a * (one - f))
/-- `AuxLatitude(pair(a, b))` -/
def axesOK (a b : F64) : Bool := pos a && pos b
/-- `isfinite(a) && a > 0`, `isfinite(f) && f < 1` (Geocentric, and the first two tests of the projections) -/
def afOK (a f : F64) : Bool := pos a && (f.isFinite && F64.lt f one)
/-- TransverseMercator (series), PolarStereographic -/
def afkOK (a f k0 : F64) : Bool := afOK a f && pos k0
/-- TransverseMercatorExact (and TransverseMercator with exact = true): `f > 0` is required -/
def tmExactOK (a f k0 : F64) : Bool := pos a && F64.gt f 0 && F64.lt f one && pos k0
def latOK (lat : F64) : Bool := F64.le (F64.abs lat) MathF.qd
def isPole (lat : F64) : Bool := F64.eq (F64.abs lat) MathF.qd
/-- `PolarStereographic::SetScale(lat, k)`: `k` finite positive, `-90 < lat <= 90` -/
def psSetScaleOK (lat k : F64) : Bool := pos k && F64.lt (F64.neg MathF.qd) lat && F64.le lat MathF.qd
/-- `LambertConformalConic::SetScale`, `AlbersEqualArea::SetScale`: `k` finite positive, `|lat| < 90` -/
def conicSetScaleOK (lat k : F64) : Bool := pos k && F64.lt (F64.abs lat) MathF.qd

def lcc1OK (a f stdlat k0 : F64) : Bool := afkOK a f k0 && latOK stdlat
/-- two standard parallels in degrees: a pole is allowed only if both parallels are that same pole
(`sincosd` is exact at ±90°, and `cos φ = 0` only there) -/
def lcc2OK (a f l1 l2 k1 : F64) : Bool :=
  afkOK a f k1 && latOK l1 && latOK l2 && (if isPole l1 || isPole l2 then F64.eq l1 l2 else true)
/-- the sine/cosine form, exactly as coded -/
def sincosOK (s c : F64) : Bool :=
  !c.signbit && (F64.le (F64.abs s) one && F64.le c one) && !(F64.eq c 0 && F64.eq s 0)
def lcc4OK (a f s1 c1 s2 c2 k1 : F64) : Bool :=
  afkOK a f k1 && !c1.signbit && !c2.signbit && sincosOK s1 c1 && sincosOK s2 c2 &&
    (if F64.eq c1 0 || F64.eq c2 0 then F64.eq c1 c2 && F64.eq s1 s2 else true)
def albers1OK (a f stdlat k0 : F64) : Bool := afkOK a f k0 && latOK stdlat
/-- opposite poles are rejected -/
def albers2OK (a f l1 l2 k1 : F64) : Bool :=
  afkOK a f k1 && latOK l1 && latOK l2 && !(isPole l1 && isPole l2 && !F64.eq l1 l2)
def albers4OK (a f s1 c1 s2 c2 k1 : F64) : Bool :=
  afkOK a f k1 && !c1.signbit && !c2.signbit && sincosOK s1 c1 && sincosOK s2 c2 &&
    !(F64.eq c1 0 && F64.eq c2 0 && F64.le (s1 * s2) 0)
/-- `NormalGravity(a, GM, omega, f, geometricp = true)` -/
def normalGravityOK (a gm omega f : F64) : Bool :=
  pos a && gm.isFinite && (omega * omega).isFinite && ((omega * a) * (omega * a)).isFinite && pos (a * (one - f))
/-- `EllipticFunction::Reset(k2, alpha2, kp2, alphap2)` (NaNs are accepted on purpose) -/
def elliptic4OK (k2 alpha2 kp2 alphap2 : F64) : Bool :=
  !(F64.gt k2 one) && !(F64.gt alpha2 one) && !(F64.lt kp2 0) && !(F64.lt alphap2 0)
def elliptic2OK (k2 alpha2 : F64) : Bool := elliptic4OK k2 alpha2 (one - k2) (one - alpha2)

/-- dispatch by the class name used in the protocol; `none` = unknown class / wrong arity -/
def ctorOK (cls : String) (p : List F64) : Option Bool :=
  match cls, p with
  | "Geodesic", [a, f] | "GeodesicX", [a, f] | "GeodesicExact", [a, f] | "Rhumb", [a, f] | "Ellipsoid", [a, f]
  | "AuxLatitude", [a, f] => some (abOK a f)
  | "AuxLatitudeAxes", [a, b] => some (axesOK a b)
  | "Geocentric", [a, f] => some (afOK a f)
  | "TransverseMercator", [a, f, k] | "PolarStereographic", [a, f, k] => some (afkOK a f k)
  | "TransverseMercatorX", [a, f, k] | "TransverseMercatorExact", [a, f, k] => some (tmExactOK a f k)
  | "PolarStereographic.SetScale", [lat, k] => some (psSetScaleOK lat k)
  | "LambertConformalConic.SetScale", [lat, k] | "AlbersEqualArea.SetScale", [lat, k] => some (conicSetScaleOK lat k)
  | "LambertConformalConic1", [a, f, l, k] => some (lcc1OK a f l k)
  | "LambertConformalConic2", [a, f, l1, l2, k] => some (lcc2OK a f l1 l2 k)
  | "LambertConformalConic4", [a, f, s1, c1, s2, c2, k] => some (lcc4OK a f s1 c1 s2 c2 k)
  | "AlbersEqualArea1", [a, f, l, k] => some (albers1OK a f l k)
  | "AlbersEqualArea2", [a, f, l1, l2, k] => some (albers2OK a f l1 l2 k)
  | "AlbersEqualArea4", [a, f, s1, c1, s2, c2, k] => some (albers4OK a f s1 c1 s2 c2 k)
  | "NormalGravity", [a, gm, om, f] => some (normalGravityOK a gm om f)
  | "EllipticFunction2", [k2, al2] => some (elliptic2OK k2 al2)
  | "EllipticFunction4", [k2, al2, kp2, alp2] => some (elliptic4OK k2 al2 kp2 alp2)
  | _, _ => none

/-- Geoid PGM header (composed from fields): magic, offset and scale present, scale > 0, maxval 65535, even width ≥ 2,
odd height ≥ 3, and exactly `2·w·h` data bytes -/
def geoidHeaderOK (magic : String) (offsetPresent scalePresent : Bool) (scale : F64) (w h maxval lengthDelta : Int) : Bool :=
  magic == "P5" && offsetPresent && scalePresent && F64.gt scale 0 && maxval == 65535 && w ≥ 2 && h ≥ 2 && w % 2 == 0 &&
    h % 2 == 1 && lengthDelta == 0

/-! ## `NearestNeighbor::Node::Check` and `Load` -/

/-- `maxbucket` (for `dist_t = double`) and the file-format `version`, re-read from `NearestNeighbor.hpp` on every run -/
def maxbucket : Nat := Gen.NNC.maxbucket
def nnVersion : Int := Gen.NNC.version

structure Node where
  index : Int
  child0 : Int
  child1 : Int
  lower0 : F64
  upper0 : F64
  lower1 : F64
  upper1 : F64
  leaves : List Int      -- `maxbucket` entries

/-- the leaf loop of `Check`: at least one valid leaf first, then end markers (-1) only -/
def leavesOK (numpoints : Int) : Bool → Nat → List Int → Bool
  | _, _, [] => true
  | start, l, x :: rest =>
    (if start then decide ((if l = 0 then (0 : Int) else -1) ≤ x ∧ x < numpoints) else decide (x = -1)) &&
      leavesOK numpoints (decide (x ≥ 0)) (l + 1) rest

def Node.check (n : Node) (numpoints treesize : Int) (bucket : Nat) : Bool :=
  decide (-1 ≤ n.index ∧ n.index < numpoints) &&
  (if n.index ≥ 0 then
     decide (-1 ≤ n.child0 ∧ n.child0 < treesize ∧ -1 ≤ n.child1 ∧ n.child1 < treesize) &&
       (F64.le 0 n.lower0 && F64.le n.lower0 n.upper0 && F64.le n.upper0 n.lower1 && F64.le n.lower1 n.upper1)
   else
     leavesOK numpoints true 0 (n.leaves.take bucket) && (n.leaves.drop bucket).all (· == 0))

/-- header tests of `Load` -/
def headerOK (version realspec bucket numpoints treesize cost : Int) : Bool :=
  version == nnVersion && realspec == 53 && decide (0 ≤ bucket ∧ bucket ≤ maxbucket) &&
    decide (0 ≤ treesize ∧ treesize ≤ numpoints) && decide (0 ≤ cost)

/-- what `Load` makes of a stored node: only `bucket` leaf slots are stored, the others are zeroed by `Load` -/
def Node.loaded (n : Node) (bucket : Nat) : Node :=
  { n with leaves := n.leaves.take bucket ++ List.replicate (maxbucket - bucket) 0 }

/-- the text format cannot represent a non-finite bound (`operator>>` fails on "inf"/"nan": "Bad node data") -/
def Node.textReadable (n : Node) : Bool :=
  n.index < 0 || (n.lower0.isFinite && n.upper0.isFinite && n.lower1.isFinite && n.upper1.isFinite)

/-- node `i` of a file is checked with `treesize := i` (children are stored before their parent) -/
def nodesOK (bin : Bool) (numpoints : Int) (bucket : Nat) : Nat → List Node → Bool
  | _, [] => true
  | i, n :: rest => (bin || n.textReadable) && (n.loaded bucket).check numpoints i bucket && nodesOK bin numpoints bucket (i + 1) rest

/-- the children named by the internal nodes of a file, in file order -/
def childList (nodes : List Node) : List Int :=
  nodes.flatMap fun n => if n.index ≥ 0 then [n.child0, n.child1].filter (· ≥ 0) else []

/-- each node may be the child of at most one parent (fix 90dea91: a file whose nodes share a child is not a tree and makes
`Search` exponentially slow) -/
def childrenDistinct (nodes : List Node) : Bool :=
  let c := childList nodes
  c.eraseDups.length == c.length

def loadAccepts (bin : Bool) (version realspec bucket numpoints treesize cost : Int) (nodes : List Node) : Bool :=
  headerOK version realspec bucket numpoints treesize cost && nodesOK bin numpoints bucket.toNat 0 nodes &&
    childrenDistinct nodes

/-- outputs visible to a caller that pre-filled them with `sent`: an error leaves the sentinels -/
def visible {ε α : Type} (sent : α) (r : Except ε α) : α :=
  match r with
  | .ok v => v
  | .error _ => sent

/-- NaN-preserving minimum as the repaired `LambertConformalConic::Reverse` uses it (`x < y ? x : y` written so that a NaN in
either operand survives), in contrast to C `fmin` (`F64.fmin`), which discards it -/
def minNaN (x y : F64) : F64 := if x.isNaN || y.isNaN then .nan else if F64.lt y x then y else x
def maxNaN (x y : F64) : F64 := if x.isNaN || y.isNaN then .nan else if F64.lt x y then y else x

end GeoVerif.ErrContract
