import GeoVerif.FP.F64
import GeoVerif.Model.MathF
import GeoVerif.Model.Accum
/-!
# PolygonAreaT: bookkeeping around an abstract geodesic/rhumb backend

The solver is a kernel: every operation takes the `(s12, S12)` (and, for
`AddEdge`, the end longitude) that the backend returned for that edge.  Sums
are kept in exact rationals — approximating that exact sum is precisely the
job of the implementation's `Accumulator`.  Crossing counts use the exact
binary64 models of `AngDiff`/`AngNormalize`/`remainder`.
-/
namespace GeoVerif.Polygon
open GeoVerif

def Dy.toRat (d : Dy) : Rat :=
  if d.e ≥ 0 then (d.m * (2 : Int) ^ d.e.toNat : Int) else Rat.divInt d.m ((2 : Int) ^ (-d.e).toNat)

def toRat (x : F64) : Rat := Dy.toRat x.toDy

/-- decision core of `PolygonAreaT::transit` on the signed difference `d = AngDiff(lon1, lon2)` and the
    normalised longitudes `n1`, `n2` -/
def transitQ (d n1 n2 : Rat) : Int :=
  if 0 < d ∧ ((n1 < 0 ∧ 0 ≤ n2) ∨ (0 < n1 ∧ n2 = 0)) then 1
  else if d < 0 ∧ 0 ≤ n1 ∧ (n2 < 0 ∨ n2 = 180) then -1 else 0

/-- `PolygonAreaT::transit(lon1, lon2)` -/
def transit (lon1 lon2 : F64) : Int :=
  let lon12 := (MathF.angDiff lon1 lon2).1
  let n1 := MathF.angNormalize lon1
  let n2 := MathF.angNormalize lon2
  if lon12.isNaN || n1.isNaN || n2.isNaN then 0 else transitQ (toRat lon12) (toRat n1) (toRat n2)

/-- decision core of `transitdirect` on the two IEEE remainders modulo 720 -/
def transitdirectQ (r1 r2 : Rat) : Int :=
  (if 0 ≤ r2 ∧ r2 < 360 then 0 else 1) - (if 0 ≤ r1 ∧ r1 < 360 then 0 else 1)

def transitdirect (lon1 lon2 : F64) : Int :=
  let r1 := F64.remainder lon1 (F64.ofInt 720)
  let r2 := F64.remainder lon2 (F64.ofInt 720)
  -- NaN: both comparisons false ⇒ class 1
  let cls (r : F64) : Int := if r.isNaN then 1 else (if 0 ≤ toRat r ∧ toRat r < 360 then 0 else 1)
  cls r2 - cls r1

/-- IEEE `remainder(x, y)` on rationals (`y > 0`): `x − n·y`, `n` nearest integer, ties to even -/
def remainderQ (x y : Rat) : Rat :=
  let q := x / y
  let f := q.floor
  let r := q - f
  let n : Int := if r < 1 / 2 then f else if r > 1 / 2 then f + 1 else (if f % 2 = 0 then f else f + 1)
  x - n * y

/-- `PolygonAreaT::AreaReduce` in exact arithmetic -/
def areaReduce (area A : Rat) (crossings : Int) (reverse sign : Bool) : Rat :=
  let a := remainderQ area A
  let a := if crossings % 2 = 1 then a + (if a < 0 then 1 else -1) * (A / 2) else a
  let a := if !reverse then -a else a
  if sign then
    (if a > A / 2 then a - A else if a ≤ -(A / 2) then a + A else a)
  else
    (if a ≥ A then a - A else if a < 0 then a + A else a)

structure State where
  num : Nat := 0
  crossings : Int := 0
  areasum : Rat := 0
  perimsum : Rat := 0
  lat0 : F64 := F64.nan
  lon0 : F64 := F64.nan
  lat1 : F64 := F64.nan
  lon1 : F64 := F64.nan
  polyline : Bool := false

/-- the constructor: `Clear()` on an object whose mode is `polyline` -/
def init (polyline : Bool) : State := { polyline := polyline }

/-- `Clear()`: counters and sums zero, the four coordinates NaN; the mode is kept -/
def clear (st : State) : State := init st.polyline

/-- `AddPoint(lat, lon)`; `(s12, S12)` = what the backend's inverse returns for the edge from the current vertex -/
def addPoint (st : State) (lat lon : F64) (s12 S12 : Rat) : State :=
  if st.num = 0 then { st with num := 1, lat0 := lat, lon0 := lon, lat1 := lat, lon1 := lon }
  else
    { st with
      num := st.num + 1
      perimsum := st.perimsum + s12
      areasum := if st.polyline then st.areasum else st.areasum + S12
      crossings := if st.polyline then st.crossings else st.crossings + transit st.lon1 lon
      lat1 := lat
      lon1 := lon }

/-- `AddEdge(azi, s)`; `lat2`, `lon2`, `S12` = what the backend's direct solution returns; ignored before the first point -/
def addEdge (st : State) (s : Rat) (lat2 lon2 : F64) (S12 : Rat) : State :=
  if st.num = 0 then st
  else
    { st with
      num := st.num + 1
      perimsum := st.perimsum + s
      areasum := if st.polyline then st.areasum else st.areasum + S12
      crossings := if st.polyline then st.crossings else st.crossings + transitdirect st.lon1 lon2
      lat1 := lat2
      lon1 := lon2 }

structure Result where
  num : Nat
  perimeter : Option Rat     -- `none` = NaN
  area : Option (Option Rat) -- outer `none` = not written (polyline); inner `none` = NaN
deriving Repr

/-- `Compute(reverse, sign)`; `(s12, S12)` = backend inverse for the closing edge -/
def compute (st : State) (A : Rat) (reverse sign : Bool) (s12 S12 : Rat) : Result :=
  if st.num < 2 then ⟨st.num, some 0, if st.polyline then none else some (some 0)⟩
  else if st.polyline then ⟨st.num, some st.perimsum, none⟩
  else
    let crossings := st.crossings + transit st.lon1 st.lon0
    ⟨st.num, some (st.perimsum + s12), some (some (areaReduce (st.areasum + S12) A crossings reverse sign))⟩

/-- `TestPoint(lat, lon, reverse, sign)`; `k1` = inverse(current → new), `k2` = inverse(new → first) -/
def testPoint (st : State) (A : Rat) (lon : F64) (reverse sign : Bool) (k1 k2 : Rat × Rat) : Result :=
  if st.num = 0 then ⟨1, some 0, if st.polyline then none else some (some 0)⟩
  else if st.polyline then ⟨st.num + 1, some (st.perimsum + k1.1), none⟩
  else
    let crossings := st.crossings + transit st.lon1 lon + transit lon st.lon0
    ⟨st.num + 1, some (st.perimsum + k1.1 + k2.1), some (some (areaReduce (st.areasum + k1.2 + k2.2) A crossings reverse sign))⟩

/-- `TestEdge(azi, s, reverse, sign)`; `lon2, S12` from the direct solution, `k2` = inverse(new → first) -/
def testEdge (st : State) (A : Rat) (s : Rat) (lon2 : F64) (S12 : Rat) (reverse sign : Bool) (k2 : Rat × Rat) : Result :=
  if st.num = 0 then ⟨0, none, if st.polyline then none else some none⟩
  else if st.polyline then ⟨st.num + 1, some (st.perimsum + s), none⟩
  else
    let crossings := st.crossings + transitdirect st.lon1 lon2 + transit lon2 st.lon0
    ⟨st.num + 1, some (st.perimsum + s + k2.1), some (some (areaReduce (st.areasum + S12 + k2.2) A crossings reverse sign))⟩

/-! ## whole edit histories over an arbitrary solver -/

/-- the six public operations of an edit history -/
inductive Op where
  | clear
  | addPoint (lat lon : F64)
  | addEdge (azi s : F64)
  | compute (reverse sign : Bool)
  | testPoint (lat lon : F64) (reverse sign : Bool)
  | testEdge (azi s : F64) (reverse sign : Bool)

/-- the solver behind the polygon (Geodesic, GeodesicExact, Rhumb, or anything else):
    `inverse lat1 lon1 lat2 lon2 = (s12, S12)`, `direct lat1 lon1 azi s = (lat2, lon2, S12)` (longitude unrolled) -/
structure Backend where
  inverse : F64 → F64 → F64 → F64 → F64 × F64
  direct : F64 → F64 → F64 → F64 → F64 × F64 × F64

/-- one operation: the new state and, for the three queries, what is returned -/
def exec (B : Backend) (A : Rat) (st : State) : Op → State × Option Result
  | .clear => (clear st, none)
  | .addPoint lat lon =>
    let k := B.inverse st.lat1 st.lon1 lat lon
    (addPoint st lat lon (toRat k.1) (toRat k.2), none)
  | .addEdge azi s =>
    let d := B.direct st.lat1 st.lon1 azi s
    (addEdge st (toRat s) d.1 d.2.1 (toRat d.2.2), none)
  | .compute rv sg =>
    let k := B.inverse st.lat1 st.lon1 st.lat0 st.lon0
    (st, some (compute st A rv sg (toRat k.1) (toRat k.2)))
  | .testPoint lat lon rv sg =>
    let k1 := B.inverse st.lat1 st.lon1 lat lon
    let k2 := B.inverse lat lon st.lat0 st.lon0
    (st, some (testPoint st A lon rv sg (toRat k1.1, toRat k1.2) (toRat k2.1, toRat k2.2)))
  | .testEdge azi s rv sg =>
    let d := B.direct st.lat1 st.lon1 azi s
    let k2 := B.inverse d.1 d.2.1 st.lat0 st.lon0
    (st, some (testEdge st A (toRat s) d.2.1 (toRat d.2.2) rv sg (toRat k2.1, toRat k2.2)))

/-- the state after a history -/
def run (B : Backend) (A : Rat) (st : State) (ops : List Op) : State :=
  ops.foldl (fun s op => (exec B A s op).1) st

/-- the state after every operation together with what the operation returned -/
def trace (B : Backend) (A : Rat) : State → List Op → List (State × Option Result)
  | _, [] => []
  | st, op :: ops => exec B A st op :: trace B A (exec B A st op).1 ops

/-! ## `AreaReduce` on the two-word accumulator and on a plain `real` (bit level) -/

/-- `Accumulator::remainder(y)`: `_s = remainder(_s, y); Add(0)` -/
def accRemainder (a : Accum.Acc) (y : F64) : Accum.Acc := Accum.add ⟨F64.remainder a.s y, a.t⟩ 0

/-- `(area < 0 ? 1 : -1) * _area0/2` -/
def halfStep (neg : Bool) (A : F64) : F64 := ((if neg then (1 : F64) else F64.neg 1) * A) / 2

/-- `AreaReduce(Accumulator&, crossings, reverse, sign)`: stage 1, remainder and the odd-crossing correction -/
def adjAcc (a : Accum.Acc) (A : F64) (crossings : Int) : Accum.Acc :=
  let a := accRemainder a A
  if crossings % 2 ≠ 0 then Accum.add a (halfStep (F64.lt a.s 0) A) else a

/-- stage 2: `if (!reverse) area *= -1` -/
def orientAcc (rv : Bool) (a : Accum.Acc) : Accum.Acc := if !rv then Accum.negate a else a

/-- stage 3: the window, `(-A/2, A/2]` or `[0, A)` -/
def windowAcc (A : F64) (sg : Bool) (a : Accum.Acc) : Accum.Acc :=
  if sg then
    (if F64.gt a.s (A / 2) then Accum.sub a A else if F64.le a.s (F64.neg A / 2) then Accum.add a A else a)
  else
    (if F64.ge a.s A then Accum.sub a A else if F64.lt a.s 0 then Accum.add a A else a)

def areaReduceAcc (a : Accum.Acc) (A : F64) (crossings : Int) (rv sg : Bool) : Accum.Acc :=
  windowAcc A sg (orientAcc rv (adjAcc a A crossings))

/-- the same function instantiated at `T = real` (used by `TestPoint` / `TestEdge`) -/
def adjF (a A : F64) (crossings : Int) : F64 :=
  let a := F64.remainder a A
  if crossings % 2 ≠ 0 then a + halfStep (F64.lt a 0) A else a
def orientF (rv : Bool) (a : F64) : F64 := if !rv then a * F64.neg 1 else a
def windowF (A : F64) (sg : Bool) (a : F64) : F64 :=
  if sg then
    (if F64.gt a (A / 2) then a - A else if F64.le a (F64.neg A / 2) then a + A else a)
  else
    (if F64.ge a A then a - A else if F64.lt a 0 then a + A else a)
def areaReduceF (a A : F64) (crossings : Int) (rv sg : Bool) : F64 := windowF A sg (orientF rv (adjF a A crossings))

/-- `area = real(0) + tempsum()` -/
def report (a : Accum.Acc) : F64 := (0 : F64) + a.s

end GeoVerif.Polygon
