import GeoVerif.Basic.RealLike
import GeoVerif.Model.Clenshaw
import GeoVerif.Model.GeodLine
/-!
# The elliptic-integral geodesic line: `GeodesicExact::GeodesicExact`, `GeodesicLineExact::LineInit`, `GeodesicLineExact::GenPosition`

Kernel-parametric and polymorphic in the number type.  The member functions of the line's `EllipticFunction _eE`
(`E()`, `D()`, `H()`, `deltaE`, `deltaD`, `deltaH`, `deltaEinv`) and the discrete sine transform of the area integrand
(`_cC4a`) are **abstract kernels** (`Ell`); everything around them — the auxiliary-sphere trigonometry, the scaled distance
`tau`, arc and distance mode, the degenerate end point, the unrolled and the reduced longitude, `m12/M12/M21`, the Clenshaw
sum `DST::integral`, the two `alp12` formulas of the area — is the same arithmetic in the same order as
`GeodesicLineExact.cpp`.  `EllipticFunction::Delta` and `Math::atan2d` are modelled, `Math::sincosd` is a kernel (its values
are inputs).

Readings: executed in the running-error arithmetic `FP/RunErr.lean` by the driver against the private members and the outputs
of the implementation, with the kernels filled by the values the implementation's `EllipticFunction` returns at the arguments
the model asks for (`Corr/C01.lean`, ops `xgeodconst`, `xlineinit`, `xgenpos`); read over `ℝ` by the theorems of
`Props/C01.lean` and `Props/C03.lean`, which hold for **every** kernel (or every kernel satisfying a stated contract).
Core Lean only.
-/
namespace GeoVerif.GeodLineX
open GeoVerif GeoVerif.RealLike GeoVerif.Clenshaw GeoVerif.GeodLine
open GeoVerif.RealLike.Lits

variable {α : Type} [RealLike α]

/-! ### `GeodesicExact::GeodesicExact(a, f)` -/

structure GeodX (α : Type) where
  a : α
  f : α
  f1 : α
  e2 : α
  ep2 : α
  n : α
  b : α
  c2 : α
  etol2 : α
  tiny : α

/-- the member initialisers of `GeodesicExact::GeodesicExact(a, f)`: as `Geodesic`, except that `_c2` uses
    `asinh(sqrt(ep2))` (oblate) / `atan(sqrt(−e2))` (prolate) -/
def geodesicX (a f tiny eps0 : α) : GeodX α :=
  let f1 := (1 : α) - f
  let e2 := f * ((2 : α) - f)
  let ep2 := e2 / sq f1
  let n := f / ((2 : α) - f)
  let b := a * f1
  let c2 := (sq a + sq b * (if eqb f 0 then (1 : α) else
              (if ltb 0 f then RealLike.asinh (RealLike.sqrt ep2) else RealLike.atan (RealLike.sqrt (-e2))) / RealLike.sqrt (RealLike.abs e2))) / 2
  let tol2 := RealLike.sqrt eps0
  let etol2 := RealLike.ofDec 1 1 * tol2 /
    RealLike.sqrt (RealLike.max (RealLike.ofDec 1 3) (RealLike.abs f) * RealLike.min (1 : α) ((1 : α) - f / 2) / 2)
  ⟨a, f, f1, e2, ep2, n, b, c2, etol2, tiny⟩

/-! ### the kernels -/

/-- what the line asks of its `EllipticFunction` object (constructed by `_eE.Reset(-k2, -ep2, 1 + k2, 1 + ep2)`) and of the
    discrete sine transform: complete integrals `E()`, `D()`, `H()`; the periodic parts `deltaE/D/H(sn, cn, dn)`;
    `deltaEinv(stau, ctau)`; and the Fourier coefficients `_cC4a` of the area integrand -/
structure Ell (α : Type) where
  Ec : α
  Dc : α
  Hc : α
  deltaE : α → α → α → α
  deltaD : α → α → α → α
  deltaH : α → α → α → α
  deltaEinv : α → α → α
  C4a : List α

/-- `EllipticFunction::Delta(sn, cn)` of the object with `_k2 = −k2`, `_kp2 = kp2` (`= 1 + k2` as `LineInit` passes it) -/
def delta (k2 kp2 sn cn : α) : α :=
  let ek2 := -k2
  RealLike.sqrt (if ltb ek2 0 then (1 : α) - ek2 * sn * sn else kp2 + ek2 * cn * cn)

/-- `DST::integral(sinx, cosx, F, N)`: Clenshaw summation of `−Σ_i F[i]/(2i+1) · cos((2i+1)x)` -/
def dstIntegral (sinx cosx : α) (F : List α) : α :=
  let ar := (2 : α) * (cosx - sinx) * (cosx + sinx)
  let w := (List.range F.length).map fun i => F.getD i 0 / RealLike.ofNat (2 * i + 1)
  let p := clen ar w
  cosx * (p.2 - p.1)

/-! ### `GeodesicLineExact::LineInit` -/

/-- the private members of a `GeodesicLineExact` that `GenPosition` reads -/
structure LineX (α : Type) where
  f : α
  f1 : α
  e2 : α
  b : α
  c2 : α
  tiny : α
  lon1 : α
  salp1 : α
  calp1 : α
  dn1 : α
  salp0 : α
  calp0 : α
  ssig1 : α
  csig1 : α
  somg1 : α
  cchi1 : α
  k2 : α
  kp2 : α
  E0 : α
  E1 : α
  stau1 : α
  ctau1 : α
  D0 : α
  D1 : α
  H0 : α
  H1 : α
  A4 : α
  B41 : α

structure InitAuxX (α : Type) where
  sbet1 : α
  cbet1 : α
  comg1 : α

/-- `π/2` as the C++ writes it: `Math::pi() / 2` -/
def halfPi : α := RealLike.pi / 2

/-- `GeodesicLineExact::LineInit(g, lat1, lon1, azi1, salp1, calp1, ALL)`.  Kernel inputs: `(sbet1r, cbet1r) =
    sincosd(AngRound(LatFix(lat1)))`, `(salp1, calp1) = sincosd(AngRound(AngNormalize(azi1)))`, and the elliptic kernels `K` of the
    object `Reset(-k2, -ep2, 1 + k2, 1 + ep2)`. -/
def lineInitX (g : GeodX α) (K : Ell α) (lon1 sbet1r cbet1r salp1 calp1 : α) : LineX α × InitAuxX α :=
  let sbet1 := sbet1r * g.f1
  let nb := norm2 sbet1 cbet1r
  let sbet1 := nb.1
  let cbet1 := RealLike.max g.tiny nb.2
  let dn1 := if leb 0 g.f then RealLike.sqrt ((1 : α) + g.ep2 * sq sbet1)
             else RealLike.sqrt ((1 : α) - g.e2 * sq cbet1) / g.f1
  let salp0 := salp1 * cbet1
  let calp0 := RealLike.hypot calp1 (salp1 * sbet1)
  let somg1 := salp0 * sbet1
  let comg1 := if !(eqb sbet1 0) || !(eqb calp1 0) then cbet1 * calp1 else (1 : α)
  let cchi1 := g.f1 * dn1 * comg1
  let ns := norm2 sbet1 comg1
  let ssig1 := ns.1
  let csig1 := ns.2
  let k2 := sq calp0 * g.ep2
  let kp2 := (1 : α) + k2
  let E0 := K.Ec / halfPi
  let E1 := K.deltaE ssig1 csig1 dn1
  let s := RealLike.sin E1
  let c := RealLike.cos E1
  let stau1 := ssig1 * c + csig1 * s
  let ctau1 := csig1 * c - ssig1 * s
  let D0 := K.Dc / halfPi
  let D1 := K.deltaD ssig1 csig1 dn1
  let H0 := K.Hc / halfPi
  let H1 := K.deltaH ssig1 csig1 dn1
  let A4 := sq g.a * calp0 * salp0 * g.e2
  let B41 := if eqb A4 0 then (0 : α) else dstIntegral ssig1 csig1 K.C4a
  (⟨g.f, g.f1, g.e2, g.b, g.c2, g.tiny, lon1, salp1, calp1, dn1, salp0, calp0, ssig1, csig1, somg1, cchi1, k2, kp2,
    E0, E1, stau1, ctau1, D0, D1, H0, H1, A4, B41⟩, ⟨sbet1, cbet1, comg1⟩)

/-! ### the reduced length and geodesic scales as coded (shared with the series line: the same expressions) -/

/-- `m12 / b` as `GenPosition` codes it (both lines): `(dn2 (csig1 ssig2) − dn1 (ssig1 csig2)) − csig1 csig2 J12` -/
def m12f (ssig1 csig1 dn1 ssig2 csig2 dn2 J12 : α) : α :=
  (dn2 * (csig1 * ssig2) - dn1 * (ssig1 * csig2)) - csig1 * csig2 * J12

/-- `t = k2 (ssig2 − ssig1)(ssig2 + ssig1)/(dn1 + dn2)` -/
def tf (k2 ssig1 dn1 ssig2 dn2 : α) : α := k2 * (ssig2 - ssig1) * (ssig2 + ssig1) / (dn1 + dn2)

/-- `M12 = csig12 + (t ssig2 − csig2 J12) ssig1/dn1` -/
def M12f (k2 ssig1 dn1 ssig2 csig2 dn2 csig12 J12 : α) : α :=
  csig12 + (tf k2 ssig1 dn1 ssig2 dn2 * ssig2 - csig2 * J12) * ssig1 / dn1

/-- `M21 = csig12 − (t ssig1 − csig1 J12) ssig2/dn2` -/
def M21f (k2 ssig1 csig1 dn1 ssig2 dn2 csig12 J12 : α) : α :=
  csig12 - (tf k2 ssig1 dn1 ssig2 dn2 * ssig1 - csig1 * J12) * ssig2 / dn2

/-! ### `GeodesicLineExact::GenPosition` (all outputs requested) -/

structure PosX (α : Type) where
  a12 : α
  lat2 : α
  /-- `lam12 / degree`: the longitude difference before it is added to `lon1` / normalised -/
  lon12 : α
  /-- `lon1 + lon12` (the value returned with `LONG_UNROLL`) -/
  lon2u : α
  azi2 : α
  s12 : α
  m12 : α
  M12 : α
  M21 : α
  S12 : α
  -- locals, for the theorems and the correspondence
  sig12 : α
  ssig12 : α
  csig12 : α
  ssig2 : α
  csig2 : α
  dn2 : α
  sbet2 : α
  cbet2 : α
  salp2 : α
  calp2 : α
  E2 : α
  J12 : α
  chi12 : α

/-- the arc length `sig12`, its sine and cosine, and (distance mode) the `E2` carried out of the head of `GenPosition`.
    Arc mode: `(ssig12k, csig12k) = sincosd(a12)` are kernel inputs.  Distance mode: `tau12 = s12/(b E0)`,
    `E2 = −deltaEinv(sin(tau1 + tau12), cos(tau1 + tau12))`, `sig12 = tau12 − (E2 − E1)`. -/
def arcOfX (L : LineX α) (K : Ell α) (arcmode : Bool) (s12_a12 ssig12k csig12k : α) : α × α × α × α :=
  if arcmode then (s12_a12 * degree, ssig12k, csig12k, 0) else
  let tau12 := s12_a12 / (L.b * L.E0)
  let s := RealLike.sin tau12
  let c := RealLike.cos tau12
  let E2 := -(K.deltaEinv (L.stau1 * c + L.ctau1 * s) (L.ctau1 * c - L.stau1 * s))
  let sig12 := tau12 - (E2 - L.E1)
  (sig12, RealLike.sin sig12, RealLike.cos sig12, E2)

/-- everything `GenPosition` does once the arc `sig12 = σ2 − σ1` (with its sine and cosine), the periodic part `E2` of the scaled
    distance at the end point, and the returned pair `(s12, a12)` are known -/
def tailX (L : LineX α) (K : Ell α) (unroll : Bool) (sig12 ssig12 csig12 E2 s12 a12 : α) : PosX α :=
  let ssig2 := L.ssig1 * csig12 + L.csig1 * ssig12
  let csig2 := L.csig1 * csig12 - L.ssig1 * ssig12
  let dn2 := delta L.k2 L.kp2 ssig2 csig2
  let sbet2 := L.calp0 * ssig2
  let cbet2 := RealLike.hypot L.salp0 (L.calp0 * csig2)
  let degen := eqb cbet2 0
  let cbet2 := if degen then L.tiny else cbet2
  let csig2 := if degen then L.tiny else csig2
  let salp2 := L.salp0
  let calp2 := L.calp0 * csig2
  -- longitude
  let somg2 := L.salp0 * ssig2
  let comg2 := csig2
  let E : α := copysign 1 L.salp0
  let cchi2 := L.f1 * dn2 * comg2
  let chi12 :=
    if unroll then
      E * (sig12 - (RealLike.atan2 ssig2 csig2 - RealLike.atan2 L.ssig1 L.csig1)
                 + (RealLike.atan2 (E * somg2) cchi2 - RealLike.atan2 (E * L.somg1) L.cchi1))
    else RealLike.atan2 (somg2 * L.cchi1 - cchi2 * L.somg1) (cchi2 * L.cchi1 + somg2 * L.somg1)
  let lam12 := chi12 - L.e2 / L.f1 * L.salp0 * L.H0 * (sig12 + (K.deltaH ssig2 csig2 dn2 - L.H1))
  let lon12 := lam12 / degree
  let lat2 := atan2d sbet2 (L.f1 * cbet2)
  let azi2 := atan2d salp2 calp2
  -- reduced length and geodesic scales
  let J12 := L.k2 * L.D0 * (sig12 + (K.deltaD ssig2 csig2 dn2 - L.D1))
  let m12 := L.b * m12f L.ssig1 L.csig1 L.dn1 ssig2 csig2 dn2 J12
  let M12 := M12f L.k2 L.ssig1 L.dn1 ssig2 csig2 dn2 csig12 J12
  let M21 := M21f L.k2 L.ssig1 L.csig1 L.dn1 ssig2 dn2 csig12 J12
  -- area
  let B42 := if eqb L.A4 0 then (0 : α) else dstIntegral ssig2 csig2 K.C4a
  let merid := eqb L.calp0 0 || eqb L.salp0 0
  let salp12 :=
    if merid then salp2 * L.calp1 - calp2 * L.salp1
    else L.calp0 * L.salp0 *
      (if leb csig12 0 then L.csig1 * ((1 : α) - csig12) + ssig12 * L.ssig1
       else ssig12 * (L.csig1 * ssig12 / ((1 : α) + csig12) + L.ssig1))
  let calp12 :=
    if merid then calp2 * L.calp1 + salp2 * L.salp1
    else sq L.salp0 + sq L.calp0 * L.csig1 * csig2
  let S12 := L.c2 * RealLike.atan2 salp12 calp12 + L.A4 * (B42 - L.B41)
  ⟨a12, lat2, lon12, L.lon1 + lon12, azi2, s12, m12, M12, M21, S12, sig12, ssig12, csig12, ssig2, csig2, dn2, sbet2, cbet2, salp2, calp2,
    E2, J12, chi12⟩

/-- `GeodesicLineExact::GenPosition` with all outputs requested: the head (`arcOfX`), then in arc mode `E2 = deltaE(σ2)` and
    `s12 = b (E0 σ12 + E0 (E2 − E1))`, in distance mode `a12 = σ12 / degree`; then `tailX` -/
def genPositionX (L : LineX α) (K : Ell α) (arcmode : Bool) (s12_a12 ssig12k csig12k : α) (unroll : Bool) : PosX α :=
  let h := arcOfX L K arcmode s12_a12 ssig12k csig12k
  let sig12 := h.1
  let ssig12 := h.2.1
  let csig12 := h.2.2.1
  let ssig2 := L.ssig1 * csig12 + L.csig1 * ssig12
  let csig2 := L.csig1 * csig12 - L.ssig1 * ssig12
  let dn2 := delta L.k2 L.kp2 ssig2 csig2
  let E2 := if arcmode then K.deltaE ssig2 csig2 dn2 else h.2.2.2
  let AB1 := L.E0 * (E2 - L.E1)
  let s12 := if arcmode then L.b * (L.E0 * sig12 + AB1) else s12_a12
  let a12 := if arcmode then s12_a12 else sig12 / degree
  tailX L K unroll sig12 ssig12 csig12 E2 s12 a12

end GeoVerif.GeodLineX
