import GeoVerif.Basic.RealLike
import GeoVerif.FP.F64
import GeoVerif.Model.MathF
import GeoVerif.Gen.TMSeries
/-!
# Transverse Mercator (`TransverseMercator.cpp`, `TransverseMercatorExact.cpp`)

Two layers (core Lean only):

1. **Wrapper** (exact binary64): `LatFix`, `AngDiff`, `latsign`, `lonsign`, the far side
   (`lon ↦ 180 − lon`, `ξ ↦ top − ξ`), the equatorial far-side rule `latsign = −1`, scaling,
   sign restoration of `x, y, γ`, `AngNormalize`.  The projection proper on the first
   quadrant is an abstract **kernel** `lat lon ↦ (ξ, η, γ, k)` (forward) /
   `ξ η ↦ (lat, lon, γ, k)` (reverse).  Both classes share the wrapper; they differ in
   the configuration (`Cfg`): where the far side starts, the reflection constant `top`
   (`π` resp. `2E(e²)`), the scaling expression, whether `γ` is normalised, and `extendp`
   (which switches all folding off).
2. **Series kernel** (polymorphic `RealLike`): the Krüger series with the `b1/alp/bet`
   tables of `Gen.TMSeries` (re-extracted from the source on every run) summed by the
   complex Clenshaw recurrence, the Gauss–Schreiber step (`taupf`, `atan2`, `asinh`) and
   its inverse (`tauf` Newton iteration).
-/
namespace GeoVerif.TM
open GeoVerif F64

/-! ## 1. wrapper -/

/-- multiply by `±1` (exact) -/
def mulSign (s : Int) (x : F64) : F64 := if s < 0 then F64.neg x else x

/-- configuration of the wrapper -/
structure Cfg where
  /-- `extendp`: no parity folding, no far side -/
  ext : Bool
  /-- `true`: series form (`γ` is passed through `AngNormalize`, `lon0` is used as is in `Reverse`) -/
  series : Bool
  /-- reflection constant of the far side: `π` (series), `2·E(e²)` (exact) -/
  top : F64
  /-- far side of the reverse map starts beyond `half`: `π/2` (series), `E(e²)` (exact) -/
  half : F64
  /-- series: `_a1`, exact: `_a` -/
  a : F64
  k0 : F64

/-- scaling of a kernel coordinate: series `_a1 * _k0 * v`, exact `v * _a * _k0` -/
def Cfg.scale (c : Cfg) (v : F64) : F64 := if c.series then (c.a * c.k0) * v else (v * c.a) * c.k0
/-- `ξ = y / (_a1 * _k0)` -/
def Cfg.unscale (c : Cfg) (v : F64) : F64 := v / (c.a * c.k0)

structure Fold where
  /-- canonical first argument (latitude resp. ξ) -/
  p : F64
  /-- canonical second argument (longitude offset resp. η) -/
  q : F64
  /-- `latsign` / `xisign` -/
  s1 : Int
  /-- `lonsign` / `etasign` -/
  s2 : Int
  back : Bool

/-- kernel answer: `(ξ, η, γ, k)` forward, `(lat, lon, γ, k)` reverse -/
structure KOut where
  p : F64
  q : F64
  gamma : F64
  k : F64

structure Out where
  /-- `x` (forward) / `lat` (reverse) -/
  u : F64
  /-- `y` (forward) / `lon` (reverse) -/
  v : F64
  /-- `γ` before the final `AngNormalize` -/
  graw : F64
  gamma : F64
  k : F64
  /-- reverse only: the longitude offset before `lon0` is added -/
  vraw : F64

def sgn (b : Bool) : Int := if b then -1 else 1

/-- head of `Forward` after `LatFix`/`AngDiff`: arguments are the fixed latitude and the longitude offset -/
def fwdFoldD (ext : Bool) (lat d : F64) : Fold :=
  let latsign := sgn (!ext && lat.signbit)
  let lonsign := sgn (!ext && d.signbit)
  let lon := mulSign lonsign d
  let lat := mulSign latsign lat
  let back := !ext && F64.gt lon MathF.qd
  let latsign := if back && F64.eq lat 0 then -1 else latsign
  let lon := if back then MathF.hd - lon else lon
  ⟨lat, lon, latsign, lonsign, back⟩

/-- sign / far-side restoration of `γ`, shared by all four entry points -/
def gammaRaw (fo : Fold) (g : F64) : F64 :=
  mulSign (fo.s1 * fo.s2) (if fo.back then MathF.hd - g else g)

/-- tail of `Forward` -/
def fwdUnfold (c : Cfg) (fo : Fold) (r : KOut) : Out :=
  let xi := if fo.back then c.top - r.p else r.p
  let y := mulSign fo.s1 (c.scale xi)
  let x := mulSign fo.s2 (c.scale r.q)
  let g := gammaRaw fo r.gamma
  ⟨x, y, g, if c.series then MathF.angNormalize g else g, r.k * c.k0, y⟩

/-- `Forward` with the longitude offset `d = AngDiff(lon0, lon)` already formed -/
def forwardD (c : Cfg) (K : F64 → F64 → KOut) (lat d : F64) : Out :=
  let fo := fwdFoldD c.ext lat d
  fwdUnfold c fo (K fo.p fo.q)

/-- `TransverseMercator::Forward` / `TransverseMercatorExact::Forward` around a first-quadrant kernel `K` -/
def forward (c : Cfg) (K : F64 → F64 → KOut) (lon0 lat lon : F64) : Out :=
  forwardD c K (MathF.latFix lat) (MathF.angDiff lon0 lon).1

/-- head of `Reverse` after the division by the scale -/
def revFoldZ (c : Cfg) (xi eta : F64) : Fold :=
  let xisign := sgn (!c.ext && xi.signbit)
  let etasign := sgn (!c.ext && eta.signbit)
  let xi := mulSign xisign xi
  let eta := mulSign etasign eta
  let back := !c.ext && F64.gt xi c.half
  let xi := if back then c.top - xi else xi
  ⟨xi, eta, xisign, etasign, back⟩

/-- tail of `Reverse` -/
def revUnfold (c : Cfg) (lon0 : F64) (fo : Fold) (r : KOut) : Out :=
  let lat := mulSign fo.s1 r.p
  let lon := mulSign fo.s2 (if fo.back then MathF.hd - r.q else r.q)
  let lon0 := if c.series then lon0 else MathF.angNormalize lon0
  let g := gammaRaw fo r.gamma
  ⟨lat, MathF.angNormalize (lon + lon0), g, if c.series then MathF.angNormalize g else g, r.k * c.k0, lon⟩

/-- `Reverse` on the unscaled coordinates `(ξ, η)` -/
def reverseZ (c : Cfg) (K : F64 → F64 → KOut) (lon0 xi eta : F64) : Out :=
  let fo := revFoldZ c xi eta
  revUnfold c lon0 fo (K fo.p fo.q)

/-- `TransverseMercator::Reverse` / `TransverseMercatorExact::Reverse` around a first-quadrant kernel `K` -/
def reverse (c : Cfg) (K : F64 → F64 → KOut) (lon0 x y : F64) : Out :=
  reverseZ c K lon0 (c.unscale y) (c.unscale x)

/-! ## 2. series kernel -/

section Kernel
variable {α : Type} [RealLike α]
open RealLike RealLike.Lits

def ofRat (q : Rat) : α :=
  let n : α := if q.num < 0 then -(RealLike.ofNat q.num.natAbs) else RealLike.ofNat q.num.natAbs
  if q.den = 1 then n else n / RealLike.ofNat q.den

/-- `Math::polyval(m, p, x)`: Horner, highest coefficient first -/
def polyval (p : List α) (x : α) : α :=
  match p with
  | [] => RealLike.ofNat 0
  | c :: cs => cs.foldl (fun y c => y * x + c) c

/-- order of the series (`maxpow_`), from the size of the extracted tables -/
def N : Nat := Gen.TMSeries.order

/-- offset of block `l` (1-based) in `alpcoeff` / `betcoeff`: blocks have `N − l' + 2` entries -/
def blockOff (l : Nat) : Nat := ((List.range (l - 1)).map fun i => N - (i + 1) + 2).sum

/-- numerator coefficients (highest first) and denominator of block `l` -/
def block (tbl : List Rat) (l : Nat) : List Rat × Rat :=
  let o := blockOff l
  let m := N - l
  ((tbl.drop o).take (m + 1), tbl.getD (o + m + 1) 1)

/-- `_alp[l]` / `_bet[l]` for `l = 1..N` as the constructor computes them: `d * polyval(m, tbl + o, n) / tbl[o + m + 1]`, `d = n^l` -/
def coeffs (tbl : List Rat) (n : α) : List α :=
  ((List.range N).foldl (fun (acc : List α × α) i =>
      let (num, den) := block tbl (i + 1)
      (acc.1 ++ [acc.2 * polyval (num.map ofRat) n / ofRat den], acc.2 * n)) ([], n)).1

/-- `_b1 = polyval(m, b1coeff, n²) / (b1coeff[m+1] · (1 + n))`, `m = N/2` -/
def b1 (n : α) : α :=
  let m := N / 2
  polyval ((Gen.TMSeries.b1coeff.take (m + 1)).map ofRat) (n * n) / (ofRat (Gen.TMSeries.b1coeff.getD (m + 1) 1) * ((1 : α) + n))

/-- complex numbers as pairs -/
structure Cx (α : Type) where
  re : α
  im : α

namespace Cx
def mul (a b : Cx α) : Cx α := ⟨a.re * b.re - a.im * b.im, a.re * b.im + a.im * b.re⟩
def add (a b : Cx α) : Cx α := ⟨a.re + b.re, a.im + b.im⟩
def sub (a b : Cx α) : Cx α := ⟨a.re - b.re, a.im - b.im⟩
def addR (a : Cx α) (c : α) : Cx α := ⟨a.re + c, a.im⟩
def zero : Cx α := ⟨RealLike.ofNat 0, RealLike.ofNat 0⟩
def abs (a : Cx α) : α := RealLike.hypot a.re a.im
end Cx

/-- the Clenshaw recurrence of `Forward`/`Reverse`, `b_k = a·b_{k+1} − b_{k+2} + c_k` for `k = N … 1` over complex pairs with real
    coefficients `cs = [c_1, …, c_N]`; returns `(b_1, b_2)` (the code's `(y0, y1)` after the loop, which is unrolled by two there) -/
def clenC (a : Cx α) : List α → Cx α × Cx α
  | [] => (Cx.zero, Cx.zero)
  | c :: cs => let p := clenC a cs; (Cx.addR (Cx.sub (Cx.mul a p.1) p.2) c, p.1)

def cosh (x : α) : α := (RealLike.exp x + RealLike.exp (-x)) / 2

/-- coefficients of the derivative series: `2·j·c_j` -/
def dcoeffs : Nat → List α → List α
  | _, [] => []
  | j, c :: cs => (RealLike.ofNat (2 * j) * c) :: dcoeffs (j + 1) cs

/-- the Krüger step shared by `Forward` (coefficients `alp`, argument `ζ' = ξ' + iη'`) and `Reverse` (coefficients `−bet`, argument `ζ`):
    returns `ζ + Σ c_j sin 2jζ` and `1 + Σ 2j c_j cos 2jζ` -/
def kr (cs : List α) (xi eta : α) : Cx α × Cx α :=
  let c0 := RealLike.cos ((2 : α) * xi); let ch0 := cosh ((2 : α) * eta)
  let s0 := RealLike.sin ((2 : α) * xi); let sh0 := RealLike.sinh ((2 : α) * eta)
  let a : Cx α := ⟨(2 : α) * c0 * ch0, -((2 : α) * s0 * sh0)⟩
  let y := clenC a cs
  let z := clenC a (dcoeffs 1 cs)
  let ah : Cx α := ⟨c0 * ch0, -(s0 * sh0)⟩
  let z1 := Cx.add (Cx.sub ⟨(1 : α), RealLike.ofNat 0⟩ z.2) (Cx.mul ah z.1)
  let y1 := Cx.add ⟨xi, eta⟩ (Cx.mul ⟨s0 * ch0, c0 * sh0⟩ y.1)
  (y1, z1)

/-- ellipsoid constants from the flattening -/
def nOf (f : α) : α := f / ((2 : α) - f)
def e2Of (f : α) : α := f * ((2 : α) - f)
def esOf (f : α) : α :=
  let s := RealLike.sqrt (RealLike.abs (e2Of f))
  if RealLike.ltb f (RealLike.ofNat 0) then -s else s

/-- `Math::eatanhe` -/
def eatanhe (x es : α) : α :=
  if RealLike.ltb (RealLike.ofNat 0) es then es * RealLike.atanh (es * x) else -es * RealLike.atan (es * x)

/-- `Math::taupf` (finite argument) -/
def taupf (tau es : α) : α :=
  let tau1 := RealLike.hypot (1 : α) tau
  let sig := RealLike.sinh (eatanhe (tau / tau1) es)
  RealLike.hypot (1 : α) sig * tau - sig * tau1

/-- `Math::tauf`: Newton iteration, at most 50 steps (`numit`, fix 707b423); `ε = 2⁻⁵²` -/
def tauf (taup es : α) : α :=
  let sqeps : α := (1 : α) / RealLike.ofNat (2 ^ 26)
  let tol := sqeps / 10
  let taumax := (2 : α) / sqeps
  let e2m := (1 : α) - es * RealLike.abs es
  let tau0 := if RealLike.ltb (70 : α) (RealLike.abs taup) then taup * RealLike.exp (eatanhe (1 : α) es) else taup / e2m
  let stol := tol * RealLike.max (1 : α) (RealLike.abs taup)
  -- the early exit is only valid for the asymptotic guess (|taup| > 70): fix b3c5a1d
  if !(RealLike.ltb (RealLike.abs tau0) taumax) && !(RealLike.leb (RealLike.abs taup) (70 : α)) then tau0 else
  let rec go : Nat → α → α
    | 0, tau => tau
    | fuel + 1, tau =>
      let taupa := taupf tau es
      let dtau := (taup - taupa) * ((1 : α) + e2m * (tau * tau)) / (e2m * RealLike.hypot (1 : α) tau * RealLike.hypot (1 : α) taupa)
      let tau := tau + dtau
      if !(RealLike.leb stol (RealLike.abs dtau)) then tau else go fuel tau
  go 50 tau0

def deg : α := RealLike.ofNat 180 / RealLike.pi

structure KO (α : Type) where
  p : α
  q : α
  gamma : α
  k : α

/-- `_c = √(1−e²)·exp(eatanhe(1, es))` -/
def cOf (f : α) : α := RealLike.sqrt ((1 : α) - e2Of f) * RealLike.exp (eatanhe (1 : α) (esOf f))

/-- first-quadrant kernel of `TransverseMercator::Forward` after `sincosd`; `pole`: the `lat == 90` branch (`lon` in degrees is then used) -/
def fwdKernel (f : α) (pole : Bool) (lon sphi cphi slam clam : α) : KO α :=
  let e2 := e2Of f; let e2m := (1 : α) - e2; let es := esOf f; let n := nOf f
  let (xip, etap, gamma, k) : α × α × α × α :=
    if pole then (RealLike.pi / 2, RealLike.ofNat 0, lon, cOf f) else
    let tau := sphi / cphi
    let taup := taupf tau es
    (RealLike.atan2 taup clam, RealLike.asinh (slam / RealLike.hypot taup clam),
     RealLike.atan2 (slam * taup) (clam * RealLike.hypot (1 : α) taup) * deg,
     RealLike.sqrt (e2m + e2 * (cphi * cphi)) * RealLike.hypot (1 : α) tau / RealLike.hypot taup clam)
  let (y1, z1) := kr (coeffs Gen.TMSeries.alpcoeff n) xip etap
  ⟨y1.re, y1.im, gamma - RealLike.atan2 z1.im z1.re * deg, k * (b1 n * Cx.abs z1)⟩

/-- first-quadrant kernel of `TransverseMercator::Reverse`: `(ξ, η) ↦ (lat°, lon°, γ°, k)` -/
def revKernel (f : α) (xi eta : α) : KO α :=
  let e2 := e2Of f; let e2m := (1 : α) - e2; let es := esOf f; let n := nOf f
  let (y1, z1) := kr ((coeffs Gen.TMSeries.betcoeff n).map fun b => -b) xi eta
  let gamma := RealLike.atan2 z1.im z1.re * deg
  let k := b1 n / Cx.abs z1
  let xip := y1.re; let etap := y1.im
  let s := RealLike.sinh etap
  let c := RealLike.max (RealLike.ofNat 0) (RealLike.cos xip)
  let r := RealLike.hypot s c
  if RealLike.eqb r (RealLike.ofNat 0) then ⟨RealLike.ofNat 90, RealLike.ofNat 0, gamma, k * cOf f⟩ else
  let sxip := RealLike.sin xip
  let tau := tauf (sxip / r) es
  let th := s / cosh etap
  ⟨RealLike.atan2 tau (1 : α) * deg, RealLike.atan2 s c * deg, gamma + RealLike.atan2 (sxip * th) c * deg,
   k * (RealLike.sqrt (e2m + e2 / ((1 : α) + tau * tau)) * RealLike.hypot (1 : α) tau * r)⟩

end Kernel

end GeoVerif.TM
