import GeoVerif.Basic.RealLike
/-!
# Spherical harmonic sums, magnetic time interpolation and normal gravity (formula models, core Lean only)

* `index`, `csize`, `ssize`, `Coeff.cv`/`sv`: the packed triangular storage of `SphericalEngine::coeff` and its
  range-checked accessors, over `Int`, exactly as coded (`SphericalEngine.hpp`).
* `clenG`: the backward Clenshaw recurrence with index-dependent `α_k`, `β_k` (the mathematical core of both loops
  of `SphericalEngine::Value`).
* `value`: `SphericalEngine::Value<false, norm, L>` (value only): inner Clenshaw over the degree `n`, outer over the
  order `m`, scaling, pole handling.  Polymorphic in the number type (`RealLike`): executed by the driver in binary64
  against `SphericalHarmonic`, `SphericalHarmonic1`, `SphericalHarmonic2`, read at `ℝ` by the theorems.
* `epochIndex`, `fieldAt`: epoch selection and time interpolation/extrapolation of `MagneticModel::FieldGeocentric`.
* `normalU`, `qfun`, `flatteningToJ2`: closed forms of `NormalGravity` (oblate case) in ellipsoidal coordinates.
-/
namespace GeoVerif.Harmonic
open GeoVerif GeoVerif.RealLike
open GeoVerif.RealLike.Lits

/-! ## packed triangular storage -/

/-- `coeff::index(n, m)` for a layout of degree `N`: column-major, column `m` holds `n = m … N` -/
def index (N n m : Int) : Int := m * N - m * (m - 1) / 2 + n

/-- `coeff::Csize(N, M)` -/
def csize (N M : Int) : Int := (M + 1) * (2 * N - M + 2) / 2

/-- `coeff::Ssize(N, M)`: the `m = 0` column is not stored -/
def ssize (N M : Int) : Int := csize N M - (N + 1)

/-- the constructor tests of `coeff(C, S, N, nmx, mmx)`: "Bad indices for coeff" (since repair 3a5948e also `N ≥ −1` for the empty set) and
    "Degree too large for coeff" (`N > 46339`: `index` would overflow an `int`) -/
def validDims (N nmx mmx : Int) : Bool := ((N ≥ nmx && nmx ≥ mmx && mmx ≥ 0) || (N ≥ -1 && nmx == -1 && mmx == -1)) && N ≤ 46339

/-- "Arrays too small in coeff" -/
def arraysOk (N nmx mmx : Int) (clen slen : Int) : Bool :=
  index N nmx mmx < clen && index N nmx mmx < slen + (N + 1)

structure Coeff (α : Type) where
  N : Int
  nmx : Int
  mmx : Int
  C : List α
  S : List α

variable {α : Type}

def getI (zero : α) (l : List α) (k : Int) : α := if k < 0 then zero else l.getD k.toNat zero

/-- `coeff::Cv(k, n, m, f)`: the range-checked accessor used for the 2nd and 3rd coefficient sets -/
def Coeff.cv [Mul α] (zero : α) (c : Coeff α) (k n m : Int) (f : α) : α :=
  if m > c.mmx || n > c.nmx then zero else getI zero c.C k * f

/-- `coeff::Sv(k, n, m, f)` -/
def Coeff.sv [Mul α] (zero : α) (c : Coeff α) (k n m : Int) (f : α) : α :=
  if m > c.mmx || n > c.nmx then zero else getI zero c.S (k - (c.N + 1)) * f

/-- `coeff::Cv(k)` / `Sv(k)`: unchecked (first set) -/
def Coeff.cv0 (zero : α) (c : Coeff α) (k : Int) : α := getI zero c.C k
def Coeff.sv0 (zero : α) (c : Coeff α) (k : Int) : α := getI zero c.S (k - (c.N + 1))

/-! ## Clenshaw with index-dependent coefficients -/

/-- `y_k = α_k·y_{k+1} + β_{k+1}·y_{k+2} + c_k`, for `cs = [c_k, c_{k+1}, …]`, `y` beyond the end `= 0`;
    returns `(y_k, y_{k+1})` -/
def clenG [Add α] [Mul α] (zero : α) (al be : Nat → α) : Nat → List α → α × α
  | _, [] => (zero, zero)
  | k, c :: cs => let p := clenG zero al be (k + 1) cs; (al k * p.1 + be (k + 1) * p.2 + c, p.1)

/-! ## `SphericalEngine::Value<false, norm, L>` -/

variable [RealLike α]

def root (k : Nat) : α := RealLike.sqrt (RealLike.ofNat k)

/-- the auxiliary `w` of the inner recurrence at degree `n`, order `m` -/
def innerW (full : Bool) (m n : Nat) : α :=
  if full then root (2 * n + 1) / (root (n - m + 1) * root (n + m + 1)) else root (n - m + 1) * root (n + m + 1)

/-- inner recurrence: `A = t·Ax` at degree `n`, order `m` -/
def innerA (full : Bool) (q t : α) (m n : Nat) : α :=
  if full then t * (q * innerW full m n * root (2 * n + 3)) else t * (q * RealLike.ofNat (2 * n + 1) / innerW full m n)

def innerB (full : Bool) (q2 : α) (m n : Nat) : α :=
  if full then -(q2 * root (2 * n + 5) / (innerW full m n * root (n - m + 2) * root (n + m + 2)))
  else -(q2 * innerW full m n / (root (n - m + 2) * root (n + m + 2)))

/-- outer recurrence (`m ≥ 1`): `A/cl` -/
def outerV (full : Bool) (m : Nat) : α :=
  if full then
    root 2 * root (2 * m + 3) / root (m + 1)
  else
    root 2 * root (2 * m + 1) / root (m + 1)

def outerA (full : Bool) (cl uq : α) (m : Nat) : α := cl * outerV full m * uq

def outerB (full : Bool) (uq2 : α) (m : Nat) : α :=
  if full then -(outerV full m * root (2 * m + 5) / (root 8 * root (m + 2)) * uq2)
  else -(outerV full m * root (2 * m + 3) / (root 8 * root (m + 2)) * uq2)

def outerA0 (full : Bool) (uq : α) : α := if full then root 3 * uq else uq
def outerB0 (full : Bool) (uq2 : α) : α := if full then -(root 15 / 2 * uq2) else -(root 3 / 2 * uq2)

/-- geometry of the evaluation point as `Value` computes it: `(cl, sl, r, t, u, q)` -/
structure Pt (α : Type) where
  cl : α
  sl : α
  r : α
  t : α
  u : α
  q : α

def mkPt (x y z a eps : α) : Pt α :=
  let zero : α := RealLike.ofNat 0
  let one : α := RealLike.ofNat 1
  let p := RealLike.hypot x y
  let cl := if RealLike.eqb p zero then one else x / p
  let sl := if RealLike.eqb p zero then zero else y / p
  let r := RealLike.hypot z p
  let t := if RealLike.eqb r zero then zero else z / r
  let u := if RealLike.eqb r zero then one else RealLike.max (p / r) eps
  ⟨cl, sl, r, t, u, a / r⟩

/-- inner sum for order `m`: Clenshaw over `n = m … N` of the (scaled) coefficients `cf n m` -/
def innerSum (full : Bool) (P : Pt α) (N m : Nat) (cf : Nat → Nat → α) : α :=
  let q2 := sq P.q
  (clenG (RealLike.ofNat 0) (fun l => innerA full P.q P.t m (l + m)) (fun l1 => innerB full q2 m (l1 - 1 + m)) 0
    ((List.range (N + 1 - m)).map fun l => cf (l + m) m)).1

/-- the double Clenshaw sum given the point geometry and the combined, scaled coefficient functions
    `cC n m = scale·Σ_l f_l C^{(l)}_{nm}`, `cS n m` likewise (`N ≥ M`) -/
def valuePt (full : Bool) (P : Pt α) (N M : Nat) (cC cS : Nat → Nat → α) (sc : α) : α :=
  let uq := P.u * P.q
  let uq2 := sq uq
  let zero : α := RealLike.ofNat 0
  let wcs := (List.range M).map fun j => innerSum full P N (j + 1) cC
  let wss := (List.range M).map fun j => innerSum full P N (j + 1) cS
  let vc := clenG zero (outerA full P.cl uq) (outerB full uq2 ∘ (· - 1)) 1 wcs
  let vs := clenG zero (outerA full P.cl uq) (outerB full uq2 ∘ (· - 1)) 1 wss
  let qs := P.q / sc
  qs * (innerSum full P N 0 cC + outerA0 full uq * (P.cl * vc.1 + P.sl * vs.1) + outerB0 full uq2 * vc.2)

/-- combined coefficient of degree `n`, order `m`: first set unchecked, further sets through the checked
    accessors with their multipliers; everything times `scale` -/
def combC (zero : α) (sets : List (Coeff α × α)) (sc : α) (n m : Nat) : α :=
  match sets with
  | [] => zero
  | (c0, _) :: rest =>
    (rest.foldl (fun acc cf => acc + cf.1.cv zero (index cf.1.N n m) n m cf.2) (c0.cv0 zero (index c0.N n m))) * sc

def combS (zero : α) (sets : List (Coeff α × α)) (sc : α) (n m : Nat) : α :=
  match sets with
  | [] => zero
  | (c0, _) :: rest =>
    (rest.foldl (fun acc cf => acc + cf.1.sv zero (index cf.1.N n m) n m cf.2) (c0.sv0 zero (index c0.N n m))) * sc

/-- `SphericalEngine::Value<false, norm, L>(c, f, x, y, z, a)`; `sets = [(c[0], 1), (c[1], f[1]), …]`;
    `sc = scale()`, `eps = eps()` -/
def value (full : Bool) (sets : List (Coeff α × α)) (x y z a sc eps : α) : α :=
  let zero : α := RealLike.ofNat 0
  match sets with
  | [] => zero
  | (c0, _) :: _ =>
    if c0.mmx < 0 then zero else
    valuePt full (mkPt x y z a eps) c0.nmx.toNat c0.mmx.toNat (combC zero sets sc) (combS zero sets sc) sc

/-! ## `SphericalEngine::Value<true, norm, L>`: the gradient

The inner loop carries, besides the value sums `wc, ws`, the sums `wrc, wrs` (coefficients `(n+1)·R`, for `∂/∂r`) and
`wtc, wts` (the recurrence differentiated with respect to `θ`: `dA/dθ = −u·Ax`); the outer loop carries `vr`, `vt` and the
`λ`-derivative sums `vl` (coefficients `m·ws`, `−m·wc`).  `SphericalEngine::Circle` runs the same inner loop and stores the
sums per order; `CircularEngine::Value` runs the same outer loop on the stored sums. -/

/-- `Ax` of the inner recurrence (`A = t·Ax`) -/
def innerAx (full : Bool) (q : α) (m n : Nat) : α :=
  if full then q * innerW full m n * root (2 * n + 3) else q * RealLike.ofNat (2 * n + 1) / innerW full m n

/-- Clenshaw recurrence together with its derivative: `y_k = α_k y_{k+1} + β_{k+1} y_{k+2} + c_k` and
    `z_k = α_k z_{k+1} + β_{k+1} z_{k+2} − d_k·y_{k+1}` (`d_k = u·Ax_k = −dα_k/dθ`); returns `((y_k, y_{k+1}), (z_k, z_{k+1}))` -/
def clenD [Add α] [Sub α] [Mul α] (zero : α) (al be ad : Nat → α) : Nat → List α → (α × α) × (α × α)
  | _, [] => ((zero, zero), (zero, zero))
  | k, c :: cs =>
    let p := clenD zero al be ad (k + 1) cs
    ((al k * p.1.1 + be (k + 1) * p.1.2 + c, p.1.1), (al k * p.2.1 + be (k + 1) * p.2.2 - ad k * p.1.1, p.2.1))

/-- `wrc`/`wrs`: the inner sum with the coefficients `(n + 1)·R` -/
def innerSumR (full : Bool) (P : Pt α) (N m : Nat) (cf : Nat → Nat → α) : α :=
  let q2 := sq P.q
  (clenG (RealLike.ofNat 0) (fun l => innerA full P.q P.t m (l + m)) (fun l1 => innerB full q2 m (l1 - 1 + m)) 0
    ((List.range (N + 1 - m)).map fun l => RealLike.ofNat (l + m + 1) * cf (l + m) m)).1

/-- `wtc`/`wts` at the end of the inner loop (before `wtc += m·tu·wc`) -/
def innerSumT (full : Bool) (P : Pt α) (N m : Nat) (cf : Nat → Nat → α) : α :=
  let q2 := sq P.q
  (clenD (RealLike.ofNat 0) (fun l => innerA full P.q P.t m (l + m)) (fun l1 => innerB full q2 m (l1 - 1 + m))
    (fun l => P.u * innerAx full P.q m (l + m)) 0
    ((List.range (N + 1 - m)).map fun l => cf (l + m) m)).2.1

/-- the six inner sums of one order `m` -/
structure Inner (α : Type) where
  wc : α
  ws : α
  wrc : α
  wrs : α
  wtc : α
  wts : α

/-- the inner loop of order `m` (for `m = 0` the sine sums are not touched and stay `0`) -/
def innerAll (full : Bool) (P : Pt α) (N m : Nat) (cC cS : Nat → Nat → α) : Inner α :=
  let zero : α := RealLike.ofNat 0
  if m == 0 then ⟨innerSum full P N 0 cC, zero, innerSumR full P N 0 cC, zero, innerSumT full P N 0 cC, zero⟩
  else ⟨innerSum full P N m cC, innerSum full P N m cS, innerSumR full P N m cC, innerSumR full P N m cS,
        innerSumT full P N m cC, innerSumT full P N m cS⟩

/-- "Include the terms Sc[m]·P'[m,m](t) and Ss[m]·P'[m,m](t)": `wtc += m·tu·wc; wts += m·tu·ws` -/
def augment (tu : α) (m : Nat) (I : Inner α) : Inner α :=
  { I with wtc := I.wtc + RealLike.ofNat m * tu * I.wc, wts := I.wts + RealLike.ofNat m * tu * I.ws }

/-- value and gradient in spherical components as coded: `v = V`, `vr = ∂V/∂r`, `vt = (1/r)·∂V/∂θ`, `vl = (1/(r·u))·∂V/∂λ` -/
structure Sph (α : Type) where
  v : α
  vr : α
  vt : α
  vl : α

/-- one outer Clenshaw recurrence over the orders `m = M … 1` with the per-order coefficients `f m`; returns `(v[1], v[2])` -/
def outerCG (full : Bool) (cl uq uq2 : α) (M : Nat) (f : Nat → α) : α × α :=
  clenG (RealLike.ofNat 0) (outerA full cl uq) (outerB full uq2 ∘ (· - 1)) 1 ((List.range M).map fun j => f (j + 1))

/-- the outer loop (`m = M … 1`, then the `m = 0` step) for the value and the three gradient sums — the same code in
    `SphericalEngine::Value<true>` and in `CircularEngine::Value`; `W m` are the inner sums of order `m` (`θ`-sums already augmented) -/
def outerStage (full : Bool) (cl sl r u q sc : α) (M : Nat) (W : Nat → Inner α) : Sph α :=
  let uq := u * q
  let uq2 := sq uq
  let cg (f : Nat → α) : α × α := outerCG full cl uq uq2 M f
  let vc := cg fun m => (W m).wc
  let vs := cg fun m => (W m).ws
  let vrc := cg fun m => (W m).wrc
  let vrs := cg fun m => (W m).wrs
  let vtc := cg fun m => (W m).wtc
  let vts := cg fun m => (W m).wts
  let vlc := cg fun m => RealLike.ofNat m * (W m).ws
  let vls := cg fun m => -(RealLike.ofNat m * (W m).wc)
  let A0 := outerA0 full uq
  let B0 := outerB0 full uq2
  let qs := q / sc
  let qr := qs / r
  ⟨qs * ((W 0).wc + A0 * (cl * vc.1 + sl * vs.1) + B0 * vc.2),
   -qr * ((W 0).wrc + A0 * (cl * vrc.1 + sl * vrs.1) + B0 * vrc.2),
   qr * ((W 0).wtc + A0 * (cl * vtc.1 + sl * vts.1) + B0 * vtc.2),
   qr / u * (A0 * (cl * vlc.1 + sl * vls.1) + B0 * vlc.2)⟩

/-- `SphericalEngine::Value<true, norm, L>` in spherical components: the `θ`-sums are augmented inside `if (m)` only -/
def sphPt (full : Bool) (P : Pt α) (N M : Nat) (cC cS : Nat → Nat → α) (sc : α) : Sph α :=
  let tu := P.t / P.u
  outerStage full P.cl P.sl P.r P.u P.q sc M fun m =>
    if m == 0 then innerAll full P N 0 cC cS else augment tu m (innerAll full P N m cC cS)

/-- "Rotate into cartesian (geocentric) coordinates" -/
def rotate (cl sl t u : α) (S : Sph α) : α × α × α :=
  (cl * (u * S.vr + t * S.vt) - sl * S.vl, sl * (u * S.vr + t * S.vt) + cl * S.vl, t * S.vr - u * S.vt)

/-- `SphericalEngine::Value<true, norm, L>(c, f, x, y, z, a, gradx, grady, gradz)`: `(V, gradx, grady, gradz)` -/
def valueGrad (full : Bool) (sets : List (Coeff α × α)) (x y z a sc eps : α) : α × α × α × α :=
  let zero : α := RealLike.ofNat 0
  match sets with
  | [] => (zero, zero, zero, zero)
  | (c0, _) :: _ =>
    let P := mkPt x y z a eps
    if c0.mmx < 0 then (zero, rotate P.cl P.sl P.t P.u ⟨zero, zero, zero, zero⟩) else
    let S := sphPt full P c0.nmx.toNat c0.mmx.toNat (combC zero sets sc) (combS zero sets sc) sc
    (S.v, rotate P.cl P.sl P.t P.u S)

/-! ## `SphericalEngine::Circle<gradp, norm, L>` and `CircularEngine::Value` -/

/-- the state of a `CircularEngine`: the geometry of the circle of latitude and the inner sums per order `m = 0 … M` -/
structure Circ (α : Type) where
  M : Nat
  gradp : Bool
  r : α
  t : α
  u : α
  q : α
  W : List (Inner α)

/-- geometry in `SphericalEngine::Circle(c, f, p, z, a)`: `(r, t, u, q)` from `(p, z)` -/
def mkCircPt (p z a eps : α) : Pt α :=
  let zero : α := RealLike.ofNat 0
  let one : α := RealLike.ofNat 1
  let r := RealLike.hypot z p
  let t := if RealLike.eqb r zero then zero else z / r
  let u := if RealLike.eqb r zero then one else RealLike.max (p / r) eps
  ⟨one, zero, r, t, u, a / r⟩

/-- `SphericalEngine::Circle<gradp, norm, L>`: for every order `m = M … 0` the inner loop, then `SetCoeff` (with `gradp`: after
    `wtc += m·tu·wc; wts += m·tu·ws` for *every* `m`, including `m = 0`); `P` carries `(r, t, u, q)` (its `cl`, `sl` are not used) -/
def circlePt (full gradp : Bool) (P : Pt α) (N M : Nat) (cC cS : Nat → Nat → α) : Circ α :=
  let tu := P.t / P.u
  let zero : α := RealLike.ofNat 0
  ⟨M, gradp, P.r, P.t, P.u, P.q, (List.range (M + 1)).map fun m =>
    let I := innerAll full P N m cC cS
    if gradp then augment tu m I else ⟨I.wc, I.ws, zero, zero, zero, zero⟩⟩

def Inner.zero : Inner α := let z : α := RealLike.ofNat 0; ⟨z, z, z, z, z, z⟩

/-- `CircularEngine::Value(gradp, sl, cl, gradx, grady, gradz)` in spherical components (the gradient components are meaningful iff
    the engine was built with `gradp`) -/
def circSph (full : Bool) (C : Circ α) (cl sl sc : α) : Sph α :=
  outerStage full cl sl C.r C.u C.q sc C.M fun m => C.W.getD m Inner.zero

/-- `CircularEngine::operator()(sl, cl)` (value only) and `operator()(sl, cl, gradx, grady, gradz)` -/
def circValue (full : Bool) (C : Circ α) (cl sl sc : α) : α × α × α × α :=
  let S := circSph full C cl sl sc
  (S.v, rotate cl sl C.t C.u S)

/-- `SphericalEngine::Circle<gradp, norm, L>(c, f, p, z, a)` -/
def circle (full gradp : Bool) (sets : List (Coeff α × α)) (p z a sc eps : α) : Option (Circ α) :=
  let zero : α := RealLike.ofNat 0
  match sets with
  | [] => none
  | (c0, _) :: _ =>
    if c0.mmx < 0 then none else
    some (circlePt full gradp (mkCircPt p z a eps) c0.nmx.toNat c0.mmx.toNat (combC zero sets sc) (combS zero sets sc))

/-! ## magnetic model: epoch selection and time interpolation -/

/-- `n = max(min(int(floor((t − t0)/dt0)), nNmodels − 1), 0)` given `k = ⌊(t − t0)/dt0⌋` -/
def epochIndex (k : Int) (nModels : Nat) : Nat := (max (min k ((nModels : Int) - 1)) 0).toNat

/-- one Cartesian component of `MagneticModel::FieldGeocentric` before the final `·(−a)`:
    `B : Nat → α` are the values of `_harm[i]` at the point, `Bc` the constant term (0 if none);
    returns `(field, rate)` -/
def fieldAt (B : Nat → α) (Bc : α) (t t0 dt0 : α) (k : Int) (nModels : Nat) : α × α :=
  let n := epochIndex k nModels
  let interpolate := n + 1 < nModels
  let t1 := (t - t0) - RealLike.ofNat n * dt0
  let rate := if interpolate then (B (n + 1) - B n) / dt0 else B (n + 1)
  (B n + (t1 * rate + Bc), rate)

/-! ## normal gravity (oblate reference ellipsoid, `E = a·e > 0`), ellipsoidal-harmonic coordinates `(u, β)` -/

/-- H+M eq. 2-57: `q(u) = ½[(1 + 3u²/E²)·atan(E/u) − 3u/E]` -/
def qfun (E u : α) : α := ((1 + 3 * sq u / sq E) * RealLike.atan (E / u) - 3 * u / E) / 2

/-- H+M eq. 2-62 + rotation: normal potential `U = V₀ + Φ` at `(u, β)`;
    `a, b` semi-axes, `E² = a² − b²` -/
def normalU (GM omega a b E u sbet cbet : α) : α :=
  GM / E * RealLike.atan (E / u) + sq omega * sq a / 2 * (qfun E u / qfun E b) * (sq sbet - 1 / 3)
    + sq omega / 2 * (sq u + sq E) * sq cbet

/-- `NormalGravity::Qf(x, false)` in closed form, `x = z²` passed as `z`: `Q(z) = q/z³`, `q = ½[(1 + 3/z²)·atan z − 3/z]` -/
def Qz (z : α) : α := (((1 + 3 / sq z) * RealLike.atan z - 3 / z) / 2) / (z * sq z)

/-- `NormalGravity::FlatteningToJ2(a, GM, ω, f)` for `f > 0`, with `z = √(e²/(1−f)²) = e′` -/
def flatteningToJ2 (a GM omega f : α) : α :=
  let K := 2 * sq (a * omega) * a / (15 * GM)
  let f1 := 1 - f
  let f2 := sq f1
  let e2 := f * (2 - f)
  (e2 - K * f1 * f2 / Qz (RealLike.sqrt (e2 / f2))) / 3

/-! ### prolate (`f < 0`, `E = a·√(−e²)`, `u` = polar semi-axis of the confocal spheroid, `√(u² − E²)` its equatorial one) and spherical (`f = 0`) closed forms -/

/-- `NormalGravity::Qf(x, true)` in closed form at `y = −w²`, `w = E/u ∈ (0, 1)`: `Q = ((1 + 3/y)·A − 3/y)/(2y)`, `A = atanzz = atanh(w)/w` -/
def QzAlt (w : α) : α :=
  let y := -(sq w)
  ((1 + 3 / y) * (RealLike.atanh w / w) - 3 / y) / (2 * y)

/-- normal potential for a prolate reference ellipsoid at `(u, β)`: `V₀ = GM·atanzz/u + ω²a²·q·(sin²β − 1/3)/2`, `q = Q(u)/Q(b)·(b/u)³`,
    plus the rotational potential `ω²·p²/2`, `p² = (u² − E²)·cos²β`; `a² = b² − E²` -/
def normalUProlate (GM omega a b E u sbet cbet : α) : α :=
  GM / E * RealLike.atanh (E / u) + sq omega * sq a / 2 * (QzAlt (E / u) / QzAlt (E / b) * ((b / u) * sq (b / u))) * (sq sbet - 1 / 3)
    + sq omega / 2 * (sq u - sq E) * sq cbet

/-- normal potential for a spherical reference body (`f = 0`, `E = 0`): `q = (a/u)³` -/
def normalUSphere (GM omega a u sbet cbet : α) : α :=
  GM / u + sq omega * sq a / 2 * ((a / u) * sq (a / u)) * (sq sbet - 1 / 3) + sq omega / 2 * sq u * sq cbet

/-! ### `NormalGravity::J2ToFlattening`: the Newton iteration on `e²` (oblate branch `e² > 0`) -/

/-- the function whose zero is sought: `h(e²) = e² − f₁·f₂·K/Q₀ − 3·J₂`, `f₂ = 1 − e²`, `f₁ = √f₂`, `Q₀ = Qf(e′²)`, `e′² = e²/(1 − e²)`, `K = 2a³ω²/(15·GM)` -/
def j2Residual (a GM omega J2 e2 : α) : α :=
  let K := 2 * sq (a * omega) * a / (15 * GM)
  let f2 := 1 - e2
  let f1 := RealLike.sqrt f2
  e2 - f1 * f2 * K / Qz (RealLike.sqrt (e2 / f2)) - 3 * J2

/-- one Newton step `e² ← e² − h/dh` (before the clamp `fmin(·, maxe_)`) -/
def j2NewtonStep (e2 h dh : α) : α := e2 - h / dh

/-- the value returned: `f = e²/(1 + √(1 − e²))` -/
def j2Flattening (e2 : α) : α := e2 / (1 + RealLike.sqrt (1 - e2))

end GeoVerif.Harmonic
