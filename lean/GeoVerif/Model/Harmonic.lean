import GeoVerif.Basic.RealLike
/-!
# Spherical harmonic sums, magnetic time interpolation and normal gravity (formula models, core Lean only)

* `index`, `csize`, `ssize`, `Coeff.cv`/`sv`: the packed triangular storage of `SphericalEngine::coeff` and its
  range-checked accessors, over `Int`, exactly as coded (`SphericalEngine.hpp`).
* `clenG`: the backward Clenshaw recurrence with index-dependent `α_k`, `β_k` (the mathematical core of both loops
  of `SphericalEngine::Value`).
* `value`: `SphericalEngine::Value<false, norm, L>` (value only): inner Clenshaw over the degree `n`, outer over the
  order `m`, scaling, pole handling.  Polymorphic in the number type (`RealLike`): executed by the driver in binary64
  against `SphericalHarmonic`, `SphericalHarmonic1`, `SphericalHarmonic2`, read at `ℝ` by the theorems.
* `epochIndex`, `fieldAt`: epoch selection and time interpolation/extrapolation of `MagneticModel::FieldGeocentric`.
* `normalU`, `qfun`, `flatteningToJ2`: closed forms of `NormalGravity` (oblate case) in ellipsoidal coordinates.
-/
namespace GeoVerif.Harmonic
open GeoVerif GeoVerif.RealLike
open GeoVerif.RealLike.Lits

/-! ## packed triangular storage -/

/-- `coeff::index(n, m)` for a layout of degree `N`: column-major, column `m` holds `n = m … N` -/
def index (N n m : Int) : Int := m * N - m * (m - 1) / 2 + n

/-- `coeff::Csize(N, M)` -/
def csize (N M : Int) : Int := (M + 1) * (2 * N - M + 2) / 2

/-- `coeff::Ssize(N, M)`: the `m = 0` column is not stored -/
def ssize (N M : Int) : Int := csize N M - (N + 1)

/-- the constructor test of `coeff(C, S, N, nmx, mmx)` ("Bad indices for coeff") -/
def validDims (N nmx mmx : Int) : Bool := (N ≥ nmx && nmx ≥ mmx && mmx ≥ 0) || (nmx == -1 && mmx == -1)

/-- "Arrays too small in coeff" -/
def arraysOk (N nmx mmx : Int) (clen slen : Int) : Bool :=
  index N nmx mmx < clen && index N nmx mmx < slen + (N + 1)

structure Coeff (α : Type) where
  N : Int
  nmx : Int
  mmx : Int
  C : List α
  S : List α

variable {α : Type}

def getI (zero : α) (l : List α) (k : Int) : α := if k < 0 then zero else l.getD k.toNat zero

/-- `coeff::Cv(k, n, m, f)`: the range-checked accessor used for the 2nd and 3rd coefficient sets -/
def Coeff.cv [Mul α] (zero : α) (c : Coeff α) (k n m : Int) (f : α) : α :=
  if m > c.mmx || n > c.nmx then zero else getI zero c.C k * f

/-- `coeff::Sv(k, n, m, f)` -/
def Coeff.sv [Mul α] (zero : α) (c : Coeff α) (k n m : Int) (f : α) : α :=
  if m > c.mmx || n > c.nmx then zero else getI zero c.S (k - (c.N + 1)) * f

/-- `coeff::Cv(k)` / `Sv(k)`: unchecked (first set) -/
def Coeff.cv0 (zero : α) (c : Coeff α) (k : Int) : α := getI zero c.C k
def Coeff.sv0 (zero : α) (c : Coeff α) (k : Int) : α := getI zero c.S (k - (c.N + 1))

/-! ## Clenshaw with index-dependent coefficients -/

/-- `y_k = α_k·y_{k+1} + β_{k+1}·y_{k+2} + c_k`, for `cs = [c_k, c_{k+1}, …]`, `y` beyond the end `= 0`;
    returns `(y_k, y_{k+1})` -/
def clenG [Add α] [Mul α] (zero : α) (al be : Nat → α) : Nat → List α → α × α
  | _, [] => (zero, zero)
  | k, c :: cs => let p := clenG zero al be (k + 1) cs; (al k * p.1 + be (k + 1) * p.2 + c, p.1)

/-! ## `SphericalEngine::Value<false, norm, L>` -/

variable [RealLike α]

def root (k : Nat) : α := RealLike.sqrt (RealLike.ofNat k)

/-- the auxiliary `w` of the inner recurrence at degree `n`, order `m` -/
def innerW (full : Bool) (m n : Nat) : α :=
  if full then root (2 * n + 1) / (root (n - m + 1) * root (n + m + 1)) else root (n - m + 1) * root (n + m + 1)

/-- inner recurrence: `A = t·Ax` at degree `n`, order `m` -/
def innerA (full : Bool) (q t : α) (m n : Nat) : α :=
  if full then t * (q * innerW full m n * root (2 * n + 3)) else t * (q * RealLike.ofNat (2 * n + 1) / innerW full m n)

def innerB (full : Bool) (q2 : α) (m n : Nat) : α :=
  if full then -(q2 * root (2 * n + 5) / (innerW full m n * root (n - m + 2) * root (n + m + 2)))
  else -(q2 * innerW full m n / (root (n - m + 2) * root (n + m + 2)))

/-- outer recurrence (`m ≥ 1`): `A/cl` -/
def outerV (full : Bool) (m : Nat) : α :=
  if full then
    root 2 * root (2 * m + 3) / root (m + 1)
  else
    root 2 * root (2 * m + 1) / root (m + 1)

def outerA (full : Bool) (cl uq : α) (m : Nat) : α := cl * outerV full m * uq

def outerB (full : Bool) (uq2 : α) (m : Nat) : α :=
  if full then -(outerV full m * root (2 * m + 5) / (root 8 * root (m + 2)) * uq2)
  else -(outerV full m * root (2 * m + 3) / (root 8 * root (m + 2)) * uq2)

def outerA0 (full : Bool) (uq : α) : α := if full then root 3 * uq else uq
def outerB0 (full : Bool) (uq2 : α) : α := if full then -(root 15 / 2 * uq2) else -(root 3 / 2 * uq2)

/-- geometry of the evaluation point as `Value` computes it: `(cl, sl, r, t, u, q)` -/
structure Pt (α : Type) where
  cl : α
  sl : α
  r : α
  t : α
  u : α
  q : α

def mkPt (x y z a eps : α) : Pt α :=
  let zero : α := RealLike.ofNat 0
  let one : α := RealLike.ofNat 1
  let p := RealLike.hypot x y
  let cl := if RealLike.eqb p zero then one else x / p
  let sl := if RealLike.eqb p zero then zero else y / p
  let r := RealLike.hypot z p
  let t := if RealLike.eqb r zero then zero else z / r
  let u := if RealLike.eqb r zero then one else RealLike.max (p / r) eps
  ⟨cl, sl, r, t, u, a / r⟩

/-- inner sum for order `m`: Clenshaw over `n = m … N` of the (scaled) coefficients `cf n m` -/
def innerSum (full : Bool) (P : Pt α) (N m : Nat) (cf : Nat → Nat → α) : α :=
  let q2 := sq P.q
  (clenG (RealLike.ofNat 0) (fun l => innerA full P.q P.t m (l + m)) (fun l1 => innerB full q2 m (l1 - 1 + m)) 0
    ((List.range (N + 1 - m)).map fun l => cf (l + m) m)).1

/-- the double Clenshaw sum given the point geometry and the combined, scaled coefficient functions
    `cC n m = scale·Σ_l f_l C^{(l)}_{nm}`, `cS n m` likewise (`N ≥ M`) -/
def valuePt (full : Bool) (P : Pt α) (N M : Nat) (cC cS : Nat → Nat → α) (sc : α) : α :=
  let uq := P.u * P.q
  let uq2 := sq uq
  let zero : α := RealLike.ofNat 0
  let wcs := (List.range M).map fun j => innerSum full P N (j + 1) cC
  let wss := (List.range M).map fun j => innerSum full P N (j + 1) cS
  let vc := clenG zero (outerA full P.cl uq) (outerB full uq2 ∘ (· - 1)) 1 wcs
  let vs := clenG zero (outerA full P.cl uq) (outerB full uq2 ∘ (· - 1)) 1 wss
  let qs := P.q / sc
  qs * (innerSum full P N 0 cC + outerA0 full uq * (P.cl * vc.1 + P.sl * vs.1) + outerB0 full uq2 * vc.2)

/-- combined coefficient of degree `n`, order `m`: first set unchecked, further sets through the checked
    accessors with their multipliers; everything times `scale` -/
def combC (zero : α) (sets : List (Coeff α × α)) (sc : α) (n m : Nat) : α :=
  match sets with
  | [] => zero
  | (c0, _) :: rest =>
    (rest.foldl (fun acc cf => acc + cf.1.cv zero (index cf.1.N n m) n m cf.2) (c0.cv0 zero (index c0.N n m))) * sc

def combS (zero : α) (sets : List (Coeff α × α)) (sc : α) (n m : Nat) : α :=
  match sets with
  | [] => zero
  | (c0, _) :: rest =>
    (rest.foldl (fun acc cf => acc + cf.1.sv zero (index cf.1.N n m) n m cf.2) (c0.sv0 zero (index c0.N n m))) * sc

/-- `SphericalEngine::Value<false, norm, L>(c, f, x, y, z, a)`; `sets = [(c[0], 1), (c[1], f[1]), …]`;
    `sc = scale()`, `eps = eps()` -/
def value (full : Bool) (sets : List (Coeff α × α)) (x y z a sc eps : α) : α :=
  let zero : α := RealLike.ofNat 0
  match sets with
  | [] => zero
  | (c0, _) :: _ =>
    if c0.mmx < 0 then zero else
    valuePt full (mkPt x y z a eps) c0.nmx.toNat c0.mmx.toNat (combC zero sets sc) (combS zero sets sc) sc

/-! ## magnetic model: epoch selection and time interpolation -/

/-- `n = max(min(int(floor((t − t0)/dt0)), nNmodels − 1), 0)` given `k = ⌊(t − t0)/dt0⌋` -/
def epochIndex (k : Int) (nModels : Nat) : Nat := (max (min k ((nModels : Int) - 1)) 0).toNat

/-- one Cartesian component of `MagneticModel::FieldGeocentric` before the final `·(−a)`:
    `B : Nat → α` are the values of `_harm[i]` at the point, `Bc` the constant term (0 if none);
    returns `(field, rate)` -/
def fieldAt (B : Nat → α) (Bc : α) (t t0 dt0 : α) (k : Int) (nModels : Nat) : α × α :=
  let n := epochIndex k nModels
  let interpolate := n + 1 < nModels
  let t1 := (t - t0) - RealLike.ofNat n * dt0
  let rate := if interpolate then (B (n + 1) - B n) / dt0 else B (n + 1)
  (B n + (t1 * rate + Bc), rate)

/-! ## normal gravity (oblate reference ellipsoid, `E = a·e > 0`), ellipsoidal-harmonic coordinates `(u, β)` -/

/-- H+M eq. 2-57: `q(u) = ½[(1 + 3u²/E²)·atan(E/u) − 3u/E]` -/
def qfun (E u : α) : α := ((1 + 3 * sq u / sq E) * RealLike.atan (E / u) - 3 * u / E) / 2

/-- H+M eq. 2-62 + rotation: normal potential `U = V₀ + Φ` at `(u, β)`;
    `a, b` semi-axes, `E² = a² − b²` -/
def normalU (GM omega a b E u sbet cbet : α) : α :=
  GM / E * RealLike.atan (E / u) + sq omega * sq a / 2 * (qfun E u / qfun E b) * (sq sbet - 1 / 3)
    + sq omega / 2 * (sq u + sq E) * sq cbet

/-- `NormalGravity::Qf(x, false)` in closed form, `x = z²` passed as `z`: `Q(z) = q/z³`, `q = ½[(1 + 3/z²)·atan z − 3/z]` -/
def Qz (z : α) : α := (((1 + 3 / sq z) * RealLike.atan z - 3 / z) / 2) / (z * sq z)

/-- `NormalGravity::FlatteningToJ2(a, GM, ω, f)` for `f > 0`, with `z = √(e²/(1−f)²) = e′` -/
def flatteningToJ2 (a GM omega f : α) : α :=
  let K := 2 * sq (a * omega) * a / (15 * GM)
  let f1 := 1 - f
  let f2 := sq f1
  let e2 := f * (2 - f)
  (e2 - K * f1 * f2 / Qz (RealLike.sqrt (e2 / f2))) / 3

end GeoVerif.Harmonic
