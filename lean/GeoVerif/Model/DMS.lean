import GeoVerif.FP.Decimal
import GeoVerif.Model.MathF
import GeoVerif.Gen.DMSC
import GeoVerif.Gen.MathC
/-!
# `DMS.cpp` / `Utility.hpp` text layer: executable byte-level model (core Lean only)

Strings are `List Nat` (bytes).  The character tables (`replace` table of `DMS::Decode`, `hemispheres_`, `signs_`,
`digits_`, `dmsindicators_`) and `Math::dm/ms/ds` come from `Gen/` (re-extracted from the source on every run).

The parser is split into a **discrete stage** (`replaceAll`, `trim`, `pieces`, `strip`, `number`, `comps`:
bytes ↦ sign, hemisphere flag and three decimal slots — no floating point) and a **numeric stage** (`evalSlots`:
slots ↦ binary64 with the exact softfloat; `strtod` is `Decimal.ofDecIO`).  The formatter is the numeric head
(`encodeHead`: one exact `%.*f` rounding) followed by pure `Nat` field logic (`splitFields`, `assemble`).
-/
namespace GeoVerif.DMS
open GeoVerif GeoVerif.Decimal GeoVerif.Gen

abbrev Bytes := List Nat
abbrev Err := String

inductive Flag where
  | none | lat | lon | azi | num
deriving DecidableEq, Repr, Inhabited

def Flag.code : Flag → Nat
  | .none => DMSC.flagNONE | .lat => DMSC.flagLATITUDE | .lon => DMSC.flagLONGITUDE
  | .azi => DMSC.flagAZIMUTH | .num => DMSC.flagNUMBER

def Flag.ofCode (n : Nat) : Option Flag :=
  if n = DMSC.flagNONE then some .none else if n = DMSC.flagLATITUDE then some .lat
  else if n = DMSC.flagLONGITUDE then some .lon else if n = DMSC.flagAZIMUTH then some .azi
  else if n = DMSC.flagNUMBER then some .num else Option.none

/-! ## `Utility::lookup`, `toupper`, `isspace` -/

def toupper (c : Nat) : Nat := if 97 ≤ c ∧ c ≤ 122 then c - 32 else c
def isspace (c : Nat) : Bool := c == 32 || (9 ≤ c && c ≤ 13)

def indexOf : Bytes → Nat → Int
  | [], _ => -1
  | x :: t, c => if x = c then 0 else (let r := indexOf t c; if r < 0 then -1 else r + 1)

/-- `Utility::lookup(const char* s, char c)`: index of `toupper(c)` in `s`, or −1; **NUL never matches** -/
def lookup (s : Bytes) (c : Nat) : Int := if c = 0 then -1 else indexOf s (toupper c)

def isHemi (c : Nat) : Bool := lookup DMSC.hemispheres c ≥ 0
def isSign (c : Nat) : Bool := lookup DMSC.signs c ≥ 0
/-- `find_first_of(signs_, …)` compares bytes (no case folding) -/
def isSignRaw (c : Nat) : Bool := DMSC.signs.contains c
def digitVal (c : Nat) : Option Nat := let k := lookup DMSC.digits c; if k ≥ 0 then some k.toNat else Option.none

/-! ## `DMS::replace` and the substitution table -/

def replaceGo (pat : Bytes) (c : Nat) : Nat → Bytes → Bytes
  | 0, s => s
  | fuel + 1, s =>
    if pat.isPrefixOf s then
      (if c = 0 then replaceGo pat c fuel (s.drop pat.length) else replaceGo pat c fuel (c :: s.drop pat.length))
    else match s with
      | [] => []
      | x :: t => x :: replaceGo pat c fuel t

/-- `DMS::replace(s, pat, c)`: search resumes *at* the replacement position, as `s.find(pat, p)` does -/
def replace1 (pat : Bytes) (c : Nat) (s : Bytes) : Bytes :=
  if pat.isEmpty then s else replaceGo pat c (2 * s.length + 2) s

def replaceAll (s : Bytes) : Bytes := DMSC.replaceTable.foldl (fun acc pc => replace1 pc.1 pc.2 acc) s

def trim (s : Bytes) : Bytes := ((s.dropWhile isspace).reverse.dropWhile isspace).reverse

/-! ## discrete stage of `InternalDecode` -/

/-- one decimal number as written: digits before the point, optional point, digits after it -/
structure Num where
  int : Nat := 0
  nint : Nat := 0
  point : Bool := false
  frac : Nat := 0
  nfrac : Nat := 0
deriving DecidableEq, Repr, Inhabited

def scanDigits : Nat → Nat → Bytes → Nat × Nat × Bytes
  | v, n, [] => (v, n, [])
  | v, n, c :: t =>
    match digitVal c with
    | some d => scanDigits (10 * v + d) (n + 1) t
    | Option.none => (v, n, c :: t)

/-- maximal `digits* ('.' digits*)?` prefix -/
def number (s : Bytes) : Num × Bytes :=
  match scanDigits 0 0 s with
  | (v, n, 46 :: r) =>
    (match scanDigits 0 0 r with
     | (f, nf, r') => ({ int := v, nint := n, point := true, frac := f, nfrac := nf }, r'))
  | (v, n, r) => ({ int := v, nint := n }, r)

structure Slots where
  d : Num := {}
  m : Num := {}
  s : Num := {}
deriving DecidableEq, Repr, Inhabited

def Slots.set (sl : Slots) (k : Nat) (n : Num) : Slots :=
  match k with
  | 0 => { sl with d := n }
  | 1 => { sl with m := n }
  | _ => { sl with s := n }

def Slots.get (sl : Slots) (k : Nat) : Num :=
  match k with
  | 0 => sl.d
  | 1 => sl.m
  | _ => sl.s

/-- the component loop of `InternalDecode` on the text after hemisphere/sign stripping.  `npiece` = next expected
    component.  A number followed by an indicator `d ' "` goes to the slot **the indicator names**; `:` names the next
    expected slot; a final number without indicator goes to the next expected slot. -/
def comps : Nat → Nat → Slots → Bytes → Except Err Slots
  | 0, _, _, _ => .error "More than 3 DMS components"
  | fuel + 1, npiece, sl, s =>
    match number s with
    | (n, []) =>
      if npiece ≥ 3 then .error "Extra text following seconds"
      else if n.nint + n.nfrac = 0 then .error "Missing numbers in trailing component"
      else .ok (sl.set npiece n)
    | (n, c :: rest) =>
      if c = 46 then .error "Multiple decimal points" else
      let k0 := lookup DMSC.dmsindicators c
      if k0 < 0 then (if isSign c then .error "Internal sign" else .error "Illegal character") else
      if k0 ≥ 3 ∧ rest.isEmpty then .error "Illegal for : to appear at the end" else
      let k : Nat := if k0 ≥ 3 then npiece else k0.toNat
      if k ≥ 3 then .error "More than 3 DMS components" else
      if k + 1 = npiece then .error "Repeated component" else
      if k < npiece then .error "component out of order" else
      if n.nint + n.nfrac = 0 then .error "Missing numbers" else
      if rest.isEmpty then .ok (sl.set k n)
      else if n.point then .error "Decimal point in non-terminal component"
      else comps fuel (k + 1) (sl.set k n) rest

/-- result of hemisphere / sign stripping: negative?, flag, remaining text -/
structure Stripped where
  neg : Bool
  flag : Flag
  body : Bytes
deriving DecidableEq, Repr

def hemiFlag (k : Int) : Flag := if k / 2 ≠ 0 then .lon else .lat
def hemiNeg (k : Int) : Bool := k % 2 = 0

def strip (s : Bytes) : Except Err Stripped :=
  -- leading hemisphere letter
  let (ind1, neg1, s1) : Flag × Bool × Bytes :=
    match s with
    | c :: t => let k := lookup DMSC.hemispheres c
                if k ≥ 0 then (hemiFlag k, hemiNeg k, t) else (Flag.none, false, s)
    | [] => (Flag.none, false, s)
  -- trailing hemisphere letter
  let r2 : Except Err (Flag × Bool × Bytes) :=
    match s1.getLast? with
    | some c =>
      let k := lookup DMSC.hemispheres c
      if k ≥ 0 then
        (if ind1 ≠ Flag.none then .error "Repeated or contradictory hemisphere indicators"
         else .ok (hemiFlag k, hemiNeg k, s1.dropLast))
      else .ok (ind1, neg1, s1)
    | Option.none => .ok (ind1, neg1, s1)
  match r2 with
  | .error e => .error e
  | .ok (ind, neg, s2) =>
    -- one sign
    let (neg3, s3) : Bool × Bytes :=
      match s2 with
      | c :: t => let k := lookup DMSC.signs c
                  if k ≥ 0 then ((if k = 0 then !neg else neg), t) else (neg, s2)
      | [] => (neg, s2)
    if s3.isEmpty then .error "Empty or incomplete DMS string"
    else .ok ⟨neg3, ind, s3⟩

structure Parsed where
  neg : Bool
  flag : Flag
  slots : Slots
deriving DecidableEq, Repr

/-- the whole discrete stage -/
def parseFields (s : Bytes) : Except Err Parsed :=
  match strip s with
  | .error e => .error e
  | .ok st =>
    match comps 4 0 {} st.body with
    | .error e => .error e
    | .ok sl => .ok ⟨st.neg, st.flag, sl⟩

/-! ## numeric stage -/

def fdm : F64 := F64.ofInt MathC.dm
def fms : F64 := F64.ofInt MathC.ms
def fds : F64 := F64.ofInt MathC.ds

/-- `icurrent = 10 * icurrent + k` over the digits, in binary64 (two roundings per digit) -/
def icur (n : Nat) : F64 :=
  (digitBytes n).foldl (fun a c => F64.add (F64.mul (F64.ofNat 10) a) (F64.ofNat (c - 48))) F64.pzero

/-- `ipieces[k]` -/
def numI (n : Num) : F64 := if n.point then F64.pzero else icur n.int
/-- `fpieces[k]` (`s >> fcurrent` is `strtod` with overflow ↦ DBL_MAX) -/
def numF (n : Num) : F64 := if n.point then ofDecIO (n.int * 10 ^ n.nfrac + n.frac) n.nfrac else icur n.int

def evalSlots (neg : Bool) (sl : Slots) : Except Err F64 :=
  let f0 := numF sl.d; let i1 := numI sl.m; let f1 := numF sl.m; let i2 := numI sl.s; let f2 := numF sl.s
  if F64.ge i1 fdm || F64.gt f1 fdm then .error "Minutes not in range"
  else if F64.ge i2 fms || F64.gt f2 fms then .error "Seconds not in range"
  else
    let v :=
      if F64.ne f2 F64.pzero then (fms * (fdm * f0 + f1) + f2) / fds
      else if F64.ne f1 F64.pzero then (fdm * f0 + f1) / fdm
      else f0
    .ok (F64.mul (if neg then F64.ofInt (-1) else F64.ofInt 1) v)

/-! ## `Utility::nummatch` -/

def stripTrailing (c : Nat) (s : Bytes) : Bytes := (s.reverse.dropWhile (· == c)).reverse

/-- `some v` for nan / ±inf spellings, `none` where the C++ returns 0 -/
def nummatch (s : Bytes) : Option F64 :=
  if s.length < 3 then Option.none else
  let t := s.map toupper
  let neg := t.head? == some 45
  let p0 := if t.head? == some 45 || t.head? == some 43 then 1 else 0
  let u := stripTrailing 48 t
  if u.length < p0 + 3 then Option.none else
  let w := u.drop p0
  if w == strBytes "NAN" || w == strBytes "1.#QNAN" || w == strBytes "1.#SNAN" || w == strBytes "1.#IND" || w == strBytes "1.#R"
  then some .nan
  else if w == strBytes "INF" || w == strBytes "1.#INF" || w == strBytes "INFINITY" then some (.inf neg)
  else Option.none

/-! ## `InternalDecode`, `Decode` -/

def internalDecode (s : Bytes) : Except Err (F64 × Flag) :=
  let r : Except Err (F64 × Flag) :=
    match parseFields s with
    | .error e => .error e
    | .ok p => match evalSlots p.neg p.slots with
      | .error e => .error e
      | .ok v => .ok (v, p.flag)
  match r with
  | .ok x => .ok x
  | .error e =>
    match nummatch s with
    | some v => .ok (v, Flag.none)
    | Option.none => .error e

/-- length of the first piece of the (trimmed, non-empty) text; `first` = this is piece 0 -/
def pieceLen (first : Bool) (t : Bytes) : Nat :=
  let pa0 := if first && (match t.head? with | some c => isHemi c | Option.none => false) then 1 else 0
  let pa := if !first || (match (t.drop pa0).head? with | some c => isSign c | Option.none => false) then pa0 + 1 else pa0
  pa + ((t.drop pa).takeWhile fun c => !isSignRaw c).length

def pieces : Nat → Bool → Bytes → List Bytes
  | 0, _, _ => []
  | fuel + 1, first, t =>
    if t.isEmpty then [] else
    let n := max 1 (min (pieceLen first t) t.length)
    t.take n :: pieces fuel false (t.drop n)

def combineFlags (ind1 ind2 : Flag) : Except Err Flag :=
  if ind1 = Flag.none then .ok ind2
  else if ind2 = Flag.none ∨ ind1 = ind2 then .ok ind1
  else .error "Incompatible hemisphere specifier"

def sumPieces : List Bytes → F64 → Flag → Except Err (F64 × Flag)
  | [], v, ind => .ok (v, ind)
  | p :: ps, v, ind =>
    match internalDecode p with
    | .error e => .error e
    | .ok (x, ind2) =>
      match combineFlags ind ind2 with
      | .error e => .error e
      | .ok ind' => sumPieces ps (F64.add v x) ind'

/-- `DMS::Decode(const std::string&, flag&)` -/
def decode (dms : Bytes) : Except Err (F64 × Flag) :=
  let t := trim (replaceAll dms)
  let ps := pieces (t.length + 1) true t
  if ps.isEmpty then .error "Empty or incomplete DMS string"
  else sumPieces ps F64.nzero Flag.none

/-- flag bookkeeping of `DecodeLatLon`: which of the two decoded values is the latitude -/
def assignLatLon (ia ib : Flag) (longfirst : Bool) : Except Err Bool :=   -- ok true: first is latitude
  let (ia, ib) : Flag × Flag :=
    if ia = Flag.none ∧ ib = Flag.none then (if longfirst then (Flag.lon, Flag.lat) else (Flag.lat, Flag.lon))
    else if ia = Flag.none then ((if ib = Flag.lat then Flag.lon else Flag.lat), ib)
    else if ib = Flag.none then (ia, (if ia = Flag.lat then Flag.lon else Flag.lat))
    else (ia, ib)
  if ia = ib then .error "Both interpreted as latitudes / longitudes" else .ok (ia = Flag.lat)

def decodeLatLon (sa sb : Bytes) (longfirst : Bool) : Except Err (F64 × F64) :=
  match decode sa with
  | .error e => .error e
  | .ok (a, ia) =>
    match decode sb with
    | .error e => .error e
    | .ok (b, ib) =>
      match assignLatLon ia ib longfirst with
      | .error e => .error e
      | .ok firstLat =>
        let lat := if firstLat then a else b
        let lon := if firstLat then b else a
        if F64.gt (F64.abs lat) MathF.qd then .error "Latitude not in [-90, 90]"
        else .ok (lat, lon)

def decodeAngle (s : Bytes) : Except Err F64 :=
  match decode s with
  | .error e => .error e
  | .ok (v, ind) => if ind ≠ Flag.none then .error "Arc angle includes a hemisphere" else .ok v

def decodeAzimuth (s : Bytes) : Except Err F64 :=
  match decode s with
  | .error e => .error e
  | .ok (v, ind) => if ind = Flag.lat then .error "Azimuth has a latitude hemisphere" else .ok (MathF.angNormalize v)

/-! ## `Utility::val<double>` -/

/-- accepted syntax of libstdc++ `operator>>(double&)` when the whole (trimmed) text must be consumed:
    `[+-] digits* [. digits*] [(e|E) [+-] digits+]` with at least one mantissa digit; overflow is a failure -/
def valPlain (t : Bytes) : Option F64 :=
  let (neg, t1) : Bool × Bytes :=
    match t with
    | 45 :: r => (true, r)
    | 43 :: r => (false, r)
    | _ => (false, t)
  match number t1 with
  | (n, rest) =>
    if n.nint + n.nfrac = 0 then Option.none else
    let mant := n.int * 10 ^ n.nfrac + n.frac
    let ex : Option Int :=
      match rest with
      | [] => some 0
      | c :: r =>
        if c = 101 ∨ c = 69 then
          let (eneg, r1) : Bool × Bytes :=
            match r with
            | 45 :: q => (true, q)
            | 43 :: q => (false, q)
            | _ => (false, r)
          match scanDigits 0 0 r1 with
          | (v, cnt, []) => if cnt = 0 then Option.none else some (if eneg then -(v : Int) else (v : Int))
          | _ => Option.none
        else Option.none
    match ex with
    | Option.none => Option.none
    | some e =>
      match ofDecExp mant (e - (n.nfrac : Int)) with
      | .inf _ => Option.none
      | v => some (if neg then F64.neg v else v)

def utilVal (s : Bytes) : Except Err F64 :=
  let t := trim s
  match valPlain t with
  | some v => .ok v
  | Option.none =>
    match nummatch t with
    | some v => .ok v
    | Option.none => .error "Cannot decode"

/-! ## `DMS::Encode` -/

/-- integer level of the carry logic: `i` whole trailing units ↦ (carry into degrees, minutes, seconds) -/
def splitFields (trailing : Nat) (i : Nat) : Nat × Nat × Nat :=
  if trailing = DMSC.compMINUTE then (i / MathC.dm.toNat, i % MathC.dm.toNat, 0)
  else if trailing = DMSC.compSECOND then
    ((i / MathC.ms.toNat) / MathC.dm.toNat, (i / MathC.ms.toNat) % MathC.dm.toNat, i % MathC.ms.toNat)
  else (i, 0, 0)

/-- effective precision: `min(15 − 2·trailing, prec)` -/
def clampPrec (trailing prec : Nat) : Nat := min (15 - 2 * trailing) prec

structure Head where
  neg : Bool          -- sign (after azimuth reduction)
  idegree : F64       -- whole degrees split off (0 for DEGREE)
  units : Nat         -- fractional part in units of 10^-prec of the trailing component, rounded half-even
  prec : Nat
deriving Repr

/-- numeric head of `Encode` for finite `angle`: azimuth reduction, sign, integer split, scaling, **one** `%.*f` rounding -/
def encodeHead (angle : F64) (trailing prec : Nat) (ind : Flag) : Head :=
  let prec := clampPrec trailing prec
  let scale : F64 := if trailing = DMSC.compMINUTE then fdm else if trailing = DMSC.compSECOND then fds else F64.ofInt 1
  let angle :=
    if ind = Flag.azi then
      let a := MathF.angNormalize angle
      if F64.lt a F64.pzero then F64.add a MathF.td else F64.add F64.pzero a
    else angle
  let neg := angle.signbit
  let angle := F64.abs angle
  let idegree := if trailing = DMSC.compDEGREE then F64.pzero else F64.floor angle
  let fdegree := F64.mul (F64.sub angle idegree) scale
  ⟨neg, idegree, fixedUnits fdegree prec, prec⟩

def zfill (w : Nat) (s : Bytes) : Bytes := List.replicate (w - s.length) 48 ++ s

/-- hemisphere / separator / zero-fill assembly (`ostringstream` part), pure text -/
def assemble (trailing : Nat) (ind : Flag) (sep : Nat) (neg : Bool) (prec : Nat) (degree minute second : Bytes) : Bytes :=
  let precw := if prec = 0 then 0 else prec + 1
  let degw := 1 + min ind.code 2
  let sgn : Bytes := if ind = Flag.none ∧ neg then [45] else []
  let dsep := if sep ≠ 0 then sep else 100      -- 'd'
  let msep := if sep ≠ 0 then sep else 39       -- '\''
  let body : Bytes :=
    if trailing = DMSC.compDEGREE then
      (if ind ≠ Flag.none then zfill (degw + precw) degree else degree)
    else if trailing = DMSC.compMINUTE then
      (if ind ≠ Flag.none then zfill degw degree else degree) ++ [dsep] ++ zfill (2 + precw) minute
        ++ (if sep = 0 then [39] else [])
    else
      (if ind ≠ Flag.none then zfill degw degree else degree) ++ [dsep] ++ zfill 2 minute ++ [msep]
        ++ zfill (2 + precw) second ++ (if sep = 0 then [34] else [])
  let hemi : Bytes :=
    if ind ≠ Flag.none ∧ ind ≠ Flag.azi then
      [DMSC.hemispheres.getD ((if ind = Flag.lat then 0 else 2) + (if neg then 0 else 1)) 63]
    else []
  sgn ++ body ++ hemi

/-- fraction text (`.ddd`, empty for prec 0) of `units` -/
def fracText (units prec : Nat) : Bytes :=
  if prec = 0 then [] else [46] ++ padDigits prec (units % 10 ^ prec)

/-- `DMS::Encode(angle, trailing, prec, ind, dmssep)` -/
def encode (angle : F64) (trailing prec : Nat) (ind : Flag) (sep : Nat) : Bytes :=
  match angle with
  | .nan => strBytes "nan"
  | .inf s => if s then strBytes "-inf" else strBytes "inf"
  | _ =>
    let h := encodeHead angle trailing prec ind
    if trailing = DMSC.compDEGREE then
      assemble trailing ind sep h.neg h.prec (unitsToFixed h.units h.prec) [] []
    else
      let i := h.units / 10 ^ h.prec
      let fr := fracText h.units h.prec
      let (cd, mi, se) := splitFields trailing i
      let degree := fmtFixed (F64.add (F64.ofNat cd) h.idegree) 0
      if trailing = DMSC.compMINUTE then
        assemble trailing ind sep h.neg h.prec degree (digitBytes mi ++ fr) []
      else
        assemble trailing ind sep h.neg h.prec degree (digitBytes mi) (digitBytes se ++ fr)

/-- the 4-argument overload: `prec` selects the trailing component; `NUMBER` is `Utility::str` -/
def encodeP (angle : F64) (prec : Nat) (ind : Flag) (sep : Nat) : Bytes :=
  if ind = Flag.num then utilStr angle prec
  else encode angle (if prec < 2 then 0 else if prec < 4 then 1 else 2)
    (if prec < 2 then prec else if prec < 4 then prec - 2 else prec - 4) ind sep

end GeoVerif.DMS
