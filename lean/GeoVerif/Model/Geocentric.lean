import GeoVerif.Basic.RealLike
/-!
# Geocentric and LocalCartesian as formula models (polymorphic in the number type)

`sincosd`/`atan2d` are kernels: the forward models take `(sinφ, cosφ, sinλ, cosλ)`
and the reverse model returns them; the degree conversions are done by the caller.
-/
namespace GeoVerif.Geocentric
open GeoVerif GeoVerif.RealLike
open GeoVerif.RealLike.Lits

variable {α : Type} [RealLike α]

structure Ell (α : Type) where
  a : α
  f : α

def e2 (E : Ell α) : α := E.f * ((2 : α) - E.f)
def e2m (E : Ell α) : α := sq ((1 : α) - E.f)
def e2a (E : Ell α) : α := RealLike.abs (e2 E)
def e4a (E : Ell α) : α := sq (e2 E)

/-- `Geocentric::Rotation`: the 3×3 matrix, row-major `M[0..8]` -/
def rotation (sphi cphi slam clam : α) : List α :=
  [-slam, -(clam * sphi), clam * cphi,
   clam, -(slam * sphi), slam * cphi,
   RealLike.ofNat 0, cphi, sphi]

/-- `Geocentric::IntForward` after `sincosd` -/
def forward (E : Ell α) (sphi cphi slam clam h : α) : α × α × α :=
  let n := E.a / RealLike.sqrt ((1 : α) - e2 E * sq sphi)
  let Z := (e2m E * n + h) * sphi
  let X := (n + h) * cphi
  (X * clam, X * slam, Z)

structure Rev (α : Type) where
  sphi : α
  cphi : α
  slam : α
  clam : α
  h : α

/-- Vermeille's `u` (a root of the resolvent cubic `u³ − 3r u² = 2S`): Cardano branch for `disc ≥ 0`, trigonometric branch otherwise -/
def vermU (S r : α) : α :=
  let zero : α := RealLike.ofNat 0
  let r2 := sq r
  let r3 := r * r2
  let disc := S * ((2 : α) * r3 + S)
  if RealLike.leb zero disc then
    let T3 := S + r3
    let T3 := T3 + (if RealLike.ltb T3 zero then -(RealLike.sqrt disc) else RealLike.sqrt disc)
    let T := RealLike.cbrt T3
    r + (T + (if RealLike.eqb T zero then zero else r2 / T))
  else
    let ang := RealLike.atan2 (RealLike.sqrt (-disc)) (-(S + r3))
    r + (2 : α) * r * RealLike.cos (ang / 3)

/-- Vermeille's `k` (the positive root of `p/(k+e²)² + q/k² = 1`) from `u`; returns `(k1, k2)` = `(k, k + e²)` (oblate) or `(k − e², k)` (prolate) -/
def vermK (E : Ell α) (p q r : α) (prolate : Bool) : α × α :=
  let zero : α := RealLike.ofNat 0
  let S := e4a E * p * q / 4
  let u := vermU S r
  let v := RealLike.sqrt (sq u + e4a E * q)
  let uv := if RealLike.ltb u zero then e4a E * q / (v - u) else u + v
  let w := RealLike.max zero (e2a E * (uv - q) / ((2 : α) * v))
  let k := uv / (RealLike.sqrt (uv + sq w) + w)
  (if prolate then k - e2 E else k, if prolate then k else k + e2 E)

/-- `Geocentric::IntReverse` up to the final `atan2d` calls; `maxrad = 2a/ε` -/
def reverse (E : Ell α) (maxrad : α) (X Y Z : α) : Rev α :=
  let zero : α := RealLike.ofNat 0
  let one : α := RealLike.ofNat 1
  let R := RealLike.hypot X Y
  let slam := if RealLike.eqb R zero then zero else Y / R
  let clam := if RealLike.eqb R zero then one else X / R
  let h := RealLike.hypot R Z
  if RealLike.ltb maxrad h then
    let R := RealLike.hypot (X / 2) (Y / 2)
    let slam := if RealLike.eqb R zero then zero else (Y / 2) / R
    let clam := if RealLike.eqb R zero then one else (X / 2) / R
    let H := RealLike.hypot (Z / 2) R
    ⟨(Z / 2) / H, R / H, slam, clam, h⟩
  else if RealLike.eqb (e4a E) zero then
    let zz := if RealLike.eqb h zero then one else Z
    let H := RealLike.hypot zz R
    ⟨zz / H, R / H, slam, clam, h - E.a⟩
  else
    let p0 := sq (R / E.a)
    let q0 := e2m E * sq (Z / E.a)
    let r := (p0 + q0 - e4a E) / 6
    let prolate := RealLike.ltb E.f zero
    let p := if prolate then q0 else p0
    let q := if prolate then p0 else q0
    if !(RealLike.eqb (e4a E * q) zero && RealLike.leb r zero) then
      let kk := vermK E p q r prolate
      let k1 := kk.1
      let k2 := kk.2
      let d := k1 * R / k2
      let H := RealLike.hypot (Z / k1) (R / k2)
      ⟨(Z / k1) / H, (R / k2) / H, slam, clam, (one - e2m E / k1) * RealLike.hypot d Z⟩
    else
      let zz := RealLike.sqrt ((if prolate then p else e4a E - p) / e2m E)
      let xx := RealLike.sqrt (if prolate then e4a E - p else p)
      let H := RealLike.hypot zz xx
      let sphi := zz / H
      let sphi := if RealLike.ltb Z zero then -sphi else sphi
      ⟨sphi, xx / H, slam, clam, -(E.a * (if prolate then one else e2m E) * H / e2a E)⟩

/-! ## LocalCartesian -/

structure Origin (α : Type) where
  x0 : α
  y0 : α
  z0 : α
  r : List α      -- rotation matrix at the origin, row-major

def el (l : List α) (i : Nat) : α := l.getD i (RealLike.ofNat 0)

/-- `LocalCartesian::IntForward` given the geocentric image `(xc, yc, zc)` of the point -/
def localForward (O : Origin α) (xc yc zc : α) : α × α × α :=
  let xc := xc - O.x0; let yc := yc - O.y0; let zc := zc - O.z0
  (el O.r 0 * xc + el O.r 3 * yc + el O.r 6 * zc,
   el O.r 1 * xc + el O.r 4 * yc + el O.r 7 * zc,
   el O.r 2 * xc + el O.r 5 * yc + el O.r 8 * zc)

/-- `LocalCartesian::IntReverse` before the call to `Geocentric::IntReverse` -/
def localReverse (O : Origin α) (x y z : α) : α × α × α :=
  (O.x0 + el O.r 0 * x + el O.r 1 * y + el O.r 2 * z,
   O.y0 + el O.r 3 * x + el O.r 4 * y + el O.r 5 * z,
   O.z0 + el O.r 6 * x + el O.r 7 * y + el O.r 8 * z)

/-- `LocalCartesian::MatrixMultiply`: `M ← rᵀ·M` -/
def matrixMultiply (r M : List α) : List α :=
  (List.range 9).map fun i =>
    let row := i / 3; let col := i % 3
    el r row * el M col + el r (row + 3) * el M (col + 3) + el r (row + 6) * el M (col + 6)

/-! ## The matrix-returning forms, degrees, `Rotate`/`Unrotate`, `Reset` -/

/-- `Math::atan2d(y, x)` as a kernel: the argument of the point `(x, y)` in degrees (that the octant scheme of the code
computes exactly this is `Props.C16.atan2d_octant`) -/
def atan2d (y x : α) : α := RealLike.atan2 y x * RealLike.ofNat 180 / RealLike.pi

/-- `sin`/`cos` of an angle in degrees (what `Math::sincosd` computes; its quadrant scheme is `Props.C16.sincosd_quadrant`) -/
def sind (x : α) : α := RealLike.sin (x * RealLike.pi / RealLike.ofNat 180)
def cosd (x : α) : α := RealLike.cos (x * RealLike.pi / RealLike.ofNat 180)

/-- `Geocentric::IntForward` with the matrix argument: position and `Rotation(sphi, cphi, slam, clam)` -/
def forwardM (E : Ell α) (sphi cphi slam clam h : α) : (α × α × α) × List α :=
  (forward E sphi cphi slam clam h, rotation sphi cphi slam clam)

structure RevOut (α : Type) where
  lat : α
  lon : α
  h : α
  M : List α

/-- the whole of `Geocentric::IntReverse` with the matrix argument: `lat = atan2d(sphi, cphi)`, `lon = atan2d(slam, clam)`,
`M = Rotation(sphi, cphi, slam, clam)` with the very pair each branch produced -/
def reverseM (E : Ell α) (maxrad : α) (X Y Z : α) : RevOut α :=
  let rv := reverse E maxrad X Y Z
  ⟨atan2d rv.sphi rv.cphi, atan2d rv.slam rv.clam, rv.h, rotation rv.sphi rv.cphi rv.slam rv.clam⟩

/-- `Geocentric::Rotate`: `M·(x, y, z)ᵀ` (local → geocentric) -/
def rotate (M : List α) (x y z : α) : α × α × α :=
  (el M 0 * x + el M 1 * y + el M 2 * z,
   el M 3 * x + el M 4 * y + el M 5 * z,
   el M 6 * x + el M 7 * y + el M 8 * z)

/-- `Geocentric::Unrotate`: `Mᵀ·(X, Y, Z)ᵀ` (geocentric → local) -/
def unrotate (M : List α) (X Y Z : α) : α × α × α :=
  (el M 0 * X + el M 3 * Y + el M 6 * Z,
   el M 1 * X + el M 4 * Y + el M 7 * Z,
   el M 2 * X + el M 5 * Y + el M 8 * Z)

/-- `LocalCartesian::Reset` after `LatFix`/`AngNormalize`/`sincosd`: the origin is the forward image of `(lat0, lon0, h0)`,
the frame is `Geocentric::Rotation` at `(lat0, lon0)` -/
def reset (E : Ell α) (sphi cphi slam clam h0 : α) : Origin α :=
  let P := forward E sphi cphi slam clam h0
  ⟨P.1, P.2.1, P.2.2, rotation sphi cphi slam clam⟩

/-- `LocalCartesian::IntForward` with the matrix argument -/
def localForwardM (E : Ell α) (O : Origin α) (sphi cphi slam clam h : α) : (α × α × α) × List α :=
  let P := forward E sphi cphi slam clam h
  (localForward O P.1 P.2.1 P.2.2, matrixMultiply O.r (rotation sphi cphi slam clam))

/-- `LocalCartesian::IntReverse` with the matrix argument -/
def localReverseM (E : Ell α) (maxrad : α) (O : Origin α) (x y z : α) : RevOut α :=
  let P := localReverse O x y z
  let r := reverseM E maxrad P.1 P.2.1 P.2.2
  ⟨r.lat, r.lon, r.h, matrixMultiply O.r r.M⟩

end GeoVerif.Geocentric
