import GeoVerif.FP.F64
import GeoVerif.Gen.MathC
/-!
# `Math.cpp` angle primitives over the exact binary64 model

Line-by-line models of `Math::sum`, `AngNormalize`, `AngDiff`, `AngRound`,
`LatFix`, and of the quadrant/octant *wrappers* of `sincosd` and `atan2d`
around their libm kernels (kernel values are parameters).
-/
namespace GeoVerif.MathF
open GeoVerif F64

/-- degrees per quarter / half / whole turn, read from `Math.hpp` on every run -/
def qd : F64 := F64.ofInt Gen.MathC.qd
def hd : F64 := F64.ofInt Gen.MathC.hd
def td : F64 := F64.ofInt Gen.MathC.td

/-- The quadrant switch of `sincosd` (`switch (unsigned(q) & 3U)`), generic in the number type. -/
def quadSwitch {α : Type} [Neg α] (q : Int) (s c : α) : α × α :=
  if q % 4 = 0 then (s, c) else if q % 4 = 1 then (c, -s)
  else if q % 4 = 2 then (-s, -c) else (-c, s)

/-- `Math::sum(u, v, t)`: returns `(s, t)` -/
def sum (u v : F64) : F64 × F64 :=
  let s := u + v
  let up := s - v
  let vpp := s - up
  let up := up - u
  let vpp := vpp - v
  let t := if F64.ne s 0 then (0 : F64) - (up + vpp) else s
  (s, t)

/-- `Math::AngNormalize` -/
def angNormalize (x : F64) : F64 :=
  let y := remainder x td
  if F64.eq (abs y) hd then copysign hd x else y

/-- `Math::AngDiff(x, y, e)`: returns `(d, e)` -/
def angDiff (x y : F64) : F64 × F64 :=
  let (d, e) := sum (remainder (neg x) td) (remainder y td)
  let (d, e) := sum (remainder d td) e
  let d := if F64.eq d 0 || F64.eq (abs d) hd then
      copysign d (if F64.eq e 0 then y - x else neg e)
    else d
  (d, e)

/-- `Math::AngRound` -/
def angRound (x : F64) : F64 :=
  let z : F64 := .fin false 1 (-4)   -- 1/16
  let y := abs x
  let w := z - y
  let y := if F64.gt w 0 then z - w else y
  copysign y x

/-- `Math::LatFix` -/
def latFix (x : F64) : F64 := if F64.gt (abs x) qd then .nan else x

/-- exact argument reduction of `sincosd`: `d = remquo(x, 90, &q)` -/
def reduce90 (x : F64) : F64 × Int := (remainder x qd, remquoN x qd)

/--
The quadrant switch of `Math::sincosd`, given the kernel values
`(s, c) = sincosd(d)` of the *reduced* argument `d ∈ [−45, 45]` (for which
the wrapper is the identity up to the zero-sign rule).
-/
def sincosdWrap (x : F64) (s c : F64) : F64 × F64 :=
  let (sinx, cosx) := quadSwitch (remquoN x qd) s c
  let cosx := cosx + 0
  let sinx := if F64.eq sinx 0 then copysign sinx x else sinx
  (sinx, cosx)

/-- the operations the octant logic of `atan2d` uses, so that the same definition can be read over binary64
    (executed against the implementation) and over ℝ (where `Props/C16.lean` proves it correct) -/
structure AngOps (α : Type) where
  abs : α → α
  gt : α → α → Bool
  signbit : α → Bool
  neg : α → α
  add : α → α → α
  sub : α → α → α
  copysign : α → α → α
  hd : α
  qd : α

/--
The octant logic of `Math::atan2d`: returns the canonical arguments
`(y', x', q)` with `x' ≥ |y'|`, `x' ≥ 0`, on which `atan2d` is the plain
kernel `atan2(y', x')/degree`.
-/
def atan2dCanonG {α : Type} (o : AngOps α) (y x : α) : α × α × Nat :=
  let (x, y, q) := if o.gt (o.abs y) (o.abs x) then (y, x, 2) else (x, y, 0)
  let (x, q) := if o.signbit x then (o.neg x, q + 1) else (x, q)
  (y, x, q)

/-- final step of `atan2d` given the kernel angle `ang` of the canonical problem -/
def atan2dWrapG {α : Type} (o : AngOps α) (y x : α) (ang : α) : α :=
  let (y', _, q) := atan2dCanonG o y x
  match q with
  | 1 => o.sub (o.copysign o.hd y') ang
  | 2 => o.sub o.qd ang
  | 3 => o.add (o.neg o.qd) ang
  | _ => ang

def f64Ops : AngOps F64 :=
  { abs := F64.abs, gt := F64.gt, signbit := F64.signbit, neg := F64.neg, add := F64.add, sub := F64.sub,
    copysign := F64.copysign, hd := hd, qd := qd }

def atan2dCanon (y x : F64) : F64 × F64 × Nat := atan2dCanonG f64Ops y x
def atan2dWrap (y x : F64) (ang : F64) : F64 := atan2dWrapG f64Ops y x ang

end GeoVerif.MathF
