import GeoVerif.Basic.RealLike
import GeoVerif.Model.MathF
/-!
# Rhumb lines: divided-difference helpers (`DAuxLatitude`), the decision logic of
`Rhumb::GenInverse` and of `RhumbLine::GenPosition`

Part 1 — the divided-difference helpers of `DAuxLatitude.hpp/.cpp`, written once over `RealLike`
(same formulas and the same `x == y` / sign / magnitude branches; the `isinf`/`isnan` shelters of
the C++ are not part of the formula model: non-finite arguments are judged by the harness).
Executed in `Float` against the private functions; read at `ℝ` in `Props/C09.lean`.

Part 2 — the wrapper logic around abstract latitude-conversion kernels: `inverseCore`
(polymorphic) and the beyond-the-pole reduction `poleFold` / `positionMu` / `lon2Of`
(generic in the angle type: executed over the exact binary64 model `F64` with
`MathF.angNormalize`, read at `ℝ` with an arbitrary normaliser satisfying the AngNormalize contract).
Core Lean only.
-/
namespace GeoVerif.Rhumb
open GeoVerif GeoVerif.RealLike
open GeoVerif.RealLike.Lits

section Formulas
variable {α : Type} [RealLike α]

/-- `AuxLatitude::sc`: `sqrt(1 + t²)` as `hypot(1, t)` -/
def sc (x : α) : α := RealLike.hypot (1 : α) x
/-- `AuxLatitude::sn`: `t / sqrt(1 + t²)` -/
def sn (x : α) : α := x / sc x
/-- `DAuxLatitude::h`: `h(tan x) = tan x · sin x / 2` -/
def hfun (x : α) : α := x * sn x / 2

/-- `DAuxLatitude::Dsn(x, y)` = `(sn y − sn x)/(y − x)` -/
def Dsn (x y : α) : α :=
  let sc1 := sc x
  if RealLike.eqb x y then 1 / (sc1 * (1 + x * x)) else
  let sc2 := sc y; let sn1 := sn x; let sn2 := sn y
  if RealLike.ltb 0 (x * y) then (sn1 / sc2 + sn2 / sc1) / ((sn1 + sn2) * sc1 * sc2)
  else (sn2 - sn1) / (y - x)

/-- `DAuxLatitude::Datan(x, y)` = `(atan y − atan x)/(y − x)` -/
def Datan (x y : α) : α :=
  let d := y - x; let xy := x * y
  if RealLike.eqb x y then 1 / (1 + xy) else
  (if RealLike.ltb (-1) (2 * xy) then RealLike.atan (d / (1 + xy)) else RealLike.atan y - RealLike.atan x) / d

/-- `DAuxLatitude::Dasinh(x, y)` = `(asinh y − asinh x)/(y − x)` -/
def Dasinh (x y : α) : α :=
  let d := y - x; let xy := x * y; let hx := sc x; let hy := sc y
  if RealLike.eqb x y then 1 / hx else
  (if RealLike.ltb 0 xy then
      RealLike.asinh (d * (if RealLike.ltb (x * y) 1 then (x + y) / (x * hy + y * hx) else (1 / x + 1 / y) / (hy / y + hx / x)))
    else RealLike.asinh y - RealLike.asinh x) / d

/-- `DAuxLatitude::Dh(x, y)` = `(h y − h x)/(y − x)` -/
def Dh (x y : α) : α :=
  let sx := sn x; let sy := sn y; let d := sx * x + sy * y
  if RealLike.eqb (d / 2) 0 then (x + y) / 2 else
  if RealLike.leb (x * y) 0 then (hfun y - hfun x) / (y - x) else
  let scx := sc x; let scy := sc y
  ((x + y) / (2 * d)) * (sq (sx * sy) + sq (sy / scx) + sq (sx / scy))

/-- `DAuxLatitude::Dlam(x, y)`: divided difference of `lam = asinh(tan χ)` with respect to `χ`, in terms of `tan χ` -/
def Dlam (x y : α) : α := if RealLike.eqb x y then sc x else Dasinh x y / Datan x y

/-- `DAuxLatitude::Dp0Dpsi(x, y)`: divided difference of `p0 = asinh(h(tan χ))` with respect to `ψ = asinh(tan χ)` -/
def Dp0Dpsi (x y : α) : α :=
  if RealLike.eqb x y then sn x else Dasinh (hfun x) (hfun y) * Dh x y / Dasinh x y

/-- `DAuxLatitude::Dsin(x, y)` = `(sin x − sin y)/(x − y)` -/
def Dsin (x y : α) : α :=
  let d := (x - y) / 2
  RealLike.cos ((x + y) / 2) * (if RealLike.eqb d 0 then 1 else RealLike.sin d / d)

/-- `DAuxLatitude::DParametric` in terms of `tx = tan φ₁`, `ty = tan φ₂`, `fm1 = 1 − f`, `e2m1 = (1 − f)²` -/
def DParametric (fm1 e2m1 tx ty : α) : α :=
  if !(RealLike.leb 0 (tx * ty)) then
    (RealLike.atan (fm1 * ty) - RealLike.atan (fm1 * tx)) / (RealLike.atan ty - RealLike.atan tx)
  else if RealLike.eqb tx ty then
    let t := tx * tx
    if RealLike.leb t 1 then fm1 * (1 + t) / (1 + e2m1 * t)
    else let t := 1 / t; fm1 * (1 + t) / (e2m1 + t)
  else if RealLike.leb (tx * ty) 1 then
    RealLike.atan2 (fm1 * (ty - tx)) (1 + e2m1 * tx * ty) / RealLike.atan2 (ty - tx) (1 + tx * ty)
  else
    let tx := 1 / tx; let ty := 1 / ty
    -- reciprocals of distinct tangents can coincide: the confluent value (fix 6ffdf79)
    if RealLike.eqb tx ty then fm1 * (1 + tx * tx) / (e2m1 + tx * tx)
    else RealLike.atan2 (fm1 * (ty - tx)) (e2m1 + tx * ty) / RealLike.atan2 (ty - tx) (1 + tx * ty)

/-- `DAuxLatitude::Datanhee` (`e = √|e²|`, `e1 = √|e'²|`) -/
def Datanhee (f e e1 fm1 x y : α) : α :=
  if RealLike.ltb f 0 then Datan (e * sn x) (e * sn y) * Dsn x y
  else Dasinh (e1 * sn (fm1 * x)) (e1 * sn (fm1 * y)) * Dsn (fm1 * x) (fm1 * y)

/-- `DAuxLatitude::DIsometric` (finite tangents) -/
def DIsometric (f e2 e e1 fm1 tx ty : α) : α :=
  (Dasinh tx ty - e2 * Datanhee f e e1 fm1 tx ty) / Datan tx ty

/-! ### `DClenshaw`: the 2×2 matrix Clenshaw recurrence for sums and divided differences -/

/-- one backward step of the loop: state `((u0a, u0b), (u1a, u1b))` -/
def dclenStep (Xa Xb D2 c : α) (st : (α × α) × (α × α)) : (α × α) × (α × α) :=
  ((Xa * st.1.1 + D2 * Xb * st.1.2 - st.2.1 + c, Xb * st.1.1 + Xa * st.1.2 - st.2.2), st.1)

/-- the whole loop over `c[K-1] … c[0]` (list = `[c₀, …, c_{K−1}]`) -/
def dclen (Xa Xb D2 : α) : List α → (α × α) × (α × α)
  | [] => ((0, 0), (0, 0))
  | c :: cs => dclenStep Xa Xb D2 c (dclen Xa Xb D2 cs)

/-- `sin(ζ₂ − ζ₁)/Δ` as the code forms it -/
def szetamd (Delta s1 c1 s2 c2 : α) : α :=
  if RealLike.eqb Delta 1 then s2 * c1 - c2 * s1
  else if RealLike.eqb Delta 0 then 1 else RealLike.sin Delta / Delta

/-- `DAuxLatitude::DClenshaw(sinp, Delta, szeta1, czeta1, szeta2, czeta2, c, K)` -/
def DClenshaw (sinp : Bool) (Delta s1 c1 s2 c2 : α) (cs : List α) : α :=
  let D2 := Delta * Delta
  let czp := c2 * c1 - s2 * s1
  let szp := s2 * c1 + c2 * s1
  let czm := c2 * c1 + s2 * s1
  let smd := szetamd Delta s1 c1 s2 c2
  let Xa := 2 * czp * czm
  let Xb := -(2 * szp * smd)
  let st := dclen Xa Xb D2 cs
  let F0a := (if sinp then szp else czp) * czm
  let F0b := (if sinp then czp else -szp) * smd
  let Fm1a : α := if sinp then 0 else 1
  2 * (F0a * st.1.2 + F0b * st.1.1 - Fm1a * st.2.2)

/-- the plain Clenshaw recurrence `u_k = X u_{k+1} − u_{k+2} + c_k`, returning `(u₀, u₁)` (as `AuxLatitude::Clenshaw`) -/
def clen (X : α) : List α → α × α
  | [] => (0, 0)
  | c :: cs => let p := clen X cs; (X * p.1 - p.2 + c, p.1)

/-- `AuxLatitude::Clenshaw(sinp, szeta, czeta, c, K)`: `Σ c_k sin((2k+2)ζ)` resp. `Σ c_k cos((2k+2)ζ)` -/
def clenshaw (sinp : Bool) (s c : α) (cs : List α) : α :=
  let X := 2 * (c - s) * (c + s)
  let p := clen X cs
  if sinp then 2 * s * c * p.1 else X * p.1 / 2 - p.2

/-! ### `Rhumb::GenInverse` around its kernels -/

/-- kernel values supplied by the auxiliary-latitude code -/
structure InvKernels (α : Type) where
  psi1 : α
  psi2 : α
  dmudpsi : α
  mudiff : α
  rm : α
  c2 : α
  msx : α

/-- `(s12, azimuth in radians, S12)` from `lon12 = AngDiff(lon1, lon2)` (degrees), `deg = π/180` and the kernels.
    `polar` = "ψ₁ or ψ₂ is infinite". -/
def inverseCore (deg lon12 : α) (K : InvKernels α) (polar : Bool) : α × α × α :=
  let lam12 := lon12 * deg
  let psi12 := K.psi2 - K.psi1
  let azi := RealLike.atan2 lam12 psi12
  let s12 := if polar then K.mudiff * K.rm else RealLike.hypot lam12 psi12 * K.dmudpsi * K.rm
  (s12, azi, K.c2 * lon12 * K.msx)

end Formulas

/-! ### `RhumbLine::GenPosition`: rectifying latitude of point 2, pole test, beyond-the-pole reduction, longitude -/

/-- the few operations the reduction needs, so that it can be run over `F64` and read over `ℝ` -/
structure AngOps (α : Type) where
  sub : α → α → α
  abs : α → α
  gt : α → α → Bool
  qd : α
  hd : α

/-- the code's two-step reduction in the `else` branch (`|mu2| > 90`):
    `mu2 = AngNormalize(mu2); if (fabs(mu2) > 90) mu2 = AngNormalize(180 - mu2);` -/
def poleFold {α : Type} (A : AngOps α) (norm : α → α) (mu2 : α) : α :=
  let m := norm mu2
  if A.gt (A.abs m) A.qd then norm (A.sub A.hd m) else m

/-- the tempting one-step form (without the first normalisation) — refuted in `Props/C09.lean` and by the correspondence -/
def poleFoldOneStep {α : Type} (A : AngOps α) (norm : α → α) (mu2 : α) : α :=
  if A.gt (A.abs mu2) A.qd then norm (A.sub A.hd mu2) else mu2

open GeoVerif.F64 in
def angF64 : AngOps F64 := ⟨F64.sub, F64.abs, F64.gt, MathF.qd, MathF.hd⟩

/-- `Math::degree()` = `pi()/hd` in binary64 -/
def degreeF : F64 := F64.ofBits 0x400921FB54442D18 / MathF.hd

/-- `r12 = s12 / (rm · degree)`, `mu2 = mu1 + r12 · calp` -/
def positionMu (rm mu1 calp s12 : F64) : F64 × F64 :=
  let r12 := s12 / (rm * degreeF)
  (r12, mu1 + r12 * calp)

/-- which branch `GenPosition` takes and the rectifying latitude handed to the μ→φ kernel:
    `(false, mu2)` regular, `(true, folded mu2)` beyond a pole (then `lon2 = S12 = NaN`) -/
def positionBranch (mu2 : F64) : Bool × F64 :=
  if F64.le (F64.abs mu2) MathF.qd then (false, mu2) else (true, poleFold angF64 MathF.angNormalize mu2)

/-- longitude of point 2 from `lon2x = r12 · salp / dmudpsi` -/
def lon2Of (unroll : Bool) (lon1 lon2x : F64) : F64 :=
  if unroll then lon1 + lon2x else MathF.angNormalize (MathF.angNormalize lon1 + lon2x)

end GeoVerif.Rhumb
