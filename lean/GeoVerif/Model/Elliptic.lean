import GeoVerif.Basic.RealLikeX
/-!
# `EllipticFunction` (src/EllipticFunction.cpp, EllipticFunction.hpp) as a polymorphic formula model

Same operations in the same order as the C++ code; read at `Float`/`RE` it is executed against the implementation
(`Corr/C15.lean`, running-error sense), read at `ℝ` it is what the theorems of `Props/C15.lean` are about.

* Carlson's symmetric integrals `RF` (three and two arguments), `RC`, `RD`, `RJ`, `RG` (three and two arguments): the
  duplication loops with their termination tests and trip caps (loops are recursion on the trip budget), the final
  series in Horner form;
* `Reset`: the parameters and the complete integrals `_kKc _eEc _dDc _pPic _gGc _hHc` including all special cases;
* `sncndn` (Bulirsch: ascending AGM, descending Landen), `am` (DLMF 22.20(ii), Sala's transformation for `k² < 0`), `Delta`;
* the incomplete integrals `F E D Pi G H (sn, cn, dn)`, their periodic parts `delta*`, the angle interfaces
  `F E D Pi G H (phi)` with the period handling, the bookkeeping of `Ed(ang)`, `Einv` (Newton) and `deltaEinv`.

Not modelled: the `signbit(_kp2)` branch of `sncndn` (`Reset` rejects `kp2 < 0`, and `-0` takes the `_kp2 == 0` branch).
`GEOGRAPHICLIB_PANIC` (convergence failure after `num_` stages) is `none`.  Core Lean only.
-/
namespace GeoVerif.Elliptic
open GeoVerif GeoVerif.RealLike GeoVerif.RealX
open GeoVerif.RealLike.Lits

variable {α : Type} [RealX α]

/-! ### tolerances -/

/-- `pow(3 * epsilon * real(0.01), 1/real(8))` (the eighth root as three square roots) -/
def tolRF : α := RealLike.sqrt (RealLike.sqrt (RealLike.sqrt ((3 : α) * eps * RealLike.ofDec 1 2)))
/-- `pow(real(0.2) * (epsilon * real(0.01)), 1/real(8))` -/
def tolRD : α := RealLike.sqrt (RealLike.sqrt (RealLike.sqrt (RealLike.ofDec 2 1 * (eps * RealLike.ofDec 1 2))))
/-- `real(2.7) * sqrt(epsilon * real(0.01))` -/
def tolRG0 : α := RealLike.ofDec 27 1 * RealLike.sqrt (eps * RealLike.ofDec 1 2)
/-- `sqrt(epsilon * real(0.01))` (in `sncndn` and `Einv`) -/
def tolJAC : α := RealLike.sqrt (eps * RealLike.ofDec 1 2)
/-- `pow(epsilon, real(0.75))` (in `am`): `ε^(1/2) · ε^(1/4)` -/
def tolJACam : α := RealLike.sqrt (eps : α) * RealLike.sqrt (RealLike.sqrt (eps : α))
/-- the cap of the duplication / AGM loops -/
def trips : Nat := 64
/-- `num_` -/
def num : Nat := 25

def max3 (a b c : α) : α := RealLike.max (RealLike.max a b) c

/-! ### `RF(x, y, z)` -/

structure Dup (α : Type) where
  An : α
  x0 : α
  y0 : α
  z0 : α
  mul : α

/-- `λ = √x√y + √y√z + √z√x` -/
def lam (x y z : α) : α :=
  RealLike.sqrt x * RealLike.sqrt y + RealLike.sqrt y * RealLike.sqrt z + RealLike.sqrt z * RealLike.sqrt x

/-- one trip of the loop of `RF` -/
def rfStep (s : Dup α) : Dup α :=
  let l := lam s.x0 s.y0 s.z0
  ⟨(s.An + l) / 4, (s.x0 + l) / 4, (s.y0 + l) / 4, (s.z0 + l) / 4, s.mul * 4⟩

/-- `for (trip = 0; trip < n && Q >= mul * fabs(An); ++trip)` -/
def rfLoop (Q : α) : Nat → Dup α → Dup α
  | 0, s => s
  | n + 1, s => if leb (s.mul * RealLike.abs s.An) Q then rfLoop Q n (rfStep s) else s

/-- numerator of the series of `RF` in Horner form (DLMF 19.36.1 × 240240) -/
def rfTail (E2 E3 : α) : α :=
  E3 * ((6930 : α) * E3 + E2 * ((15015 : α) * E2 - (16380 : α)) + (17160 : α)) +
    E2 * (((10010 : α) - (5775 : α) * E2) * E2 - (24024 : α)) + (240240 : α)

def rfQ (x y z : α) : α :=
  let A0 := (x + y + z) / 3
  max3 (RealLike.abs (A0 - x)) (RealLike.abs (A0 - y)) (RealLike.abs (A0 - z)) / tolRF

/-- the state of `RF` after its loop -/
def rfRun (x y z : α) : Dup α :=
  let A0 := (x + y + z) / 3
  rfLoop (rfQ x y z) trips ⟨A0, x, y, z, 1⟩

def rf3 (x y z : α) : α :=
  let A0 := (x + y + z) / 3
  let s := rfRun x y z
  let X := (A0 - x) / (s.mul * s.An)
  let Y := (A0 - y) / (s.mul * s.An)
  let Z := -(X + Y)
  let E2 := X * Y - Z * Z
  let E3 := X * Y * Z
  rfTail E2 E3 / ((240240 : α) * RealLike.sqrt s.An)

/-! ### the AGM forms `RF(x, y)` and `RG(x, y)` -/

/-- `while (trip < n && fabs(xn - yn) > tolRG0 * xn) { t = (xn + yn)/2; yn = sqrt(xn * yn); xn = t; }` -/
def agmLoop : Nat → α → α → α × α
  | 0, xn, yn => (xn, yn)
  | n + 1, xn, yn =>
    if ltb (tolRG0 * xn) (RealLike.abs (xn - yn)) then agmLoop n ((xn + yn) / 2) (RealLike.sqrt (xn * yn)) else (xn, yn)

def rf2 (x y : α) : α :=
  let xn := RealLike.sqrt x
  let yn := RealLike.sqrt y
  let (xn, yn) := if ltb xn yn then (yn, xn) else (xn, yn)
  let (xn, yn) := agmLoop trips xn yn
  RealLike.pi / (xn + yn)

/-- the loop of `RG(x, y)`: `(xn, yn, s, mul)` -/
def rg2Loop : Nat → α → α → α → α → α × α × α × α
  | 0, xn, yn, s, mul => (xn, yn, s, mul)
  | n + 1, xn, yn, s, mul =>
    if ltb (tolRG0 * xn) (RealLike.abs (xn - yn)) then
      let t := (xn + yn) / 2
      let yn1 := RealLike.sqrt (xn * yn)
      let mul1 := mul * 2
      let t2 := t - yn1
      rg2Loop n t yn1 (s + mul1 * t2 * t2) mul1
    else (xn, yn, s, mul)

def rg2 (x y : α) : α :=
  let x0 := RealLike.sqrt (if ltb x y then y else x)
  let y0 := RealLike.sqrt (if ltb x y then x else y)
  let (xn, yn, s, _) := rg2Loop trips x0 y0 0 (RealLike.ofDec 25 2)
  (sq ((x0 + y0) / 2) - s) * RealLike.pi / ((2 : α) * (xn + yn))

/-! ### `RC(x, y)` -/

def rc (x y : α) : α :=
  if !(leb y x) then RealLike.atan (RealLike.sqrt ((y - x) / x)) / RealLike.sqrt (y - x)
  else if eqb x y then (1 : α) / RealLike.sqrt y
  else RealLike.asinh (if ltb 0 y then RealLike.sqrt ((x - y) / y) else RealLike.sqrt (-x / y)) / RealLike.sqrt (x - y)

/-! ### `RD(x, y, z)` -/

/-- numerator of the series of `RD` and `RJ` in Horner form (DLMF 19.36.2 × 4084080) -/
def rjTail (E2 E3 E4 E5 : α) : α :=
  ((471240 : α) - (540540 : α) * E2) * E5 +
    ((612612 : α) * E2 - (540540 : α) * E3 - (556920 : α)) * E4 +
    E3 * ((306306 : α) * E3 + E2 * ((675675 : α) * E2 - (706860 : α)) + (680680 : α)) +
    E2 * (((417690 : α) - (255255 : α) * E2) * E2 - (875160 : α)) + (4084080 : α)

/-- one trip of the loop of `RD`: the state and the accumulated sum -/
def rdStep (s : Dup α) (sm : α) : Dup α × α :=
  let l := lam s.x0 s.y0 s.z0
  let sm1 := sm + (1 : α) / (s.mul * RealLike.sqrt s.z0 * (s.z0 + l))
  (⟨(s.An + l) / 4, (s.x0 + l) / 4, (s.y0 + l) / 4, (s.z0 + l) / 4, s.mul * 4⟩, sm1)

def rdLoop (Q : α) : Nat → Dup α → α → Dup α × α
  | 0, s, sm => (s, sm)
  | n + 1, s, sm => if leb (s.mul * RealLike.abs s.An) Q then let r := rdStep s sm; rdLoop Q n r.1 r.2 else (s, sm)

def rdQ (x y z : α) : α :=
  let A0 := (x + y + (3 : α) * z) / 5
  max3 (RealLike.abs (A0 - x)) (RealLike.abs (A0 - y)) (RealLike.abs (A0 - z)) / tolRD

def rdRun (x y z : α) : Dup α × α :=
  let A0 := (x + y + (3 : α) * z) / 5
  rdLoop (rdQ x y z) trips ⟨A0, x, y, z, 1⟩ 0

/-- `E2 … E5` of `RD` from the deviations `X`, `Y` (`Z = −(X+Y)/3` is the triple one) -/
def rdE (X Y : α) : α × α × α × α :=
  let Z := -(X + Y) / 3
  (X * Y - (6 : α) * Z * Z, ((3 : α) * X * Y - (8 : α) * Z * Z) * Z, (3 : α) * (X * Y - Z * Z) * Z * Z, X * Y * Z * Z * Z)

def rd (x y z : α) : α :=
  let A0 := (x + y + (3 : α) * z) / 5
  let r := rdRun x y z
  let s := r.1
  let X := (A0 - x) / (s.mul * s.An)
  let Y := (A0 - y) / (s.mul * s.An)
  let (E2, E3, E4, E5) := rdE X Y
  rjTail E2 E3 E4 E5 / ((4084080 : α) * s.mul * s.An * RealLike.sqrt s.An) + (3 : α) * r.2

/-! ### `RJ(x, y, z, p)` -/

structure DupJ (α : Type) where
  An : α
  x0 : α
  y0 : α
  z0 : α
  p0 : α
  mul : α
  mul3 : α
  s : α

def rjStep (delta : α) (s : DupJ α) : DupJ α :=
  let l := lam s.x0 s.y0 s.z0
  let sp := RealLike.sqrt s.p0
  let d0 := (sp + RealLike.sqrt s.x0) * (sp + RealLike.sqrt s.y0) * (sp + RealLike.sqrt s.z0)
  let e0 := delta / (s.mul3 * sq d0)
  ⟨(s.An + l) / 4, (s.x0 + l) / 4, (s.y0 + l) / 4, (s.z0 + l) / 4, (s.p0 + l) / 4, s.mul * 4, s.mul3 * 64,
   s.s + rc 1 ((1 : α) + e0) / (s.mul * d0)⟩

def rjLoop (Q delta : α) : Nat → DupJ α → DupJ α
  | 0, s => s
  | n + 1, s => if leb (s.mul * RealLike.abs s.An) Q then rjLoop Q delta n (rjStep delta s) else s

def rjQ (x y z p : α) : α :=
  let A0 := (x + y + z + (2 : α) * p) / 5
  RealLike.max (RealLike.max (RealLike.abs (A0 - x)) (RealLike.abs (A0 - y)))
    (RealLike.max (RealLike.abs (A0 - z)) (RealLike.abs (A0 - p))) / tolRD

def rjRun (x y z p : α) : DupJ α :=
  let A0 := (x + y + z + (2 : α) * p) / 5
  let delta := (p - x) * (p - y) * (p - z)
  rjLoop (rjQ x y z p) delta trips ⟨A0, x, y, z, p, 1, 1, 0⟩

/-- `E2 … E5` of `RJ` from the deviations `X`, `Y`, `Z` (`P = −(X+Y+Z)/2` is the double one) -/
def rjE (X Y Z : α) : α × α × α × α :=
  let P := -(X + Y + Z) / 2
  let E2 := X * Y + X * Z + Y * Z - (3 : α) * P * P
  (E2, X * Y * Z + (2 : α) * P * (E2 + (2 : α) * P * P), ((2 : α) * X * Y * Z + P * (E2 + (3 : α) * P * P)) * P, X * Y * Z * P * P)

def rj (x y z p : α) : α :=
  let A0 := (x + y + z + (2 : α) * p) / 5
  let s := rjRun x y z p
  let X := (A0 - x) / (s.mul * s.An)
  let Y := (A0 - y) / (s.mul * s.An)
  let Z := (A0 - z) / (s.mul * s.An)
  let (E2, E3, E4, E5) := rjE X Y Z
  rjTail E2 E3 E4 E5 / ((4084080 : α) * s.mul * s.An * RealLike.sqrt s.An) + (6 : α) * s.s

/-! ### `RG(x, y, z)` -/

/-- the permutation that makes `z` the median argument -/
def rgPerm (x y z : α) : α × α × α :=
  if ltb 0 ((x - z) * (y - z)) then
    if leb ((y - x) * (z - x)) 0 then (z, y, x) else (x, z, y)
  else (x, y, z)

def rg3 (x y z : α) : α :=
  if eqb x 0 then rg2 y z
  else if eqb y 0 then rg2 z x
  else if eqb z 0 then rg2 x y
  else
    let (x, y, z) := rgPerm x y z
    (z * rf3 x y z - (x - z) * (y - z) * rd x y z / 3 + RealLike.sqrt (x * y / z)) / 2

/-! ### `Reset` -/

structure Par (α : Type) where
  k2 : α
  kp2 : α
  alpha2 : α
  alphap2 : α
  eps : α
  kKc : α
  eEc : α
  dDc : α
  pPic : α
  gGc : α
  hHc : α

/-- `Reset(k2, alpha2, kp2, alphap2)`; `none` = `GeographicErr` -/
def reset (k2 alpha2 kp2 alphap2 : α) : Option (Par α) :=
  if ltb 1 k2 || ltb 1 alpha2 || ltb kp2 0 || ltb alphap2 0 then none else
  let epsv := k2 / sq (RealLike.sqrt kp2 + 1)
  let kz := eqb kp2 0
  let (kKc, eEc, dDc) : α × α × α :=
    if !(eqb k2 0) then
      (if !kz then rf2 kp2 1 else infinity,
       if !kz then (2 : α) * rg2 kp2 1 else 1,
       if !kz then rd 0 kp2 1 / 3 else infinity)
    else
      let h : α := RealLike.pi / 2
      (h, h, h / 2)
  let (pPic, gGc, hHc) : α × α × α :=
    if !(eqb alpha2 0) then
      let az := eqb alphap2 0
      let rjv : α := if !kz && !az then rj 0 kp2 1 alphap2 else infinity
      let rcv : α := if !kz then 0 else if !az then rc 1 alphap2 else infinity
      (if !kz then kKc + alpha2 * rjv / 3 else infinity,
       if !kz then kKc + (alpha2 - k2) * rjv / 3 else rcv,
       if !kz then kKc - (if !az then alphap2 * rjv else 0) / 3 else rcv)
    else
      (kKc, eEc,
       if eqb kp2 1 then RealLike.pi / 4 else if kz then 1 else kp2 * rd 0 1 kp2 / 3)
  some ⟨k2, kp2, alpha2, alphap2, epsv, kKc, eEc, dDc, pPic, gGc, hHc⟩

/-- `Reset(k2, alpha2)` -/
def reset2 (k2 alpha2 : α) : Option (Par α) := reset k2 alpha2 ((1 : α) - k2) ((1 : α) - alpha2)

/-- `KE()` -/
def kE (e : Par α) : α := e.k2 * e.dDc

/-- `Delta(sn, cn)` -/
def delta (e : Par α) (sn cn : α) : α :=
  RealLike.sqrt (if ltb e.k2 0 then (1 : α) - e.k2 * sn * sn else e.kp2 + e.k2 * cn * cn)

/-! ### `sncndn` -/

/-- the ascending AGM loop: the stack of `(m[l], n[l])` (innermost first) and `c`; `none` = panic after `num_` stages -/
def agmAsc : Nat → α → α → List (α × α) → Option (List (α × α) × α)
  | 0, _, _, _ => none
  | n + 1, a, mc, st =>
    let mc1 := RealLike.sqrt mc
    let c := (a + mc1) / 2
    let st1 := (a, mc1) :: st
    if !(ltb (tolJAC * a) (RealLike.abs (a - mc1))) then some (st1, c)
    else agmAsc n c (mc1 * a) st1

/-- the descending Landen loop `while (l--) { b = m[l]; a *= c; c *= dn; dn = (n[l] + a)/(b + a); a = c/b; }`: returns `(c, dn)` -/
def landenDesc : List (α × α) → α → α → α → α × α
  | [], _, c, dn => (c, dn)
  | (b, n) :: rest, a, c, dn =>
    let a1 := a * c
    let c1 := c * dn
    landenDesc rest (c1 / b) c1 ((n + a1) / (b + a1))

/-- `sncndn(x)`: `(sn, cn, dn)` -/
def sncndn (e : Par α) (x : α) : Option (α × α × α) :=
  if !(eqb e.kp2 0) then
    match agmAsc num 1 e.kp2 [] with
    | none => none
    | some (st, c) =>
      let x1 := x * c
      let sn := RealLike.sin x1
      let cn := RealLike.cos x1
      if !(eqb sn 0) then
        let a := cn / sn
        let (c1, dn) := landenDesc st a (c * a) 1
        let a1 := (1 : α) / RealLike.sqrt (c1 * c1 + 1)
        let sn1 := if signNeg sn then -a1 else a1
        some (sn1, c1 * sn1, dn)
      else some (sn, cn, 1)
  else
    let c := (1 : α) / RealX.cosh x
    some (RealX.tanh x, c, c)

/-! ### `am` -/

/-- ascending loop of `am`: the stack of `(a[l], c[l])` for `l = L … 1` (top = `l = L`), given `a[l-1]`, `b`; `none` = panic -/
def amAsc : Nat → α → α → List (α × α) → Option (List (α × α))
  | 0, _, _, _ => none
  | n + 1, aprev, b, st =>
    let al := (aprev + b) / 2
    let cl := (aprev - b) / 2
    let st1 := (al, cl) :: st
    if !(ltb (tolJACam * al) cl) then some st1
    else amAsc n al (RealLike.sqrt (aprev * b)) st1

/-- descending loop: `phi1 = phi; phi = (phi + asin(c[l] sin(phi) / a[l]))/2`; returns `(phi, phi1)` -/
def amDesc : List (α × α) → α → α → α × α
  | [], phi, phi1 => (phi, phi1)
  | (al, cl) :: rest, phi, _ => amDesc rest ((phi + RealX.asin (cl * RealLike.sin phi / al)) / 2) phi

def am (e : Par α) (x : α) : Option α :=
  if eqb e.k2 0 then some x
  else if eqb e.kp2 0 then some (RealLike.atan (RealLike.sinh x))
  else
    let neg := ltb e.k2 0
    -- (the transformed `k2 = -_k2/_kp2` only enters `c[0]`, which is never read)
    let kp2 := if neg then (1 : α) / e.kp2 else e.kp2
    let x1 := if neg then x * RealLike.sqrt e.kp2 else x
    -- the loop starts at l = 1 and panics when l reaches num_
    match amAsc (num - 1) 1 (RealLike.sqrt kp2) [] with
    | none => none
    | some st =>
      let aL := (st.headD (1, 0)).1
      let phi0 := aL * x1 * RealLike.ofNat (2 ^ st.length)
      let (phi, phi1) := amDesc st phi0 0
      some (if neg then phi1 - phi else phi)

/-- `am(x, sn, cn, dn)`: `(phi, sn, cn, dn)` -/
def amFull (e : Par α) (x : α) : Option (α × α × α × α) :=
  match am e x with
  | none => none
  | some phi =>
    if eqb e.kp2 0 then
      let c := (1 : α) / RealX.cosh x
      some (phi, RealX.tanh x, c, c)
    else
      let sn := RealLike.sin phi
      let cn := RealLike.cos phi
      some (phi, sn, cn, delta e sn cn)

/-! ### incomplete integrals in terms of `(sn, cn, dn)` -/

/-- the common frame "`cn2 != 0 ? core : complete`; `2·complete − ·` in the second quadrant; sign of `sn`" -/
def wrap (comp core : α) (sn cn : α) : α :=
  let fi := if !(eqb (cn * cn) 0) then core else comp
  let fi := if signNeg cn then (2 : α) * comp - fi else fi
  copysign fi sn

def coreF (_e : Par α) (sn cn dn : α) : α := RealLike.abs sn * rf3 (cn * cn) (dn * dn) 1

def coreE (e : Par α) (sn cn dn : α) : α :=
  let cn2 := cn * cn
  let dn2 := dn * dn
  let sn2 := sn * sn
  RealLike.abs sn *
    (if leb e.k2 0 then rf3 cn2 dn2 1 - e.k2 * sn2 * rd cn2 dn2 1 / 3
     else if leb 0 e.kp2 then
       e.kp2 * rf3 cn2 dn2 1 + e.k2 * e.kp2 * sn2 * rd cn2 1 dn2 / 3 + e.k2 * RealLike.abs cn / dn
     else -e.kp2 * sn2 * rd dn2 1 cn2 / 3 + dn / RealLike.abs cn)

def coreD (_e : Par α) (sn cn dn : α) : α := RealLike.abs sn * (sn * sn) * rd (cn * cn) (dn * dn) 1 / 3

def corePi (e : Par α) (sn cn dn : α) : α :=
  let cn2 := cn * cn
  let dn2 := dn * dn
  let sn2 := sn * sn
  RealLike.abs sn * (rf3 cn2 dn2 1 + e.alpha2 * sn2 * rj cn2 dn2 1 (cn2 + e.alphap2 * sn2) / 3)

def coreG (e : Par α) (sn cn dn : α) : α :=
  let cn2 := cn * cn
  let dn2 := dn * dn
  let sn2 := sn * sn
  RealLike.abs sn * (rf3 cn2 dn2 1 + (e.alpha2 - e.k2) * sn2 * rj cn2 dn2 1 (cn2 + e.alphap2 * sn2) / 3)

def coreH (e : Par α) (sn cn dn : α) : α :=
  let cn2 := cn * cn
  let dn2 := dn * dn
  let sn2 := sn * sn
  RealLike.abs sn * (rf3 cn2 dn2 1 - e.alphap2 * sn2 * rj cn2 dn2 1 (cn2 + e.alphap2 * sn2) / 3)

/-- the six kinds, in the order `F E D Pi G H` -/
inductive Kind | F | E | D | Pi | G | H
deriving DecidableEq, Repr

def Kind.all : List Kind := [.F, .E, .D, .Pi, .G, .H]

/-- the cached complete integral of a kind -/
def comp (e : Par α) : Kind → α
  | .F => e.kKc | .E => e.eEc | .D => e.dDc | .Pi => e.pPic | .G => e.gGc | .H => e.hHc

/-- the first-quadrant Carlson expression of a kind -/
def core (e : Par α) : Kind → α → α → α → α
  | .F => coreF e | .E => coreE e | .D => coreD e | .Pi => corePi e | .G => coreG e | .H => coreH e

/-- `F(sn, cn, dn)`, `E(sn, cn, dn)`, … -/
def inc (e : Par α) (k : Kind) (sn cn dn : α) : α := wrap (comp e k) (core e k sn cn dn) sn cn

/-- the frame of `deltaF … deltaH` around an arbitrary `X(sn, cn, dn)` with complete value `c` -/
def deltaWith (X : α → α → α → α) (c : α) (sn cn dn : α) : α :=
  let fl := signNeg cn
  let cn1 := if fl then -cn else cn
  let sn1 := if fl then -sn else sn
  X sn1 cn1 dn * (RealLike.pi / 2) / c - RealLike.atan2 sn1 cn1

/-- `deltaF(sn, cn, dn)`, … -/
def deltaInc (e : Par α) (k : Kind) (sn cn dn : α) : α := deltaWith (inc e k) (comp e k) sn cn dn

/-- the frame of `E(phi)`, `D(phi)`, `Pi(phi)`, `G(phi)`, `H(phi)` around an arbitrary `X(sn, cn, dn)` with complete value `c` -/
def phiWith (e : Par α) (X : α → α → α → α) (c : α) (phi : α) : α :=
  let sn := RealLike.sin phi
  let cn := RealLike.cos phi
  let dn := delta e sn cn
  if ltb (RealLike.abs phi) RealLike.pi then X sn cn dn
  else (deltaWith X c sn cn dn + phi) * c / (RealLike.pi / 2)

/-- `F(phi)`, `E(phi)`, `D(phi)`, `Pi(phi)`, `G(phi)`, `H(phi)` -/
def incPhi (e : Par α) (k : Kind) (phi : α) : α :=
  match k with
  | .F =>
    if eqb e.k2 0 then phi
    else if eqb e.kp2 0 then RealLike.asinh (RealX.tan phi)
    else phiWith e (inc e .F) e.kKc phi
  | .E => if eqb e.k2 0 then phi else phiWith e (inc e .E) e.eEc phi
  | k => phiWith e (inc e k) (comp e k) phi

/-- `Ed(ang)` given the turn count `n = round((ang − AngNormalize(ang))/360)` and `(sn, cn) = sincosd(ang)` -/
def edWith (e : Par α) (n sn cn : α) : α := inc e .E sn cn (delta e sn cn) + (4 : α) * e.eEc * n

/-! ### `Einv`, `deltaEinv` -/

/-- the Newton loop of `Einv`: `none` = panic after `num_` iterations -/
def einvLoop (e : Par α) (x : α) : Nat → α → Option α
  | 0, _ => none
  | n + 1, phi =>
    let sn := RealLike.sin phi
    let cn := RealLike.cos phi
    let dn := delta e sn cn
    let err := (inc e .E sn cn dn - x) / dn
    let phi1 := phi - err
    -- (relative to the angle for small angles — /repo 84b53d7; `phi` is already the corrected value here)
    if !(ltb (tolJAC * RealLike.min 1 (RealLike.abs phi1)) (RealLike.abs err)) then some phi1 else einvLoop e x n phi1

/-- the reduction of `Einv`: `n = floor(x/(2E) + 0.5)` and `x − 2E·n` -/
def einvReduce (e : Par α) (x : α) : α × α :=
  let n := RealX.floor (x / ((2 : α) * e.eEc) + RealLike.ofDec 5 1)
  (n, x - (2 : α) * e.eEc * n)

/-- the starting value of the Newton iteration -/
def einvStart (e : Par α) (xr : α) : α :=
  let phi := RealLike.pi * xr / ((2 : α) * e.eEc)
  phi - e.eps * RealLike.sin ((2 : α) * phi) / 2

def einv (e : Par α) (x : α) : Option α :=
  let (n, xr) := einvReduce e x
  match einvLoop e xr num (einvStart e xr) with
  | none => none
  | some phi => some (n * RealLike.pi + phi)

def deltaEinv (e : Par α) (stau ctau : α) : Option α :=
  let fl := signNeg ctau
  let ct := if fl then -ctau else ctau
  let st := if fl then -stau else stau
  let tau := RealLike.atan2 st ct
  match einv e (tau * e.eEc / (RealLike.pi / 2)) with
  | none => none
  | some v => some (v - tau)

end GeoVerif.Elliptic
