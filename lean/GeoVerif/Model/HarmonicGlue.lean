import GeoVerif.Model.Harmonic
/-!
# The glue around the harmonic sums (formula / bookkeeping models, core Lean only)

* `epochSel`, `epochSplit`, `fieldCombine`, `fieldOfTime`, `circleField`: **one** definition of the epoch selection
  `n = clamp(⌊(t − t₀)/Δ⌋, 0, N − 1)`, `t₁ = (t − t₀) − n·Δ`, `interpolate = (n + 1 < N)` and of the linear combination of the
  per-epoch fields, against which both implementation copies (`MagneticModel::FieldGeocentric`, and `MagneticModel::Circle` +
  `MagneticCircle::FieldGeocentric`) are checked.  `epochSel` uses comparisons only (no `floor`): the largest `j ≤ N − 1` with `j ≤ s`.
* `fieldComponents`: `MagneticModel::FieldComponents` (H, F, D, I and their rates, with the degenerate branches as coded).
* `zonalTable`: the loop of the `GravityModel` constructor that assembles the normal zonal terms subtracted from the model
  (`_zonal`), for both normalisations, with its early exit.
* `readSel`: what `coeff::readcoeffs` stores (`truncate` false / true) as positions in the file block.
* `gcEffCaps`, `gcEnabled`, `gcBuilt`: the capability bookkeeping of `GravityModel::Circle` / `GravityCircle`.
* `defaultPath`, `defaultName`, `lookupDir`: the directory / name lookup of `GravityModel` and `MagneticModel`.
* `normalV0`, `phiRot`, prolate `flatteningToJ2Prolate`, `j2ResidualProlate`.
-/
namespace GeoVerif.Harmonic
open GeoVerif GeoVerif.RealLike
open GeoVerif.RealLike.Lits

variable {α : Type} [RealLike α]

/-! ## magnetic model: epoch selection (one definition for both implementation copies) -/

/-- the largest `j ≤ jmax` with `j ≤ s`, `0` if there is none (also for `s = NaN`): `clamp(⌊s⌋, 0, jmax)` -/
def epochSel (s : α) : Nat → Nat
  | 0 => 0
  | j + 1 => if RealLike.leb (RealLike.ofNat (j + 1)) s then j + 1 else epochSel s j

structure Epoch (α : Type) where
  n : Nat
  t1 : α
  interp : Bool

/-- `t −= t0; n = clamp(floor(t/dt0), 0, nModels − 1); interpolate = n + 1 < nModels; t −= n·dt0` -/
def epochSplit (t t0 dt0 : α) (nModels : Nat) : Epoch α :=
  let tt := t - t0
  let n := epochSel (tt / dt0) (nModels - 1)
  ⟨n, tt - RealLike.ofNat n * dt0, decide (n + 1 < nModels)⟩

/-- the combination of the two per-epoch values `B0 = harm[n]`, `B1 = harm[n+1]` and the constant term: `(field, rate)` before the final `·(−a)` -/
def fieldCombine (B0 B1 Bc t1 dt0 : α) (interp : Bool) : α × α :=
  let rate := if interp then (B1 - B0) / dt0 else B1
  (B0 + (t1 * rate + Bc), rate)

/-- `MagneticModel::FieldGeocentric` (one Cartesian component, before `·(−a)`) as a function of the time -/
def fieldOfTime (B : Nat → α) (Bc t t0 dt0 : α) (nModels : Nat) : α × α :=
  let e := epochSplit t t0 dt0 nModels
  fieldCombine (B e.n) (B (e.n + 1)) Bc e.t1 dt0 e.interp

/-- `MagneticCircle::FieldGeocentric` on what `MagneticModel::Circle` stored (`_t1`, `_interpolate`) and the values of its circle sums -/
def circleField (E : Epoch α) (K0 K1 Kc dt0 : α) : α × α := fieldCombine K0 K1 Kc E.t1 dt0 E.interp

/-! ## `MagneticModel::FieldComponents` -/

structure Comps (α : Type) where
  H : α
  F : α
  D : α
  I : α
  Ht : α
  Ft : α
  Dt : α
  It : α

/-- `Math::degree()` -/
def degree : α := RealLike.pi / 180

/-- `Math::atan2d(y, x)` up to its exact quadrant handling: the angle of `(x, y)` in degrees -/
def atan2deg (y x : α) : α := RealLike.atan2 y x / degree

def fieldComponents (Bx By Bz Bxt Byt Bzt : α) : Comps α :=
  let zero : α := RealLike.ofNat 0
  let H := RealLike.hypot Bx By
  let hz := RealLike.eqb H zero
  let Ht := if hz then RealLike.hypot Bxt Byt else (Bx * Bxt + By * Byt) / H
  let D := if hz then atan2deg Bxt Byt else atan2deg Bx By
  let Dt := (if hz then zero else (By * Bxt - Bx * Byt) / sq H) / degree
  let F := RealLike.hypot H Bz
  let fz := RealLike.eqb F zero
  let Ft := if fz then RealLike.hypot Ht Bzt else (H * Ht + Bz * Bzt) / F
  let I := if fz then atan2deg (-Bzt) Ht else atan2deg (-Bz) H
  let It := (if fz then zero else (Bz * Ht - H * Bzt) / sq F) / degree
  ⟨H, F, D, I, Ht, Ft, Dt, It⟩

/-! ## `GravityModel`: the normal zonal terms subtracted from the model -/

/-- the divisor that converts `J_n` to the model's normalisation -/
def zonalNorm (full : Bool) (n : Nat) : α := if full then RealLike.sqrt (RealLike.ofNat (2 * n + 1)) else RealLike.ofNat 1

/-- the body of `for (n = 2; n <= nmx; n += 2)`: entries for the degrees `n − 1, n, n + 1, …` (fuel = number of iterations left) -/
def zonalTail (full : Bool) (amult : α) (Jn cC : Nat → α) (nmx : Nat) : Nat → Nat → α → List α
  | 0, _, _ => []
  | fuel + 1, n, mult =>
    if n > nmx then [] else
    let mult' := mult * amult
    let r := cC n
    let s := -(mult' * Jn n) / zonalNorm full n
    if RealLike.eqb (r - s) r then [] else RealLike.ofNat 0 :: s :: zonalTail full amult Jn cC nmx fuel (n + 2) mult'

/-- `_zonal` as assembled by the constructor: `mult = GMref/GMmodel`, `amult = (aref/amodel)²`, `Jn n = _earth.Jn(n)`, `cC n = _cCx[n]` -/
def zonalTable (full : Bool) (mult amult : α) (Jn cC : Nat → α) (nmx : Nat) : List α :=
  RealLike.ofNat 1 :: zonalTail full amult Jn cC nmx (nmx / 2 + 1) 2 mult

/-! ## `coeff::readcoeffs`: what is stored, as positions in the block -/

/-- the positions (0-based, in doubles, within the `C` array of the block) copied into `C`: column by column the first `N + 1 − m` entries of column `m ≤ M` -/
def readSelC (N0 N M : Int) : List Int :=
  (List.range (M + 1).toNat).flatMap fun (m : Nat) => (List.range (N + 1 - (m : Int)).toNat).map fun (l : Nat) => index N0 ((m : Int) + l) m

/-- the same for `S` (columns `1 … M`; positions within the `S` array of the block) -/
def readSelS (N0 N M : Int) : List Int :=
  (List.range M.toNat).flatMap fun (j : Nat) => (List.range (N - (j : Int)).toNat).map fun (l : Nat) => index N0 ((j : Int) + 1 + l) ((j : Int) + 1) - (N0 + 1)

/-- "Bad degree and order": the test applied to the header and, with `truncate`, to the request -/
def validNM (N M : Int) : Bool := (N ≥ M && M ≥ 0) || (N == -1 && M == -1)

/-- degree and order after the call -/
def readDims (truncate : Bool) (Nreq Mreq N0 M0 : Int) : Option (Int × Int) :=
  if truncate && !validNM Nreq Mreq then none
  else if !validNM N0 M0 then none
  else if N0 > 46339 then none
  else some (if truncate then (min Nreq N0, min Mreq M0) else (N0, M0))

/-- number of bytes of a block with header `(N0, M0)` -/
def blockBytes (N0 M0 : Int) : Int := 8 + 8 * (csize N0 M0 + ssize N0 M0)

/-! ## `GravityModel::Circle(lat, h, caps)` / `GravityCircle`: the capability bookkeeping (bit masks as `Nat`) -/

structure CapTable where
  capG : Nat
  capT : Nat
  capDelta : Nat
  capC : Nat
  capGamma0 : Nat
  capGamma : Nat
  gravity : Nat
  disturbance : Nat
  disturbingPotential : Nat
  sphericalAnomaly : Nat
  geoidHeight : Nat
  all : Nat
deriving Repr, DecidableEq

/-- `if (h != 0) caps &= ~(CAP_GAMMA0 | CAP_C)` -/
def gcEffCaps (T : CapTable) (caps : Nat) (hZero : Bool) : Nat :=
  if hZero then caps else caps &&& ((T.capGamma0 ||| T.capC) ^^^ 0xFFFFFFFF)

inductive GcMember where
  | gravity | w | v | disturbance | tGrad | t | sphericalAnomaly | geoidHeight
deriving Repr, DecidableEq

/-- the mask each member tests (`(_caps & X) != X` ⇒ NaN) -/
def gcNeeds (T : CapTable) : GcMember → Nat
  | .gravity | .w | .v => T.gravity
  | .disturbance | .tGrad => T.disturbance
  | .t => T.disturbingPotential
  | .sphericalAnomaly => T.sphericalAnomaly
  | .geoidHeight => T.geoidHeight

def gcEnabled (T : CapTable) (caps : Nat) (m : GcMember) : Bool := caps &&& gcNeeds T m == gcNeeds T m

/-- what `Circle` builds for the effective mask: (gravitational engine with gradient, disturbing engine, its gradient, correction engine, gamma0, gamma) -/
structure GcBuilt where
  grav : Bool
  dist : Bool
  distGrad : Bool
  corr : Bool
  gamma0 : Bool
  gamma : Bool
deriving Repr, DecidableEq

def gcBuilt (T : CapTable) (caps : Nat) : GcBuilt :=
  ⟨caps &&& T.capG != 0, caps &&& T.capT != 0, caps &&& T.capDelta != 0, caps &&& T.capC != 0, caps &&& T.capGamma0 != 0, caps &&& T.capGamma != 0⟩

/-- what a member reads when it is enabled -/
def gcReads (m : GcMember) (b : GcBuilt) : Bool :=
  match m with
  | .gravity | .w | .v => b.grav
  | .disturbance | .tGrad => b.dist && b.distGrad
  | .t => b.dist
  | .sphericalAnomaly => b.dist && b.distGrad && b.gamma
  | .geoidHeight => b.dist && b.corr && b.gamma0

/-- the enum values of `GravityModel.hpp` as documented -/
def capTableDoc : CapTable :=
  { capG := 1, capT := 2, capDelta := 6, capC := 8, capGamma0 := 16, capGamma := 32,
    gravity := 1, disturbance := 6, disturbingPotential := 2, sphericalAnomaly := 38, geoidHeight := 26, all := 63 }

/-! ## directory / name lookup -/

def nonEmpty? (o : Option String) : Option String := o.bind fun s => if s.isEmpty then none else some s

/-- `DefaultGravityPath()` / `DefaultMagneticPath()`: `spec` = the kind's own variable, `data` = `GEOGRAPHICLIB_DATA` -/
def defaultPath (spec data : Option String) (builtin sub : String) : String :=
  match nonEmpty? spec with
  | some p => p
  | none => (match nonEmpty? data with | some d => d | none => builtin) ++ "/" ++ sub

def defaultName (env : Option String) (builtin : String) : String := (nonEmpty? env).getD builtin

/-- the directory the constructor reads from -/
def lookupDir (explicit : String) (spec data : Option String) (builtin sub : String) : String :=
  if explicit.isEmpty then defaultPath spec data builtin sub else explicit

/-! ## normal gravity: `U = V0 + Phi`; prolate `FlatteningToJ2` / `J2ToFlattening` -/

/-- `NormalGravity::Phi(X, Y)` -/
def phiRot (omega X Y : α) : α := sq omega * (sq X + sq Y) / 2

/-- H+M eq. 2-62 without the rotational term: `V₀(u, β)` (oblate) -/
def normalV0 (GM omega a b E u sbet : α) : α :=
  GM / E * RealLike.atan (E / u) + sq omega * sq a / 2 * (qfun E u / qfun E b) * (sq sbet - 1 / 3)

def normalV0Prolate (GM omega a b E u sbet : α) : α :=
  GM / E * RealLike.atanh (E / u) + sq omega * sq a / 2 * (QzAlt (E / u) / QzAlt (E / b) * ((b / u) * sq (b / u))) * (sq sbet - 1 / 3)

def normalV0Sphere (GM omega a u sbet : α) : α :=
  GM / u + sq omega * sq a / 2 * ((a / u) * sq (a / u)) * (sq sbet - 1 / 3)

/-- `NormalGravity::FlatteningToJ2(a, GM, ω, f)` for `f < 0`: `Qf(−e², true)` in closed form is `QzAlt(w)`, `w = √(−e²/(1 − f)²) = E/b` -/
def flatteningToJ2Prolate (a GM omega f : α) : α :=
  let K := 2 * sq (a * omega) * a / (15 * GM)
  let f1 := 1 - f
  let f2 := sq f1
  let e2 := f * (2 - f)
  (e2 - K * f1 * f2 / QzAlt (RealLike.sqrt (-e2 / f2))) / 3

/-- the residual of the Newton iteration of `J2ToFlattening` on its prolate branch (`e² < 0`): `Q₀ = Qf(−e², true)` -/
def j2ResidualProlate (a GM omega J2 e2 : α) : α :=
  let K := 2 * sq (a * omega) * a / (15 * GM)
  let f2 := 1 - e2
  let f1 := RealLike.sqrt f2
  e2 - f1 * f2 * K / QzAlt (RealLike.sqrt (-e2 / f2)) - 3 * J2

end GeoVerif.Harmonic
