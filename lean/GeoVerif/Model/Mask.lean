import GeoVerif.Gen.Mask
/-!
# Output masks and line capabilities (Geodesic, GeodesicExact, Rhumb)

Bit positions are read from the enums of the headers (`Gen.Mask`).  An output
is written by `GeodesicLine(Exact)::GenPosition` exactly when its bit is in
`outmask ∩ caps ∩ OUT_MASK` and the point can be located.
-/
namespace GeoVerif.Mask
open Gen.Mask

inductive Out where
  | lat2 | lon2 | azi2 | s12 | m12 | M12 | M21 | S12
deriving Repr, DecidableEq

def Out.all : List Out := [.lat2, .lon2, .azi2, .s12, .m12, .M12, .M21, .S12]

/-- position of the output bit inside the mask word -/
def Out.bit : Out → Nat
  | .lat2 => 7 | .lon2 => 8 | .azi2 => 9 | .s12 => 10 | .m12 => 12 | .M12 => 13 | .M21 => 13 | .S12 => 14

def distanceInBit : Nat := 11
def longUnrollBit : Nat := 15

structure Enum where
  latitude : Nat
  longitude : Nat
  azimuth : Nat
  distance : Nat
  distanceIn : Nat
  reducedlength : Nat
  geodesicscale : Nat
  area : Nat
  longUnroll : Nat
  outMask : Nat
  outAll : Nat

def geod : Enum := ⟨geod_LATITUDE, geod_LONGITUDE, geod_AZIMUTH, geod_DISTANCE, geod_DISTANCE_IN, geod_REDUCEDLENGTH,
  geod_GEODESICSCALE, geod_AREA, geod_LONG_UNROLL, geod_OUT_MASK, geod_OUT_ALL⟩
def geodx : Enum := ⟨geodx_LATITUDE, geodx_LONGITUDE, geodx_AZIMUTH, geodx_DISTANCE, geodx_DISTANCE_IN, geodx_REDUCEDLENGTH,
  geodx_GEODESICSCALE, geodx_AREA, geodx_LONG_UNROLL, geodx_OUT_MASK, geodx_OUT_ALL⟩

/-- the mask constant the code tests for an output (`outmask & LATITUDE`, …) -/
def Enum.flag (e : Enum) : Out → Nat
  | .lat2 => e.latitude | .lon2 => e.longitude | .azi2 => e.azimuth | .s12 => e.distance
  | .m12 => e.reducedlength | .M12 => e.geodesicscale | .M21 => e.geodesicscale | .S12 => e.area

/-- `LineInit`: `_caps = caps | LATITUDE | AZIMUTH | LONG_UNROLL` -/
def lineCaps (e : Enum) (caps : Nat) : Nat := caps ||| e.latitude ||| e.azimuth ||| e.longUnroll

/-- can `GenPosition` locate the point?  (`arcmode || (_caps & (OUT_MASK & DISTANCE_IN))`) -/
def locatable (e : Enum) (caps : Nat) (arcmode : Bool) : Bool :=
  arcmode || (lineCaps e caps &&& (e.outMask &&& e.distanceIn)) != 0

/-- `outmask &= _caps & OUT_MASK` -/
def effective (e : Enum) (caps outmask : Nat) : Nat := outmask &&& (lineCaps e caps &&& e.outMask)

/-- the outputs `GenPosition` writes -/
def written (e : Enum) (caps outmask : Nat) (arcmode : Bool) : List Out :=
  if locatable e caps arcmode then Out.all.filter fun o => (effective e caps outmask &&& e.flag o) != 0 else []

/-- `GenInverse`: `outmask &= OUT_MASK`, each output guarded by its flag -/
def writtenInverse (e : Enum) (outmask : Nat) : List Out :=
  [Out.s12, .azi2, .m12, .M12, .M21, .S12].filter fun o => ((outmask &&& e.outMask) &&& e.flag o) != 0

/-- Rhumb: `GenDirect`/`RhumbLine::GenPosition` write lat2, lon2, S12; `GenInverse` writes s12, azi12, S12 -/
def writtenRhumbDirect (outmask : Nat) : List Out :=
  [(Out.lat2, rhumb_LATITUDE), (.lon2, rhumb_LONGITUDE), (.S12, rhumb_AREA)].filterMap fun p => if (outmask &&& p.2) != 0 then some p.1 else none
def writtenRhumbInverse (outmask : Nat) : List Out :=
  [(Out.s12, rhumb_DISTANCE), (.azi2, rhumb_AZIMUTH), (.S12, rhumb_AREA)].filterMap fun p => if (outmask &&& p.2) != 0 then some p.1 else none

/-- encode a set of outputs as the bitmask the harness reports (bit i = i-th element of `Out.all`) -/
def encode (l : List Out) : Nat :=
  (Out.all.zipIdx.filter fun p => l.contains p.1).foldl (fun acc p => acc ||| (1 <<< p.2)) 0

/-! ## Dataflow model of `GenPosition`'s output assembly (hand-written from `GeodesicLine.cpp` /
`GeodesicLineExact.cpp`; not executed by the driver — validated by the harness's bit-for-bit mask-independence
oracle).

Terms are expression trees over uninterpreted symbols: the inputs, the fields of the line object (a field that
`LineInit` sets only under a `_caps & CAP_x` test is `uninit` when that bit is missing), the literal `0` that
initialises `B12`/`E2`/`AB1`, and uninterpreted operations.  What is modelled is *which* intermediate quantities each
output is computed from, and under *which* tests of the reduced mask `outmask & _caps & OUT_MASK` each assignment
is made. -/

inductive T where
  | sym (name : String)
  | uninit (name : String)
  | zero
  | ap (f : String) (args : List T)

/-- a field that `LineInit` computes only when `_caps` has capability bit `k` -/
def fld (lcaps k : Nat) (name : String) : T := if lcaps.testBit k then .sym name else .uninit name

/-- the test `outmask & FLAG` on the reduced mask -/
def want (e : Enum) (eff : Nat) (o : Out) : Bool := (eff &&& e.flag o) != 0
def wantUnroll (e : Enum) (eff : Nat) : Bool := (eff &&& e.longUnroll) != 0
/-- `outmask & (DISTANCE | REDUCEDLENGTH | GEODESICSCALE)` -/
def wantLen (e : Enum) (eff : Nat) : Bool := (eff &&& (e.distance ||| e.reducedlength ||| e.geodesicscale)) != 0
/-- `outmask & (REDUCEDLENGTH | GEODESICSCALE)` -/
def wantRG (e : Enum) (eff : Nat) : Bool := (eff &&& (e.reducedlength ||| e.geodesicscale)) != 0

/-- the part common to both line classes after `sig12`, `ssig12`, `csig12` are known: the always-computed
    quantities.  Returns `(ssig2, csig2 before the degeneracy patch, csig2, sbet2, cbet2, salp2, calp2)` -/
def common (ssig12 csig12 : T) : T × T × T × T × T × T × T :=
  let ssig2 := T.ap "ssig1*csig12+csig1*ssig12" [.sym "_ssig1", .sym "_csig1", ssig12, csig12]
  let csig2r := T.ap "csig1*csig12-ssig1*ssig12" [.sym "_ssig1", .sym "_csig1", ssig12, csig12]
  let sbet2 := T.ap "mul" [.sym "_calp0", ssig2]
  let cbet2r := T.ap "hypot" [.sym "_salp0", .ap "mul" [.sym "_calp0", csig2r]]
  let cbet2 := T.ap "cbet2==0?tiny:cbet2" [cbet2r, .sym "tiny_"]
  let csig2 := T.ap "cbet2==0?tiny:csig2" [cbet2r, csig2r, .sym "tiny_"]
  (ssig2, csig2r, csig2, sbet2, cbet2, .sym "_salp0", .ap "mul" [.sym "_calp0", csig2])

def latTerm (sbet2 cbet2 : T) : T := .ap "atan2d" [sbet2, .ap "mul" [.sym "_f1", cbet2]]
def aziTerm (salp2 calp2 : T) : T := .ap "atan2d" [salp2, calp2]

/-- `salp12`, `calp12` of the area (both branches of `_calp0 == 0 || _salp0 == 0` read the same quantities) -/
def alp12 (salp2 calp2 ssig12 csig12 csig2 : T) : T :=
  .ap "atan2(salp12,calp12)" [.sym "_calp0", .sym "_salp0", salp2, calp2, .sym "_salp1", .sym "_calp1",
    ssig12, csig12, .sym "_ssig1", .sym "_csig1", csig2]

/-- series: `(sig12, ssig12, csig12, B12)` as they stand when the common part starts; `x` = `s12_a12` -/
def sigG (lc : Nat) (arcmode bigf : Bool) (x : T) : T × T × T × T :=
  let A1m1 := fld lc 0 "_aA1m1"; let C1a := fld lc 0 "_cC1a"; let B11 := fld lc 0 "_bB11"
  let stau1 := fld lc 0 "_stau1"; let ctau1 := fld lc 0 "_ctau1"
  let C1pa := fld lc 1 "_cC1pa"
  if arcmode then (.ap "mul degree" [x], .ap "sind" [x], .ap "cosd" [x], .zero)
  else
    let tau12 := T.ap "s12/(b*(1+A1m1))" [x, .sym "_b", A1m1]
    let B12a := T.ap "-SinCosSeries(C1p)(tau1+tau12)" [stau1, ctau1, tau12, C1pa]
    let sig12a := T.ap "tau12-(B12-B11)" [tau12, B12a, B11]
    if bigf then
      let ssig2n := T.ap "ssig1*csig12+csig1*ssig12" [.sym "_ssig1", .sym "_csig1", .ap "sin" [sig12a], .ap "cos" [sig12a]]
      let csig2n := T.ap "csig1*csig12-ssig1*ssig12" [.sym "_ssig1", .sym "_csig1", .ap "sin" [sig12a], .ap "cos" [sig12a]]
      let B12n := T.ap "SinCosSeries(C1)" [ssig2n, csig2n, C1a]
      let sig12n := T.ap "newton" [sig12a, A1m1, B12n, B11, x, .sym "_b", .sym "_k2", ssig2n]
      (sig12n, .ap "sin" [sig12n], .ap "cos" [sig12n], B12n)
    else (sig12a, .ap "sin" [sig12a], .ap "cos" [sig12a], B12a)

/-- exact: `(sig12, ssig12, csig12, E2)` -/
def sigX (lc : Nat) (arcmode : Bool) (x : T) : T × T × T × T :=
  let E0 := fld lc 0 "_eE0"; let E1 := fld lc 0 "_eE1"; let stau1 := fld lc 0 "_stau1"; let ctau1 := fld lc 0 "_ctau1"
  if arcmode then (.ap "mul degree" [x], .ap "sind" [x], .ap "cosd" [x], .zero)
  else
    let tau12 := T.ap "s12/(b*E0)" [x, .sym "_b", E0]
    let E2a := T.ap "-deltaEinv(tau1+tau12)" [.sym "_eE", stau1, ctau1, tau12]
    let sig12a := T.ap "tau12-(E2-E1)" [tau12, E2a, E1]
    (sig12a, .ap "sin" [sig12a], .ap "cos" [sig12a], E2a)

/-- `GeodesicLine::GenPosition` (series): the term assigned to output `o`, `none` when the output is not assigned.
    `lc` = `_caps`, `eff` = the reduced mask, `bigf` = `fabs(_f) > 0.01`. -/
def genPosG (e : Enum) (lc eff : Nat) (arcmode bigf : Bool) (x : T) (o : Out) : Option T :=
  let A1m1 := fld lc 0 "_aA1m1"; let C1a := fld lc 0 "_cC1a"; let B11 := fld lc 0 "_bB11"
  let A2m1 := fld lc 2 "_aA2m1"; let C2a := fld lc 2 "_cC2a"; let B21 := fld lc 2 "_bB21"
  let C3a := fld lc 3 "_cC3a"; let A3c := fld lc 3 "_aA3c"; let B31 := fld lc 3 "_bB31"
  let C4a := fld lc 4 "_cC4a"; let A4 := fld lc 4 "_aA4"; let B41 := fld lc 4 "_bB41"
  let (sig12, ssig12, csig12, B12pre) := sigG lc arcmode bigf x
  let (ssig2, csig2r, csig2, sbet2, cbet2, salp2, calp2) := common ssig12 csig12
  let dn2 := T.ap "sqrt(1+k2*ssig2^2)" [.sym "_k2", ssig2]
  let B12 := if wantLen e eff && (arcmode || bigf) then T.ap "SinCosSeries(C1)" [ssig2, csig2r, C1a] else B12pre
  let AB1 := if wantLen e eff then T.ap "(1+A1m1)*(B12-B11)" [A1m1, B12, B11] else .zero
  let J12 := T.ap "(A1m1-A2m1)*sig12+(AB1-AB2)" [A1m1, A2m1, sig12, AB1,
      .ap "(1+A2m1)*(B22-B21)" [A2m1, .ap "SinCosSeries(C2)" [ssig2, csig2, C2a], B21]]
  let t := T.ap "k2*(ssig2-ssig1)*(ssig2+ssig1)/(dn1+dn2)" [.sym "_k2", ssig2, .sym "_ssig1", .sym "_dn1", dn2]
  match o with
  | .s12 => if want e eff .s12 then some (if arcmode then .ap "b*((1+A1m1)*sig12+AB1)" [.sym "_b", A1m1, sig12, AB1] else x) else none
  | .lon2 =>
    if want e eff .lon2 then
      let somg2 := T.ap "mul" [.sym "_salp0", ssig2]
      let E := T.ap "copysign1" [.sym "_salp0"]
      let omg12 := if wantUnroll e eff
        then T.ap "E*(sig12-(atan2(ssig2,csig2)-atan2(ssig1,csig1))+(atan2(E*somg2,comg2)-atan2(E*somg1,comg1)))"
               [E, sig12, ssig2, csig2, .sym "_ssig1", .sym "_csig1", somg2, .sym "_somg1", .sym "_comg1"]
        else T.ap "atan2(somg2*comg1-comg2*somg1,comg2*comg1+somg2*somg1)" [somg2, csig2, .sym "_somg1", .sym "_comg1"]
      let lon12 := T.ap "(omg12+A3c*(sig12+(SinCosSeries(C3)-B31)))/degree" [omg12, A3c, sig12, .ap "SinCosSeries(C3)" [ssig2, csig2, C3a], B31]
      some (if wantUnroll e eff then .ap "add" [.sym "_lon1", lon12]
            else .ap "AngNormalize(AngNormalize(lon1)+AngNormalize(lon12))" [.sym "_lon1", lon12])
    else none
  | .lat2 => if want e eff .lat2 then some (latTerm sbet2 cbet2) else none
  | .azi2 => if want e eff .azi2 then some (aziTerm salp2 calp2) else none
  | .m12 => if wantRG e eff && want e eff .m12 then
      some (.ap "b*((dn2*(csig1*ssig2)-dn1*(ssig1*csig2))-csig1*csig2*J12)" [.sym "_b", dn2, .sym "_csig1", ssig2, .sym "_dn1", .sym "_ssig1", csig2, J12]) else none
  | .M12 => if wantRG e eff && want e eff .M12 then
      some (.ap "csig12+(t*ssig2-csig2*J12)*ssig1/dn1" [csig12, t, ssig2, csig2, J12, .sym "_ssig1", .sym "_dn1"]) else none
  | .M21 => if wantRG e eff && want e eff .M21 then
      some (.ap "csig12-(t*ssig1-csig1*J12)*ssig2/dn2" [csig12, t, .sym "_ssig1", .sym "_csig1", J12, ssig2, dn2]) else none
  | .S12 => if want e eff .S12 then
      some (.ap "c2*alp12+A4*(B42-B41)" [.sym "_c2", alp12 salp2 calp2 ssig12 csig12 csig2, A4,
        .ap "SinCosSeries(C4)" [ssig2, csig2, C4a], B41]) else none

/-- `GeodesicLineExact::GenPosition`; capability bits: E = 0, D = 2, H = 3, C4 = 4 -/
def genPosX (e : Enum) (lc eff : Nat) (arcmode : Bool) (x : T) (o : Out) : Option T :=
  let E0 := fld lc 0 "_eE0"; let E1 := fld lc 0 "_eE1"
  let D0 := fld lc 2 "_dD0"; let D1 := fld lc 2 "_dD1"
  let H0 := fld lc 3 "_hH0"; let H1 := fld lc 3 "_hH1"
  let C4a := fld lc 4 "_cC4a"; let A4 := fld lc 4 "_aA4"; let B41 := fld lc 4 "_bB41"
  let (sig12, ssig12, csig12, E2pre) := sigX lc arcmode x
  let (ssig2, csig2r, csig2, sbet2, cbet2, salp2, calp2) := common ssig12 csig12
  let dn2 := T.ap "Delta" [.sym "_eE", ssig2, csig2r]
  let E2 := if wantLen e eff && arcmode then T.ap "deltaE" [.sym "_eE", ssig2, csig2r, dn2] else E2pre
  let AB1 := if wantLen e eff then T.ap "E0*(E2-E1)" [E0, E2, E1] else .zero
  let J12 := T.ap "k2*D0*(sig12+(deltaD-D1))" [.sym "_k2", D0, sig12, .ap "deltaD" [.sym "_eE", ssig2, csig2, dn2], D1]
  let t := T.ap "k2*(ssig2-ssig1)*(ssig2+ssig1)/(dn1+dn2)" [.sym "_k2", ssig2, .sym "_ssig1", .sym "_dn1", dn2]
  match o with
  | .s12 => if want e eff .s12 then some (if arcmode then .ap "b*(E0*sig12+AB1)" [.sym "_b", E0, sig12, AB1] else x) else none
  | .lon2 =>
    if want e eff .lon2 then
      let somg2 := T.ap "mul" [.sym "_salp0", ssig2]
      let E := T.ap "copysign1" [.sym "_salp0"]
      let cchi2 := T.ap "f1*dn2*comg2" [.sym "_f1", dn2, csig2]
      let chi12 := if wantUnroll e eff
        then T.ap "E*(atan2(ssig12,csig12)-(atan2(ssig2,csig2)-atan2(ssig1,csig1))+(atan2(E*somg2,cchi2)-atan2(E*somg1,cchi1)))"
               [E, ssig12, csig12, ssig2, csig2, .sym "_ssig1", .sym "_csig1", somg2, cchi2, .sym "_somg1", .sym "_cchi1"]
        else T.ap "atan2(somg2*cchi1-cchi2*somg1,cchi2*cchi1+somg2*somg1)" [somg2, cchi2, .sym "_somg1", .sym "_cchi1"]
      let lon12 := T.ap "(chi12-e2/f1*salp0*H0*(sig12+(deltaH-H1)))/degree"
        [chi12, .sym "_e2", .sym "_f1", .sym "_salp0", H0, sig12, .ap "deltaH" [.sym "_eE", ssig2, csig2, dn2], H1]
      some (if wantUnroll e eff then .ap "add" [.sym "_lon1", lon12]
            else .ap "AngNormalize(AngNormalize(lon1)+AngNormalize(lon12))" [.sym "_lon1", lon12])
    else none
  | .lat2 => if want e eff .lat2 then some (latTerm sbet2 cbet2) else none
  | .azi2 => if want e eff .azi2 then some (aziTerm salp2 calp2) else none
  | .m12 => if wantRG e eff && want e eff .m12 then
      some (.ap "b*((dn2*(csig1*ssig2)-dn1*(ssig1*csig2))-csig1*csig2*J12)" [.sym "_b", dn2, .sym "_csig1", ssig2, .sym "_dn1", .sym "_ssig1", csig2, J12]) else none
  | .M12 => if wantRG e eff && want e eff .M12 then
      some (.ap "csig12+(t*ssig2-csig2*J12)*ssig1/dn1" [csig12, t, ssig2, csig2, J12, .sym "_ssig1", .sym "_dn1"]) else none
  | .M21 => if wantRG e eff && want e eff .M21 then
      some (.ap "csig12-(t*ssig1-csig1*J12)*ssig2/dn2" [csig12, t, .sym "_ssig1", .sym "_csig1", J12, ssig2, dn2]) else none
  | .S12 => if want e eff .S12 then
      some (.ap "c2*alp12+A4*(B42-B41)" [.sym "_c2", alp12 salp2 calp2 ssig12 csig12 csig2, A4,
        .ap "A4==0?0:DST::integral(C4)" [A4, ssig2, csig2, C4a], B41]) else none

/-- `GenPosition` as a whole on symbolic values: nothing is assigned unless the point can be located -/
def genPosition (e : Enum) (exact : Bool) (caps outmask : Nat) (arcmode bigf : Bool) (x : T) (o : Out) : Option T :=
  if locatable e caps arcmode then
    (if exact then genPosX e (lineCaps e caps) (effective e caps outmask) arcmode x o
     else genPosG e (lineCaps e caps) (effective e caps outmask) arcmode bigf x o)
  else none

/-- the value returned by `GenPosition` (`a12`; `none` = NaN): computed before any test of `outmask` -/
def genPositionRet (e : Enum) (exact : Bool) (caps : Nat) (arcmode bigf : Bool) (x : T) : Option T :=
  if locatable e caps arcmode then
    some (if arcmode then x
          else .ap "/degree" [(if exact then sigX (lineCaps e caps) false x else sigG (lineCaps e caps) false bigf x).1])
  else none

/-! ### the third point of a line object (`_s13`, `_a13`; `none` = NaN) -/

structure Line where
  exact : Bool
  caps : Nat            -- as given to `LineInit`
  s13 : Option T := none
  a13 : Option T := none

/-- `SetDistance(s13)`: `_s13 = s13; _a13 = GenPosition(false, _s13, 0u, …)` -/
def setDistance (e : Enum) (bigf : Bool) (L : Line) (s : T) : Line :=
  { L with s13 := some s, a13 := genPositionRet e L.exact L.caps false bigf s }

/-- `SetArc(a13)`: `_a13 = a13; _s13 = NaN; GenPosition(true, _a13, DISTANCE, …, _s13, …)` -/
def setArc (e : Enum) (bigf : Bool) (L : Line) (a : T) : Line :=
  { L with a13 := some a, s13 := genPosition e L.exact L.caps e.distance true bigf a .s12 }

/-- `Geodesic(Exact)::InverseLine`: `a12` = the arc returned by `GenInverse`;
    `if (caps & (OUT_MASK & DISTANCE_IN)) caps |= DISTANCE`, then the line constructor with `arcmode = true` -/
def inverseLine (e : Enum) (exact bigf : Bool) (caps : Nat) (a12 : T) : Line :=
  let caps' := if (caps &&& (e.outMask &&& e.distanceIn)) != 0 then caps ||| e.distance else caps
  setArc e bigf { exact := exact, caps := caps' } a12

/-- `GenDirectLine`: `if (!arcmode) caps |= DISTANCE_IN`, then `GenSetDistance(arcmode, s12_a12)` -/
def directLine (e : Enum) (exact bigf : Bool) (caps : Nat) (arcmode : Bool) (x : T) : Line :=
  let L : Line := { exact := exact, caps := if arcmode then caps else caps ||| e.distanceIn }
  if arcmode then setArc e bigf L x else setDistance e bigf L x

end GeoVerif.Mask
