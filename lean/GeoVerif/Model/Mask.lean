import GeoVerif.Gen.Mask
/-!
# Output masks and line capabilities (Geodesic, GeodesicExact, Rhumb)

Bit positions are read from the enums of the headers (`Gen.Mask`).  An output
is written by `GeodesicLine(Exact)::GenPosition` exactly when its bit is in
`outmask ∩ caps ∩ OUT_MASK` and the point can be located.
-/
namespace GeoVerif.Mask
open Gen.Mask

inductive Out where
  | lat2 | lon2 | azi2 | s12 | m12 | M12 | M21 | S12
deriving Repr, DecidableEq

def Out.all : List Out := [.lat2, .lon2, .azi2, .s12, .m12, .M12, .M21, .S12]

/-- position of the output bit inside the mask word -/
def Out.bit : Out → Nat
  | .lat2 => 7 | .lon2 => 8 | .azi2 => 9 | .s12 => 10 | .m12 => 12 | .M12 => 13 | .M21 => 13 | .S12 => 14

def distanceInBit : Nat := 11
def longUnrollBit : Nat := 15

structure Enum where
  latitude : Nat
  longitude : Nat
  azimuth : Nat
  distance : Nat
  distanceIn : Nat
  reducedlength : Nat
  geodesicscale : Nat
  area : Nat
  longUnroll : Nat
  outMask : Nat
  outAll : Nat

def geod : Enum := ⟨geod_LATITUDE, geod_LONGITUDE, geod_AZIMUTH, geod_DISTANCE, geod_DISTANCE_IN, geod_REDUCEDLENGTH,
  geod_GEODESICSCALE, geod_AREA, geod_LONG_UNROLL, geod_OUT_MASK, geod_OUT_ALL⟩
def geodx : Enum := ⟨geodx_LATITUDE, geodx_LONGITUDE, geodx_AZIMUTH, geodx_DISTANCE, geodx_DISTANCE_IN, geodx_REDUCEDLENGTH,
  geodx_GEODESICSCALE, geodx_AREA, geodx_LONG_UNROLL, geodx_OUT_MASK, geodx_OUT_ALL⟩

/-- the mask constant the code tests for an output (`outmask & LATITUDE`, …) -/
def Enum.flag (e : Enum) : Out → Nat
  | .lat2 => e.latitude | .lon2 => e.longitude | .azi2 => e.azimuth | .s12 => e.distance
  | .m12 => e.reducedlength | .M12 => e.geodesicscale | .M21 => e.geodesicscale | .S12 => e.area

/-- `LineInit`: `_caps = caps | LATITUDE | AZIMUTH | LONG_UNROLL` -/
def lineCaps (e : Enum) (caps : Nat) : Nat := caps ||| e.latitude ||| e.azimuth ||| e.longUnroll

/-- can `GenPosition` locate the point?  (`arcmode || (_caps & (OUT_MASK & DISTANCE_IN))`) -/
def locatable (e : Enum) (caps : Nat) (arcmode : Bool) : Bool :=
  arcmode || (lineCaps e caps &&& (e.outMask &&& e.distanceIn)) != 0

/-- `outmask &= _caps & OUT_MASK` -/
def effective (e : Enum) (caps outmask : Nat) : Nat := outmask &&& (lineCaps e caps &&& e.outMask)

/-- the outputs `GenPosition` writes -/
def written (e : Enum) (caps outmask : Nat) (arcmode : Bool) : List Out :=
  if locatable e caps arcmode then Out.all.filter fun o => (effective e caps outmask &&& e.flag o) != 0 else []

/-- `GenInverse`: `outmask &= OUT_MASK`, each output guarded by its flag -/
def writtenInverse (e : Enum) (outmask : Nat) : List Out :=
  [Out.s12, .azi2, .m12, .M12, .M21, .S12].filter fun o => ((outmask &&& e.outMask) &&& e.flag o) != 0

/-- Rhumb: `GenDirect`/`RhumbLine::GenPosition` write lat2, lon2, S12; `GenInverse` writes s12, azi12, S12 -/
def writtenRhumbDirect (outmask : Nat) : List Out :=
  [(Out.lat2, rhumb_LATITUDE), (.lon2, rhumb_LONGITUDE), (.S12, rhumb_AREA)].filterMap fun p => if (outmask &&& p.2) != 0 then some p.1 else none
def writtenRhumbInverse (outmask : Nat) : List Out :=
  [(Out.s12, rhumb_DISTANCE), (.azi2, rhumb_AZIMUTH), (.S12, rhumb_AREA)].filterMap fun p => if (outmask &&& p.2) != 0 then some p.1 else none

/-- encode a set of outputs as the bitmask the harness reports (bit i = i-th element of `Out.all`) -/
def encode (l : List Out) : Nat :=
  (Out.all.zipIdx.filter fun p => l.contains p.1).foldl (fun acc p => acc ||| (1 <<< p.2)) 0

end GeoVerif.Mask
