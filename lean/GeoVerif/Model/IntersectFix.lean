import GeoVerif.Basic.RealLike
/-!
# `Intersect.cpp`: the closed-form helpers around the tiling search

`fixcoincident` (centre an intersection of coincident geodesics with respect to a reference point), `segmentmode`
(the documented segment indicator) and `fixsegment` (place an intersection of coincident segments), polymorphic over
`RealLike`.  The search bookkeeping around them (`Basic`'s iteration skeleton, `ClosestInt`/`NextInt`/`SegmentInt`/`AllInt0`)
is modelled in `Model/IntersectSearch.lean`.  Core Lean only.
-/
namespace GeoVerif.IntersectFix
open GeoVerif

variable {α : Type} [RealLike α]

/-- `XPoint`: displacements along the two geodesics and the coincidence indicator -/
structure XP (α : Type) where
  x : α
  y : α
  c : Int

def ofC (c : Int) : α := if c < 0 then -(RealLike.ofNat c.natAbs) else RealLike.ofNat c.natAbs

/-- `fixcoincident(p0, p, c)` -/
def fixcoincident (p0 p : XP α) (c : Int) : XP α :=
  if c = 0 then p else
  let cc : α := ofC c
  let s := ((p0.x + cc * p0.y) - (p.x + cc * p.y)) / RealLike.ofNat 2
  { x := p.x + s, y := p.y + cc * s, c := p.c }

/-- `segmentmode(sx, sy, p)` = `3 kx + ky` -/
def segmentmode (sx sy : α) (p : XP α) : Int :=
  (if RealLike.ltb p.x (RealLike.ofNat 0) then -1 else if RealLike.leb p.x sx then 0 else 1) * 3 +
  (if RealLike.ltb p.y (RealLike.ofNat 0) then -1 else if RealLike.leb p.y sy then 0 else 1)

/-- `fixsegment(sx, sy, p)` -/
def fixsegment (sx sy : α) (p : XP α) : XP α :=
  if p.c = 0 then p else
  let z : α := RealLike.ofNat 0
  let two : α := RealLike.ofNat 2
  let f : α := ofC p.c
  let pya := p.y - f * p.x;        let sa := -p.x
  let pyb := p.y - f * (p.x - sx); let sb := sx - p.x
  let pxc := p.x - f * p.y;        let sc := f * (-p.y)
  let pxd := p.x - f * (p.y - sy); let sd := f * (sy - p.y)
  let ga := RealLike.leb z pya && RealLike.leb pya sy
  let gb := RealLike.leb z pyb && RealLike.leb pyb sy
  let gc := RealLike.leb z pxc && RealLike.leb pxc sx
  let gd := RealLike.leb z pxd && RealLike.leb pxd sx
  let s : α :=
    if ga && gb then (sa + sb) / two
    else if gc && gd then (sc + sd) / two
    else if ga && gc then (sa + sc) / two
    else if ga && gd then (sa + sd) / two
    else if gb && gc then (sb + sc) / two
    else if gb && gd then (sb + sd) / two
    else if p.c > 0 then
      (if RealLike.ltb (RealLike.abs ((p.x - p.y) + sy)) (RealLike.abs ((p.x - p.y) - sx)) then (sy - (p.x + p.y)) / two
       else (sx - (p.x + p.y)) / two)
    else
      (if RealLike.ltb (RealLike.abs (p.x + p.y)) (RealLike.abs ((p.x + p.y) - (sx + sy))) then (z - (p.x - p.y)) / two
       else ((sx - sy) - (p.x - p.y)) / two)
  { x := p.x + s, y := p.y + f * s, c := p.c }

end GeoVerif.IntersectFix
