import GeoVerif.Model.DMS
/-!
# `Utility::ParseLine`, `Utility::trim`, `Utility::val<bool>` and the token splitting of `GeoCoords::Reset`
(src/Utility.cpp, Utility.hpp, GeoCoords.cpp): executable byte-level model (core Lean only)

`Utility::trim` is `DMS.trim` (the same function serves `DMS::Decode`).  `ParseLine(line, key, value, equals, comment)`:
the comment character (if not NUL) and everything after it is discarded, the rest is trimmed; the key ends at the first
`equals` character (if `equals` is NUL: at the first white-space character); key and value are trimmed; an empty key
gives `false` with both outputs empty.
-/
namespace GeoVerif.ParseLine
open GeoVerif GeoVerif.DMS

/-- `ParseLine`: `(found, key, value)` -/
def parseLine (line : Bytes) (eq cm : Nat) : Bool × Bytes × Bytes :=
  let body := if cm = 0 then line else line.takeWhile (fun c => c != cm)
  let linea := trim body
  if linea.isEmpty then (false, [], []) else
  let isSep : Nat → Bool := fun c => if eq = 0 then isspace c else c == eq
  let key := trim (linea.takeWhile (fun c => !isSep c))
  if key.isEmpty then (false, [], []) else
  (true, key, match linea.dropWhile (fun c => !isSep c) with
              | [] => []
              | _ :: v => trim v)

def tolower (c : Nat) : Nat := if 65 ≤ c ∧ c ≤ 90 then c + 32 else c

/-- `Utility::val<bool>` on text that is not a number: the documented word lists (case ignored, white space trimmed);
`none` = `GeographicErr`.  (Numeric spellings — `0`, `1` — are read by `operator>>` and are not part of this table.) -/
def valBoolWord (s : Bytes) : Option Bool :=
  let t := (trim s).map tolower
  let w (x : String) : Bytes := x.toList.map Char.toNat
  if t = [] then some false
  else if t = w "f" ∨ t = w "false" ∨ t = w "n" ∨ t = w "nil" ∨ t = w "no" ∨ t = w "off" then some false
  else if t = w "t" ∨ t = w "true" ∨ t = w "y" ∨ t = w "yes" ∨ t = w "on" then some true
  else Option.none

/-- the separators of `GeoCoords::Reset`: white space and the comma -/
def isTokSep (c : Nat) : Bool := isspace c || c == 44

def tokensGo : Nat → Bytes → List Bytes
  | 0, _ => []
  | fuel + 1, s =>
    let s := s.dropWhile isTokSep
    if s.isEmpty then [] else
    s.takeWhile (fun c => !isTokSep c) :: tokensGo fuel (s.dropWhile (fun c => !isTokSep c))

/-- the token list `sa` of `GeoCoords::Reset(const std::string&, …)` -/
def tokens (s : Bytes) : List Bytes := tokensGo (s.length + 1) s

/-- which reader `GeoCoords::Reset` hands the tokens to: 1 = MGRS, 2 = `DMS::DecodeLatLon`, 3 = UTM/UPS with the zone
first, 4 = UTM/UPS with the zone last, 0 = `GeographicErr` -/
def isalpha (c : Nat) : Bool := (65 ≤ c && c ≤ 90) || (97 ≤ c && c ≤ 122)
def dispatch (s : Bytes) : Nat :=
  match tokens s with
  | [_] => 1
  | [_, _] => 2
  | [a, _, c] =>
    if (a.getLast?.map isalpha).getD false then 3
    else if (c.getLast?.map isalpha).getD false then 4 else 0
  | _ => 0

end GeoVerif.ParseLine
