/-!
# String keys with a numeric code (C13 coverage obligations)

The kernel compares string literals slowly (an *equal* comparison of two 35-character literals costs about 10 ms, because both are first
converted to byte arrays), which makes the coverage obligations — thousands of key look-ups — take minutes.  A `Key` therefore carries,
next to the string, its **code**: the UTF-8 bytes read as a base-256 number.  Hand-written tables write `k% "Some.key"`, a macro that
expands, at elaboration time, to `⟨"Some.key", <the number>⟩`; generated tables get the number from the generator.  Keys are compared
through their codes (`Nat`, fast in the kernel).  That every code in a table *is* `strCode` of its string is proved (theorems
`…_codes_ok` of `Props/C13.lean`, by evaluation), so nothing rests on the macro or on the generator; `strCode` is injective on strings
that do not start with a NUL byte, so equal codes mean equal strings.
Core Lean only.
-/
namespace GeoVerif

/-- the UTF-8 bytes of `s` as a base-256 number -/
def strCode (s : String) : Nat := s.toUTF8.data.foldl (fun a b => a * 256 + b.toNat) 0

structure Key where
  s : String
  code : Nat
deriving Repr

instance : BEq Key := ⟨fun a b => a.code == b.code⟩
instance : ToString Key := ⟨fun k => k.s⟩

def Key.ok (k : Key) : Bool := k.code == strCode k.s

/-- `k% "text"` = `⟨"text", strCode "text"⟩` with the number computed at elaboration time -/
macro "k% " s:str : term => do
  let n := strCode s.getString
  `(Key.mk $s $(Lean.quote n))

end GeoVerif
