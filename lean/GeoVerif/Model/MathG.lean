import GeoVerif.Model.MathF
/-!
# `Math.cpp`, continued: `sincosd` / `sincosde` / `sind` / `cosd` / `tand` / `atand` in full around abstract libm kernels,
and the exact primitives at the precision of the `float` and `long double` instantiations

* `Kern` are the libm kernels (`sin`, `cos`, `atan2` of the *reduced* argument in radians).  Everything around them —
  `remquo` reduction, `AngRound(d + t)`, the ±45° / ±30° special values, the quadrant switch, the signed-zero rules, the
  clamp of `tand`, the octant scheme of `atan2d` — is modelled line by line over the exact binary64 type.
* `Fmt` / `rndG` / `angRoundG`: the same dyadic machinery rounded to 24 or 64 significant bits, so that the exact
  relations of the property (`sum`, `AngDiff`, `AngNormalize`, `AngRound`, `LatFix`, the accumulator) can be decided in
  Lean for the `float` and `long double` instantiations too.  The container type is still `F64` (`fin s m e` is not
  normalised, so it holds any dyadic value).
-/
namespace GeoVerif
deriving instance DecidableEq for F64
end GeoVerif

namespace GeoVerif.MathF
open GeoVerif F64

/-! ## constants of the double instantiation -/

/-- `Math::pi<double>() = atan2(0, -1)`: the binary64 number nearest to π -/
def piD : F64 := F64.ofBits 0x400921FB54442D18
/-- `Math::degree<double>() = pi / 180` -/
def degreeD : F64 := piD / hd
/-- `sqrt(1/T(2))` -/
def sqrtHalf : F64 := F64.sqrt ((1 : F64) / 2)
/-- `sqrt(T(3))/2` -/
def sqrt3Half : F64 := F64.sqrt 3 / 2
/-- `1/T(2)` -/
def half : F64 := (1 : F64) / 2
/-- `numeric_limits<double>::epsilon()` -/
def epsD : F64 := .fin false 1 (-52)
/-- `overflow = 1 / sq(epsilon)` of `tand` -/
def tandOverflow : F64 := (1 : F64) / (epsD * epsD)

/-- the libm kernels used by the degree functions (results for the *reduced* radian argument) -/
structure Kern where
  sin : F64 → F64
  cos : F64 → F64
  atan2 : F64 → F64 → F64

/-- the block shared by `sincosd`, `sincosde`, `sind`, `cosd`: `r = d * degree`, `s = sin r`, `c = cos r`, replaced by the
exact special values when `2|d| = 90` or `3|d| = 90` -/
def sincosCore (k : Kern) (d : F64) : F64 × F64 :=
  let r := d * degreeD
  if F64.eq ((2 : F64) * F64.abs d) qd then (copysign sqrtHalf r, sqrtHalf)
  else if F64.eq ((3 : F64) * F64.abs d) qd then (copysign half r, sqrt3Half)
  else (k.sin r, k.cos r)

/-- quadrant switch, `cosx += 0`, `if (sinx == 0) sinx = copysign(sinx, z)` (`z = x` for `sincosd`, `x + t` for `sincosde`) -/
def sincosFinish (q : Int) (z : F64) (sc : F64 × F64) : F64 × F64 :=
  let (sinx, cosx) := quadSwitch q sc.1 sc.2
  let cosx := cosx + 0
  let sinx := if F64.eq sinx 0 then copysign sinx z else sinx
  (sinx, cosx)

/-- `Math::sincosd(x, sinx, cosx)` -/
def sincosdM (k : Kern) (x : F64) : F64 × F64 :=
  sincosFinish (remquoN x qd) x (sincosCore k (remainder x qd))

/-- the reduced angle of `sincosde`: `AngRound(remquo(x, 90, &q) + t)` -/
def sincosdeArg (x t : F64) : F64 := angRound (remainder x qd + t)

/-- `Math::sincosde(x, t, sinx, cosx)` -/
def sincosdeM (k : Kern) (x t : F64) : F64 × F64 :=
  sincosFinish (remquoN x qd) (x + t) (sincosCore k (sincosdeArg x t))

/-- the expression shared by `sind` and `cosd`: `p & 1 ? (cosine branch) : copysign(sine branch, r)` -/
def sindCore (k : Kern) (d : F64) (odd : Bool) : F64 :=
  let r := d * degreeD
  if odd then
    (if F64.eq ((2 : F64) * F64.abs d) qd then sqrtHalf else if F64.eq ((3 : F64) * F64.abs d) qd then sqrt3Half else k.cos r)
  else
    copysign (if F64.eq ((2 : F64) * F64.abs d) qd then sqrtHalf else if F64.eq ((3 : F64) * F64.abs d) qd then half else k.sin r) r

/-- `Math::sind(x)` (`p = unsigned(q)`) -/
def sindM (k : Kern) (x : F64) : F64 :=
  let q := remquoN x qd
  let r := sindCore k (remainder x qd) (q % 2 = 1)
  let r := if q % 4 ≥ 2 then F64.neg r else r
  if F64.eq r 0 then copysign r x else r

/-- `Math::cosd(x)` (`p = unsigned(q + 1)`) -/
def cosdM (k : Kern) (x : F64) : F64 :=
  let q := remquoN x qd + 1
  let r := sindCore k (remainder x qd) (q % 2 = 1)
  let r := if q % 4 ≥ 2 then F64.neg r else r
  (0 : F64) + r

/-- `std::max` / `std::min` as used by `tand` (`max(a, b) = a < b ? b : a`, NaN in the first argument is preserved) -/
def stdMax (a b : F64) : F64 := if F64.lt a b then b else a
def stdMin (a b : F64) : F64 := if F64.lt b a then b else a

/-- `Math::tand(x)` -/
def tandM (k : Kern) (x : F64) : F64 :=
  let sc := sincosdM k x
  stdMin (stdMax (sc.1 / sc.2) (F64.neg tandOverflow)) tandOverflow

/-- `Math::atan2d(y, x)`: octant rearrangement around `atan2(y', x') / degree` -/
def atan2dM (k : Kern) (y x : F64) : F64 :=
  let c := atan2dCanon y x
  atan2dWrap y x (k.atan2 c.1 c.2.1 / degreeD)

/-- `Math::atand(x) = atan2d(x, 1)` -/
def atandM (k : Kern) (x : F64) : F64 := atan2dM k x 1

/-- which branch of `sincosCore` an angle takes (for messages and for the correspondence) -/
inductive Branch | s45 | s30 | generic
deriving Repr, DecidableEq

def sincosBranch (d : F64) : Branch :=
  if F64.eq ((2 : F64) * F64.abs d) qd then .s45 else if F64.eq ((3 : F64) * F64.abs d) qd then .s30 else .generic

/-! ## other precisions -/

/-- a binary floating-point format: `p` significant bits, exponent of the last bit of the smallest subnormal, overflow
threshold `2^emax` -/
structure Fmt where
  p : Nat
  emin : Int
  emax : Int

def fmtF : Fmt := ⟨24, -149, 128⟩
def fmtD : Fmt := ⟨53, -1074, 1024⟩
def fmtL : Fmt := ⟨64, -16445, 16384⟩

def Fmt.ofTag (s : String) : Option Fmt :=
  if s == "f" then some fmtF else if s == "d" then some fmtD else if s == "l" then some fmtL else none

/-- round an exact dyadic to the format (nearest-even, gradual underflow, overflow to ±∞); `zs` = sign of an exact zero -/
def rndG (f : Fmt) (d : Dy) (zs : Bool) : F64 :=
  let r := Dy.roundTo f.p f.emin d
  if r.m = 0 then .fin (if d.m = 0 then zs else d.m < 0) 0 0
  else if (Dy.blen r.m.natAbs : Int) + r.e > f.emax then .inf (r.m < 0)
  else ofDy r

def addG (f : Fmt) (x y : F64) : F64 :=
  match x, y with
  | .nan, _ => .nan
  | _, .nan => .nan
  | .inf a, .inf b => if a == b then .inf a else .nan
  | .inf a, _ => .inf a
  | _, .inf b => .inf b
  | .fin sa _ _, .fin sb _ _ => rndG f (Dy.add x.toDy y.toDy) (sa && sb)

def subG (f : Fmt) (x y : F64) : F64 := addG f x (F64.neg y)

/-- `Math::AngRound<T>` at the precision of `T` -/
def angRoundG (f : Fmt) (x : F64) : F64 :=
  let z : F64 := .fin false 1 (-4)
  let y := F64.abs x
  let w := subG f z y
  let y := if F64.gt w 0 then subG f z w else y
  copysign y x

/-- value-and-sign equality of two numbers held in the container (all NaNs identified) -/
def sameVal (x y : F64) : Bool :=
  match x, y with
  | .nan, .nan => true
  | .inf a, .inf b => a == b
  | .fin sa _ _, .fin sb _ _ => Dy.eq x.toDy y.toDy && (sa == sb)
  | _, _ => false

/-- unit in the last place of a binary64 value (as an exact dyadic) -/
def ulpDy (x : F64) : Dy :=
  match x with
  | .fin _ m e => if m = 0 then ⟨1, -1074⟩ else ⟨1, max (e + (Dy.blen m : Int) - 53) (-1074)⟩
  | _ => ⟨0, 0⟩

end GeoVerif.MathF
