import GeoVerif.FP.F64
import GeoVerif.Model.MathF
import GeoVerif.Gen.GeoidC
/-!
# Geoid: raster access, caches, interpolation

`Env` abstracts the three pure ingredients (cell location, per-cell
preparation, interpolation); `step` is the stateful machine with the
single-cell cache and the area cache exactly as `Geoid.cpp`/`Geoid.hpp` keep
them.  `concrete` instantiates `Env` with the binary64 formulas of the code,
the cubic tables coming from `Gen.GeoidC`.
-/
namespace GeoVerif.Geoid
open GeoVerif

structure Hdr where
  w : Int
  h : Int
deriving Repr

/-- longitude wrap and pole reflection exactly as `Geoid::rawval` does when reading the file -/
def fileIdx (H : Hdr) (ix iy : Int) : Int × Int :=
  let ix := if ix < 0 then ix + H.w else if ix ≥ H.w then ix - H.w else ix
  if iy < 0 ∨ iy ≥ H.h then
    let iy' := if iy < 0 then -iy else 2 * (H.h - 1) - iy
    let ix' := ix + (if ix < H.w / 2 then 1 else -1) * (H.w / 2)
    (ix', iy')
  else (ix, iy)

/-- file contents, indexed by (column, row) -/
abbrev Pix := Int → Int → Nat

def rawSpec (H : Hdr) (pix : Pix) (ix iy : Int) : Nat :=
  let p := fileIdx H ix iy; pix p.1 p.2

structure St (C : Type) where
  cache : Bool
  xoff : Int
  yoff : Int
  xsize : Int
  ysize : Int
  data : Int → Int → Nat       -- data (iy - yoff) (column)
  cix : Int
  ciy : Int
  cc : C                       -- prepared data of the cached cell (4 corner values / 10 cubic coefficients)
  threadsafe : Bool

/-- `Geoid::rawval` -/
def rawval {C : Type} (H : Hdr) (pix : Pix) (s : St C) (ix0 iy : Int) : Nat :=
  let ix := if ix0 < 0 then ix0 + H.w else if ix0 ≥ H.w then ix0 - H.w else ix0
  if s.cache ∧ iy ≥ s.yoff ∧ iy < s.yoff + s.ysize ∧
      ((ix ≥ s.xoff ∧ ix < s.xoff + s.xsize) ∨ (ix + H.w ≥ s.xoff ∧ ix + H.w < s.xoff + s.xsize)) then
    s.data (iy - s.yoff) (if ix ≥ s.xoff then ix - s.xoff else ix + H.w - s.xoff)
  else rawSpec H pix ix iy

/-- the bilinear and cubic stencils, as (dx, dy) offsets in the order the code gathers them -/
def stencilBilinear : List (Int × Int) := [(0, 0), (1, 0), (0, 1), (1, 1)]
def stencilCubic : List (Int × Int) :=
  [(0, -1), (1, -1), (-1, 0), (0, 0), (1, 0), (2, 0), (-1, 1), (0, 1), (1, 1), (2, 1), (0, 2), (1, 2)]

def gather (st : List (Int × Int)) (rv : Int → Int → Nat) (ix iy : Int) : List Nat :=
  st.map fun d => rv (ix + d.1) (iy + d.2)

inductive Op (F : Type) where
  | height (lat lon : F)
  | cacheSet (xoff yoff xsize ysize : Int)      -- CacheArea / CacheAll once the window is computed
  | cacheClear

structure Env (F C : Type) where
  H : Hdr
  pix : Pix
  stencil : List (Int × Int)
  loc : F → F → Option (Int × Int × F × F)   -- (ix, iy, fx, fy); `none` = NaN position
  prep : Int → List Nat → C                   -- per-cell preparation (depends on iy for the polar cubic tables)
  interp : F → F → C → F
  nan : F

def heightSpec {F C : Type} (E : Env F C) (lat lon : F) : F :=
  match E.loc lat lon with
  | none => E.nan
  | some (ix, iy, fx, fy) => E.interp fx fy (E.prep iy (gather E.stencil (rawSpec E.H E.pix) ix iy))

/-- what the area cache must contain: the file's pixel at the wrapped / reflected position (specification of `fillCode`) -/
def fill {F C : Type} (E : Env F C) (xoff yoff : Int) : Int → Int → Nat :=
  fun j k => rawSpec E.H E.pix (let c := xoff + k; if c ≥ E.H.w then c - E.H.w else c) (yoff + j)

/-- the two sequential reads per cache row of `CacheArea` **as coded**: the row `iy = yoff + j` (reflected and shifted by
    half a turn beyond a pole: `iy1`, `iw1`), `xs1 = min(w − iw1, xsize)` pixels from column `iw1`, the remaining
    `xsize − xs1` from column 0 of the same row.  `fillIdx` is the (column, row) of the file pixel that ends up in
    `_data[j][k]`.  `Props.C20.fillCode_eq_fill` shows that this is `fill`. -/
def fillIdx (H : Hdr) (xoff yoff xsize j k : Int) : Int × Int :=
  let iy := yoff + j
  let beyond := iy < 0 ∨ iy ≥ H.h
  let iy1 := if beyond then (if iy < 0 then -iy else 2 * (H.h - 1) - iy) else iy
  let iw1 := if beyond then (if xoff + H.w / 2 ≥ H.w then xoff + H.w / 2 - H.w else xoff + H.w / 2) else xoff
  let xs1 := min (H.w - iw1) xsize
  (if k < xs1 then iw1 + k else k - xs1, iy1)

def fillCode {F C : Type} (E : Env F C) (xoff yoff xsize : Int) : Int → Int → Nat :=
  fun j k => E.pix (fillIdx E.H xoff yoff xsize j k).1 (fillIdx E.H xoff yoff xsize j k).2

def step {F C : Type} (E : Env F C) (s : St C) : Op F → St C × Option F
  | .height lat lon =>
    match E.loc lat lon with
    | none => (s, some E.nan)
    | some (ix, iy, fx, fy) =>
      let c := if s.threadsafe ∨ ¬ (ix = s.cix ∧ iy = s.ciy) then E.prep iy (gather E.stencil (rawval E.H E.pix s) ix iy) else s.cc
      let r := E.interp fx fy c
      (if s.threadsafe then s else { s with cix := ix, ciy := iy, cc := c }, some r)
  | .cacheSet xo yo xs ys =>
    if s.threadsafe then (s, none) else
    ({ s with cache := true, xoff := xo, yoff := yo, xsize := xs, ysize := ys, data := fillCode E xo yo xs }, none)
  | .cacheClear => (if s.threadsafe then s else { s with cache := false }, none)

/-- run a history, collecting the heights -/
def run {F C : Type} (E : Env F C) : St C → List (Op F) → List F
  | _, [] => []
  | s, op :: ops =>
    let (s', r) := step E s op
    match r with
    | some v => v :: run E s' ops
    | none => run E s' ops

/-! ## the concrete binary64 instance -/

structure File where
  w : Int
  h : Int
  offset : F64
  scale : F64
  pixels : Array Nat     -- row-major, `w*h` entries

def File.pix (f : File) : Pix := fun ix iy =>
  if 0 ≤ ix ∧ ix < f.w ∧ 0 ≤ iy ∧ iy < f.h then f.pixels.getD (iy * f.w + ix).toNat 0 else 0

def fl (x : F64) : Int := Dy.floor (F64.floor x).toDy

/-- cell location as in `Geoid::height` -/
def locF (f : File) (lat lon : F64) : Option (Int × Int × F64 × F64) :=
  let lat := MathF.latFix lat
  let lon := MathF.angNormalize lon     -- an infinite longitude becomes NaN here
  if lat.isNaN || lon.isNaN then none else
  let rlonres := F64.ofInt f.w / F64.ofInt Gen.MathC.td
  let rlatres := F64.ofInt (f.h - 1) / F64.ofInt Gen.MathC.hd
  let fx := lon * rlonres
  let fy := F64.neg lat * rlatres
  let ix := fl fx
  let iy := max (-((f.h - 1) / 2)) (min ((f.h - 1) / 2 - 1) (fl fy))   -- both poles stay in the first / last row of cells
  let fx := fx - F64.ofInt ix
  let fy := fy - F64.ofInt iy
  let iy := iy + (f.h - 1) / 2
  let ix := ix + (if ix < 0 then f.w else if ix ≥ f.w then -f.w else 0)
  some (ix, iy, fx, fy)

/-- bilinear: the prepared cell data are the four corner values (`cast` = conversion of a pixel to the number type) -/
def prepBilinearG {R : Type} (cast : Int → R) (_iy : Int) (v : List Nat) : List R := v.map fun (n : Nat) => cast (n : Int)

/-- the bilinear formula of `Geoid::height`, generic in the number type (read at `F64` it is what the driver executes,
    read at `ℚ` it is the exact interpolant of the theorems) -/
def interpBilinearG {R : Type} [Add R] [Sub R] [Mul R] [OfNat R 0] [OfNat R 1] (offset scale : R) (fx fy : R) (c : List R) : R :=
  let v00 := c.getD 0 0; let v01 := c.getD 1 0; let v10 := c.getD 2 0; let v11 := c.getD 3 0
  let a := ((1 : R) - fx) * v00 + fx * v01
  let b := ((1 : R) - fx) * v10 + fx * v11
  let cc := ((1 : R) - fy) * a + fy * b
  offset + scale * cc

/-- cubic: `t[i] = (Σ_j v[j]·c3x[10 j + i]) / c0x` with the north / south / interior tables -/
def prepCubicG {R : Type} [Add R] [Mul R] [Div R] [OfNat R 0] (cast : Int → R) (h : Int) (iy : Int) (v : List Nat) : List R :=
  let c3x := if iy = 0 then Gen.GeoidC.c3n else if iy = h - 2 then Gen.GeoidC.c3s else Gen.GeoidC.c3
  let c0x := if iy = 0 then Gen.GeoidC.c0n else if iy = h - 2 then Gen.GeoidC.c0s else Gen.GeoidC.c0
  (List.range 10).map fun i =>
    let t := (List.range 12).foldl (fun (acc : R) j => acc + cast ((v.getD j 0 : Nat) : Int) * cast (c3x.getD (10 * j + i) 0)) 0
    t / cast c0x

/-- the cubic formula of `Geoid::height` -/
def interpCubicG {R : Type} [Add R] [Mul R] [OfNat R 0] (offset scale : R) (fx fy : R) (t : List R) : R :=
  let g (i : Nat) := t.getD i 0
  let h := g 0 + fx * (g 1 + fx * (g 3 + fx * g 6)) +
    fy * (g 2 + fx * (g 4 + fx * g 7) + fy * (g 5 + fx * g 8 + fy * g 9))
  offset + scale * h

def prepBilinear (iy : Int) (v : List Nat) : List F64 := prepBilinearG F64.ofInt iy v
def interpBilinear (offset scale : F64) (fx fy : F64) (c : List F64) : F64 := interpBilinearG offset scale fx fy c
def prepCubic (h : Int) (iy : Int) (v : List Nat) : List F64 := prepCubicG F64.ofInt h iy v
def interpCubic (offset scale : F64) (fx fy : F64) (t : List F64) : F64 := interpCubicG offset scale fx fy t

def concrete (f : File) (cubic : Bool) : Env F64 (List F64) :=
  { H := ⟨f.w, f.h⟩, pix := f.pix,
    stencil := if cubic then stencilCubic else stencilBilinear,
    loc := locF f,
    prep := if cubic then prepCubic f.h else prepBilinear,
    interp := if cubic then interpCubic f.offset f.scale else interpBilinear f.offset f.scale,
    nan := .nan }

def initSt (f : File) : St (List F64) :=
  { cache := false, xoff := 0, yoff := 0, xsize := 0, ysize := 0, data := fun _ _ => 0,
    cix := f.w, ciy := f.h, cc := [], threadsafe := false }

/-- the window computed by `Geoid::CacheArea(south, west, north, east)`; `none` = clear the cache -/
inductive Window where
  | clear
  | invalid                       -- limits not finite / latitude out of range: `GeographicErr`
  | set (xoff yoff xsize ysize : Int)

/-- the integer part of `CacheArea`: from the four floors `⌊west·rlonres⌋`, `⌊east·rlonres⌋`, `⌊−north·rlatres⌋`,
    `⌊−south·rlatres⌋` to `(xoffset, yoffset, xsize, ysize)` -/
def windowOfIdx (w h : Int) (cubic : Bool) (iw ie in0 is0 : Int) : Int × Int × Int × Int :=
  let inn := max 0 (min (h - 2) (in0 + (h - 1) / 2))
  let is := max 0 (min (h - 2) (is0 + (h - 1) / 2)) + 1
  let ie := ie + 1
  let inn := if cubic then inn - 1 else inn
  let is := if cubic then is + 1 else is
  let iw := if cubic then iw - 1 else iw
  let ie := if cubic then ie + 1 else ie
  let sh := if iw < 0 then w else if iw ≥ w then -w else 0
  let xo := if ie - iw ≥ w - 1 then 0 else iw + sh
  let xe := if ie - iw ≥ w - 1 then w - 1 else ie + sh
  (xo, inn, xe - xo + 1, is - inn + 1)

/-- `east` after `if (east <= west) east += 360` -/
def eastOf (west east : F64) : F64 := if F64.le east west then east + F64.ofInt Gen.MathC.td else east

/-- the four floors of `CacheArea` after `LatFix` / `AngNormalize` / `east += 360`:
    `(⌊west·rlonres⌋, ⌊east·rlonres⌋, ⌊−north·rlatres⌋, ⌊−south·rlatres⌋)` -/
def cacheFloors (f : File) (south west north east : F64) : Int × Int × Int × Int :=
  let west := MathF.angNormalize west
  let east := eastOf west (MathF.angNormalize east)
  let rlonres := F64.ofInt f.w / F64.ofInt Gen.MathC.td
  let rlatres := F64.ofInt (f.h - 1) / F64.ofInt Gen.MathC.hd
  (fl (west * rlonres), fl (east * rlonres), fl (F64.neg (MathF.latFix north) * rlatres), fl (F64.neg (MathF.latFix south) * rlatres))

def cacheWindow (f : File) (cubic : Bool) (south west north east : F64) : Window :=
  if F64.gt south north then .clear else
  if !((MathF.latFix south).isFinite && (MathF.latFix north).isFinite && (MathF.angNormalize west).isFinite &&
      (eastOf (MathF.angNormalize west) (MathF.angNormalize east)).isFinite) then .invalid else
  let q := cacheFloors f south west north east
  let p := windowOfIdx f.w f.h cubic q.1 q.2.1 q.2.2.1 q.2.2.2
  .set p.1 p.2.1 p.2.2.1 p.2.2.2

/-! ## the values of type `int` the code computes (finding F73: they must not overflow)

Hand transcription of every `int` subexpression of `Geoid::height`, `Geoid::rawval`, `Geoid::CacheArea` and the cache
inspectors, as functions of the floors / indices they start from.  `Props.C20.accepted_int_arithmetic` shows that for every
accepted raster (dimensions ≤ 2^30) all of them lie in the range of `int`; the driver evaluates `intsOK` on them for every
query and every `CacheArea` of a run. -/

def intsOK (l : List Int) : Bool := l.all fun x => decide (-(2 : Int) ^ 31 ≤ x) && decide (x ≤ (2 : Int) ^ 31 - 1)

/-- `Geoid::height`: from `int(floor(fx))`, `int(floor(fy))` to the cell `(ix, iy)` and the stencil arguments of `rawval` -/
def heightInts (w h flx fly : Int) : List Int :=
  let hh2 := (h - 1) / 2
  let iy0 := max (-hh2) (min (hh2 - 1) fly)
  let sh := if flx < 0 then w else if flx ≥ w then -w else 0
  let ix := flx + sh
  let iy := iy0 + hh2
  [flx, fly, h - 1, hh2, hh2 - 1, min (hh2 - 1) fly, -(h - 1), -hh2, iy0, iy, -w, sh, ix, h - 2,
   ix - 1, ix + 1, ix + 2, iy - 1, iy + 1, iy + 2]

/-- `Geoid::rawval(ix0, iy)` with the cache window `(xoff, yoff, xsize, ysize)` -/
def rawvalInts (w h xoff yoff xsize ysize ix0 iy : Int) : List Int :=
  let ix := if ix0 < 0 then ix0 + w else if ix0 ≥ w then ix0 - w else ix0
  let t := (if ix < w / 2 then 1 else -1) * w
  [ix, yoff + ysize, xoff + xsize, ix + w, iy - yoff, ix - xoff, ix + w - xoff,
   -iy, h - 1, 2 * (h - 1), 2 * (h - 1) - iy, w / 2, t, t / 2, ix + t / 2]

/-- `Geoid::CacheArea`: from the four floors to `_xoffset, _yoffset, _xsize, _ysize` -/
def cacheAreaInts (w h : Int) (cubic : Bool) (iw0 ie0 in0 is0 : Int) : List Int :=
  let hh2 := (h - 1) / 2
  let in1 := in0 + hh2
  let is1 := is0 + hh2
  let in2 := max 0 (min (h - 2) in1)
  let is2 := max 0 (min (h - 2) is1)
  let c : Int := if cubic then 1 else 0
  let in4 := in2 - c
  let is4 := is2 + 1 + c
  let iw4 := iw0 - c
  let ie4 := ie0 + 1 + c
  let sh := if iw4 < 0 then w else if iw4 ≥ w then -w else 0
  let full := ie4 - iw4 ≥ w - 1
  [iw0, ie0, in0, is0, h - 1, hh2, in1, is1, h - 2, min (h - 2) in1, in2, min (h - 2) is1, is2, is2 + 1, ie0 + 1, in4, is4, iw4, ie4,
   ie4 - iw4, w - 1, -w, sh, (if full then w - 1 else ie4 + sh), (if full then 0 else iw4 + sh),
   (if full then w - 1 - 0 + 1 else ie4 + sh - (iw4 + sh) + 1), (if full then w - 1 - 0 else ie4 + sh - (iw4 + sh)), is4 - in4, is4 - in4 + 1,
   -- the results, as the executed `windowOfIdx` computes them
   (windowOfIdx w h cubic iw0 ie0 in0 is0).1, (windowOfIdx w h cubic iw0 ie0 in0 is0).2.1,
   (windowOfIdx w h cubic iw0 ie0 in0 is0).2.2.1, (windowOfIdx w h cubic iw0 ie0 in0 is0).2.2.2]

/-- the loop of `CacheArea` that fills cache row `iy` (`yoff ≤ iy < yoff + ysize`) -/
def fillInts (w h xoff yoff xsize iy : Int) : List Int :=
  let beyond := iy < 0 ∨ iy ≥ h
  let iy1 := if beyond then (if iy < 0 then -iy else 2 * (h - 1) - iy) else iy
  let iw1a := if beyond then xoff + w / 2 else xoff
  let iw1 := if beyond ∧ iw1a ≥ w then iw1a - w else iw1a
  let xs1 := min (w - iw1) xsize
  [iy, -iy, h - 1, 2 * (h - 1), 2 * (h - 1) - iy, iy1, w / 2, iw1a, iw1a - w, iw1, w - iw1, xs1, iy - yoff, xsize - xs1, iy + 1]

/-- `CacheWest/East/North/South` -/
def getterInts (w xoff yoff xsize ysize : Int) (cubic : Bool) : List Int :=
  let c : Int := if cubic then 1 else 0
  let a := xoff + (if xsize = w then 0 else c) + w / 2
  [w / 2, xoff + (if xsize = w then 0 else c), a, a % w, a % w - w / 2, 2 * c, 1 + 2 * c, xsize - (if xsize = w then 0 else 1 + 2 * c),
   yoff + c, yoff + ysize, yoff + ysize - 1, yoff + ysize - 1 - c]

/-! ## the public operations: `operator()`, `CacheArea`, `CacheAll`, `CacheClear` on the binary64 instance -/

inductive ApiOp where
  | height (lat lon : F64)
  | cacheArea (south west north east : F64)
  | cacheAll
  | cacheClear

/-- `CacheArea(south, west, north, east)` on a state: the window computed in floating point, then the cache fill
    (`GeographicErr` for invalid limits and on a thread-safe object: the state is unchanged) -/
def apiCacheArea (f : File) (cubic : Bool) (s : St (List F64)) (south west north east : F64) : St (List F64) :=
  match cacheWindow f cubic south west north east with
  | .clear => (step (concrete f cubic) s .cacheClear).1
  | .invalid => s
  | .set xo yo xs ys => (step (concrete f cubic) s (.cacheSet xo yo xs ys)).1

def apiStep (f : File) (cubic : Bool) (s : St (List F64)) : ApiOp → St (List F64) × Option F64
  | .height lat lon => step (concrete f cubic) s (.height lat lon)
  | .cacheArea so we no ea => (apiCacheArea f cubic s so we no ea, none)
  | .cacheAll => (apiCacheArea f cubic s (F64.ofInt (-Gen.MathC.qd)) 0 (F64.ofInt Gen.MathC.qd) (F64.ofInt Gen.MathC.td), none)
  | .cacheClear => ((step (concrete f cubic) s .cacheClear).1, none)

/-- run a history of public operations, collecting the heights -/
def apiRun (f : File) (cubic : Bool) : St (List F64) → List ApiOp → List F64
  | _, [] => []
  | s, op :: ops =>
    match (apiStep f cubic s op).2 with
    | some v => v :: apiRun f cubic (apiStep f cubic s op).1 ops
    | none => apiRun f cubic (apiStep f cubic s op).1 ops

/-- the state of a thread-safe object: the whole raster cached, then frozen -/
def threadsafeSt (f : File) (cubic : Bool) : St (List F64) :=
  { (apiStep f cubic (initSt f) .cacheAll).1 with threadsafe := true }

/-! ## inspector functions of the cache and `ConvertHeight` -/

def rlonresF (f : File) : F64 := F64.ofInt f.w / F64.ofInt Gen.MathC.td
def rlatresF (f : File) : F64 := F64.ofInt (f.h - 1) / F64.ofInt Gen.MathC.hd

/-- `Geoid::CacheWest()`: `((_xoffset + (_xsize == _width ? 0 : _cubic) + _width/2) % _width - _width/2) / _rlonres` -/
def cacheWest {C : Type} (f : File) (cubic : Bool) (s : St C) : F64 :=
  if s.cache then
    F64.ofInt ((s.xoff + (if s.xsize = f.w then 0 else if cubic then 1 else 0) + f.w / 2) % f.w - f.w / 2) / rlonresF f
  else 0

/-- `Geoid::CacheEast()` -/
def cacheEast {C : Type} (f : File) (cubic : Bool) (s : St C) : F64 :=
  if s.cache then
    cacheWest f cubic s + F64.ofInt (s.xsize - (if s.xsize = f.w then 0 else 1 + 2 * (if cubic then 1 else 0))) / rlonresF f
  else 0

/-- `Geoid::CacheNorth()` -/
def cacheNorth {C : Type} (f : File) (cubic : Bool) (s : St C) : F64 :=
  if s.cache then F64.ofInt Gen.MathC.qd - F64.ofInt (s.yoff + (if cubic then 1 else 0)) / rlatresF f else 0

/-- `Geoid::CacheSouth()` -/
def cacheSouth {C : Type} (f : File) (cubic : Bool) (s : St C) : F64 :=
  if s.cache then F64.ofInt Gen.MathC.qd - F64.ofInt (s.yoff + s.ysize - 1 - (if cubic then 1 else 0)) / rlatresF f else 0

/-- `Geoid::ConvertHeight(lat, lon, h, d) = h + real(d) * height(lat, lon)`, `d = ±1` (generic in the number type) -/
def convertHeightG {R : Type} [Add R] [Mul R] (h d N : R) : R := h + d * N
def convertHeight (h : F64) (d : Int) (N : F64) : F64 := convertHeightG h (F64.ofInt d) N

end GeoVerif.Geoid
