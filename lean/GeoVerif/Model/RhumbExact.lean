import GeoVerif.Basic.RealLike
import GeoVerif.Model.AuxLat
import GeoVerif.Model.Rhumb
import GeoVerif.Model.RhumbSeries
/-!
# The exact path of `Rhumb` (`exact = true`) around its elliptic / iterative kernels

* `rf`, `rd`: Carlson's duplication algorithms as `EllipticFunction::RF(x, y, z)` / `RD(x, y, z)` code them (loop bounded by the
  trip counter 64 of the source; the convergence tolerance is a parameter);
* `DE`: `DAuxLatitude::DE` — the divided difference of the incomplete elliptic integral of the second kind by the addition theorem
  DLMF 19.11.2/4 — *parametric in the two Carlson kernels* (theorems quantify over every kernel; the driver fills the slots with
  `rf`, `rd`);
* `DRectifying`: `DAuxLatitude::DRectifying` around the values of `AuxLatitude::Rectifying` (kernel record `RectK`);
* `dmudpsiX`, `meanSinXiX`, `genInverseX`, `genPositionX`: the exact-mode branches of `Rhumb::GenInverse`, `Rhumb::MeanSinXi`,
  `RhumbLine::GenPosition` around the exact latitude conversions (kernel record: conformal / inverse conformal / inverse
  rectifying latitudes, the DST-fitted area coefficients `_pP`).
Same operations in the same order as the C++; polymorphic (`RealLike`); executed in the running-error arithmetic against the
implementation (`Corr/C09Full.lean`), read at `ℝ` in `Props/C09.lean`.  Core Lean only.
-/
namespace GeoVerif.RhumbX
open GeoVerif GeoVerif.RealLike GeoVerif.Rhumb GeoVerif.RhumbS
open GeoVerif.RealLike.Lits

variable {α : Type} [RealLike α]

/-! ### Carlson `RF(x, y, z)`, `RD(x, y, z)` -/

/-- the duplication loop of `RF`: `(An, mul)` on exit (`for (trip = 0; trip < 64 && Q >= mul * fabs(An); ++trip)`) -/
def rfLoop : Nat → α → α → α → α → α → α → α × α
  | 0, _, An, _, _, _, mul => (An, mul)
  | k + 1, Q, An, x0, y0, z0, mul =>
    if RealLike.leb (mul * RealLike.abs An) Q then
      let lam := RealLike.sqrt x0 * RealLike.sqrt y0 + RealLike.sqrt y0 * RealLike.sqrt z0 + RealLike.sqrt z0 * RealLike.sqrt x0
      rfLoop k Q ((An + lam) / 4) ((x0 + lam) / 4) ((y0 + lam) / 4) ((z0 + lam) / 4) (mul * 4)
    else (An, mul)

/-- `EllipticFunction::RF(x, y, z)` with convergence tolerance `tol` (`tolRF` of the source) -/
def rf (tol x y z : α) : α :=
  let A0 := (x + y + z) / 3
  let Q := RealLike.max (RealLike.max (RealLike.abs (A0 - x)) (RealLike.abs (A0 - y))) (RealLike.abs (A0 - z)) / tol
  let (An, mul) := rfLoop 64 Q A0 x y z 1
  let X := (A0 - x) / (mul * An)
  let Y := (A0 - y) / (mul * An)
  let Z := -(X + Y)
  let E2 := X * Y - Z * Z
  let E3 := X * Y * Z
  AuxLat.rfTail E2 E3 / (240240 * RealLike.sqrt An)

/-- the duplication loop of `RD`: `(An, mul, s)` on exit -/
def rdLoop : Nat → α → α → α → α → α → α → α → α × α × α
  | 0, _, An, _, _, _, mul, s => (An, mul, s)
  | k + 1, Q, An, x0, y0, z0, mul, s =>
    if RealLike.leb (mul * RealLike.abs An) Q then
      let lam := RealLike.sqrt x0 * RealLike.sqrt y0 + RealLike.sqrt y0 * RealLike.sqrt z0 + RealLike.sqrt z0 * RealLike.sqrt x0
      let s := s + 1 / (mul * RealLike.sqrt z0 * (z0 + lam))
      rdLoop k Q ((An + lam) / 4) ((x0 + lam) / 4) ((y0 + lam) / 4) ((z0 + lam) / 4) (mul * 4) s
    else (An, mul, s)

/-- `EllipticFunction::RD(x, y, z)` with convergence tolerance `tol` (`tolRD`) -/
def rd (tol x y z : α) : α :=
  let A0 := (x + y + 3 * z) / 5
  let Q := RealLike.max (RealLike.max (RealLike.abs (A0 - x)) (RealLike.abs (A0 - y))) (RealLike.abs (A0 - z)) / tol
  let (An, mul, s) := rdLoop 64 Q A0 x y z 1 0
  let X := (A0 - x) / (mul * An)
  let Y := (A0 - y) / (mul * An)
  let Z := -(X + Y) / 3
  let E2 := X * Y - 6 * Z * Z
  let E3 := (3 * X * Y - 8 * Z * Z) * Z
  let E4 := 3 * (X * Y - Z * Z) * Z * Z
  let E5 := X * Y * Z * Z * Z
  AuxLat.rjTail E2 E3 E4 E5 / (4084080 * mul * An * RealLike.sqrt An) + 3 * s

/-! ### `DAuxLatitude::DE` -/

/-- ellipsoid parameters as the `AuxLatitude` constructor stores them -/
structure Ell (α : Type) where
  f : α
  fm1 : α
  e2 : α
  e2m1 : α
  e12 : α
  e : α
  e1 : α
  b : α

/-- `AuxLatitude::AuxLatitude(a, f)` -/
def ellOf (a f : α) : Ell α :=
  let fm1 := 1 - f
  let e2 := f * (2 - f)
  let e12 := e2 / (1 - e2)
  { f := f, fm1 := fm1, e2 := e2, e2m1 := fm1 * fm1, e12 := e12, e := RealLike.sqrt (RealLike.abs e2), e1 := RealLike.sqrt (RealLike.abs e12), b := a * (1 - f) }

/-- the pieces of `DE` that the theorems speak about -/
structure DEParts (α : Type) where
  d : α
  Dt : α
  t : α
  Dsz : α
  sz : α
  cz : α
  val : α

/-- `Dsin`-like factor of `DE`: `cos((x+y)/2) sinc((y−x)/2)` (`sin` of the mean after the prolate flip, fix 15c4574) -/
def deDs (flip : Bool) (x0 y0 : α) : α :=
  let d := y0 - x0; let dh := d / 2
  (if flip then RealLike.sin ((x0 + y0) / 2) else RealLike.cos ((x0 + y0) / 2)) * (if RealLike.eqb dh 0 then 1 else RealLike.sin dh / dh)

/-- `Dt = tan(z/2)/d` -/
def deDt (k2 Ds sx cx sy cy : α) : α :=
  Ds * (sx + sy) / ((cx + cy) * (sx * RealLike.sqrt (1 - k2 * sy * sy) + sy * RealLike.sqrt (1 - k2 * sx * sx)))

/-- from `d`, `Dt` to the value: `t`, `sin z / d`, `sin z`, `cos z`, `E(z)/sin z` through the kernels, the addition theorem -/
def deTail (RF RD : α → α → α → α) (k2 den d Dt sx sy : α) : DEParts α :=
  let t := d * Dt
  let Dsz := 2 * Dt / (1 + t * t)
  let sz := d * Dsz
  let cz := (1 - t) * (1 + t) / (1 + t * t)
  let sz2 := sz * sz; let cz2 := cz * cz; let dz2 := 1 - k2 * sz2
  let Ezbsz := RF cz2 dz2 1 - k2 * sz2 * RD cz2 dz2 1 / 3
  { d := d, Dt := Dt, t := t, Dsz := Dsz, sz := sz, cz := cz, val := (Ezbsz - k2 * sx * sy) * Dsz / den }

/-- `DAuxLatitude::DE(X, Y)` around the kernels `RF(·, ·, 1)` and `RD(·, ·, 1)` -/
def DEparts (RF RD : α → α → α → α) (E : Ell α) (X Y : Ang α) : DEParts α :=
  let Xn := normalized X; let Yn := normalized Y
  let xy := RealLike.abs Xn.1; let yy := RealLike.abs Yn.1
  let flip := RealLike.ltb E.f 0
  let k2 := if flip then E.e2 else -E.e12
  let x0 := RealLike.atan2 xy Xn.2; let y0 := RealLike.atan2 yy Yn.2
  let sx := if flip then Xn.2 else xy; let cx := if flip then xy else Xn.2
  let sy := if flip then Yn.2 else yy; let cy := if flip then yy else Yn.2
  let Dt := deDt k2 (deDs flip x0 y0) sx cx sy cy
  deTail RF RD k2 (if flip then 1 - E.f else 1) (y0 - x0) Dt sx sy

def DE (RF RD : α → α → α → α) (E : Ell α) (X Y : Ang α) : α := (DEparts RF RD E X Y).val

/-! ### `DAuxLatitude::DRectifying` -/

/-- `AuxLatitude::Parametric(phi)` -/
def parametric (E : Ell α) (phi : Ang α) : Ang α := (phi.1 * E.fm1, phi.2)

/-- values of the exact rectifying latitude that `DRectifying` uses: `Rectifying(phi1, &d)`, `Rectifying(phi2)`, `RectifyingRadius(true)` -/
structure RectK (α : Type) where
  mu1 : Ang α
  d1 : α
  mu2 : Ang α
  rr : α

/-- `DAuxLatitude::DParametric(phi1, phi2)` -/
def DParametricA (E : Ell α) (phi1 phi2 : Ang α) : α := DParametric E.fm1 E.e2m1 (tanA phi1) (tanA phi2)

/-- `DAuxLatitude::DRectifying(phi1, phi2)` -/
def DRectifying (RF RD : α → α → α → α) (E : Ell α) (K : RectK α) (phi1 phi2 : Ang α) : α :=
  let x := radians phi1; let y := radians phi2
  if RealLike.eqb x y then
    if RealLike.eqb phi1.2 0 then 1 / K.d1
    else K.d1 * sq (sc (tanA phi1) / sc (tanA K.mu1))
  else if RealLike.ltb (x * y) 0 then (radians K.mu2 - radians K.mu1) / (y - x)
  else E.b * DE RF RD E (parametric E phi1) (parametric E phi2) / K.rr * DParametricA E phi1 phi2

/-- `DAuxLatitude::DIsometric(phi1, phi2)` (finite tangents) -/
def DIsometricA (E : Ell α) (phi1 phi2 : Ang α) : α := DIsometric E.f E.e2 E.e E.e1 E.fm1 (tanA phi1) (tanA phi2)

/-! ### exact-mode `GenInverse`, `MeanSinXi`, `GenPosition` -/

/-- `dmu/dpsi = DRectifying(phi1, phi2) / DIsometric(phi1, phi2)` -/
def dmudpsiX (RF RD : α → α → α → α) (E : Ell α) (K : RectK α) (phi1 phi2 : Ang α) : α :=
  DRectifying RF RD E K phi1 phi2 / DIsometricA E phi1 phi2

/-- exact `MeanSinXi(chix, chiy)` around `phix = Convert(CHI → PHI, chix, exact)`, `phiy` and the fitted `_pP` (regular case) -/
def meanSinXiX (E : Ell α) (pP : List α) (chix chiy phix phiy : Ang α) : α :=
  let betax := normalized (parametric E phix); let betay := normalized (parametric E phiy)
  let DpbetaDbeta := DClenshaw false (radians betay - radians betax) betax.1 betax.2 betay.1 betay.2 pP
  let tx := tanA chix; let ty := tanA chiy
  let DbetaDpsi := DParametricA E phix phiy / DIsometricA E phix phiy
  Dp0Dpsi tx ty + DpbetaDbeta * DbetaDpsi

/-- kernel values of an exact inverse problem -/
structure InvX (α : Type) where
  chi1 : Ang α
  chi2 : Ang α
  phix : Ang α
  phiy : Ang α
  rect : RectK α
  pP : List α
  rm : α
  c2 : α

/-- exact-mode `GenInverse`, both tangents finite: `(s12, azi12 in degrees, S12)` -/
def genInverseX (RF RD : α → α → α → α) (E : Ell α) (K : InvX α) (phi1 phi2 : Ang α) (lon12 : α) : α × α × α :=
  let lam12 := lon12 * degree
  let psi1 := lam K.chi1; let psi2 := lam K.chi2
  let psi12 := psi2 - psi1
  let azi12 := atan2d lam12 psi12
  let s12 := RealLike.hypot lam12 psi12 * dmudpsiX RF RD E K.rect phi1 phi2 * K.rm
  (s12, azi12, K.c2 * lon12 * meanSinXiX E K.pP K.chi1 K.chi2 K.phix K.phiy)

/-- exact-mode `GenPosition`, regular branch, from the line members (`_phi1`, `_chi1`, `_salp`) and the kernel values
    `phi2 = Convert(MU → PHI, mu2)`, `chi2 = Convert(PHI → CHI, phi2)`: `(lon2x, S12)` -/
def genPositionX (RF RD : α → α → α → α) (E : Ell α) (K : InvX α) (phi1 phi2 : Ang α) (salp r12 : α) : α × α :=
  let dmudpsi := dmudpsiX RF RD E K.rect phi1 phi2
  let lon2x := r12 * salp / dmudpsi
  (lon2x, K.c2 * lon2x * meanSinXiX E K.pP K.chi1 K.chi2 K.phix K.phiy)

end GeoVerif.RhumbX
