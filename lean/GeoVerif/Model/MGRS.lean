import GeoVerif.FP.F64
import GeoVerif.Model.UTMUPS
import GeoVerif.Model.GridCodes
/-!
# MGRS: Forward, Reverse, CheckCoords, UTMRow

Letter tables and integer constants come from `Gen.UTM` (re-extracted from
`MGRS.cpp`/`MGRS.hpp` each run).  The floating part is the scaling
`⌊x·10⁶⌋`, the tile index `⌊x/10⁵⌋`, the `eps` nudges and the latitude
estimate; everything else is integer/letter logic.
-/
namespace GeoVerif.MGRS
open GeoVerif Gen.UTM
open GeoVerif.Grid (lookup chr digitsW upper readNum)

abbrev Err := String

def hemispheres : List Char := mgrs_hemispheresS.toList
def utmcols : List (List Char) := mgrs_utmcolsS.map String.toList
def utmrow : List Char := mgrs_utmrowS.toList
def upscols : List (List Char) := mgrs_upscolsS.map String.toList
def upsrows : List (List Char) := mgrs_upsrowsS.map String.toList
def latband : List Char := mgrs_latbandS.toList
def upsband : List Char := mgrs_upsbandS.toList
def digits : List Char := mgrs_digitsS.toList

def tile : Int := mgrs_tile
def period : Int := mgrs_utmrowperiod     -- 20
def maxS : Int := mgrs_maxutmSrow          -- 100

/-! ## `UTMRow` -/

/-- `c ± …` bounds exactly as the C++ evaluates them in binary64 -/
def rowBoundsF (iband : Int) : Int × Int :=
  let northp : Bool := iband ≥ 0
  let c : F64 := F64.ofInt (100 * (8 * iband + 4)) / F64.ofInt Gen.MathC.qd
  let np : F64 := F64.ofDecimal 1 1 * (if northp then 1 else 0)       -- real(0.1) * northp
  let minrow := if iband > -10 then UTMUPS.fl (c - F64.ofDecimal 43 1 - np) else -90
  let maxrow := if iband < 9 then UTMUPS.fl (c + F64.ofDecimal 44 1 - np) else 94
  (minrow, maxrow)

/-- the special-case test of `UTMRow` (rows 70/71/79/80) -/
def exceptionOK (iband icol irow : Int) : Bool :=
  let sband := if iband ≥ 0 then iband else -iband - 1
  let srow := if irow ≥ 0 then irow else -irow - 1
  let scol := if icol < 4 then icol else -icol + 7
  (srow = 70 ∧ sband = 8 ∧ scol ≥ 2) || (srow = 71 ∧ sband = 7 ∧ scol ≤ 2) ||
  (srow = 79 ∧ sband = 9 ∧ scol ≥ 1) || (srow = 80 ∧ sband = 8 ∧ scol ≤ 1)

/-- `UTMRow` given the (integer) safe bounds -/
def utmRowB (minrow maxrow : Int) (iband icol irow : Int) : Int :=
  let baserow := Int.tdiv (minrow + maxrow) 2 - Int.tdiv period 2
  let irow := Int.tmod (irow - baserow + maxS) period + baserow
  if minrow ≤ irow ∧ irow ≤ maxrow then irow
  else if exceptionOK iband icol irow then irow else maxS

def utmRow (iband icol irow : Int) : Int :=
  let (mn, mx) := rowBoundsF iband
  utmRowB mn mx iband icol irow

/-! ## `CheckCoords` -/

structure Coords where
  northp : Bool
  x : F64
  y : F64

def eps : F64 := .fin false 1 (-28)       -- ldexp(1, -(53 - 25))
def angeps : F64 := .fin false 1 (-46)    -- ldexp(1, -(53 - 7))

def ftile : F64 := F64.ofInt tile

/-- one coordinate against its half-open tile range `[mn, mx)`: exactly on the excluded upper end it is moved inside by `eps` -/
def clampTile (what : Err) (i mn mx : Int) (v : F64) : Except Err F64 :=
  if i ≥ mn ∧ i < mx then .ok v
  else if i = mx ∧ F64.eq v (F64.ofInt (mx * tile)) then .ok (v - eps)
  else .error what

/-- the UTM northing and hemisphere folded to the hemisphere the point lies in (`iy` = row of the unfolded northing) -/
def foldNorthing (northp : Bool) (iy : Int) (y : F64) : Bool × F64 :=
  if northp ∧ iy < mgrs_minutmNrow then
    let y' := y + F64.ofInt mgrs_utmNshift
    -- a tiny negative northing rounds up to the equator: keep it on the last southern row (fix d94b3ac)
    (false, if F64.eq y' (F64.ofInt (mgrs_maxutmSrow * tile)) then y' - eps else y')
  else if !northp ∧ iy ≥ mgrs_maxutmSrow then
    -- on the equator retain the S hemisphere
    if F64.eq y (F64.ofInt (mgrs_maxutmSrow * tile)) then (false, y - eps) else (true, y - F64.ofInt mgrs_utmNshift)
  else (northp, y)

def checkCoords (utmp northp : Bool) (x y : F64) : Except Err Coords := do
  let imax : F64 := F64.ofInt 2147483647
  if !(F64.lt (F64.abs x) imax && F64.lt (F64.abs y) imax) then throw "not in MGRS range (infinite or huge)"
  let ix := UTMUPS.fl (x / ftile)
  let iy := UTMUPS.fl (y / ftile)
  let i := UTMUPS.ind utmp northp
  -- `y / tile_` underflows to −0 for a tiny negative `y`, which then passes as row 0: the code sets `y = 0` (fix 5b59a93)
  let y0 : F64 := if F64.lt y 0 && iy == 0 then 0 else y
  let x1 ← clampTile "easting out of range" ix (mgrs_tbl_mineasting.getD i 0) (mgrs_tbl_maxeasting.getD i 0) x
  let y1 ← clampTile "northing out of range" iy (mgrs_tbl_minnorthing.getD i 0) (mgrs_tbl_maxnorthing.getD i 0) y0
  if utmp then
    let (n, y2) := foldNorthing northp iy y1
    pure ⟨n, x1, y2⟩
  else pure ⟨northp, x1, y1⟩

/-! ## Forward -/

/-- the integer/letter part of `MGRS::Forward`: `ix = ⌊x·10⁶⌋`, `iy = ⌊y·10⁶⌋`, `iband` the latitude band -/
def encodeInt (zone : Int) (northp : Bool) (ix iy : Int) (iband : Int) (prec : Int) : Except Err (List Char) := do
  let utmp := zone ≠ 0
  let m : Int := mgrs_mult * tile
  let xh := Int.tdiv ix m
  let yh := Int.tdiv iy m
  let zone1 := zone - 1
  let head : List Char := if utmp then [chr digits (Int.tdiv zone mgrs_base).toNat, chr digits (Int.tmod zone mgrs_base).toNat] else []
  let letters : List Char ←
    if utmp then
      let icol := xh - mgrs_minutmcol
      let irow := utmRow iband icol (Int.tmod yh period)
      if irow ≠ yh - (if northp then mgrs_minutmNrow else mgrs_maxutmSrow) then throw "latitude inconsistent with UTM coordinates"
      pure [chr latband (10 + iband).toNat,
            chr (utmcols.getD (Int.tmod zone1 3).toNat []) icol.toNat,
            chr utmrow (Int.tmod (yh + (if zone1 % 2 = 1 then mgrs_utmevenrowshift else 0)) period).toNat]
    else
      let eastp : Bool := xh ≥ mgrs_upseasting
      let ib : Nat := (if northp then 2 else 0) + (if eastp then 1 else 0)
      pure [chr upsband ib,
            chr (upscols.getD ib []) (xh - (if eastp then mgrs_upseasting else (if northp then mgrs_minupsNind else mgrs_minupsSind))).toNat,
            chr (upsrows.getD (if northp then 1 else 0) []) (yh - (if northp then mgrs_minupsNind else mgrs_minupsSind)).toNat]
  let digs : List Char :=
    if prec > 0 then
      let d : Int := mgrs_base ^ (mgrs_maxprec - prec).toNat
      let dx := Int.tdiv (ix - m * xh) d
      let dy := Int.tdiv (iy - m * yh) d
      digitsW digits 10 prec.toNat dx.toNat ++ digitsW digits 10 prec.toNat dy.toNat
    else []
  let mlen := (head.length : Int) + 3 + 2 * prec
  pure ((head ++ letters ++ digs).take mlen.toNat)

/-- `MGRS::Forward(zone, northp, x, y, lat, prec, mgrs)` -/
def forwardLat (zone : Int) (northp : Bool) (x y lat : F64) (prec : Int) : Except Err (List Char) := do
  if zone = zINVALID || x.isNaN || y.isNaN || lat.isNaN then return "INVALID".toList
  let utmp := zone ≠ 0
  let c ← checkCoords utmp northp x y
  if !(zone ≥ zMINZONE ∧ zone ≤ zMAXZONE) then throw "zone not in [0,60]"
  if !(prec ≥ -1 ∧ prec ≤ mgrs_maxprec) then throw "precision not in [-1,11]"
  let xx := c.x * F64.ofInt mgrs_mult
  let yy := c.y * F64.ofInt mgrs_mult
  let ix := UTMUPS.fl xx
  let iy := UTMUPS.fl yy
  let iband : Int :=
    if F64.lt (F64.abs lat) angeps then (if c.northp then 0 else -1) else UTMUPS.latitudeBand lat
  encodeInt zone c.northp ix iy iband prec

/-- does the lat-less overload need the accurate latitude?  (returns the estimate otherwise) -/
def latEstimate (northp : Bool) (y : F64) : Option F64 :=
  let ys := if northp then y else y - F64.ofInt mgrs_utmNshift
  let ys := ys / ftile
  if F64.lt (F64.abs ys) 1 then some (F64.ofDecimal 9 1 * ys)
  else
    let latp := F64.ofDecimal 901 3 * ys + (if F64.gt ys 0 then (1 : F64) else F64.ofInt (-1)) * F64.ofDecimal 135 3
    let late := F64.ofDecimal 902 3 * ys * ((1 : F64) - F64.ofDecimal 185 8 * ys * ys)
    if UTMUPS.latitudeBand latp = UTMUPS.latitudeBand late then some latp else none

/-- `MGRS::Forward(zone, northp, x, y, prec, mgrs)`; `latKernel` = latitude from `UTMUPS::Reverse` (used only when the cheap bounds straddle a band edge) -/
def forward (zone : Int) (northp : Bool) (x y : F64) (prec : Int) (latKernel : Except Err F64) : Except Err (List Char) := do
  let lat ←
    if zone > 0 then
      match latEstimate northp y with
      | some l => pure l
      | none => latKernel
    else pure (0 : F64)
  forwardLat zone northp x y lat prec

/-! ## Reverse -/

structure Rev where
  zone : Int
  northp : Bool
  x : F64
  y : F64
  prec : Int

/-- integer-level result of decoding: tile-scaled numerators `x1`, `y1` over `unit` -/
structure Dec where
  zone : Int
  northp : Bool
  x1 : Int
  y1 : Int
  unit : Int
  prec : Int
deriving Repr, DecidableEq

inductive RevOut where
  | invalid
  | gridzone (zone : Int) (northp : Bool) (iband : Int)
  | cell (d : Dec)

def decodeInt (s : List Nat) (centerp : Bool) : Except Err RevOut := do
  let len := s.length
  if len ≥ 3 && (s.take 3).map upper == [73, 78, 86] then return .invalid
  -- leading digits (at most three are read)
  let ds := (s.takeWhile (fun c => (lookup digits c).isSome)).take 3
  let p := ds.length
  let zone1 : Int := ds.foldl (fun (a : Int) c => 10 * a + ((lookup digits c).getD 0 : Nat)) 0
  if p > 0 ∧ !(zone1 ≥ zMINUTMZONE ∧ zone1 ≤ zMAXUTMZONE) then throw "zone not in [1,60]"
  if p > 2 then throw "more than 2 digits"
  if len < p + 1 then throw "too short"
  let utmp := zone1 ≠ zUPS
  let zonem1 := zone1 - 1
  let band := if utmp then latband else upsband
  let iband ← match lookup band (s.getD p 0) with | none => throw "band letter" | some k => pure (k : Int)
  let northp1 : Bool := iband ≥ (if utmp then 10 else 2)
  let p := p + 1
  if p = len then return .gridzone zone1 northp1 iband
  if len < p + 2 then throw "missing row letter"
  let col := if utmp then utmcols.getD (Int.tmod zonem1 3).toNat [] else upscols.getD iband.toNat []
  let row := if utmp then utmrow else upsrows.getD (if northp1 then 1 else 0) []
  let icol ← match lookup col (s.getD p 0) with | none => throw "column letter" | some k => pure (k : Int)
  let irow ← match lookup row (s.getD (p + 1) 0) with | none => throw "row letter" | some k => pure (k : Int)
  let p := p + 2
  let (icol, irow) ←
    if utmp then
      let irow := if zonem1 % 2 = 1 then Int.tmod (irow + period - mgrs_utmevenrowshift) period else irow
      let irow := utmRow (iband - 10) icol irow
      if irow = maxS then throw "block not in zone/band"
      pure (icol + mgrs_minutmcol, if northp1 then irow else irow + 100)
    else
      let eastp : Bool := iband % 2 = 1
      pure (icol + (if eastp then mgrs_upseasting else (if northp1 then mgrs_minupsNind else mgrs_minupsSind)),
            irow + (if northp1 then mgrs_minupsNind else mgrs_minupsSind))
  let prec1 := (len - p) / 2
  -- the digit loop: easting digits then northing digits, `prec1` each (a non-digit anywhere is an error)
  let east := (s.drop p).take prec1
  let north := (s.drop (p + prec1)).take prec1
  let (ex, ny) ← match readNum digits 10 east, readNum digits 10 north with
    | some a, some b => pure (a, b)
    | _, _ => throw "non-digit"
  let mut unit : Int := mgrs_base ^ prec1
  let mut x1 : Int := icol * mgrs_base ^ prec1 + ex
  let mut y1 : Int := irow * mgrs_base ^ prec1 + ny
  if (len - p) % 2 = 1 then throw "odd number of digits (or non-digit)"
  if (prec1 : Int) > mgrs_maxprec then throw "more than 22 digits"
  if centerp then
    unit := unit * 2; x1 := 2 * x1 + 1; y1 := 2 * y1 + 1
  pure (.cell ⟨zone1, northp1, x1, y1, unit, prec1⟩)

def reverse (s : List Nat) (centerp : Bool) : Except Err Rev := do
  match ← decodeInt s centerp with
  | .invalid => pure ⟨zINVALID, false, .nan, .nan, -2⟩
  | .gridzone zone northp iband =>
    let deg : F64 := F64.ofInt mgrs_utmNshift / F64.ofInt (Gen.MathC.qd * tile)
    if zone ≠ 0 then
      let x := F64.ofInt ((if zone = 31 ∧ iband = 17 then 4 else 5) * tile)
      let half : F64 := .fin false 1 (-1)
      let nine5 : F64 := .fin false 19 (-1)
      let y := F64.floor ((8 : F64) * (F64.ofInt iband - nine5) * deg + half) * ftile + F64.ofInt (if northp then 0 else mgrs_utmNshift)
      pure ⟨zone, northp, x, y, -1⟩
    else
      let half : F64 := .fin false 1 (-1)
      let x := (F64.ofInt (if iband % 2 = 1 then 1 else -1) * F64.floor ((4 : F64) * deg + half) + F64.ofInt mgrs_upseasting) * ftile
      let y := F64.ofInt (mgrs_upseasting * tile)
      pure ⟨zone, northp, x, y, -1⟩
  | .cell d =>
    -- `(tile_ * x1) / unit` in `real`: the product exceeds 2^53 at the finest precisions and rounds
    pure ⟨d.zone, d.northp, (ftile * F64.ofInt d.x1) / F64.ofInt d.unit, (ftile * F64.ofInt d.y1) / F64.ofInt d.unit, d.prec⟩


/-! ## `MGRS::Decode` — the public splitter

`find_first_not_of(digits_)` / `find_first_of(alpha_)` test plain membership of the byte in the C string (no case folding;
`alpha_` lists both cases and leaves out I and O; a NUL byte is in neither set). -/

def alpha : List Char := mgrs_alphaS.toList

def inSet (t : List Char) (c : Nat) : Bool := t.any fun ch => ch.toNat == c

structure Parts where
  gridzone : List Nat
  block : List Nat
  easting : List Nat
  northing : List Nat
deriving DecidableEq, Repr

/-- `MGRS::Decode`.  `d` = the leading digits (`[0, p0)`), `a` = the byte at `p0`, `al` = the further letters (`[p0 + 1, p1)`), `t` = the rest (`[p1, n)`) -/
def decode (s : List Nat) : Except Err Parts :=
  if s.length ≥ 3 && (s.take 3).map upper == [73, 78, 86] then .ok ⟨s.take 3, [], [], []⟩
  else
    let d := s.takeWhile (inSet digits)
    match s.dropWhile (inSet digits) with
    | [] => .error "ref does not contain alpha chars"
    | a :: r =>
      if !(d.length ≤ 2) then .error "ref does not start with 0-2 digits"
      else if !(inSet alpha a) then .error "ref contains non alphanumeric chars"
      else
        let al := r.takeWhile (inSet alpha)
        let t := r.dropWhile (inSet alpha)
        if !(al.length = 0 ∨ al.length = 2) then .error "ref must contain 1 or 3 alpha chars"
        else if al.length = 0 ∧ t ≠ [] then .error "ref contains junk after 1 alpha char"
        else if !(t.all (inSet digits)) then .error "ref contains junk at end"
        else if t.length % 2 = 1 then .error "ref must end with even no of digits"
        else .ok ⟨d ++ [a], al, t.take (t.length / 2), t.drop (t.length / 2)⟩

/-! ## GeoCoords::MGRSRepresentation / AltMGRSRepresentation -/

/-- `prec = max(-1, min(6, prec) + 5)` -/
def repPrec (prec : Int) : Int := max (-1) (min 6 prec + 5)

/-- `MGRS::Forward(zone, _northp, easting, northing, _lat, prec', mgrs)` on the fields of the object -/
def mgrsRepresentation (zone : Int) (northp : Bool) (x y lat : F64) (prec : Int) : Except Err (List Char) :=
  forwardLat zone northp x y lat (repPrec prec)

end GeoVerif.MGRS
