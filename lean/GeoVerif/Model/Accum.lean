import GeoVerif.Model.MathF
/-!
# `Accumulator<double>` (include/GeographicLib/Accumulator.hpp) over the exact binary64 model

The pair `(_s, _t)` and every public mutating member: construction / `operator=`, `+=`, `-=`, `*= int`, `*= T` (two `fma`s),
`remainder`, plus the state machine `run` over operation lists that the theorems of `Props/C16.lean` are about and that the
driver executes against the implementation step by step.
-/
namespace GeoVerif.Accum
open GeoVerif F64

structure Acc where
  s : F64
  t : F64

/-- `Accumulator()` / `operator=(T y)` -/
def set (y : F64) : Acc := ⟨y, 0⟩

/-- `Accumulator::fastsum(u, v, t)` (private, "requires abs(u) >= abs(v)", currently unused by the library): returns `(s, t)` -/
def fastsum (u v : F64) : F64 × F64 :=
  let s := u + v
  let vp := s - u
  (s, v - vp)

/-- `Accumulator::Add(T y)` -/
def add (a : Acc) (y : F64) : Acc :=
  let p := MathF.sum y a.t        -- y = sum(y, _t, u)
  let q := MathF.sum p.1 a.s      -- _s = sum(y, _s, _t)
  if F64.eq q.1 0 then ⟨p.2, q.2⟩ else ⟨q.1, q.2 + p.2⟩

/-- `operator-=(T y)` is `Add(-y)` -/
def sub (a : Acc) (y : F64) : Acc := add a (F64.neg y)

/-- `operator*=(int n)` for `n = −1`: `_s *= n; _t *= n` (exact sign flips) -/
def negate (a : Acc) : Acc := ⟨F64.neg a.s, F64.neg a.t⟩

/-- `operator*=(int n)`: `_s *= n; _t *= n` (the `int` is converted to `T` exactly) -/
def mulInt (a : Acc) (n : Int) : Acc := ⟨a.s * F64.ofInt n, a.t * F64.ofInt n⟩

/-- `std::fma(a, b, c)`: the exact `a·b + c` rounded once -/
def fma (a b c : F64) : F64 :=
  match a, b, c with
  | .fin sa _ _, .fin sb _ _, .fin sc _ _ =>
    F64.rnd (Dy.add (Dy.mul a.toDy b.toDy) c.toDy) ((sa != sb) && sc)
  | _, _, _ => a * b + c        -- NaN / infinity propagation (not reached by the finite histories the driver models)

/-- `operator*=(T y)`: `d = _s; _s *= y; d = fma(y, d, -_s); _t = fma(y, _t, d)` -/
def mulF (a : Acc) (y : F64) : Acc :=
  let s' := a.s * y
  let d := fma y a.s (F64.neg s')
  ⟨s', fma y a.t d⟩

/-- `remainder(T y)`: `_s = remainder(_s, y); Add(0)` -/
def remainder (a : Acc) (y : F64) : Acc := add ⟨F64.remainder a.s y, a.t⟩ 0

/-- `operator()()`: the reported value -/
def report (a : Acc) : F64 := a.s

/-- `operator()(T y)` = `Sum(y)`: the reported value of a copy after `Add(y)` -/
def sumQuery (a : Acc) (y : F64) : F64 := (add a y).s

/-- the mutating public operations -/
inductive Op where
  | set (y : F64)        -- `operator=(T)` / construction + copy-assignment
  | add (y : F64)        -- `+=`
  | sub (y : F64)        -- `-=`
  | neg                  -- `*= -1`
  | mulInt (n : Int)     -- `*= int`
  | mulF (y : F64)       -- `*= T`
  | rem (y : F64)        -- `remainder(T)`
  | nop                  -- copy round trip and the `const` members (`operator()`, `operator()(T)`, comparisons)

def step (a : Acc) : Op → Acc
  | .set y => set y
  | .add y => add a y
  | .sub y => sub a y
  | .neg => negate a
  | .mulInt n => mulInt a n
  | .mulF y => mulF a y
  | .rem y => remainder a y
  | .nop => a

/-- a history applied to the default-constructed accumulator is `run (set 0) ops` -/
def run (a : Acc) (ops : List Op) : Acc := ops.foldl step a

/-- exact value held by the accumulator, as a dyadic -/
def held (a : Acc) : Dy := Dy.add a.s.toDy a.t.toDy

end GeoVerif.Accum
