import GeoVerif.Model.MathF
/-!
# `Accumulator<double>` (include/GeographicLib/Accumulator.hpp) over the exact binary64 model

The pair `(_s, _t)` and the operations that need no `fma`: `Add`, assignment, `-=`, `*= -1`.
-/
namespace GeoVerif.Accum
open GeoVerif F64

structure Acc where
  s : F64
  t : F64

/-- `Accumulator()` / `operator=(T y)` -/
def set (y : F64) : Acc := ⟨y, 0⟩

/-- `Accumulator::Add(T y)` -/
def add (a : Acc) (y : F64) : Acc :=
  let p := MathF.sum y a.t        -- y = sum(y, _t, u)
  let q := MathF.sum p.1 a.s      -- _s = sum(y, _s, _t)
  if F64.eq q.1 0 then ⟨p.2, q.2⟩ else ⟨q.1, q.2 + p.2⟩

/-- `operator-=(T y)` is `Add(-y)` -/
def sub (a : Acc) (y : F64) : Acc := add a (F64.neg y)

/-- `operator*=(int n)` for `n = −1`: `_s *= n; _t *= n` (exact sign flips) -/
def negate (a : Acc) : Acc := ⟨F64.neg a.s, F64.neg a.t⟩

end GeoVerif.Accum
