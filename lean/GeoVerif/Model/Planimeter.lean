/-!
# tools/Planimeter: how input lines are grouped into polygons

Every input line is either a vertex (`true`) or something that is not a vertex — a blank line, text that does not
decode, a NaN — which ends the current polygon (`false`); the end of the input ends the last polygon.  A polygon
with at least one vertex gives exactly one output line, which starts with its number of vertices.
-/
namespace GeoVerif.Planimeter

/-- the vertex counts printed, in order; `n` = vertices of the polygon being read -/
def segments : List Bool → Nat → List Nat
  | [], n => if n = 0 then [] else [n]
  | true :: r, n => segments r (n + 1)
  | false :: r, n => if n = 0 then segments r 0 else n :: segments r 0

end GeoVerif.Planimeter
