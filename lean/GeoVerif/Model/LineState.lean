import GeoVerif.Model.Mask
/-!
# The third point of a line object as a state machine (C12)

`GeodesicLine` / `GeodesicLineExact` (and the `GeodesicLine` of a `Geodesic(a, f, exact = true)`) carry a mutable *third
point* `(_a13, _s13)` next to the immutable capabilities `_caps`.  This file models, exactly as the code is written
(`GeodesicLine.cpp` 311–329, its twin in `GeodesicLineExact.cpp`, `Geodesic.cpp` 145–166 and 532–556, the readers in the
two headers), every operation that sets or reads it:

* constructors: `Line(lat, lon, azi, caps)`, the default constructor, `GenDirectLine` / `DirectLine` / `ArcDirectLine`,
  `InverseLine`;
* setters: `SetDistance`, `SetArc`, `GenSetDistance(arcmode, x)`;
* readers: `Distance()`, `Arc()`, `GenDistance(arcmode)`, `Capabilities()`, `Capabilities(testcaps)`.

The numerics are two abstract kernels: `arcOf s` is what `GenPosition(false, s, 0u, …)` returns on a line that can
locate the point, `distOf a` is the `s12` that `GenPosition(true, a, DISTANCE, …)` assigns on a line that has the
`DISTANCE` capability.  In the correspondence the kernels are filled with values obtained from *fresh* objects of the
implementation (same start, every capability), the values are tokens (16 hex digits of the bit pattern, `nan` for any
NaN), and the object that has lived through the whole history is compared with this machine bit for bit.
-/
namespace GeoVerif.LineState
open GeoVerif.Mask

/-- numeric kernels of one line (start point and ellipsoid fixed) -/
structure Kern (α : Type) where
  nan : α
  arcOf : α → α
  distOf : α → α

/-- the mutable part of a line object together with `_caps` (`caps = 0` ⇔ default-constructed: `Init()` is false) -/
structure St (α : Type) where
  caps : Nat
  a13 : α
  s13 : α
deriving Repr, DecidableEq

/-- `Init()`: `_caps != 0U` -/
def St.init {α : Type} (st : St α) : Bool := st.caps != 0

/-- the guard of `GenPosition` on the field `_caps`:
    `Init() && (arcmode || (_caps & (OUT_MASK & DISTANCE_IN)))` -/
def canLocate (e : Enum) (rc : Nat) (arcmode : Bool) : Bool :=
  rc != 0 && (arcmode || (rc &&& (e.outMask &&& e.distanceIn)) != 0)

/-- does `GenPosition(true, a, DISTANCE, …)` assign `s12`?  `outmask &= _caps & OUT_MASK; … if (outmask & DISTANCE)` -/
def assignsS12 (e : Enum) (rc : Nat) : Bool :=
  canLocate e rc true && ((e.distance &&& (rc &&& e.outMask)) &&& e.distance) != 0

/-- what a call `GenPosition(arcmode, x, outmask, …, s12 := old, …)` leaves in the variable passed for `s12` -/
def genPositionS12 {α : Type} (e : Enum) (K : Kern α) (rc : Nat) (a old : α) : α :=
  if assignsS12 e rc then K.distOf a else old

/-- the value `GenPosition(false, s, 0u, …)` returns -/
def genPositionRet {α : Type} (e : Enum) (K : Kern α) (rc : Nat) (s : α) : α :=
  if canLocate e rc false then K.arcOf s else K.nan

/-- `SetDistance(s13)`: `_s13 = s13; _a13 = GenPosition(false, _s13, 0u, t, …)` -/
def setDistance {α : Type} (e : Enum) (K : Kern α) (st : St α) (s : α) : St α :=
  let st1 := { st with s13 := s }
  { st1 with a13 := genPositionRet e K st1.caps st1.s13 }

/-- `SetArc(a13)`: `_a13 = a13; _s13 = NaN; GenPosition(true, _a13, DISTANCE, t, t, t, _s13, t, …)` -/
def setArc {α : Type} (e : Enum) (K : Kern α) (st : St α) (a : α) : St α :=
  let st1 := { st with a13 := a }
  let st2 := { st1 with s13 := K.nan }
  { st2 with s13 := genPositionS12 e K st2.caps st2.a13 st2.s13 }

inductive Op (α : Type) where
  | setDistance (s : α)
  | setArc (a : α)
  | genSetDistance (arcmode : Bool) (x : α)
deriving Repr

inductive Rd where
  | distance | arc | genDistance (arcmode : Bool)
deriving Repr, DecidableEq

/-- one setter call; `GenSetDistance`: `arcmode ? SetArc(x) : SetDistance(x)` -/
def step {α : Type} (e : Enum) (K : Kern α) (st : St α) : Op α → St α
  | .setDistance s => setDistance e K st s
  | .setArc a => setArc e K st a
  | .genSetDistance arcmode x => if arcmode then setArc e K st x else setDistance e K st x

/-- `GenDistance(arcmode)`: `Init() ? (arcmode ? _a13 : _s13) : NaN` -/
def genDistance {α : Type} (K : Kern α) (st : St α) (arcmode : Bool) : α :=
  if st.init then (if arcmode then st.a13 else st.s13) else K.nan

/-- `Distance()` = `GenDistance(false)`, `Arc()` = `GenDistance(true)` -/
def read {α : Type} (K : Kern α) (st : St α) : Rd → α
  | .distance => genDistance K st false
  | .arc => genDistance K st true
  | .genDistance arcmode => genDistance K st arcmode

/-- a history: setter calls interleaved with reader calls (copying the object is the identity on the state) -/
inductive Ev (α : Type) where
  | set (o : Op α)
  | get (r : Rd)
  | copy
deriving Repr

/-- final state and the list of values the readers returned, in order -/
def run {α : Type} (e : Enum) (K : Kern α) : St α → List (Ev α) → St α × List α
  | st, [] => (st, [])
  | st, .set o :: t => run e K (step e K st o) t
  | st, .get r :: t => let p := run e K st t; (p.1, read K st r :: p.2)
  | st, .copy :: t => run e K st t

/-- the last setter call of a history -/
def lastSet {α : Type} : List (Ev α) → Option (Op α)
  | [] => none
  | .set o :: t => (match lastSet t with | some o' => some o' | none => some o)
  | _ :: t => lastSet t

/-- the state a line with the capabilities of `st` and a third point never set reaches from the last setter call of `h`
    alone (`st` itself when `h` has no setter call) -/
def fromLastSet {α : Type} (e : Enum) (K : Kern α) (st : St α) (h : List (Ev α)) : St α :=
  match lastSet h with
  | none => st
  | some o => step e K ⟨st.caps, K.nan, K.nan⟩ o

/-! ### constructors -/

/-- a line whose third point has not been set: `LineInit` ends with `_a13 = _s13 = NaN` -/
def fresh {α : Type} (K : Kern α) (rc : Nat) : St α := ⟨rc, K.nan, K.nan⟩

/-- `GeodesicLine(g, lat1, lon1, azi1, caps)` / `Geodesic::Line`: `_caps = caps | LATITUDE | AZIMUTH | LONG_UNROLL` -/
def lineInit {α : Type} (e : Enum) (K : Kern α) (caps : Nat) : St α := fresh K (lineCaps e caps)

/-- the default constructor: `_caps(0U)` (the other fields are indeterminate in C++ and unobservable: every reader
    tests `Init()` first) -/
def defaultLine {α : Type} (K : Kern α) : St α := fresh K 0

/-- `GenDirectLine`: `if (!arcmode) caps |= DISTANCE_IN;` then the constructor that ends with `GenSetDistance(arcmode, x)` -/
def genDirectLine {α : Type} (e : Enum) (K : Kern α) (caps : Nat) (arcmode : Bool) (x : α) : St α :=
  step e K (lineInit e K (if arcmode then caps else caps ||| e.distanceIn)) (.genSetDistance arcmode x)

def directLine {α : Type} (e : Enum) (K : Kern α) (caps : Nat) (s : α) : St α := genDirectLine e K caps false s
def arcDirectLine {α : Type} (e : Enum) (K : Kern α) (caps : Nat) (a : α) : St α := genDirectLine e K caps true a

/-- `InverseLine`: `a12` is the arc `GenInverse` returned; `if (caps & (OUT_MASK & DISTANCE_IN)) caps |= DISTANCE;`
    then the constructor with `arcmode = true` -/
def inverseLine {α : Type} (e : Enum) (K : Kern α) (caps : Nat) (a12 : α) : St α :=
  step e K (lineInit e K (if (caps &&& (e.outMask &&& e.distanceIn)) != 0 then caps ||| e.distance else caps))
    (.genSetDistance true a12)

/-- `Capabilities(testcaps)`: `testcaps &= OUT_ALL; return (_caps & testcaps) == testcaps;` -/
def capabilitiesTest {α : Type} (e : Enum) (st : St α) (testcaps : Nat) : Bool :=
  (st.caps &&& (testcaps &&& e.outAll)) == (testcaps &&& e.outAll)

end GeoVerif.LineState
