import GeoVerif.Model.StrKey
/-!
# The public API of the library as an inventory (C13)

`Fn` is one public constructor / member function / static member function of a class declared in
`include/GeographicLib/*.hpp`.  The list itself (`Gen/ApiC13.lean`) is regenerated from the clang AST of the public headers
on every run by `tools/translate.d/C13.py` (`gen_apic13`).

`key` is `Class.name/<parameter codes>><return code>` (it distinguishes overloads) with its numeric code (Model/StrKey.lean).
Parameter codes (`sig`, one character per parameter; lower case = input, upper case = output, i.e. a non-const reference
or pointer):
`r` real · `t` value of a template type (`T`, `dist_t`) · `q` array of reals · `i` int · `u` unsigned · `b` bool · `c` char ·
`l` long long · `z` size_t · `s` string (`const std::string&`) · `k` C string (`const char*`) · `v` `std::vector<real>` ·
`w` other vector · `f` `std::istream&` · `g` `std::ostream&` · `a` `AuxAngle` · `p` `Intersect::Point` (pair of reals) ·
`h` `std::function` · `e` enum · `o` object of a library class · `?` anything else.
`ret`: the code of the return type, `-` for `void` and constructors.
Everything the obligations compute from a signature is computed from the character list `sig` (cheap in the kernel); that the key
string ends in exactly `/sig>ret` is part of `Fn.wf`.
Core Lean only.
-/
namespace GeoVerif.ApiInventory

structure Fn where
  key : Key
  kind : Nat          -- 0 constructor, 1 member function, 2 static member function
  sig : List Char
  ret : Char
  templ : Bool        -- member of a class template, or a member function template
deriving Repr

/-- codes of inputs that carry floating-point numbers, text, vectors, streams or callbacks -/
def isInputCode (c : Char) : Bool :=
  c = 'r' || c = 't' || c = 'q' || c = 's' || c = 'k' || c = 'v' || c = 'w' || c = 'f' || c = 'h' || c = 'a' || c = 'p'

/-- "at least one floating-point or string / vector / file input" -/
def Fn.hasIn (f : Fn) : Bool := f.sig.any isInputCode
def Fn.isCtor (f : Fn) : Bool := f.kind == 0
/-- number of real (or template-valued) by-value parameters: the argument positions of the special-value sweep -/
def Fn.nReal (f : Fn) : Nat := (f.sig.filter fun c => c = 'r' || c = 't').length
/-- number of outputs: reference / pointer outputs plus the return value (objects returned by value are not counted) -/
def Fn.nOut (f : Fn) : Nat := (f.sig.filter fun c => c.isUpper).length + (if f.ret = '-' || f.ret = 'o' then 0 else 1)
/-- the input part of the signature -/
def Fn.ins (f : Fn) : List Char := f.sig.filter fun c => !c.isUpper

/-- the bytes `/sig>ret` as a base-256 number (all codes are ASCII) -/
def Fn.tailCode (f : Fn) : Nat := (('/' :: f.sig) ++ ['>', f.ret]).foldl (fun a c => a * 256 + c.toNat) 0
def Fn.tailLen (f : Fn) : Nat := f.sig.length + 3
/-- the numeric code of the `Class.name` part of the key: equal for overloads -/
def Fn.group (f : Fn) : Nat := f.key.code / 256 ^ f.tailLen
/-- the key ends in `/sig>ret` (checked on the numeric code) -/
def Fn.wf (f : Fn) : Bool := f.key.code % 256 ^ f.tailLen == f.tailCode && f.group != 0

end GeoVerif.ApiInventory
