/-!
# `NearestNeighbor.hpp`: the vantage-point tree exactly as stored, and `Search` as the code does it

Core Lean only (compiled into the driver).  Distances are `Int` (the class is
templated on a signed `dist_t`; the harness instantiates it with `long long`,
so that the arithmetic `dst + upper`, `lower - dst`, `tau - tol` is exact and
the data are tie-rich).

* `Node` — one element of `_tree`: `index ≥ 0` ⇒ `data.lower[2]`,
  `data.upper[2]`, `data.child[2]`; `index < 0` ⇒ `leaves[0 … bucket)`.
* `search` — line by line: `results` is a `std::priority_queue<pair<dist,int>>`
  (observable behaviour: `top` is the lexicographic maximum; model: ascending
  list, `top` = last, `pop` = `dropLast`), `todo` likewise (model: descending
  list, `top` = head), `tau`, `tau1 = tau - tol`, the `mindist`/`maxdist`
  tests with the code's open/closed conventions, `exhaustive`, `exitflag`.
  Fuel = `_numpoints` pops of `todo`; `none` = fuel exhausted or a node index
  outside the array (undefined behaviour in C++), never for a tree satisfying
  the invariant (theorem `search_total` in `Props/C17.lean`).
* `save` / `load` — the text layout of `Save(os, false)` / `Load(is, false)`
  on the level of integer tokens, with `Node::Check` including the
  child-before-parent test and the shared-child rejection (fix 90dea91).
* `init` — `Initialize`/`init`: the recursive construction (vantage point,
  distances, `nth_element` as a parameter, bounds, children before the
  parent, bucket leaves).
-/
namespace GeoVerif.VPTree

inductive Node where
  /-- `index ≥ 0`: vantage point, bounds and children (`-1` = no child) -/
  | inner (index : Nat) (lo0 up0 c0 lo1 up1 c1 : Int)
  /-- `index < 0`: the `bucket` leaf slots, `-1` = end marker -/
  | leaf (leaves : List Int)
deriving Repr, BEq, DecidableEq, Inhabited

/-- `pair<dist_t, int>` -/
abbrev Item := Int × Int

/-- `operator<` of `std::pair` -/
def lexLt (a b : Item) : Bool := a.1 < b.1 || (a.1 == b.1 && a.2 < b.2)

/-- `results.push` on the ascending representation (`top` = last element) -/
def insAsc (x : Item) : List Item → List Item
  | [] => [x]
  | y :: ys => if lexLt x y then x :: y :: ys else y :: insAsc x ys

/-- `todo.push` on the descending representation (`top` = head) -/
def insDesc (x : Item) : List Item → List Item
  | [] => [x]
  | y :: ys => if lexLt y x then x :: y :: ys else y :: insDesc x ys

/-- `results.top().first` -/
def topDist (r : List Item) : Int := match r.getLast? with | some x => x.1 | none => 0

structure Query where
  k : Int
  maxdist : Int
  mindist : Int
  exhaustive : Bool
  tol : Int
deriving Repr

structure St where
  tau : Int
  res : List Item
  exit : Bool
deriving Repr

/-- `results.pop()` if full, `results.push`, then the update of `tau` / `exitflag` (the body of `if (dst > mindist && dst <= tau)`) -/
def accept (Q : Query) (kk : Nat) (s : St) (dst : Int) (index : Nat) : St :=
  let r := insAsc (dst, (index : Int)) (if s.res.length = kk then s.res.dropLast else s.res)
  if r.length = kk then
    if Q.exhaustive then { tau := topDist r, res := r, exit := decide (topDist r ≤ Q.tol) }
    else { s with res := r, exit := true }
  else { s with res := r }

/-- the body of the `for` loop for one point index: `dst = dist(pts[index], query)` and the update of `results`, `tau`, `exitflag` -/
def visit (Q : Query) (kk : Nat) (dq : Nat → Int) (s : St) (index : Nat) : St :=
  if Q.mindist < dq index ∧ dq index ≤ s.tau then accept Q kk s (dq index) index else s

/-- the `for (i < _bucket)` loop over a bucket node: stops at the first negative slot or when `exitflag` is set -/
def visitLeaves (Q : Query) (kk : Nat) (dq : Nat → Int) : St → List Int → St
  | s, [] => s
  | s, i :: is =>
    if i < 0 then s else
    if (visit Q kk dq s i.toNat).exit then visit Q kk dq s i.toNat else visitLeaves Q kk dq (visit Q kk dq s i.toNat) is

/-- one iteration of `for (l < 2)`: the two pruning tests and the push -/
def pushChild (Q : Query) (tau1 dst lo up c : Int) (todo : List Item) : List Item :=
  if 0 ≤ c ∧ Q.mindist ≤ dst + up then
    if dst < lo then
      (if lo - dst ≤ tau1 then insDesc (-(lo - dst), c) todo else todo)
    else if up < dst then
      (if dst - up ≤ tau1 then insDesc (-(dst - up), c) todo else todo)
    else insDesc (1, c) todo
  else todo

/-- `while (!todo.empty())` -/
def loop (tree : Array Node) (bucket : Nat) (dq : Nat → Int) (Q : Query) (kk : Nat) : Nat → List Item → St → Option St
  | _, [], s => some s
  | 0, _ :: _, _ => none
  | f + 1, (prio, n) :: todo, s =>
    if 0 ≤ n ∧ -prio ≤ s.tau - Q.tol then
      match tree[n.toNat]? with
      | none => none
      | some (.leaf ls) =>
        if (visitLeaves Q kk dq s (ls.take bucket)).exit then some (visitLeaves Q kk dq s (ls.take bucket))
        else loop tree bucket dq Q kk f todo (visitLeaves Q kk dq s (ls.take bucket))
      | some (.inner v lo0 up0 c0 lo1 up1 c1) =>
        if (visit Q kk dq s v).exit then some (visit Q kk dq s v) else
        loop tree bucket dq Q kk f
          (pushChild Q ((visit Q kk dq s v).tau - Q.tol) (dq v) lo1 up1 c1
            (pushChild Q ((visit Q kk dq s v).tau - Q.tol) (dq v) lo0 up0 c0 todo))
          (visit Q kk dq s v)
    else loop tree bucket dq Q kk f todo s

/-- `Search`: the heap content at the end, ascending (this is the order in which `ind` is filled) -/
def search (tree : Array Node) (numpoints bucket : Nat) (dq : Nat → Int) (Q : Query) : Option (List Item) :=
  if numpoints > 0 ∧ Q.k > 0 ∧ Q.maxdist > Q.mindist then
    (loop tree bucket dq Q Q.k.toNat numpoints [(1, (tree.size : Int) - 1)] { tau := Q.maxdist, res := [], exit := false }).map (·.res)
  else some []

/-- the function value of `Search` (`-1` if nothing was found) -/
def retDist : List Item → Int
  | [] => -1
  | x :: _ => x.1

/-! ## brute force (the specification) -/

def insInt (x : Int) : List Int → List Int
  | [] => [x]
  | y :: ys => if x < y then x :: y :: ys else y :: insInt x ys

def sortAsc (l : List Int) : List Int := l.foldr insInt []

/-- membership in the distance window: `mindist < d ≤ maxdist` (open below, closed above, as in the code and its documentation) -/
def inWindow (Q : Query) (x : Int) : Bool := Q.mindist < x && x ≤ Q.maxdist

/-- the `k` smallest distances of the points within the window, ascending -/
def bruteforce (numpoints : Nat) (dq : Nat → Int) (Q : Query) : List Int :=
  (sortAsc (((List.range numpoints).map dq).filter (inWindow Q))).take Q.k.toNat

/-! ## the invariant `init` establishes, as an executable check -/

/-- the point indices of a bucket node: slots up to the first negative one -/
def validLeaves : List Int → List Nat
  | [] => []
  | i :: is => if i < 0 then [] else i.toNat :: validLeaves is

/-- points of the subtree of node `n` (`some`) if the subtree is well formed: children are stored before their
    parent, bucket nodes are non-empty, every point of child `l` of a node with vantage point `v` has
    `lower[l] ≤ d v p ≤ upper[l]` -/
def checkSub (tree : Array Node) (bucket : Nat) (d : Nat → Nat → Int) : Nat → Int → Option (List Nat)
  | 0, n => if n < 0 then some [] else none
  | f + 1, n =>
    if n < 0 then some [] else
    match tree[n.toNat]? with
    | none => none
    | some (.leaf ls) =>
      let p := validLeaves (ls.take bucket)
      if p.isEmpty then none else some p
    | some (.inner v lo0 up0 c0 lo1 up1 c1) =>
      if c0 < n ∧ c1 < n then
        match checkSub tree bucket d f c0, checkSub tree bucket d f c1 with
        | some p0, some p1 =>
          if p0.all (fun p => lo0 ≤ d v p && d v p ≤ up0) && p1.all (fun p => lo1 ≤ d v p && d v p ≤ up1)
          then some (v :: (p0 ++ p1)) else none
        | _, _ => none
      else none

def insNat (x : Nat) : List Nat → List Nat
  | [] => [x]
  | y :: ys => if x < y then x :: y :: ys else y :: insNat x ys

/-- `TreeInv` as a decision procedure: the subtree of the root (last node) is well formed and contains every index
    `0 … numpoints-1` exactly once -/
def checkInv (tree : Array Node) (numpoints bucket : Nat) (d : Nat → Nat → Int) : Bool :=
  match checkSub tree bucket d tree.size ((tree.size : Int) - 1) with
  | some pts => pts.foldr insNat [] == List.range numpoints
  | none => false

/-! ## `Save(os, false)` / `Load(is, false)` on integer tokens -/

structure Tree where
  bucket : Int
  numpoints : Int
  cost : Int
  nodes : List Node
deriving Repr, BEq, DecidableEq

def version : Int := 1

def saveNode : Node → List Int
  | .inner v lo0 up0 c0 lo1 up1 c1 => [(v : Int), lo0, up0, c0, lo1, up1, c1]
  | .leaf ls => (-1) :: ls

def saveNodes : List Node → List Int
  | [] => []
  | n :: ns => saveNode n ++ saveNodes ns

def save (realspec : Int) (t : Tree) : List Int :=
  [version, realspec, t.bucket, t.numpoints, (t.nodes.length : Int), t.cost] ++ saveNodes t.nodes

/-- the leaf part of `Node::Check`: at least one valid leaf followed by end markers (`start` as in the code) -/
def checkLeaves (numpoints : Int) : Bool → Bool → List Int → Bool
  | _, _, [] => true
  | first, start, x :: xs =>
    (if start then (if first then 0 else -1) ≤ x && x < numpoints else x == -1) && checkLeaves numpoints false (x ≥ 0) xs

/-- `Node::Check(numpoints, treesize, bucket)`; `Load` passes the node's own position as `treesize` (fix 49e729b) -/
def nodeCheck (numpoints treesize : Int) : Node → Bool
  | .inner v lo0 up0 c0 lo1 up1 c1 =>
    ((v : Int) < numpoints) &&
    (-1 ≤ c0 && c0 < treesize && -1 ≤ c1 && c1 < treesize) &&
    (0 ≤ lo0 && lo0 ≤ up0 && up0 ≤ lo1 && lo1 ≤ up1)
  | .leaf ls => checkLeaves numpoints true true ls

/-- read one node: index, then six numbers or `bucket` leaf slots -/
def loadNode (bucket : Nat) : List Int → Except String (Node × List Int)
  | [] => .error "Bad index"
  | idx :: rest =>
    if idx ≥ 0 then
      match rest with
      | lo0 :: up0 :: c0 :: lo1 :: up1 :: c1 :: rest' => .ok (.inner idx.toNat lo0 up0 c0 lo1 up1 c1, rest')
      | _ => .error "Bad node data"
    else if idx != -1 then .error "Bad index"      -- `Check`: `-1 <= index`
    else if rest.length < bucket then .error "Bad leaf data"
    else .ok (.leaf (rest.take bucket), rest.drop bucket)

/-- the test-and-set `if (used[c]) throw …; used[c] = true` of `Load` for one child pointer (fix 90dea91: each node may be
    the child of at most one parent); `used` is the list of the children claimed so far (`c < i ≤ treesize` by `Check`, so
    the `vector<bool>` access is in range) -/
def claim (used : List Int) (c : Int) : Option (List Int) :=
  if c < 0 then some used else if used.contains c then none else some (c :: used)

/-- `for (l < 2)` over the child pointers of an internal node; bucket nodes claim nothing -/
def claimNode (used : List Int) : Node → Option (List Int)
  | .inner _ _ _ c0 _ _ c1 =>
    match claim used c0 with
    | none => none
    | some u => claim u c1
  | .leaf _ => some used

def loadNodes (bucket : Nat) (numpoints : Int) : Nat → Nat → List Int → List Int → Except String (List Node)
  | 0, _, _, _ => .ok []
  | m + 1, i, used, toks =>
    match loadNode bucket toks with
    | .error e => .error e
    | .ok (node, rest) =>
      -- `-1 <= index` is implied by the two constructors only for index = -1: a stored index < -1 is rejected here
      if !(nodeCheck numpoints (i : Int) node) then .error "Bad node" else
      match claimNode used node with
      | none => .error "Bad child pointers"
      | some used' =>
        match loadNodes bucket numpoints m (i + 1) used' rest with
        | .error e => .error e
        | .ok ns => .ok (node :: ns)

def load (realspec maxbucket : Int) : List Int → Except String Tree
  | version1 :: realspec1 :: bucket :: numpoints :: treesize :: cost :: toks =>
    if version1 != version then .error "Incompatible version"
    else if realspec1 != realspec then .error "Different dist_t types"
    else if !(0 ≤ bucket && bucket ≤ maxbucket) then .error "Bad bucket size"
    else if !(0 ≤ treesize && treesize ≤ numpoints) then .error "Bad number of points or tree size"
    else if !(0 ≤ cost) then .error "Bad value for cost"
    else match loadNodes bucket.toNat numpoints treesize.toNat 0 [] toks with
      | .error e => .error e
      | .ok ns => .ok { bucket := bucket, numpoints := numpoints, cost := cost, nodes := ns }
  | _ => .error "Bad header"

end GeoVerif.VPTree

/-! ## `Save(os, true)` / `Load(is, true)`: the binary layout on bytes (little endian, `int` = 32 bit, `dist_t` = 64 bit) -/
namespace GeoVerif.VPTree

/-- `w` little-endian bytes of the two's-complement representation of `x` -/
def encLE : Nat → Int → List Nat
  | 0, _ => []
  | w + 1, x => (x % 256).toNat :: encLE w (x / 256)

/-- value of little-endian bytes as an unsigned number -/
def decLEu : List Nat → Nat
  | [] => 0
  | b :: bs => b + 256 * decLEu bs

/-- read `w` bytes as a signed two's-complement number -/
def readLE (w : Nat) (bs : List Nat) : Option (Int × List Nat) :=
  if bs.length < w then none else
  let u := decLEu (bs.take w)
  some ((if u < 2 ^ (8 * w - 1) then (u : Int) else (u : Int) - 2 ^ (8 * w)), bs.drop w)

/-- "NearestNeighbor_" -/
def magic : List Nat := [78, 101, 97, 114, 101, 115, 116, 78, 101, 105, 103, 104, 98, 111, 114, 95]

def encInts (w : Nat) : List Int → List Nat
  | [] => []
  | x :: xs => encLE w x ++ encInts w xs

def saveNodeBin : Node → List Nat
  | .inner v lo0 up0 c0 lo1 up1 c1 => encLE 4 (v : Int) ++ encInts 8 [lo0, lo1, up0, up1] ++ encInts 4 [c0, c1]
  | .leaf ls => encLE 4 (-1) ++ encInts 4 ls

def saveNodesBin : List Node → List Nat
  | [] => []
  | n :: ns => saveNodeBin n ++ saveNodesBin ns

def saveBin (realspec : Int) (t : Tree) : List Nat :=
  magic ++ encInts 4 [version, realspec, t.bucket, t.numpoints, (t.nodes.length : Int), t.cost] ++ saveNodesBin t.nodes

def readInts (w : Nat) : Nat → List Nat → Option (List Int × List Nat)
  | 0, bs => some ([], bs)
  | m + 1, bs =>
    match readLE w bs with
    | none => none
    | some (x, rest) =>
      match readInts w m rest with
      | none => none
      | some (xs, rest') => some (x :: xs, rest')

/-- a short read leaves the fields unset in C++ (the stream state is not tested in binary mode); the model rejects -/
def loadNodeBin (bucket : Nat) (bs : List Nat) : Except String (Node × List Nat) :=
  match readLE 4 bs with
  | none => .error "short read"
  | some (idx, rest) =>
    if idx ≥ 0 then
      match readInts 8 4 rest with
      | some ([lo0, lo1, up0, up1], rest1) =>
        match readInts 4 2 rest1 with
        | some ([c0, c1], rest2) => .ok (.inner idx.toNat lo0 up0 c0 lo1 up1 c1, rest2)
        | _ => .error "short read"
      | _ => .error "short read"
    else if idx != -1 then .error "Bad index"
    else match readInts 4 bucket rest with
      | some (ls, rest1) => .ok (.leaf ls, rest1)
      | none => .error "short read"

def loadNodesBin (bucket : Nat) (numpoints : Int) : Nat → Nat → List Int → List Nat → Except String (List Node)
  | 0, _, _, _ => .ok []
  | m + 1, i, used, bs =>
    match loadNodeBin bucket bs with
    | .error e => .error e
    | .ok (node, rest) =>
      if !(nodeCheck numpoints (i : Int) node) then .error "Bad node" else
      match claimNode used node with
      | none => .error "Bad child pointers"
      | some used' =>
        match loadNodesBin bucket numpoints m (i + 1) used' rest with
        | .error e => .error e
        | .ok ns => .ok (node :: ns)

def loadBin (realspec maxbucket : Int) (bs : List Nat) : Except String Tree :=
  if bs.take 16 != magic then .error "Bad ID" else
  match readInts 4 6 (bs.drop 16) with
  | some ([version1, realspec1, bucket, numpoints, treesize, cost], rest) =>
    if version1 != version then .error "Incompatible version"
    else if realspec1 != realspec then .error "Different dist_t types"
    else if !(0 ≤ bucket && bucket ≤ maxbucket) then .error "Bad bucket size"
    else if !(0 ≤ treesize && treesize ≤ numpoints) then .error "Bad number of points or tree size"
    else if !(0 ≤ cost) then .error "Bad value for cost"
    else match loadNodesBin bucket.toNat numpoints treesize.toNat 0 [] rest with
      | .error e => .error e
      | .ok ns => .ok { bucket := bucket, numpoints := numpoints, cost := cost, nodes := ns }
  | _ => .error "short read"

end GeoVerif.VPTree

/-! ## `Initialize` / `init`: the construction of the tree -/
namespace GeoVerif.VPTree

/-- `item = pair<dist_t, int>` during the construction: distance from the current vantage point, point index -/
abbrev IdItem := Int × Nat

/-- `operator<` of `std::pair` -/
def ltId (a b : IdItem) : Bool := a.1 < b.1 || (a.1 == b.1 && a.2 < b.2)

/-- `std::max_element`: position and value of the first element that no other element exceeds -/
def maxFrom (best : IdItem) (bi : Nat) : Nat → List IdItem → Nat × IdItem
  | _, [] => (bi, best)
  | i, x :: xs => if ltId best x then maxFrom x i (i + 1) xs else maxFrom best bi (i + 1) xs

def maxElement : List IdItem → Nat × IdItem
  | [] => (0, (0, 0))
  | x :: xs => maxFrom x 0 1 xs

/-- `*std::min_element` -/
def minFrom (best : IdItem) : List IdItem → IdItem
  | [] => best
  | x :: xs => if ltId x best then minFrom x xs else minFrom best xs

def minElement : List IdItem → IdItem
  | [] => (0, 0)
  | x :: xs => minFrom x xs

def insId (x : IdItem) : List IdItem → List IdItem
  | [] => [x]
  | y :: ys => if ltId x y then x :: y :: ys else y :: insId x ys

/-- `std::sort` on pairs -/
def sortId (l : List IdItem) : List IdItem := l.foldr insId []

/-- one admissible `std::nth_element`: the full sort.  (The pair order is total on items with distinct point indices, so
    the *sets* before and after the `nth` position — all the construction depends on — are the same for every
    implementation.) -/
def nthSort (_nth : Nat) (l : List IdItem) : List IdItem := sortId l

/-- `std::swap(ids[l], ids[i])` on the range `ids[l … u)`, `i` relative to `l` (`i` outside the range: unchanged) -/
def swapFront (r : List IdItem) (i : Nat) : List IdItem :=
  match r, i with
  | [], _ => []
  | x :: xs, 0 => x :: xs
  | x :: xs, j + 1 =>
    match xs[j]? with
    | some y => y :: xs.set j x
    | none => x :: xs

/--
`init(pts, dist, bucket, tree, ids, cost, l, u, vp)` on the range `r = ids[l … u)` with `vp` relative to `l`; returns the
tree with the nodes of the subtree appended (children before the parent), the cost counter and the index of the node
(`-1` for an empty range).  `nth k` stands for `std::nth_element(first, first + k, last)`; `d i j = dist(pts[i], pts[j])`.
Fuel: the length of the range (every recursive call is on a strictly shorter range).
-/
def initAux (nth : Nat → List IdItem → List IdItem) (d : Nat → Nat → Int) (bucket : Nat) :
    Nat → Array Node → Nat → List IdItem → Nat → Array Node × Nat × Int
  | 0, tree, cost, _, _ => (tree, cost, -1)
  | f + 1, tree, cost, r, vp =>
    if r.isEmpty then (tree, cost, -1)                                        -- `u == l`
    else if r.length > (if bucket = 0 then 1 else bucket) then
      match swapFront r vp with                                               -- vantage point to the front
      | [] => (tree, cost, -1)
      | (_, v) :: rest =>
        -- `m - (l + 1)` with `m = (u + l + 1) / 2`
        let k := (r.length + 1) / 2 - 1
        let s := nth k (rest.map fun it => (d v it.2, it.2))                  -- distances from `v`, then the partition
        let h0 := s.take k
        let h1 := s.drop k
        let a := if k = 0 then (tree, cost + rest.length, (-1 : Int))         -- `m > l + 1`: child[0] possibly empty
                 else initAux nth d bucket f tree (cost + rest.length) h0 (maxElement h0).1
        let b := initAux nth d bucket f a.1 a.2.1 h1 (maxElement h1).1
        (b.1.push (.inner v (if k = 0 then 0 else (minElement h0).1) (if k = 0 then 0 else (maxElement h0).2.1) a.2.2
                     (match h1 with | [] => 0 | x :: _ => x.1) (maxElement h1).2.1 b.2.2),
         b.2.1, (b.1.size : Int))
    else if bucket = 0 then
      (tree.push (.inner (match r with | [] => 0 | x :: _ => x.2) 0 0 (-1) 0 0 (-1)), cost, (tree.size : Int))
    else
      (tree.push (.leaf ((sortId r).map (fun it => (it.2 : Int)) ++ List.replicate (bucket - r.length) (-1))), cost,
       (tree.size : Int))

/-- `Initialize(pts, dist, bucket)` for `n = pts.size()` points: `ids[k] = (0, k)`, first vantage point `n / 2` -/
def init (nth : Nat → List IdItem → List IdItem) (d : Nat → Nat → Int) (bucket n : Nat) : Tree :=
  let r := initAux nth d bucket n #[] 0 ((List.range n).map fun k => ((0 : Int), k)) (n / 2)
  { bucket := bucket, numpoints := n, cost := r.2.1, nodes := r.1.toList }

end GeoVerif.VPTree
