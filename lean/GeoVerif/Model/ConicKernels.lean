import GeoVerif.Model.Conic
/-!
# The cone kernels of `LambertConformalConic` and `AlbersEqualArea` as coded (polymorphic in the number type)

`Init` (all branches, divided-difference evaluation of `n` and of `1 − n`, the Newton loop of Albers), `Forward`,
`Reverse`, `SetScale`, `txif`, `tphif`, `atanhee`, `Datanhee`, `DDatanhee{,0,1,2}`, `atanhxm1` — transcribed statement
by statement from `LambertConformalConic.cpp` / `AlbersEqualArea.cpp`.  `sincosd`, `AngDiff`, `atand`, `AngNormalize`
stay kernels: the forward kernels take `(sin, cos)` of the signed latitude and `lam` in radians, the reverse kernels
return `tan(lat)` of the northern problem and `lam`.  Loops carry fuel equal to (or above) the iteration caps of the
code.  Core Lean only; read at a binary64 type by the driver and at `ℝ` by `Props/C11.lean`.
-/
namespace GeoVerif.Conic
open GeoVerif GeoVerif.RealLike
open GeoVerif.RealLike.Lits

variable {α : Type} [RealLike α]

/-- `expm1`, accurate in floating point (Kahan) and equal to `exp x − 1` over the reals -/
def expm1 (x : α) : α :=
  let u := RealLike.exp x
  if RealLike.eqb u (1 : α) then x
  else if RealLike.eqb (u - 1) (-(1 : α)) then -(1 : α)
  else (u - 1) * x / RealLike.log u

def ofInt (i : Int) : α := if i < 0 then -(RealLike.ofNat (-i).toNat) else RealLike.ofNat i.toNat

/-- `numeric_limits<double>::epsilon()²` -/
def epsx : α := sq (eps : α)
/-- `fmax(a, b)` for non-NaN `a` -/
def fmax (a b : α) : α := if RealLike.ltb a b then b else a

/-! ## LambertConformalConic -/

/-- ellipsoid members `_a, _f, _fm, _e2, _es` -/
structure Ell (α : Type) where
  a : α
  f : α

namespace Ell
def fm (E : Ell α) : α := (1 : α) - E.f
def e2 (E : Ell α) : α := E.f * ((2 : α) - E.f)
def es (E : Ell α) : α := (if RealLike.ltb E.f (0 : α) then -(1 : α) else (1 : α)) * RealLike.sqrt (RealLike.abs E.e2)
def e2m (E : Ell α) : α := (1 : α) - E.e2
/-- Albers `_e = sqrt(|e2|)` -/
def e (E : Ell α) : α := RealLike.sqrt (RealLike.abs E.e2)
end Ell

/-- the members `Init` sets -/
structure LCC (α : Type) where
  sign : α
  n : α
  nc : α
  t0nm1 : α
  scale : α
  tlat0 : α      -- `_lat0 = atan(tlat0)/degree`
  k0 : α
  scbet0 : α
  tchi0 : α
  scchi0 : α
  psi0 : α
  nrho0 : α
  drhomax : α

/-- `exp(-psi)` from `tchi`, `scchi` without cancellation: `tchi > 0 ? 1/(scchi + tchi) : scchi − tchi` -/
def emPsi (tchi scchi : α) : α := if RealLike.ltb (0 : α) tchi then (1 : α) / (scchi + tchi) else scchi - tchi
/-- `exp(psi)`: `tchi >= 0 ? scchi + tchi : 1/(scchi − tchi)` -/
def epPsi (tchi scchi : α) : α := if RealLike.leb (0 : α) tchi then scchi + tchi else (1 : α) / (scchi - tchi)

/-- `tchi` from `(sphi, tphi, scphi)`: `hyp(shxi)·tphi − shxi·scphi` with `shxi = sinh(eatanhe(sphi))` -/
def tchiOf (es sphi tphi scphi : α) : α :=
  let shxi := RealLike.sinh (eatanhe sphi es)
  hyp shxi * tphi - shxi * scphi

/-- the expression for `drho = rho − rho0` shared by `Forward` and the `_drhomax` computation of `Init` -/
def lccDrho (scale n nc t0nm1 psi0 : α) (tchi scchi psi dpsi : α) : α :=
  -(scale * (if RealLike.ltb ((2 : α) * nc) (1 : α) && !(RealLike.eqb dpsi (0 : α)) then
      (RealLike.exp (sq nc / ((1 : α) + n) * psi) * emPsi tchi scchi - (t0nm1 + 1)) / (-n)
    else Dexp (-n * psi) (-n * psi0) * dpsi))

/-! ### The careful evaluation of `1 − n` for `n >= 1/4`, piece by piece (the names are those of the code) -/

/-- `s1 = (scbet1 − scchi1)(scbet1 + scchi1)` -/
def lccS (e2 tphi scphi shxi chxi : α) : α :=
  tphi * ((2 : α) * shxi * chxi * scphi - e2 * tphi) - sq shxi * ((1 : α) + (2 : α) * sq tphi)
/-- `t1 = scbet1 − tchi1` -/
def lccT (s tchi scbet : α) : α := if RealLike.ltb tchi (0 : α) then scbet - tchi else (s + 1) / (scbet + tchi)
/-- `a1 = ((tchi1 − scbet1) + (scchi1 − scbet1))/(2 scbet1)` -/
def lccA (s t scchi scbet : α) : α := -(s / (scbet + scchi) + t) / ((2 : α) * scbet)
/-- `sec β − tan β` without cancellation -/
def lccSecMinusTan (tbet scbet : α) : α := if RealLike.ltb (0 : α) tbet then (1 : α) / (scbet + tbet) else scbet - tbet
/-- `tbm = 1 − (tbet2 + tbet1)/(scbet2 + scbet1)` -/
def lccTbm (tbet1 scbet1 tbet2 scbet2 : α) : α := (lccSecMinusTan tbet1 scbet1 + lccSecMinusTan tbet2 scbet2) / (scbet1 + scbet2)
/-- `dbet = (scbet2 + scbet1)/fm − (scphi2 + scphi1)` -/
def lccDbet (e2 fm scphi1 scbet1 scphi2 scbet2 : α) : α :=
  (e2 / fm) * ((1 : α) / (scbet2 + fm * scphi2) + (1 : α) / (scbet1 + fm * scphi1))
/-- `dxiZ1 = xiZ − xi1` -/
def lccDxiZ (e2 es sphi tphi scphi : α) : α := Deatanhe e2 es (1 : α) sphi / (scphi * (tphi + scphi))
/-- `D(nu2, nu1)`, `nu = scphi·(shxiZ − shxi) − tphi·(chxiZ − chxi)` -/
def lccDnu12 (f : α) (tphi1 scphi1 xi1 shxi1 chxi1 dshxiZ1 dchxiZ1 tphi2 scphi2 xi2 shxi2 chxi2 dshxiZ2 dchxiZ2 dxi : α) : α :=
  (if RealLike.ltb (f * scphi1 * dshxiZ1) (f * (4 : α) * scphi2 * dshxiZ2) then
      (dshxiZ1 + dshxiZ2) / 2 * Dhyp tphi1 tphi2 scphi1 scphi2
        - ((scphi1 + scphi2) / 2 * Dsinh xi1 xi2 shxi1 shxi2 chxi1 chxi2 * dxi)
    else (scphi2 * dshxiZ2 - scphi1 * dshxiZ1) / (tphi2 - tphi1))
  + ((tphi1 + tphi2) / 2 * Dhyp shxi1 shxi2 chxi1 chxi2 * Dsinh xi1 xi2 shxi1 shxi2 chxi1 chxi2 * dxi)
  - (dchxiZ1 + dchxiZ2) / 2

/-- the careful evaluation of `1 − n` for `n >= 1/4` (arguments as in `Init`; the variable `t` of the code after its last update) -/
def lccOneMinusN (E : Ell α) (den : α)
    (sphi1 tphi1 scphi1 shxi1 chxi1 xi1 tchi1 scchi1 tbet1 scbet1 : α)
    (sphi2 tphi2 scphi2 shxi2 chxi2 xi2 tchi2 scchi2 tbet2 scbet2 : α) : α :=
  let e2 := E.e2
  let fm := E.fm
  let s1 := lccS e2 tphi1 scphi1 shxi1 chxi1
  let s2 := lccS e2 tphi2 scphi2 shxi2 chxi2
  let t1 := lccT s1 tchi1 scbet1
  let t2 := lccT s2 tchi2 scbet2
  let a2 := lccA s2 t2 scchi2 scbet2
  let a1 := lccA s1 t1 scchi1 scbet1
  let t := Dlog1p a2 a1 / den
  let t := t * (((epPsi tchi2 scchi2 + epPsi tchi1 scchi1) / ((4 : α) * scbet1 * scbet2)) * fm)
  let tbm := lccTbm tbet1 scbet1 tbet2 scbet2
  let dtchi := den / Dasinh tchi2 tchi1 scchi2 scchi1
  let dbet := lccDbet e2 fm scphi1 scbet1 scphi2 scbet2
  let xiZ := eatanhe (1 : α) E.es
  let shxiZ := RealLike.sinh xiZ
  let chxiZ := hyp shxiZ
  let dxiZ1 := lccDxiZ e2 E.es sphi1 tphi1 scphi1
  let dxiZ2 := lccDxiZ e2 E.es sphi2 tphi2 scphi2
  let dshxiZ1 := Dsinh xiZ xi1 shxiZ shxi1 chxiZ chxi1 * dxiZ1
  let dshxiZ2 := Dsinh xiZ xi2 shxiZ shxi2 chxiZ chxi2 * dxiZ2
  let dchxiZ1 := Dhyp shxiZ shxi1 chxiZ chxi1 * dshxiZ1
  let dchxiZ2 := Dhyp shxiZ shxi2 chxiZ chxi2 * dshxiZ2
  let amu12 := -(scphi1 * dchxiZ1) + tphi1 * dshxiZ1 - scphi2 * dchxiZ2 + tphi2 * dshxiZ2
  let dxi := Deatanhe e2 E.es sphi1 sphi2 * Dsn tphi2 tphi1 sphi2 sphi1
  let dnu12 := lccDnu12 E.f tphi1 scphi1 xi1 shxi1 chxi1 dshxiZ1 dchxiZ1 tphi2 scphi2 xi2 shxi2 chxi2 dshxiZ2 dchxiZ2 dxi
  let dchia := amu12 - dnu12 * (scphi2 + scphi1)
  let tam := (dchia - dtchi * dbet) / (scchi1 + scchi2)
  t * (tbm - tam)

/-- `nc = sqrt((1 − n)(1 + n))` for `n >= 1/4`, with `1 − n` evaluated carefully -/
def lccNcCareful (E : Ell α) (n den : α)
    (sphi1 tphi1 scphi1 shxi1 chxi1 xi1 tchi1 scchi1 tbet1 scbet1 : α)
    (sphi2 tphi2 scphi2 shxi2 chxi2 xi2 tchi2 scchi2 tbet2 scbet2 : α) : α :=
  let t := lccOneMinusN E den sphi1 tphi1 scphi1 shxi1 chxi1 xi1 tchi1 scchi1 tbet1 scbet1
             sphi2 tphi2 scphi2 shxi2 chxi2 xi2 tchi2 scchi2 tbet2 scbet2
  RealLike.sqrt (fmax (0 : α) t * ((1 : α) + n))

/-- `x` of a cone from `nrho0 = n·rho0`, `drho = rho − rho0`, `sin(theta)` and `lam` (the cylinder when `n = 0`) -/
def coneX (nrho0 n drho stheta lam : α) : α :=
  (nrho0 + n * drho) * (if !(RealLike.eqb n (0 : α)) then stheta / n else lam)
/-- `y` of a cone: `nrho0·(1 − cos theta)/n − drho·cos theta`, with `1 − cos` evaluated without cancellation -/
def coneY (nrho0 n drho stheta ctheta : α) : α :=
  nrho0 *
      (if !(RealLike.eqb n (0 : α)) then
        (if RealLike.ltb ctheta (0 : α) then (1 : α) - ctheta else sq stheta / ((1 : α) + ctheta)) / n
       else (0 : α))
      - drho * ctheta
/-- the scale of the Lambert cone at `(scbet, tchi, scchi)` with `dpsi = psi − psi0` -/
def lccK (k0 scbet0 tchi0 scchi0 n nc : α) (scbet tchi scchi dpsi : α) : α :=
  k0 * (scbet / scbet0) /
      (RealLike.exp (-(sq nc / ((1 : α) + n)) * dpsi) * epPsi tchi scchi / (scchi0 + tchi0))
/-- `_k0` of `Init` from the scale `k1` on the first parallel -/
def lccK0 (k1 scbet0 tchi0 scchi0 n nc : α) (scbet1 tchi1 scchi1 : α) : α :=
  k1 * (scbet0 / scbet1) *
      RealLike.exp (-(sq nc / ((1 : α) + n)) * Dasinh tchi1 tchi0 scchi1 scchi0 * (tchi1 - tchi0)) *
      epPsi tchi1 scchi1 / (scchi0 + tchi0)
/-- `n = num/den` of the two-parallel `Init` before normalisation: `D log sec(beta) / D psi` by divided differences -/
def lccNraw (E : Ell α) (sphi1 tphi1 scphi1 tbet1 scbet1 sphi2 tphi2 scphi2 tbet2 scbet2 : α) : α × α :=
  let num := Dlog1p (sq tbet2 / ((1 : α) + scbet2)) (sq tbet1 / ((1 : α) + scbet1)) * Dhyp tbet2 tbet1 scbet2 scbet1 * E.fm
  let den := Dasinh tphi2 tphi1 scphi2 scphi1 - Deatanhe E.e2 E.es sphi2 sphi1 * Dsn tphi2 tphi1 sphi2 sphi1
  (num / den, den)
/-- `drho = rho − rho0` recovered by `Reverse` from `(x, y)` (`nx = n x`, `ny = n y`) -/
def coneDrhoRev (nrho0 nx ny x y den : α) : α := (x * nx + y * (ny - (2 : α) * nrho0)) / den
/-- `dpsi` of `Reverse` from `t^n − 1` -/
def lccDpsiRev (t0nm1 scale tnm1 drho : α) : α := -(Dlog1p tnm1 t0nm1) * drho / scale
/-- `tchi` of `Reverse`, `2n <= 1` -/
def lccTchiA (psi0 tchi0 scchi0 dpsi : α) : α :=
  let psi := psi0 + dpsi
  let tchia := RealLike.sinh psi
  let scchi := hyp tchia
  let dtchi := Dsinh psi psi0 tchia tchi0 scchi scchi0 * dpsi
  tchi0 + dtchi
/-- `tchi` of `Reverse`, `2n > 1`, from `tn = t^n` -/
def lccTchiB (n nc tnm1 tn : α) : α :=
  let sh := RealLike.sinh (-(sq nc) / (n * ((1 : α) + n)) *
              (if RealLike.ltb (1 : α) ((2 : α) * tn) then log1p tnm1 else RealLike.log tn))
  sh * (tn + (1 : α) / tn) / 2 - hyp sh * (tnm1 * (tn + 1) / tn) / 2

/-- `_drhomax`: the `drho` of `Forward` at `lat = −90` (`sphi = −1`, `cphi = epsx`) -/
def lccDrhomax (E : Ell α) (scale n nc t0nm1 psi0 tchi0 scchi0 : α) : α :=
  let sphi := -(1 : α)
  let cphi := (epsx : α)
  let tphi := sphi / cphi
  let scphi := (1 : α) / cphi
  let tchi := tchiOf E.es sphi tphi scphi
  let scchi := hyp tchi
  let psi := RealLike.asinh tchi
  let dpsi := Dasinh tchi tchi0 scchi scchi0 * (tchi - tchi0)
  lccDrho scale n nc t0nm1 psi0 tchi scchi psi dpsi

/-- `LambertConformalConic::Init(sphi1, cphi1, sphi2, cphi2, k1)` -/
def lccInit (E : Ell α) (sphi1 cphi1 sphi2 cphi2 k1 : α) : LCC α :=
  let r1 := RealLike.hypot sphi1 cphi1
  let sphi1 := sphi1 / r1
  let cphi1 := cphi1 / r1
  let r2 := RealLike.hypot sphi2 cphi2
  let sphi2 := sphi2 / r2
  let cphi2 := cphi2 / r2
  let polar := RealLike.eqb cphi1 (0 : α)
  let cphi1 := fmax (epsx : α) cphi1
  let cphi2 := fmax (epsx : α) cphi2
  let sign := coneSign sphi1 sphi2
  let sphi1 := sphi1 * sign
  let sphi2 := sphi2 * sign
  let sw := RealLike.ltb sphi2 sphi1
  let (sphi1, cphi1, sphi2, cphi2) := if sw then (sphi2, cphi2, sphi1, cphi1) else (sphi1, cphi1, sphi2, cphi2)
  let tphi1 := sphi1 / cphi1
  let tphi2 := sphi2 / cphi2
  let fm := E.fm
  let tbet1 := fm * tphi1
  let scbet1 := hyp tbet1
  let tbet2 := fm * tphi2
  let scbet2 := hyp tbet2
  let scphi1 := (1 : α) / cphi1
  let xi1 := eatanhe sphi1 E.es
  let shxi1 := RealLike.sinh xi1
  let chxi1 := hyp shxi1
  let tchi1 := chxi1 * tphi1 - shxi1 * scphi1
  let scchi1 := hyp tchi1
  let scphi2 := (1 : α) / cphi2
  let xi2 := eatanhe sphi2 E.es
  let shxi2 := RealLike.sinh xi2
  let chxi2 := hyp shxi2
  let tchi2 := chxi2 * tphi2 - shxi2 * scphi2
  let scchi2 := hyp tchi2
  let psi1 := RealLike.asinh tchi1
  let (n, nc, tphi0) :=
    if !(RealLike.eqb (tphi2 - tphi1) (0 : α)) then
      let nd := lccNraw E sphi1 tphi1 scphi1 tbet1 scbet1 sphi2 tphi2 scphi2 tbet2 scbet2
      let n := nd.1
      let den := nd.2
      let nc :=
        if RealLike.ltb n ((1 : α) / 4) then RealLike.sqrt (((1 : α) - n) * ((1 : α) + n))
        else lccNcCareful E n den sphi1 tphi1 scphi1 shxi1 chxi1 xi1 tchi1 scchi1 tbet1 scbet1
               sphi2 tphi2 scphi2 shxi2 chxi2 xi2 tchi2 scchi2 tbet2 scbet2
      let r := RealLike.hypot n nc
      let n := n / r
      let nc := nc / r
      (n, nc, n / nc)
    else
      let tphi0 := tphi1
      let nc := (1 : α) / hyp tphi0
      let n := tphi0 * nc
      (n, if polar then (0 : α) else nc, tphi0)
  let scbet0 := hyp (fm * tphi0)
  let shxi0 := RealLike.sinh (eatanhe n E.es)
  let tchi0 := tphi0 * hyp shxi0 - shxi0 * hyp tphi0
  let scchi0 := hyp tchi0
  let psi0 := RealLike.asinh tchi0
  let t0nm1 := expm1 (-n * psi0)
  let scale := E.a * k1 / scbet1 * RealLike.exp (-(sq nc / ((1 : α) + n)) * psi1) * epPsi tchi1 scchi1
  let k0 := lccK0 k1 scbet0 tchi0 scchi0 n nc scbet1 tchi1 scchi1
  let nrho0 := if polar then (0 : α) else E.a * k0 / scbet0
  let drhomax := lccDrhomax E scale n nc t0nm1 psi0 tchi0 scchi0
  ⟨sign, n, nc, t0nm1, scale, sign * tphi0, k0, scbet0, tchi0, scchi0, psi0, nrho0, drhomax⟩

/-- `LambertConformalConic::Forward` between `sincosd(LatFix(lat)·_sign)` / `lam = AngDiff·degree` and the final
    `y *= _sign; gamma = _sign·theta/degree`: returns `(x, y, theta, k)` of the northern cone -/
def lccForward (E : Ell α) (L : LCC α) (sphi cphi0 lam : α) : ConeOut α :=
  let cphi := fmax (epsx : α) cphi0
  let tphi := sphi / cphi
  let scbet := hyp (E.fm * tphi)
  let scphi := (1 : α) / cphi
  let tchi := tchiOf E.es sphi tphi scphi
  let scchi := hyp tchi
  let psi := RealLike.asinh tchi
  let theta := L.n * lam
  let stheta := RealLike.sin theta
  let ctheta := RealLike.cos theta
  let dpsi := Dasinh tchi L.tchi0 scchi L.scchi0 * (tchi - L.tchi0)
  let drho := lccDrho L.scale L.n L.nc L.t0nm1 L.psi0 tchi scchi psi dpsi
  let x := coneX L.nrho0 L.n drho stheta lam
  let y := coneY L.nrho0 L.n drho stheta ctheta
  let k := lccK L.k0 L.scbet0 L.tchi0 L.scchi0 L.n L.nc scbet tchi scchi dpsi
  ⟨x, y, theta, k⟩

/-- `digits·log(radix) + 2` -/
def ahypover : α := RealLike.ofNat 53 * RealLike.log (2 : α) + 2

structure LccRev (α : Type) where
  tphi : α      -- lat = atand(_sign · tphi)
  lam : α       -- radians; lon = AngNormalize(lam/degree + AngNormalize(lon0))
  gamma : α     -- radians (`atan2(nx, y1)`); returned `gamma /= _sign·degree`
  k : α
  drho : α
  dpsi : α
  tchi : α

/-- `LambertConformalConic::Reverse` after `y *= _sign`, for an inversion `tauf` of `taupf` -/
def lccReverse (tauf : α → α → α) (E : Ell α) (L : LCC α) (x y : α) : LccRev α :=
  let nx := L.n * x
  let ny := if !(RealLike.eqb L.n (0 : α)) then L.n * y else (0 : α)
  let y1 := L.nrho0 - ny
  let den := RealLike.hypot nx y1 + L.nrho0
  let drho := if !(RealLike.eqb den (0 : α)) && isfin den then coneDrhoRev L.nrho0 nx ny x y den else den
  let drho := if RealLike.ltb L.drhomax drho then L.drhomax else drho
  let drho := if RealLike.eqb L.n (0 : α) then (if RealLike.ltb drho (-L.drhomax) then -L.drhomax else drho) else drho
  let tnm1 := L.t0nm1 + L.n * drho / L.scale
  let dpsi :=
    if RealLike.eqb den (0 : α) then (0 : α)
    else if !(RealLike.leb (tnm1 + 1) (0 : α)) then lccDpsiRev L.t0nm1 L.scale tnm1 drho
    else (ahypover : α)
  let tchi :=
    if RealLike.leb ((2 : α) * L.n) (1 : α) then lccTchiA L.psi0 L.tchi0 L.scchi0 dpsi
    else lccTchiB L.n L.nc tnm1 (if RealLike.leb (tnm1 + 1) (0 : α) then (epsx : α) else tnm1 + 1)
  let gamma := RealLike.atan2 nx y1
  let tphi := tauf tchi E.es
  let scbet := hyp (E.fm * tphi)
  let scchi := hyp tchi
  let lam := if !(RealLike.eqb L.n (0 : α)) then gamma / L.n else x / y1
  let k := L.k0 * (scbet / L.scbet0) /
      (RealLike.exp (if !(RealLike.eqb L.nc (0 : α)) then -(sq L.nc / ((1 : α) + L.n)) * dpsi else (0 : α)) *
        epPsi tchi scchi / (L.scchi0 + L.tchi0))
  ⟨tphi, lam, gamma, k, drho, dpsi, tchi⟩

/-- `LambertConformalConic::SetScale` after the checks: `kold` is the scale `Forward(0, lat, 0)` returns -/
def lccSetScale (L : LCC α) (kold k : α) : LCC α :=
  let r := k / kold
  { L with scale := L.scale * r, k0 := L.k0 * r, nrho0 := L.nrho0 * r, drhomax := L.drhomax * r }

/-! ## AlbersEqualArea -/

/-- `AlbersEqualArea::atanhee(x)` with the members `_f`, `_e` -/
def Ell.atanhee (E : Ell α) (x : α) : α := Conic.atanhee E.f E.e x
/-- `AlbersEqualArea::Datanhee(x, y)` -/
def Ell.Datanhee (E : Ell α) (x y : α) : α := Conic.Datanhee E.f E.e2 E.e x y
/-- `_qZ = 1 + e2m·atanhee(1)` -/
def Ell.qZ (E : Ell α) : α := (1 : α) + E.e2m * E.atanhee (1 : α)
/-- `_qx = qZ/(2 e2m)` -/
def Ell.qx (E : Ell α) : α := E.qZ / ((2 : α) * E.e2m)

/-- `AlbersEqualArea::txif(tphi)` -/
def txif (E : Ell α) (tphi : α) : α :=
  let cphi := (1 : α) / RealLike.sqrt ((1 : α) + sq tphi)
  let sphi := tphi * cphi
  let es1 := E.e2 * sphi
  let es2m1 := (1 : α) - es1 * sphi
  let es2m1a := E.e2m * es2m1
  (tphi / es2m1 + E.atanhee sphi / cphi) /
    RealLike.sqrt (((1 + es1) / es2m1a + E.Datanhee (1 : α) sphi) * ((1 - es1) / es2m1a + E.Datanhee (1 : α) (-sphi)))

def tphifLoop (E : Ell α) (txi stol : α) : Nat → α → α
  | 0, tphi => tphi
  | n + 1, tphi =>
    let txia := txif E tphi
    let tphi2 := sq tphi
    let scphi2 := (1 : α) + tphi2
    let scterm := scphi2 / ((1 : α) + sq txia)
    let dtphi := (txi - txia) * scterm * RealLike.sqrt scterm * E.qx * sq ((1 : α) - E.e2 * tphi2 / scphi2)
    let tphi' := tphi + dtphi
    if !(RealLike.leb stol (RealLike.abs dtphi)) then tphi' else tphifLoop E txi stol n tphi'

/-- `AlbersEqualArea::tphif(txi)` (`numit_ = 50` since 707b423, `tol_ = sqrt(eps)`) -/
def tphif (E : Ell α) (txi : α) : α :=
  tphifLoop E txi ((sqrtEps : α) * fmax (1 : α) (RealLike.abs txi)) 50 txi

/-- did the Newton loop of `tphif` stop by its tolerance (and not by the silent iteration cap `numit_ = 5`)? -/
def tphifLoopConv (E : Ell α) (txi stol : α) : Nat → α → Bool
  | 0, _ => false
  | n + 1, tphi =>
    let txia := txif E tphi
    let tphi2 := sq tphi
    let scphi2 := (1 : α) + tphi2
    let scterm := scphi2 / ((1 : α) + sq txia)
    let dtphi := (txi - txia) * scterm * RealLike.sqrt scterm * E.qx * sq ((1 : α) - E.e2 * tphi2 / scphi2)
    if !(RealLike.leb stol (RealLike.abs dtphi)) then true else tphifLoopConv E txi stol n (tphi + dtphi)

def tphifConv (E : Ell α) (txi : α) : Bool :=
  tphifLoopConv E txi ((sqrtEps : α) * fmax (1 : α) (RealLike.abs txi)) 50 txi

/-- exponent `e` with `|x|·2^e ∈ [1/2, 1)` for `0 < |x| < 1/2` (`frexp`) -/
def frexpNeg (ax : α) : Nat → Nat → Nat
  | 0, e => e
  | fuel + 1, e => if RealLike.leb ((1 : α) / 2) ax then e else frexpNeg (ax * 2) fuel (e + 1)

def atanhxm1Loop (x : α) : Nat → α → α
  | 0, s => s
  | n + 1, s => atanhxm1Loop x n (x * s + (if n == 0 then (0 : α) else (1 : α)) / RealLike.ofNat (2 * n + 1))

/-- `AlbersEqualArea::atanhxm1(x) = atanh(√x)/√x − 1` -/
def atanhxm1 (x : α) : α :=
  if RealLike.ltb (RealLike.abs x) ((1 : α) / 2) then
    let n := if RealLike.eqb x (0 : α) then 1 else
      let e := frexpNeg (RealLike.abs x) 1100 0
      (53 + e - 1) / e + 1
    atanhxm1Loop x n (0 : α)
  else
    let xs := RealLike.sqrt (RealLike.abs x)
    (if RealLike.ltb (0 : α) x then RealLike.atanh xs else RealLike.atan xs) / xs - 1

/-- `DDatanhee0` -/
def DDatanhee0 (E : Ell α) (x y : α) : α := (E.Datanhee (1 : α) y - E.Datanhee x y) / ((1 : α) - x)

structure DD1St (α : Type) where
  z : α
  k : α
  t : α
  c : α
  en : α
  s : α

def DDatanhee1Loop (E : Ell α) (x y : α) : Nat → DD1St α → α
  | 0, st => st.s
  | fuel + 1, st =>
    let t := y * st.t + st.z
    let c := st.c + t
    let z := st.z * x
    let t := y * t + z
    let c := c + t
    let z := z * x
    let k := st.k + 2
    let en := st.en * E.e2
    let ds := en * c / k
    let s := st.s + ds
    if !(RealLike.ltb (RealLike.abs s * (eps : α) / 2) (RealLike.abs ds)) then s
    else DDatanhee1Loop E x y fuel ⟨z, k, t, c, en, s⟩

/-- `DDatanhee1` (series in `e2`) -/
def DDatanhee1 (E : Ell α) (x y : α) : α := DDatanhee1Loop E x y 400 ⟨(1 : α), (1 : α), (0 : α), (0 : α), (1 : α), (0 : α)⟩

def DD2Inner (e2 : α) (m kmax : Nat) : Nat → α → α → α
  | 0, _, t => t
  | k + 1, c, t =>      -- the C++ loop variable is `k` (from kmax − 1 down to 0)
    let c := c * ofInt (((k : Int) + 1) * (2 * ((k : Int) + (m : Int) - 2 * (kmax : Int)) + 3))
    let c := c / ofInt (((kmax : Int) - (k : Int)) * (2 * ((kmax : Int) - (k : Int)) + 1))
    DD2Inner e2 m kmax k c (e2 * t + c)

/-- the coefficient polynomial `t` of the `m`-th term of `DDatanhee2` after the inner loop (`c = t = m + 2` before it) -/
def dd2Coef (e2 : α) (m : Nat) : α :=
  let c : α := RealLike.ofNat (m + 2)
  DD2Inner e2 m ((m + 1) / 2) ((m + 1) / 2) c c

structure DD2St (α : Type) where
  m : Nat
  xy : α
  yy : α
  ee : α
  s : α
  nsmall : Nat := 0   -- number of successive negligible terms (the loop stops at two; repaired code)

def DDatanhee2Loop (E : Ell α) (dx dy : α) : Nat → DD2St α → α
  | 0, st => st.s
  | fuel + 1, st =>
    let m := st.m
    let yy := st.yy * dy
    let xy := dx * st.xy + yy
    let ee := st.ee / (-E.e2m)
    let ee := if m % 2 == 0 then ee * E.e2 else ee
    let t := dd2Coef E.e2 m
    let ds := t * ee * xy / RealLike.ofNat (m + 2)
    let s := st.s + ds
    if RealLike.ltb (RealLike.abs s * (eps : α) / 2) (RealLike.abs ds) then
      DDatanhee2Loop E dx dy fuel ⟨m + 1, xy, yy, ee, s, 0⟩
    else if st.nsmall + 1 == 2 then s
    else DDatanhee2Loop E dx dy fuel ⟨m + 1, xy, yy, ee, s, st.nsmall + 1⟩

/-- the termination rule of `DDatanhee2` before 9562c37 (finding F61), kept as a counter-model: the loop stopped at the *first*
    negligible term -/
def DDatanhee2LoopOld (E : Ell α) (dx dy : α) : Nat → DD2St α → α
  | 0, st => st.s
  | fuel + 1, st =>
    let m := st.m
    let yy := st.yy * dy
    let xy := dx * st.xy + yy
    let ee := st.ee / (-E.e2m)
    let ee := if m % 2 == 0 then ee * E.e2 else ee
    let t := dd2Coef E.e2 m
    let ds := t * ee * xy / RealLike.ofNat (m + 2)
    let s := st.s + ds
    if !(RealLike.ltb (RealLike.abs s * (eps : α) / 2) (RealLike.abs ds)) then s
    else DDatanhee2LoopOld E dx dy fuel ⟨m + 1, xy, yy, ee, s, 0⟩

/-- `DDatanhee2` (series in `1 − x`, `1 − y`) -/
def DDatanhee2 (E : Ell α) (x y : α) : α :=
  let ee := E.e2 / sq E.e2m
  DDatanhee2Loop E ((1 : α) - x) ((1 : α) - y) 400 ⟨1, (1 : α), (1 : α), ee, ee, 0⟩

/-- `DDatanhee(x, y)` -/
def DDatanhee (E : Ell α) (x0 y0 : α) : α :=
  let sw := RealLike.ltb y0 x0
  let x := if sw then y0 else x0
  let y := if sw then x0 else y0
  let q1 := RealLike.abs E.e2
  -- (for `e² < 0` the factor is `1 + e`: the usable range of `DDatanhee2` shrinks by its cancellation, e5ca000)
  let q2 := RealLike.abs ((if RealLike.ltb E.f (0 : α) then (1 : α) + E.e else (2 : α)) * E.e / E.e2m * ((1 : α) - x))
  if RealLike.leb x (0 : α) || !(RealLike.ltb (RealLike.min q1 q2) (RealLike.ofDec 75 2)) then DDatanhee0 E x y
  else if RealLike.ltb q1 q2 then DDatanhee1 E x y else DDatanhee2 E x y

/-- the members `AlbersEqualArea::Init` sets -/
structure ALB (α : Type) where
  sign : α
  tlat0 : α     -- `_lat0 = atan(tlat0)/degree` (already multiplied by the sign)
  k0 : α
  n0 : α
  m02 : α
  nrho0 : α
  k2 : α
  txi0 : α
  scxi0 : α
  sxi0 : α

/-- the function `u` whose zero the `tphi0` iteration of `Init` seeks and its derivative `du` with respect to `sin φ0`
    (`axm1` is the value of `atanhxm1` at `e2·(sphi0m/(1 − e2·sphi0))²`), with `scphi0·scphi02` -/
def albNewtonU (E : Ell α) (s sm1 tphi0 axm1 : α) : α × α × α :=
  let e2 := E.e2
  let e2m := E.e2m
  let scphi02 := (1 : α) + sq tphi0
  let scphi0 := RealLike.sqrt scphi02
  let sphi0 := tphi0 / scphi0
  let sphi0m := (1 : α) / (scphi0 * (tphi0 + scphi0))
  let g := ((1 : α) + sq (E.fm * tphi0)) * sphi0
  let dg := e2m * scphi02 * ((1 : α) + (2 : α) * sq tphi0) + e2
  let D := sphi0m * ((1 : α) - e2 * ((1 : α) + (2 : α) * sphi0 * ((1 : α) + sphi0))) / (e2m * ((1 : α) + sphi0))
  let dD := -(2 : α) * ((1 : α) - e2 * sq sphi0 * ((2 : α) * sphi0 + 3)) / (e2m * sq ((1 : α) + sphi0))
  let A := -e2 * sq sphi0m * ((2 : α) + ((1 : α) + e2) * sphi0) / (e2m * ((1 : α) - e2 * sq sphi0))
  let B := sphi0m * e2m / ((1 : α) - e2 * sphi0) * (axm1 - e2 * sphi0m / e2m)
  let dAB := (2 : α) * e2 * ((2 : α) - e2 * ((1 : α) + sq sphi0)) / (e2m * sq ((1 : α) - e2 * sq sphi0) * scphi02)
  let u := sm1 * g - s / E.qZ * (D - g * (A + B))
  let du := sm1 * dg - s / E.qZ * (dD - dg * (A + B) - g * dAB)
  (u, du, scphi0 * scphi02)

/-- the argument of `atanhxm1` in that iteration -/
def albNewtonArg (E : Ell α) (tphi0 : α) : α :=
  let scphi02 := (1 : α) + sq tphi0
  let scphi0 := RealLike.sqrt scphi02
  let sphi0 := tphi0 / scphi0
  let sphi0m := (1 : α) / (scphi0 * (tphi0 + scphi0))
  E.e2 * sq (sphi0m / ((1 : α) - E.e2 * sphi0))

/-- one Newton step of the `tphi0` iteration of `Init`: the correction `dtu` -/
def albNewtonStep (E : Ell α) (s sm1 tphi0 : α) : α :=
  let r := albNewtonU E s sm1 tphi0 (atanhxm1 (albNewtonArg E tphi0))
  (0 : α) - r.1 / r.2.1 * r.2.2

/-- the Newton loop of `Init` with the safeguard of cc09272: a step that does not decrease `|u|` is halved (`hasPrev` is false
    before the first iterate, where the code holds `uprev = ∞`) -/
def albNewtonLoop (E : Ell α) (s sm1 stol : α) : Nat → Bool → α → α → α → α → α
  | 0, _, _, _, _, tphi0 => tphi0
  | n + 1, hasPrev, tprev, uprev, dtprev, tphi0 =>
    let r := albNewtonU E s sm1 tphi0 (atanhxm1 (albNewtonArg E tphi0))
    let u := r.1
    let dtu := (0 : α) - u / r.2.1 * r.2.2
    if hasPrev && RealLike.ltb (RealLike.abs uprev) (RealLike.abs u) then
      let dtp := dtprev / 2
      let t' := tprev + dtp
      if RealLike.leb stol (RealLike.abs dtp) then albNewtonLoop E s sm1 stol n true tprev uprev dtp t' else t'
    else
      let t' := tphi0 + dtu
      if !(RealLike.leb stol (RealLike.abs dtu)) then t' else albNewtonLoop E s sm1 stol n true tphi0 u dtu t'

/-- `(1 − sxi)/(1 − sphi)`-type factor of `Init`: `sphi <= 0 ? (1 − sxi)/(1 − sphi) : (cxi/cphi)²(1 + sphi)/(1 + sxi)` -/
def albRatio (sphi cphi sxi cxi : α) : α :=
  if RealLike.leb sphi (0 : α) then ((1 : α) - sxi) / ((1 : α) - sphi) else sq (cxi / cphi) * ((1 : α) + sphi) / ((1 : α) + sxi)
/-- `sphi <= 0 ? 1 − sphi : cphi²/(1 + sphi)` -/
def albOneMinus (sphi cphi : α) : α := if RealLike.leb sphi (0 : α) then (1 : α) - sphi else sq cphi / ((1 : α) + sphi)

/-- `s`, `1 − s` (`sm1`) and `C` of `Init` for two distinct parallels -/
structure AlbSC (α : Type) where
  s : α
  sm1 : α
  C : α

/-- the block of `Init` that computes `s = n qZ/C`, `1 − s` and `C` from the ordered parallels; `txi1`, `txi2` are `txif` of the
    two tangents and `dd` is `DDatanhee(sphi1, sphi2)` -/
def albSC (E : Ell α) (sphi1 cphi1 tphi1 sphi2 cphi2 tphi2 txi1 txi2 dd : α) : AlbSC α :=
  let e2 := E.e2
  let fm := E.fm
  let tbet1 := fm * tphi1
  let scbet12 := (1 : α) + sq tbet1
  let tbet2 := fm * tphi2
  let scbet22 := (1 : α) + sq tbet2
  let cxi1 := (1 : α) / hyp txi1
  let sxi1 := txi1 * cxi1
  let cxi2 := (1 : α) / hyp txi2
  let sxi2 := txi2 * cxi2
  let dtbet2 := fm * (tbet1 + tbet2)
  let es1 := (1 : α) - e2 * sq sphi1
  let es2 := (1 : α) - e2 * sq sphi2
  let dsxi := (((1 : α) + e2 * sphi1 * sphi2) / (es2 * es1) + E.Datanhee sphi2 sphi1) * Dsn tphi2 tphi1 sphi2 sphi1 / ((2 : α) * E.qx)
  let den := (sxi2 + sxi1) * dtbet2 + (scbet22 + scbet12) * dsxi
  let s := (2 : α) * dtbet2 / den
  let sm1 := -(Dsn tphi2 tphi1 sphi2 sphi1) *
    (-(albRatio sphi2 cphi2 sxi2 cxi2 + albRatio sphi1 cphi1 sxi1 cxi1) *
        ((1 : α) + e2 * (sphi1 + sphi2 + sphi1 * sphi2)) / ((1 : α) + (sphi1 + sphi2 + sphi1 * sphi2))
      + (scbet22 * albOneMinus sphi2 cphi2 + scbet12 * albOneMinus sphi1 cphi1) *
        (e2 * ((1 : α) + sphi1 + sphi2 + e2 * sphi1 * sphi2) / (es1 * es2) + E.e2m * dd) / E.qZ) / den
  let C := den / ((2 : α) * scbet12 * scbet22 * dsxi)
  ⟨s, sm1, C⟩

/-- `AlbersEqualArea::Init(sphi1, cphi1, sphi2, cphi2, k1)` -/
def albInit (E : Ell α) (sphi1 cphi1 sphi2 cphi2 k1 : α) : ALB α :=
  let r1 := RealLike.hypot sphi1 cphi1
  let sphi1 := sphi1 / r1
  let cphi1 := cphi1 / r1
  let r2 := RealLike.hypot sphi2 cphi2
  let sphi2 := sphi2 / r2
  let cphi2 := cphi2 / r2
  let polar := RealLike.eqb cphi1 (0 : α)
  let cphi1 := fmax (epsx : α) cphi1
  let cphi2 := fmax (epsx : α) cphi2
  let sign := coneSign sphi1 sphi2
  let sphi1 := sphi1 * sign
  let sphi2 := sphi2 * sign
  let sw := RealLike.ltb sphi2 sphi1
  let (sphi1, cphi1, sphi2, cphi2) := if sw then (sphi2, cphi2, sphi1, cphi1) else (sphi1, cphi1, sphi2, cphi2)
  let tphi1 := sphi1 / cphi1
  let tphi2 := sphi2 / cphi2
  let fm := E.fm
  let (tphi0, C) :=
    if polar || RealLike.eqb tphi1 tphi2 then (tphi2, (1 : α))
    else
      let sc := albSC E sphi1 cphi1 tphi1 sphi2 cphi2 tphi2 (txif E tphi1) (txif E tphi2) (DDatanhee E sphi1 sphi2)
      let s := sc.s
      let sm1 := sc.sm1
      let C := sc.C
      let tphi0 := (tphi2 + tphi1) / 2
      let tol0 : α := (sqrtEps : α) * RealLike.sqrt (sqrtEps : α)
      let stol := tol0 * fmax (1 : α) (RealLike.abs tphi0)
      (albNewtonLoop E s sm1 stol 40 false tphi0 (0 : α) (0 : α) tphi0, C)
  let txi0 := txif E tphi0
  let scxi0 := hyp txi0
  let sxi0 := txi0 / scxi0
  let n0 := tphi0 / hyp tphi0
  let m02 := (1 : α) / ((1 : α) + sq (fm * tphi0))
  let nrho0 := if polar then (0 : α) else E.a * RealLike.sqrt m02
  let k0 := RealLike.sqrt (if RealLike.eqb tphi1 tphi2 then (1 : α) else C / (m02 + n0 * E.qZ * sxi0)) * k1
  ⟨sign, sign * tphi0, k0, n0, m02, nrho0, sq k0, txi0, scxi0, sxi0⟩

/-- `dq = q − q0` of `Forward` from the authalic tangents -/
def albDq (qZ txi sxi txi0 sxi0 : α) : α := qZ * Dsn txi txi0 sxi sxi0 * (txi - txi0)
/-- `drho = rho − rho0` of `Forward` -/
def albDrho (a m02 n0 nrho0 dq : α) : α := -(a * dq) / (RealLike.sqrt (fmax (0 : α) (m02 - n0 * dq)) + nrho0 / a)
/-- `dsxia = scxi0·(sxi − sxi0)` of `Reverse` -/
def albDsxia (a qZ scxi0 nrho0 n0 drho : α) : α := -(scxi0 * ((2 : α) * nrho0 + n0 * drho) * drho) / (sq a * qZ)
/-- `txi` of `Reverse` -/
def albTxiRev (txi0 dsxia : α) : α :=
  (txi0 + dsxia) / RealLike.sqrt (fmax (sq (epsx : α)) ((1 : α) - dsxia * ((2 : α) * txi0 + dsxia)))

/-- `AlbersEqualArea::Forward` between `sincosd` / `lam` and `y *= _sign; gamma = _sign·theta/degree` -/
def albForward (E : Ell α) (A : ALB α) (sphi cphi0 lam : α) : ConeOut α :=
  let cphi := fmax (epsx : α) cphi0
  let tphi := sphi / cphi
  let txi := txif E tphi
  let sxi := txi / hyp txi
  let dq := albDq E.qZ txi sxi A.txi0 A.sxi0
  let drho := albDrho E.a A.m02 A.n0 A.nrho0 dq
  let theta := A.k2 * A.n0 * lam
  let stheta := RealLike.sin theta
  let ctheta := RealLike.cos theta
  let t := A.nrho0 + A.n0 * drho
  let x := t * (if !(RealLike.eqb A.n0 (0 : α)) then stheta / A.n0 else A.k2 * lam) / A.k0
  let y := coneY A.nrho0 A.n0 drho stheta ctheta / A.k0
  let k := A.k0 * (if !(RealLike.eqb t (0 : α)) then t * hyp (E.fm * tphi) / E.a else (1 : α))
  ⟨x, y, theta, k⟩

structure AlbRev (α : Type) where
  tphi : α
  lam : α
  theta : α
  k : α
  drho : α
  txi : α

/-- `AlbersEqualArea::Reverse` after `y *= _sign`, for an inversion `tphif` of `txif` -/
def albReverse (tphif : α → α) (E : Ell α) (A : ALB α) (x y : α) : AlbRev α :=
  let nx := A.k0 * A.n0 * x
  let ny := A.k0 * A.n0 * y
  let y1 := A.nrho0 - ny
  let den := RealLike.hypot nx y1 + A.nrho0
  let drho := if !(RealLike.eqb den (0 : α)) then (A.k0 * x * nx - (2 : α) * A.k0 * y * A.nrho0 + A.k0 * y * ny) / den else (0 : α)
  let dsxia := albDsxia E.a E.qZ A.scxi0 A.nrho0 A.n0 drho
  let txi := albTxiRev A.txi0 dsxia
  let tphi := tphif txi
  let theta := RealLike.atan2 nx y1
  let lam := if !(RealLike.eqb A.n0 (0 : α)) then theta / (A.k2 * A.n0) else x / (y1 * A.k0)
  let k := A.k0 * (if !(RealLike.eqb den (0 : α)) then (A.nrho0 + A.n0 * drho) * hyp (E.fm * tphi) / E.a else (1 : α))
  ⟨tphi, lam, theta, k, drho, txi⟩

/-- `AlbersEqualArea::SetScale` after the checks -/
def albSetScale (A : ALB α) (kold k : α) : ALB α :=
  let k0 := A.k0 * (k / kold)
  { A with k0 := k0, k2 := sq k0 }

end GeoVerif.Conic
