/-!
# Effect model for C14 (thread safety of shared immutable objects)

Core Lean only.  A *location* is a shared piece of state that is not immutable by its C++ type
(a `mutable` member, a non-`const` variable of static storage duration, the target of a
`const_cast`).  An *operation* (a const / static API call, or one atomic step of it) is given by a
read set, a write set and a function of the values it reads; by construction (`Op.step`) its
result depends only on the locations in its read set and it changes only the locations in its
write set.  A *program* is a list of threads, each a list of operations; an *execution* is an
interleaving of the threads' operations (`Interleave`), run from an initial state (`runTrace`).

The second half of the file fixes the vocabulary of the effect table that
`tools/translate.d/C14.py` regenerates from the current C++ sources on every run
(`Gen/Effects.lean`) and the decidable check (`tableOK`) that `Props/C14.lean` discharges on it.
-/
namespace GeoVerif.Effects

universe u
variable {Loc : Type} {Val : Type} {Ret : Type}

/-- shared state -/
abbrev State (Loc Val : Type) := Loc → Val

/-- an operation: what it may read, what it may write, and how results/updates follow from the view it reads -/
structure Op (Loc Val Ret : Type) where
  name : String := ""
  reads : List Loc
  writes : List Loc
  /-- receives the state restricted to `reads`; returns the new contents of `writes` and the result -/
  f : (Loc → Option Val) → (Loc → Val) × Ret

variable [DecidableEq Loc]

/-- the part of the state the operation can see -/
def view (rs : List Loc) (σ : State Loc Val) : Loc → Option Val := fun l => if l ∈ rs then some (σ l) else none

/-- one atomic step -/
def Op.step (o : Op Loc Val Ret) (σ : State Loc Val) : State Loc Val × Ret :=
  let r := o.f (view o.reads σ)
  (fun l => if l ∈ o.writes then r.1 l else σ l, r.2)

/-- everything the operation touches -/
def Op.footprint (o : Op Loc Val Ret) : List Loc := o.reads ++ o.writes

/-- a thread running alone: final state and the list of results -/
def runThread (σ : State Loc Val) : List (Op Loc Val Ret) → State Loc Val × List Ret
  | [] => (σ, [])
  | o :: t => let s := o.step σ; let r := runThread s.1 t; (r.1, s.2 :: r.2)

/-- a trace: (thread id, operation) in execution order -/
abbrev Trace (Loc Val Ret : Type) := List (Nat × Op Loc Val Ret)

/-- run a trace: final state and (thread id, result) in execution order -/
def runTrace (σ : State Loc Val) : Trace Loc Val Ret → State Loc Val × List (Nat × Ret)
  | [] => (σ, [])
  | (i, o) :: t => let s := o.step σ; let r := runTrace s.1 t; (r.1, (i, s.2) :: r.2)

/-- results observed by thread `i` in a run -/
def resultsOf (i : Nat) (rs : List (Nat × Ret)) : List Ret := (rs.filter (fun p => p.1 == i)).map (·.2)

/-- `tr` is an interleaving of the threads of `P` (each thread's operations in program order, all of them) -/
inductive Interleave : List (List (Op Loc Val Ret)) → Trace Loc Val Ret → Prop
  | done {P} : (∀ T ∈ P, T = []) → Interleave P []
  | step {P tr} (i : Nat) (o : Op Loc Val Ret) (rest : List (Op Loc Val Ret)) :
      P[i]? = some (o :: rest) → Interleave (P.set i rest) tr → Interleave P ((i, o) :: tr)

/-- two operations conflict: one writes a location the other reads or writes -/
def Conflict (a b : Op Loc Val Ret) : Prop :=
  ∃ l, (l ∈ a.writes ∧ l ∈ b.footprint) ∨ (l ∈ b.writes ∧ l ∈ a.footprint)

/-- There is no synchronisation between the threads of the model, so any two operations of different threads are
concurrent: a trace is race-free iff no two operations of different threads conflict. -/
def RaceFree (tr : Trace Loc Val Ret) : Prop :=
  ∀ a ∈ tr, ∀ b ∈ tr, a.1 ≠ b.1 → ¬ Conflict a.2 b.2

/-- the hypothesis of `no_write_no_race`: every operation's write set is disjoint from the read and write sets of every
operation of every *other* thread -/
def NonInterfering (P : List (List (Op Loc Val Ret))) : Prop :=
  ∀ i j : Nat, i ≠ j → ∀ Ti : List (Op Loc Val Ret), P[i]? = some Ti → ∀ Tj : List (Op Loc Val Ret), P[j]? = some Tj →
    ∀ a ∈ Ti, ∀ b ∈ Tj, ∀ l ∈ a.writes, l ∉ b.footprint

/-! ## C++11 function-local statics (`static const T x(args); return x;`)

The language guarantees that the initialiser runs exactly once, and that every thread passing the declaration
afterwards (or concurrently) sees the completed initialisation.  This is modelled — not proved; it is in the trusted
base — as an atomic once-step. -/

inductive SStep (Loc Val : Type) where
  /-- control passes through the declaration of the local static `l` whose initialiser yields `v` -/
  | once (l : Loc) (v : Val)
  /-- a use of the variable: reads `l` -/
  | read (l : Loc)
  /-- any other write (never generated for a `const` local static) -/
  | write (l : Loc) (v : Val)

structure SState (Loc Val : Type) where
  val : Loc → Val
  inited : Loc → Bool

/-- events of a run: effective writes and the values seen by reads -/
inductive SEvent (Loc Val : Type) where
  | wrote (tid : Nat) (l : Loc) (v : Val)
  | saw (tid : Nat) (l : Loc) (v : Val) (initialised : Bool)

def sstep (s : SState Loc Val) (tid : Nat) : SStep Loc Val → SState Loc Val × List (SEvent Loc Val)
  | .once l v => if s.inited l then (s, [])
                 else ({ val := fun x => if x = l then v else s.val x, inited := fun x => if x = l then true else s.inited x }, [.wrote tid l v])
  | .read l => (s, [.saw tid l (s.val l) (s.inited l)])
  | .write l v => ({ s with val := fun x => if x = l then v else s.val x }, [.wrote tid l v])

def srun (s : SState Loc Val) : List (Nat × SStep Loc Val) → SState Loc Val × List (SEvent Loc Val)
  | [] => (s, [])
  | (i, st) :: t => let a := sstep s i st; let b := srun a.1 t; (b.1, a.2 ++ b.2)

/-- number of effective writes to `l` among the events -/
def writesTo (l : Loc) (ev : List (SEvent Loc Val)) : Nat :=
  (ev.filter (fun e => match e with | .wrote _ x _ => x == l | _ => false)).length

/-- the accessor discipline: in every thread a read of `l` is preceded by that thread's pass through the declaration -/
def GuardedReads (l : Loc) : List (Nat × SStep Loc Val) → List Nat → Prop
  | [], _ => True
  | (i, .read x) :: t, passed => (x = l → i ∈ passed) ∧ GuardedReads l t passed
  | (i, .once x _) :: t, passed => GuardedReads l t (if x = l then i :: passed else passed)
  | (_, .write _ _) :: t, passed => GuardedReads l t passed

/-- a step respects "only the initialiser writes `l`, always with the value `v`" -/
def StepOK (l : Loc) (v : Val) : SStep Loc Val → Prop
  | .once x w => x = l → w = v
  | .write x _ => x ≠ l
  | .read _ => True

/-- only the initialiser writes `l`, always with the value `v` -/
def OnlyInit (l : Loc) (v : Val) (tr : List (Nat × SStep Loc Val)) : Prop := ∀ p ∈ tr, StepOK l v p.2

/-! ## A cache with a fill-on-miss guard (AuxLatitude::_c)

`lazyWrites filled k` is the dynamic write set of `if (block k is unfilled) fill block k`. -/
def lazyWrites {α : Type} [DecidableEq α] (filled : List α) (k : α) : List α := if k ∈ filled then [] else [k]

/-! ## Vocabulary of the extracted effect table (`Gen/Effects.lean`) -/

/-- kinds of tracked locations -/
inductive LocKind where
  | mutableMember     -- `mutable` non-static data member
  | staticLocal       -- function-local variable of static storage duration
  | staticMember      -- static data member
  | global            -- namespace-scope variable
  | constCast         -- object reached through a `const_cast`
deriving DecidableEq, Repr

structure LocDecl where
  name : String              -- `Class::member` or `Function()::variable`
  kind : LocKind
  isConst : Bool             -- declared `const` (top level): cannot be written after its initialiser
  file : String
deriving DecidableEq, Repr

/-- a recognised *necessary* condition for a write to be executed -/
inductive Guard where
  /-- inside `if (cond)` where `cond` reads the very location that is written (fill-on-miss cache) -/
  | miss
  /-- only when the immutable bool member `flag` of the object is false (`if (!flag) …` / after `if (flag) throw …`) -/
  | flagFalse (flag : String)
  /-- only through the `default` label of a `switch` whose explicit case labels are `cases` -/
  | switchDefault (cases : List Nat)
deriving DecidableEq, Repr

structure WriteRec where
  loc : String
  /-- conditions that hold on *every* path to a write of `loc` (empty: none recognised) -/
  guards : List Guard
deriving DecidableEq, Repr

structure FnEffect where
  fn : String                -- qualified name with parameter types
  cls : String               -- class (template arguments stripped)
  isStatic : Bool            -- static member function (otherwise: const member function)
  isPublic : Bool            -- public (callable by users of the object); protected/private helpers are accounted for through their public callers
  reads : List String        -- tracked locations read, transitively within the library
  writes : List WriteRec     -- tracked locations written, transitively within the library
deriving DecidableEq, Repr

/-- a documented exclusion: writes to locations with this prefix by functions of this class are outside the property -/
structure Exclusion where
  cls : String
  locPrefix : String
  why : String
deriving Repr

/-- The exclusions written in the property statement ("objects documented as not thread-safe"). -/
def exclusions : List Exclusion := [
  ⟨"Geoid", "Geoid::_", "an ordinary (not thread-safe) Geoid caches the last cell and an area; documented in Geoid.hpp.  A Geoid constructed with threadsafe = true skips every one of these writes (see `flagGuarded`)"⟩,
  ⟨"Intersect", "Intersect::_cnt", "the Intersect iteration counters; documented as not thread safe in Intersect.hpp"⟩,
  -- the six statistics members by name (NearestNeighbor.hpp: "the accumulation of statistics is not thread safe"); any other
  -- mutable member of NearestNeighbor is NOT excluded
  ⟨"NearestNeighbor", "NearestNeighbor::_mc", "NearestNeighbor search statistics: mean number of distance calculations"⟩,
  ⟨"NearestNeighbor", "NearestNeighbor::_sc", "NearestNeighbor search statistics: variance accumulator"⟩,
  ⟨"NearestNeighbor", "NearestNeighbor::_c1", "NearestNeighbor search statistics: distance calculations of the last search"⟩,
  ⟨"NearestNeighbor", "NearestNeighbor::_k", "NearestNeighbor search statistics: number of searches"⟩,
  ⟨"NearestNeighbor", "NearestNeighbor::_cmin", "NearestNeighbor search statistics: minimum"⟩,
  ⟨"NearestNeighbor", "NearestNeighbor::_cmax", "NearestNeighbor search statistics: maximum"⟩,
  ⟨"SphericalEngine", "SphericalEngine::sqrttable()::sqrttable", "growth of the square-root table in SphericalEngine::RootTable (called when coefficients are constructed)"⟩,
  ⟨"GeoCoords", "GeoCoords::_alt_", "GeoCoords is a value class with an alternate-zone cache; it is not in the property's quantifier"⟩ ]

/-- classes in the property's quantifier (plus the helper classes they are built from) -/
def quantifierClasses : List String := [
  "Geodesic", "GeodesicExact", "GeodesicLine", "GeodesicLineExact", "Rhumb", "RhumbLine", "TransverseMercator",
  "TransverseMercatorExact", "PolarStereographic", "LambertConformalConic", "AlbersEqualArea", "Geocentric", "LocalCartesian",
  "Ellipsoid", "AuxLatitude", "DAuxLatitude", "AuxAngle", "EllipticFunction", "NormalGravity", "SphericalHarmonic", "SphericalHarmonic1",
  "SphericalHarmonic2", "SphericalEngine", "CircularEngine", "GravityModel", "GravityCircle", "MagneticModel", "MagneticCircle", "Geoid",
  "UTMUPS", "MGRS", "DMS", "Geohash", "GARS", "Georef", "OSGB", "DST", "kissfft", "Math", "Utility", "Constants", "Accumulator",
  -- "solver or projection object" of the statement beyond the enumerated ones: the projections built on a geodesic solver, the
  -- polygon-area accumulator's const Test*/Compute functions, and the two classes with documented exclusions (everything they
  -- write other than the excluded counters / statistics is an offender)
  "AzimuthalEquidistant", "CassiniSoldner", "Gnomonic", "PolygonAreaT", "Intersect", "NearestNeighbor" ]

/-- `p` is a prefix of `s` (on character lists, so that it reduces under `decide`) -/
def pre (p s : String) : Bool := p.toList.isPrefixOf s.toList

/-- the location is covered by an exclusion (whatever class the writing function belongs to: the excluded state is
named by its own class prefix) -/
def excluded (loc : String) : Bool := exclusions.any fun e => pre e.locPrefix loc

/-- what has been certified about guarded writes (computed in `Props/C14.lean` from the extracted facts) -/
structure Certs where
  /-- fill-on-miss caches all of whose demanded blocks are filled by every constructor -/
  prefilled : List String
  /-- locations written only through the default label of a switch over a value that always is one of the explicit cases -/
  defaultUnreachable : List Nat → List String

/-- Is this write acceptable for the property?
* the location is excluded by the property statement;
* every path to it passes a fill-on-miss guard and the location has a prefill certificate;
* every path to it passes the `default` label of a switch that is certified unreachable for this location. -/
def writeOK (c : Certs) (w : WriteRec) : Bool :=
  excluded w.loc ||
  w.guards.any fun g => match g with
    | .miss => c.prefilled.contains w.loc
    | .switchDefault cases => (c.defaultUnreachable cases).contains w.loc
    | .flagFalse _ => false

/-- the table-level obligation: const/static functions of the quantifier's classes write no shared location, up to `writeOK` -/
def fnOK (c : Certs) (e : FnEffect) : Bool :=
  !(quantifierClasses.contains e.cls && e.isPublic) || e.writes.all (writeOK c)

/-- the writes of a function that are neither excluded nor certified away -/
def effWrites (c : Certs) (e : FnEffect) : List String := (e.writes.filter (fun w => !writeOK c w)).map (·.loc)

def offenders (c : Certs) (tbl : List FnEffect) : List (String × List String) :=
  (tbl.filter (fun e => !fnOK c e)).map fun e => (e.fn, effWrites c e)

/-- a thread-safe Geoid: every write of a const Geoid function is executed only when `_threadsafe` is false, or is a file
access (`fileLocs`), which a thread-safe Geoid — whole raster cached, file closed — does not reach -/
def geoidWriteOK (fileLocs : List String) (w : WriteRec) : Bool :=
  w.guards.contains (.flagFalse "Geoid::_threadsafe") || fileLocs.contains w.loc

/-- non-const variables of static storage duration must be in the exclusions -/
def staticOK (d : LocDecl) : Bool :=
  match d.kind with
  | .mutableMember => true
  | _ => d.isConst || excluded d.name

/-- mutable members must be excluded or carry a certificate -/
def mutableOK (certified : List String) (d : LocDecl) : Bool :=
  match d.kind with
  | .mutableMember => excluded d.name || certified.contains d.name
  | _ => true

/-! ### extraction-side facts beyond the effect table (all regenerated each run) -/

/-- a function-local variable of static storage duration -/
structure StaticLocal where
  name : String              -- `Function()::variable`
  file : String
  isConst : Bool             -- top-level const or constexpr
  mutablePointee : Bool      -- a (const) pointer / reference / smart pointer to non-const data
  init : String              -- "constexpr" | "literal" (constant initialisation) | "dynamic" (C++11 guarded initialisation) | "none"
deriving DecidableEq, Repr

/-- a non-static data member that is a raw pointer, a reference, an iterator or a std smart pointer -/
structure PtrMember where
  name : String
  type : String
  pointeeConst : Bool
  kind : String              -- "pointer" | "reference" | "iterator" | "smart"
  file : String
deriving DecidableEq, Repr

/-- `s` ends with `t` -/
def post (t s : String) : Bool := t.toList.reverse.isPrefixOf s.toList.reverse

/-- a function-local static is immutable after its (constant or C++11-guarded) initialisation: declared const, no
non-const pointee, initialised where it is declared; or it is a documented exclusion -/
def staticLocalOK (s : StaticLocal) : Bool :=
  (s.isConst && !s.mutablePointee && s.init != "none") || excluded s.name

/-- a textual `mutable` declarator `(file, member)` is one of the extracted mutable-member locations -/
def scanAccounted (locs : List LocDecl) (fm : String × String) : Bool :=
  locs.any fun d => d.kind == .mutableMember && d.file == fm.1 && post ("::" ++ fm.2) d.name

/-- pointer members whose pointee is not const, and why they are harmless: every use inside const member functions is a call of a
const member function of the pointee (obligation `no_write_through_pointer_members`) -/
def certifiedPtrMembers : List String := ["DST::_fft"]

/-- classes that the harness's background threads construct and destroy while other threads use a shared instance (suite ops
`mtc`, harness/C14.cpp `ctor_pool`); must contain every class whose constructors touch static state (`ctor_static_state_covered`) -/
def backgroundConstructed : List String := [
  "Geodesic", "GeodesicExact", "GeodesicLine", "GeodesicLineExact", "Rhumb", "RhumbLine", "TransverseMercator", "TransverseMercatorExact",
  "PolarStereographic", "LambertConformalConic", "AlbersEqualArea", "Geocentric", "LocalCartesian", "Ellipsoid", "AuxLatitude", "DAuxLatitude",
  "EllipticFunction", "NormalGravity", "SphericalEngine::coeff", "SphericalHarmonic", "SphericalHarmonic1", "SphericalHarmonic2", "CircularEngine",
  "GravityModel", "GravityCircle", "MagneticModel", "MagneticCircle", "Geoid", "DST", "AzimuthalEquidistant", "CassiniSoldner", "Gnomonic",
  "PolygonAreaT", "Accumulator", "GeoCoords", "Intersect", "NearestNeighbor" ]

/-- classes whose const evaluation reads the harmonic square-root table ("SphericalHarmonic (after RootTable)") -/
def harmonicClasses : List String := ["SphericalEngine", "SphericalHarmonic", "SphericalHarmonic1", "SphericalHarmonic2", "CircularEngine",
  "GravityModel", "GravityCircle", "MagneticModel", "MagneticCircle"]

/-! ### kissfft's factorisation of the transform length (constructor of `kissfft`, "start factoring out 4's, then 2's, then 3,5,7,9,...") -/
def nextP (p : Nat) : Nat := if p = 4 then 2 else if p = 2 then 3 else p + 2

/-- `while (n % p) { p = next(p); if (p*p > n) p = n; }` -/
def findFactor : Nat → Nat → Nat → Nat
  | 0, n, _ => n
  | fuel + 1, n, p => if n % p = 0 then p else
      let p' := nextP p
      findFactor fuel n (if p' * p' > n then n else p')

/-- `do { find p; n /= p; radix.push_back(p); } while (n > 1)` -/
def radicesFrom : Nat → Nat → Nat → List Nat
  | 0, _, _ => []
  | fuel + 1, n, p =>
    let q := findFactor (n + 2) n p
    q :: (if n / q > 1 then radicesFrom fuel (n / q) q else [])

/-- the stage radices kissfft uses for a transform of length `n` -/
def kissRadices (n : Nat) : List Nat := radicesFrom (n + 1) n 4

/-- 5-smooth: only the prime factors 2, 3, 5 (these are the radices kissfft has dedicated butterflies for) -/
def strip (p : Nat) : Nat → Nat → Nat
  | 0, n => n
  | fuel + 1, n => if p > 1 ∧ n > 0 ∧ n % p = 0 then strip p fuel (n / p) else n

def fiveSmooth (n : Nat) : Bool := n > 0 && strip 5 n (strip 3 n (strip 2 n n)) == 1

end GeoVerif.Effects
