import GeoVerif.Basic.RealLike
import GeoVerif.Model.Clenshaw
import GeoVerif.Gen.GeodSeries
/-!
# `Geodesic::A1m1f`, `C1f`, `A2m1f`, `C2f` and `Geodesic::Lengths`, polymorphic in the number type

The coefficient tables are those of `Gen.GeodSeries`; the loops mirror the C++.
-/
namespace GeoVerif.GeodLengths
open GeoVerif GeoVerif.RealLike GeoVerif.Clenshaw Gen.GeodSeries
open GeoVerif.RealLike.Lits

variable {α : Type} [RealLike α]

def ofRat (q : Rat) : α :=
  let n : α := if q.num < 0 then -(RealLike.ofNat q.num.natAbs) else RealLike.ofNat q.num.natAbs
  if q.den = 1 then n else n / RealLike.ofNat q.den

/-- `Math::polyval(N, p, x)`: Horner with the highest power first -/
def polyval (p : List α) (x : α) : α :=
  match p with
  | [] => RealLike.ofNat 0
  | c :: cs => cs.foldl (fun y c => y * x + c) c

def nN : Nat := order

def tA1 : List α := A1m1f.map ofRat
def tC1 : List α := C1f.map ofRat
def tA2 : List α := A2m1f.map ofRat
def tC2 : List α := C2f.map ofRat

/-- `A1m1f(eps)` -/
def a1m1f (eps : α) : α :=
  let m := nN / 2
  let t := polyval ((tA1 (α := α)).take (m + 1)) (sq eps) / (tA1 (α := α)).getD (m + 1) (RealLike.ofNat 1)
  (t + eps) / ((1 : α) - eps)

/-- `A2m1f(eps)` -/
def a2m1f (eps : α) : α :=
  let m := nN / 2
  let t := polyval ((tA2 (α := α)).take (m + 1)) (sq eps) / (tA2 (α := α)).getD (m + 1) (RealLike.ofNat 1)
  (t - eps) / ((1 : α) + eps)

/-- the common loop of `C1f` / `C2f`: returns `[c[1], …, c[N]]` -/
def cf (tbl : List α) (eps : α) : List α :=
  let eps2 := sq eps
  let rec go (fuel : Nat) (l : Nat) (o : Nat) (d : α) : List α :=
    match fuel with
    | 0 => []
    | fuel + 1 =>
      if l > nN then [] else
      let m := (nN - l) / 2
      let c := d * polyval ((tbl.drop o).take (m + 1)) eps2 / tbl.getD (o + m + 1) (RealLike.ofNat 1)
      c :: go fuel (l + 1) (o + m + 2) (d * eps)
  go nN 1 0 eps

def c1f (eps : α) : List α := cf tC1 eps
def c2f (eps : α) : List α := cf tC2 eps

/-- `J12` as `Lengths` assembles it when DISTANCE is requested … -/
def j12WithDistance (m0x sig12 A1 A2 : α) (ca cb : List α) (ssig1 csig1 ssig2 csig2 : α) : α :=
  let B1 := sinCosSeries true ssig2 csig2 ca - sinCosSeries true ssig1 csig1 ca
  let B2 := sinCosSeries true ssig2 csig2 cb - sinCosSeries true ssig1 csig1 cb
  m0x * sig12 + (A1 * B1 - A2 * B2)

/-- … and when it is not (the two coefficient vectors are combined first) -/
def j12WithoutDistance (m0x sig12 A1 A2 : α) (ca cb : List α) (ssig1 csig1 ssig2 csig2 : α) : α :=
  let cc := List.zipWith (fun x y => A1 * x - A2 * y) ca cb
  m0x * sig12 + (sinCosSeries true ssig2 csig2 cc - sinCosSeries true ssig1 csig1 cc)

structure Out (α : Type) where
  s12b : α
  m12b : α
  m0 : α
  M12 : α
  M21 : α

/-- `Geodesic::Lengths` with all of DISTANCE, REDUCEDLENGTH, GEODESICSCALE requested (`distance = true`), or without DISTANCE -/
def lengths (ep2 eps sig12 ssig1 csig1 dn1 ssig2 csig2 dn2 cbet1 cbet2 : α) (distance : Bool) : Out α :=
  let A1m := a1m1f eps
  let ca := c1f eps
  let A2m := a2m1f eps
  let cb := c2f eps
  let m0x := A1m - A2m
  let A2 := (1 : α) + A2m
  let A1 := (1 : α) + A1m
  let B1 := sinCosSeries true ssig2 csig2 ca - sinCosSeries true ssig1 csig1 ca
  let s12b := A1 * (sig12 + B1)
  let J12 := if distance then j12WithDistance m0x sig12 A1 A2 ca cb ssig1 csig1 ssig2 csig2
             else j12WithoutDistance m0x sig12 A1 A2 ca cb ssig1 csig1 ssig2 csig2
  let m12b := dn2 * (csig1 * ssig2) - dn1 * (ssig1 * csig2) - csig1 * csig2 * J12
  let csig12 := csig1 * csig2 + ssig1 * ssig2
  let t := ep2 * (cbet1 - cbet2) * (cbet1 + cbet2) / (dn1 + dn2)
  ⟨s12b, m12b, m0x, csig12 + (t * ssig2 - csig2 * J12) * ssig1 / dn1, csig12 - (t * ssig1 - csig1 * J12) * ssig2 / dn2⟩

end GeoVerif.GeodLengths
