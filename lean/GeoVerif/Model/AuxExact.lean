import GeoVerif.Model.Elliptic
import GeoVerif.Model.AuxLat
/-!
# `AuxAngle`, the exact methods of `AuxLatitude`, and the measures of `Ellipsoid` as polymorphic formula models

Same operations in the same order as `src/AuxAngle.cpp`, `AuxAngle.hpp`, `src/AuxLatitude.cpp` (everything except the
series tables, which are in `Model/AuxLat.lean`) and `src/Ellipsoid.cpp`.  Read at `Float`/`RE` the model is executed
against the implementation, read at `ℝ` it is what the theorems of `Props/C15.lean` are about.  `Math::sincosd` is not
modelled here (C16): the degree interfaces take the pair `sincosd(φ)` from the implementation.  Core Lean only.
-/
namespace GeoVerif.AuxExact
open GeoVerif GeoVerif.RealLike GeoVerif.RealX GeoVerif.Elliptic
open GeoVerif.RealLike.Lits

variable {α : Type} [RealX α]

/-! ### `AuxAngle` -/

structure Ang (α : Type) where
  y : α
  x : α

/-- the value written `Math::NaN()` (`0/0`; junk `0` over `ℝ`, where no theorem is about a branch that returns it) -/
def nan : α := (0 : α) / 0
def Ang.NaN : Ang α := ⟨nan, nan⟩
/-- `AuxAngle(y)` (x defaults to 1) -/
def Ang.ofTan (t : α) : Ang α := ⟨t, 1⟩
def Ang.tan (p : Ang α) : α := p.y / p.x
/-- `numeric_limits<double>::max()/2` = `(2⁵³ − 1)·2⁹⁷⁰` -/
def maxHalf : α := RealLike.ofNat ((2 ^ 53 - 1) * 2 ^ 970)

def Ang.normalized (p : Ang α) : Ang α :=
  if isNaN p.tan || (ltb maxHalf (RealLike.abs p.y) && ltb maxHalf (RealLike.abs p.x)) then Ang.NaN else
  let r := RealLike.hypot p.y p.x
  let y := p.y / r
  let x := p.x / r
  ⟨if isNaN y then copysign 1 p.y else y, if isNaN x then copysign 1 p.x else x⟩

def Ang.copyquadrant (p q : Ang α) : Ang α := ⟨copysign p.y q.y, copysign p.x q.x⟩

/-- `operator+=` -/
def Ang.add (p q : Ang α) : Ang α :=
  if !(eqb q.tan 0) then ⟨p.y * q.x + p.x * q.y, p.x * q.x - p.y * q.y⟩ else p

def degree : α := RealLike.pi / 180

/-- `Math::atan2d(y, x)` -/
def atan2d (y x : α) : α :=
  let sw := ltb (RealLike.abs x) (RealLike.abs y)
  let x1 := if sw then y else x
  let y1 := if sw then x else y
  let ng := signNeg x1
  let x2 := if ng then -x1 else x1
  let ang := RealLike.atan2 y1 x2 / degree
  match sw, ng with
  | false, false => ang
  | false, true => copysign 180 y1 - ang
  | true, false => (90 : α) - ang
  | true, true => -(90 : α) + ang

def Ang.degrees (p : Ang α) : α := atan2d p.y p.x
def Ang.radians (p : Ang α) : α := RealLike.atan2 p.y p.x
def Ang.lam (p : Ang α) : α := RealLike.asinh p.tan
def Ang.lamd (p : Ang α) : α := RealLike.asinh p.tan / degree
def Ang.ofRadians (r : α) : Ang α := ⟨RealLike.sin r, RealLike.cos r⟩
def Ang.ofLam (psi : α) : Ang α := Ang.ofTan (RealLike.sinh psi)
def Ang.ofLamd (psid : α) : Ang α := Ang.ofTan (RealLike.sinh (psid * degree))

/-! ### `AuxLatitude`: parameters -/

structure AL (α : Type) where
  a : α
  b : α
  f : α
  fm1 : α
  e2 : α
  e2m1 : α
  e12 : α
  e12p1 : α
  n : α
  e : α
  e1 : α
  n2 : α
  q : α

def qOf (f e e1 e12p1 : α) : α :=
  e12p1 + (if eqb f 0 then 1 else (if ltb 0 f then RealLike.asinh e1 else RealLike.atan e) / e)

/-- `AuxLatitude(a, f)` (the range checks on `a`, `b` are in `ctorOK`) -/
def AL.mk2 (a f : α) : AL α :=
  let fm1 := (1 : α) - f
  let e2 := f * ((2 : α) - f)
  let e2m1 := fm1 * fm1
  let e12 := e2 / ((1 : α) - e2)
  let e12p1 := (1 : α) / e2m1
  let n := f / ((2 : α) - f)
  let e := RealLike.sqrt (RealLike.abs e2)
  let e1 := RealLike.sqrt (RealLike.abs e12)
  ⟨a, a * ((1 : α) - f), f, fm1, e2, e2m1, e12, e12p1, n, e, e1, n * n, qOf f e e1 e12p1⟩

/-- `AuxLatitude::axes(a, b)` -/
def AL.axes (a b : α) : AL α :=
  let f := (a - b) / a
  let e12p1 := (a * a) / (b * b)
  let e := RealLike.sqrt (RealLike.abs (a - b) * (a + b)) / a
  let e1 := RealLike.sqrt (RealLike.abs (a - b) * (a + b)) / b
  let n := (a - b) / (a + b)
  ⟨a, b, f, b / a, ((a - b) * (a + b)) / (a * a), (b * b) / (a * a), ((a - b) * (a + b)) / (b * b), e12p1, n, e, e1, n * n,
   qOf f e e1 e12p1⟩

def AL.ctorOK (P : AL α) : Bool := isFinite P.a && ltb 0 P.a && isFinite P.b && ltb 0 P.b

def tolNewton : α := RealLike.sqrt (eps : α)
def bminC : α := -(1022 : α)
def bmaxC : α := (1024 : α)
def numit : Nat := 1000

/-- `sc(t) = hypot(1, t)` -/
def sc (t : α) : α := RealLike.hypot 1 t
/-- `sn(t) = t / hypot(1, t)`, `±1` for infinite `t` -/
def snT (t : α) : α := if isInf t then copysign 1 t else t / sc t

def atanhee (P : AL α) (tphi : α) : α :=
  let s := if leb P.f 0 then snT tphi else snT (P.fm1 * tphi)
  if eqb P.f 0 then s else (if ltb P.f 0 then RealLike.atan (P.e * s) else RealLike.asinh (P.e1 * s)) / P.e

def qf (P : AL α) (tphi : α) : α :=
  let scbeta := sc (P.fm1 * tphi)
  atanhee P tphi + (tphi / scbeta) * (sc tphi / scbeta)

def dq (P : AL α) (tphi : α) : α :=
  let scphi := sc tphi
  let sphi := snT tphi
  let d := if ltb 0 tphi then (1 : α) / (scphi * scphi * ((1 : α) + sphi)) else (1 : α) - sphi
  if leb tphi 0 then (P.q - qf P tphi) / d
  else if eqb d 0 then (2 : α) / sq P.e2m1
  else
    let scbeta := sc (P.fm1 * tphi)
    (if eqb P.f 0 then 1 else
      (if ltb 0 P.f then RealLike.asinh (P.e1 * d * scphi / scbeta) else RealLike.atan (P.e * d / ((1 : α) - P.e2 * sphi))) / (P.e * d)) +
    (if ltb 0 P.f then ((scphi + P.e2 * tphi) / (P.e2m1 * scbeta)) * (scphi / scbeta)
     else ((1 : α) + P.e2 * sphi) / (((1 : α) - P.e2 * sphi * sphi) * P.e2m1))

/-! ### `ToAuxiliary`: each returns the angle and `diff = d tan ζ / d tan φ` -/

def parametric (P : AL α) (phi : Ang α) : Ang α × α := (⟨phi.y * P.fm1, phi.x⟩, P.fm1)
def geocentric (P : AL α) (phi : Ang α) : Ang α × α := (⟨phi.y * P.e2m1, phi.x⟩, P.e2m1)

/-- the two meridian arcs `sa` (from the equator of the larger semi-axis) and `sb` (to its pole) of `Rectifying` -/
def rectArcs (P : AL α) (phi : Ang α) : α × α :=
  let beta := (parametric P phi).1.normalized
  let neg := ltb P.f 0
  let sbeta := if neg then RealLike.abs beta.x else RealLike.abs beta.y
  let cbeta := if neg then RealLike.abs beta.y else RealLike.abs beta.x
  let a : α := if neg then P.fm1 else 1
  let b : α := if neg then 1 else P.fm1
  let ka := if neg then -P.e12 else P.e2
  let kb := if neg then P.e2 else -P.e12
  let ka1 := if neg then P.e12p1 else P.e2m1
  let sb2 := sbeta * sbeta
  let cb2 := cbeta * cbeta
  let db2 := (1 : α) - kb * sb2
  let da2 := ka1 + ka * sb2
  let sa := b * sbeta * (rf3 cb2 db2 1 - kb * sb2 * rd cb2 db2 1 / 3)
  let sb := a * cbeta * (ka1 * rf3 sb2 da2 1 + ka * ka1 * cb2 * rd sb2 1 da2 / 3 + ka * sbeta / RealLike.sqrt da2)
  (sa, sb)

/-- `(smu, cmu, mr)` from the two arcs: `mr = 2(sa+sb)/π`, `smu = sin(sa/mr)`, `cmu = sin(sb/mr)` -/
def rectFromArcs (sa sb : α) : α × α × α :=
  let mr := ((2 : α) * (sa + sb)) / RealLike.pi
  (RealLike.sin (sa / mr), RealLike.sin (sb / mr), mr)

def rectifying (P : AL α) (phi : Ang α) : Ang α × α :=
  let beta := (parametric P phi).1.normalized
  let neg := ltb P.f 0
  let (sa, sb) := rectArcs P phi
  let (smu0, cmu0, mr) := rectFromArcs sa sb
  let smu := if neg then cmu0 else smu0
  let cmu := if neg then smu0 else cmu0
  -- (after the second swap) a, b are 1, fm1 again
  let a : α := 1
  let b : α := P.fm1
  let mu := (Ang.mk smu cmu).copyquadrant phi
  let tphi := phi.tan
  let diff :=
    if !(isInf tphi) then
      let cphi := phi.normalized.x
      P.fm1 * b / mr * sq (beta.x / mu.x) * (beta.x / cphi)
    else P.fm1 * mr / a
  (mu, diff)

/-- `tchi` of `Conformal` for a finite non-zero `tphi` and `f ≠ 0` -/
def tchiOf (P : AL α) (tphi : α) : α :=
  let scphi := sc tphi
  let sig := RealLike.sinh (P.e2 * atanhee P tphi)
  let scsig := sc sig
  if leb P.f 0 then tphi * scsig - sig * scphi
  else
    let sigtphi := sig / tphi
    let tphimsig :=
      if ltb sig (tphi / 2) then tphi - sig
      else
        let em1 := P.e2m1 / ((1 : α) + P.e)
        let atanhs := RealLike.asinh tphi
        let scbeta := sc (P.fm1 * tphi)
        let scphibeta := sc tphi / scbeta
        let atanhes := RealLike.asinh (P.e * tphi / scbeta)
        let t1 := (atanhs - P.e * atanhes) / 2
        let t2 := RealLike.asinh (em1 * (tphi * scphibeta)) / em1
        let Dg := RealX.cosh ((atanhs + P.e * atanhes) / 2) * (if !(eqb t1 0) then RealLike.sinh t1 / t1 else 1) *
          ((atanhs + atanhes) / 2 + ((1 : α) + P.e) / 2 * t2)
        em1 * Dg
    tphimsig * ((1 : α) + sigtphi) / (scsig + sigtphi * scphi)

def conformal (P : AL α) (phi : Ang α) : Ang α × α :=
  let tphi := RealLike.abs phi.tan
  let tchi := if !(!(isFinite tphi) || eqb tphi 0 || eqb P.f 0) then tchiOf P tphi else tphi
  let chi := (Ang.ofTan tchi).copyquadrant phi
  let diff :=
    if !(isInf tphi) then
      let cchi := chi.normalized.x
      let cphi := phi.normalized.x
      let cbeta := (parametric P phi).1.normalized.x
      P.e2m1 * (cbeta / cchi) * (cbeta / cphi)
    else
      let ss := if ltb 0 P.f then RealLike.sinh (P.e * RealLike.asinh P.e1) else RealLike.sinh (-P.e * RealLike.atan P.e)
      if ltb 0 P.f then (1 : α) / (sc ss + ss) else sc ss - ss
  (chi, diff)

def authalic (P : AL α) (phi : Ang α) : Ang α × α :=
  let tphi := RealLike.abs phi.tan
  let phin := phi.normalized
  let xi : Ang α :=
    if !(!(isFinite tphi) || eqb tphi 0 || eqb P.f 0) then
      let qv := qf P tphi
      let Dqp := dq P tphi
      let Dqm := (P.q + qv) / ((1 : α) + RealLike.abs phin.y)
      ⟨copysign qv phi.y, phin.x * RealLike.sqrt (Dqp * Dqm)⟩
    else phi
  let diff :=
    if !(isInf tphi) then       -- (a NaN propagates; the pole gets the limit — /repo 53d2592)
      let cbeta := (parametric P phi).1.normalized.x
      let cxi := xi.normalized.x
      ((2 : α) / P.q) * sq (cbeta / cxi) * (cbeta / cxi) * (cbeta / phin.x)
    else P.e2m1 * RealLike.sqrt (P.q / 2)
  (xi, diff)

/-- `ToAuxiliary(auxout, phi, &diff)` -/
def toAux (P : AL α) (auxout : Int) (phi : Ang α) : Ang α × α :=
  match auxout with
  | 0 => (phi, 1)
  | 1 => parametric P phi
  | 2 => geocentric P phi
  | 3 => rectifying P phi
  | 4 => conformal P phi
  | 5 => authalic P phi
  | _ => (Ang.NaN, nan)

/-! ### `FromAuxiliary` -/

structure Newton (α : Type) where
  tphi : α
  ltphi : α
  bmin : α
  bmax : α
  sign : Int
  ntrip : Nat
  n : Nat

/-- how the Newton loop of `FromAuxiliary` ended -/
inductive Exit | exact | converged | budget
deriving DecidableEq, Repr

/-- the loop of `FromAuxiliary` for a target `tzeta` (`ltzeta = log2 tzeta`); recursion on the remaining budget -/
def newtonLoop (P : AL α) (auxin : Int) (tzeta ltzeta : α) : Nat → Newton α → Newton α × Exit
  | 0, s => (s, .budget)
  | fuel + 1, s =>
    if !(s.n < numit) then (s, .budget) else
    let n := s.n + 1
    let r := toAux P auxin (Ang.ofTan s.tphi)
    let tzeta1 := r.1.tan
    let ltzeta1 := RealX.log2 tzeta1
    let diff := r.2 * (s.tphi / tzeta1)
    let osign := s.sign
    if eqb tzeta1 tzeta then ({ s with n := n }, .exact) else
    let up := ltb tzeta tzeta1
    let sign : Int := if up then 1 else -1
    let bmax := if up then s.ltphi else s.bmax
    let bmin := if up then s.bmin else s.ltphi
    let dltphi := -(ltzeta1 - ltzeta) / diff
    let ltphi := s.ltphi + dltphi
    let tphi := RealX.exp2 ltphi
    if !(leb tolNewton (RealLike.abs dltphi)) then
      let r2 := toAux P auxin (Ang.ofTan tphi)
      (⟨tphi - (r2.1.tan - tzeta) / r2.2, ltphi, bmin, bmax, sign, s.ntrip, n + 1⟩, .converged)
    else if (sign * osign < 0 && n - s.ntrip > 2) || leb bmax ltphi || leb ltphi bmin then
      let lt := (bmin + bmax) / 2
      newtonLoop P auxin tzeta ltzeta fuel ⟨RealX.exp2 lt, lt, bmin, bmax, 0, n, n⟩
    else newtonLoop P auxin tzeta ltzeta fuel ⟨tphi, ltphi, bmin, bmax, sign, s.ntrip, n⟩

/-- the factor that the starting guess divides `tan ζ` by (`none`: closed form or out of range) -/
def startFactor (P : AL α) (auxin : Int) : Option α :=
  match auxin with
  | 3 => some (P.fm1 * RealLike.sqrt P.fm1)
  | 4 => some (P.fm1 * P.fm1)
  | 5 => some (P.fm1 * RealLike.cbrt P.fm1)
  | _ => none

/-- `FromAuxiliary(auxin, zeta, &niter)` -/
def fromAux (P : AL α) (auxin : Int) (zeta : Ang α) : Ang α × Nat :=
  match auxin with
  | 0 => (zeta, 0)
  | 1 => (⟨zeta.y / P.fm1, zeta.x⟩, 0)
  | 2 => (⟨zeta.y / P.e2m1, zeta.x⟩, 0)
  | _ =>
    match startFactor P auxin with
    | none => (Ang.NaN, 0)
    | some fac =>
      let tzeta := RealLike.abs zeta.tan
      let ltzeta := RealX.log2 tzeta
      if !(isFinite ltzeta) then (zeta, 0) else
      let tphi := tzeta / fac
      let ltphi := RealX.log2 tphi
      let r := newtonLoop P auxin tzeta ltzeta numit ⟨tphi, ltphi, RealLike.min ltphi bminC, RealLike.max ltphi bmaxC, 0, 0, 0⟩
      ((Ang.ofTan r.1.tphi).copyquadrant zeta, r.1.n)

/-! ### `Convert` -/

/-- `ind(auxout, auxin)` -/
def ind (auxout auxin : Int) : Int :=
  let A : Int := Gen.AuxSeries.AUXNUMBER
  if 0 ≤ auxout && auxout < A && 0 ≤ auxin && auxin < A then A * auxout + auxin else -1

/-- `pow(_fm1, k)` for the exponents that occur (`|k| ≤ 2`) -/
def powFm1 (P : AL α) (k : Int) : α :=
  match k with
  | 0 => 1
  | 1 => P.fm1
  | 2 => P.fm1 * P.fm1
  | -1 => (1 : α) / P.fm1
  | -2 => (1 : α) / (P.fm1 * P.fm1)
  | _ => nan

/-- `Convert(auxin, auxout, zeta, exact = true)` -/
def convertExact (P : AL α) (auxin auxout : Int) (zeta : Ang α) : Ang α :=
  if ind auxout auxin < 0 then Ang.NaN
  else if auxin = auxout then zeta
  else if auxin < 3 && auxout < 3 then ⟨zeta.y * powFm1 P (auxout - auxin), zeta.x⟩
  else (toAux P auxout (fromAux P auxin zeta).1).1

/-! ### the radii and `Ellipsoid` -/

/-- `RectifyingRadius(true)` -/
def rectifyingRadiusExact (P : AL α) : α := rg2 (sq P.a) (sq P.b) * 4 / RealLike.pi
/-- `AuthalicRadiusSquared(true)` -/
def authalicRadiusSqExact (P : AL α) : α := sq P.b * P.q / 2

/-- `QuarterMeridian()` -/
def quarterMeridian (P : AL α) : α := RealLike.pi / 2 * rectifyingRadiusExact P
/-- `Area()` -/
def area (P : AL α) : α := (4 : α) * RealLike.pi * authalicRadiusSqExact P

/-- `v = 1 − e² sin²φ` with `s = sind(LatFix(φ))` -/
def vOf (e2 s : α) : α := (1 : α) - e2 * sq s
def meridionalCurvatureRadius (a e2 s : α) : α := let v := vOf e2 s; a * ((1 : α) - e2) / (v * RealLike.sqrt v)
def transverseCurvatureRadius (a e2 s : α) : α := a / RealLike.sqrt (vOf e2 s)
def normalCurvatureRadius (a e2 s salp calp : α) : α :=
  let v := vOf e2 s
  a / (RealLike.sqrt v * (sq calp * v / ((1 : α) - e2) + sq salp))

/-- `CircleRadius`, `CircleHeight` from `(s, c) = sincosd(LatFix(φ))` -/
def circleRadius (P : AL α) (s c : α) : α := P.a * (convertExact P 0 1 ⟨s, c⟩).normalized.x
def circleHeight (P : AL α) (s c : α) : α := P.b * (convertExact P 0 1 ⟨s, c⟩).normalized.y
/-- `MeridianDistance` from `(s, c) = sincosd(LatFix(φ))` -/
def meridianDistance (P : AL α) (s c : α) : α := rectifyingRadiusExact P * (convertExact P 0 3 ⟨s, c⟩).radians
/-- `IsometricLatitude` from `(s, c) = sincosd(LatFix(φ))`, `InverseIsometricLatitude(ψ)` -/
def isometricLatitude (P : AL α) (s c : α) : α := (convertExact P 0 4 ⟨s, c⟩).lamd
def inverseIsometricLatitude (P : AL α) (psi : α) : α := (convertExact P 4 0 (Ang.ofLamd psi)).degrees

end GeoVerif.AuxExact
