import GeoVerif.Basic.RealLike
import GeoVerif.Model.Clenshaw
import GeoVerif.Model.GeodLengths
import GeoVerif.Model.GeodLine
/-!
# Pieces of the series inverse solver: `Geodesic::Astroid`, `Geodesic::InverseStart` and `Geodesic::Lambda12`

Polymorphic in the number type (`RealLike`), same arithmetic in the same order as `Geodesic.cpp`; executed in binary64
against the private functions of the implementation (`Corr/C02.lean`, ops `astroid`, `invstart`, `lambda12`), read over `ℝ` by
`Props/C02.lean`.  `Geodesic::Lengths` is `Model/GeodLengths.lean`; the constants and `A3f`, `C3f` are those of
`Model/GeodLine.lean`.  Core Lean only.
-/
namespace GeoVerif.GeodInvSeries
open GeoVerif GeoVerif.RealLike GeoVerif.Clenshaw GeoVerif.GeodLengths GeoVerif.GeodLine
open GeoVerif.RealLike.Lits

variable {α : Type} [RealLike α]

/-- Cardano / trigonometric solution of the resolvent cubic of `Astroid`: `u` with `u³ − 3r u² = 2S` -/
def astroidU (S r : α) : α :=
  let r2 := sq r
  let r3 := r * r2
  let disc := S * (S + (2 : α) * r3)
  if leb 0 disc then
    let T3 := S + r3
    let T3 := T3 + (if ltb T3 0 then -(RealLike.sqrt disc) else RealLike.sqrt disc)
    let T := RealLike.cbrt T3
    r + (T + (if !(eqb T 0) then r2 / T else (0 : α)))
  else
    let ang := RealLike.atan2 (RealLike.sqrt (-disc)) (-(S + r3))
    r + (2 : α) * r * RealLike.cos (ang / 3)

/-- `Geodesic::Astroid(x, y)`: the positive root `k` of `k⁴ + 2k³ − (x² + y² − 1)k² − 2y²k − y² = 0` -/
def astroid (x y : α) : α :=
  let p := sq x
  let q := sq y
  let r := (p + q - (1 : α)) / 6
  if !(eqb q 0 && leb r 0) then
    let S := p * q / 4
    let u := astroidU S r
    let v := RealLike.sqrt (sq u + q)
    let uv := if ltb u 0 then q / (v - u) else u + v
    let w := (uv - q) / ((2 : α) * v)
    uv / (RealLike.sqrt (uv + sq w) + w)
  else (0 : α)


structure StartOut (α : Type) where
  sig12 : α
  salp1 : α
  calp1 : α
  /-- written only on the short-line exit (else 0) -/
  salp2 : α
  calp2 : α
  /-- written only for a short line (else 0) -/
  dnm : α

/-- the last step of `InverseStart`: normalise `(salp1, calp1)` unless `salp1 ≤ 0` -/
def startFinish (sig12 salp1 calp1 salp2 calp2 dnm : α) : StartOut α :=
  if !(leb salp1 0) then let n := norm2 salp1 calp1; ⟨sig12, n.1, n.2, salp2, calp2, dnm⟩
  else ⟨sig12, 1, 0, salp2, calp2, dnm⟩

/-- `Geodesic::InverseStart`; `eps0 = numeric_limits::epsilon()` (`tol1_ = 200 eps0`, `xthresh_ = 1000 √eps0`) -/
def inverseStart (g : Geod α) (eps0 : α) (sbet1 cbet1 dn1 sbet2 cbet2 dn2 lam12 slam12 clam12 : α) : StartOut α :=
  let tol1 := (200 : α) * eps0
  let xthresh := (1000 : α) * RealLike.sqrt eps0
  let sbet12 := sbet2 * cbet1 - cbet2 * sbet1
  let cbet12 := cbet2 * cbet1 + sbet2 * sbet1
  let sbet12a := sbet2 * cbet1 + cbet2 * sbet1
  let half : α := RealLike.ofDec 5 1
  let shortline := leb 0 cbet12 && ltb sbet12 half && ltb (cbet2 * lam12) half
  let dnm :=
    if shortline then
      let sbetm2 := sq (sbet1 + sbet2)
      let sbetm2 := sbetm2 / (sbetm2 + sq (cbet1 + cbet2))
      RealLike.sqrt ((1 : α) + g.ep2 * sbetm2)
    else (0 : α)
  let omg12 := lam12 / (g.f1 * dnm)
  let somg12 := if shortline then RealLike.sin omg12 else slam12
  let comg12 := if shortline then RealLike.cos omg12 else clam12
  let salp1 := cbet2 * somg12
  let calp1 :=
    if leb 0 comg12 then sbet12 + cbet2 * sbet1 * sq somg12 / ((1 : α) + comg12)
    else sbet12a - cbet2 * sbet1 * sq somg12 / ((1 : α) - comg12)
  let ssig12 := RealLike.hypot salp1 calp1
  let csig12 := sbet1 * sbet2 + cbet1 * cbet2 * comg12
  if shortline && ltb ssig12 g.etol2 then
    let salp2 := cbet1 * somg12
    let calp2 := sbet12 - cbet1 * sbet2 * (if leb 0 comg12 then sq somg12 / ((1 : α) + comg12) else (1 : α) - comg12)
    let n := norm2 salp2 calp2
    startFinish (RealLike.atan2 ssig12 csig12) salp1 calp1 n.1 n.2 dnm
  else if ltb (RealLike.ofDec 1 1) (RealLike.abs g.n) || leb 0 csig12 ||
          leb ((6 : α) * RealLike.abs g.n * RealLike.pi * sq cbet1) ssig12 then
    startFinish (-(1 : α)) salp1 calp1 0 0 dnm
  else
    let lam12x := RealLike.atan2 (-slam12) (-clam12)
    let oblate := leb 0 g.f
    let xyl : α × α × α :=
      if oblate then
        let k2 := sq sbet1 * g.ep2
        let eps := k2 / ((2 : α) * ((1 : α) + RealLike.sqrt ((1 : α) + k2)) + k2)
        let lamscale := g.f * cbet1 * a3f g.A3x eps * RealLike.pi
        let betscale := lamscale * cbet1
        (lam12x / lamscale, sbet12a / betscale, lamscale)
      else
        let cbet12a := cbet2 * cbet1 - sbet2 * sbet1
        let bet12a := RealLike.atan2 sbet12a cbet12a
        let L := lengths g.ep2 g.n (RealLike.pi + bet12a) sbet1 (-cbet1) dn1 sbet2 cbet2 dn2 cbet1 cbet2 false
        let x := -(1 : α) + L.m12b / (cbet1 * cbet2 * L.m0 * RealLike.pi)
        let betscale := if ltb x (-(RealLike.ofDec 1 2)) then sbet12a / x else -g.f * sq cbet1 * RealLike.pi
        let lamscale := betscale / cbet1
        (x, lam12x / lamscale, lamscale)
    let x := xyl.1
    let y := xyl.2.1
    let lamscale := xyl.2.2
    if ltb (-tol1) y && ltb (-(1 : α) - xthresh) x then
      if oblate then
        let salp1 := RealLike.min (1 : α) (-x)
        startFinish (-(1 : α)) salp1 (-(RealLike.sqrt ((1 : α) - sq salp1))) 0 0 dnm
      else
        let calp1 := RealLike.max (if ltb (-tol1) x then (0 : α) else -(1 : α)) x
        startFinish (-(1 : α)) (RealLike.sqrt ((1 : α) - sq calp1)) calp1 0 0 dnm
    else
      let k := astroid x y
      let omg12a := lamscale * (if oblate then -x * k / ((1 : α) + k) else -y * ((1 : α) + k) / k)
      let somg12 := RealLike.sin omg12a
      let comg12 := -(RealLike.cos omg12a)
      startFinish (-(1 : α)) (cbet2 * somg12) (sbet12a - cbet2 * sbet1 * sq somg12 / ((1 : α) - comg12)) 0 0 dnm

structure LamOut (α : Type) where
  lam12 : α
  salp2 : α
  calp2 : α
  sig12 : α
  ssig1 : α
  csig1 : α
  ssig2 : α
  csig2 : α
  eps : α
  domg12 : α
  dlam12 : α

/-- `Geodesic::Lambda12(…, diffp = true, …)` -/
def lambda12 (g : Geod α) (sbet1 cbet1 dn1 sbet2 cbet2 dn2 salp1 calp1 slam120 clam120 : α) : LamOut α :=
  let calp1 := if eqb sbet1 0 && eqb calp1 0 then -g.tiny else calp1
  let salp0 := salp1 * cbet1
  let calp0 := RealLike.hypot calp1 (salp1 * sbet1)
  let somg1 := salp0 * sbet1
  let comg1 := calp1 * cbet1
  let n1 := norm2 sbet1 comg1
  let ssig1 := n1.1
  let csig1 := n1.2
  let salp2 := if !(eqb cbet2 cbet1) then salp0 / cbet2 else salp1
  let calp2 :=
    if !(eqb cbet2 cbet1) || !(eqb (RealLike.abs sbet2) (-sbet1)) then
      RealLike.sqrt (sq (calp1 * cbet1) +
        (if ltb cbet1 (-sbet1) then (cbet2 - cbet1) * (cbet1 + cbet2) else (sbet1 - sbet2) * (sbet1 + sbet2))) / cbet2
    else RealLike.abs calp1
  let somg2 := salp0 * sbet2
  let comg2 := calp2 * cbet2
  let n2 := norm2 sbet2 comg2
  let ssig2 := n2.1
  let csig2 := n2.2
  let sig12 := RealLike.atan2 (RealLike.max 0 (csig1 * ssig2 - ssig1 * csig2) + 0) (csig1 * csig2 + ssig1 * ssig2)
  let somg12 := RealLike.max 0 (comg1 * somg2 - somg1 * comg2) + 0
  let comg12 := comg1 * comg2 + somg1 * somg2
  let eta := RealLike.atan2 (somg12 * clam120 - comg12 * slam120) (comg12 * clam120 + somg12 * slam120)
  let k2 := sq calp0 * g.ep2
  let eps := k2 / ((2 : α) * ((1 : α) + RealLike.sqrt ((1 : α) + k2)) + k2)
  let Ca := c3f g.C3x eps
  let B312 := sinCosSeries true ssig2 csig2 Ca - sinCosSeries true ssig1 csig1 Ca
  let domg12 := -g.f * a3f g.A3x eps * salp0 * (sig12 + B312)
  let lam12 := eta + domg12
  let dlam12 :=
    if eqb calp2 0 then -(2 : α) * g.f1 * dn1 / sbet1
    else (lengths g.ep2 eps sig12 ssig1 csig1 dn1 ssig2 csig2 dn2 cbet1 cbet2 false).m12b * (g.f1 / (calp2 * cbet2))
  ⟨lam12, salp2, calp2, sig12, ssig1, csig1, ssig2, csig2, eps, domg12, dlam12⟩

end GeoVerif.GeodInvSeries
