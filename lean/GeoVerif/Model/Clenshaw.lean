import GeoVerif.Basic.RealLike
/-!
# `Geodesic::SinCosSeries` (Clenshaw summation), polymorphic in the number type
-/
namespace GeoVerif.Clenshaw
open GeoVerif GeoVerif.RealLike
open GeoVerif.RealLike.Lits

variable {α : Type} [RealLike α]

/-- backward recurrence `b_k = ar·b_{k+1} − b_{k+2} + c_k`; returns `(b_first, b_second)` -/
def clen (ar : α) : List α → α × α
  | [] => (RealLike.ofNat 0, RealLike.ofNat 0)
  | c :: cs => let p := clen ar cs; (ar * p.1 - p.2 + c, p.1)

/-- `SinCosSeries(sinp, sinx, cosx, c, n)`; `cs` = `c[1..n]` for the sine series, `c[0..n-1]` for the cosine series -/
def sinCosSeries (sinp : Bool) (sinx cosx : α) (cs : List α) : α :=
  let ar := (2 : α) * (cosx - sinx) * (cosx + sinx)
  let p := clen ar cs
  if sinp then (2 : α) * sinx * cosx * p.1 else cosx * (p.1 - p.2)

end GeoVerif.Clenshaw
