import GeoVerif.Model.ErrContract
import GeoVerif.Model.ApiInventory
/-!
# C13 — which part of the contract covers which public function

`coverage` is hand-written: for every public constructor / member function / static function of the library that takes a floating-point
number, a string, a vector or a stream, *how the error contract reaches it*:

* `.table e off`   — it is called by the dependence-table entry `e` of `ErrContract.table` (special-value sweep, every argument position ×
                     every special value, sentinel-initialised outputs); its real arguments are the inputs `off, off+1, …` of that entry;
* `.ctor c`        — its accept / reject behaviour is compared with the domain predicate `ErrContract.ctorOK c` / `ctorBounds c`;
* `.parser p`      — it is fed seeds and mutated text by the parser stream `p`;
* `.file r`        — it is fed truncated / corrupted images by the file-reader stream `r`;
* `.sizes f`       — its vector-size domain is compared with `ErrContract.shCtorOK f`;
* `.forwards t why`— it is an inline overload that passes the *same input arguments* to the function `t`, which is itself covered directly;
* `.via e why`     — it is an internal engine reached only through the swept entry `e`;
* `.excluded why`  — nothing to check, with the reason.

The keys are those of `ApiInventory.Fn.key`.  The list is tied to the current headers by the obligations of `Props/C13.lean`
(`api_covered`, `coverage_not_stale`, `ctor_all_have_domain`, `cover_arities`), which compare it with `Gen/ApiC13.lean`.
Core Lean only.
-/
namespace GeoVerif.ErrCover
open GeoVerif GeoVerif.ErrContract GeoVerif.ApiInventory

inductive By where
  | table (entry : Key) (off : Nat)
  | ctor (cls : Key)
  | parser (name : Key)
  | file (name : Key)
  | sizes (form : Key)
  | forwards (target : Key) (why : String)
  | via (entry : Key) (why : String)
  | excluded (why : String)
deriving Repr

structure Cover where
  api : Key
  how : By
deriving Repr

def coverage : List Cover := [
  ⟨k% "Accumulator.Accumulator/t>-", .ctor (k% "Accumulator")⟩,
  ⟨k% "Accumulator.Accumulator/t>-", .table (k% "Accumulator.assign") 0⟩,
  ⟨k% "Accumulator.operator!=/t>b", .table (k% "Accumulator.compare") 1⟩,
  ⟨k% "Accumulator.operator()/t>t", .table (k% "Accumulator.peek") 1⟩,
  ⟨k% "Accumulator.operator*=/t>o", .table (k% "Accumulator.mul") 1⟩,
  ⟨k% "Accumulator.operator+=/t>o", .table (k% "Accumulator") 0⟩,
  ⟨k% "Accumulator.operator-=/t>o", .table (k% "Accumulator") 0⟩,
  ⟨k% "Accumulator.operator</t>b", .table (k% "Accumulator.compare") 1⟩,
  ⟨k% "Accumulator.operator<=/t>b", .table (k% "Accumulator.compare") 1⟩,
  ⟨k% "Accumulator.operator=/t>o", .table (k% "Accumulator.assign") 0⟩,
  ⟨k% "Accumulator.operator==/t>b", .table (k% "Accumulator.compare") 1⟩,
  ⟨k% "Accumulator.operator>/t>b", .table (k% "Accumulator.compare") 1⟩,
  ⟨k% "Accumulator.operator>=/t>b", .table (k% "Accumulator.compare") 1⟩,
  ⟨k% "Accumulator.remainder/t>o", .table (k% "Accumulator.remainder") 1⟩,
  ⟨k% "AlbersEqualArea.AlbersEqualArea/rrrr>-", .ctor (k% "AlbersEqualArea1")⟩,
  ⟨k% "AlbersEqualArea.AlbersEqualArea/rrrrr>-", .ctor (k% "AlbersEqualArea2")⟩,
  ⟨k% "AlbersEqualArea.AlbersEqualArea/rrrrrrr>-", .ctor (k% "AlbersEqualArea4")⟩,
  ⟨k% "AlbersEqualArea.Forward/rrrRR>-", .forwards (k% "AlbersEqualArea.Forward/rrrRRRR>-") "inline overload without convergence and scale, same arguments"⟩,
  ⟨k% "AlbersEqualArea.Forward/rrrRRRR>-", .table (k% "Albers.Forward") 0⟩,
  ⟨k% "AlbersEqualArea.Reverse/rrrRR>-", .forwards (k% "AlbersEqualArea.Reverse/rrrRRRR>-") "inline overload without convergence and scale, same arguments"⟩,
  ⟨k% "AlbersEqualArea.Reverse/rrrRRRR>-", .table (k% "Albers.Reverse") 0⟩,
  ⟨k% "AlbersEqualArea.SetScale/rr>-", .table (k% "Albers.SetScale") 0⟩,
  ⟨k% "AlbersEqualArea.SetScale/rr>-", .ctor (k% "AlbersEqualArea.SetScale")⟩,
  ⟨k% "AuxAngle.AuxAngle/rr>-", .ctor (k% "AuxAngle")⟩,
  ⟨k% "AuxAngle.AuxAngle/rr>-", .table (k% "AuxAngle.degrees") 0⟩,
  ⟨k% "AuxAngle.copyquadrant/a>a", .table (k% "AuxAngle.copyquadrant") 0⟩,
  ⟨k% "AuxAngle.degrees/r>a", .table (k% "AuxAngle.fromDegrees") 0⟩,
  ⟨k% "AuxAngle.lam/r>a", .table (k% "AuxAngle.fromLam") 0⟩,
  ⟨k% "AuxAngle.lamd/r>a", .table (k% "AuxAngle.fromLamd") 0⟩,
  ⟨k% "AuxAngle.operator+=/a>a", .table (k% "AuxAngle.add") 0⟩,
  ⟨k% "AuxAngle.radians/r>a", .table (k% "AuxAngle.fromRadians") 0⟩,
  ⟨k% "AuxLatitude.AuxLatitude/rr>-", .ctor (k% "AuxLatitude")⟩,
  ⟨k% "AuxLatitude.Clenshaw/brrqi>r", .table (k% "AuxLatitude.Clenshaw") 0⟩,
  ⟨k% "AuxLatitude.Convert/iiab>a", .table (k% "AuxLatitude.ConvertAngleSeries") 0⟩,
  ⟨k% "AuxLatitude.Convert/iirb>r", .table (k% "AuxLatitude.ConvertSeries") 0⟩,
  ⟨k% "AuxLatitude.FromAuxiliary/iaI>a", .table (k% "AuxLatitude.FromAuxiliary") 0⟩,
  ⟨k% "AuxLatitude.ToAuxiliary/iaQ>a", .table (k% "AuxLatitude.ToAuxiliary") 0⟩,
  ⟨k% "AuxLatitude.axes/rr>o", .ctor (k% "AuxLatitudeAxes")⟩,
  ⟨k% "AzimuthalEquidistant.AzimuthalEquidistant/o>-", .excluded "takes only a reference to an already validated library object (no numeric parameter of its own)"⟩,
  ⟨k% "AzimuthalEquidistant.Forward/rrrrRR>-", .forwards (k% "AzimuthalEquidistant.Forward/rrrrRRRR>-") "inline overload without azimuth and scale, same arguments"⟩,
  ⟨k% "AzimuthalEquidistant.Forward/rrrrRRRR>-", .table (k% "AzimuthalEquidistant.Forward") 0⟩,
  ⟨k% "AzimuthalEquidistant.Reverse/rrrrRR>-", .forwards (k% "AzimuthalEquidistant.Reverse/rrrrRRRR>-") "inline overload without azimuth and scale, same arguments"⟩,
  ⟨k% "AzimuthalEquidistant.Reverse/rrrrRRRR>-", .table (k% "AzimuthalEquidistant.Reverse") 0⟩,
  ⟨k% "CassiniSoldner.CassiniSoldner/o>-", .excluded "takes only a reference to an already validated library object (no numeric parameter of its own)"⟩,
  ⟨k% "CassiniSoldner.CassiniSoldner/rro>-", .ctor (k% "CassiniSoldner")⟩,
  ⟨k% "CassiniSoldner.CassiniSoldner/rro>-", .table (k% "CassiniSoldner.Forward") 0⟩,
  ⟨k% "CassiniSoldner.Forward/rrRR>-", .forwards (k% "CassiniSoldner.Forward/rrRRRR>-") "inline overload without azimuth and scale, same arguments"⟩,
  ⟨k% "CassiniSoldner.Forward/rrRRRR>-", .table (k% "CassiniSoldner.Forward") 2⟩,
  ⟨k% "CassiniSoldner.Reset/rr>-", .table (k% "CassiniSoldner.Reset") 0⟩,
  ⟨k% "CassiniSoldner.Reverse/rrRR>-", .forwards (k% "CassiniSoldner.Reverse/rrRRRR>-") "inline overload without azimuth and scale, same arguments"⟩,
  ⟨k% "CassiniSoldner.Reverse/rrRRRR>-", .table (k% "CassiniSoldner.Reverse") 2⟩,
  ⟨k% "CircularEngine.CircularEngine/>-", .excluded "default constructor: no parameter, nothing to reject"⟩,
  ⟨k% "CircularEngine.operator()/r>r", .table (k% "CircularEngine.Value") 0⟩,
  ⟨k% "CircularEngine.operator()/rRRR>r", .table (k% "CircularEngine.Grad") 0⟩,
  ⟨k% "CircularEngine.operator()/rr>r", .table (k% "CircularEngine.ValueSC") 0⟩,
  ⟨k% "CircularEngine.operator()/rrRRR>r", .table (k% "CircularEngine.GradSC") 0⟩,
  ⟨k% "DAuxLatitude.DAuxLatitude/rr>-", .ctor (k% "DAuxLatitude")⟩,
  ⟨k% "DAuxLatitude.DClenshaw/brrrrrqi>r", .table (k% "DAuxLatitude.DClenshaw") 0⟩,
  ⟨k% "DAuxLatitude.DConvert/iiaa>r", .table (k% "DAuxLatitude.DConvert") 0⟩,
  ⟨k% "DAuxLatitude.DIsometric/aa>r", .table (k% "DAuxLatitude.D3") 0⟩,
  ⟨k% "DAuxLatitude.DParametric/aa>r", .table (k% "DAuxLatitude.D3") 0⟩,
  ⟨k% "DAuxLatitude.DRectifying/aa>r", .table (k% "DAuxLatitude.D3") 0⟩,
  ⟨k% "DAuxLatitude.Dlam/rr>r", .table (k% "DAuxLatitude.Dlam") 0⟩,
  ⟨k% "DAuxLatitude.Dp0Dpsi/rr>r", .table (k% "DAuxLatitude.Dp0Dpsi") 0⟩,
  ⟨k% "DMS.Decode/rrr>r", .table (k% "DMS.DecodeDMS") 0⟩,
  ⟨k% "DMS.Decode/sE>r", .parser (k% "DMS.Decode")⟩,
  ⟨k% "DMS.DecodeAngle/s>r", .parser (k% "DMS.DecodeAngle")⟩,
  ⟨k% "DMS.DecodeAzimuth/s>r", .parser (k% "DMS.DecodeAzimuth")⟩,
  ⟨k% "DMS.DecodeLatLon/ssRRb>-", .parser (k% "DMS.DecodeLatLon")⟩,
  ⟨k% "DMS.Encode/rRR>-", .table (k% "DMS.EncodeDM") 0⟩,
  ⟨k% "DMS.Encode/rRRR>-", .table (k% "DMS.EncodeDMS") 0⟩,
  ⟨k% "DMS.Encode/reuec>s", .table (k% "DMS.Encode") 0⟩,
  ⟨k% "DMS.Encode/ruec>s", .table (k% "DMS.Encode") 0⟩,
  ⟨k% "DST.DST/i>-", .excluded "integer size only (swept by c13_int DST.N)"⟩,
  ⟨k% "DST.eval/rrqi>r", .table (k% "DST.eval") 0⟩,
  ⟨k% "DST.integral/rrqi>r", .table (k% "DST.integral") 0⟩,
  ⟨k% "DST.integral/rrrrqi>r", .table (k% "DST.integral2") 0⟩,
  ⟨k% "DST.refine/hQ>-", .table (k% "DST.refine") 0⟩,
  ⟨k% "DST.transform/hQ>-", .table (k% "DST.transform") 0⟩,
  ⟨k% "Ellipsoid.AuthalicLatitude/r>r", .table (k% "Ellipsoid.AuthalicLatitude") 0⟩,
  ⟨k% "Ellipsoid.CircleHeight/r>r", .table (k% "Ellipsoid.CircleHeight") 0⟩,
  ⟨k% "Ellipsoid.CircleRadius/r>r", .table (k% "Ellipsoid.CircleRadius") 0⟩,
  ⟨k% "Ellipsoid.ConformalLatitude/r>r", .table (k% "Ellipsoid.ConformalLatitude") 0⟩,
  ⟨k% "Ellipsoid.EccentricitySqToFlattening/r>r", .table (k% "Ellipsoid.EccentricitySqToFlattening") 0⟩,
  ⟨k% "Ellipsoid.Ellipsoid/rr>-", .ctor (k% "Ellipsoid")⟩,
  ⟨k% "Ellipsoid.FlatteningToEccentricitySq/r>r", .table (k% "Ellipsoid.FlatteningToEccentricitySq") 0⟩,
  ⟨k% "Ellipsoid.FlatteningToSecondEccentricitySq/r>r", .table (k% "Ellipsoid.FlatteningToSecondEccentricitySq") 0⟩,
  ⟨k% "Ellipsoid.FlatteningToSecondFlattening/r>r", .table (k% "Ellipsoid.FlatteningToSecondFlattening") 0⟩,
  ⟨k% "Ellipsoid.FlatteningToThirdEccentricitySq/r>r", .table (k% "Ellipsoid.FlatteningToThirdEccentricitySq") 0⟩,
  ⟨k% "Ellipsoid.FlatteningToThirdFlattening/r>r", .table (k% "Ellipsoid.FlatteningToThirdFlattening") 0⟩,
  ⟨k% "Ellipsoid.GeocentricLatitude/r>r", .table (k% "Ellipsoid.GeocentricLatitude") 0⟩,
  ⟨k% "Ellipsoid.InverseAuthalicLatitude/r>r", .table (k% "Ellipsoid.InverseAuthalicLatitude") 0⟩,
  ⟨k% "Ellipsoid.InverseConformalLatitude/r>r", .table (k% "Ellipsoid.InverseConformalLatitude") 0⟩,
  ⟨k% "Ellipsoid.InverseGeocentricLatitude/r>r", .table (k% "Ellipsoid.InverseGeocentricLatitude") 0⟩,
  ⟨k% "Ellipsoid.InverseIsometricLatitude/r>r", .table (k% "Ellipsoid.InverseIsometricLatitude") 0⟩,
  ⟨k% "Ellipsoid.InverseParametricLatitude/r>r", .table (k% "Ellipsoid.InverseParametricLatitude") 0⟩,
  ⟨k% "Ellipsoid.InverseRectifyingLatitude/r>r", .table (k% "Ellipsoid.InverseRectifyingLatitude") 0⟩,
  ⟨k% "Ellipsoid.IsometricLatitude/r>r", .table (k% "Ellipsoid.IsometricLatitude") 0⟩,
  ⟨k% "Ellipsoid.MeridianDistance/r>r", .table (k% "Ellipsoid.MeridianDistance") 0⟩,
  ⟨k% "Ellipsoid.MeridionalCurvatureRadius/r>r", .table (k% "Ellipsoid.MeridionalCurvatureRadius") 0⟩,
  ⟨k% "Ellipsoid.NormalCurvatureRadius/rr>r", .table (k% "Ellipsoid.NormalCurvatureRadius") 0⟩,
  ⟨k% "Ellipsoid.ParametricLatitude/r>r", .table (k% "Ellipsoid.ParametricLatitude") 0⟩,
  ⟨k% "Ellipsoid.RectifyingLatitude/r>r", .table (k% "Ellipsoid.RectifyingLatitude") 0⟩,
  ⟨k% "Ellipsoid.SecondEccentricitySqToFlattening/r>r", .table (k% "Ellipsoid.SecondEccentricitySqToFlattening") 0⟩,
  ⟨k% "Ellipsoid.SecondFlatteningToFlattening/r>r", .table (k% "Ellipsoid.SecondFlatteningToFlattening") 0⟩,
  ⟨k% "Ellipsoid.ThirdEccentricitySqToFlattening/r>r", .table (k% "Ellipsoid.ThirdEccentricitySqToFlattening") 0⟩,
  ⟨k% "Ellipsoid.ThirdFlatteningToFlattening/r>r", .table (k% "Ellipsoid.ThirdFlatteningToFlattening") 0⟩,
  ⟨k% "Ellipsoid.TransverseCurvatureRadius/r>r", .table (k% "Ellipsoid.TransverseCurvatureRadius") 0⟩,
  ⟨k% "EllipticFunction.D/r>r", .table (k% "EllipticFunction.D") 0⟩,
  ⟨k% "EllipticFunction.D/rrr>r", .table (k% "EllipticFunction.D3") 0⟩,
  ⟨k% "EllipticFunction.Delta/rr>r", .table (k% "EllipticFunction.Delta") 0⟩,
  ⟨k% "EllipticFunction.E/r>r", .table (k% "EllipticFunction.E") 0⟩,
  ⟨k% "EllipticFunction.E/rrr>r", .table (k% "EllipticFunction.E3") 0⟩,
  ⟨k% "EllipticFunction.Ed/r>r", .table (k% "EllipticFunction.Ed") 0⟩,
  ⟨k% "EllipticFunction.Einv/r>r", .table (k% "EllipticFunction.Einv") 0⟩,
  ⟨k% "EllipticFunction.EllipticFunction/rr>-", .ctor (k% "EllipticFunction2")⟩,
  ⟨k% "EllipticFunction.EllipticFunction/rr>-", .table (k% "EllipticFunction.Reset") 0⟩,
  ⟨k% "EllipticFunction.EllipticFunction/rrrr>-", .ctor (k% "EllipticFunction4")⟩,
  ⟨k% "EllipticFunction.EllipticFunction/rrrr>-", .table (k% "EllipticFunction.Reset4") 0⟩,
  ⟨k% "EllipticFunction.F/r>r", .table (k% "EllipticFunction.F") 0⟩,
  ⟨k% "EllipticFunction.F/rrr>r", .table (k% "EllipticFunction.F3") 0⟩,
  ⟨k% "EllipticFunction.G/r>r", .table (k% "EllipticFunction.G") 0⟩,
  ⟨k% "EllipticFunction.G/rrr>r", .table (k% "EllipticFunction.G3") 0⟩,
  ⟨k% "EllipticFunction.H/r>r", .table (k% "EllipticFunction.H") 0⟩,
  ⟨k% "EllipticFunction.H/rrr>r", .table (k% "EllipticFunction.H3") 0⟩,
  ⟨k% "EllipticFunction.Pi/r>r", .table (k% "EllipticFunction.Pi") 0⟩,
  ⟨k% "EllipticFunction.Pi/rrr>r", .table (k% "EllipticFunction.Pi3") 0⟩,
  ⟨k% "EllipticFunction.RC/rr>r", .table (k% "EllipticFunction.RC") 0⟩,
  ⟨k% "EllipticFunction.RD/rrr>r", .table (k% "EllipticFunction.RD") 0⟩,
  ⟨k% "EllipticFunction.RF/rr>r", .table (k% "EllipticFunction.RF2") 0⟩,
  ⟨k% "EllipticFunction.RF/rrr>r", .table (k% "EllipticFunction.RF3") 0⟩,
  ⟨k% "EllipticFunction.RG/rr>r", .table (k% "EllipticFunction.RG2") 0⟩,
  ⟨k% "EllipticFunction.RG/rrr>r", .table (k% "EllipticFunction.RG3") 0⟩,
  ⟨k% "EllipticFunction.RJ/rrrr>r", .table (k% "EllipticFunction.RJ") 0⟩,
  ⟨k% "EllipticFunction.Reset/rr>-", .table (k% "EllipticFunction.Reset") 0⟩,
  ⟨k% "EllipticFunction.Reset/rrrr>-", .table (k% "EllipticFunction.Reset4") 0⟩,
  ⟨k% "EllipticFunction.am/r>r", .table (k% "EllipticFunction.am") 0⟩,
  ⟨k% "EllipticFunction.am/rRRR>r", .table (k% "EllipticFunction.am4") 0⟩,
  ⟨k% "EllipticFunction.deltaD/rrr>r", .table (k% "EllipticFunction.deltaD3") 0⟩,
  ⟨k% "EllipticFunction.deltaE/rrr>r", .table (k% "EllipticFunction.deltaE3") 0⟩,
  ⟨k% "EllipticFunction.deltaEinv/rr>r", .table (k% "EllipticFunction.deltaEinv") 0⟩,
  ⟨k% "EllipticFunction.deltaF/rrr>r", .table (k% "EllipticFunction.deltaF3") 0⟩,
  ⟨k% "EllipticFunction.deltaG/rrr>r", .table (k% "EllipticFunction.deltaG3") 0⟩,
  ⟨k% "EllipticFunction.deltaH/rrr>r", .table (k% "EllipticFunction.deltaH3") 0⟩,
  ⟨k% "EllipticFunction.deltaPi/rrr>r", .table (k% "EllipticFunction.deltaPi3") 0⟩,
  ⟨k% "EllipticFunction.sncndn/rRRR>-", .table (k% "EllipticFunction.sncndn") 0⟩,
  ⟨k% "GARS.Forward/rriS>-", .table (k% "GARS.Forward") 0⟩,
  ⟨k% "GARS.Precision/r>i", .table (k% "GARS.Precision") 0⟩,
  ⟨k% "GARS.Reverse/sRRIb>-", .parser (k% "rev.gars")⟩,
  ⟨k% "GeoCoords.GeoCoords/>-", .excluded "default constructor: no parameter, nothing to reject"⟩,
  ⟨k% "GeoCoords.GeoCoords/ibrr>-", .ctor (k% "GeoCoordsUTM32N")⟩,
  ⟨k% "GeoCoords.GeoCoords/ibrr>-", .table (k% "GeoCoords.CtorUTMN") 0⟩,
  ⟨k% "GeoCoords.GeoCoords/ibrr>-", .ctor (k% "GeoCoordsUTM32S")⟩,
  ⟨k% "GeoCoords.GeoCoords/ibrr>-", .ctor (k% "GeoCoordsUPSN")⟩,
  ⟨k% "GeoCoords.GeoCoords/ibrr>-", .ctor (k% "GeoCoordsUPSS")⟩,
  ⟨k% "GeoCoords.GeoCoords/rri>-", .ctor (k% "GeoCoordsLatLon")⟩,
  ⟨k% "GeoCoords.GeoCoords/rri>-", .table (k% "GeoCoords.CtorLatLon") 0⟩,
  ⟨k% "GeoCoords.GeoCoords/sbb>-", .parser (k% "GeoCoords")⟩,
  ⟨k% "GeoCoords.GeoCoords/sbb>-", .table (k% "GeoCoords.StrUTMN") 0⟩,
  ⟨k% "GeoCoords.Reset/ibrr>-", .table (k% "GeoCoords.ResetUTMN") 0⟩,
  ⟨k% "GeoCoords.Reset/rri>-", .table (k% "GeoCoords.ResetLatLon") 0⟩,
  ⟨k% "GeoCoords.Reset/sbb>-", .parser (k% "GeoCoords.Reset")⟩,
  ⟨k% "GeoCoords.Reset/sbb>-", .table (k% "GeoCoords.ResetStrLatLon") 0⟩,
  ⟨k% "Geocentric.Forward/rrrRRR>-", .table (k% "Geocentric.Forward") 0⟩,
  ⟨k% "Geocentric.Forward/rrrRRRV>-", .table (k% "Geocentric.ForwardM") 0⟩,
  ⟨k% "Geocentric.Geocentric/>-", .excluded "default constructor: no parameter, nothing to reject"⟩,
  ⟨k% "Geocentric.Geocentric/rr>-", .ctor (k% "Geocentric")⟩,
  ⟨k% "Geocentric.Reverse/rrrRRR>-", .table (k% "Geocentric.Reverse") 0⟩,
  ⟨k% "Geocentric.Reverse/rrrRRRV>-", .table (k% "Geocentric.ReverseM") 0⟩,
  ⟨k% "Geodesic.ArcDirect/rrrrRR>-", .forwards (k% "Geodesic.ArcDirect/rrrrRRRRRRRR>-") "inline overload: calls the same Gen function with a smaller output mask and the same arguments"⟩,
  ⟨k% "Geodesic.ArcDirect/rrrrRRR>-", .forwards (k% "Geodesic.ArcDirect/rrrrRRRRRRRR>-") "inline overload: calls the same Gen function with a smaller output mask and the same arguments"⟩,
  ⟨k% "Geodesic.ArcDirect/rrrrRRRR>-", .forwards (k% "Geodesic.ArcDirect/rrrrRRRRRRRR>-") "inline overload: calls the same Gen function with a smaller output mask and the same arguments"⟩,
  ⟨k% "Geodesic.ArcDirect/rrrrRRRRR>-", .forwards (k% "Geodesic.ArcDirect/rrrrRRRRRRRR>-") "inline overload: calls the same Gen function with a smaller output mask and the same arguments"⟩,
  ⟨k% "Geodesic.ArcDirect/rrrrRRRRRR>-", .forwards (k% "Geodesic.ArcDirect/rrrrRRRRRRRR>-") "inline overload: calls the same Gen function with a smaller output mask and the same arguments"⟩,
  ⟨k% "Geodesic.ArcDirect/rrrrRRRRRRR>-", .forwards (k% "Geodesic.ArcDirect/rrrrRRRRRRRR>-") "inline overload: calls the same Gen function with a smaller output mask and the same arguments"⟩,
  ⟨k% "Geodesic.ArcDirect/rrrrRRRRRRRR>-", .table (k% "GeodS.ArcDirect") 0⟩,
  ⟨k% "Geodesic.ArcDirectLine/rrrru>o", .table (k% "GeodS.ArcDirectLine.Position") 0⟩,
  ⟨k% "Geodesic.Direct/rrrrRR>r", .forwards (k% "Geodesic.Direct/rrrrRRRRRRR>r") "inline overload: calls the same Gen function with a smaller output mask and the same arguments"⟩,
  ⟨k% "Geodesic.Direct/rrrrRRR>r", .forwards (k% "Geodesic.Direct/rrrrRRRRRRR>r") "inline overload: calls the same Gen function with a smaller output mask and the same arguments"⟩,
  ⟨k% "Geodesic.Direct/rrrrRRRR>r", .forwards (k% "Geodesic.Direct/rrrrRRRRRRR>r") "inline overload: calls the same Gen function with a smaller output mask and the same arguments"⟩,
  ⟨k% "Geodesic.Direct/rrrrRRRRR>r", .forwards (k% "Geodesic.Direct/rrrrRRRRRRR>r") "inline overload: calls the same Gen function with a smaller output mask and the same arguments"⟩,
  ⟨k% "Geodesic.Direct/rrrrRRRRRR>r", .forwards (k% "Geodesic.Direct/rrrrRRRRRRR>r") "inline overload: calls the same Gen function with a smaller output mask and the same arguments"⟩,
  ⟨k% "Geodesic.Direct/rrrrRRRRRRR>r", .table (k% "GeodS.Direct") 0⟩,
  ⟨k% "Geodesic.DirectLine/rrrru>o", .table (k% "GeodS.DirectLine.Position") 0⟩,
  ⟨k% "Geodesic.GenDirect/rrrbruRRRRRRRR>r", .table (k% "GeodS.GenDirect") 0⟩,
  ⟨k% "Geodesic.GenDirectLine/rrrbru>o", .table (k% "GeodS.GenDirectLine.Position") 0⟩,
  ⟨k% "Geodesic.GenInverse/rrrruRRRRRRR>r", .table (k% "GeodS.GenInverse") 0⟩,
  ⟨k% "Geodesic.Geodesic/rrb>-", .ctor (k% "Geodesic")⟩,
  ⟨k% "Geodesic.Geodesic/rrb>-", .ctor (k% "GeodesicX")⟩,
  ⟨k% "Geodesic.Inverse/rrrrR>r", .forwards (k% "Geodesic.Inverse/rrrrRRRRRRR>r") "inline overload: calls the same Gen function with a smaller output mask and the same arguments"⟩,
  ⟨k% "Geodesic.Inverse/rrrrRR>r", .forwards (k% "Geodesic.Inverse/rrrrRRRRRRR>r") "inline overload: calls the same Gen function with a smaller output mask and the same arguments"⟩,
  ⟨k% "Geodesic.Inverse/rrrrRRR>r", .forwards (k% "Geodesic.Inverse/rrrrRRRRRRR>r") "inline overload: calls the same Gen function with a smaller output mask and the same arguments"⟩,
  ⟨k% "Geodesic.Inverse/rrrrRRRR>r", .forwards (k% "Geodesic.Inverse/rrrrRRRRRRR>r") "inline overload: calls the same Gen function with a smaller output mask and the same arguments"⟩,
  ⟨k% "Geodesic.Inverse/rrrrRRRRR>r", .forwards (k% "Geodesic.Inverse/rrrrRRRRRRR>r") "inline overload: calls the same Gen function with a smaller output mask and the same arguments"⟩,
  ⟨k% "Geodesic.Inverse/rrrrRRRRRR>r", .forwards (k% "Geodesic.Inverse/rrrrRRRRRRR>r") "inline overload: calls the same Gen function with a smaller output mask and the same arguments"⟩,
  ⟨k% "Geodesic.Inverse/rrrrRRRRRRR>r", .table (k% "GeodS.Inverse") 0⟩,
  ⟨k% "Geodesic.InverseLine/rrrru>o", .table (k% "GeodS.InverseLine.Position") 0⟩,
  ⟨k% "Geodesic.Line/rrru>o", .table (k% "GeodS.Line.Position") 0⟩,
  ⟨k% "GeodesicExact.ArcDirect/rrrrRR>-", .forwards (k% "GeodesicExact.ArcDirect/rrrrRRRRRRRR>-") "inline overload: calls the same Gen function with a smaller output mask and the same arguments"⟩,
  ⟨k% "GeodesicExact.ArcDirect/rrrrRRR>-", .forwards (k% "GeodesicExact.ArcDirect/rrrrRRRRRRRR>-") "inline overload: calls the same Gen function with a smaller output mask and the same arguments"⟩,
  ⟨k% "GeodesicExact.ArcDirect/rrrrRRRR>-", .forwards (k% "GeodesicExact.ArcDirect/rrrrRRRRRRRR>-") "inline overload: calls the same Gen function with a smaller output mask and the same arguments"⟩,
  ⟨k% "GeodesicExact.ArcDirect/rrrrRRRRR>-", .forwards (k% "GeodesicExact.ArcDirect/rrrrRRRRRRRR>-") "inline overload: calls the same Gen function with a smaller output mask and the same arguments"⟩,
  ⟨k% "GeodesicExact.ArcDirect/rrrrRRRRRR>-", .forwards (k% "GeodesicExact.ArcDirect/rrrrRRRRRRRR>-") "inline overload: calls the same Gen function with a smaller output mask and the same arguments"⟩,
  ⟨k% "GeodesicExact.ArcDirect/rrrrRRRRRRR>-", .forwards (k% "GeodesicExact.ArcDirect/rrrrRRRRRRRR>-") "inline overload: calls the same Gen function with a smaller output mask and the same arguments"⟩,
  ⟨k% "GeodesicExact.ArcDirect/rrrrRRRRRRRR>-", .table (k% "GeodE.ArcDirect") 0⟩,
  ⟨k% "GeodesicExact.ArcDirectLine/rrrru>o", .table (k% "GeodE.ArcDirectLine.Position") 0⟩,
  ⟨k% "GeodesicExact.Direct/rrrrRR>r", .forwards (k% "GeodesicExact.Direct/rrrrRRRRRRR>r") "inline overload: calls the same Gen function with a smaller output mask and the same arguments"⟩,
  ⟨k% "GeodesicExact.Direct/rrrrRRR>r", .forwards (k% "GeodesicExact.Direct/rrrrRRRRRRR>r") "inline overload: calls the same Gen function with a smaller output mask and the same arguments"⟩,
  ⟨k% "GeodesicExact.Direct/rrrrRRRR>r", .forwards (k% "GeodesicExact.Direct/rrrrRRRRRRR>r") "inline overload: calls the same Gen function with a smaller output mask and the same arguments"⟩,
  ⟨k% "GeodesicExact.Direct/rrrrRRRRR>r", .forwards (k% "GeodesicExact.Direct/rrrrRRRRRRR>r") "inline overload: calls the same Gen function with a smaller output mask and the same arguments"⟩,
  ⟨k% "GeodesicExact.Direct/rrrrRRRRRR>r", .forwards (k% "GeodesicExact.Direct/rrrrRRRRRRR>r") "inline overload: calls the same Gen function with a smaller output mask and the same arguments"⟩,
  ⟨k% "GeodesicExact.Direct/rrrrRRRRRRR>r", .table (k% "GeodE.Direct") 0⟩,
  ⟨k% "GeodesicExact.DirectLine/rrrru>o", .table (k% "GeodE.DirectLine.Position") 0⟩,
  ⟨k% "GeodesicExact.GenDirect/rrrbruRRRRRRRR>r", .table (k% "GeodE.GenDirect") 0⟩,
  ⟨k% "GeodesicExact.GenDirectLine/rrrbru>o", .table (k% "GeodE.GenDirectLine.Position") 0⟩,
  ⟨k% "GeodesicExact.GenInverse/rrrruRRRRRRR>r", .table (k% "GeodE.GenInverse") 0⟩,
  ⟨k% "GeodesicExact.GeodesicExact/rr>-", .ctor (k% "GeodesicExact")⟩,
  ⟨k% "GeodesicExact.Inverse/rrrrR>r", .forwards (k% "GeodesicExact.Inverse/rrrrRRRRRRR>r") "inline overload: calls the same Gen function with a smaller output mask and the same arguments"⟩,
  ⟨k% "GeodesicExact.Inverse/rrrrRR>r", .forwards (k% "GeodesicExact.Inverse/rrrrRRRRRRR>r") "inline overload: calls the same Gen function with a smaller output mask and the same arguments"⟩,
  ⟨k% "GeodesicExact.Inverse/rrrrRRR>r", .forwards (k% "GeodesicExact.Inverse/rrrrRRRRRRR>r") "inline overload: calls the same Gen function with a smaller output mask and the same arguments"⟩,
  ⟨k% "GeodesicExact.Inverse/rrrrRRRR>r", .forwards (k% "GeodesicExact.Inverse/rrrrRRRRRRR>r") "inline overload: calls the same Gen function with a smaller output mask and the same arguments"⟩,
  ⟨k% "GeodesicExact.Inverse/rrrrRRRRR>r", .forwards (k% "GeodesicExact.Inverse/rrrrRRRRRRR>r") "inline overload: calls the same Gen function with a smaller output mask and the same arguments"⟩,
  ⟨k% "GeodesicExact.Inverse/rrrrRRRRRR>r", .forwards (k% "GeodesicExact.Inverse/rrrrRRRRRRR>r") "inline overload: calls the same Gen function with a smaller output mask and the same arguments"⟩,
  ⟨k% "GeodesicExact.Inverse/rrrrRRRRRRR>r", .table (k% "GeodE.Inverse") 0⟩,
  ⟨k% "GeodesicExact.InverseLine/rrrru>o", .table (k% "GeodE.InverseLine.Position") 0⟩,
  ⟨k% "GeodesicExact.Line/rrru>o", .table (k% "GeodE.Line.Position") 0⟩,
  ⟨k% "GeodesicLine.ArcPosition/rRR>-", .forwards (k% "GeodesicLine.ArcPosition/rRRRRRRRR>-") "inline overload: GenPosition with a smaller output mask and the same argument"⟩,
  ⟨k% "GeodesicLine.ArcPosition/rRRR>-", .forwards (k% "GeodesicLine.ArcPosition/rRRRRRRRR>-") "inline overload: GenPosition with a smaller output mask and the same argument"⟩,
  ⟨k% "GeodesicLine.ArcPosition/rRRRR>-", .forwards (k% "GeodesicLine.ArcPosition/rRRRRRRRR>-") "inline overload: GenPosition with a smaller output mask and the same argument"⟩,
  ⟨k% "GeodesicLine.ArcPosition/rRRRRR>-", .forwards (k% "GeodesicLine.ArcPosition/rRRRRRRRR>-") "inline overload: GenPosition with a smaller output mask and the same argument"⟩,
  ⟨k% "GeodesicLine.ArcPosition/rRRRRRR>-", .forwards (k% "GeodesicLine.ArcPosition/rRRRRRRRR>-") "inline overload: GenPosition with a smaller output mask and the same argument"⟩,
  ⟨k% "GeodesicLine.ArcPosition/rRRRRRRR>-", .forwards (k% "GeodesicLine.ArcPosition/rRRRRRRRR>-") "inline overload: GenPosition with a smaller output mask and the same argument"⟩,
  ⟨k% "GeodesicLine.ArcPosition/rRRRRRRRR>-", .table (k% "GeodS.Line.ArcPosition") 3⟩,
  ⟨k% "GeodesicLine.GenPosition/bruRRRRRRRR>r", .table (k% "GeodS.LineCtor.GenPosition") 3⟩,
  ⟨k% "GeodesicLine.GenSetDistance/br>-", .table (k% "GeodS.Line.GenSetDistance") 3⟩,
  ⟨k% "GeodesicLine.GeodesicLine/>-", .excluded "default constructor: no parameter, nothing to reject"⟩,
  ⟨k% "GeodesicLine.GeodesicLine/orrru>-", .ctor (k% "GeodesicLine")⟩,
  ⟨k% "GeodesicLine.GeodesicLine/orrru>-", .table (k% "GeodS.LineCtor.GenPosition") 0⟩,
  ⟨k% "GeodesicLine.Position/rRR>r", .forwards (k% "GeodesicLine.Position/rRRRRRRR>r") "inline overload: GenPosition with a smaller output mask and the same argument"⟩,
  ⟨k% "GeodesicLine.Position/rRRR>r", .forwards (k% "GeodesicLine.Position/rRRRRRRR>r") "inline overload: GenPosition with a smaller output mask and the same argument"⟩,
  ⟨k% "GeodesicLine.Position/rRRRR>r", .forwards (k% "GeodesicLine.Position/rRRRRRRR>r") "inline overload: GenPosition with a smaller output mask and the same argument"⟩,
  ⟨k% "GeodesicLine.Position/rRRRRR>r", .forwards (k% "GeodesicLine.Position/rRRRRRRR>r") "inline overload: GenPosition with a smaller output mask and the same argument"⟩,
  ⟨k% "GeodesicLine.Position/rRRRRRR>r", .forwards (k% "GeodesicLine.Position/rRRRRRRR>r") "inline overload: GenPosition with a smaller output mask and the same argument"⟩,
  ⟨k% "GeodesicLine.Position/rRRRRRRR>r", .table (k% "GeodS.Line.Position") 3⟩,
  ⟨k% "GeodesicLine.SetArc/r>-", .table (k% "GeodS.Line.SetArc") 3⟩,
  ⟨k% "GeodesicLine.SetDistance/r>-", .table (k% "GeodS.Line.SetDistance") 3⟩,
  ⟨k% "GeodesicLineExact.ArcPosition/rRR>-", .forwards (k% "GeodesicLineExact.ArcPosition/rRRRRRRRR>-") "inline overload: GenPosition with a smaller output mask and the same argument"⟩,
  ⟨k% "GeodesicLineExact.ArcPosition/rRRR>-", .forwards (k% "GeodesicLineExact.ArcPosition/rRRRRRRRR>-") "inline overload: GenPosition with a smaller output mask and the same argument"⟩,
  ⟨k% "GeodesicLineExact.ArcPosition/rRRRR>-", .forwards (k% "GeodesicLineExact.ArcPosition/rRRRRRRRR>-") "inline overload: GenPosition with a smaller output mask and the same argument"⟩,
  ⟨k% "GeodesicLineExact.ArcPosition/rRRRRR>-", .forwards (k% "GeodesicLineExact.ArcPosition/rRRRRRRRR>-") "inline overload: GenPosition with a smaller output mask and the same argument"⟩,
  ⟨k% "GeodesicLineExact.ArcPosition/rRRRRRR>-", .forwards (k% "GeodesicLineExact.ArcPosition/rRRRRRRRR>-") "inline overload: GenPosition with a smaller output mask and the same argument"⟩,
  ⟨k% "GeodesicLineExact.ArcPosition/rRRRRRRR>-", .forwards (k% "GeodesicLineExact.ArcPosition/rRRRRRRRR>-") "inline overload: GenPosition with a smaller output mask and the same argument"⟩,
  ⟨k% "GeodesicLineExact.ArcPosition/rRRRRRRRR>-", .table (k% "GeodE.Line.ArcPosition") 3⟩,
  ⟨k% "GeodesicLineExact.GenPosition/bruRRRRRRRR>r", .table (k% "GeodE.LineCtor.GenPosition") 3⟩,
  ⟨k% "GeodesicLineExact.GenSetDistance/br>-", .table (k% "GeodE.Line.GenSetDistance") 3⟩,
  ⟨k% "GeodesicLineExact.GeodesicLineExact/>-", .excluded "default constructor: no parameter, nothing to reject"⟩,
  ⟨k% "GeodesicLineExact.GeodesicLineExact/orrru>-", .ctor (k% "GeodesicLineExact")⟩,
  ⟨k% "GeodesicLineExact.GeodesicLineExact/orrru>-", .table (k% "GeodE.LineCtor.GenPosition") 0⟩,
  ⟨k% "GeodesicLineExact.Position/rRR>r", .forwards (k% "GeodesicLineExact.Position/rRRRRRRR>r") "inline overload: GenPosition with a smaller output mask and the same argument"⟩,
  ⟨k% "GeodesicLineExact.Position/rRRR>r", .forwards (k% "GeodesicLineExact.Position/rRRRRRRR>r") "inline overload: GenPosition with a smaller output mask and the same argument"⟩,
  ⟨k% "GeodesicLineExact.Position/rRRRR>r", .forwards (k% "GeodesicLineExact.Position/rRRRRRRR>r") "inline overload: GenPosition with a smaller output mask and the same argument"⟩,
  ⟨k% "GeodesicLineExact.Position/rRRRRR>r", .forwards (k% "GeodesicLineExact.Position/rRRRRRRR>r") "inline overload: GenPosition with a smaller output mask and the same argument"⟩,
  ⟨k% "GeodesicLineExact.Position/rRRRRRR>r", .forwards (k% "GeodesicLineExact.Position/rRRRRRRR>r") "inline overload: GenPosition with a smaller output mask and the same argument"⟩,
  ⟨k% "GeodesicLineExact.Position/rRRRRRRR>r", .table (k% "GeodE.Line.Position") 3⟩,
  ⟨k% "GeodesicLineExact.SetArc/r>-", .table (k% "GeodE.Line.SetArc") 3⟩,
  ⟨k% "GeodesicLineExact.SetDistance/r>-", .table (k% "GeodE.Line.SetDistance") 3⟩,
  ⟨k% "GeographicErr.GeographicErr/s>-", .excluded "exception class: stores its message string, nothing numeric"⟩,
  ⟨k% "Geohash.Forward/rriS>-", .table (k% "Geohash.Forward") 0⟩,
  ⟨k% "Geohash.GeohashLength/r>i", .table (k% "Geohash.GeohashLength") 0⟩,
  ⟨k% "Geohash.GeohashLength/rr>i", .table (k% "Geohash.GeohashLength2") 0⟩,
  ⟨k% "Geohash.Reverse/sRRIb>-", .parser (k% "rev.geohash")⟩,
  ⟨k% "Geoid.CacheArea/rrrr>-", .table (k% "Geoid.CacheArea") 0⟩,
  ⟨k% "Geoid.ConvertHeight/rrre>r", .table (k% "Geoid.ConvertHeight") 0⟩,
  ⟨k% "Geoid.Geoid/ssbb>-", .file (k% "geoidfile")⟩,
  ⟨k% "Geoid.operator()/rr>r", .table (k% "Geoid.height") 0⟩,
  ⟨k% "Georef.Forward/rriS>-", .table (k% "Georef.Forward") 0⟩,
  ⟨k% "Georef.Precision/r>i", .table (k% "Georef.Precision") 0⟩,
  ⟨k% "Georef.Reverse/sRRIb>-", .parser (k% "rev.georef")⟩,
  ⟨k% "Gnomonic.Forward/rrrrRR>-", .forwards (k% "Gnomonic.Forward/rrrrRRRR>-") "inline overload without azimuth and scale, same arguments"⟩,
  ⟨k% "Gnomonic.Forward/rrrrRRRR>-", .table (k% "Gnomonic.Forward") 0⟩,
  ⟨k% "Gnomonic.Gnomonic/o>-", .excluded "takes only a reference to an already validated library object (no numeric parameter of its own)"⟩,
  ⟨k% "Gnomonic.Reverse/rrrrRR>-", .forwards (k% "Gnomonic.Reverse/rrrrRRRR>-") "inline overload without azimuth and scale, same arguments"⟩,
  ⟨k% "Gnomonic.Reverse/rrrrRRRR>-", .table (k% "Gnomonic.Reverse") 0⟩,
  ⟨k% "GravityCircle.Disturbance/rRRR>r", .table (k% "GravityCircle.Disturbance") 2⟩,
  ⟨k% "GravityCircle.GeoidHeight/r>r", .table (k% "GravityModel.CircleGeoid") 1⟩,
  ⟨k% "GravityCircle.Gravity/rRRR>r", .table (k% "GravityModel.Circle") 2⟩,
  ⟨k% "GravityCircle.GravityCircle/>-", .excluded "default constructor: no parameter, nothing to reject"⟩,
  ⟨k% "GravityCircle.SphericalAnomaly/rRRR>-", .table (k% "GravityCircle.SphericalAnomaly") 2⟩,
  ⟨k% "GravityCircle.T/r>r", .table (k% "GravityCircle.T1") 2⟩,
  ⟨k% "GravityCircle.T/rRRR>r", .table (k% "GravityCircle.T") 2⟩,
  ⟨k% "GravityCircle.V/rRRR>r", .table (k% "GravityCircle.V") 2⟩,
  ⟨k% "GravityCircle.W/rRRR>r", .table (k% "GravityCircle.W") 2⟩,
  ⟨k% "GravityModel.Circle/rru>o", .table (k% "GravityModel.Circle") 0⟩,
  ⟨k% "GravityModel.Disturbance/rrrRRR>r", .table (k% "GravityModel.Disturbance") 0⟩,
  ⟨k% "GravityModel.GeoidHeight/rr>r", .table (k% "GravityModel.GeoidHeight") 0⟩,
  ⟨k% "GravityModel.Gravity/rrrRRR>r", .table (k% "GravityModel.Gravity") 0⟩,
  ⟨k% "GravityModel.GravityModel/ssii>-", .file (k% "gravfile")⟩,
  ⟨k% "GravityModel.Phi/rrRR>r", .table (k% "GravityModel.Phi") 0⟩,
  ⟨k% "GravityModel.SphericalAnomaly/rrrRRR>-", .table (k% "GravityModel.SphericalAnomaly") 0⟩,
  ⟨k% "GravityModel.T/rrr>r", .table (k% "GravityModel.T1") 0⟩,
  ⟨k% "GravityModel.T/rrrRRR>r", .table (k% "GravityModel.T") 0⟩,
  ⟨k% "GravityModel.U/rrrRRR>r", .table (k% "GravityModel.U") 0⟩,
  ⟨k% "GravityModel.V/rrrRRR>r", .table (k% "GravityModel.V") 0⟩,
  ⟨k% "GravityModel.W/rrrRRR>r", .table (k% "GravityModel.W") 0⟩,
  ⟨k% "Intersect.All/oorWp>w", .table (k% "Intersect.AllLinesC") 6⟩,
  ⟨k% "Intersect.All/oorp>w", .table (k% "Intersect.AllLines") 6⟩,
  ⟨k% "Intersect.All/rrrrrrrWp>w", .table (k% "Intersect.AllC") 0⟩,
  ⟨k% "Intersect.All/rrrrrrrp>w", .table (k% "Intersect.All") 0⟩,
  ⟨k% "Intersect.Closest/oopI>p", .table (k% "Intersect.ClosestLines") 0⟩,
  ⟨k% "Intersect.Closest/rrrrrrpI>p", .table (k% "Intersect.ClosestP0") 0⟩,
  ⟨k% "Intersect.Dist/pp>r", .table (k% "Intersect.Dist") 0⟩,
  ⟨k% "Intersect.Intersect/o>-", .ctor (k% "Intersect")⟩,
  ⟨k% "Intersect.Next/rrrrI>p", .table (k% "Intersect.Next") 0⟩,
  ⟨k% "Intersect.Segment/rrrrrrrrII>p", .table (k% "Intersect.Segment") 0⟩,
  ⟨k% "LambertConformalConic.Forward/rrrRR>-", .forwards (k% "LambertConformalConic.Forward/rrrRRRR>-") "inline overload without convergence and scale, same arguments"⟩,
  ⟨k% "LambertConformalConic.Forward/rrrRRRR>-", .table (k% "LCC.Forward") 0⟩,
  ⟨k% "LambertConformalConic.LambertConformalConic/rrrr>-", .ctor (k% "LambertConformalConic1")⟩,
  ⟨k% "LambertConformalConic.LambertConformalConic/rrrrr>-", .ctor (k% "LambertConformalConic2")⟩,
  ⟨k% "LambertConformalConic.LambertConformalConic/rrrrrrr>-", .ctor (k% "LambertConformalConic4")⟩,
  ⟨k% "LambertConformalConic.Reverse/rrrRR>-", .forwards (k% "LambertConformalConic.Reverse/rrrRRRR>-") "inline overload without convergence and scale, same arguments"⟩,
  ⟨k% "LambertConformalConic.Reverse/rrrRRRR>-", .table (k% "LCC.Reverse") 0⟩,
  ⟨k% "LambertConformalConic.SetScale/rr>-", .table (k% "LCC.SetScale") 0⟩,
  ⟨k% "LambertConformalConic.SetScale/rr>-", .ctor (k% "LambertConformalConic.SetScale")⟩,
  ⟨k% "LocalCartesian.Forward/rrrRRR>-", .table (k% "LocalCartesian.Forward") 3⟩,
  ⟨k% "LocalCartesian.Forward/rrrRRRV>-", .table (k% "LocalCartesian.ForwardM") 3⟩,
  ⟨k% "LocalCartesian.LocalCartesian/o>-", .excluded "takes only a reference to an already validated library object (no numeric parameter of its own)"⟩,
  ⟨k% "LocalCartesian.LocalCartesian/rrro>-", .ctor (k% "LocalCartesian")⟩,
  ⟨k% "LocalCartesian.LocalCartesian/rrro>-", .table (k% "LocalCartesian.Forward") 0⟩,
  ⟨k% "LocalCartesian.Reset/rrr>-", .table (k% "LocalCartesian.Reset") 0⟩,
  ⟨k% "LocalCartesian.Reverse/rrrRRR>-", .table (k% "LocalCartesian.Reverse") 3⟩,
  ⟨k% "LocalCartesian.Reverse/rrrRRRV>-", .table (k% "LocalCartesian.ReverseM") 3⟩,
  ⟨k% "MGRS.Decode/sSSSS>-", .parser (k% "MGRS.Decode")⟩,
  ⟨k% "MGRS.Forward/ibrriS>-", .table (k% "MGRS.Forward") 0⟩,
  ⟨k% "MGRS.Forward/ibrrriS>-", .table (k% "MGRS.ForwardLat") 0⟩,
  ⟨k% "MGRS.Reverse/sIBRRIb>-", .parser (k% "rev.mgrs")⟩,
  ⟨k% "MagneticCircle.FieldGeocentric/rRRRRRR>-", .table (k% "MagneticCircle.FieldGeocentric") 3⟩,
  ⟨k% "MagneticCircle.MagneticCircle/>-", .excluded "default constructor: no parameter, nothing to reject"⟩,
  ⟨k% "MagneticCircle.operator()/rRRR>-", .table (k% "MagneticCircle.Field3") 3⟩,
  ⟨k% "MagneticCircle.operator()/rRRRRRR>-", .table (k% "MagneticModel.Circle") 3⟩,
  ⟨k% "MagneticModel.Circle/rrr>o", .table (k% "MagneticModel.Circle") 0⟩,
  ⟨k% "MagneticModel.FieldComponents/rrrRRRR>-", .table (k% "MagneticModel.FieldComponents4") 0⟩,
  ⟨k% "MagneticModel.FieldComponents/rrrrrrRRRRRRRR>-", .table (k% "MagneticModel.FieldComponents") 0⟩,
  ⟨k% "MagneticModel.FieldGeocentric/rrrrRRRRRR>-", .table (k% "MagneticModel.FieldGeocentric") 0⟩,
  ⟨k% "MagneticModel.MagneticModel/ssoii>-", .file (k% "magfile")⟩,
  ⟨k% "MagneticModel.operator()/rrrrRRR>-", .table (k% "MagneticModel.Field3") 0⟩,
  ⟨k% "MagneticModel.operator()/rrrrRRRRRR>-", .table (k% "MagneticModel.Field") 0⟩,
  ⟨k% "Math.AngDiff/tt>t", .table (k% "Math.AngDiff2") 0⟩,
  ⟨k% "Math.AngDiff/ttT>t", .table (k% "Math.AngDiff") 0⟩,
  ⟨k% "Math.AngNormalize/t>t", .table (k% "Math.AngNormalize") 0⟩,
  ⟨k% "Math.AngRound/t>t", .table (k% "Math.AngRound") 0⟩,
  ⟨k% "Math.LatFix/t>t", .table (k% "Math.LatFix") 0⟩,
  ⟨k% "Math.atan2d/tt>t", .table (k% "Math.atan2d") 0⟩,
  ⟨k% "Math.atand/t>t", .table (k% "Math.atand") 0⟩,
  ⟨k% "Math.cosd/t>t", .table (k% "Math.cosd") 0⟩,
  ⟨k% "Math.eatanhe/tt>t", .table (k% "Math.eatanhe") 0⟩,
  ⟨k% "Math.hypot3/ttt>t", .table (k% "Math.hypot3") 0⟩,
  ⟨k% "Math.polyval/iqt>t", .table (k% "Math.polyval") 0⟩,
  ⟨k% "Math.sincosd/tTT>-", .table (k% "Math.sincosd") 0⟩,
  ⟨k% "Math.sincosde/ttTT>-", .table (k% "Math.sincosde") 0⟩,
  ⟨k% "Math.sind/t>t", .table (k% "Math.sind") 0⟩,
  ⟨k% "Math.sq/t>t", .table (k% "Math.sq") 0⟩,
  ⟨k% "Math.sum/ttT>t", .table (k% "Math.sum") 0⟩,
  ⟨k% "Math.swab/t>t", .excluded "byte-order helper: permutes the bytes of its argument, no numeric semantics (used by readarray / writearray, which are driven)"⟩,
  ⟨k% "Math.tand/t>t", .table (k% "Math.tand") 0⟩,
  ⟨k% "Math.tauf/tt>t", .table (k% "Math.tauf") 0⟩,
  ⟨k% "Math.taupf/tt>t", .table (k% "Math.taupf") 0⟩,
  ⟨k% "NearestNeighbor.Initialize/woi>-", .file (k% "nnload")⟩,
  ⟨k% "NearestNeighbor.Load/fb>-", .file (k% "nnload")⟩,
  ⟨k% "NearestNeighbor.NearestNeighbor/>-", .excluded "default constructor: no parameter, nothing to reject"⟩,
  ⟨k% "NearestNeighbor.NearestNeighbor/woi>-", .file (k% "nnload")⟩,
  ⟨k% "NearestNeighbor.Search/wooWittbt>t", .file (k% "nnload")⟩,
  ⟨k% "NormalGravity.FlatteningToJ2/rrrr>r", .table (k% "NormalGravity.FlatteningToJ2") 0⟩,
  ⟨k% "NormalGravity.Gravity/rrRR>r", .table (k% "NormalGravity.Gravity") 0⟩,
  ⟨k% "NormalGravity.J2ToFlattening/rrrr>r", .table (k% "NormalGravity.J2ToFlattening") 0⟩,
  ⟨k% "NormalGravity.NormalGravity/>-", .excluded "default constructor: no parameter, nothing to reject"⟩,
  ⟨k% "NormalGravity.NormalGravity/rrrrb>-", .ctor (k% "NormalGravity")⟩,
  ⟨k% "NormalGravity.NormalGravity/rrrrb>-", .ctor (k% "NormalGravityJ2")⟩,
  ⟨k% "NormalGravity.Phi/rrRR>r", .table (k% "NormalGravity.Phi") 0⟩,
  ⟨k% "NormalGravity.SurfaceGravity/r>r", .table (k% "NormalGravity.SurfaceGravity") 0⟩,
  ⟨k% "NormalGravity.U/rrrRRR>r", .table (k% "NormalGravity.U") 0⟩,
  ⟨k% "NormalGravity.V0/rrrRRR>r", .table (k% "NormalGravity.V0") 0⟩,
  ⟨k% "OSGB.Forward/rrRR>-", .forwards (k% "OSGB.Forward/rrRRRR>-") "inline overload without convergence and scale, same arguments"⟩,
  ⟨k% "OSGB.Forward/rrRRRR>-", .table (k% "OSGB.Forward") 0⟩,
  ⟨k% "OSGB.GridReference/rriS>-", .table (k% "OSGB.GridReference") 0⟩,
  ⟨k% "OSGB.GridReference/sRRIb>-", .parser (k% "rev.osgb")⟩,
  ⟨k% "OSGB.Reverse/rrRR>-", .forwards (k% "OSGB.Reverse/rrRRRR>-") "inline overload without convergence and scale, same arguments"⟩,
  ⟨k% "OSGB.Reverse/rrRRRR>-", .table (k% "OSGB.Reverse") 0⟩,
  ⟨k% "PolarStereographic.Forward/brrRR>-", .forwards (k% "PolarStereographic.Forward/brrRRRR>-") "inline overload without convergence and scale, same arguments"⟩,
  ⟨k% "PolarStereographic.Forward/brrRRRR>-", .table (k% "PS.ForwardN") 0⟩,
  ⟨k% "PolarStereographic.PolarStereographic/rrr>-", .ctor (k% "PolarStereographic")⟩,
  ⟨k% "PolarStereographic.Reverse/brrRR>-", .forwards (k% "PolarStereographic.Reverse/brrRRRR>-") "inline overload without convergence and scale, same arguments"⟩,
  ⟨k% "PolarStereographic.Reverse/brrRRRR>-", .table (k% "PS.ReverseN") 0⟩,
  ⟨k% "PolarStereographic.SetScale/rr>-", .table (k% "PS.SetScale") 0⟩,
  ⟨k% "PolarStereographic.SetScale/rr>-", .ctor (k% "PolarStereographic.SetScale")⟩,
  ⟨k% "PolygonAreaT.AddEdge/rr>-", .table (k% "PolygonArea.AddEdge") 0⟩,
  ⟨k% "PolygonAreaT.AddPoint/rr>-", .table (k% "PolygonArea.AddPoint") 0⟩,
  ⟨k% "PolygonAreaT.PolygonAreaT/ob>-", .excluded "takes only a reference to an already validated library object (no numeric parameter of its own)"⟩,
  ⟨k% "PolygonAreaT.TestEdge/rrbbRR>u", .table (k% "PolygonArea.TestEdge") 0⟩,
  ⟨k% "PolygonAreaT.TestPoint/rrbbRR>u", .table (k% "PolygonArea.TestPoint") 0⟩,
  ⟨k% "Rhumb.Direct/rrrrRR>-", .forwards (k% "Rhumb.Direct/rrrrRRR>-") "inline overload without the area, same arguments"⟩,
  ⟨k% "Rhumb.Direct/rrrrRRR>-", .table (k% "RhumbS.Direct") 0⟩,
  ⟨k% "Rhumb.GenDirect/rrrruRRR>-", .table (k% "RhumbS.GenDirect") 0⟩,
  ⟨k% "Rhumb.GenInverse/rrrruRRR>-", .table (k% "RhumbS.GenInverse") 0⟩,
  ⟨k% "Rhumb.Inverse/rrrrRR>-", .forwards (k% "Rhumb.Inverse/rrrrRRR>-") "inline overload without the area, same arguments"⟩,
  ⟨k% "Rhumb.Inverse/rrrrRRR>-", .table (k% "RhumbS.Inverse") 0⟩,
  ⟨k% "Rhumb.Line/rrr>o", .table (k% "RhumbS.Line.Position") 0⟩,
  ⟨k% "Rhumb.Rhumb/rrb>-", .ctor (k% "Rhumb")⟩,
  ⟨k% "Rhumb.Rhumb/rrb>-", .ctor (k% "RhumbX")⟩,
  ⟨k% "RhumbLine.GenPosition/ruRRR>-", .table (k% "RhumbS.Line.GenPosition") 3⟩,
  ⟨k% "RhumbLine.Position/rRR>-", .forwards (k% "RhumbLine.Position/rRRR>-") "inline overload without the area, same argument"⟩,
  ⟨k% "RhumbLine.Position/rRRR>-", .table (k% "RhumbS.Line.Position") 3⟩,
  ⟨k% "SphericalEngine.Circle/oqrrr>o", .via (k% "SphericalHarmonic.Circle") "template engine behind SphericalHarmonic*::operator() and Circle (swept through them) and evaluated directly on every accepted object by c13_shctor"⟩,
  ⟨k% "SphericalEngine.Value/oqrrrrRRR>r", .via (k% "SphericalHarmonic.Gradient") "template engine behind SphericalHarmonic*::operator() and Circle (swept through them) and evaluated directly on every accepted object by c13_shctor"⟩,
  ⟨k% "SphericalEngine.coeff.Cv/iiir>r", .table (k% "SphericalEngine.coeff.CvSv") 0⟩,
  ⟨k% "SphericalEngine.coeff.Sv/iiir>r", .table (k% "SphericalEngine.coeff.CvSv") 0⟩,
  ⟨k% "SphericalEngine.coeff.coeff/>-", .excluded "default constructor: no parameter, nothing to reject"⟩,
  ⟨k% "SphericalEngine.coeff.coeff/vvi>-", .sizes (k% "coeff3")⟩,
  ⟨k% "SphericalEngine.coeff.coeff/vviii>-", .sizes (k% "coeff5")⟩,
  ⟨k% "SphericalEngine.coeff.readcoeffs/fIIVVb>-", .file (k% "gravfile")⟩,
  ⟨k% "SphericalHarmonic.Circle/rrb>o", .table (k% "SphericalHarmonic.Circle") 0⟩,
  ⟨k% "SphericalHarmonic.SphericalHarmonic/>-", .excluded "default constructor: no parameter, nothing to reject"⟩,
  ⟨k% "SphericalHarmonic.SphericalHarmonic/vviiiru>-", .sizes (k% "sh5")⟩,
  ⟨k% "SphericalHarmonic.SphericalHarmonic/vviru>-", .sizes (k% "sh3")⟩,
  ⟨k% "SphericalHarmonic.SphericalHarmonic/vviru>-", .ctor (k% "SphericalHarmonicRadius")⟩,
  ⟨k% "SphericalHarmonic.operator()/rrr>r", .table (k% "SphericalHarmonic.Value") 0⟩,
  ⟨k% "SphericalHarmonic.operator()/rrrRRR>r", .table (k% "SphericalHarmonic.Gradient") 0⟩,
  ⟨k% "SphericalHarmonic1.Circle/rrrb>o", .table (k% "SphericalHarmonic1.Circle") 0⟩,
  ⟨k% "SphericalHarmonic1.SphericalHarmonic1/>-", .excluded "default constructor: no parameter, nothing to reject"⟩,
  ⟨k% "SphericalHarmonic1.SphericalHarmonic1/vviiivviiiru>-", .sizes (k% "sh1_5")⟩,
  ⟨k% "SphericalHarmonic1.SphericalHarmonic1/vvivviru>-", .sizes (k% "sh1_3")⟩,
  ⟨k% "SphericalHarmonic1.operator()/rrrr>r", .table (k% "SphericalHarmonic1.Value") 0⟩,
  ⟨k% "SphericalHarmonic1.operator()/rrrrRRR>r", .table (k% "SphericalHarmonic1.Gradient") 0⟩,
  ⟨k% "SphericalHarmonic2.Circle/rrrrb>o", .table (k% "SphericalHarmonic2.Circle") 0⟩,
  ⟨k% "SphericalHarmonic2.SphericalHarmonic2/>-", .excluded "default constructor: no parameter, nothing to reject"⟩,
  ⟨k% "SphericalHarmonic2.SphericalHarmonic2/vviiivviiivviiiru>-", .sizes (k% "sh2_5")⟩,
  ⟨k% "SphericalHarmonic2.SphericalHarmonic2/vvivvivviru>-", .sizes (k% "sh2_3")⟩,
  ⟨k% "SphericalHarmonic2.operator()/rrrrr>r", .table (k% "SphericalHarmonic2.Value") 0⟩,
  ⟨k% "SphericalHarmonic2.operator()/rrrrrRRR>r", .table (k% "SphericalHarmonic2.Gradient") 0⟩,
  ⟨k% "TransverseMercator.Forward/rrrRR>-", .forwards (k% "TransverseMercator.Forward/rrrRRRR>-") "inline overload without convergence and scale, same arguments"⟩,
  ⟨k% "TransverseMercator.Forward/rrrRRRR>-", .table (k% "TMS.Forward") 0⟩,
  ⟨k% "TransverseMercator.Reverse/rrrRR>-", .forwards (k% "TransverseMercator.Reverse/rrrRRRR>-") "inline overload without convergence and scale, same arguments"⟩,
  ⟨k% "TransverseMercator.Reverse/rrrRRRR>-", .table (k% "TMS.Reverse") 0⟩,
  ⟨k% "TransverseMercator.TransverseMercator/rrrbb>-", .ctor (k% "TransverseMercator")⟩,
  ⟨k% "TransverseMercator.TransverseMercator/rrrbb>-", .ctor (k% "TransverseMercatorX")⟩,
  ⟨k% "TransverseMercatorExact.Forward/rrrRR>-", .forwards (k% "TransverseMercatorExact.Forward/rrrRRRR>-") "inline overload without convergence and scale, same arguments"⟩,
  ⟨k% "TransverseMercatorExact.Forward/rrrRRRR>-", .table (k% "TME.Forward") 0⟩,
  ⟨k% "TransverseMercatorExact.Reverse/rrrRR>-", .forwards (k% "TransverseMercatorExact.Reverse/rrrRRRR>-") "inline overload without convergence and scale, same arguments"⟩,
  ⟨k% "TransverseMercatorExact.Reverse/rrrRRRR>-", .table (k% "TME.Reverse") 0⟩,
  ⟨k% "TransverseMercatorExact.TransverseMercatorExact/rrrb>-", .ctor (k% "TransverseMercatorExact")⟩,
  ⟨k% "UTMUPS.DecodeZone/sIB>-", .parser (k% "rev.zone")⟩,
  ⟨k% "UTMUPS.Forward/rrIBRRRRib>-", .table (k% "UTMUPS.Forward") 0⟩,
  ⟨k% "UTMUPS.Forward/rrIBRRib>-", .forwards (k% "UTMUPS.Forward/rrIBRRRRib>-") "inline overload without convergence and scale, same arguments"⟩,
  ⟨k% "UTMUPS.Reverse/ibrrRRRRb>-", .table (k% "UTMUPS.Reverse") 0⟩,
  ⟨k% "UTMUPS.Reverse/ibrrRRb>-", .forwards (k% "UTMUPS.Reverse/ibrrRRRRb>-") "inline overload without convergence and scale, same arguments"⟩,
  ⟨k% "UTMUPS.StandardZone/rri>i", .table (k% "UTMUPS.StandardZone") 0⟩,
  ⟨k% "UTMUPS.Transfer/ibrribRRI>-", .table (k% "UTMUPS.Transfer") 0⟩,
  ⟨k% "Utility.ParseLine/sSScc>b", .parser (k% "Utility.ParseLine")⟩,
  ⟨k% "Utility.date/sIII>-", .parser (k% "Utility.date")⟩,
  ⟨k% "Utility.fract/s>t", .parser (k% "Utility.fract")⟩,
  ⟨k% "Utility.fractionalyear/s>t", .parser (k% "Utility.fractionalyear")⟩,
  ⟨k% "Utility.lookup/kc>i", .parser (k% "Utility.lookupc")⟩,
  ⟨k% "Utility.lookup/sc>i", .parser (k% "Utility.lookup")⟩,
  ⟨k% "Utility.nummatch/s>t", .parser (k% "Utility.nummatch")⟩,
  ⟨k% "Utility.readarray/fQz>-", .parser (k% "Utility.readarray")⟩,
  ⟨k% "Utility.readarray/fW>-", .parser (k% "Utility.readarray")⟩,
  ⟨k% "Utility.str/ti>s", .table (k% "Utility.str") 0⟩,
  ⟨k% "Utility.trim/s>s", .parser (k% "Utility.trim")⟩,
  ⟨k% "Utility.val/s>t", .parser (k% "Utility.val")⟩,
  ⟨k% "Utility.writearray/gqz>-", .parser (k% "Utility.readarray")⟩]

/-- the cover drives the function itself -/
def By.direct : By → Bool
  | .table .. | .ctor .. | .parser .. | .file .. | .sizes .. => true
  | _ => false

/-- number of parameters of the domain predicate of a constructor: its real parameters; a constructor that takes an (already
validated) library object instead is parameterised by that object's `(a, f)` -/
def ctorArity (f : Fn) : Nat := if f.nReal == 0 && f.ins == ['o'] then 2 else f.nReal

/-- a direct cover is well-founded in the contract, and its arities agree with the extracted signature:
the table entry exists, sweeps every real argument of the function (`off + nReal ≤ nin`) and observes at least as many outputs as
the function has; the constructor class is known to a dispatcher with that many parameters; the stream is one the harness runs -/
def directOK (f : Fn) : By → Bool
  | .table entry off =>
    match findKey entry with
    | some e => decide (off + f.nReal ≤ e.nin) && decide (f.nOut ≤ e.nout)
    | none => false
  | .ctor cls => ctorTable.any fun c => c.1 == cls && c.2 == ctorArity f
  | .parser name => parsers.contains name
  | .file name => fileReaders.contains name
  | .sizes form => sizeForms.contains form
  | _ => false

/-! ### pairing the inventory with the coverage list

Both lists are sorted by key, so one pass pairs every function with its covers; covers that are left over (a key that is not in the
inventory any more, or out of order) make the pairing fail. -/

/-- split off the leading covers of `key` -/
def takeCovers (key : Key) : List Cover → List By × List Cover
  | [] => ([], [])
  | c :: rest =>
    if c.api == key then
      let r := takeCovers key rest
      (c.how :: r.1, r.2)
    else ([], c :: rest)

def assign : List Fn → List Cover → Option (List (Fn × List By))
  | [], [] => some []
  | [], _ :: _ => none
  | f :: fs, cov =>
    let r := takeCovers f.key cov
    (assign fs r.2).map ((f, r.1) :: ·)

/-- overloads: same class, same name (contiguous in the sorted inventory) -/
def sameFn (x y : Fn × List By) : Bool := x.1.group == y.1.group

/-- validity of one cover of `f`; `g` = the overloads of `f` with their covers -/
def coverOK (g : List (Fn × List By)) (f : Fn) (b : By) : Bool :=
  match b with
  | .forwards target _ =>
    -- the target is an overload that receives exactly the same inputs and is itself covered directly
    g.any fun t => t.1.key == target && t.1.ins == f.ins && t.2.any (directOK t.1)
  | .via entry _ => (findKey entry).isSome
  | .excluded _ => true
  | d => directOK f d

/-- every `.forwards`, `.via`, `.excluded` carries a reason (a property of the hand-written list alone) -/
def reasonsGiven : Bool :=
  coverage.all fun c =>
    match c.how with
    | .forwards _ why | .via _ why | .excluded why => why != ""
    | _ => true

/-- every function of the group that has a floating-point / text / vector / stream input has a cover, and every cover is valid -/
def groupOK (g : List (Fn × List By)) : Bool :=
  g.all fun p => (!p.1.hasIn || !p.2.isEmpty) && p.2.all (coverOK g p.1)

def checkAssigned (a : List (Fn × List By)) : Bool := (a.splitBy sameFn).all groupOK

/-- the API-coverage check -/
def checkCoverage (api : List Fn) (cov : List Cover) : Bool :=
  match assign api cov with
  | some a => checkAssigned a
  | none => false

/-- a constructor has a domain predicate executed against the implementation (`.ctor`, `.sizes`, the accept / reject of a file reader or
parser), or takes no parameter / only an already validated object -/
def ctorHasDomain (p : Fn × List By) : Bool :=
  !p.1.isCtor || p.1.sig.isEmpty || p.2.any fun b =>
    match b with
    | .ctor _ | .sizes _ | .file _ | .parser _ => true
    | .excluded _ => !p.1.hasIn || p.1.ins.all (· = 's')      -- e.g. the exception class: only a message string
    | _ => false

def checkCtors (api : List Fn) (cov : List Cover) : Bool :=
  match assign api cov with
  | some a => a.all ctorHasDomain
  | none => false

end GeoVerif.ErrCover
