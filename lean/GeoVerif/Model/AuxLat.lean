import GeoVerif.Basic.RealLike
import GeoVerif.Gen.AuxSeries
/-!
# Formula models for C15 (polymorphic: `Float` is executed against the implementation, `ℝ` is what the theorems are about)

* the inline flattening / eccentricity interconversion functions of `Ellipsoid.hpp` and the parameters set by the
  `Ellipsoid` / `AuxLatitude` constructors;
* the series path of `AuxLatitude::Convert`: `fillcoeff` (Horner evaluation of the tables re-extracted into
  `Gen/AuxSeries.lean`), `Clenshaw(true, …)` and the rotation `zetan += AuxAngle::radians(d)`.
Core Lean only.
-/
namespace GeoVerif.AuxLat
open GeoVerif GeoVerif.RealLike
open GeoVerif.RealLike.Lits

variable {α : Type} [RealLike α]

/-! ### `Ellipsoid.hpp` static functions -/
def secondFlatteningToFlattening (fp : α) : α := fp / ((1 : α) + fp)
def flatteningToSecondFlattening (f : α) : α := f / ((1 : α) - f)
def thirdFlatteningToFlattening (n : α) : α := (2 : α) * n / ((1 : α) + n)
def flatteningToThirdFlattening (f : α) : α := f / ((2 : α) - f)
def eccentricitySqToFlattening (e2 : α) : α := e2 / (RealLike.sqrt ((1 : α) - e2) + (1 : α))
def flatteningToEccentricitySq (f : α) : α := f * ((2 : α) - f)
def secondEccentricitySqToFlattening (ep2 : α) : α := ep2 / (RealLike.sqrt ((1 : α) + ep2) + (1 : α) + ep2)
def flatteningToSecondEccentricitySq (f : α) : α := f * ((2 : α) - f) / sq ((1 : α) - f)
def thirdEccentricitySqToFlattening (epp2 : α) : α :=
  (2 : α) * epp2 / (RealLike.sqrt (((1 : α) - epp2) * ((1 : α) + epp2)) + (1 : α) + epp2)
def flatteningToThirdEccentricitySq (f : α) : α := f * ((2 : α) - f) / ((1 : α) + sq ((1 : α) - f))

/-! ### parameters computed by the `Ellipsoid` constructor and the inline inspectors -/
def ctorB (a f : α) : α := a * ((1 : α) - f)
def ctorE2 (f : α) : α := f * ((2 : α) - f)
def ctorE12 (f : α) : α := ctorE2 f / ((1 : α) - ctorE2 f)
def ctorN (f : α) : α := f / ((2 : α) - f)
def secondFlattening (f : α) : α := f / ((1 : α) - f)
def thirdEccentricitySq (f : α) : α := ctorE2 f / ((2 : α) - ctorE2 f)
def volume (a f : α) : α := ((4 : α) * RealLike.pi) * sq a * ctorB a f / (3 : α)

/-! ### the series path of `AuxLatitude::Convert` -/

def ofRat (q : Rat) : α :=
  let m : α := RealLike.ofNat q.num.natAbs
  let v := if q.den == 1 then m else m / RealLike.ofNat q.den
  if q.num < 0 then -v else v

/-- `Math::polyval(m, p, x)` (Horner, highest power first) -/
def polyval (p : List α) (x : α) : α :=
  match p with
  | [] => RealLike.ofNat 0
  | c :: cs => cs.foldl (fun y c => y * x + c) c

/-- `fillcoeff(auxin, auxout, k)`: the `Lmax` Fourier coefficients, exactly as the loops compute them -/
def fillcoeff (n : α) (auxout auxin : Nat) : List α :=
  open Gen.AuxSeries in
  let L := order
  let k := AUXNUMBER * auxout + auxin
  let ev := auxin ≤ RECTIFYING && auxout ≤ RECTIFYING
  let n2 := n * n
  ((List.range L).foldl (fun (acc : List α × Nat × α) l =>
      let (cs, o, d) := acc
      let m := if ev then (L - l - 1) / 2 else (L - l - 1)
      let p : List α := ((coeffs.drop o).take (m + 1)).map ofRat
      (cs ++ [d * polyval p (if ev then n2 else n)], o + m + 1, d * n)) ([], ptrs.getD k 0, n)).1

/-- `AuxLatitude::Clenshaw(true, szeta, czeta, c, K)` = `Σ_k c[k] sin((2k+2)ζ)` -/
def clenshawSin (sz cz : α) (c : List α) : α :=
  let x := (2 : α) * (cz - sz) * (cz + sz)
  let u := c.foldr (fun ck (u : α × α) => (x * u.1 - u.2 + ck, u.1)) (RealLike.ofNat 0, RealLike.ofNat 0)
  (2 : α) * sz * cz * u.1

/-- `zetan += AuxAngle::radians(d)` — nothing is done when `tan d = 0` -/
def rotate (sz cz d : α) : α × α :=
  let sd := RealLike.sin d; let cd := RealLike.cos d
  if RealLike.eqb (sd / cd) (RealLike.ofNat 0) then (sz, cz) else (sz * cd + cz * sd, cz * cd - sz * sd)

/-- the series branch of `Convert(auxin, auxout, ζ, exact = false)` on a normalized `ζ = (sz, cz)` with given coefficients -/
def convertWith (c : List α) (sz cz : α) : α × α := rotate sz cz (clenshawSin sz cz c)

def convertSeries (f : α) (auxin auxout : Nat) (sz cz : α) : α × α :=
  convertWith (fillcoeff (ctorN f) auxout auxin) sz cz

/-- `RectifyingRadius(false)` and `AuthalicRadiusSquared(false)` -/
def rectifyingRadiusSeries (a f : α) : α :=
  let n := ctorN f
  (a + ctorB a f) / (2 : α) * polyval (Gen.AuxSeries.rectRadius.map ofRat) (n * n)
def authalicRadiusSqSeries (a f : α) : α :=
  a * (a + ctorB a f) / (2 : α) * polyval (Gen.AuxSeries.authRadius.map ofRat) (ctorN f)

/-! ### the Horner forms of Carlson's final series (used by `Model/RhumbExact.lean`, C09; the model of `EllipticFunction`
itself is `Model/Elliptic.lean`, whose `rfTail`/`rjTail` are the same expressions) -/

/-- numerator polynomial of `RF` (DLMF 19.36.1 in Horner form, as in the code) -/
def rfTail (E2 E3 : α) : α :=
  (E3 * ((6930 : α) * E3 + E2 * ((15015 : α) * E2 - (16380 : α)) + (17160 : α)) +
    E2 * (((10010 : α) - (5775 : α) * E2) * E2 - (24024 : α)) + (240240 : α))

/-- numerator polynomial shared by `RD` and `RJ` (DLMF 19.36.2 in Horner form) -/
def rjTail (E2 E3 E4 E5 : α) : α :=
  (((471240 : α) - (540540 : α) * E2) * E5 +
    ((612612 : α) * E2 - (540540 : α) * E3 - (556920 : α)) * E4 +
    E3 * ((306306 : α) * E3 + E2 * ((675675 : α) * E2 - (706860 : α)) + (680680 : α)) +
    E2 * (((417690 : α) - (255255 : α) * E2) * E2 - (875160 : α)) + (4084080 : α))

end GeoVerif.AuxLat
