import GeoVerif.Basic.RealLike
import GeoVerif.Model.Clenshaw
import GeoVerif.Model.GeodLengths
import GeoVerif.Gen.GeodSeries
/-!
# The series geodesic solver: `Geodesic::Geodesic`, `A3f/C3f/C4f`, `GeodesicLine::LineInit`, `GeodesicLine::GenPosition`

One definition, polymorphic in the number type (`RealLike`): executed in binary64 by the driver against the
implementation (`Corr/C01.lean`, ops `geodconst`, `lineinit`, `genpos`), executed in the running-error arithmetic
`FP/RunErr.lean` to obtain the comparison tolerance, and read over `ℝ` by the theorems of `Props/C01.lean`,
`Props/C03.lean`.  Same arithmetic in the same order as `Geodesic.cpp` / `GeodesicLine.cpp`; the coefficient
tables are those of `Gen.GeodSeries` (re-extracted from the source on every run).  `Math::sincosd` is a kernel
(its values are inputs); `Math::atan2d` is modelled (it only uses `atan2`, a division and exact quadrant fix-ups).
Core Lean only.
-/
namespace GeoVerif.GeodLine
open GeoVerif GeoVerif.RealLike GeoVerif.Clenshaw GeoVerif.GeodLengths Gen.GeodSeries
open GeoVerif.RealLike.Lits

variable {α : Type} [RealLike α]

/-! ### sign helpers (`signbit`, `copysign`) -/

/-- `signbit x` for a non-NaN `x`: negative, or a zero whose reciprocal is negative (`−0` in binary64; over `ℝ` there
    is no such zero and this is `x < 0`) -/
def signNeg (x : α) : Bool := ltb x 0 || (eqb x 0 && ltb ((1 : α) / x) 0)

/-- `copysign(m, x)` -/
def copysign (m x : α) : α := if signNeg x then -(RealLike.abs m) else RealLike.abs m

/-- `Math::degree()` -/
def degree : α := RealLike.pi / 180

/-- `Math::atan2d(y, x)`: the argument of `atan2` is brought to `[−π/4, π/4]` first -/
def atan2d (y x : α) : α :=
  let sw := ltb (RealLike.abs x) (RealLike.abs y)
  let x1 := if sw then y else x
  let y1 := if sw then x else y
  let ng := signNeg x1
  let x2 := if ng then -x1 else x1
  let ang := RealLike.atan2 y1 x2 / degree
  match sw, ng with
  | false, false => ang
  | false, true => copysign 180 y1 - ang
  | true, false => (90 : α) - ang
  | true, true => -(90 : α) + ang

/-- `Math::norm(x, y)` -/
def norm2 (x y : α) : α × α := let h := RealLike.hypot x y; (x / h, y / h)

/-! ### `Geodesic::Geodesic(a, f)`: derived constants and the `n`-polynomials `_aA3x`, `_cC3x`, `_cC4x` -/

def tC1p : List α := C1pf.map ofRat
def tA3 : List α := A3coeff.map ofRat
def tC3 : List α := C3coeff.map ofRat
def tC4 : List α := C4coeff.map ofRat

/-- `C1pf(eps)` -/
def c1pf (eps : α) : List α := cf tC1p eps

/-- polynomial orders of the blocks `j = N−1, …, lo` of `A3coeff`/`C3coeff`: `m = min(N − j − 1, j)` -/
def ordersMin (lo : Nat) : List Nat := (List.range (nN - lo)).map fun i => let j := nN - 1 - i; min (nN - j - 1) j
/-- … and of `C4coeff`: `m = N − j − 1` -/
def ordersC4 (lo : Nat) : List Nat := (List.range (nN - lo)).map fun i => let j := nN - 1 - i; nN - j - 1

/-- the common loop of `A3coeff()`, `C3coeff()`, `C4coeff()`: block of order `m` at offset `o` is
    `polyval(m, coeff + o, n) / coeff[o + m + 1]`, then `o += m + 2` -/
def readBlocks (tbl : List α) (x : α) : List Nat → Nat → List α
  | [], _ => []
  | m :: ms, o => polyval ((tbl.drop o).take (m + 1)) x / tbl.getD (o + m + 1) 1 :: readBlocks tbl x ms (o + m + 2)

def a3coeff (n : α) : List α := readBlocks tA3 n (ordersMin 0) 0
def c3coeff (n : α) : List α := readBlocks tC3 n (((List.range (nN - 1)).map fun i => ordersMin (i + 1)).flatten) 0
def c4coeff (n : α) : List α := readBlocks tC4 n (((List.range nN).map fun i => ordersC4 i).flatten) 0

structure Geod (α : Type) where
  a : α
  f : α
  f1 : α
  e2 : α
  ep2 : α
  n : α
  b : α
  c2 : α
  etol2 : α
  tiny : α
  A3x : List α
  C3x : List α
  C4x : List α

/-- `Math::eatanhe(1, es)` -/
def eatanhe1 (es : α) : α := if ltb 0 es then es * RealLike.atanh (es * 1) else -es * RealLike.atan (es * 1)

/-- the member initialisers of `Geodesic::Geodesic(a, f, false)`; `tiny = sqrt(numeric_limits::min())` and
    `eps0 = numeric_limits::epsilon()` are parameters of the arithmetic -/
def geodesic (a f tiny eps0 : α) : Geod α :=
  let f1 := (1 : α) - f
  let e2 := f * ((2 : α) - f)
  let ep2 := e2 / sq f1
  let n := f / ((2 : α) - f)
  let b := a * f1
  let sg : α := if ltb f 0 then -(1 : α) else 1
  let c2 := (sq a + sq b * (if eqb e2 0 then (1 : α) else eatanhe1 (sg * RealLike.sqrt (RealLike.abs e2)) / e2)) / 2
  let tol2 := RealLike.sqrt eps0
  let etol2 := RealLike.ofDec 1 1 * tol2 /
    RealLike.sqrt (RealLike.max (RealLike.ofDec 1 3) (RealLike.abs f) * RealLike.min (1 : α) ((1 : α) - f / 2) / 2)
  ⟨a, f, f1, e2, ep2, n, b, c2, etol2, tiny, a3coeff n, c3coeff n, c4coeff n⟩

/-- `Geodesic::A3f(eps)` -/
def a3f (A3x : List α) (eps : α) : α := polyval A3x eps

def c3fGo (C3x : List α) (eps : α) : List Nat → Nat → α → List α
  | [], _, _ => []
  | l :: ls, o, mult =>
    let m := nN - l - 1
    let mult := mult * eps
    mult * polyval ((C3x.drop o).take (m + 1)) eps :: c3fGo C3x eps ls (o + m + 1) mult

/-- `Geodesic::C3f(eps, c)`: returns `[c[1], …, c[N−1]]` -/
def c3f (C3x : List α) (eps : α) : List α := c3fGo C3x eps (List.range' 1 (nN - 1)) 0 1

def c4fGo (C4x : List α) (eps : α) : List Nat → Nat → α → List α
  | [], _, _ => []
  | l :: ls, o, mult =>
    let m := nN - l - 1
    mult * polyval ((C4x.drop o).take (m + 1)) eps :: c4fGo C4x eps ls (o + m + 1) (mult * eps)

/-- `Geodesic::C4f(eps, c)`: returns `[c[0], …, c[N−1]]` -/
def c4f (C4x : List α) (eps : α) : List α := c4fGo C4x eps (List.range nN) 0 1

/-! ### `GeodesicLine::LineInit` -/

/-- the private members of a `GeodesicLine` that `GenPosition` reads -/
structure Line (α : Type) where
  f : α
  f1 : α
  b : α
  c2 : α
  tiny : α
  lon1 : α
  salp1 : α
  calp1 : α
  dn1 : α
  salp0 : α
  calp0 : α
  ssig1 : α
  csig1 : α
  somg1 : α
  comg1 : α
  k2 : α
  A1m1 : α
  B11 : α
  stau1 : α
  ctau1 : α
  A2m1 : α
  B21 : α
  A3c : α
  B31 : α
  A4 : α
  B41 : α
  C1a : List α
  C1pa : List α
  C2a : List α
  C3a : List α
  C4a : List α

/-- locals of `LineInit` that are not kept as members -/
structure InitAux (α : Type) where
  sbet1 : α
  cbet1 : α
  eps : α

/-- `GeodesicLine::LineInit(g, lat1, lon1, azi1, salp1, calp1, ALL)`.  Kernel inputs: `(sbet1r, cbet1r) =
    sincosd(AngRound(LatFix(lat1)))`, `(salp1, calp1) = sincosd(AngRound(AngNormalize(azi1)))`. -/
def lineInit (g : Geod α) (lon1 sbet1r cbet1r salp1 calp1 : α) : Line α × InitAux α :=
  let sbet1 := sbet1r * g.f1
  let nb := norm2 sbet1 cbet1r
  let sbet1 := nb.1
  let cbet1 := RealLike.max g.tiny nb.2
  let dn1 := RealLike.sqrt ((1 : α) + g.ep2 * sq sbet1)
  let salp0 := salp1 * cbet1
  let calp0 := RealLike.hypot calp1 (salp1 * sbet1)
  let somg1 := salp0 * sbet1
  let csig1p := if !(eqb sbet1 0) || !(eqb calp1 0) then cbet1 * calp1 else (1 : α)
  let ns := norm2 sbet1 csig1p
  let ssig1 := ns.1
  let csig1 := ns.2
  let k2 := sq calp0 * g.ep2
  let eps := k2 / ((2 : α) * ((1 : α) + RealLike.sqrt ((1 : α) + k2)) + k2)
  let A1m1 := a1m1f eps
  let C1a := c1f eps
  let B11 := sinCosSeries true ssig1 csig1 C1a
  let s := RealLike.sin B11
  let c := RealLike.cos B11
  let stau1 := ssig1 * c + csig1 * s
  let ctau1 := csig1 * c - ssig1 * s
  let C1pa := c1pf eps
  let A2m1 := a2m1f eps
  let C2a := c2f eps
  let B21 := sinCosSeries true ssig1 csig1 C2a
  let C3a := c3f g.C3x eps
  let A3c := -g.f * salp0 * a3f g.A3x eps
  let B31 := sinCosSeries true ssig1 csig1 C3a
  let C4a := c4f g.C4x eps
  let A4 := sq g.a * calp0 * salp0 * g.e2
  let B41 := sinCosSeries false ssig1 csig1 C4a
  (⟨g.f, g.f1, g.b, g.c2, g.tiny, lon1, salp1, calp1, dn1, salp0, calp0, ssig1, csig1, somg1, csig1p, k2,
    A1m1, B11, stau1, ctau1, A2m1, B21, A3c, B31, A4, B41, C1a, C1pa, C2a, C3a, C4a⟩, ⟨sbet1, cbet1, eps⟩)

/-! ### `GeodesicLine::GenPosition` (series solver, all outputs requested) -/

structure Pos (α : Type) where
  a12 : α
  lat2 : α
  /-- `lam12 / degree`: the longitude difference before it is added to `lon1` / normalised -/
  lon12 : α
  /-- `lon1 + lon12` (the value returned with `LONG_UNROLL`) -/
  lon2u : α
  azi2 : α
  s12 : α
  m12 : α
  M12 : α
  M21 : α
  S12 : α
  -- locals, for the theorems
  sig12 : α
  ssig2 : α
  csig2 : α
  sbet2 : α
  cbet2 : α
  salp2 : α
  calp2 : α
  B12 : α
  /-- the spherical longitude difference (unrolled or reduced, as requested) before the ellipsoidal correction -/
  omg12 : α

/-- `|f| > 0.01`: the reverted series is corrected by one Newton step -/
def newtonp (f : α) : Bool := ltb (RealLike.ofDec 1 2) (RealLike.abs f)

/-- the arc length `sig12` and its sine and cosine, and the `B12` carried out of the head of `GenPosition`.
    Arc mode: `(ssig12k, csig12k) = sincosd(a12)` are kernel inputs.  Distance mode: reverted series `C1'`,
    then one Newton step when `|f| > 0.01`. -/
def arcOf (L : Line α) (arcmode : Bool) (s12_a12 ssig12k csig12k : α) : α × α × α × α :=
  if arcmode then (s12_a12 * degree, ssig12k, csig12k, 0) else
  let tau12 := s12_a12 / (L.b * ((1 : α) + L.A1m1))
  let s := RealLike.sin tau12
  let c := RealLike.cos tau12
  let B12 := -(sinCosSeries true (L.stau1 * c + L.ctau1 * s) (L.ctau1 * c - L.stau1 * s) L.C1pa)
  let sig12 := tau12 - (B12 - L.B11)
  let ssig12 := RealLike.sin sig12
  let csig12 := RealLike.cos sig12
  if newtonp L.f then
    let ssig2 := L.ssig1 * csig12 + L.csig1 * ssig12
    let csig2 := L.csig1 * csig12 - L.ssig1 * ssig12
    let B12 := sinCosSeries true ssig2 csig2 L.C1a
    let serr := ((1 : α) + L.A1m1) * (sig12 + (B12 - L.B11)) - s12_a12 / L.b
    let sig12 := sig12 - serr / RealLike.sqrt ((1 : α) + L.k2 * sq ssig2)
    (sig12, RealLike.sin sig12, RealLike.cos sig12, B12)
  else (sig12, ssig12, csig12, B12)

def genPosition (L : Line α) (arcmode : Bool) (s12_a12 ssig12k csig12k : α) (unroll : Bool) : Pos α :=
  let h := arcOf L arcmode s12_a12 ssig12k csig12k
  let sig12 := h.1
  let ssig12 := h.2.1
  let csig12 := h.2.2.1
  let B12 := h.2.2.2
  let ssig2 := L.ssig1 * csig12 + L.csig1 * ssig12
  let csig2 := L.csig1 * csig12 - L.ssig1 * ssig12
  let dn2 := RealLike.sqrt ((1 : α) + L.k2 * sq ssig2)
  let B12 := if arcmode || newtonp L.f then sinCosSeries true ssig2 csig2 L.C1a else B12
  let AB1 := ((1 : α) + L.A1m1) * (B12 - L.B11)
  let sbet2 := L.calp0 * ssig2
  let cbet2 := RealLike.hypot L.salp0 (L.calp0 * csig2)
  let degen := eqb cbet2 0
  let cbet2 := if degen then L.tiny else cbet2
  let csig2 := if degen then L.tiny else csig2
  let salp2 := L.salp0
  let calp2 := L.calp0 * csig2
  let s12 := if arcmode then L.b * (((1 : α) + L.A1m1) * sig12 + AB1) else s12_a12
  -- longitude
  let somg2 := L.salp0 * ssig2
  let comg2 := csig2
  let E : α := copysign 1 L.salp0
  let omg12 :=
    if unroll then
      E * (sig12 - (RealLike.atan2 ssig2 csig2 - RealLike.atan2 L.ssig1 L.csig1)
                 + (RealLike.atan2 (E * somg2) comg2 - RealLike.atan2 (E * L.somg1) L.comg1))
    else RealLike.atan2 (somg2 * L.comg1 - comg2 * L.somg1) (comg2 * L.comg1 + somg2 * L.somg1)
  let lam12 := omg12 + L.A3c * (sig12 + (sinCosSeries true ssig2 csig2 L.C3a - L.B31))
  let lon12 := lam12 / degree
  let lat2 := atan2d sbet2 (L.f1 * cbet2)
  let azi2 := atan2d salp2 calp2
  -- reduced length and geodesic scales
  let B22 := sinCosSeries true ssig2 csig2 L.C2a
  let AB2 := ((1 : α) + L.A2m1) * (B22 - L.B21)
  let J12 := (L.A1m1 - L.A2m1) * sig12 + (AB1 - AB2)
  let m12 := L.b * ((dn2 * (L.csig1 * ssig2) - L.dn1 * (L.ssig1 * csig2)) - L.csig1 * csig2 * J12)
  let t := L.k2 * (ssig2 - L.ssig1) * (ssig2 + L.ssig1) / (L.dn1 + dn2)
  let M12 := csig12 + (t * ssig2 - csig2 * J12) * L.ssig1 / L.dn1
  let M21 := csig12 - (t * L.ssig1 - L.csig1 * J12) * ssig2 / dn2
  -- area
  let B42 := sinCosSeries false ssig2 csig2 L.C4a
  let merid := eqb L.calp0 0 || eqb L.salp0 0
  let salp12 :=
    if merid then salp2 * L.calp1 - calp2 * L.salp1
    else L.calp0 * L.salp0 *
      (if leb csig12 0 then L.csig1 * ((1 : α) - csig12) + ssig12 * L.ssig1
       else ssig12 * (L.csig1 * ssig12 / ((1 : α) + csig12) + L.ssig1))
  let calp12 :=
    if merid then calp2 * L.calp1 + salp2 * L.salp1
    else sq L.salp0 + sq L.calp0 * L.csig1 * csig2
  let S12 := L.c2 * RealLike.atan2 salp12 calp12 + L.A4 * (B42 - L.B41)
  let a12 := if arcmode then s12_a12 else sig12 / degree
  ⟨a12, lat2, lon12, L.lon1 + lon12, azi2, s12, m12, M12, M21, S12, sig12, ssig2, csig2, sbet2, cbet2, salp2, calp2, B12, omg12⟩

end GeoVerif.GeodLine
