import GeoVerif.Basic.RealLike
import GeoVerif.Model.Clenshaw
import GeoVerif.Model.GeodLengths
import GeoVerif.Model.GeodLine
import GeoVerif.Model.GeodInvSeries
/-!
# The whole of `Geodesic::GenInverse` / `GeodesicExact::GenInverse` behind the canonicalisation

`Model/GeodInverse.lean` is the head of `GenInverse` over the exact binary64 model (`AngDiff`, `AngRound`, `LatFix`, the
swap and the two sign flips).  This file is everything after it, polymorphic in the number type (`RealLike`), same
operations in the same order as `Geodesic.cpp` lines 219–523:

* `reduceLat` — reduced latitudes from the `sincosd` kernel values, the poles' `cbet = tiny_`, the ordering guard of fix
  48445e6 (F55), `dn1`, `dn2`;
* `meridional` — the `meridian` candidate, its `Lengths` call, the acceptance `sig12 < 1 || m12x >= 0`, the short-line
  guard `sig12 < 3 tiny_ || (sig12 < guard·tol0_ && (s12x < 0 || m12x < 0))` (`guard = 1` in `Geodesic`, `8` in
  `GeodesicExact` after fix e05e74d / F27);
* `equatorial` — `sbet1 == 0 && (f <= 0 || lon12s >= f·180)`;
* `shortLine` — the `sig12 >= 0` exit after `InverseStart`;
* `updBracket`, `newtonTry`, `bisect`, `step`, `loop` — the Newton/bisection iteration with its bracket
  `(salp1a, calp1a)–(salp1b, calp1b)`, `tripn`, `tripb`, `numit`, `maxit1_`, `maxit2_`, the stopping rule of the bisection
  as repaired by fixes d06599a / 61b2dd2 (F28, F56); total by a fuel parameter (`maxit2_ + 1` kernel evaluations; `maxit2_ = maxit1_ + 2 digits + 20` since fix fe4d9c6), the exit at `alp1 = 90°` for equatorial points of fix 8088996;
* `areaAlp12`, `areaS12` — the three ways `alp12` is computed and the `S12` assembly;
* `restore` — `swapp / lonsign / latsign` undone on the azimuth components, `M12 ↔ M21`, the sign of `S12`;
* `core`, `genInverse` — the case analysis that puts these together, and the `atan2d` conversion of the public overload.

The numeric kernels (`Lengths`, `InverseStart`, `Lambda12`, the `C4` / DST area integral) are a record `Kernels`: every
theorem of `Props/C02.lean` about the bookkeeping holds for every such record.  `seriesKernels` fills it with the Lean
models of `Model/GeodLengths.lean` and `Model/GeodInvSeries.lean` (then the whole series solver is executed in binary64
by the driver, op `geninv_series`); `Corr/C02.lean` also fills it with values obtained from the implementation's own
private `Lambda12` / `Lengths` / `InverseStart` at the iterates the model asks for (op `geninv_kern`, both solvers).
`Math::sincosd`, `Math::sincosde` are kernels (their values are inputs).  Core Lean only.
-/
namespace GeoVerif.GeodInvFull
open GeoVerif GeoVerif.RealLike GeoVerif.Clenshaw GeoVerif.GeodLengths GeoVerif.GeodLine GeoVerif.GeodInvSeries
open GeoVerif.RealLike.Lits

variable {α : Type} [RealLike α]

/-! ### constants and kernels -/

/-- what `GenInverse` reads from the `Geodesic` / `GeodesicExact` object -/
structure Params (α : Type) where
  a : α
  f : α
  f1 : α
  e2 : α
  ep2 : α
  n : α
  b : α
  c2 : α
  tiny : α
  /-- `tol0_ = numeric_limits::epsilon()` -/
  tol0 : α
  /-- `tolb_` -/
  tolb : α
  maxit1 : Nat
  maxit2 : Nat
  /-- the factor in the short-line guard of the meridional branch: `1` (series), `8` (exact, fix e05e74d) -/
  guard : α
  /-- `GeodesicExact` computes `dn` as `√(1 − e² cbet²)/f1` when `f < 0` -/
  exactDn : Bool

/-- output of `Lengths` that `GenInverse` uses -/
structure LenOut (α : Type) where
  s12b : α
  m12b : α
  M12 : α
  M21 : α

/-- the numeric kernels of the solver -/
structure Kernels (α : Type) where
  /-- `Lengths` on the meridional candidate: `(sig12, ssig1, csig1, ssig2, csig2)` -/
  lenMerid : α → α → α → α → α → LenOut α
  /-- `InverseStart` (depends only on the canonical problem) -/
  start : StartOut α
  /-- `Lambda12(salp1, calp1, …)` on the `numit`-th evaluation (`diffp = numit < maxit1_`; the derivative `dlam12` is only
      read when `diffp`) -/
  lam : α → α → Nat → LamOut α
  /-- the final `Lengths` call, on the last `Lambda12` output -/
  lenFinal : LamOut α → LenOut α
  /-- the integral part of the area `A4 (B42 − B41)` (`0` on the equator / meridian) from
      `(salp1, calp1, salp2, calp2)` -/
  area : α → α → α → α → α

/-! ### reduced latitudes -/

structure Beta (α : Type) where
  sbet1 : α
  cbet1 : α
  sbet2 : α
  cbet2 : α
  dn1 : α
  dn2 : α

/-- `sincosd(lat)` ↦ `(sbet, cbet)`: `sbet *= f1; norm; cbet = fmax(tiny_, cbet)` -/
def redOne (f1 tiny s c : α) : α × α :=
  let n := norm2 (s * f1) c
  (n.1, RealLike.max tiny n.2)

def dnOf (p : Params α) (sbet cbet : α) : α :=
  if p.exactDn && !(leb 0 p.f) then RealLike.sqrt ((1 : α) - p.e2 * sq cbet) / p.f1
  else RealLike.sqrt ((1 : α) + p.ep2 * sq sbet)

/-- lines 221–256; `(s1, c1) = sincosd(lat1)`, `(s2, c2) = sincosd(lat2)` -/
def reduceLat (p : Params α) (s1 c1 s2 c2 : α) : Beta α :=
  let b1 := redOne p.f1 p.tiny s1 c1
  let b2 := redOne p.f1 p.tiny s2 c2
  let sbet1 := b1.1
  let cbet1 := b1.2
  let force :=
    if ltb cbet1 (-sbet1) then leb b2.2 cbet1
    else leb (-sbet1) (RealLike.abs b2.1)
  let sbet2 := if force then copysign sbet1 b2.1 else b2.1
  let cbet2 := if force then cbet1 else b2.2
  ⟨sbet1, cbet1, sbet2, cbet2, dnOf p sbet1 cbet1, dnOf p sbet2 cbet2⟩

/-! ### the solution of the canonical problem before the area and the sign restoration -/

inductive Branch where
  | meridional
  | equatorial
  | short
  | newton
deriving DecidableEq, Repr

structure Sol (α : Type) where
  branch : Branch
  s12x : α
  m12x : α
  M12 : α
  M21 : α
  a12 : α
  sig12 : α
  salp1 : α
  calp1 : α
  salp2 : α
  calp2 : α
  /-- `sin`, `cos` of `omg12` as the area part uses them (not used on a meridian) -/
  somg12 : α
  comg12 : α
  /-- trace of the iteration (drift indicators only): kernel evaluations − 1, number of bisection steps, the iterates -/
  numit : Nat
  nbisect : Nat
  iterates : List (α × α)

/-! ### meridional candidate -/

structure Merid (α : Type) where
  accepted : Bool
  /-- the short-line guard fired: `sig12 = m12x = s12x = 0` -/
  zeroed : Bool
  /-- `sig12` of the candidate (before the guard) -/
  sig12c : α
  sol : Sol α

/-- lines 264–310 -/
def meridional (p : Params α) (k : Kernels α) (β : Beta α) (slam12 clam12 : α) : Merid α :=
  let calp1 := clam12
  let salp1 := slam12
  let calp2 : α := 1
  let salp2 : α := 0
  let ssig1 := β.sbet1
  let csig1 := calp1 * β.cbet1
  let ssig2 := β.sbet2
  let csig2 := calp2 * β.cbet2
  let sig12 := RealLike.atan2 (RealLike.max 0 (csig1 * ssig2 - ssig1 * csig2) + 0) (csig1 * csig2 + ssig1 * ssig2)
  let L := k.lenMerid sig12 ssig1 csig1 ssig2 csig2
  let accepted := ltb sig12 1 || leb 0 L.m12b
  let zeroed := ltb sig12 ((3 : α) * p.tiny) || (ltb sig12 (p.guard * p.tol0) && (ltb L.s12b 0 || ltb L.m12b 0))
  let m12x := if zeroed then (0 : α) else L.m12b
  let s12x := if zeroed then (0 : α) else L.s12b
  let sig12c := sig12
  let sig12 := if zeroed then (0 : α) else sig12
  ⟨accepted, zeroed, sig12c,
   ⟨.meridional, s12x * p.b, m12x * p.b, L.M12, L.M21, sig12 / degree, sig12, salp1, calp1, salp2, calp2, 2, 0, 0, 0, []⟩⟩

/-! ### equatorial geodesic -/

/-- the test of line 314–316 (without `!meridian`); `lon12s` is the supplementary longitude difference -/
def equatorialTest (p : Params α) (sbet1 lon12s : α) : Bool :=
  eqb sbet1 0 && (leb p.f 0 || leb (p.f * 180) lon12s)

/-- `a12 = lon12 / f1; if (a12 > 180) a12 = 180` (fix 62054f0 / F68: the cut-off test holds only up to round-off; the comparison lets a
    NaN through) -/
def clamp180 (q : α) : α := if ltb (180 : α) q then (180 : α) else q

/-- lines 318–327 -/
def equatorial (p : Params α) (lon12 lam12 : α) : Sol α :=
  let sig12 := lam12 / p.f1
  ⟨.equatorial, p.a * lam12, p.b * RealLike.sin sig12, RealLike.cos sig12, RealLike.cos sig12, clamp180 (lon12 / p.f1), sig12,
   1, 0, 1, 0, RealLike.sin sig12, RealLike.cos sig12, 0, 0, []⟩

/-! ### short line -/

/-- lines 339–346 (`st.sig12 >= 0`) -/
def shortLine (p : Params α) (st : StartOut α) (lam12 : α) : Sol α :=
  let omg12 := lam12 / (p.f1 * st.dnm)
  ⟨.short, st.sig12 * p.b * st.dnm, sq st.dnm * p.b * RealLike.sin (st.sig12 / st.dnm), RealLike.cos (st.sig12 / st.dnm),
   RealLike.cos (st.sig12 / st.dnm), st.sig12 / degree, st.sig12, st.salp1, st.calp1, st.salp2, st.calp2,
   RealLike.sin omg12, RealLike.cos omg12, 0, 0, []⟩

/-! ### Newton's method with a bisection fallback -/

structure LoopSt (α : Type) where
  salp1 : α
  calp1 : α
  salp1a : α
  calp1a : α
  salp1b : α
  calp1b : α
  tripn : Bool
  tripb : Bool

/-- line 365: the bracket is the whole of `(0, π)` -/
def initSt (tiny salp1 calp1 : α) : LoopSt α := ⟨salp1, calp1, tiny, 1, tiny, -(1 : α), false, false⟩

/-- lines 374–386: leave the loop with the current `Lambda12` output.  The last disjunct is fix 8088996 (F69): equatorial end points
    (`sbet1 == 0`) and `alp1 = 90°`, where `lambda12(alp1)` has its minimum: `v > 0` there means `lon12` is within round-off of the
    equatorial cut-off, the equatorial geodesic is the solution and the bracket `[0, 90°]` would hold no root -/
def stopNow (p : Params α) (sbet1 : α) (numit : Nat) (st : LoopSt α) (v : α) : Bool :=
  st.tripb || !(leb ((if st.tripn then (8 : α) else 1) * p.tol0) (RealLike.abs v)) || numit == p.maxit2 ||
  (eqb sbet1 0 && eqb st.calp1 0 && ltb 0 v)

/-- lines 381–384: `v > 0` ⇒ the current point becomes the upper end, `v < 0` ⇒ the lower end, up to `maxit1_` only if it
    lies on the inner side of the end it replaces (`cot` is decreasing on `(0, π)`) -/
def updBracket (p : Params α) (numit : Nat) (st : LoopSt α) (v : α) : LoopSt α :=
  if ltb 0 v && (decide (p.maxit1 < numit) || ltb (st.calp1b / st.salp1b) (st.calp1 / st.salp1)) then
    { st with salp1b := st.salp1, calp1b := st.calp1 }
  else if ltb v 0 && (decide (p.maxit1 < numit) || ltb (st.calp1 / st.salp1) (st.calp1a / st.salp1a)) then
    { st with salp1a := st.salp1, calp1a := st.calp1 }
  else st

/-- lines 385–406: the Newton update, accepted when `numit < maxit1_`, `dv > 0`, `|dalp1| < π` and `nsalp1 > 0` -/
def newtonTry (p : Params α) (numit : Nat) (st : LoopSt α) (v dv : α) : Option (LoopSt α) :=
  if decide (numit < p.maxit1) && ltb 0 dv then
    let dalp1 := -v / dv
    if ltb (RealLike.abs dalp1) RealLike.pi then
      let sdalp1 := RealLike.sin dalp1
      let cdalp1 := RealLike.cos dalp1
      let nsalp1 := st.salp1 * cdalp1 + st.calp1 * sdalp1
      if ltb 0 nsalp1 then
        let n := norm2 nsalp1 (st.calp1 * cdalp1 - st.salp1 * sdalp1)
        some { st with salp1 := n.1, calp1 := n.2, tripn := leb (RealLike.abs v) ((16 : α) * p.tol0) }
      else none
    else none
  else none

/-- lines 415–423: the midpoint of the chord of the bracket, normalised; `tripb` when either half of the bracket is
    narrower than `tolb_ · min(|salp1|, |calp1|)` in the measure `|Δ salp1| + Δ calp1` -/
def bisect (p : Params α) (st : LoopSt α) : LoopSt α :=
  let n := norm2 ((st.salp1a + st.salp1b) / 2) ((st.calp1a + st.calp1b) / 2)
  let tolx := p.tolb * RealLike.min (RealLike.abs n.1) (RealLike.abs n.2)
  let tripb := ltb (RealLike.abs (st.salp1a - n.1) + (st.calp1a - n.2)) tolx ||
               ltb (RealLike.abs (n.1 - st.salp1b) + (n.2 - st.calp1b)) tolx
  { st with salp1 := n.1, calp1 := n.2, tripn := false, tripb := tripb }

/-- one pass through the body of the loop after the exit test -/
def step (p : Params α) (numit : Nat) (st : LoopSt α) (v dv : α) : LoopSt α :=
  let st := updBracket p numit st v
  match newtonTry p numit st v dv with
  | some s => s
  | none => bisect p st

/-- was the step a bisection? (trace only) -/
def isBisect (p : Params α) (numit : Nat) (st : LoopSt α) (v dv : α) : Bool :=
  (newtonTry p numit (updBracket p numit st v) v dv).isNone

structure LoopOut (α : Type) where
  st : LoopSt α
  /-- the last `Lambda12` output -/
  lo : LamOut α
  numit : Nat
  nbisect : Nat
  /-- the points at which the kernel was evaluated, last first -/
  iterates : List (α × α)

/-- lines 366–424.  `fuel` bounds the number of kernel evaluations; called with `fuel = maxit2_ + 1`, `numit = 0`, so that the
    `fuel = 0` case is never reached (the `numit == maxit2_` exit comes first: theorem `loop_fuel_enough`). -/
def loop (p : Params α) (lam : α → α → Nat → LamOut α) (sbet1 : α) : Nat → Nat → LoopSt α → Nat → List (α × α) → LoopOut α
  | 0, numit, st, nb, its => ⟨st, lam st.salp1 st.calp1 numit, numit, nb, (st.salp1, st.calp1) :: its⟩
  | fuel + 1, numit, st, nb, its =>
    let o := lam st.salp1 st.calp1 numit
    let its := (st.salp1, st.calp1) :: its
    if stopNow p sbet1 numit st o.lam12 then ⟨st, o, numit, nb, its⟩
    else loop p lam sbet1 fuel (numit + 1) (step p numit st o.lam12 o.dlam12)
           (if isBisect p numit st o.lam12 o.dlam12 then nb + 1 else nb) its

/-- lines 347–443 -/
def newtonBranch (p : Params α) (k : Kernels α) (sbet1 slam12 clam12 : α) : Sol α :=
  let r := loop p k.lam sbet1 (p.maxit2 + 1) 0 (initSt p.tiny k.start.salp1 k.start.calp1) 0 []
  let o := r.lo
  let L := k.lenFinal o
  let sdomg12 := RealLike.sin o.domg12
  let cdomg12 := RealLike.cos o.domg12
  ⟨.newton, L.s12b * p.b, L.m12b * p.b, L.M12, L.M21, o.sig12 / degree, o.sig12, r.st.salp1, r.st.calp1, o.salp2, o.calp2,
   slam12 * cdomg12 - clam12 * sdomg12, clam12 * cdomg12 + slam12 * sdomg12, r.numit, r.nbisect, r.iterates⟩

/-! ### case analysis -/

/-- the canonical problem as the head of `GenInverse` leaves it: `lat1` (only compared with −90), `lon12 ≥ 0` and the
    error term `lon12e` of `AngDiff` (both after `lonsign`), `(slam12, clam12) = sincosde(lon12, lon12e)` -/
structure Canon (α : Type) where
  lat1 : α
  lon12 : α
  lon12e : α
  slam12 : α
  clam12 : α

def lam12Of (c : Canon α) : α := c.lon12 * degree
/-- line 191: the supplementary longitude difference -/
def lon12sOf (c : Canon α) : α := ((180 : α) - c.lon12) - c.lon12e

def isMeridian (c : Canon α) : Bool := eqb c.lat1 (-(90 : α)) || eqb c.slam12 0

/-- lines 262–444: which branch answers the canonical problem -/
def solve (p : Params α) (k : Kernels α) (β : Beta α) (c : Canon α) : Sol α × Bool :=
  let mer := if isMeridian c then some (meridional p k β c.slam12 c.clam12) else none
  match mer with
  | some m =>
    if m.accepted then (m.sol, false)
    else if equatorialTest p β.sbet1 (lon12sOf c) then (equatorial p c.lon12 (lam12Of c), true)
    else if leb 0 k.start.sig12 then (shortLine p k.start (lam12Of c), true)
    else (newtonBranch p k β.sbet1 c.slam12 c.clam12, true)
  | none =>
    if equatorialTest p β.sbet1 (lon12sOf c) then (equatorial p c.lon12 (lam12Of c), false)
    else if leb 0 k.start.sig12 then (shortLine p k.start (lam12Of c), false)
    else (newtonBranch p k β.sbet1 c.slam12 c.clam12, false)

/-! ### area -/

/-- lines 477–505: `alp12 = alp2 − alp1` -/
def areaAlp12 (tiny : α) (β : Beta α) (s : Sol α) : α :=
  if s.branch != .meridional && ltb (-(RealLike.ofDec 7071 4)) s.comg12 && ltb (β.sbet2 - β.sbet1) (RealLike.ofDec 175 2) then
    let domg12 := (1 : α) + s.comg12
    let dbet1 := (1 : α) + β.cbet1
    let dbet2 := (1 : α) + β.cbet2
    (2 : α) * RealLike.atan2 (s.somg12 * (β.sbet1 * dbet2 + β.sbet2 * dbet1)) (domg12 * (β.sbet1 * β.sbet2 + dbet1 * dbet2))
  else
    let salp12 := s.salp2 * s.calp1 - s.calp2 * s.salp1
    let calp12 := s.calp2 * s.calp1 + s.salp2 * s.salp1
    if eqb salp12 0 && ltb calp12 0 then RealLike.atan2 (tiny * s.calp1) (-(1 : α))
    else RealLike.atan2 salp12 calp12

/-- multiplication by the integer `±1` -/
def mulSign (s : Int) (x : α) : α := if s < 0 then -x else x

/-- lines 452–510 -/
def areaS12 (p : Params α) (k : Kernels α) (β : Beta α) (s : Sol α) (lonsign swapp latsign : Int) : α :=
  let S12 := k.area s.salp1 s.calp1 s.salp2 s.calp2 + p.c2 * areaAlp12 p.tiny β s
  mulSign (swapp * lonsign * latsign) S12 + 0

/-- the `C4` part of the area in `Geodesic::GenInverse` (lines 455–476) -/
def areaSeries (g : Geod α) (β : Beta α) (salp1 calp1 _salp2 calp2 : α) : α :=
  let salp0 := salp1 * β.cbet1
  let calp0 := RealLike.hypot calp1 (salp1 * β.sbet1)
  if !(eqb calp0 0) && !(eqb salp0 0) then
    let k2 := sq calp0 * g.ep2
    let eps := k2 / ((2 : α) * ((1 : α) + RealLike.sqrt ((1 : α) + k2)) + k2)
    let A4 := sq g.a * calp0 * salp0 * g.e2
    let n1 := norm2 β.sbet1 (calp1 * β.cbet1)
    let n2 := norm2 β.sbet2 (calp2 * β.cbet2)
    let C4a := c4f g.C4x eps
    let B41 := sinCosSeries false n1.1 n1.2 C4a
    let B42 := sinCosSeries false n2.1 n2.2 C4a
    A4 * (B42 - B41)
  else (0 : α)

/-! ### sign restoration and the public overload -/

structure Out (α : Type) where
  s12 : α
  salp1 : α
  calp1 : α
  salp2 : α
  calp2 : α
  m12 : α
  M12 : α
  M21 : α
  S12 : α
  a12 : α

/-- lines 446–450 and 512–523 -/
def restore (lonsign swapp latsign : Int) (s : Sol α) (S12 : α) : Out α :=
  let sw := swapp < 0
  let salp1 := if sw then s.salp2 else s.salp1
  let calp1 := if sw then s.calp2 else s.calp1
  let salp2 := if sw then s.salp1 else s.salp2
  let calp2 := if sw then s.calp1 else s.calp2
  ⟨0 + s.s12x, mulSign (swapp * lonsign) salp1, mulSign (swapp * latsign) calp1, mulSign (swapp * lonsign) salp2,
   mulSign (swapp * latsign) calp2, 0 + s.m12x, if sw then s.M21 else s.M12, if sw then s.M12 else s.M21, S12, s.a12⟩

structure Full (α : Type) where
  out : Out α
  azi1 : α
  azi2 : α
  sol : Sol α
  meridRejected : Bool

/-- `GenInverse(…, ALL, …)` on the canonical problem with the flags of the canonicalisation; the azimuths are those of the
    public overload (`atan2d`) -/
def genInverse (p : Params α) (k : Kernels α) (β : Beta α) (c : Canon α) (lonsign swapp latsign : Int) : Full α :=
  let r := solve p k β c
  let S12 := areaS12 p k β r.1 lonsign swapp latsign
  let o := restore lonsign swapp latsign r.1 S12
  ⟨o, atan2d o.salp1 o.calp1, atan2d o.salp2 o.calp2, r.1, r.2⟩

/-! ### the series solver: every kernel is a Lean model -/

/-- `maxit2_ = maxit1_ + 2 digits + 20` (fix fe4d9c6 / F70; `maxit1_ = 20`): `digits` halvings bring the bracket down to the size of the
    smallest non-zero `calp1`, `digits` more resolve its significant bits -/
def budget (digits : Nat) : Nat := 20 + 2 * digits + 20

def paramsSeries (g : Geod α) (eps0 : α) (maxit2 : Nat) : Params α :=
  ⟨g.a, g.f, g.f1, g.e2, g.ep2, g.n, g.b, g.c2, g.tiny, eps0, eps0, 20, maxit2, 1, false⟩

def lenOf (o : GeodLengths.Out α) : LenOut α := ⟨o.s12b, o.m12b, o.M12, o.M21⟩

def seriesKernels (g : Geod α) (eps0 : α) (β : Beta α) (c : Canon α) : Kernels α :=
  { lenMerid := fun sig12 ssig1 csig1 ssig2 csig2 =>
      lenOf (lengths g.ep2 g.n sig12 ssig1 csig1 β.dn1 ssig2 csig2 β.dn2 β.cbet1 β.cbet2 true)
    start := inverseStart g eps0 β.sbet1 β.cbet1 β.dn1 β.sbet2 β.cbet2 β.dn2 (lam12Of c) c.slam12 c.clam12
    lam := fun salp1 calp1 _ => lambda12 g β.sbet1 β.cbet1 β.dn1 β.sbet2 β.cbet2 β.dn2 salp1 calp1 c.slam12 c.clam12
    lenFinal := fun o =>
      lenOf (lengths g.ep2 o.eps o.sig12 o.ssig1 o.csig1 β.dn1 o.ssig2 o.csig2 β.dn2 β.cbet1 β.cbet2 true)
    area := areaSeries g β }

/-- `Geodesic(a, f).GenInverse` behind the canonicalisation: kernel inputs are the `sincosd` / `sincosde` values -/
def genInverseSeries (g : Geod α) (eps0 : α) (maxit2 : Nat) (s1 c1 s2 c2 : α) (c : Canon α) (lonsign swapp latsign : Int) :
    Full α :=
  let p := paramsSeries g eps0 maxit2
  let β := reduceLat p s1 c1 s2 c2
  genInverse p (seriesKernels g eps0 β c) β c lonsign swapp latsign

end GeoVerif.GeodInvFull
