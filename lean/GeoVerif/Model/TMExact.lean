import GeoVerif.Basic.RealLike
import GeoVerif.Model.TM
import GeoVerif.Gen.TMExact
/-!
# `TransverseMercatorExact.cpp` behind the parity wrapper: the Thompson/Lee maps around abstract elliptic-function kernels

`Model/TM.lean` has the wrapper shared by both classes (`LatFix`, `AngDiff`, the sign folding that `extendp` switches off, the far
side, the scaling).  This file is everything the exact class does between the fold and the unfold, polymorphic in the number
type (`RealLike`), same operations in the same order as `TransverseMercatorExact.cpp`:

* `mkPar` — the constructor's state: `_mu = e²`, `_mv = 1 − e²`, `_e`, `tol_`, `tol2_ = 0.1·tol_`, `taytol_ = tol_^0.6`, `numit_`
  (the latter read from the header on every run, `Gen.TMExact.numit`);
* `zeta`, `dwdzeta` (Lee 54.17, 54.21), `sigma`, `dwdsigma` (Lee 55.4, 55.9), `scale` (Lee 55.12, 55.13) — closed forms in the six
  Jacobi values `sn, cn, dn` of `u | e²` and `v | 1 − e²`;
* `zetainv0`, `sigmainv0` — the three-way case analysis of the starting guesses (pole of the map, the cube-root branch point
  `w₀ = iK'`, the spherical / linear guess) with their thresholds, and the "close enough to the branch point: no iteration" flag;
* `newton` — the loop shared by `zetainv` and `sigmainv`: at most `numit_` steps, one extra step after the first step whose
  squared length is not `≥` the tolerance (`trip`), silent exit at the cap (`GEOGRAPHICLIB_PANIC` is `false` for binary64);
* `zetainv`, `sigmainv`, and the first-quadrant kernels `fwdKernel` / `revKernel` with the pole and branch-point special cases.

The elliptic functions themselves (`EllipticFunction::am`, `E(sn, cn, dn)`, `K()`, `E()`, `KE()`) are a record `Ell` of abstract
kernels; every theorem of `Props/C06.lean` about this file holds for every such record.  For execution `Corr/C06.lean` fills
the record with the values the implementation's own `EllipticFunction` objects return along the iteration (running-error
arithmetic `RE`, `FP/RunErr.lean`).  `Math::tand` is a kernel as well (its value is an input).  Core Lean only.
-/
namespace GeoVerif.TMX
open GeoVerif GeoVerif.RealLike
open GeoVerif.RealLike.Lits

variable {α : Type} [RealLike α]

/-- the six Jacobi values at `(u, v)`: `sn, cn, dn (u | _mu)` and `sn, cn, dn (v | _mv)` -/
structure Jac (α : Type) where
  snu : α
  cnu : α
  dnu : α
  snv : α
  cnv : α
  dnv : α

/-- the elliptic-function kernels: complete integrals and the two families of calls made along the computation.  The `Nat`
    argument numbers the call (`0, 1, …` inside a Newton loop, `finalIdx` for the call after it), so that values recorded from
    the implementation can be supplied; a mathematical kernel ignores it. -/
structure Ell (α : Type) where
  /-- `_eEu.K()` -/
  Ku : α
  /-- `_eEu.E()` -/
  Eu : α
  /-- `_eEv.K()` -/
  Kv : α
  /-- `_eEv.KE()` -/
  KEv : α
  /-- `_eEu.am(u, snu, cnu, dnu); _eEv.am(v, snv, cnv, dnv)` -/
  am : Nat → α → α → Jac α
  /-- `(_eEu.E(snu, cnu, dnu), _eEv.E(snv, cnv, dnv))` -/
  einc : Nat → α → α → Jac α → α × α

def finalIdx : Nat := 1000

/-- state set by the constructor -/
structure Par (α : Type) where
  mu : α
  mv : α
  e : α
  tol : α
  tol2 : α
  taytol : α
  numit : Nat
  ext : Bool

/-- `numeric_limits<double>::epsilon()` -/
def epsilon : α := (1 : α) / RealLike.ofNat (2 ^ 52)

def mkPar (f : α) (ext : Bool) : Par α :=
  let mu := f * ((2 : α) - f)
  let tol : α := epsilon
  ⟨mu, (1 : α) - mu, RealLike.sqrt mu, tol, RealLike.ofDec 1 1 * tol, RealLike.exp (RealLike.ofDec 6 1 * RealLike.log tol), Gen.TMExact.numit, ext⟩

def piHalf : α := RealLike.pi / (2 : α)
/-- `Math::degree()` -/
def degree : α := RealLike.pi / RealLike.ofNat 180

/-- `1 / sq(epsilon)`: a value whose arc tangent is `π/2` -/
def overflow : α := (1 : α) / sq (epsilon : α)

/-- `zeta(u, snu, …, dnv, taup, lam)`: `(τ', λ)` of the point with Thompson coordinates `w = u + iv` (Lee 54.17) -/
def zeta (p : Par α) (j : Jac α) : α × α :=
  let d1 := RealLike.sqrt (sq j.cnu + p.mv * sq (j.snu * j.snv))
  let d2 := RealLike.sqrt (p.mu * sq j.cnu + p.mv * sq j.cnv)
  let ovf : α := if RealLike.ltb j.snu (RealLike.ofNat 0) then -(overflow : α) else overflow
  let t1 := if !(RealLike.eqb d1 (RealLike.ofNat 0)) then j.snu * j.dnv / d1 else ovf
  let t2 := if !(RealLike.eqb d2 (RealLike.ofNat 0)) then RealLike.sinh (p.e * RealLike.asinh (p.e * j.snu / d2)) else ovf
  let taup := t1 * RealLike.hypot (1 : α) t2 - t2 * RealLike.hypot (1 : α) t1
  let lam := if !(RealLike.eqb d1 (RealLike.ofNat 0)) && !(RealLike.eqb d2 (RealLike.ofNat 0)) then
      RealLike.atan2 (j.dnu * j.snv) (j.cnu * j.cnv) - p.e * RealLike.atan2 (p.e * j.cnu * j.snv) (j.dnu * j.cnv)
    else RealLike.ofNat 0
  (taup, lam)

/-- `dwdzeta`: `(du, dv)` with `du + i dv = dw/dζ` (Lee 54.21) -/
def dwdzeta (p : Par α) (j : Jac α) : α × α :=
  let d := p.mv * sq (sq j.cnv + p.mu * sq (j.snu * j.snv))
  (j.cnu * j.dnu * j.dnv * (sq j.cnv - p.mu * sq (j.snu * j.snv)) / d,
   -j.snu * j.snv * j.cnv * (sq (j.dnu * j.dnv) + p.mu * sq j.cnu) / d)

/-- which starting guess was used -/
inductive Guess where
  | pole      -- near the singularity `w₀ = K + iK'` (south pole for `zeta`, the simple pole of `sigma`)
  | branch    -- cube-root expansion at the branch point `w₀ = iK'`
  | plain     -- spherical transverse Mercator (`zeta`) / linear scaling (`sigma`)
  deriving DecidableEq, Repr

structure Start (α : Type) where
  /-- `retval`: the guess is already the answer (the point is within `taytol_` of the branch point) -/
  done : Bool
  u : α
  v : α
  which : Guess

/-- `zetainv0(psi, lam, u, v)` -/
def zetainv0 (p : Par α) (E : Ell α) (psi lam : α) : Start α :=
  if RealLike.ltb psi (-p.e * RealLike.pi / (4 : α)) && RealLike.ltb (((1 : α) - (2 : α) * p.e) * RealLike.pi / (2 : α)) lam &&
     RealLike.ltb psi (lam - ((1 : α) - p.e) * RealLike.pi / (2 : α)) then
    let psix := (1 : α) - psi / p.e
    let lamx := (piHalf - lam) / p.e
    let u := RealLike.asinh (RealLike.sin lamx / RealLike.hypot (RealLike.cos lamx) (RealLike.sinh psix)) * ((1 : α) + p.mu / (2 : α))
    let v := RealLike.atan2 (RealLike.cos lamx) (RealLike.sinh psix) * ((1 : α) + p.mu / (2 : α))
    ⟨false, E.Ku - u, E.Kv - v, .pole⟩
  else if RealLike.ltb psi (p.e * RealLike.pi / (2 : α)) && RealLike.ltb (((1 : α) - (2 : α) * p.e) * RealLike.pi / (2 : α)) lam then
    let dlam := lam - ((1 : α) - p.e) * RealLike.pi / (2 : α)
    let rad := RealLike.hypot psi dlam
    let ang := RealLike.atan2 (dlam - psi) (psi + dlam) - RealLike.ofDec 75 2 * RealLike.pi
    let done := RealLike.ltb rad (p.e * p.taytol)
    let rad := RealLike.cbrt ((3 : α) / (p.mv * p.e) * rad)
    let ang := ang / (3 : α)
    ⟨done, rad * RealLike.cos ang, rad * RealLike.sin ang + E.Kv, .branch⟩
  else
    let v := RealLike.asinh (RealLike.sin lam / RealLike.hypot (RealLike.cos lam) (RealLike.sinh psi))
    let u := RealLike.atan2 (RealLike.sinh psi) (RealLike.cos lam)
    ⟨false, u * (E.Ku / piHalf), v * (E.Ku / piHalf), .plain⟩

/-- result of a Newton loop -/
structure NOut (α : Type) where
  u : α
  v : α
  /-- number of Newton steps taken (= number of kernel evaluations) -/
  steps : Nat
  /-- left through `if (trip) break` (a step shorter than the tolerance was seen, and one more step was taken) -/
  brk : Bool
  /-- `trip` at exit -/
  trip : Bool

/-- the loop of `zetainv` and `sigmainv`.  `step i u v = (delu, delv)` is the Newton correction at the `i`-th iterate;
    `thr` is `stol2` resp. `tol2_`.  `fuel` = remaining iterations (`numit_ − i`). -/
def newton (step : Nat → α → α → α × α) (thr : α) : Nat → Nat → Bool → α → α → NOut α
  | 0, i, trip, u, v => ⟨u, v, i, false, trip⟩
  | fuel + 1, i, trip, u, v =>
    let d := step i u v
    let u' := u - d.1
    let v' := v - d.2
    if trip then ⟨u', v', i + 1, true, true⟩
    else
      let delw2 := sq d.1 + sq d.2
      newton step thr fuel (i + 1) (!(RealLike.leb thr delw2)) u' v'

/-- the Newton correction of `zetainv` at the `i`-th iterate -/
def zetaStep (p : Par α) (E : Ell α) (taup lam scal : α) (i : Nat) (u v : α) : α × α :=
  let j := E.am i u v
  let z := zeta p j
  let d := dwdzeta p j
  let tau1 := (z.1 - taup) * scal
  let lam1 := z.2 - lam
  (tau1 * d.1 - lam1 * d.2, tau1 * d.2 + lam1 * d.1)

/-- `zetainv(taup, lam, u, v)` -/
def zetainv (p : Par α) (E : Ell α) (taup lam : α) : NOut α × Guess :=
  let psi := RealLike.asinh taup
  let scal := (1 : α) / RealLike.hypot (1 : α) taup
  let s := zetainv0 p E psi lam
  if s.done then (⟨s.u, s.v, 0, false, false⟩, s.which) else
  let stol2 := p.tol2 / sq (RealLike.max psi (1 : α))
  (newton (zetaStep p E taup lam scal) stol2 p.numit 0 false s.u s.v, s.which)

/-- `sigma`: `(ξ, η)` from the Jacobi values, `v`, and the incomplete integrals `(E(u | e²), E(v | 1 − e²))` (Lee 55.4) -/
def sigma (p : Par α) (j : Jac α) (v : α) (ei : α × α) : α × α :=
  let d := p.mu * sq j.cnu + p.mv * sq j.cnv
  (ei.1 - p.mu * j.snu * j.cnu * j.dnu / d, v - ei.2 + p.mv * j.snv * j.cnv * j.dnv / d)

/-- `dwdsigma`: `dw/dσ = dn(w)² / (1 − e²)` (reciprocal of Lee 55.9) -/
def dwdsigma (p : Par α) (j : Jac α) : α × α :=
  let d := p.mv * sq (sq j.cnv + p.mu * sq (j.snu * j.snv))
  let dnr := j.dnu * j.cnv * j.dnv
  let dni := -p.mu * j.snu * j.cnu * j.snv
  ((sq dnr - sq dni) / d, (2 : α) * dnr * dni / d)

/-- `sigmainv0(xi, eta, u, v)` -/
def sigmainv0 (p : Par α) (E : Ell α) (xi eta : α) : Start α :=
  if RealLike.ltb (RealLike.ofDec 125 2 * E.KEv) eta ||
     (RealLike.ltb xi (-(RealLike.ofDec 25 2 : α) * E.Eu) && RealLike.ltb xi (eta - E.KEv)) then
    let x := xi - E.Eu
    let y := eta - E.KEv
    let r2 := sq x + sq y
    ⟨false, E.Ku + x / r2, E.Kv - y / r2, .pole⟩
  else if (RealLike.ltb (RealLike.ofDec 75 2 * E.KEv) eta && RealLike.ltb xi (RealLike.ofDec 25 2 * E.Eu)) || RealLike.ltb E.KEv eta then
    let deta := eta - E.KEv
    let rad := RealLike.hypot xi deta
    let ang := RealLike.atan2 (deta - xi) (xi + deta) - RealLike.ofDec 75 2 * RealLike.pi
    let done := RealLike.ltb rad ((2 : α) * p.taytol)
    let rad := RealLike.cbrt ((3 : α) / p.mv * rad)
    let ang := ang / (3 : α)
    ⟨done, rad * RealLike.cos ang, rad * RealLike.sin ang + E.Kv, .branch⟩
  else
    ⟨false, xi * E.Ku / E.Eu, eta * E.Ku / E.Eu, .plain⟩

/-- the Newton correction of `sigmainv` at the `i`-th iterate -/
def sigmaStep (p : Par α) (E : Ell α) (xi eta : α) (i : Nat) (u v : α) : α × α :=
  let j := E.am i u v
  let s := sigma p j v (E.einc i u v j)
  let d := dwdsigma p j
  let xi1 := s.1 - xi
  let eta1 := s.2 - eta
  (xi1 * d.1 - eta1 * d.2, xi1 * d.2 + eta1 * d.1)

/-- `sigmainv(xi, eta, u, v)` -/
def sigmainv (p : Par α) (E : Ell α) (xi eta : α) : NOut α × Guess :=
  let s := sigmainv0 p E xi eta
  if s.done then (⟨s.u, s.v, 0, false, false⟩, s.which) else
  (newton (sigmaStep p E xi eta) p.tol2 p.numit 0 false s.u s.v, s.which)

/-- `Scale(tau, lam, …)`: `(γ in radians, k)` (Lee 55.12, 55.13) -/
def scale (p : Par α) (tau : α) (j : Jac α) : α × α :=
  let sec2 := (1 : α) + sq tau
  (RealLike.atan2 (p.mv * j.snu * j.snv * j.cnv) (j.cnu * j.dnu * j.dnv),
   RealLike.sqrt (p.mv + p.mu / sec2) * RealLike.sqrt sec2 *
     RealLike.sqrt ((p.mv * sq j.snv + sq (j.cnu * j.dnv)) / (p.mu * sq j.cnu + p.mv * sq j.cnv)))

/-- which branch `Forward` / `Reverse` took for the Thompson coordinates -/
inductive Via where
  | pole | branchPoint | newton
  deriving DecidableEq, Repr

structure KX (α : Type) where
  /-- forward: `ξ`; reverse: latitude (degrees) -/
  p : α
  /-- forward: `η`; reverse: longitude offset (degrees) -/
  q : α
  gamma : α
  k : α
  u : α
  v : α
  via : Via
  steps : Nat

/-- `TransverseMercatorExact::Forward` between the fold and the unfold (unit `_a`, `_k0`): `lat`, `lon` are the folded
    latitude and longitude offset in degrees, `tau = Math::tand(lat)` -/
def fwdKernel (p : Par α) (E : Ell α) (lat lon tau : α) : KX α :=
  let lam := lon * degree
  let qd : α := RealLike.ofNat 90
  let pole := RealLike.eqb lat qd
  let (u, v, via, steps) : α × α × Via × Nat :=
    if pole then (E.Ku, RealLike.ofNat 0, Via.pole, 0)
    else if RealLike.eqb lat (RealLike.ofNat 0) && RealLike.eqb lon (qd * ((1 : α) - p.e)) then (RealLike.ofNat 0, E.Kv, Via.branchPoint, 0)
    else
      let r := (zetainv p E (TM.taupf tau p.e) lam).1
      (r.u, r.v, Via.newton, r.steps)
  let j := E.am finalIdx u v
  let s := sigma p j v (E.einc finalIdx u v j)
  if pole then ⟨s.1, s.2, lon, (1 : α), u, v, via, steps⟩ else
  let z := zeta p j
  let tau' := TM.tauf z.1 p.e
  let gk := scale p tau' j
  ⟨s.1, s.2, gk.1 / degree, gk.2, u, v, via, steps⟩

/-- `TransverseMercatorExact::Reverse` between the fold and the unfold: `(ξ, η) ↦ (lat°, lon°, γ°, k)` -/
def revKernel (p : Par α) (E : Ell α) (xi eta : α) : KX α :=
  let (u, v, via, steps) : α × α × Via × Nat :=
    if RealLike.eqb xi (RealLike.ofNat 0) && RealLike.eqb eta E.KEv then (RealLike.ofNat 0, E.Kv, Via.branchPoint, 0)
    else
      let r := (sigmainv p E xi eta).1
      (r.u, r.v, Via.newton, r.steps)
  let j := E.am finalIdx u v
  if !(RealLike.eqb v (RealLike.ofNat 0)) || !(RealLike.eqb u E.Ku) then
    let z := zeta p j
    let tau := TM.tauf z.1 p.e
    let gk := scale p tau j
    ⟨RealLike.atan tau / degree, z.2 / degree, gk.1 / degree, gk.2, u, v, via, steps⟩
  else ⟨RealLike.ofNat 90, RealLike.ofNat 0, RealLike.ofNat 0, (1 : α), u, v, Via.pole, steps⟩

end GeoVerif.TMX
