import GeoVerif.Gen.Mask
import GeoVerif.Gen.Overloads
/-!
# The inline overloads of `Direct` / `ArcDirect` / `Inverse` / `Position` / `ArcPosition` (C12)

`Gen.Overloads.table` is extracted on every run from `Geodesic.hpp`, `GeodesicExact.hpp`, `GeodesicLine.hpp`,
`GeodesicLineExact.hpp`, `Rhumb.hpp`: for every inline overload its value and reference parameters, the general function
it calls, the mask expression it passes and the argument list of the call; `Gen.Overloads.decls` are the declarations of
the general functions.  `rowOK` is the executable statement "this overload asks the general function for exactly the
quantities it has reference parameters for, passes each of them in the position of that quantity, passes its inputs
unchanged and in order, and hands the returned arc length on".
-/
namespace GeoVerif.Overloads
open GeoVerif.Gen GeoVerif.Gen.Overloads

/-- identifier used by the harness for the overload it exercises -/
def ovlId (r : Ovl) : String := r.cls ++ "." ++ r.name ++ "(" ++ ",".intercalate r.refs ++ ")"

/-- the documented meaning of the mask constants: which flag asks for which output -/
def flagName (slot : String) : String :=
  if slot == "lat2" then "LATITUDE" else if slot == "lon2" then "LONGITUDE"
  else if slot == "azi1" || slot == "azi2" || slot == "azi12" then "AZIMUTH"
  else if slot == "s12" then "DISTANCE" else if slot == "m12" then "REDUCEDLENGTH"
  else if slot == "M12" || slot == "M21" then "GEODESICSCALE" else if slot == "S12" then "AREA" else "?"

/-- the `mask` enum of each of the six classes, as read from the headers -/
def enumOf (cls : String) : List (String × Nat) :=
  if cls == "Geodesic" then [("LATITUDE", Mask.geod_LATITUDE), ("LONGITUDE", Mask.geod_LONGITUDE), ("AZIMUTH", Mask.geod_AZIMUTH), ("DISTANCE", Mask.geod_DISTANCE),
    ("REDUCEDLENGTH", Mask.geod_REDUCEDLENGTH), ("GEODESICSCALE", Mask.geod_GEODESICSCALE), ("AREA", Mask.geod_AREA)]
  else if cls == "GeodesicExact" then [("LATITUDE", Mask.geodx_LATITUDE), ("LONGITUDE", Mask.geodx_LONGITUDE), ("AZIMUTH", Mask.geodx_AZIMUTH), ("DISTANCE", Mask.geodx_DISTANCE),
    ("REDUCEDLENGTH", Mask.geodx_REDUCEDLENGTH), ("GEODESICSCALE", Mask.geodx_GEODESICSCALE), ("AREA", Mask.geodx_AREA)]
  else if cls == "GeodesicLine" then [("LATITUDE", gline_LATITUDE), ("LONGITUDE", gline_LONGITUDE), ("AZIMUTH", gline_AZIMUTH), ("DISTANCE", gline_DISTANCE),
    ("REDUCEDLENGTH", gline_REDUCEDLENGTH), ("GEODESICSCALE", gline_GEODESICSCALE), ("AREA", gline_AREA)]
  else if cls == "GeodesicLineExact" then [("LATITUDE", glinex_LATITUDE), ("LONGITUDE", glinex_LONGITUDE), ("AZIMUTH", glinex_AZIMUTH), ("DISTANCE", glinex_DISTANCE),
    ("REDUCEDLENGTH", glinex_REDUCEDLENGTH), ("GEODESICSCALE", glinex_GEODESICSCALE), ("AREA", glinex_AREA)]
  else if cls == "Rhumb" then [("LATITUDE", Mask.rhumb_LATITUDE), ("LONGITUDE", Mask.rhumb_LONGITUDE), ("AZIMUTH", Mask.rhumb_AZIMUTH), ("DISTANCE", Mask.rhumb_DISTANCE), ("AREA", Mask.rhumb_AREA)]
  else if cls == "RhumbLine" then [("LATITUDE", rline_LATITUDE), ("LONGITUDE", rline_LONGITUDE), ("AZIMUTH", rline_AZIMUTH), ("DISTANCE", rline_DISTANCE), ("AREA", rline_AREA)]
  else []

def flagVal (cls slot : String) : Nat :=
  match (enumOf cls).find? (fun p => p.1 == flagName slot) with | some p => p.2 | none => 0

/-- the output bits of a mask word (`OUT_MASK`) -/
def outBits (m : Nat) : Nat := m &&& 0xFF80

def removeIdx {α : Type} : List α → Nat → List α
  | [], _ => []
  | _ :: t, 0 => t
  | h :: t, n + 1 => h :: removeIdx t n

def disjoint (a b : List String) : Bool := a.all fun x => !b.contains x

/-- the statement about one overload (see the header of this file) -/
def rowOK (r : Ovl) : Bool :=
  match decls.filter (fun d => d.1 == r.cls && d.2.1 == r.gen) with
  | [(_, _, dret, dvals, slots)] =>
    let dins := dvals.filter (· != "outmask")
    let retOK := (r.ret == "Math::real" || r.ret == "void") && (r.returns == (r.ret == "Math::real")) && (r.ret == "void" || dret == "Math::real")
    if r.maskNames == ["outmask"] then
      -- pass-through wrapper (Rhumb, for PolygonAreaT): same mask, named references in the callee's order, inputs in order
      retOK && r.outs == slots && r.refs.filter (· != "") == slots && r.locals.isEmpty &&
        r.ins == dins.filter (· != "arcmode") && (r.vals.filter fun v => v != "" && v != "outmask") == r.ins
    else
      let arcLit := if r.name == "Direct" || r.name == "Position" then (if dins.contains "arcmode" then some "false" else none)
                    else if r.name == "ArcDirect" || r.name == "ArcPosition" then some "true" else none
      let insOK := match arcLit, dins.findIdx? (· == "arcmode") with
        | some lit, some i => r.ins.getD i "" == lit && removeIdx r.ins i == r.vals && r.ins.length == dins.length
        | none, none => r.ins == r.vals && r.ins.length == dins.length
        | none, some _ => false
        | some _, none => false
      retOK && insOK &&
      r.outs.length == slots.length &&
      -- each argument is either the reference parameter named like the slot, or a scratch local
      ((r.outs.zip slots).all fun p => p.1 == p.2 || r.locals.contains p.1) &&
      r.refs == r.outs.filter (fun a => !r.locals.contains a) &&
      disjoint r.locals (r.refs ++ r.vals) &&
      -- an output is requested exactly when the overload has a reference parameter for it
      ((r.outs.zip slots).all fun p => (p.1 == p.2) == (outBits (r.mask &&& flagVal r.cls p.2) != 0)) &&
      -- and nothing else is requested: the mask is the union of the flags of the reference parameters (no LONG_UNROLL, no DISTANCE_IN)
      r.mask == (r.refs.map (flagVal r.cls)).foldl (· ||| ·) 0 &&
      r.maskNames.all (fun n => (enumOf r.cls).any fun p => p.1 == n)
  | _ => false

/-- the line classes repeat the enum of their solver -/
def lineEnumsAgree : Bool :=
  gline_NONE == Mask.geod_NONE && gline_LATITUDE == Mask.geod_LATITUDE && gline_LONGITUDE == Mask.geod_LONGITUDE && gline_AZIMUTH == Mask.geod_AZIMUTH &&
  gline_DISTANCE == Mask.geod_DISTANCE && gline_STANDARD == Mask.geod_STANDARD && gline_DISTANCE_IN == Mask.geod_DISTANCE_IN &&
  gline_REDUCEDLENGTH == Mask.geod_REDUCEDLENGTH && gline_GEODESICSCALE == Mask.geod_GEODESICSCALE && gline_AREA == Mask.geod_AREA &&
  gline_LONG_UNROLL == Mask.geod_LONG_UNROLL && gline_ALL == Mask.geod_ALL &&
  glinex_NONE == Mask.geodx_NONE && glinex_LATITUDE == Mask.geodx_LATITUDE && glinex_LONGITUDE == Mask.geodx_LONGITUDE && glinex_AZIMUTH == Mask.geodx_AZIMUTH &&
  glinex_DISTANCE == Mask.geodx_DISTANCE && glinex_STANDARD == Mask.geodx_STANDARD && glinex_DISTANCE_IN == Mask.geodx_DISTANCE_IN &&
  glinex_REDUCEDLENGTH == Mask.geodx_REDUCEDLENGTH && glinex_GEODESICSCALE == Mask.geodx_GEODESICSCALE && glinex_AREA == Mask.geodx_AREA &&
  glinex_LONG_UNROLL == Mask.geodx_LONG_UNROLL && glinex_ALL == Mask.geodx_ALL &&
  rline_NONE == Mask.rhumb_NONE && rline_LATITUDE == Mask.rhumb_LATITUDE && rline_LONGITUDE == Mask.rhumb_LONGITUDE && rline_AZIMUTH == Mask.rhumb_AZIMUTH &&
  rline_DISTANCE == Mask.rhumb_DISTANCE && rline_AREA == Mask.rhumb_AREA && rline_LONG_UNROLL == Mask.rhumb_LONG_UNROLL && rline_ALL == Mask.rhumb_ALL

end GeoVerif.Overloads
