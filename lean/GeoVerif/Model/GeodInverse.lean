import GeoVerif.FP.F64
import GeoVerif.Model.MathF
/-!
# `Geodesic::GenInverse` / `GeodesicExact::GenInverse`: reduction to the canonical problem and back

The solver proper (`core`) is a kernel: it is only ever called with
`lat1 ≤ −0`, `lat1 ≤ lat2 ≤ −lat1`, `0 ≤ lon12 ≤ 180`.  Everything here is
exact binary64 bookkeeping (sign flips, swaps, `AngDiff`, `AngRound`, `LatFix`).
-/
namespace GeoVerif.GeodInverse
open GeoVerif F64

/-- multiply by `±1` (exact) -/
def mulSign (s : Int) (x : F64) : F64 := if s < 0 then F64.neg x else x

structure Canon where
  lat1 : F64
  lat2 : F64
  lon12 : F64
  lon12s : F64
  lonsign : Int
  swapp : Int
  latsign : Int

/-- the head of `GenInverse` (Geodesic.cpp lines 181–217) -/
def canon (lat1 lon1 lat2 lon2 : F64) : Canon :=
  let (lon12, lon12s) := MathF.angDiff lon1 lon2
  let lonsign : Int := if lon12.signbit then -1 else 1
  let lon12 := mulSign lonsign lon12
  let lon12s := mulSign lonsign lon12s
  let lat1 := MathF.angRound (MathF.latFix lat1)
  let lat2 := MathF.angRound (MathF.latFix lat2)
  let swapp : Int := if F64.lt (F64.abs lat1) (F64.abs lat2) || lat2.isNaN then -1 else 1
  let lonsign := if swapp < 0 then -lonsign else lonsign
  let (lat1, lat2) := if swapp < 0 then (lat2, lat1) else (lat1, lat2)
  let latsign : Int := if lat1.signbit then 1 else -1
  ⟨mulSign latsign lat1, mulSign latsign lat2, lon12, lon12s, lonsign, swapp, latsign⟩

structure Core where
  s12 : F64
  salp1 : F64
  calp1 : F64
  salp2 : F64
  calp2 : F64
  m12 : F64
  M12 : F64
  M21 : F64
  S12 : F64
  a12 : F64

/-- the tail of `GenInverse` (lines 501–513): undo the canonical transformations on the core's answer -/
def uncanon (lonsign swapp latsign : Int) (c : Core) : Core :=
  let S12 := mulSign (swapp * lonsign * latsign) c.S12
  let (salp1, calp1, salp2, calp2, M12, M21) :=
    if swapp < 0 then (c.salp2, c.calp2, c.salp1, c.calp1, c.M21, c.M12) else (c.salp1, c.calp1, c.salp2, c.calp2, c.M12, c.M21)
  { c with
    salp1 := mulSign (swapp * lonsign) salp1, calp1 := mulSign (swapp * latsign) calp1,
    salp2 := mulSign (swapp * lonsign) salp2, calp2 := mulSign (swapp * latsign) calp2,
    M12 := M12, M21 := M21, S12 := S12 }

/-- `S12 += 0` (turns −0 into +0) -/
def plusZero (x : F64) : F64 := x + 0

/-- the whole wrapper around a core solver -/
def inverse (core : Canon → Core) (lat1 lon1 lat2 lon2 : F64) : Core :=
  let k := canon lat1 lon1 lat2 lon2
  let r := uncanon k.lonsign k.swapp k.latsign (core k)
  { r with S12 := plusZero r.S12 }

end GeoVerif.GeodInverse
