import GeoVerif.Basic.RealLike
/-!
# Projections built on geodesics: the wrappers around the geodesic kernel

`AzimuthalEquidistant.cpp`, `Gnomonic.cpp` (forward), `CassiniSoldner.cpp` (the sign/branch logic of `Forward`) as
polymorphic `RealLike` formulas around an *abstract geodesic kernel*: the values returned by `Geodesic::Inverse` /
`GenInverse` / `Direct` are parameters (`Kern`).  Read at `Float` they are executed by the driver on the kernel values
the harness obtains from the real `Geodesic` object and compared with the projection classes; read at `ℝ` they are the
subject of the theorems in `Props/C17.lean`.  Core Lean only.
-/
namespace GeoVerif.GeodProj
open GeoVerif

variable {α : Type} [RealLike α]

/-- what the inverse geodesic problem centre → point returns: arc length `sig` (degrees), distance `s12`,
    `sincosd(azi1)`, forward azimuth at the point, reduced length, geodesic scale -/
structure Kern (α : Type) where
  sig : α
  s12 : α
  salp1 : α
  calp1 : α
  azi2 : α
  m12 : α
  M12 : α

structure Out (α : Type) where
  x : α
  y : α
  azi : α
  rk : α

/-- `rk = !(sig <= eps_) && s != 0 ? m / s : 1` (the `s != 0` guard is fix 69fc1c4) -/
def azeqRk (sig s m eps : α) : α :=
  if RealLike.leb sig eps || RealLike.eqb s (RealLike.ofNat 0) then RealLike.ofNat 1 else m / s

/-- `AzimuthalEquidistant::Forward`: `sincosd(azi0, x, y); x *= s; y *= s` -/
def azeqForward (K : Kern α) (eps : α) : Out α :=
  { x := K.salp1 * K.s12, y := K.calp1 * K.s12, azi := K.azi2, rk := azeqRk K.sig K.s12 K.m12 eps }

/-- `AzimuthalEquidistant::Reverse`: the arguments handed to `Direct`: `(azi0, s) = (atan2d(x, y), hypot(x, y))`, with
    `atan2d` a parameter (degrees) -/
def azeqReverseArgs (atan2d : α → α → α) (x y : α) : α × α := (atan2d x y, RealLike.hypot x y)

/-- `Gnomonic::Forward`: `none` stands for `x = y = NaN` (beyond the horizon); `rk = M` always -/
def gnomForwardXY (K : Kern α) : Option (α × α) :=
  if RealLike.leb K.M12 (RealLike.ofNat 0) then none
  else
    let rho := K.m12 / K.M12
    some (K.salp1 * rho, K.calp1 * rho)

def nanOf (x : α) : α := (x - x) / (x - x)

def gnomForward (K : Kern α) : Out α :=
  match gnomForwardXY K with
  | none => { x := nanOf K.M12, y := nanOf K.M12, azi := K.azi2, rk := K.M12 }
  | some (x, y) => { x := x, y := y, azi := K.azi2, rk := K.M12 }

/-- one Newton step of `Gnomonic::Reverse`: `ds = little ? (m − ρ M) M : (ρ m − M) m` (for `!little`, `ρ` has been inverted) -/
def gnomNewtonDs (little : Bool) (rho m M : α) : α :=
  if little then (m - rho * M) * M else (rho * m - M) * m

/-- the branch logic of `CassiniSoldner::Forward` between the symmetric inverse problem
    `Inverse(lat, −|dlon|, lat, |dlon|) ↦ (sig12, s12, azi1, azi2)` and the results: returns
    `(x, azi before AngNormalize, signed half arc)`; `neg = signbit(dlon)`, `da = AngDiff(azi1, azi2)/2` -/
def cassForwardXA (dlon : α) (neg : Bool) (sig12 s12 azi1 azi2 da : α) : α × α × α :=
  let half : α := RealLike.ofDec 5 1
  let qd : α := RealLike.ofNat 90
  let sig12 := sig12 * half
  let s12 := s12 * half
  let az : α × α :=
    if RealLike.eqb s12 (RealLike.ofNat 0) then
      (if RealLike.leb (RealLike.abs dlon) qd then (qd - da, qd + da) else (-qd - da, -qd + da))
    else (azi1, azi2)
  if neg then (-s12, az.1, -sig12) else (s12, az.2, sig12)

end GeoVerif.GeodProj
