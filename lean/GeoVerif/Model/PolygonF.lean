import GeoVerif.Model.Polygon
/-!
# PolygonAreaT at the bit level: the concrete state record

`StateF` is the object as it is laid out in `PolygonArea.hpp`: `_num`, `_crossings`, the two `Accumulator<>`s (both
words each), `_lat0, _lon0, _lat1, _lon1` and the mode.  Every operation is the code's sequence of binary64
operations (`Accumulator::Add` = two `Math::sum`, `remainder`, `*= -1`, `0 + sum`), with the solver's values as
kernel inputs.  `Polygon.State` (exact rational sums) is what the property is stated about; this model is what the
implementation is compared with bit for bit (a difference is reported as drift, not as a failing input).
-/
namespace GeoVerif.PolygonF
open GeoVerif GeoVerif.Polygon

structure StateF where
  num : Nat := 0
  crossings : Int := 0
  areasum : Accum.Acc := Accum.set 0
  perimsum : Accum.Acc := Accum.set 0
  lat0 : F64 := F64.nan
  lon0 : F64 := F64.nan
  lat1 : F64 := F64.nan
  lon1 : F64 := F64.nan
  polyline : Bool := false

def init (polyline : Bool) : StateF := { polyline := polyline }
def clear (st : StateF) : StateF := init st.polyline

def addPoint (st : StateF) (lat lon s12 S12 : F64) : StateF :=
  if st.num = 0 then { st with num := 1, lat0 := lat, lon0 := lon, lat1 := lat, lon1 := lon }
  else
    { st with
      num := st.num + 1
      perimsum := Accum.add st.perimsum s12
      areasum := if st.polyline then st.areasum else Accum.add st.areasum S12
      crossings := if st.polyline then st.crossings else st.crossings + transit st.lon1 lon
      lat1 := lat
      lon1 := lon }

def addEdge (st : StateF) (s lat2 lon2 S12 : F64) : StateF :=
  if st.num = 0 then st
  else
    { st with
      num := st.num + 1
      perimsum := Accum.add st.perimsum s
      areasum := if st.polyline then st.areasum else Accum.add st.areasum S12
      crossings := if st.polyline then st.crossings else st.crossings + transitdirect st.lon1 lon2
      lat1 := lat2
      lon1 := lon2 }

/-- what a query returns: the count, the perimeter, the area (`none` = the reference was not written) -/
structure ResultF where
  num : Nat
  perimeter : F64
  area : Option F64

def compute (st : StateF) (A : F64) (rv sg : Bool) (s12 S12 : F64) : ResultF :=
  if st.num < 2 then ⟨st.num, 0, if st.polyline then none else some 0⟩
  else if st.polyline then ⟨st.num, st.perimsum.s, none⟩
  else
    let crossings := st.crossings + transit st.lon1 st.lon0
    ⟨st.num, (Accum.add st.perimsum s12).s, some (report (areaReduceAcc (Accum.add st.areasum S12) A crossings rv sg))⟩

def testPoint (st : StateF) (A : F64) (lon : F64) (rv sg : Bool) (k1 k2 : F64 × F64) : ResultF :=
  if st.num = 0 then ⟨1, 0, if st.polyline then none else some 0⟩
  else if st.polyline then ⟨st.num + 1, st.perimsum.s + k1.1, none⟩
  else
    let crossings := st.crossings + transit st.lon1 lon + transit lon st.lon0
    ⟨st.num + 1, st.perimsum.s + k1.1 + k2.1,
      some ((0 : F64) + areaReduceF (st.areasum.s + k1.2 + k2.2) A crossings rv sg)⟩

def testEdge (st : StateF) (A : F64) (s lon2 S12 : F64) (rv sg : Bool) (k2 : F64 × F64) : ResultF :=
  if st.num = 0 then ⟨0, F64.nan, if st.polyline then none else some F64.nan⟩
  else if st.polyline then ⟨st.num + 1, st.perimsum.s + s, none⟩
  else
    let crossings := st.crossings + transitdirect st.lon1 lon2 + transit lon2 st.lon0
    ⟨st.num + 1, st.perimsum.s + s + k2.1,
      some ((0 : F64) + areaReduceF (st.areasum.s + S12 + k2.2) A crossings rv sg)⟩

def exec (B : Backend) (A : F64) (st : StateF) : Op → StateF × Option ResultF
  | .clear => (clear st, none)
  | .addPoint lat lon =>
    let k := B.inverse st.lat1 st.lon1 lat lon
    (addPoint st lat lon k.1 k.2, none)
  | .addEdge azi s =>
    let d := B.direct st.lat1 st.lon1 azi s
    (addEdge st s d.1 d.2.1 d.2.2, none)
  | .compute rv sg =>
    let k := B.inverse st.lat1 st.lon1 st.lat0 st.lon0
    (st, some (compute st A rv sg k.1 k.2))
  | .testPoint lat lon rv sg =>
    (st, some (testPoint st A lon rv sg (B.inverse st.lat1 st.lon1 lat lon) (B.inverse lat lon st.lat0 st.lon0)))
  | .testEdge azi s rv sg =>
    let d := B.direct st.lat1 st.lon1 azi s
    (st, some (testEdge st A s d.2.1 d.2.2 rv sg (B.inverse d.1 d.2.1 st.lat0 st.lon0)))

def run (B : Backend) (A : F64) (st : StateF) (ops : List Op) : StateF :=
  ops.foldl (fun s op => (exec B A s op).1) st

def trace (B : Backend) (A : F64) : StateF → List Op → List (StateF × Option ResultF)
  | _, [] => []
  | st, op :: ops => exec B A st op :: trace B A (exec B A st op).1 ops

end GeoVerif.PolygonF
