import GeoVerif.FP.F64
import GeoVerif.FP.Decimal
import GeoVerif.Gen.MathC
/-!
# `Geoid::Geoid`: byte-level model of the PGM header parsing and validation

The constructor of `src/Geoid.cpp` reads the file with `getline`, `istringstream >> token`, `>> double`, `>> int`,
`>> unsigned`, `tellg`/`seekg` and then validates the numbers.  This file models exactly that on a list of bytes
(the file, or a prefix of it that covers everything the parser touches) plus the total file length:

* `getline`, `readToken` (`>> std::string`), `numGetFloat` (libstdc++ `num_get::_M_extract_float` + `strtod`,
  C++11 "store 0 on failure", overflow ↦ failure), `numGetInt` (`>> int`), `numGetUnsigned` (`>> unsigned`: a minus
  sign negates modulo 2³²), the `eofbit` that makes `tellg` fail;
* `procComment` — one `#` line (`Description`, `DateTime`, `Offset`, `Scale`, `Max/RMS…Error`; later lines overwrite
  earlier ones);
* `scan` — the loop over the lines up to the raster-size line and the `maxval` token;
* `validate` — the tests after the loop **in the order of the code**, the length test both as coded (64-bit unsigned
  arithmetic) and over unbounded `Nat` (`validate_no_wrap` in `Props/C20.lean` shows they agree);
* `parse = scan >=> validate`.

Core Lean only: executed by `gvdriver` on the same bytes and length as the implementation.
-/
namespace GeoVerif.GeoidHeader
open GeoVerif

abbrev Bytes := List Nat

def isspace (c : Nat) : Bool := c == 32 || (9 ≤ c && c ≤ 13)
def isdigit (c : Nat) : Bool := 48 ≤ c && c ≤ 57

def str (s : String) : Bytes := s.toList.map Char.toNat

/-! ## the documented constants of the format (compared with the source by `Props.C20.header_constants_match_source`) -/
def magic : Bytes := str "P5"
def keyDescription : Bytes := str "Description"
def keyDateTime : Bytes := str "DateTime"
def keyOffset : Bytes := str "Offset"
def keyScale : Bytes := str "Scale"
def keyMaxCubic : Bytes := str "MaxCubicError"
def keyMaxBilinear : Bytes := str "MaxBilinearError"
def keyRMSCubic : Bytes := str "RMSCubicError"
def keyRMSBilinear : Bytes := str "RMSBilinearError"
def pixelSize : Nat := 2
def pixelMax : Nat := 65535

/-- the exceptions of the constructor, in the order of the `throw` statements in the source -/
inductive Err where
  | notReadable | notPGM | offsetRead | scaleRead | rasterSize | maxvalRead | maxvalValue
  | offsetUnset | scaleUnset | scaleNeg | tooSmall | widthOdd | heightEven | tooLarge | wrongLength
deriving Repr, DecidableEq, Inhabited

def Err.msg : Err → String
  | .notReadable => "File not readable"
  | .notPGM => "File not in PGM format"
  | .offsetRead => "Error reading offset"
  | .scaleRead => "Error reading scale"
  | .rasterSize => "Error reading raster size"
  | .maxvalRead => "Error reading maxval"
  | .maxvalValue => "Incorrect value of maxval"
  | .offsetUnset => "Offset not set"
  | .scaleUnset => "Scale not set"
  | .scaleNeg => "Scale must be positive"
  | .tooSmall => "Raster size too small"
  | .widthOdd => "Raster width is odd"
  | .heightEven => "Raster height is even"
  | .tooLarge => "Raster size too large"
  | .wrongLength => "File has the wrong length"

def Err.all : List Err :=
  [.notReadable, .notPGM, .offsetRead, .scaleRead, .rasterSize, .maxvalRead, .maxvalValue,
   .offsetUnset, .scaleUnset, .scaleNeg, .tooSmall, .widthOdd, .heightEven, .tooLarge, .wrongLength]

/-! ## stream primitives -/

/-- `std::getline(stream, s)`: `none` when nothing at all can be extracted (end of file: `failbit`) -/
def getline (r : Bytes) : Option (Bytes × Bytes) :=
  if r.isEmpty then none else some (r.takeWhile (· != 10), (r.dropWhile (· != 10)).drop 1)

def skipws (r : Bytes) : Bytes := r.dropWhile isspace

/-- `is >> std::string`: `(token, rest)`; `none` = nothing but white space left (`failbit`).  `rest = []` means
    the token ran to the end of the stream (`eofbit`). -/
def readToken (r : Bytes) : Option (Bytes × Bytes) :=
  let r' := skipws r
  if r'.isEmpty then none
  else some (r'.takeWhile (fun c => !isspace c), r'.dropWhile (fun c => !isspace c))

/-- the outcome of a formatted numeric extraction -/
inductive Ext (α : Type) where
  | untouched          -- the sentry failed (only white space left): the variable keeps its value
  | fail (stored : α)  -- `failbit`; C++11 stores 0 (or the clamped value on overflow)
  | ok (v : α)
deriving Repr

/-- a run of decimal digits: value, count, rest -/
structure Digits where
  val : Nat
  cnt : Nat
  rest : Bytes
deriving Repr

def scanDigits : Nat → Nat → Bytes → Digits
  | v, n, [] => ⟨v, n, []⟩
  | v, n, c :: r => if isdigit c then scanDigits (v * 10 + (c - 48)) (n + 1) r else ⟨v, n, c :: r⟩

/-- an optional `+` / `-` -/
def stripSign (r : Bytes) : Bool × Bytes :=
  match r with
  | 45 :: q => (true, q)
  | 43 :: q => (false, q)
  | _ => (false, r)

/-- optional fraction `. digits*` -/
def scanFraction (r : Bytes) : Digits :=
  match r with
  | 46 :: q => scanDigits 0 0 q
  | _ => ⟨0, 0, r⟩

/-- exponent part after a mantissa: `none` = an `e` without digits (then `strtod` does not consume the accumulated text) -/
def scanExponent (r : Bytes) : Option Int × Bytes :=
  match r with
  | c :: q =>
    if c = 101 ∨ c = 69 then
      let sg := stripSign q
      let d := scanDigits 0 0 sg.2
      if d.cnt = 0 then (none, d.rest) else (some (if sg.1 then -(d.val : Int) else (d.val : Int)), d.rest)
    else (some 0, r)
  | [] => (some 0, [])

/-- libstdc++ `num_get<char>::do_get(double&)` in the C locale: characters are accumulated by `_M_extract_float`
    (`[+-] digits [. digits] [(e|E) [+-] digits]`, an `e` only after a mantissa digit), the accumulated text must be
    consumed entirely by `strtod`; overflow is a failure (value ±DBL_MAX), underflow is not.
    Returns the outcome and the unread rest. -/
def numGetFloat (r0 : Bytes) : Ext F64 × Bytes :=
  let r := skipws r0
  if r.isEmpty then (.untouched, []) else
  let sg := stripSign r
  let ip := scanDigits 0 0 sg.2
  let fp := scanFraction ip.rest
  if ip.cnt + fp.cnt = 0 then (.fail 0, fp.rest) else      -- no mantissa digit: "", "+", ".", "-." …
  let mant := ip.val * 10 ^ fp.cnt + fp.val
  let ex := scanExponent fp.rest
  match ex.1 with
  | none => (.fail 0, ex.2)                    -- "1e", "1e+": `strtod` stops before the `e`
  | some e =>
    match Decimal.ofDecExp mant (e - (fp.cnt : Int)) with
    | .inf _ => (.fail (if sg.1 then F64.neg Decimal.maxFinite else Decimal.maxFinite), ex.2)
    | v => (.ok (if sg.1 then F64.neg v else v), ex.2)

/-- `is >> int`: sign, decimal digits (leading zeros allowed; basefield is `dec`), range check -/
def numGetInt (r0 : Bytes) : Ext Int × Bytes :=
  let r := skipws r0
  if r.isEmpty then (.untouched, []) else
  let sg := stripSign r
  let d := scanDigits 0 0 sg.2
  if d.cnt = 0 then (.fail 0, d.rest) else
  let x : Int := if sg.1 then -(d.val : Int) else (d.val : Int)
  if x < -(2 : Int) ^ 31 then (.fail (-(2 : Int) ^ 31), d.rest)
  else if x > (2 : Int) ^ 31 - 1 then (.fail ((2 : Int) ^ 31 - 1), d.rest)
  else (.ok x, d.rest)

/-- `stream >> unsigned` (32 bit): a leading minus sign negates modulo 2³² -/
def numGetUnsigned (r0 : Bytes) : Ext Nat × Bytes :=
  let r := skipws r0
  if r.isEmpty then (.untouched, []) else
  let sg := stripSign r
  let d := scanDigits 0 0 sg.2
  if d.cnt = 0 then (.fail 0, d.rest) else
  if d.val > 2 ^ 32 - 1 then (.fail (2 ^ 32 - 1), d.rest)
  else (.ok (if sg.1 then (2 ^ 32 - d.val) % 2 ^ 32 else d.val), d.rest)

/-! ## the comment lines -/

structure HState where
  offset : F64
  scale : F64
  maxerror : F64
  rmserror : F64
  description : Bytes
  datetime : Bytes
deriving Repr

def HState.init : HState :=
  { offset := Decimal.maxFinite, scale := F64.pzero, maxerror := F64.neg (F64.ofNat 1), rmserror := F64.neg (F64.ofNat 1),
    description := str "NONE", datetime := str "UNKNOWN" }

/-- text after the key of a `Description` / `DateTime` line: `s.substr(s.find_first_not_of(" \t", is.tellg()))`.
    `is.tellg()` is −1 (→ 2³²−1 → nothing found) when the key ran to the end of the line. -/
def textAfterKey (rest : Bytes) : Option Bytes :=
  if rest.isEmpty then none else
  let t := rest.dropWhile (fun c => c == 32 || c == 9)
  if t.isEmpty then none else some t

/-- value stored by `is >> _maxerror` (not an error if it cannot be read) -/
def storeLenient (old : F64) (rest : Bytes) : F64 :=
  match (numGetFloat rest).1 with
  | .untouched => old
  | .fail v => v
  | .ok v => v

/-- one line starting with `#` -/
def procComment (cubic : Bool) (st : HState) (s : Bytes) : Except Err HState :=
  match readToken s with
  | none => .ok st
  | some (cid, r1) =>
    if cid != [35] then .ok st else
    match readToken r1 with
    | none => .ok st
    | some (key, rest) =>
      if key == keyDescription then
        .ok (match textAfterKey rest with | some t => { st with description := t } | none => st)
      else if key == keyDateTime then
        .ok (match textAfterKey rest with | some t => { st with datetime := t } | none => st)
      else if key == keyOffset then
        match (numGetFloat rest).1 with
        | .ok v => .ok { st with offset := v }
        | _ => .error .offsetRead
      else if key == keyScale then
        match (numGetFloat rest).1 with
        | .ok v => .ok { st with scale := v }
        | _ => .error .scaleRead
      else if key == (if cubic then keyMaxCubic else keyMaxBilinear) then
        .ok { st with maxerror := storeLenient st.maxerror rest }
      else if key == (if cubic then keyRMSCubic else keyRMSBilinear) then
        .ok { st with rmserror := storeLenient st.rmserror rest }
      else .ok st

/-- the raster-size line: `is >> _width >> _height` -/
def sizeLine (s : Bytes) : Option (Int × Int) :=
  match (numGetInt s).1 with
  | .ok w =>
    (match (numGetInt (numGetInt s).2).1 with
     | .ok h => some (w, h)
     | _ => none)
  | _ => none

/-- what the loop and the `maxval` extraction leave behind -/
structure Raw where
  st : HState
  w : Int
  h : Int
  maxval : Nat
  /-- `_file.tellg()` after the maxval token (bytes consumed so far); `none` when the token ran to the end of the file
      (`eofbit` ⇒ `tellg` returns −1 and sets `failbit`) -/
  tell : Option Nat
deriving Repr

/-- `_file >> maxval` and `tellg`, on the bytes after the raster-size line; `consumed` = bytes before `r` -/
def readMaxval (st : HState) (w h : Int) (consumed : Nat) (r : Bytes) : Except Err Raw :=
  match (numGetUnsigned r).1 with
  | .ok mv => .ok { st, w, h, maxval := mv,
                    tell := if (numGetUnsigned r).2.isEmpty then none else some (consumed + (r.length - (numGetUnsigned r).2.length)) }
  | _ => .error .maxvalRead

/-- the `while (getline(_file, s))` loop; `total` = length of the whole input (to compute stream positions) -/
def loop (cubic : Bool) (total : Nat) : Nat → HState → Bytes → Except Err Raw
  | 0, _, _ => .error .maxvalRead
  | fuel + 1, st, r =>
    match getline r with
    | none => .error .maxvalRead         -- no raster-size line: the stream has failed, `_file >> maxval` fails
    | some (s, r') =>
      match s with
      | [] => loop cubic total fuel st r'
      | c :: _ =>
        if c = 35 then
          match procComment cubic st s with
          | .error e => .error e
          | .ok st' => loop cubic total fuel st' r'
        else
          match sizeLine s with
          | none => .error .rasterSize
          | some (w, h) => readMaxval st w h (total - r'.length) r'

/-- header scan: magic line, comment loop, raster size, maxval -/
def scan (cubic : Bool) (file : Bytes) : Except Err Raw :=
  match getline file with
  | none => .error .notPGM
  | some (s, r) =>
    if s != magic then .error .notPGM else
    loop cubic file.length (r.length + 1) HState.init r

/-- the accepted header -/
structure Header where
  offset : F64
  scale : F64
  maxerror : F64
  rmserror : F64
  description : Bytes
  datetime : Bytes
  w : Int
  h : Int
  datastart : Nat
deriving Repr

def two64 : Nat := 2 ^ 64

/-- the length test as coded: `_datastart + pixel_size_ * _swidth * (unsigned long long)(_height) != tellg()`,
    all in 64-bit unsigned arithmetic (`_swidth`, `_height` converted from `int`) -/
def lengthOKCoded (datastart : Nat) (w h : Int) (len : Nat) : Bool :=
  (datastart + (pixelSize * (w % (two64 : Int)).toNat % two64) * (h % (two64 : Int)).toNat % two64) % two64 == len % two64

/-- the validation after the loop, in the order of the source -/
def validate (raw : Raw) (len : Nat) : Except Err Header :=
  if raw.maxval != pixelMax then .error .maxvalValue else
  -- `_datastart = tellg() + 1` (tellg = −1 on failure, so `_datastart = 0`)
  let datastart : Nat := match raw.tell with | some p => p + 1 | none => 0
  if F64.eq raw.st.offset Decimal.maxFinite then .error .offsetUnset else
  if F64.eq raw.st.scale 0 then .error .scaleUnset else
  if F64.lt raw.st.scale 0 then .error .scaleNeg else
  if raw.h < 2 ∨ raw.w < 2 then .error .tooSmall else
  if raw.w % 2 = 1 then .error .widthOdd else
  if raw.h % 2 = 0 then .error .heightEven else
  -- `rawval` and `CacheArea` do their index arithmetic (`2 * (_height - 1) - iy`, `ix + _width`) in `int`
  if raw.w > 2 ^ 30 ∨ raw.h > 2 ^ 30 then .error .tooLarge else
  -- `seekg(0, end)` does nothing and `good()` is false when `tellg` has set `failbit`
  if raw.tell.isNone || !lengthOKCoded datastart raw.w raw.h len then .error .wrongLength else
  .ok { offset := raw.st.offset, scale := raw.st.scale, maxerror := raw.st.maxerror, rmserror := raw.st.rmserror,
        description := raw.st.description, datetime := raw.st.datetime, w := raw.w, h := raw.h, datastart }

/-- the constructor up to and including the length test.  `file` must contain every byte the scanner looks at
    (the driver passes the header and the first data bytes; `len` is the length of the whole file). -/
def parse (cubic : Bool) (file : Bytes) (len : Nat) : Except Err Header :=
  match scan cubic file with
  | .error e => .error e
  | .ok raw => validate raw len

/-- did the scanner need bytes beyond the given prefix?  (then the verdict of `parse` on the prefix is not the
    verdict on the file; the driver skips such a case) -/
def prefixSufficient (cubic : Bool) (pre : Bytes) (len : Nat) : Bool :=
  pre.length == len ||
  match scan cubic pre with
  | .ok raw => raw.tell.isSome       -- the maxval token ended inside the prefix
  | .error .maxvalRead => false      -- ran out of bytes
  | .error _ => true

/-- `_rlonres`, `_rlatres` -/
def rlonres (w : Int) : F64 := F64.ofInt w / F64.ofInt Gen.MathC.td
def rlatres (h : Int) : F64 := F64.ofInt (h - 1) / F64.ofInt Gen.MathC.hd

/-- byte offset of pixel `(ix, iy)`: `Geoid::filepos` -/
def filepos (H : Header) (ix iy : Int) : Int := (H.datastart : Int) + 2 * (iy * H.w + ix)

end GeoVerif.GeoidHeader
