"""Per-property configuration of the checks (harnesses, rules, tolerances)."""

PROPS = {}

PROPS["C16"] = dict(
    harnesses=[dict(name="C16", procs_quick=2, procs_thorough=16)],
    rule=("stratified doubles (anchors 0/30/45/60/90/180/360k, 1-3 ulp neighbours, 2100 binades, multiples of 90, subnormals, "
          "near-overflow, cancellation pairs); a case is non-trivial when the implementation returned a non-NaN, non-exception "
          "result; distinct = distinct (op, leading bits of the first three arguments)"),
    tolerances={"sincosd/atan2d": "2 ulp vs 80-bit long double reference", "angnorm/angdiff/sum": "exact (dyadic arithmetic in Lean)",
                "tauf∘taupf": "64 eps × 1/(1-e²)", "accumulator": "2^-100 relative to Σ|terms|"},
    level_text=("Theorems: the quadrant switch of sincosd is correct over the reals for every quotient and remainder (same term as the "
                "executable F64 model). Exact relations decided in Lean's dyadic arithmetic for every sampled input: AngNormalize "
                "(congruent mod 360, range, sign rule), AngDiff (d+e == y-x mod 360 exactly, d rounded), the TwoSum contract, the accumulator "
                "against the exact dyadic sum. sincosd/atan2d wrappers are predicted bit-for-bit from the implementation's own kernel "
                "values; accuracy (2 ulp), special values, parity, periodicity and tauf∘taupf are property-level oracles on the implementation. "
                "Partial: ulp accuracy of libm-based functions and TwoSum for all pairs are not theorems."),
    level_note=("Lean kernel + propext/Classical.choice/Quot.sound; hand-written F64 softfloat model (validated bit-for-bit against the "
                "implementation by the correspondence run); constants qd/hd/td regenerated from Math.hpp; harness oracles use x87 long double"),
    technique="Lean 4 proof (reals) + exact dyadic evaluation in Lean of the property relations on implementation outputs",
    assumptions=["libm sin/cos/atan2 accuracy is measured, not proved", "TwoSum contract is checked exactly per sampled pair, not proved for all pairs"],
)
