"""Per-property configuration of the checks (harnesses, rules, tolerances)."""

PROPS = {}

PROPS["C16"] = dict(
    harnesses=[dict(name="C16", procs_quick=2, procs_thorough=16)],
    rule=("stratified doubles (anchors 0/30/45/60/90/180/360k, 1-3 ulp neighbours, 2100 binades, multiples of 90, subnormals, "
          "near-overflow, cancellation pairs); a case is non-trivial when the implementation returned a non-NaN, non-exception "
          "result; distinct = distinct (op, leading bits of the first three arguments)"),
    tolerances={"sincosd/atan2d": "2 ulp vs 80-bit long double reference", "angnorm/angdiff/sum": "exact (dyadic arithmetic in Lean)",
                "tauf∘taupf": "64 eps × 1/(1-e²)", "accumulator": "2^-100 relative to Σ|terms|"},
    level_text=("Theorems about the exact binary64 model that the driver executes against the implementation (for every finite double, not sampled): "
                "remainder (the reduction inside AngNormalize, AngDiff and sincosd's remquo) is exact — result = x − n·y with n the nearest integer, |result| ≤ |y|/2, "
                "zero keeps the sign of x; AngNormalize returns a finite value congruent to x modulo 360 exactly, in [−180, 180], carrying the sign of x at 0 and ±180, "
                "and NaN for non-finite input (constants 360/180/90 re-extracted from Math.hpp each run); LatFix is the identity exactly on [−90, 90]; AngRound is "
                "the identity, bit for bit, for |x| ≥ 1/16; AngDiff's d + e is congruent to y − x modulo 360 exactly, given the TwoSum contract of its two inner "
                "sums (partial: the contract is evaluated exactly in dyadic arithmetic per sampled pair, not proved for all pairs); the quadrant switch of sincosd "
                "is correct over the reals for every quotient and remainder (same term as the executable model). Exact relations decided in Lean's dyadic "
                "arithmetic for every sampled input: AngNormalize, AngDiff (d+e == y−x mod 360, d rounded), the TwoSum contract, the accumulator "
                "against the exact dyadic sum. sincosd/atan2d wrappers are predicted bit-for-bit from the implementation's own kernel "
                "values; accuracy (2 ulp), special values, parity, periodicity and tauf∘taupf are property-level oracles on the implementation. "
                "Partial: ulp accuracy of libm-based functions and TwoSum for all pairs are not theorems."),
    level_note=("Lean kernel + propext/Classical.choice/Quot.sound; hand-written F64 softfloat model (validated bit-for-bit against the "
                "implementation by the correspondence run); constants qd/hd/td regenerated from Math.hpp; harness oracles use x87 long double"),
    technique="Lean 4 proof (reals) + exact dyadic evaluation in Lean of the property relations on implementation outputs",
    assumptions=["libm sin/cos/atan2 accuracy is measured, not proved", "TwoSum contract is checked exactly per sampled pair, not proved for all pairs"],
)

PROPS["C18"] = dict(
    harnesses=[dict(name="C18", procs_quick=2, procs_thorough=16)],
    rule=("positions: cell edges of each scheme at random level ±0..3 ulp, poles, lon ±180/±540/1e17, uniform; all precisions incl. "
          "out-of-range (clamped); decoder inputs: encoder outputs (random case), single-character mutations (incl. NUL, space, "
          "high-bit bytes, I/O), insert/delete, random alphabet strings, INVALID forms; non-trivial = accepted (no exception); "
          "distinct = distinct (op, leading bits of arguments)"),
    tolerances={"forward strings": "equal to the code of the exact containing cell (exact dyadic arithmetic in Lean); the coded cell of the one-rounding model is reported as sliver class F2",
                "reverse values": "bit-equal to the F64 model or within 2^-48 relative of the exact centre/corner"},
    level_text=("Theorems (integer level, all inputs): decode∘encode and alphabet/prefix laws for the codecs (see Props/C18.lean). The single floating "
                "rounding in front of the integer codec is modelled in an exact binary64 softfloat and every sampled implementation output is "
                "compared in Lean with (a) the code of the exact containing cell and (b) the modelled cell; decoders are compared on accept/reject, "
                "precision and value. Harness oracles on the implementation: alphabet, prefix law, decode∘encode, re-encode, case-insensitivity, "
                "accepted-string-is-a-code, outputs untouched on throw. "
                "Added (all inputs, proved): the rounding theory of the executable binary64 model (Proofs/Round53.lean: roundTo_spec, roundTo_halfulp, "
                "round53_relerr, roundTo_mono, roundTo_idem, round53_int, RoundSpec round53) and, from it, gars_scale_contains / georef_scale_contains "
                "(the coded cell is the exact cell of the prepared point or, only when the rounded product is exactly the next integer, its upper "
                "neighbour: class F2), gars_scale_shape, gars_scale_exact_of_representable; integer round trips digits_readback (every table), "
                "gars_decode_encode (all cells, precisions, centerp) and geohash_decode_encode / geohash_decode_encode46 (all cells, all lengths). "
                "geohash_scale_contains (division-based scale step: Dy.divTo is proved to be the correctly rounded quotient, Proofs/DivTo.lean divTo_isRN; the "
                "constants 180/2^45, 90/2^45, the pole adjustment and the addition of 2^45 are proved exact). "
                "End to end on the exact cell: gars_cell_contains, georef_cell_contains (prec 2..11) and geohash_cell_contains (the decoded cell of the exact code contains the prepared point, "
                "every accepted finite position, every precision/length). "
                "Georef integer round trip for every cell and precision: georef_decode_encode_tile / _degree / _long (the digit loop of Reverse is "
                "turned into a fold, Proofs/GeorefLoop.lean, and evaluated on the digits of the encoder for all prec 2..11). "
                "osgb_tile_contains covers the first OSGB scale step (x / tile, floor). Not proved: the later steps of the multi-step OSGB scale; decode∘encode for OSGB (its Reverse is floating point; correspondence only)."),
    level_note=("alphabets and integer constants of all four classes regenerated from the sources each run; hand-written models of Forward/Reverse; "
                "pow(10,k) and integer→double conversions assumed exact (they are, for the ranges used)"),
    technique="Lean 4 proof of the integer codecs + exact-arithmetic correspondence of the scaling step and decoders against the implementation",
    assumptions=["glibc pow(10, k), k ≤ 11, is exact"],
)

PROPS["C04"] = dict(
    harnesses=[dict(name="C04", procs_quick=2, procs_thorough=16)],
    rule=("(lat, lon): zone boundaries, band edges -80/84/56/64/72, Norway/Svalbard corners, each ±0..2 ulp, integer degrees, lon ±180/±540/1e17/inf, "
          "NaN; setzone over [-5, 61]; (zone, northp, x, y) on / 1 ulp beyond / 100 km beyond each rectangle edge, both mgrslimits; transfers between "
          "neighbouring zones and hemispheres incl. MATCH; zone strings over the alphabet 0-9 n s o r t h u i v + - space and NUL; EPSG around the "
          "valid windows. non-trivial = no exception; distinct = distinct (op, leading bits of the arguments)"),
    tolerances={"zone/hemisphere/accept-reject/strings/EPSG": "exact", "x, y": "model ± 2^-51 relative (false-origin addition)", "gamma, k": "bit-equal to the underlying projection's",
                "closure": "20 nm (4 × documented 5 nm) within 30° of the central meridian", "transfer": "40 nm vs Reverse+Forward"},
    level_text=("Theorems (all inputs): the zone rule on integer degrees (standard 6° zones, Norway and Svalbard exceptions, range 1..60), the eight range "
                "tables equal the documented rectangles, CheckCoords accepts exactly the closed rectangles (widened by 100 km unless mgrslimits), "
                "zone-string and EPSG round trips (finite: decide; EPSG: omega). The executable model of StandardZone / Forward bookkeeping / Reverse "
                "acceptance / DecodeZone / EncodeZone / EPSG / same-zone Transfer is compared exactly with the implementation; closure, transfer "
                "consistency and outputs-untouched-on-throw are oracles on the implementation. Partial: the 5 nm accuracy of the projections is C06/C11. "
                "Added theorems on the value semantics of the executed binary64 model: checkCoords_iff / checkCoords_rectangles (accepted ⇔ NaN or finite inside "
                "the closed rectangle of the Gen tables ± 100 km unless mgrslimits; ±inf rejected); standardZone_spec / standardZone_utm / standardZone_explicit / "
                "standardZone_nonfinite (the zone rule on real-valued latitude and exactly reduced longitude, through floor/remainder/AngNormalize exactness, "
                "not only integer degrees); transfer_same / transfer_diff / transfer_spec (full Transfer around arbitrary Reverse/Forward kernels: same zone ⇒ "
                "unchanged except the ∓10^7 m northing shift, UPS hemisphere change ⇒ error, different zone ⇒ Forward∘Reverse with MATCH = input zone); the "
                "full-Transfer model is executed against the implementation (op transfer_via, kernels = the implementation's own Reverse/Forward, bit-exact)."),
    level_note=("MGRS/UTMUPS constants, range tables (as C++ constant expressions evaluated by the translator), zonespec enum and EPSG constants regenerated "
                "from the sources each run; strtol modelled by hand; projection kernels are parameters supplied by the implementation"),
    technique="Lean 4 proof of the discrete rules + exact correspondence of the executable model against the implementation",
    assumptions=["TransverseMercator::UTM()/PolarStereographic::UPS() are treated as kernels here (covered by C06/C11)"],
)

PROPS["C05"] = dict(
    harnesses=[dict(name="C05", procs_quick=2, procs_thorough=16)],
    rule=("(zone, hemisphere, x, y, prec): tile edges, square edges at every precision ±0..2 ulp, closed upper edges, the equator from both "
          "hemispheres, out-of-range and NaN/inf; explicit latitudes consistent / 8° off / tiny / mirrored; decoder inputs: encoder outputs (both "
          "cases), single-character mutations (I, O, NUL, space, high-bit), insert/delete, truncations to grid-zone-only, wrong band letters, extra "
          "leading digits, random alphanumerics; all 3200 UTMRow inputs, all 1200 grid-zone-only strings, all 3200 band/column/row combinations of "
          "one zone (six in thorough). non-trivial = no exception; distinct = distinct (op, leading bits of arguments)"),
    tolerances={"strings, zone, hemisphere, precision, accept/reject": "exact", "Reverse x, y": "bit-equal to the F64 model (one division)",
                "containment": "4 nm (the exact statement is decided in Lean's dyadic arithmetic)", "band letter": "neighbour allowed within 20 nm of a band edge (4 × 5 nm)"},
    level_text=("Theorems (all inputs of the integer level): letter tables well-formed and inverted by lookup, the float expression for the UTMRow safe "
                "bounds evaluates (in the binary64 model, inside the kernel) to the table in the source comment, UTMRow returns the unique allowed "
                "row congruent to the row letter (or 100), digit truncation/prefix laws, Reverse∘Forward on the integer level. The executable model "
                "of Forward (both overloads), Reverse, CheckCoords and UTMRow is compared exactly with the implementation on every sampled input; "
                "round trip, re-encode, prefix law, band letter vs latitude, block/band geography and outputs-untouched are oracles on the implementation. "
                "Added (proved, all UTM zones 1..60, bands, tiles, precisions 0..11, centerp): reverse_forward_utm with encodeInt_utm and decode_utm — "
                "when Forward's own band/row consistency test passes it writes utmString, and Reverse of that string returns the same zone, the band's "
                "hemisphere, the precision and tile+digits of the same square (northing tile re-expressed in the band's hemisphere); "
                "and reverse_forward_ups with encodeInt_ups / decode_ups for both poles and every tile of the UPS range."),
    level_note=("MGRS letter tables and constants regenerated from MGRS.cpp/MGRS.hpp each run; hand-written model of the control flow; the latitude used "
                "by the lat-less overload when its cheap bounds straddle a band edge is a kernel value supplied by UTMUPS::Reverse"),
    technique="Lean 4 proof (decide +kernel over the finite tables, induction for digit laws) + exact model/implementation correspondence",
    assumptions=["UTMUPS::Reverse is a kernel here (C04/C06)"],
)

PROPS["C08"] = dict(
    harnesses=[dict(name="C08", procs_quick=2, procs_thorough=16)],
    rule=("random edit histories (Clear/AddPoint/AddEdge/TestPoint/TestEdge/Compute, length ≤ 30 quick / ≤ 200 thorough) over Geodesic, "
          "GeodesicExact and Rhumb back ends, polygon and polyline, all reverse/sign combinations; vertices on lon 0, ±180, ±360, ±540, ±1 ulp, "
          "multiples of 90, poles, clusters (short edges), edges of length 0 and of several circuits; transit/transitdirect on nasty longitude pairs; "
          "metamorphic laws on 3..9-gons incl. vertices on multiples of 90°. non-trivial = history with ≥ 2 vertices at a Compute; distinct = distinct "
          "(op, leading bits of first arguments)"),
    tolerances={"num, crossings (through the area)": "exact", "perimeter/area vs exact rational bookkeeping": "8·2^-53·(Σ|terms| + A)",
                "metamorphic laws": "64e-15·(A+|area|) area, 1e-13 relative perimeter"},
    level_text=("Theorems (all inputs / all histories): transit equals the jump of ⌊λ/360⌋ along an edge (pointwise, from the AngNormalize/AngDiff contract) and "
                "its sum over any closed chain is the winding number Σ AngDiff/360; transitdirect has the parity of ⌊λ₂/360⌋−⌊λ₁/360⌋; AreaReduce ranges and "
                "flip laws; TestPoint/TestEdge return what AddPoint/AddEdge followed by Compute return and do not change the state; Clear restores the "
                "initial state; sums are invariant under rotation of the vertex list. The executable model (exact rational sums, the solver's edge "
                "values as kernel inputs) is compared with the implementation over random histories; start-vertex, +360k, constant-shift, reversal, "
                "flag and cut-additivity laws are oracles on the implementation. "
                "Added theorems: areaReduce_cong / areaReduce_eq_of_cong (the reduced area is ±(area + crossings·A/2) modulo A and depends on nothing else); "
                "areaReduce_flip (reverse: a ↦ −a signed, A−a unsigned, with the end points); areaReduce_neg_area, transitQ_antisymm and reverse_traversal "
                "(reversed traversal = reverse flag flipped); polygon_eq and start_independent (the whole run AddPoint*;Compute of the executed state machine "
                "over any backend equals AreaReduce of cyclic sums and is invariant under rotation of the vertex list); edge_relabel, relabel_cong and "
                "area_relabel_invariant (λ_i ↦ λ_i+360k under the tie contract S12(+180)−S12(−180)=A/2: the pair (ΣS12, crossings) is invariant modulo A although "
                "neither component is); crossings_swept and area_shift_invariant (360·Σtransit = ΣAngDiff on closed chains; constant shifts); cut_additive "
                "(areas add modulo A along a diagonal for an antisymmetric backend). The relabel/shift theorems are stated on the ℚ-level edge contract (Edge), "
                "the run theorems on the executed definitions with the parity antisymmetry of transit as a hypothesis (non-vacuity examples by decide)."),
    level_note=("hand-written model of PolygonArea.cpp; the geodesic/rhumb solvers are kernels whose per-edge outputs are fed to the model (their "
                "correctness is C01–C03/C09); AngDiff/AngNormalize/remainder are the exact F64 models of C16"),
    technique="Lean 4 proof (induction over histories, floor arithmetic over ℚ) + correspondence of the exact-arithmetic model against the implementation",
    assumptions=["edges are unique shortest lines (ambiguous 180° edges are excluded from the metamorphic oracles, as the statement allows)"],
)

PROPS["C20"] = dict(
    harnesses=[dict(name="C20", procs_quick=2, procs_thorough=16)],
    rule=("synthetic PGM rasters written by the harness (even width 2..16 quick / ..80 thorough, odd height 3..9 / ..41, random / ramp / zonal pixels, "
          "several offsets and scales), bilinear and cubic, plain and thread-safe objects; histories (≤ 40 quick / ≤ 200 thorough ops) of height "
          "queries interleaved with CacheArea / CacheAll / CacheClear; positions at nodes, on cell edges, poles, lon 0/±180/±360/540 ±ulp, repeated "
          "cells, neighbouring cells, polar caps next to ±180, NaN and out-of-range latitudes; cache windows straddling lon 0 and reaching the poles, "
          "south>north (clear); structured malformed headers. non-trivial = finite height returned; distinct = distinct (op, leading argument bits)"),
    tolerances={"history / cache-mode independence": "bit-for-bit (implementation vs fresh and thread-safe objects)",
                "height vs model": "bit-equal to the F64 model or within 2^-50·(|offset|+65535·scale)", "header accept/reject": "exact"},
    level_text=("Theorems (all op sequences, all rasters): every step of the cache state machine keeps the invariant (area cache = file contents at the "
                "wrapped/reflected position, cell cache = prepared stencil of that cell) and every height equals the state-free heightSpec as the same "
                "term, in all cache modes (induction over histories); stencil indices stay in bounds; the interior cubic table reproduces every cubic and "
                "solves the weighted normal equations. Hypotheses (cell location inside the raster, cache window within one period) are checked by the "
                "driver on every query/CacheArea of the run. The stateful model executes every sampled history against the implementation; "
                "bit-for-bit independence of history and cache mode is also checked implementation-vs-implementation. "
                "Added (proved, all positions, every raster width 2 ≤ w ≤ 2^31): concrete_envOK / concrete_run_eq_spec — the binary64 cell location "
                "⌊lon·rnd(w/360)⌋ wrapped by ±w stays in [0, w), from the monotonicity of correct rounding (Proofs/RoundQ.lean IsRN.mono, "
                "Proofs/DivTo.lean divTo_isRN, Proofs/GeoidLoc.lean locF_ix_range); the location hypothesis of EnvOK is thereby discharged for the "
                "executed model (the cache-window hypothesis WindowOK remains checked per CacheArea)."),
    level_note=("cubic tables and table sizes regenerated from Geoid.cpp each run; hand-written model of height / rawval / CacheArea; iostream header parsing "
                "is modelled only structurally (the harness composes the header from fields)"),
    technique="Lean 4 proof by induction over operation histories (refinement to a state-free spec) + exact model/implementation correspondence",
    assumptions=["the harness composes PGM headers from fields; iostream tokenisation is not modelled"],
)

PROPS["C12"] = dict(
    harnesses=[dict(name="C12", procs_quick=2, procs_thorough=16)],
    rule=("written sets: every one of the 512 output-mask combinations (9 flag constants incl. DISTANCE_IN and LONG_UNROLL) × capability sets (40 "
          "quick / all 512 thorough) × arcmode × {series, exact=true, GeodesicExact} for GeodesicLine(Exact)::GenPosition, all 512 masks for "
          "GenDirect / GenInverse of the four solvers incl. Rhumb, outputs pre-filled with distinct sentinels; values: random lines incl. polar / "
          "meridional / multi-circuit / tiny lengths, 64+ masks each, lines with full and with minimal capabilities and GenDirect vs the full-mask "
          "reference; arc-vs-distance, DirectLine / ArcDirectLine / InverseLine / SetDistance / SetArc third point; Rhumb with and without LONG_UNROLL. "
          "non-trivial = at least one output written; distinct = distinct (op, arguments)"),
    tolerances={"written sets / NaN return": "exact", "line and GenDirect values vs full mask": "bit-for-bit",
                "GenInverse m12, M12, M21 without DISTANCE": "8 ulp + 1 nm / 4e-15", "arc vs distance": "100 nm × max(1, a12/180)"},
    level_text=("Theorems: the mask enums have the documented bit layout (output bits 7–15 pairwise distinct, capability bits below 7, OUT_MASK/OUT_ALL "
                "cover them); an output is written iff its bit is in outmask ∩ caps ∩ OUT_MASK and the point is locatable; the written set is monotone "
                "and additive in the mask, contained in the request, empty (NaN return) without DISTANCE_IN in distance mode; LATITUDE, AZIMUTH and "
                "LONG_UNROLL are always available on a line. The model is compared exactly with the implementation for every mask/capability "
                "combination sampled (exhaustive in thorough); independence of the *values* from the mask, overload and capabilities is a "
                "bit-for-bit oracle on the implementation. "
                "Added theorems on a hand-written symbolic dataflow model of GenPosition's output assembly (series and exact line classes; expression trees "
                "over uninterpreted symbols, fields guarded by the CAP bit under which LineInit sets them; not executed — validated by the bit-for-bit "
                "oracle): value_mask_independent (two masks under which an output is written assign it the same term; lon2 additionally needs equal "
                "LONG_UNROLL), genPosition_isSome_iff (assigned ⇔ in the executed `written` set), value_caps_independent with cap_bits (capabilities that "
                "contain an output's whole flag leave no unset field in its term; CAP bits of the flags re-read from the headers), third_point_distance / "
                "third_point_arc / inverseLine_third_point / directLine_third_point (SetDistance/SetArc/InverseLine/DirectLine address the σ12 of the defining "
                "call; InverseLine sets a13 = a12 and adds DISTANCE when DISTANCE_IN is requested)."),
    level_note="mask/captype enums of Geodesic, GeodesicExact and Rhumb regenerated from the headers each run; hand-written model of the mask logic of GenPosition/GenDirect/GenInverse",
    technique="Lean 4 proof of the mask algebra over the extracted enums + exhaustive exact correspondence of written sets",
    assumptions=["value independence is checked on the implementation (bit equality), not derived from a dataflow model"],
)

PROPS["C07"] = dict(
    harnesses=[dict(name="C07", procs_quick=2, procs_thorough=16)],
    rule=("ellipsoids f ∈ {WGS84, 0, ±0.5, 0.99, 0.1, −0.01, 1/297}; forward: all latitudes incl. poles, heights −a/2 … 1e20; reverse: |r| from 1e-20 to "
          "1e300 by decades, the rotation axis, the equatorial plane, inside the singular disc (Z = 0, ±denormal, ±1e-9…1), the rim R = a·e² ± 0..40 ulp, "
          "prolate singular segment ends ± ulps, the _maxrad switch-over; LocalCartesian origins incl. poles. non-trivial = finite result; distinct = "
          "distinct (op, leading argument bits)"),
    tolerances={"Forward vs closed form (long double)": "4 ulp of |h|+a", "Reverse closure": "16·1.2e-16·max(|r|, a)/(1−f)", "forward-then-reverse": "30 nm for |h| < 1e7 m",
                "model vs impl": "1e-15 relative (forward), 1e-9 relative (reverse: model hypot/atan2d differ in the last bits)", "rotation": "8e-16"},
    level_text=("Theorems over ℝ about the formula models that the driver evaluates in binary64 against the implementation: the rotation matrix is "
                "orthonormal with determinant +1, its columns are east/north/up; the forward point lies on the ellipsoid for h = 0 and is displaced by h "
                "along the normal; LocalCartesian is a rigid motion (origin ↦ 0, distances preserved, reverse∘forward = id). The full reverse algorithm "
                "(all branches incl. the singular disc) is modelled and run against the implementation; closure, ranges, forward-then-reverse, "
                "orthonormality and isometry are oracles on the implementation. Partial: no theorem that the Vermeille branch inverts forward."),
    level_note="hand-written polymorphic model (RealLike) of Geocentric.cpp / LocalCartesian.cpp; sincosd/atan2d are kernels; native Float hypot is emulated",
    technique="Lean 4 proofs over ℝ of the closed-form model (ring / linear_combination / field_simp) + binary64 execution of the same definitions against the implementation",
    assumptions=["libm kernels (cbrt, atan2, cos, hypot) agree between Lean's Float and C++ to a few ulp"],
)

PROPS["C01"] = dict(
    harnesses=[dict(name="C01", procs_quick=4, procs_thorough=16)],
    rule=("f ∈ {WGS84, 0, ±1e-3, ±1/150, ±0.01, ±1/64, ±0.02} (series and exact) and b/a ∈ {1/2, 2, 1/4, 4} (exact only); lat1 ∈ {±90, ±(90−1e-10), "
          "0, ±1e-10, uniform}; azi1 ∈ {0, ±90, ±180, ±1e-10, 180−1e-10, uniform}; lengths as distance and as arc, negative, 0, 1e-9 m, up to 10 "
          "circuits; lon1 incl. ±180, 359, −540, 720. non-trivial = finite result compared with the oracle; distinct = distinct (op, leading argument bits)"),
    tolerances={"series": "4 × {15 nm (|f| ≤ 1/250), 26 nm (≤ 1/100), 31 nm (≤ 1/50)} × a/a_WGS84 × max(1, |σ12|/180°)",
                "exact": "4 × {40 nm (b/a ∈ [1/2, 2]), 96 nm ([1/4, 4])} × …", "delegation / line forms": "bit-for-bit",
                "ranges": "exact (decided in Lean)"},
    level_text=("Theorems: the Maxima-generated series tables A1, C1, A2, C2 of Geodesic.cpp (re-extracted each run) equal the Taylor coefficients of "
                "their generating functions (binomial series of √(1+k² sin²σ) and its reciprocal) as exact rationals (decide +kernel); the C1′ table reverts C1 (composition = identity mod ε^(N+1), truncated trigonometric-series CAS) and the bivariate tables A3, C3 are the mean and the cos 2lσ coefficients of the I3 integrand (2−f)/(1+(1−f)√(1+k² sin²σ)), f = 2n/(1+n), expanded to total degree N−1 in (n, ε) (and, as a second route, satisfy integrand × denominator = 2(1−ε)) — every table entry is determined; the Clenshaw "
                "loop SinCosSeries equals the trigonometric sum it represents, for every coefficient vector and argument (ℝ). The implementation is "
                "compared with a specification oracle (defining integrals by Gauss–Legendre quadrature in 80-bit arithmetic, independent of the "
                "library) for position, azimuth, distance/arc and unrolled longitude in all four solver configurations; output ranges are decided in "
                "Lean on every sampled result. Partial: the nanometre error bound of the floating-point solver is not a theorem."),
    level_note="series tables and the series order regenerated from Geodesic.cpp; oracle in x87 long double (≈1e-19 relative); published accuracy figures × 4 as tolerance",
    technique="Lean 4 table certificates (decide +kernel over exact rationals) and exact-real Clenshaw theorem + oracle correspondence",
    assumptions=["the generating functions / defining relations are those of Karney (2013) eqs. 8, 15–25, 41–43 (integrands and Fourier structure taken from the paper and maxima/geod.mac, not re-derived from the integrals in Lean)"],
)

PROPS["C03"] = dict(
    harnesses=[dict(name="C03", procs_quick=4, procs_thorough=16)],
    rule=("segments as in C01 (direct, distance and arc, up to two circuits) and point pairs (incl. equatorial, symmetric, nearby) on f ∈ {WGS84, 0, "
          "±1e-3, ±1/150, ±0.01, ±0.02} (both solvers) and b/a ∈ {1/2, 2} (exact); split point at 37 % of the segment; a triangle closed through a "
          "third vertex. non-trivial = finite values compared with the oracle; distinct = distinct (op, leading argument bits)"),
    tolerances={"m12": "2 × position tolerance of C01", "M12, M21": "2·tol/a + 8e-16", "S12": "0.4 m² (|f| ≤ 1/100), 1.5 m² (≤ 1/50), exact: 0.4 / 2 m²; × (a/a_WGS84)² × max(1, a12/180)",
                "EllipsoidArea": "8 ulp of 4π c2"},
    level_text=("Theorems: J12 assembled as m0·σ12 + (A1 B1 − A2 B2) equals the combined-series form used when DISTANCE is not requested (ring identity, "
                "so m12, M12, M21 do not depend on it); the sign bookkeeping of S12 (swapp·lonsign·latsign) and the M12↔M21 exchange under reversal; "
                "table certificates A1, C1, A2, C2 shared with C01; the area-series table C4: Σ(2l+1)C4_l sin((2l+1)σ) equals the I4 integrand [t(e′²) − t(k² sin²σ)]/(e′² − k² sin²σ)·sin σ/2 (Karney 2013 eq. 60–61, e′² = 4n/(1−n)², k² = 4ε/(1−ε)²) expanded to total degree N−1 in (n, ε), and, as a second route, the multiplied-out relation modulo total degree N+1 — every entry is determined (decide +kernel). m12, M12, M21, S12 from the direct, inverse and line interfaces of both solvers are "
                "compared with the defining expressions evaluated by quadrature in 80-bit arithmetic; reversal, the published addition rules, "
                "interface agreement, triangle sums and EllipsoidArea = 4πc² are oracles on the implementation. Partial: the accuracy of the floating-point evaluation is covered by the oracle only, not by a theorem."),
    level_note="oracle as in C01 plus the area integrand I4 (Karney 2013 eq. 59–61); S12 is not compared where the path touches a pole (it is discontinuous there)",
    technique="Lean 4 algebraic identities and table certificates + quadrature-oracle correspondence",
    assumptions=["S12 compared modulo 2πc² for multi-circuit lines", "the I4 integrand is that of Karney (2013) eqs. 60–61 / computeI4 of maxima/geod.mac; t(x) enters through the power series solving its ODE (checked)"],
)

PROPS["C02"] = dict(
    harnesses=[dict(name="C02", procs_quick=4, procs_thorough=16)],
    rule=("point pairs: the antipodal astroid region (lat2 = −lat1 + u·10^-k, lon12 = 180 − v·10^-k, k = 1…12), poles, equatorial pairs inside and beyond "
          "(1−f)·180°, common meridian (0 and 180°), separations 1e-15…1e-3 degree, coincident, ±360k longitudes, lat2 = −lat1; f ∈ {WGS84, 0, ±1e-3, "
          "±1/150, ±0.01, ±0.02} (both solvers), {0.5, −1, ±0.1} (exact); wrapper correspondence on inputs with exactly representable longitude "
          "differences. non-trivial = finite result; distinct = distinct (op, leading argument bits)"),
    tolerances={"closure (oracle direct from point 1)": "1.5 × 4 × documented accuracy × max(1, a12/180)", "a12, azimuth ranges, s12 ≥ 0": "exact (Lean)",
                "wrapper image": "bit-for-bit up to the sign of zero", "series vs exact": "sum of both tolerances", "triangle inequality": "4 × tol"},
    level_text=("Theorems (for every core solver): the tail of GenInverse maps the canonical answer so that exchanging the end points reverses and "
                "exchanges the azimuths and M12/M21 and negates S12, reflection in the equator maps azi ↦ 180 − azi, reflection in a meridian azi ↦ −azi, "
                "each negating S12; sign flips are involutions; the core is only called on canonical problems. The executable model of the "
                "canonicalisation predicts, bit for bit, the implementation's answer on a general input from its answer on the canonical one. Closure "
                "through the specification oracle, a12 ∈ [0, 180], m12 ≥ 0 (no conjugate point inside), triangle inequality through way points, "
                "longitudinal extent on prolate ellipsoids, symmetries and solver agreement are checked on the implementation. Partial: convergence "
                "of the Newton iteration and global minimality are not theorems."),
    level_note="hand-written model of the head and tail of Geodesic::GenInverse / GeodesicExact::GenInverse over the exact F64 softfloat; the solver proper is a kernel",
    technique="Lean 4 proof of the symmetry bookkeeping for an arbitrary core + exact wrapper correspondence + oracle closure",
    assumptions=["AngDiff/AngRound/LatFix models of C16"],
)


# ---- per-property plug-ins: tools/props.d/Cxx.py executes with PROPS in scope --------------------------------
import glob as _glob, os as _os
for _f in sorted(_glob.glob(_os.path.join(_os.path.dirname(_os.path.abspath(__file__)), "props.d", "*.py"))):
    exec(compile(open(_f).read(), _f, "exec"), {"PROPS": PROPS, "__file__": _f})

# generators of tools/translate.py each property's model/theorems read (a translator failure in another generator
# is not this property's broken correspondence)
_GENS = {"C16": ["gen_math"], "C18": ["gen_math", "gen_gridcodes"], "C04": ["gen_math", "gen_utm"], "C05": ["gen_math", "gen_utm"],
         "C08": ["gen_math"], "C20": ["gen_geoid"], "C12": ["gen_mask"], "C07": [], "C01": ["gen_geodseries", "gen_math"],
         "C02": ["gen_math"], "C03": ["gen_geodseries", "gen_math"]}
for _k, _v in _GENS.items():
    PROPS[_k].setdefault("gens", _v)
