#!/bin/bash
# run_seeded.sh <seeded id | commit:<sha>> <Cxx> [tier]
# Applies a seeded change (or reverts a fix commit) to a scratch worktree of /repo's HEAD (so that /repo itself, which other
# running checks build from, is never disturbed), runs the check against it through GV_REPO, removes the change again.
# (Equivalent to: git -C /repo apply <patch>; ./check <Cxx> <tier>; git -C /repo checkout -- .)
id=$1; prop=$2; tier=${3:-quick}
S=/tmp/r/seedrun-$$   # one scratch worktree per invocation: concurrent runs must not reset each other
git -C /repo worktree add -q --detach $S
git -C $S checkout -q --detach $(git -C /repo rev-parse HEAD) && git -C $S checkout -q -- .
case "$id" in
  commit:*) git -C $S show ${id#commit:} | git -C $S apply -R || { echo "cannot revert"; exit 9; } ;;
  *) git -C $S apply /verif/seeded/$id/patch.diff || { echo "cannot apply"; exit 9; } ;;
esac
cd /verif; GV_REPO=$S ./check $prop $tier > /tmp/seeded_$id.$prop.out 2>&1; rc=$?
git -C /repo worktree remove --force $S
# the evidence file must describe /repo itself: restore it from git if it was committed
git -C /verif checkout -q -- evidence/$prop.json 2>/dev/null
echo "== $id vs $prop ($tier): exit=$rc :: $(grep -m1 VIOLATION /tmp/seeded_$id.$prop.out | cut -c1-150)"
grep -A1 -m1 VIOLATION /tmp/seeded_$id.$prop.out | tail -1 | cut -c1-250
