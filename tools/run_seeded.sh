#!/bin/bash
# run_seeded.sh <seeded id | commit:<sha>> <Cxx> [tier]   -- apply a seeded change (or revert a fix commit) to /repo, run the check, restore
id=$1; prop=$2; tier=${3:-quick}
cd /repo && git checkout -q -- . 
case "$id" in
  commit:*) git show ${id#commit:} | git apply -R || { echo "cannot revert"; exit 9; } ;;
  *) git apply /verif/seeded/$id/patch.diff || { echo "cannot apply"; exit 9; } ;;
esac
cd /verif; ./check $prop $tier > /tmp/seeded_$id.$prop.out 2>&1; rc=$?
git -C /repo checkout -q -- .
echo "== $id vs $prop ($tier): exit=$rc :: $(grep -m1 VIOLATION /tmp/seeded_$id.$prop.out | cut -c1-150)"
grep -A1 -m1 VIOLATION /tmp/seeded_$id.$prop.out | tail -1 | cut -c1-250
